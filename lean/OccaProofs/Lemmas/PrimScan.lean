import OccaProofs.Lemmas.PrimInt
namespace Occa.Prim.Lemmas
open Occa Occa.CExpr Occa.CxxSem Occa.Gen Occa.Prim

/-! ### characters: everything the literal scanner looks at is ASCII, so facts are 128-row tables -/

theorem ascii_table (Q : Char → Bool) (h : ∀ n, n < 128 → Q (Char.ofNat n) = true) (c : Char) (hc : c.toNat < 128) :
    Q c = true := by
  have := h c.toNat hc
  rwa [Char.ofNat_toNat] at this

theorem le_toNat {c d : Char} (h : c ≤ d) : c.toNat ≤ d.toNat := by
  exact h

theorem digit_ascii {r : Nat} {c : Char} (h : isDigitOf r c = true) : c.toNat < 128 := by
  simp only [isDigitOf, Bool.and_eq_true, decide_eq_true_eq] at h
  rcases h.1 with h1 | h1 | h1
  · have := le_toNat h1.2; simp at this; omega
  · have := le_toNat h1.2; simp at this; omega
  · have := le_toNat h1.2; simp at this; omega


def hexStep (c : Char) : Option Nat :=
  let C := upper c
  if '0' ≤ C ∧ C ≤ '9' then some (C.toNat - '0'.toNat)
  else if 'A' ≤ C ∧ C ≤ 'F' then some (10 + C.toNat - 'A'.toNat) else none

theorem scanHex_cons (c : Char) (r : List Char) (v n : Nat) :
    scanHex (c :: r) v n =
      match hexStep c with
      | some d => scanHex r ((v * 16 + d) % two64) (n + 1)
      | none => (v, n, c :: r) := by
  simp only [scanHex, hexStep]
  split <;> rename_i h1
  · simp [h1]
  · split <;> rename_i h2 <;> simp [h1, h2]

def isSufChar (c : Char) : Bool := c = 'u' || c = 'U' || c = 'l' || c = 'L'

theorem hex_table : ∀ n, n < 128 →
    (!isDigitOf 16 (Char.ofNat n) || hexStep (Char.ofNat n) == some (digitVal (Char.ofNat n))) = true := by
  decide +kernel

theorem hexStep_digit {c : Char} (h : isDigitOf 16 c = true) : hexStep c = some (digitVal c) := by
  have := ascii_table (fun c => !isDigitOf 16 c || hexStep c == some (digitVal c)) hex_table c (digit_ascii h)
  simpa [h] using this

theorem dec_table : ∀ n, n < 128 →
    (!isDigitOf 10 (Char.ofNat n) ||
      (decide ('0' ≤ Char.ofNat n ∧ Char.ofNat n ≤ '9') && ((Char.ofNat n).toNat - '0'.toNat == digitVal (Char.ofNat n))
        && decide (Char.ofNat n ≠ 't' ∧ Char.ofNat n ≠ 'f' ∧ Char.ofNat n ≠ '+' ∧ Char.ofNat n ≠ '-' ∧ Char.ofNat n ≠ '.'))) = true := by
  decide +kernel

theorem dec_digit {c : Char} (h : isDigitOf 10 c = true) :
    ('0' ≤ c ∧ c ≤ '9') ∧ c.toNat - '0'.toNat = digitVal c ∧ c ≠ 't' ∧ c ≠ 'f' ∧ c ≠ '+' ∧ c ≠ '-' ∧ c ≠ '.' := by
  have := ascii_table (fun c => !isDigitOf 10 c ||
      (decide ('0' ≤ c ∧ c ≤ '9') && (c.toNat - '0'.toNat == digitVal c)
        && decide (c ≠ 't' ∧ c ≠ 'f' ∧ c ≠ '+' ∧ c ≠ '-' ∧ c ≠ '.'))) dec_table c (digit_ascii h)
  simp [h] at this
  exact ⟨this.1.1, this.1.2, this.2⟩

theorem bin_table : ∀ n, n < 128 →
    (!isDigitOf 2 (Char.ofNat n) ||
      (decide (Char.ofNat n = '0' ∨ Char.ofNat n = '1') && ((Char.ofNat n).toNat - '0'.toNat == digitVal (Char.ofNat n)))) = true := by
  decide +kernel

theorem bin_digit {c : Char} (h : isDigitOf 2 c = true) : (c = '0' ∨ c = '1') ∧ c.toNat - '0'.toNat = digitVal c := by
  have := ascii_table (fun c => !isDigitOf 2 c ||
      (decide (c = '0' ∨ c = '1') && (c.toNat - '0'.toNat == digitVal c))) bin_table c (digit_ascii h)
  simpa [h] using this

theorem digit_mono {r s : Nat} (hrs : r ≤ s) {c : Char} (h : isDigitOf r c = true) : isDigitOf s c = true := by
  simp only [isDigitOf, Bool.and_eq_true, decide_eq_true_eq] at h ⊢
  exact ⟨h.1, by omega⟩

theorem digitVal_lt {r : Nat} {c : Char} (h : isDigitOf r c = true) : digitVal c < r := by
  simp only [isDigitOf, Bool.and_eq_true, decide_eq_true_eq] at h
  exact h.2


/-! ### Horner evaluation, exact and in uint64_t -/

def horner (r : Nat) (v : Nat) (ds : List Char) : Nat := ds.foldl (fun acc c => acc * r + digitVal c) v
def hornerMod (r : Nat) (v : Nat) (ds : List Char) : Nat := ds.foldl (fun acc c => (acc * r + digitVal c) % two64) v

theorem digitsVal_eq_horner (r : Nat) (ds : List Char) : digitsVal r ds = horner r 0 ds := rfl

theorem horner_ge {r : Nat} (hr : 1 ≤ r) (ds : List Char) : ∀ v, v ≤ horner r v ds := by
  induction ds with
  | nil => intro v; exact Nat.le_refl _
  | cons c t ih =>
    intro v
    have h1 : v ≤ v * r + digitVal c := by
      have := Nat.le_mul_of_pos_right v hr
      omega
    exact Nat.le_trans h1 (ih _)

theorem hornerMod_exact {r : Nat} (hr : 1 ≤ r) (ds : List Char) : ∀ v, horner r v ds < two64 → hornerMod r v ds = horner r v ds := by
  induction ds with
  | nil => intro v _; rfl
  | cons c t ih =>
    intro v h
    have h' : horner r (v * r + digitVal c) t < two64 := h
    have hlt : v * r + digitVal c < two64 := Nat.lt_of_le_of_lt (horner_ge hr t _) h'
    show hornerMod r ((v * r + digitVal c) % two64) t = horner r (v * r + digitVal c) t
    rw [Nat.mod_eq_of_lt hlt]
    exact ih _ h'

theorem horner_lt {r : Nat} (ds : List Char) (hd : ∀ c ∈ ds, digitVal c < r) :
    ∀ v, horner r v ds < (v + 1) * r ^ ds.length := by
  induction ds with
  | nil => intro v; simp [horner]
  | cons c t ih =>
    intro v
    have hc : digitVal c < r := hd c (by simp)
    have := ih (fun x hx => hd x (by simp [hx])) (v * r + digitVal c)
    show horner r (v * r + digitVal c) t < (v + 1) * r ^ (t.length + 1)
    have h2 : (v * r + digitVal c + 1) * r ^ t.length ≤ (v + 1) * r ^ (t.length + 1) := by
      rw [Nat.pow_succ, ← Nat.mul_assoc, Nat.mul_right_comm]
      apply Nat.mul_le_mul_right
      have : (v + 1) * r = v * r + r := by rw [Nat.add_mul]; simp
      omega
    omega


/-! ### the scanning loops on digits followed by an integer suffix -/

theorem scanHex_digits (ds : List Char) (hd : ∀ c ∈ ds, isDigitOf 16 c = true) (rest : List Char)
    (hs : ∀ v n, scanHex rest v n = (v, n, rest)) :
    ∀ v n, scanHex (ds ++ rest) v n = (hornerMod 16 v ds, n + ds.length, rest) := by
  induction ds with
  | nil => intro v n; simpa [hornerMod] using hs v n
  | cons c t ih =>
    intro v n
    rw [List.cons_append, scanHex_cons, hexStep_digit (hd c (by simp))]
    simp only
    rw [ih (fun x hx => hd x (by simp [hx]))]
    simp [hornerMod, Nat.add_assoc, Nat.add_comm 1]

theorem scanBin_digits (ds : List Char) (hd : ∀ c ∈ ds, isDigitOf 2 c = true) (rest : List Char)
    (hs : ∀ v n, scanBin rest v n = (v, n, rest)) :
    ∀ v n, scanBin (ds ++ rest) v n = (hornerMod 2 v ds, n + ds.length, rest) := by
  induction ds with
  | nil => intro v n; simpa [hornerMod] using hs v n
  | cons c t ih =>
    intro v n
    obtain ⟨h1, h2⟩ := bin_digit (hd c (by simp))
    rw [List.cons_append]
    simp only [scanBin, h1, if_true]
    rw [ih (fun x hx => hd x (by simp [hx])), h2]
    simp [hornerMod, Nat.add_assoc, Nat.add_comm 1]

theorem scanDigits_digits (ds : List Char) (hd : ∀ c ∈ ds, isDigitOf 10 c = true) (rest : List Char)
    (hs : ∀ k b, scanDigits rest k b = (k, b, rest)) :
    ∀ k b, scanDigits (ds ++ rest) k b = (k + ds.length, b, rest) := by
  induction ds with
  | nil => intro k b; simpa using hs k b
  | cons c t ih =>
    intro k b
    obtain ⟨h1, _⟩ := dec_digit (hd c (by simp))
    rw [List.cons_append]
    simp only [scanDigits, h1, and_self, if_true]
    rw [ih (fun x hx => hd x (by simp [hx]))]
    simp [Nat.add_assoc, Nat.add_comm 1]

theorem sufChar_cases {c : Char} (h : isSufChar c = true) : c = 'u' ∨ c = 'U' ∨ c = 'l' ∨ c = 'L' := by
  simp only [isSufChar, Bool.or_eq_true, decide_eq_true_eq] at h
  rcases h with ((h | h) | h) | h <;> simp [h]

/-- what can follow a literal inside an expression (the end of the text is `[]`) -/
def termChars : List Char :=
  [' ', '\t', '\n', ')', ']', '}', '+', '-', '*', '/', '%', '<', '>', '=', '!', '&', '|', '^', '?', ':', ',', ';', '~']

/-- the text after a literal: nothing, or something that starts with a terminator -/
def Term (rest : List Char) : Prop := rest = [] ∨ ∃ c t, rest = c :: t ∧ c ∈ termChars

theorem term_facts : ∀ c ∈ termChars,
    hexStep c = none ∧ (c ≠ '0' ∧ c ≠ '1') ∧ ¬('0' ≤ c ∧ c ≤ '9') ∧ c ≠ '.' ∧
    upper c ≠ 'L' ∧ upper c ≠ 'U' ∧ upper c ≠ 'E' ∧ upper c ≠ 'F' ∧ upper c ≠ 'B' ∧ upper c ≠ 'X' := by
  decide

theorem stops_term (rest : List Char) (hr : Term rest) :
    (∀ v n, scanHex rest v n = (v, n, rest)) ∧ (∀ v n, scanBin rest v n = (v, n, rest)) ∧
    (∀ k b, scanDigits rest k b = (k, b, rest)) := by
  rcases hr with rfl | ⟨c, t, rfl, hc⟩
  · exact ⟨fun _ _ => rfl, fun _ _ => rfl, fun _ _ => rfl⟩
  · obtain ⟨h1, h2, h3, h4, _⟩ := term_facts c hc
    exact ⟨fun _ _ => by rw [scanHex_cons, h1], fun _ _ => by simp [scanBin, h2.1, h2.2],
      fun _ _ => by simp [scanDigits, h3, h4]⟩

theorem stops_suffix (suf rest : List Char) (hs : ∀ c ∈ suf, isSufChar c = true) (hr : Term rest) :
    (∀ v n, scanHex (suf ++ rest) v n = (v, n, suf ++ rest)) ∧ (∀ v n, scanBin (suf ++ rest) v n = (v, n, suf ++ rest)) ∧
    (∀ k b, scanDigits (suf ++ rest) k b = (k, b, suf ++ rest)) := by
  cases suf with
  | nil => simpa using stops_term rest hr
  | cons c t =>
    rcases sufChar_cases (hs c (by simp)) with rfl | rfl | rfl | rfl <;>
      exact ⟨fun _ _ => by rw [List.cons_append, scanHex_cons]; rfl, fun _ _ => by simp [scanBin],
        fun _ _ => by simp [scanDigits]⟩

def sufLongs (suf : List Char) : Nat := (suf.filter (fun c => c = 'l' ∨ c = 'L')).length
def sufUnsigned (suf : List Char) : Bool := suf.any (fun c => c = 'u' ∨ c = 'U')

theorem scanSuffix_term (loadRec : List Char → Prim × List Char) (fmt : Bool) (rest : List Char) (hr : Term rest)
    (st : Suffix) : scanSuffix loadRec fmt rest st = { st with rest := rest } := by
  rcases hr with rfl | ⟨c, t, rfl, hc⟩
  · rfl
  · obtain ⟨_, _, _, _, hL, hU, hE, hF, _⟩ := term_facts c hc
    simp [scanSuffix, hL, hU, hE, hF]

theorem scanSuffix_suffix (loadRec : List Char → Prim × List Char) (fmt : Bool) (suf rest : List Char)
    (hs : ∀ c ∈ suf, isSufChar c = true) (hr : Term rest) :
    ∀ st : Suffix, scanSuffix loadRec fmt (suf ++ rest) st =
      { st with longs := st.longs + sufLongs suf, unsigned_ := st.unsigned_ || sufUnsigned suf, rest := rest } := by
  induction suf with
  | nil => intro st; simp [scanSuffix_term loadRec fmt rest hr, sufLongs, sufUnsigned]
  | cons c t ih =>
    intro st
    have iht := ih (fun x hx => hs x (by simp [hx]))
    rcases sufChar_cases (hs c (by simp)) with rfl | rfl | rfl | rfl
    · have : upper 'u' = 'U' := by decide
      simp [scanSuffix, this, iht, sufLongs, sufUnsigned]
    · have : upper 'U' = 'U' := by decide
      simp [scanSuffix, this, iht, sufLongs, sufUnsigned]
    · have : upper 'l' = 'L' := by decide
      simp [scanSuffix, this, iht, sufLongs, sufUnsigned, Nat.add_assoc, Nat.add_comm 1]
    · have : upper 'L' = 'L' := by decide
      simp [scanSuffix, this, iht, sufLongs, sufUnsigned, Nat.add_assoc, Nat.add_comm 1]

end Occa.Prim.Lemmas
