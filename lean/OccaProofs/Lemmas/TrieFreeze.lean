/-
Lemmas about the frozen side of the trie model: what `freeze` writes into the arrays (`LaidN`),
that later writes do not disturb earlier ones, the binary search, and that the frozen lookup
loop computes the same answer as the unfrozen recursive lookup.  Core Lean only.
-/
import OccaProofs.Lemmas.TrieNode

set_option linter.unusedSectionVars false
set_option linter.unusedSimpArgs false

namespace Occa.Trie
open Node
variable {α : Type} [DecidableEq α] [LT α] [DecidableRel (α := α) (· < ·)]

/-! ### the layout `freeze` produces -/

mutual
/-- the subtree below `n` is laid out with `n`'s children in rows `[lo, lo + k)` and all deeper
    descendants in rows `[lo + k, hi)` -/
def LaidN (arr : Cells α) : Node α → Nat → Nat → Prop
  | mk _ ks, lo, hi => LaidKids arr ks lo (lo + ks.length) hi
/-- the children `ks` occupy rows `off, off+1, …`; their descendants fill `[lo, hi)` in order -/
def LaidKids (arr : Cells α) : List (α × Node α) → Nat → Nat → Nat → Prop
  | [], _, lo, hi => lo = hi
  | (c, n) :: r, off, lo, hi =>
    ∃ mid, arr[off]? = some (some ⟨c, lo, n.kids.length, n.val⟩) ∧ LaidN arr n lo mid ∧
      LaidKids arr r (off + 1) mid hi
end

theorem laidN_mk (arr : Cells α) (v : Option Nat) (ks : List (α × Node α)) (lo hi : Nat) :
    LaidN arr (mk v ks) lo hi ↔ LaidKids arr ks lo (lo + ks.length) hi := by
  rw [LaidN]

theorem laidN_iff (arr : Cells α) (n : Node α) (lo hi : Nat) :
    LaidN arr n lo hi ↔ LaidKids arr n.kids lo (lo + n.kids.length) hi := by
  obtain ⟨v, ks⟩ := n; rw [LaidN]; rfl

theorem laidKids_nil (arr : Cells α) (off lo hi : Nat) : LaidKids arr [] off lo hi ↔ lo = hi := by
  rw [LaidKids]

theorem laidKids_cons (arr : Cells α) (c : α) (n : Node α) (r : List (α × Node α)) (off lo hi : Nat) :
    LaidKids arr ((c, n) :: r) off lo hi ↔
      ∃ mid, arr[off]? = some (some ⟨c, lo, n.kids.length, n.val⟩) ∧ LaidN arr n lo mid ∧
        LaidKids arr r (off + 1) mid hi := by
  rw [LaidKids]

theorem nodeCountN_mk (v : Option Nat) (ks : List (α × Node α)) :
    nodeCountN (mk v ks) = ks.length + nodeCountKids ks := by rw [nodeCountN]

theorem nodeCountKids_cons (c : α) (n : Node α) (r : List (α × Node α)) :
    nodeCountKids ((c, n) :: r) = nodeCountN n + nodeCountKids r := by rw [nodeCountKids]

theorem nodeCountKids_nil : nodeCountKids ([] : List (α × Node α)) = 0 := by rw [nodeCountKids]

/-- the rows used are exactly as many as `nodeCount()` says -/
theorem laidKids_bounds (arr : Cells α) (ks : List (α × Node α))
    (ih : ∀ p ∈ ks, ∀ lo hi, LaidN arr p.2 lo hi → hi = lo + nodeCountN p.2) :
    ∀ off lo hi, LaidKids arr ks off lo hi → hi = lo + nodeCountKids ks := by
  induction ks with
  | nil => intro off lo hi h; rw [laidKids_nil] at h; rw [nodeCountKids_nil]; omega
  | cons e r ihr =>
    obtain ⟨c, n⟩ := e
    intro off lo hi h
    rw [laidKids_cons] at h
    obtain ⟨mid, _, hn, hr⟩ := h
    have h1 := ih (c, n) (by simp) lo mid hn
    have h2 := ihr (fun p hp => ih p (by simp [hp])) _ _ _ hr
    rw [nodeCountKids_cons]; simp only at h1; omega

theorem laidN_bounds (arr : Cells α) (n : Node α) : ∀ lo hi, LaidN arr n lo hi → hi = lo + nodeCountN n := by
  induction n using Node.induct_node with
  | h v ks ih =>
    intro lo hi h
    rw [laidN_mk] at h
    have := laidKids_bounds arr ks ih _ _ _ h
    rw [nodeCountN_mk]; omega

theorem laidKids_bounds' (arr : Cells α) (ks : List (α × Node α)) (off lo hi : Nat)
    (h : LaidKids arr ks off lo hi) : hi = lo + nodeCountKids ks :=
  laidKids_bounds arr ks (fun p _ => laidN_bounds arr p.2) off lo hi h

/-- a layout only depends on the rows it occupies -/
theorem laidKids_stable (arr arr' : Cells α) (ks : List (α × Node α))
    (ih : ∀ p ∈ ks, ∀ lo hi, LaidN arr p.2 lo hi → (∀ i, lo ≤ i → i < hi → arr'[i]? = arr[i]?) → LaidN arr' p.2 lo hi) :
    ∀ off lo hi, LaidKids arr ks off lo hi →
      (∀ i, (off ≤ i ∧ i < off + ks.length) ∨ (lo ≤ i ∧ i < hi) → arr'[i]? = arr[i]?) →
      LaidKids arr' ks off lo hi := by
  induction ks with
  | nil => intro off lo hi h _; rw [laidKids_nil] at h ⊢; exact h
  | cons e r ihr =>
    obtain ⟨c, n⟩ := e
    intro off lo hi h hsame
    rw [laidKids_cons] at h ⊢
    obtain ⟨mid, hcell, hn, hr⟩ := h
    have b1 := laidN_bounds arr n _ _ hn
    have b2 := laidKids_bounds' arr r _ _ _ hr
    refine ⟨mid, ?_, ?_, ?_⟩
    · rw [hsame off (Or.inl ⟨Nat.le_refl _, by simp⟩)]; exact hcell
    · exact ih (c, n) (by simp) lo mid hn (fun i h1 h2 => hsame i (Or.inr ⟨h1, by omega⟩))
    · apply ihr (fun p hp => ih p (by simp [hp])) _ _ _ hr
      intro i hi
      apply hsame
      rcases hi with ⟨h1, h2⟩ | ⟨h1, h2⟩
      · left; simp only [List.length_cons]; omega
      · right; omega

theorem laidN_stable (arr arr' : Cells α) (n : Node α) :
    ∀ lo hi, LaidN arr n lo hi → (∀ i, lo ≤ i → i < hi → arr'[i]? = arr[i]?) → LaidN arr' n lo hi := by
  induction n using Node.induct_node with
  | h v ks ih =>
    intro lo hi h hsame
    rw [laidN_mk] at h ⊢
    have b := laidKids_bounds' arr ks _ _ _ h
    apply laidKids_stable arr arr' ks ih _ _ _ h
    intro i hi'
    apply hsame i <;> omega

/-! ### `freeze` establishes the layout -/

theorem freezeN_mk (v : Option Nat) (ks : List (α × Node α)) (offset : Nat) (arr : Cells α) :
    freezeN (mk v ks) offset arr = freezeKids ks offset (offset + ks.length) arr := by
  rw [freezeN]

theorem freezeKids_nil (offset leafOffset : Nat) (arr : Cells α) :
    freezeKids ([] : List (α × Node α)) offset leafOffset arr = some (arr, leafOffset) := by
  rw [freezeKids]

theorem freezeKids_cons (c : α) (leaf : Node α) (rest : List (α × Node α)) (offset leafOffset : Nat)
    (arr : Cells α) (h : offset < arr.size) :
    freezeKids ((c, leaf) :: rest) offset leafOffset arr =
      match freezeN leaf leafOffset (arr.set offset (some ⟨c, leafOffset, leaf.kids.length, leaf.val⟩)) with
      | none => none
      | some (arr2, leafOffset') => freezeKids rest (offset + 1) leafOffset' arr2 := by
  rw [freezeKids]; simp only [h, dite_true]
  cases freezeN leaf leafOffset (arr.set offset (some ⟨c, leafOffset, leaf.kids.length, leaf.val⟩)) with
  | none => rfl
  | some r => rfl

/-- what a successful `freeze(node, offset)` guarantees -/
def FreezeSpecN (n : Node α) : Prop :=
  ∀ lo (arr : Cells α), lo + nodeCountN n ≤ arr.size →
    ∃ arr', freezeN n lo arr = some (arr', lo + nodeCountN n) ∧ arr'.size = arr.size ∧
      (∀ i, ¬ (lo ≤ i ∧ i < lo + nodeCountN n) → arr'[i]? = arr[i]?) ∧
      LaidN arr' n lo (lo + nodeCountN n)

theorem freezeKids_spec (ks : List (α × Node α)) (ih : ∀ p ∈ ks, FreezeSpecN p.2) :
    ∀ off lo (arr : Cells α), off + ks.length ≤ lo → lo + nodeCountKids ks ≤ arr.size →
      ∃ arr', freezeKids ks off lo arr = some (arr', lo + nodeCountKids ks) ∧ arr'.size = arr.size ∧
        (∀ i, ¬ (off ≤ i ∧ i < off + ks.length) → ¬ (lo ≤ i ∧ i < lo + nodeCountKids ks) → arr'[i]? = arr[i]?) ∧
        LaidKids arr' ks off lo (lo + nodeCountKids ks) := by
  induction ks with
  | nil =>
    intro off lo arr _ _
    refine ⟨arr, ?_, rfl, fun _ _ _ => rfl, ?_⟩
    · rw [freezeKids_nil, nodeCountKids_nil]; rfl
    · rw [laidKids_nil, nodeCountKids_nil]; rfl
  | cons e r ihr =>
    obtain ⟨c, n⟩ := e
    intro off lo arr h1 h2
    rw [nodeCountKids_cons] at h2 ⊢
    simp only [List.length_cons] at h1
    have hoff : off < arr.size := by omega
    rw [freezeKids_cons _ _ _ _ _ _ hoff]
    obtain ⟨arr2, e2, s2, f2, l2⟩ := ih (c, n) (by simp) lo
      (arr.set off (some ⟨c, lo, n.kids.length, n.val⟩)) (by simp only [Array.size_set]; omega)
    simp only at e2 l2 f2
    rw [e2]
    simp only []
    obtain ⟨arr3, e3, s3, f3, l3⟩ := ihr (fun p hp => ih p (by simp [hp])) (off + 1) (lo + nodeCountN n) arr2
      (by omega) (by rw [s2]; simp only [Array.size_set]; omega)
    refine ⟨arr3, ?_, ?_, ?_, ?_⟩
    · rw [e3]; congr 2; omega
    · rw [s3, s2]; simp
    · intro i hi1 hi2
      simp only [List.length_cons] at hi1
      rw [f3 i (by omega) (by omega), f2 i (by omega), Array.getElem?_set]
      have : ¬ off = i := by omega
      simp [this]
    · rw [laidKids_cons]
      refine ⟨lo + nodeCountN n, ?_, ?_, ?_⟩
      · rw [f3 off (by omega) (by omega), f2 off (by omega), Array.getElem?_set]; simp
      · apply laidN_stable arr2 arr3 n _ _ l2
        intro i hi1 hi2
        exact f3 i (by omega) (by omega)
      · have : lo + (nodeCountN n + nodeCountKids r) = lo + nodeCountN n + nodeCountKids r := by omega
        rw [this]; exact l3

theorem freezeN_spec (n : Node α) : FreezeSpecN n := by
  induction n using Node.induct_node with
  | h v ks ih =>
    intro lo arr hsz
    rw [nodeCountN_mk] at hsz ⊢
    rw [freezeN_mk]
    obtain ⟨arr', e, s, f, l⟩ := freezeKids_spec ks ih lo (lo + ks.length) arr (Nat.le_refl _) (by omega)
    refine ⟨arr', ?_, s, ?_, ?_⟩
    · rw [e]; congr 2; omega
    · intro i hi; exact f i (by omega) (by omega)
    · rw [laidN_mk]
      have : lo + (ks.length + nodeCountKids ks) = lo + ks.length + nodeCountKids ks := by omega
      rw [this]; exact l

/-! ### reading the rows of a child map -/

theorem laidKids_row (arr : Cells α) (ks : List (α × Node α)) :
    ∀ off lo hi, LaidKids arr ks off lo hi → ∀ j p, ks[j]? = some p →
      ∃ o h', arr[off + j]? = some (some ⟨p.1, o, p.2.kids.length, p.2.val⟩) ∧ LaidN arr p.2 o h' := by
  induction ks with
  | nil => intro off lo hi _ j p hj; simp at hj
  | cons e r ih =>
    obtain ⟨c, n⟩ := e
    intro off lo hi h j p hj
    rw [laidKids_cons] at h
    obtain ⟨mid, hcell, hn, hr⟩ := h
    cases j with
    | zero =>
      simp only [List.getElem?_cons_zero, Option.some.injEq] at hj
      subst hj
      exact ⟨lo, mid, by simpa using hcell, hn⟩
    | succ j =>
      simp only [List.getElem?_cons_succ] at hj
      obtain ⟨o, h', h1, h2⟩ := ih _ _ _ hr j p hj
      refine ⟨o, h', ?_, h2⟩
      have : off + (j + 1) = off + 1 + j := by omega
      rw [this]; exact h1

theorem keysLt_getElem [TotalLT α] {ks : List (α × Node α)} (hs : KeysLt ks) {i j : Nat} {p q : α × Node α}
    (hi : ks[i]? = some p) (hj : ks[j]? = some q) (hij : i < j) : p.1 < q.1 := by
  unfold KeysLt at hs
  rw [List.pairwise_iff_getElem] at hs
  obtain ⟨hi', rfl⟩ := List.getElem?_eq_some_iff.mp hi
  obtain ⟨hj', rfl⟩ := List.getElem?_eq_some_iff.mp hj
  have := hs i j (by simpa using hi') (by simpa using hj') hij
  simpa using this

theorem find_none_of_ne {c : α} {ks : List (α × Node α)} (h : ∀ p ∈ ks, p.1 ≠ c) : find c ks = none := by
  induction ks with
  | nil => rfl
  | cons e r ih =>
    obtain ⟨k, n⟩ := e
    have : ¬ c = k := fun e => h (k, n) (by simp) e.symm
    simp only [find, this, if_false]
    exact ih fun p hp => h p (by simp [hp])

/-! ### the binary search finds exactly what `std::map::find` finds -/

theorem bsearch_spec [TotalLT α] (arr : Cells α) (ks : List (α × Node α)) (off lo hi : Nat) (ci : α)
    (hl : LaidKids arr ks off lo hi) (hs : KeysLt ks) :
    ∀ (fuel : Nat) (start end_ : Int), 0 ≤ start → end_ < ks.length → end_ - start + 2 ≤ fuel → 1 ≤ fuel →
      (∀ (j : Nat) (p : α × Node α), ks[j]? = some p → (j : Int) < start → p.1 < ci) →
      (∀ (j : Nat) (p : α × Node α), ks[j]? = some p → end_ < (j : Int) → ci < p.1) →
      match find ci ks with
      | none => bsearch arr off ci fuel start end_ = .miss
      | some ch => ∃ o h', bsearch arr off ci fuel start end_ = .hit ⟨ci, o, ch.kids.length, ch.val⟩ ∧
          LaidN arr ch o h' := by
  intro fuel
  induction fuel with
  | zero =>
    intro start end_ h0 h1 h2 h3 _ _
    omega
  | succ fuel ih =>
    intro start end_ h0 h1 h2 _ hlow hhigh
    rw [bsearch]
    by_cases hse : start ≤ end_
    · simp only [hse, if_true]
      have hm0 : 0 ≤ (start + end_) / 2 := by omega
      have hm1 : start ≤ (start + end_) / 2 := by omega
      have hm2 : (start + end_) / 2 ≤ end_ := by omega
      have hlt : ((start + end_) / 2).toNat < ks.length := by omega
      obtain ⟨p, hp⟩ : ∃ p, ks[((start + end_) / 2).toNat]? = some p :=
        ⟨ks[((start + end_) / 2).toNat], List.getElem?_eq_getElem hlt⟩
      obtain ⟨o, h', hcell, hlaid⟩ := laidKids_row arr ks off lo hi hl _ p hp
      rw [hcell]
      simp only []
      by_cases hc1 : ci < p.1
      · simp only [hc1, if_true]
        apply ih start ((start + end_) / 2 - 1) h0 (by omega) (by omega) (by omega) hlow
        intro j q hq hj
        by_cases hjm : (j : Int) = (start + end_) / 2
        · have : j = ((start + end_) / 2).toNat := by omega
          subst this; rw [hp] at hq; simp at hq; subst hq; exact hc1
        · exact TotalLT.trans hc1 (keysLt_getElem hs hp hq (by omega))
      · simp only [hc1, if_false]
        by_cases hc2 : p.1 < ci
        · simp only [hc2, if_true]
          apply ih ((start + end_) / 2 + 1) end_ (by omega) h1 (by omega) (by omega) _ hhigh
          intro j q hq hj
          by_cases hjm : (j : Int) = (start + end_) / 2
          · have : j = ((start + end_) / 2).toNat := by omega
            subst this; rw [hp] at hq; simp at hq; subst hq; exact hc2
          · exact TotalLT.trans (keysLt_getElem hs hq hp (by omega)) hc2
        · simp only [hc2, if_false]
          have heq : ci = p.1 := by
            rcases TotalLT.tri ci p.1 with h | h | h
            · exact absurd h hc1
            · exact h
            · exact absurd h hc2
          have hfind : find ci ks = some p.2 := by
            rw [find_eq_some_iff hs, heq]; exact List.mem_of_getElem? hp
          rw [hfind]
          simp only []
          exact ⟨o, h', by rw [heq], hlaid⟩
    · simp only [hse, if_false]
      have : find ci ks = none := by
        apply find_none_of_ne
        intro p hp e
        obtain ⟨j, hj, hjp⟩ := List.getElem_of_mem hp
        have hjp' : ks[j]? = some p := by rw [List.getElem?_eq_getElem hj, hjp]
        by_cases hjs : (j : Int) < start
        · have := hlow j p hjp' hjs; rw [e] at this; exact TotalLT.irrefl _ this
        · have := hhigh j p hjp' (by omega); rw [e] at this; exact TotalLT.irrefl _ this
      rw [this]
      trivial

/-! ### the frozen loop against a recursive descent over the nodes -/

/-- what the frozen loop computes, on the nodes: follow `q` from the child map `ks`,
    remembering the last value seen -/
def descend : List (α × Node α) → List α → Nat → Nat → Option Nat → Nat × Option Nat
  | _, [], _, rl, rv => (rl, rv)
  | ks, c :: cs, pos, rl, rv =>
    match find c ks with
    | none => (rl, rv)
    | some ch =>
      if ch.val.isSome then descend ch.kids cs (pos + 1) (pos + 1) ch.val
      else descend ch.kids cs (pos + 1) rl rv

theorem frozenLoop_eq [TotalLT α] (arr : Cells α) (q : List α) :
    ∀ (ks : List (α × Node α)) (off lo hi pos rl : Nat) (rv : Option Nat),
      LaidKids arr ks off lo hi → KeysLt ks → (∀ p ∈ ks, Sorted p.2) →
      frozenLoop arr q off ks.length pos rl rv = some (descend ks q pos rl rv) := by
  induction q with
  | nil => intro ks off lo hi pos rl rv _ _ _; simp [frozenLoop, descend]
  | cons c cs ih =>
    intro ks off lo hi pos rl rv hl hs hsub
    rw [frozenLoop, descend]
    have hb := bsearch_spec arr ks off lo hi c hl hs (ks.length + 1) 0 ((ks.length : Int) - 1)
      (Int.le_refl _) (by omega) (by omega) (by omega) (fun j p _ hj => by omega) (fun j p hp hj => by
        have := (List.getElem?_eq_some_iff.mp hp).1; omega)
    cases hf : find c ks with
    | none =>
      rw [hf] at hb; simp only at hb
      rw [hb]
    | some ch =>
      rw [hf] at hb; simp only at hb
      obtain ⟨o, h', hb, hlaid⟩ := hb
      rw [hb]
      simp only []
      rw [laidN_iff] at hlaid
      have hsch := hsub _ (find_mem hf)
      simp only at hsch
      rw [Node.eta ch, sorted_mk] at hsch
      by_cases hv : ch.val.isSome
      · simp only [hv, if_true]
        exact ih ch.kids o _ _ _ _ _ hlaid hsch.1 hsch.2
      · simp only [hv, if_false]
        exact ih ch.kids o _ _ _ _ _ hlaid hsch.1 hsch.2

/-- the longest proper (length ≥ 1) match of `q` through the child map `ks` -/
def sub (ks : List (α × Node α)) : List α → Option (Nat × Nat)
  | [] => none
  | c :: cs => ((find c ks).bind fun ch => best ch cs).map fun r => (r.1 + 1, r.2)

theorem best_eq_sub (n : Node α) (q : List α) :
    best n q = match sub n.kids q with
      | some r => some r
      | none => n.val.map fun i => (0, i) := by
  obtain ⟨v, ks⟩ := n
  cases q with
  | nil => simp [best_nil, sub]
  | cons c cs =>
    rw [best_cons]
    simp only [sub, kids_mk, val_mk]
    cases (find c ks).bind fun ch => best ch cs with
    | none => simp
    | some r => obtain ⟨m, i⟩ := r; simp

theorem descend_eq (q : List α) :
    ∀ (ks : List (α × Node α)) (pos rl : Nat) (rv : Option Nat),
      descend ks q pos rl rv = match sub ks q with
        | some r => (pos + r.1, some r.2)
        | none => (rl, rv) := by
  induction q with
  | nil => intro ks pos rl rv; simp [descend, sub]
  | cons c cs ih =>
    intro ks pos rl rv
    rw [descend]
    simp only [sub]
    cases hf : find c ks with
    | none => simp
    | some ch =>
      simp only [Option.bind_some]
      rw [best_eq_sub ch cs]
      cases hv : ch.val with
      | none =>
        simp only [Option.isSome_none, Bool.false_eq_true, if_false, Option.map_none]
        rw [ih]
        cases sub ch.kids cs with
        | none => simp
        | some r => simp; omega
      | some j =>
        simp only [Option.isSome_some, if_true, Option.map_some]
        rw [ih]
        cases sub ch.kids cs with
        | none => simp
        | some r => simp; omega

/-- a frozen representation that describes `root` -/
def FrozenOK (f : Frozen α) (root : Node α) : Prop :=
  f.baseNodeCount = root.kids.length ∧ ∃ hi, LaidN f.cells root 0 hi

/-- the frozen lookup (binary search over the flattened arrays) returns what the unfrozen
    recursive lookup returns, and never reads outside the arrays or an unwritten cell -/
theorem getLongestFrozen_eq [TotalLT α] (f : Frozen α) (root : Node α) (hf : FrozenOK f root) (hs : Sorted root)
    (q : List α) : getLongestFrozen f root.val q = some (trieGetLongest root q) := by
  obtain ⟨hbase, hi, hl⟩ := hf
  rw [laidN_iff] at hl
  rw [Node.eta root, sorted_mk] at hs
  unfold getLongestFrozen
  rw [hbase, frozenLoop_eq f.cells q root.kids 0 _ hi 0 0 root.val hl hs.1 hs.2, descend_eq,
    trieGetLongest_eq, best_eq_sub]
  cases sub root.kids q with
  | some r => simp
  | none =>
    simp only [Nat.zero_add]
    cases root.val <;> simp [Result.fail]

/-! ### `has(char)` on the frozen rows -/

theorem scan_eq (arr : Cells α) (c : α) (ks : List (α × Node α)) :
    ∀ off lo hi, LaidKids arr ks off lo hi →
      Trie.hasChar.scan c arr ks.length off = some ((ks.map (·.1)).contains c) := by
  induction ks with
  | nil => intro off lo hi _; simp [Trie.hasChar.scan]
  | cons e r ih =>
    obtain ⟨k, n⟩ := e
    intro off lo hi h
    rw [laidKids_cons] at h
    obtain ⟨mid, hcell, _, hr⟩ := h
    simp only [List.length_cons, Trie.hasChar.scan, hcell, List.map_cons, List.contains_cons]
    by_cases hk : k = c
    · subst hk; simp
    · have : ¬ c = k := fun e => hk e.symm
      simp only [hk, if_false, ih _ _ _ hr]
      simp [this]

end Occa.Trie
