/-
Lemmas about the frozen side of the trie model: what `freeze` writes into the arrays (`LaidN`),
that later writes do not disturb earlier ones, the binary search, and that the frozen lookup
loop computes the same answer as the unfrozen recursive lookup.  Core Lean only.
-/
import OccaProofs.Lemmas.TrieNode

set_option linter.unusedSectionVars false
set_option linter.unusedSimpArgs false

namespace Occa.Trie
open Node
variable {α : Type} [DecidableEq α] [LT α] [DecidableRel (α := α) (· < ·)]

/-! ### the layout `freeze` produces -/

mutual
/-- the subtree below `n` is laid out with `n`'s children in rows `[lo, lo + k)` and all deeper
    descendants in rows `[lo + k, hi)` -/
def LaidN (arr : Cells α) : Node α → Nat → Nat → Prop
  | mk _ ks, lo, hi => LaidKids arr ks lo (lo + ks.length) hi
/-- the children `ks` occupy rows `off, off+1, …`; their descendants fill `[lo, hi)` in order -/
def LaidKids (arr : Cells α) : List (α × Node α) → Nat → Nat → Nat → Prop
  | [], _, lo, hi => lo = hi
  | (c, n) :: r, off, lo, hi =>
    ∃ mid, arr[off]? = some (some ⟨c, lo, n.kids.length, n.val⟩) ∧ LaidN arr n lo mid ∧
      LaidKids arr r (off + 1) mid hi
end

theorem laidN_mk (arr : Cells α) (v : Option Nat) (ks : List (α × Node α)) (lo hi : Nat) :
    LaidN arr (mk v ks) lo hi ↔ LaidKids arr ks lo (lo + ks.length) hi := by
  rw [LaidN]

theorem laidN_iff (arr : Cells α) (n : Node α) (lo hi : Nat) :
    LaidN arr n lo hi ↔ LaidKids arr n.kids lo (lo + n.kids.length) hi := by
  obtain ⟨v, ks⟩ := n; rw [LaidN]; rfl

theorem laidKids_nil (arr : Cells α) (off lo hi : Nat) : LaidKids arr [] off lo hi ↔ lo = hi := by
  rw [LaidKids]

theorem laidKids_cons (arr : Cells α) (c : α) (n : Node α) (r : List (α × Node α)) (off lo hi : Nat) :
    LaidKids arr ((c, n) :: r) off lo hi ↔
      ∃ mid, arr[off]? = some (some ⟨c, lo, n.kids.length, n.val⟩) ∧ LaidN arr n lo mid ∧
        LaidKids arr r (off + 1) mid hi := by
  rw [LaidKids]

theorem nodeCountN_mk (v : Option Nat) (ks : List (α × Node α)) :
    nodeCountN (mk v ks) = ks.length + nodeCountKids ks := by rw [nodeCountN]

theorem nodeCountKids_cons (c : α) (n : Node α) (r : List (α × Node α)) :
    nodeCountKids ((c, n) :: r) = nodeCountN n + nodeCountKids r := by rw [nodeCountKids]

theorem nodeCountKids_nil : nodeCountKids ([] : List (α × Node α)) = 0 := by rw [nodeCountKids]

/-- the rows used are exactly as many as `nodeCount()` says -/
theorem laidKids_bounds (arr : Cells α) (ks : List (α × Node α))
    (ih : ∀ p ∈ ks, ∀ lo hi, LaidN arr p.2 lo hi → hi = lo + nodeCountN p.2) :
    ∀ off lo hi, LaidKids arr ks off lo hi → hi = lo + nodeCountKids ks := by
  induction ks with
  | nil => intro off lo hi h; rw [laidKids_nil] at h; rw [nodeCountKids_nil]; omega
  | cons e r ihr =>
    obtain ⟨c, n⟩ := e
    intro off lo hi h
    rw [laidKids_cons] at h
    obtain ⟨mid, _, hn, hr⟩ := h
    have h1 := ih (c, n) (by simp) lo mid hn
    have h2 := ihr (fun p hp => ih p (by simp [hp])) _ _ _ hr
    rw [nodeCountKids_cons]; simp only at h1; omega

theorem laidN_bounds (arr : Cells α) (n : Node α) : ∀ lo hi, LaidN arr n lo hi → hi = lo + nodeCountN n := by
  induction n using Node.induct_node with
  | h v ks ih =>
    intro lo hi h
    rw [laidN_mk] at h
    have := laidKids_bounds arr ks ih _ _ _ h
    rw [nodeCountN_mk]; omega

theorem laidKids_bounds' (arr : Cells α) (ks : List (α × Node α)) (off lo hi : Nat)
    (h : LaidKids arr ks off lo hi) : hi = lo + nodeCountKids ks :=
  laidKids_bounds arr ks (fun p _ => laidN_bounds arr p.2) off lo hi h

/-- a layout only depends on the rows it occupies -/
theorem laidKids_stable (arr arr' : Cells α) (ks : List (α × Node α))
    (ih : ∀ p ∈ ks, ∀ lo hi, LaidN arr p.2 lo hi → (∀ i, lo ≤ i → i < hi → arr'[i]? = arr[i]?) → LaidN arr' p.2 lo hi) :
    ∀ off lo hi, LaidKids arr ks off lo hi →
      (∀ i, (off ≤ i ∧ i < off + ks.length) ∨ (lo ≤ i ∧ i < hi) → arr'[i]? = arr[i]?) →
      LaidKids arr' ks off lo hi := by
  induction ks with
  | nil => intro off lo hi h _; rw [laidKids_nil] at h ⊢; exact h
  | cons e r ihr =>
    obtain ⟨c, n⟩ := e
    intro off lo hi h hsame
    rw [laidKids_cons] at h ⊢
    obtain ⟨mid, hcell, hn, hr⟩ := h
    have b1 := laidN_bounds arr n _ _ hn
    have b2 := laidKids_bounds' arr r _ _ _ hr
    refine ⟨mid, ?_, ?_, ?_⟩
    · rw [hsame off (Or.inl ⟨Nat.le_refl _, by simp⟩)]; exact hcell
    · exact ih (c, n) (by simp) lo mid hn (fun i h1 h2 => hsame i (Or.inr ⟨h1, by omega⟩))
    · apply ihr (fun p hp => ih p (by simp [hp])) _ _ _ hr
      intro i hi
      apply hsame
      rcases hi with ⟨h1, h2⟩ | ⟨h1, h2⟩
      · left; simp only [List.length_cons]; omega
      · right; omega

theorem laidN_stable (arr arr' : Cells α) (n : Node α) :
    ∀ lo hi, LaidN arr n lo hi → (∀ i, lo ≤ i → i < hi → arr'[i]? = arr[i]?) → LaidN arr' n lo hi := by
  induction n using Node.induct_node with
  | h v ks ih =>
    intro lo hi h hsame
    rw [laidN_mk] at h ⊢
    have b := laidKids_bounds' arr ks _ _ _ h
    apply laidKids_stable arr arr' ks ih _ _ _ h
    intro i hi'
    apply hsame i <;> omega

/-! ### `freeze` establishes the layout -/

theorem freezeN_mk (v : Option Nat) (ks : List (α × Node α)) (offset : Nat) (arr : Cells α) :
    freezeN (mk v ks) offset arr = freezeKids ks offset (offset + ks.length) arr := by
  rw [freezeN]

theorem freezeKids_nil (offset leafOffset : Nat) (arr : Cells α) :
    freezeKids ([] : List (α × Node α)) offset leafOffset arr = some (arr, leafOffset) := by
  rw [freezeKids]

theorem freezeKids_cons (c : α) (leaf : Node α) (rest : List (α × Node α)) (offset leafOffset : Nat)
    (arr : Cells α) (h : offset < arr.size) :
    freezeKids ((c, leaf) :: rest) offset leafOffset arr =
      match freezeN leaf leafOffset (arr.set offset (some ⟨c, leafOffset, leaf.kids.length, leaf.val⟩)) with
      | none => none
      | some (arr2, leafOffset') => freezeKids rest (offset + 1) leafOffset' arr2 := by
  rw [freezeKids]; simp only [h, dite_true]
  cases freezeN leaf leafOffset (arr.set offset (some ⟨c, leafOffset, leaf.kids.length, leaf.val⟩)) with
  | none => rfl
  | some r => rfl

/-- what a successful `freeze(node, offset)` guarantees -/
def FreezeSpecN (n : Node α) : Prop :=
  ∀ lo (arr : Cells α), lo + nodeCountN n ≤ arr.size →
    ∃ arr', freezeN n lo arr = some (arr', lo + nodeCountN n) ∧ arr'.size = arr.size ∧
      (∀ i, ¬ (lo ≤ i ∧ i < lo + nodeCountN n) → arr'[i]? = arr[i]?) ∧
      LaidN arr' n lo (lo + nodeCountN n)

theorem freezeKids_spec (ks : List (α × Node α)) (ih : ∀ p ∈ ks, FreezeSpecN p.2) :
    ∀ off lo (arr : Cells α), off + ks.length ≤ lo → lo + nodeCountKids ks ≤ arr.size →
      ∃ arr', freezeKids ks off lo arr = some (arr', lo + nodeCountKids ks) ∧ arr'.size = arr.size ∧
        (∀ i, ¬ (off ≤ i ∧ i < off + ks.length) → ¬ (lo ≤ i ∧ i < lo + nodeCountKids ks) → arr'[i]? = arr[i]?) ∧
        LaidKids arr' ks off lo (lo + nodeCountKids ks) := by
  induction ks with
  | nil =>
    intro off lo arr _ _
    refine ⟨arr, ?_, rfl, fun _ _ _ => rfl, ?_⟩
    · rw [freezeKids_nil, nodeCountKids_nil]; rfl
    · rw [laidKids_nil, nodeCountKids_nil]; rfl
  | cons e r ihr =>
    obtain ⟨c, n⟩ := e
    intro off lo arr h1 h2
    rw [nodeCountKids_cons] at h2 ⊢
    simp only [List.length_cons] at h1
    have hoff : off < arr.size := by omega
    rw [freezeKids_cons _ _ _ _ _ _ hoff]
    obtain ⟨arr2, e2, s2, f2, l2⟩ := ih (c, n) (by simp) lo
      (arr.set off (some ⟨c, lo, n.kids.length, n.val⟩)) (by simp only [Array.size_set]; omega)
    simp only at e2 l2 f2
    rw [e2]
    simp only []
    obtain ⟨arr3, e3, s3, f3, l3⟩ := ihr (fun p hp => ih p (by simp [hp])) (off + 1) (lo + nodeCountN n) arr2
      (by omega) (by rw [s2]; simp only [Array.size_set]; omega)
    refine ⟨arr3, ?_, ?_, ?_, ?_⟩
    · rw [e3]; congr 2; omega
    · rw [s3, s2]; simp
    · intro i hi1 hi2
      simp only [List.length_cons] at hi1
      rw [f3 i (by omega) (by omega), f2 i (by omega), Array.getElem?_set]
      have : ¬ off = i := by omega
      simp [this]
    · rw [laidKids_cons]
      refine ⟨lo + nodeCountN n, ?_, ?_, ?_⟩
      · rw [f3 off (by omega) (by omega), f2 off (by omega), Array.getElem?_set]; simp
      · apply laidN_stable arr2 arr3 n _ _ l2
        intro i hi1 hi2
        exact f3 i (by omega) (by omega)
      · have : lo + (nodeCountN n + nodeCountKids r) = lo + nodeCountN n + nodeCountKids r := by omega
        rw [this]; exact l3

theorem freezeN_spec (n : Node α) : FreezeSpecN n := by
  induction n using Node.induct_node with
  | h v ks ih =>
    intro lo arr hsz
    rw [nodeCountN_mk] at hsz ⊢
    rw [freezeN_mk]
    obtain ⟨arr', e, s, f, l⟩ := freezeKids_spec ks ih lo (lo + ks.length) arr (Nat.le_refl _) (by omega)
    refine ⟨arr', ?_, s, ?_, ?_⟩
    · rw [e]; congr 2; omega
    · intro i hi; exact f i (by omega) (by omega)
    · rw [laidN_mk]
      have : lo + (ks.length + nodeCountKids ks) = lo + ks.length + nodeCountKids ks := by omega
      rw [this]; exact l

end Occa.Trie
