/-
`eval` (OCCA's evaluation of a `#if` expression on primitives, with short-circuit && ||) computes the
value C gives (`evalC`, intmax_t / uintmax_t) on the class of expressions `Steered`:
  * `~` is not applied to a bool-typed operand, `& | ^` not to two bool-typed operands (F66),
  * both arms of `?:` have the same static type (F66),
  * an `int`-typed intermediate (the promotion of bool results: `-(a<b)`, `(a<b)+(c<d)`) is not fed into
    further `int` arithmetic (so it stays in [-1, 2]),
  * no shifts (their typing is C14's F20; checked by the differential run only).
-/
import OccaModel.CppEval

namespace Occa.Cpp

theorem two64 : (2 : Int) ^ 64 = 18446744073709551616 := by decide
theorem two63 : (2 : Int) ^ 63 = 9223372036854775808 := by decide
theorem two63' : (2 : Int) ^ (64 - 1) = 9223372036854775808 := by decide
theorem two32 : (2 : Int) ^ 32 = 4294967296 := by decide
theorem two31' : (2 : Int) ^ (32 - 1) = 2147483648 := by decide

/-- the value is in the range of its type -/
def WF (p : PVal) : Prop :=
  match p.ty with
  | .bool => p.v = 0 ∨ p.v = 1
  | .i32 => -2 ≤ p.v ∧ p.v ≤ 2
  | .i64 => -(9223372036854775808 : Int) ≤ p.v ∧ p.v < 9223372036854775808
  | .u64 => 0 ≤ p.v ∧ p.v < (18446744073709551616 : Int)

/-- the C value an OCCA primitive stands for -/
def absV (p : PVal) : CVal := ⟨decide (p.ty = .u64), p.v⟩

theorem sFits_iff (x : Int) : sFits x = true ↔ (-(9223372036854775808 : Int) ≤ x ∧ x < 9223372036854775808) := by
  simp [sFits, two63]

theorem wrapS64_id (x : Int) (h : -(9223372036854775808 : Int) ≤ x ∧ x < 9223372036854775808) : wrapS 64 x = x := by
  unfold wrapS; rw [two64, two63']; omega

theorem wrapU64_id (x : Int) (h : 0 ≤ x ∧ x < (18446744073709551616 : Int)) : wrapU 64 x = x := by
  unfold wrapU; rw [two64]; omega

theorem wrapU64_range (x : Int) : 0 ≤ wrapU 64 x ∧ wrapU 64 x < (18446744073709551616 : Int) := by
  have := wrapU_lt 64 x; rw [two64] at this; exact this

theorem wrapS32_small (x : Int) (h : -4 ≤ x ∧ x ≤ 4) : wrapS 32 x = x := by
  unfold wrapS; rw [two32, two31']; omega

/-- a signed value (bool / int / int64_t) converted to int64_t -/
theorem conv_i64 (p : PVal) (hw : WF p) (hs : p.ty ≠ .u64) : conv .i64 p.v = p.v := by
  unfold WF at hw
  cases hty : p.ty <;> rw [hty] at hw <;> simp only [conv] <;> first
    | (apply wrapS64_id; omega)
    | exact absurd hty hs


theorem cand_range (x y : Int) : -(9223372036854775808 : Int) ≤ cand x y ∧ cand x y < 9223372036854775808 := by
  unfold cand
  have h1 := BitVec.le_toInt (BitVec.ofInt 64 x &&& BitVec.ofInt 64 y)
  have h2 := @BitVec.toInt_lt 64 (BitVec.ofInt 64 x &&& BitVec.ofInt 64 y)
  rw [two63'] at h1 h2
  omega

theorem cor_range (x y : Int) : -(9223372036854775808 : Int) ≤ cor x y ∧ cor x y < 9223372036854775808 := by
  unfold cor
  have h1 := BitVec.le_toInt (BitVec.ofInt 64 x ||| BitVec.ofInt 64 y)
  have h2 := @BitVec.toInt_lt 64 (BitVec.ofInt 64 x ||| BitVec.ofInt 64 y)
  rw [two63'] at h1 h2
  omega

theorem cxor_range (x y : Int) : -(9223372036854775808 : Int) ≤ cxor x y ∧ cxor x y < 9223372036854775808 := by
  unfold cxor
  have h1 := BitVec.le_toInt (BitVec.ofInt 64 x ^^^ BitVec.ofInt 64 y)
  have h2 := @BitVec.toInt_lt 64 (BitVec.ofInt 64 x ^^^ BitVec.ofInt 64 y)
  rw [two63'] at h1 h2
  omega

/-- the arithmetic, bitwise and relational operators on two 64-bit integer operands -/
def intOp : BinOp → Bool
  | .shl | .shr | .land | .lor => false
  | _ => true

def relOp : BinOp → Bool
  | .lt | .le | .gt | .ge | .eq | .ne => true
  | _ => false

theorem fin_arith_s (z : Int) (c : CVal)
    (hc : (if sFits z = true then CRes.val ⟨false, z⟩ else CRes.undef) = CRes.val c) :
    c = ⟨false, z⟩ ∧ wrapS 64 z = z ∧ (-(9223372036854775808 : Int) ≤ z ∧ z < 9223372036854775808) := by
  split at hc
  · rename_i hf
    have hr := (sFits_iff z).mp hf
    simp only [CRes.val.injEq] at hc
    exact ⟨hc.symm, wrapS64_id z hr, hr⟩
  · simp at hc

theorem tdiv_min_neg_one : Int.tdiv (-9223372036854775808) (-1) = 9223372036854775808 := by decide

theorem ite01 (b : Bool) : (if b = true then (1 : Int) else 0) = 0 ∨ (if b = true then (1 : Int) else 0) = 1 := by
  cases b <;> simp

/-- signed 64-bit operands -/
theorem bin_ss (op : BinOp) (x y : Int) (c : CVal) (hop : intOp op = true)
    (hx : -(9223372036854775808 : Int) ≤ x ∧ x < 9223372036854775808)
    (hy : -(9223372036854775808 : Int) ≤ y ∧ y < 9223372036854775808)
    (hc : cBin op ⟨false, x⟩ ⟨false, y⟩ = .val c) :
    ∃ p, applyBin op ⟨.i64, x⟩ ⟨.i64, y⟩ = .val p ∧ p.v = c.v ∧ WF p ∧
      (if relOp op then p.ty = .bool ∧ c.unsigned = false else p.ty = .i64 ∧ c.unsigned = false) := by
  have wx : wrapS 64 x = x := wrapS64_id x hx
  have wy : wrapS 64 y = y := wrapS64_id y hy
  cases op <;> simp only [intOp, Bool.false_eq_true] at hop <;>
    simp only [cBin, Bool.or_self, Bool.false_eq_true, if_false, cArith, cInt] at hc <;>
    simp only [applyBin, PTy.max, PTy.rank, Nat.lt_irrefl, if_false, PTy.promoted, mk, conv, relOp, if_true,
      Bool.false_eq_true, ofBool, width, two63', wx, wy]
  case mul =>
    obtain ⟨rfl, hw, hr⟩ := fin_arith_s _ _ hc
    simp [WF, hw, hr]
  case add =>
    obtain ⟨rfl, hw, hr⟩ := fin_arith_s _ _ hc
    simp [WF, hw, hr]
  case sub =>
    obtain ⟨rfl, hw, hr⟩ := fin_arith_s _ _ hc
    simp [WF, hw, hr]
  case div =>
    by_cases hy0 : y = 0
    · simp [hy0] at hc
    · simp only [hy0, if_false] at hc ⊢
      obtain ⟨rfl, hw, hr⟩ := fin_arith_s _ _ hc
      have hno : ¬(x = -9223372036854775808 ∧ y = -1) := by
        rintro ⟨rfl, rfl⟩
        rw [tdiv_min_neg_one] at hr
        omega
      have : (PTy.i64 != PTy.u64 && decide (x = -9223372036854775808) && decide (y = -1)) = false := by
        by_cases h1 : x = -9223372036854775808 <;> by_cases h2 : y = -1 <;> simp_all
      simp only [this, Bool.false_eq_true, if_false]
      simp [WF, hw, hr]
  case mod =>
    by_cases hy0 : y = 0
    · simp [hy0] at hc
    · simp only [hy0, if_false] at hc ⊢
      by_cases hq : sFits (x.tdiv y) = true
      · simp only [hq, Bool.not_true, Bool.and_false, Bool.false_eq_true, if_false, Bool.not_false, Bool.true_and] at hc
        obtain ⟨rfl, hw, hr⟩ := fin_arith_s _ _ hc
        have hq' := (sFits_iff _).mp hq
        have hno : ¬(x = -9223372036854775808 ∧ y = -1) := by
          rintro ⟨rfl, rfl⟩
          rw [tdiv_min_neg_one] at hq'
          omega
        have : (PTy.i64 != PTy.u64 && decide (x = -9223372036854775808) && decide (y = -1)) = false := by
          by_cases h1 : x = -9223372036854775808 <;> by_cases h2 : y = -1 <;> simp_all
        simp only [this, Bool.false_eq_true, if_false]
        simp [WF, hw, hr]
      · simp [hq] at hc
  case band =>
    simp only [CRes.val.injEq] at hc; subst hc
    have hr := cand_range x y
    have hw := wrapS64_id _ hr
    simp [WF, hw, hr]
  case bor =>
    simp only [CRes.val.injEq] at hc; subst hc
    have hr := cor_range x y
    have hw := wrapS64_id _ hr
    simp [WF, hw, hr]
  case bxor =>
    simp only [CRes.val.injEq] at hc; subst hc
    have hr := cxor_range x y
    have hw := wrapS64_id _ hr
    simp [WF, hw, hr]
  all_goals
    simp only [CRes.val.injEq] at hc; subst hc
    exact ⟨_, rfl, rfl, by simp only [WF]; exact ite01 _, rfl, rfl⟩


/-- at least one unsigned 64-bit operand: both sides work on the values reduced modulo 2^64 -/
theorem bin_u (op : BinOp) (ta tb : PTy) (x y : Int) (c : CVal) (hop : intOp op = true)
    (hta : ta = .i64 ∨ ta = .u64) (htb : tb = .i64 ∨ tb = .u64) (hu : ta = .u64 ∨ tb = .u64)
    (hc : cBin op ⟨decide (ta = .u64), x⟩ ⟨decide (tb = .u64), y⟩ = .val c) :
    ∃ p, applyBin op ⟨ta, x⟩ ⟨tb, y⟩ = .val p ∧ p.v = c.v ∧ WF p ∧
      (if relOp op then p.ty = .bool ∧ c.unsigned = false else p.ty = .u64 ∧ c.unsigned = true) := by
  have hmax : ta.max tb = .u64 := by
    rcases hta with rfl | rfl <;> rcases htb with rfl | rfl <;> simp_all [PTy.max, PTy.rank]
  have huu : (decide (ta = PTy.u64) || decide (tb = PTy.u64)) = true := by
    rcases hu with rfl | rfl <;> simp
  have rx := wrapU64_range x
  have ry := wrapU64_range y
  cases op <;> simp only [intOp, Bool.false_eq_true] at hop <;>
    simp only [cBin, huu, if_true, cArith, cInt] at hc <;>
    simp only [applyBin, hmax, PTy.promoted, mk, conv, relOp, if_true, Bool.false_eq_true, ofBool, width]
  case div =>
    by_cases hy0 : wrapU 64 y = 0
    · simp [hy0] at hc
    · simp only [hy0, if_false] at hc ⊢
      simp only [CRes.val.injEq] at hc; subst hc
      have := wrapU64_range ((wrapU 64 x).tdiv (wrapU 64 y))
      simp [WF, this]
  case mod =>
    by_cases hy0 : wrapU 64 y = 0
    · simp [hy0] at hc
    · simp only [hy0, if_false, Bool.not_true, Bool.false_and, Bool.false_eq_true] at hc ⊢
      simp only [CRes.val.injEq] at hc; subst hc
      have := wrapU64_range ((wrapU 64 x).tmod (wrapU 64 y))
      simp [WF, this]
  case mul =>
    simp only [CRes.val.injEq] at hc; subst hc
    have := wrapU64_range (wrapU 64 x * wrapU 64 y)
    simp [WF, this]
  case add =>
    simp only [CRes.val.injEq] at hc; subst hc
    have := wrapU64_range (wrapU 64 x + wrapU 64 y)
    simp [WF, this]
  case sub =>
    simp only [CRes.val.injEq] at hc; subst hc
    have := wrapU64_range (wrapU 64 x - wrapU 64 y)
    simp [WF, this]
  case band =>
    simp only [CRes.val.injEq] at hc; subst hc
    have := wrapU64_range (cand (wrapU 64 x) (wrapU 64 y))
    simp [WF, this]
  case bor =>
    simp only [CRes.val.injEq] at hc; subst hc
    have := wrapU64_range (cor (wrapU 64 x) (wrapU 64 y))
    simp [WF, this]
  case bxor =>
    simp only [CRes.val.injEq] at hc; subst hc
    have := wrapU64_range (cxor (wrapU 64 x) (wrapU 64 y))
    simp [WF, this]
  all_goals
    simp only [CRes.val.injEq] at hc; subst hc
    simp [WF]
    try omega


/-! ### the class of expressions and the main induction -/

/-- static kind of an expression: true = 64-bit integer (int64_t / uint64_t), false = bool -/
def Expr.isInt : Expr → Bool
  | .lit _ _ => true
  | .boolLit _ => true
  | .un .not _ => false
  | .un _ _ => true
  | .bin op _ _ => !(relOp op || op == .land || op == .lor)
  | .tern _ a _ => a.isInt

/-- the class: unary + - ~ only on 64-bit integer operands; arithmetic, bitwise and relational operators
    with at least one 64-bit integer operand (the other one may be a bool-typed result such as `a < b` or
    `!a`); bool-typed results are otherwise consumed by ! && || ?:; no shifts; the arms of ?: of the same
    kind and signedness -/
def S64 : Expr → Bool
  | .lit _ _ => true
  | .boolLit _ => true
  | .un .not e => S64 e
  | .un _ e => S64 e && e.isInt
  | .bin op a b =>
      S64 a && S64 b && (if op == .land || op == .lor then true else intOp op && (a.isInt || b.isInt))
  | .tern c a b =>
      S64 c && S64 a && S64 b && (a.isInt == b.isInt) && (!a.isInt || (a.cUnsigned == b.cUnsigned))

/-- what the induction carries: same value, value in range, and the OCCA type is the one the static C type
    predicts -/
def Agrees (e : Expr) (p : PVal) (c : CVal) : Prop :=
  p.v = c.v ∧ WF p ∧
    (if e.isInt then p.ty = (if e.cUnsigned then PTy.u64 else PTy.i64) ∧ c.unsigned = e.cUnsigned
     else p.ty = PTy.bool ∧ c.unsigned = false)

theorem agrees_ty {e : Expr} {p : PVal} {c : CVal} (h : Agrees e p c) : p.ty ≠ .i32 := by
  obtain ⟨_, _, h3⟩ := h
  by_cases hi : e.isInt = true
  · simp only [hi, if_true] at h3
    by_cases hu : e.cUnsigned = true <;> simp [hu] at h3 <;> simp [h3.1]
  · simp only [hi] at h3; simp [h3.1]

/-- truthiness is not changed by the conversion to the common type -/
theorem conv_zero (p q : PVal) (hp : WF p) (hq : WF q) (h1 : p.ty ≠ .i32) (h2 : q.ty ≠ .i32) :
    (conv (p.ty.max q.ty) p.v = 0 ↔ p.v = 0) ∧ (conv (p.ty.max q.ty) q.v = 0 ↔ q.v = 0) := by
  obtain ⟨tp, vp⟩ := p
  obtain ⟨tq, vq⟩ := q
  have m1 : PTy.max .bool .bool = .bool := rfl
  have m2 : PTy.max .bool .i64 = .i64 := rfl
  have m3 : PTy.max .bool .u64 = .u64 := rfl
  have m4 : PTy.max .i64 .bool = .i64 := rfl
  have m5 : PTy.max .i64 .i64 = .i64 := rfl
  have m6 : PTy.max .i64 .u64 = .u64 := rfl
  have m7 : PTy.max .u64 .bool = .u64 := rfl
  have m8 : PTy.max .u64 .i64 = .u64 := rfl
  have m9 : PTy.max .u64 .u64 = .u64 := rfl
  cases tp <;> cases tq <;> simp only [WF] at hp hq <;>
    first
      | exact absurd rfl h1
      | exact absurd rfl h2
      | (simp only [m1, m2, m3, m4, m5, m6, m7, m8, m9, conv, wrapS, wrapU, two64, two63']
         constructor <;> constructor <;> intro h <;> (try split at h) <;> (try split) <;> omega)


theorem bool_kind_signed : ∀ (e : Expr), S64 e = true → e.isInt = false → e.cUnsigned = false
  | .lit _ _, _, h => by simp [Expr.isInt] at h
  | .boolLit _, _, h => by simp [Expr.isInt] at h
  | .un op e, _, h => by cases op <;> simp [Expr.isInt] at h <;> simp [Expr.cUnsigned]
  | .bin op a b, _, h => by
      cases op <;> simp [Expr.isInt, relOp] at h <;> simp [Expr.cUnsigned]
  | .tern c a b, hs, h => by
      simp only [S64, Bool.and_eq_true] at hs
      simp only [Expr.isInt] at h
      obtain ⟨⟨⟨⟨_, ha⟩, hb⟩, hk⟩, _⟩ := hs
      have hbi : b.isInt = false := by rw [h] at hk; simpa using hk.symm
      simp [Expr.cUnsigned, bool_kind_signed a ha h, bool_kind_signed b hb hbi]

/-- an integer-kind result as a PVal / CVal pair in the shape the operator lemmas want -/
theorem agrees_int_shape {e : Expr} {p : PVal} {c : CVal} (h : Agrees e p c) (hi : e.isInt = true) :
    (p.ty = .i64 ∨ p.ty = .u64) ∧ c = ⟨decide (p.ty = .u64), p.v⟩ := by
  obtain ⟨h1, _, h3⟩ := h
  simp only [hi, if_true] at h3
  obtain ⟨ht, hu⟩ := h3
  cases c with
  | mk cu cv =>
    simp only at h1 hu
    subst h1
    by_cases hcu : e.cUnsigned = true
    · simp only [hcu, if_true] at ht; simp [ht, hu, hcu]
    · have : e.cUnsigned = false := by simpa using hcu
      simp only [this, Bool.false_eq_true, if_false] at ht; simp [ht, hu, this]


/-- unary + - ~ on a 64-bit integer operand -/
theorem un_int (op : UnOp) (hop : op ≠ .not) (t : PTy) (v : Int) (ht : t = .i64 ∨ t = .u64) (hw : WF ⟨t, v⟩)
    (c : CVal) (hc : cUn op ⟨decide (t = .u64), v⟩ = .val c) :
    (applyUn op ⟨t, v⟩).v = c.v ∧ WF (applyUn op ⟨t, v⟩) ∧ (applyUn op ⟨t, v⟩).ty = t ∧
      c.unsigned = decide (t = .u64) := by
  rcases ht with rfl | rfl <;> simp only [WF] at hw
  · cases op
    · exact absurd rfl hop
    · simp only [cUn, CRes.val.injEq] at hc; subst hc
      simp [applyUn, mk, conv, PTy.promoted, wrapS64_id v hw, WF, hw]
    · simp only [cUn, cArith, reduceCtorEq, decide_false, Bool.false_eq_true, if_false] at hc
      obtain ⟨rfl, hw', hr⟩ := fin_arith_s _ _ hc
      simp [applyUn, mk, conv, PTy.promoted, hw', WF, hr]
    · simp only [cUn, reduceCtorEq, decide_false, Bool.false_eq_true, if_false, CRes.val.injEq] at hc; subst hc
      have hr : -(9223372036854775808 : Int) ≤ -v - 1 ∧ -v - 1 < 9223372036854775808 := by omega
      simp [applyUn, mk, conv, PTy.promoted, wrapS64_id _ hr, WF, hr]
  · cases op
    · exact absurd rfl hop
    · simp only [cUn, CRes.val.injEq] at hc; subst hc
      simp [applyUn, mk, conv, PTy.promoted, wrapU64_id v hw, WF, hw]
    · simp only [cUn, cArith, decide_true, if_true, CRes.val.injEq] at hc; subst hc
      have := wrapU64_range (-v)
      simp [applyUn, mk, conv, PTy.promoted, WF, this]
    · simp only [cUn, decide_true, if_true, CRes.val.injEq] at hc; subst hc
      have := wrapU64_range (-v - 1)
      simp [applyUn, mk, conv, PTy.promoted, WF, this]

/-- the type an integer-kind result must have, as a decision on the OCCA type -/
theorem agrees_int_flag {e : Expr} {p : PVal} {c : CVal} (h : Agrees e p c) (hi : e.isInt = true) :
    decide (p.ty = .u64) = e.cUnsigned ∧ p.ty = (if e.cUnsigned then PTy.u64 else PTy.i64) := by
  obtain ⟨_, _, h3⟩ := h
  simp only [hi, if_true] at h3
  by_cases hcu : e.cUnsigned = true
  · simp only [hcu, if_true] at h3 ⊢; simp [h3.1]
  · have : e.cUnsigned = false := by simpa using hcu
    simp only [this, Bool.false_eq_true, if_false] at h3 ⊢; simp [h3.1]

/-- for the operators of `intOp` the operand types matter only through the common type: a bool operand next
    to a 64-bit one behaves as an int64_t -/
theorem applyBin_norm (op : BinOp) (hio : intOp op = true) (ta tb ta' tb' : PTy) (x y : Int)
    (ha : ta = ta' ∨ (ta = .bool ∧ ta' = .i64)) (hb : tb = tb' ∨ (tb = .bool ∧ tb' = .i64))
    (hta' : ta' = .i64 ∨ ta' = .u64) (htb' : tb' = .i64 ∨ tb' = .u64) (hnb : ¬(ta = .bool ∧ tb = .bool)) :
    applyBin op ⟨ta, x⟩ ⟨tb, y⟩ = applyBin op ⟨ta', x⟩ ⟨tb', y⟩ := by
  have hmax : ta.max tb = ta'.max tb' := by
    rcases ha with rfl | ⟨rfl, rfl⟩ <;> rcases hb with rfl | ⟨rfl, rfl⟩ <;>
      rcases hta' with h1 | h1 <;> rcases htb' with h2 | h2 <;> simp_all [PTy.max, PTy.rank]
  cases op <;> simp only [intOp, Bool.false_eq_true] at hio <;> simp only [applyBin, hmax]

theorem operand_norm {e : Expr} {p : PVal} {c : CVal} (hs : S64 e = true) (h : Agrees e p c) :
    ∃ t, (t = .i64 ∨ t = .u64) ∧ WF ⟨t, p.v⟩ ∧ c = ⟨decide (t = .u64), p.v⟩ ∧
      decide (t = .u64) = e.cUnsigned ∧ (p.ty = t ∨ (p.ty = .bool ∧ t = .i64)) := by
  by_cases hi : e.isInt = true
  · obtain ⟨hty, hshape⟩ := agrees_int_shape h hi
    obtain ⟨hfl, _⟩ := agrees_int_flag h hi
    exact ⟨p.ty, hty, h.2.1, hshape, hfl, Or.inl rfl⟩
  · have hi' : e.isInt = false := by simpa using hi
    obtain ⟨h1, h2, h3⟩ := h
    simp only [hi', Bool.false_eq_true, if_false] at h3
    have hw : p.v = 0 ∨ p.v = 1 := by
      have := h2; rw [show p = ⟨p.ty, p.v⟩ from rfl] at this; simpa [WF, h3.1] using this
    refine ⟨.i64, Or.inl rfl, ?_, ?_, ?_, Or.inr ⟨h3.1, rfl⟩⟩
    · simp only [WF]; rcases hw with hw | hw <;> rw [hw] <;> decide
    · cases c with
      | mk cu cv => simp only at h1 h3; simp [h1, h3.2]
    · simp [bool_kind_signed e hs hi']

theorem ne_zero_conv (T : PTy) (v w : Int) (h : conv T v = 0 ↔ v = 0) (hv : v = w) :
    (conv T v != 0) = (w != 0) := by
  subst hv
  by_cases h0 : v = 0
  · have := h.mpr h0
    rw [this, h0]
  · have hne : conv T v ≠ 0 := fun e => h0 (h.mp e)
    have a1 : (conv T v != 0) = true := by simpa using hne
    have a2 : (v != 0) = true := by simpa using h0
    rw [a1, a2]

theorem eval_agrees : ∀ (e : Expr), S64 e = true → ∀ c, evalC e = .val c →
    ∃ p, eval true e = .val p ∧ Agrees e p c
  | .lit u m, _, c, hc => by
      simp only [evalC] at hc
      by_cases hu : (u || decide (m ≥ 2 ^ 63)) = true
      · simp only [hu, if_true, CRes.val.injEq] at hc
        subst hc
        refine ⟨mk .u64 m, by simp [eval, hu], ?_⟩
        have := wrapU64_range (m : Int)
        simp [Agrees, mk, conv, WF, Expr.isInt, Expr.cUnsigned, hu, this]
      · have hu' : (u || decide (m ≥ 2 ^ 63)) = false := by simpa using hu
        simp only [hu', Bool.false_eq_true, if_false, CRes.val.injEq] at hc
        subst hc
        refine ⟨mk .i64 m, by simp [eval, hu'], ?_⟩
        have hm : (m : Int) < 9223372036854775808 := by
          simp only [Bool.or_eq_false_iff, decide_eq_false_iff_not, Nat.not_le] at hu'
          have := hu'.2
          have e : (2 : Nat) ^ 63 = 9223372036854775808 := by decide
          omega
        have hw := wrapS64_id (m : Int) ⟨by omega, hm⟩
        simp only [Agrees, mk, conv, WF, Expr.isInt, Expr.cUnsigned, hu', hw, if_true, Bool.false_eq_true, if_false]
        simp
        omega
  | .boolLit b, _, c, hc => by
      simp only [evalC, cInt, CRes.val.injEq] at hc
      subst hc
      refine ⟨mk .i64 (if b then 1 else 0), by simp [eval], ?_⟩
      cases b <;> simp [Agrees, mk, conv, WF, Expr.isInt, Expr.cUnsigned, wrapS, two64, two63']
  | .un op e, hs, c, hc => by
      have hse : S64 e = true := by cases op <;> simp_all [S64]
      simp only [evalC] at hc
      cases hce : evalC e with
      | undef => rw [hce] at hc; simp at hc
      | val a =>
        rw [hce] at hc
        simp only at hc
        obtain ⟨p, hp, hag⟩ := eval_agrees e hse a hce
        refine ⟨applyUn op p, by simp [eval, hp], ?_⟩
        cases op with
        | not =>
          obtain ⟨h1, _, _⟩ := hag
          simp only [cUn, cInt, CRes.val.injEq] at hc
          subst hc
          simp only [Agrees, applyUn, ofBool, Expr.isInt, Bool.false_eq_true, if_false, WF, h1]
          by_cases h0 : a.v = 0 <;> simp [h0]
        | pos | neg | tilde =>
          all_goals
            have hi : e.isInt = true := by simp_all [S64]
            obtain ⟨hty, hshape⟩ := agrees_int_shape hag hi
            obtain ⟨hfl, hpt⟩ := agrees_int_flag hag hi
            obtain ⟨pt, pv⟩ := p
            subst hshape
            obtain ⟨q1, q2, q3, q4⟩ := un_int _ (by simp) pt pv hty hag.2.1 c hc
            simp only at hfl hpt q3
            refine ⟨q1, q2, ?_⟩
            simp only [Expr.isInt, Expr.cUnsigned, if_true]
            exact ⟨q3.trans hpt, q4.trans hfl⟩
  | .bin op a b, hs, c, hc => by
      simp only [S64, Bool.and_eq_true] at hs
      obtain ⟨⟨hsa, hsb⟩, hk⟩ := hs
      simp only [evalC] at hc
      cases hca : evalC a with
      | undef => rw [hca] at hc; simp at hc
      | val x =>
        rw [hca] at hc
        simp only at hc
        obtain ⟨pa, hpa, haga⟩ := eval_agrees a hsa x hca
        have hxv : pa.v = x.v := haga.1
        by_cases hland : op = .land
        · subst hland
          by_cases hx0 : x.v = 0
          · simp only [hx0, beq_self_eq_true, decide_true, Bool.and_self, if_true, cInt, CRes.val.injEq] at hc
            subst hc
            refine ⟨ofBool false, ?_, ?_⟩
            · simp [eval, hpa, PVal.truth, hxv, hx0]
            · simp [Agrees, ofBool, WF, Expr.isInt, relOp]
          · simp only [hx0, decide_false, Bool.and_false, Bool.false_eq_true, if_false, reduceCtorEq,
              beq_iff_eq, Bool.false_and] at hc
            cases hcb : evalC b with
            | undef => rw [hcb] at hc; simp at hc
            | val y =>
              rw [hcb] at hc
              simp only [cBin, cInt, CRes.val.injEq] at hc
              subst hc
              obtain ⟨pb, hpb, hagb⟩ := eval_agrees b hsb y hcb
              have hz := conv_zero pa pb haga.2.1 hagb.2.1 (agrees_ty haga) (agrees_ty hagb)
              refine ⟨ofBool (conv (pa.ty.max pb.ty) pa.v != 0 && conv (pa.ty.max pb.ty) pb.v != 0), ?_, ?_⟩
              · simp [eval, hpa, hpb, PVal.truth, hxv, hx0, applyBin]
              · have e1 := ne_zero_conv (pa.ty.max pb.ty) pa.v x.v hz.1 hxv
                have e2 := ne_zero_conv (pa.ty.max pb.ty) pb.v y.v hz.2 hagb.1
                rw [e1, e2]
                exact ⟨rfl, by simp only [WF, ofBool]; exact ite01 _, by simp [Expr.isInt, relOp, ofBool]⟩
        · by_cases hlor : op = .lor
          · subst hlor
            by_cases hx0 : x.v = 0
            · simp only [hx0, reduceCtorEq, beq_iff_eq, Bool.false_and, Bool.false_eq_true, if_false, ne_eq,
                not_true_eq_false, decide_false, Bool.and_false] at hc
              cases hcb : evalC b with
              | undef => rw [hcb] at hc; simp at hc
              | val y =>
                rw [hcb] at hc
                simp only [cBin, cInt, CRes.val.injEq] at hc
                subst hc
                obtain ⟨pb, hpb, hagb⟩ := eval_agrees b hsb y hcb
                have hz := conv_zero pa pb haga.2.1 hagb.2.1 (agrees_ty haga) (agrees_ty hagb)
                refine ⟨ofBool (conv (pa.ty.max pb.ty) pa.v != 0 || conv (pa.ty.max pb.ty) pb.v != 0), ?_, ?_⟩
                · simp [eval, hpa, hpb, PVal.truth, hxv, hx0, applyBin]
                · have e1 := ne_zero_conv (pa.ty.max pb.ty) pa.v x.v hz.1 hxv
                  have e2 := ne_zero_conv (pa.ty.max pb.ty) pb.v y.v hz.2 hagb.1
                  rw [e1, e2]
                  exact ⟨rfl, by simp only [WF, ofBool]; exact ite01 _, by simp [Expr.isInt, relOp, ofBool]⟩
            · simp [hx0, cInt] at hc
              subst hc
              refine ⟨ofBool true, ?_, ?_⟩
              · simp [eval, hpa, PVal.truth, hxv, hx0]
              · simp [Agrees, ofBool, WF, Expr.isInt, relOp]
          · -- arithmetic, bitwise, relational: at least one operand is a 64-bit integer
            have hl1 : (op == BinOp.land) = false := by simpa using hland
            have hl2 : (op == BinOp.lor) = false := by simpa using hlor
            simp [hl1, hl2] at hk
            obtain ⟨hio, hab⟩ := hk
            simp only [hland, hlor, decide_false, Bool.false_and, Bool.false_eq_true, if_false] at hc
            cases hcb : evalC b with
            | undef => rw [hcb] at hc; simp at hc
            | val y =>
              rw [hcb] at hc
              simp only at hc
              obtain ⟨pb, hpb, hagb⟩ := eval_agrees b hsb y hcb
              obtain ⟨ta, hta, hwa, hsha, hfa, hra⟩ := operand_norm hsa haga
              obtain ⟨tb, htb, hwb, hshb, hfb, hrb⟩ := operand_norm hsb hagb
              have hnb : ¬(pa.ty = .bool ∧ pb.ty = .bool) := by
                rintro ⟨h1, h2⟩
                rcases hab with hia | hib
                · have := (agrees_int_shape haga hia).1; rw [h1] at this; simp at this
                · have := (agrees_int_shape hagb hib).1; rw [h2] at this; simp at this
              obtain ⟨ta0, va⟩ := pa
              obtain ⟨tb0, vb⟩ := pb
              subst hsha hshb
              simp only at hta htb hfa hfb hc hwa hwb hra hrb hnb
              have hev : eval true (.bin op a b) = applyBin op ⟨ta, va⟩ ⟨tb, vb⟩ := by
                simp only [eval, hpa, hpb, hland, hlor, decide_false, Bool.and_false, Bool.false_and,
                  Bool.false_eq_true, if_false]
                exact applyBin_norm op hio ta0 tb0 ta tb va vb hra hrb hta htb hnb
              rw [hev]
              by_cases hboth : ta = .i64 ∧ tb = .i64
              · obtain ⟨rfl, rfl⟩ := hboth
                simp only [WF] at hwa hwb
                simp only [reduceCtorEq, decide_false] at hc hfa hfb
                obtain ⟨p, h1, h2, h3, h4⟩ := bin_ss op va vb c hio hwa hwb hc
                refine ⟨p, h1, h2, h3, ?_⟩
                cases op <;> simp [relOp, intOp] at h4 hio hland hlor ⊢ <;>
                  simp [Expr.isInt, Expr.cUnsigned, relOp, ← hfa, ← hfb, h4]
              · have hu : ta = .u64 ∨ tb = .u64 := by
                  rcases hta with rfl | rfl <;> rcases htb with rfl | rfl <;> simp_all
                obtain ⟨p, h1, h2, h3, h4⟩ := bin_u op ta tb va vb c hio hta htb hu hc
                refine ⟨p, h1, h2, h3, ?_⟩
                have hcu : (a.cUnsigned || b.cUnsigned) = true := by
                  rw [← hfa, ← hfb]; rcases hu with rfl | rfl <;> simp
                cases op <;> simp [relOp, intOp] at h4 hio hland hlor ⊢ <;>
                  simp [Expr.isInt, Expr.cUnsigned, relOp, hcu, h4]
  | .tern cnd a b, hs, c, hc => by
      simp only [S64, Bool.and_eq_true] at hs
      obtain ⟨⟨⟨⟨hsc, hsa⟩, hsb⟩, hkind⟩, hsign⟩ := hs
      have hkind' : a.isInt = b.isInt := by simpa using hkind
      simp only [evalC] at hc
      cases hcc : evalC cnd with
      | undef => rw [hcc] at hc; simp at hc
      | val x =>
        rw [hcc] at hc
        simp only at hc
        obtain ⟨pc, hpc, hagc⟩ := eval_agrees cnd hsc x hcc
        have hxv : pc.v = x.v := hagc.1
        -- the unsignedness of the result and of the selected arm coincide
        have hcommon : ∀ (sel : Expr) (p : PVal) (r : CVal), (sel = a ∨ sel = b) → S64 sel = true → Agrees sel p r →
            Agrees (.tern cnd a b) p ⟨a.cUnsigned || b.cUnsigned,
              if (a.cUnsigned || b.cUnsigned) = true then wrapU 64 r.v else r.v⟩ := by
          intro sel p r hsel hss hag
          have hsk : sel.isInt = a.isInt := by rcases hsel with rfl | rfl <;> simp [hkind']
          by_cases hi : a.isInt = true
          · have hib : b.isInt = true := hkind' ▸ hi
            have hsg : a.cUnsigned = b.cUnsigned := by simpa [hi] using hsign
            have hsu : sel.cUnsigned = a.cUnsigned := by rcases hsel with rfl | rfl <;> simp [hsg]
            obtain ⟨h1, h2, h3⟩ := hag
            simp only [hsk, hi, if_true, hsu] at h3
            simp only [Agrees, Expr.isInt, hi, if_true, Expr.cUnsigned, ← hsg, Bool.or_self]
            by_cases hu : a.cUnsigned = true
            · simp only [hu, if_true] at h3 ⊢
              have hw := h2; rw [show p = ⟨p.ty, p.v⟩ from rfl] at hw; simp only [WF, h3.1] at hw
              rw [← h1, wrapU64_id _ hw]
              exact ⟨rfl, h2, h3.1, trivial⟩
            · have hu' : a.cUnsigned = false := by simpa using hu
              simp only [hu', Bool.false_eq_true, if_false] at h3 ⊢
              exact ⟨h1, h2, h3.1, trivial⟩
          · have hi' : a.isInt = false := by simpa using hi
            have hib : b.isInt = false := hkind' ▸ hi'
            have ua := bool_kind_signed a hsa hi'
            have ub := bool_kind_signed b hsb hib
            obtain ⟨h1, h2, h3⟩ := hag
            simp only [hsk, hi', Bool.false_eq_true, if_false] at h3
            simp only [Agrees, Expr.isInt, hi', Bool.false_eq_true, if_false, ua, ub, Bool.or_self]
            exact ⟨h1, h2, h3.1, trivial⟩
        by_cases hx0 : x.v = 0
        · simp only [hx0, ne_eq, not_true_eq_false, if_false] at hc
          cases hcb : evalC b with
          | undef => rw [hcb] at hc; simp at hc
          | val r =>
            rw [hcb] at hc
            simp only [CRes.val.injEq] at hc
            subst hc
            obtain ⟨p, hp, hag⟩ := eval_agrees b hsb r hcb
            exact ⟨p, by simp [eval, hpc, PVal.truth, hxv, hx0, hp], hcommon b p r (Or.inr rfl) hsb hag⟩
        · simp only [ne_eq, hx0, not_false_eq_true, if_true] at hc
          cases hca : evalC a with
          | undef => rw [hca] at hc; simp at hc
          | val r =>
            rw [hca] at hc
            simp only [CRes.val.injEq] at hc
            subst hc
            obtain ⟨p, hp, hag⟩ := eval_agrees a hsa r hca
            exact ⟨p, by simp [eval, hpc, PVal.truth, hxv, hx0, hp], hcommon a p r (Or.inl rfl) hsa hag⟩

end Occa.Cpp
