/-
Helper lemmas for C12: numeric literals of the C/OKL grammar are read back completely by the scanner
part of primitive::load when a separator follows.
-/
import OccaProofs.Lemmas.LexKinds

namespace Occa.Lex
open Occa.Gen

/-- suffix letters of a decimal or floating literal: u U l L f F in any combination -/
abbrev IsSfx (s : Char) : Prop := isLU s = true ∨ isF s = true

theorem sfx_facts {s : Char} (h : IsSfx s) : isDigitOrDot s = false ∧ isE s = false ∧ s ≠ 'b' ∧ s ≠ 'B' ∧ s ≠ 'x' ∧ s ≠ 'X' := by
  rcases h with h | h
  · have : ((s = 'l' ∨ s = 'L') ∨ s = 'u') ∨ s = 'U' := by simpa [isLU] using h
    rcases this with ((rfl | rfl) | rfl) | rfl <;> decide
  · have : s = 'f' ∨ s = 'F' := by simpa [isF] using h
    rcases this with rfl | rfl <;> decide

theorem lu_facts {s : Char} (h : isLU s = true) : isHex s = false ∧ isBin s = false := by
  have : ((s = 'l' ∨ s = 'L') ∨ s = 'u') ∨ s = 'U' := by simpa [isLU] using h
  rcases this with ((rfl | rfl) | rfl) | rfl <;> decide

theorem suffixLoop_sfx (ld : Str → Option Str) {sfx : Str} (h : ∀ s ∈ sfx, IsSfx s) {c : Char} (r : Str)
    (h1 : isLU c = false) (h2 : isE c = false) (h3 : isF c = false) :
    suffixLoop ld (sfx ++ c :: r) = c :: r := by
  induction sfx with
  | nil => simp [suffixLoop, h1, h2, h3]
  | cons s sfx ih =>
    have hs := h s (by simp)
    have ih' := ih (fun x hx => h x (by simp [hx]))
    rw [List.cons_append, suffixLoop]
    rcases hs with hs | hs
    · simp [hs, ih']
    · have := (sfx_facts (Or.inr hs)).2.1
      by_cases hl : isLU s = true
      · simp [hl, ih']
      · simp [hl, this, hs, ih']

theorem suffixLoop_exp (ld : Str → Option Str) {sfx : Str} (h : ∀ s ∈ sfx, IsSfx s) {e : Char} (he : isE e = true) (rest : Str) :
    suffixLoop ld (sfx ++ e :: rest) = (ld rest).getD rest := by
  have hel : isLU e = false := by
    have : e = 'e' ∨ e = 'E' := by simpa [isE] using he
    rcases this with rfl | rfl <;> decide
  induction sfx with
  | nil => simp [suffixLoop, hel, he]
  | cons s sfx ih =>
    have hs := h s (by simp)
    have ih' := ih (fun x hx => h x (by simp [hx]))
    rw [List.cons_append, suffixLoop]
    rcases hs with hs | hs
    · simp [hs, ih']
    · have := (sfx_facts (Or.inr hs)).2.1
      by_cases hl : isLU s = true
      · simp [hl, ih']
      · simp [hl, this, hs, ih']

theorem takeWhile_run {p : Char → Bool} {m : Str} (hm : ∀ x ∈ m, p x = true) {x : Char} (hx : p x = false) (r : Str) :
    (m ++ x :: r).takeWhile p = m ∧ (m ++ x :: r).dropWhile p = x :: r := by
  induction m with
  | nil => simp [hx]
  | cons a m ih =>
    have ha := hm a (by simp)
    obtain ⟨i1, i2⟩ := ih (fun y hy => hm y (by simp [hy]))
    simp [ha, i1, i2]

theorem takeWhile_run_nil {p : Char → Bool} {m : Str} (hm : ∀ x ∈ m, p x = true) :
    (m ++ []).takeWhile p = m ∧ (m ++ []).dropWhile p = [] := by
  induction m with
  | nil => simp
  | cons a m ih =>
    have ha := hm a (by simp)
    obtain ⟨i1, i2⟩ := ih (fun y hy => hm y (by simp [hy]))
    simp at i1 i2
    simp [ha, i1, i2]

/-- the optional sign of an exponent -/
abbrev IsSign (sg : Str) : Prop := sg = [] ∨ sg = ['+'] ∨ sg = ['-']

/-- what may follow the digits of a decimal literal: suffix letters, or suffix letters, an exponent
    (`e`, optional sign, digits) and suffix letters -/
inductive DecTail : Str → Prop
  | plain {s1 : Str} : (∀ s ∈ s1, IsSfx s) → DecTail s1
  | exp {s1 : Str} {e : Char} {sg ds s2 : Str} : (∀ s ∈ s1, IsSfx s) → isE e = true → IsSign sg → ds ≠ [] →
      (∀ d ∈ ds, isDigit d = true) → (∀ s ∈ s2, IsSfx s) → DecTail (s1 ++ e :: (sg ++ (ds ++ s2)))

/-- numeric literals: `true`/`false`, binary, hexadecimal, decimal/octal/floating -/
inductive NumWF : Str → Prop
  | tru : NumWF ['t', 'r', 'u', 'e']
  | fls : NumWF ['f', 'a', 'l', 's', 'e']
  | bin {x : Char} {ds suf : Str} : (x = 'b' ∨ x = 'B') → ds ≠ [] → (∀ d ∈ ds, isBin d = true) →
      (∀ s ∈ suf, isLU s = true) → NumWF ('0' :: x :: (ds ++ suf))
  | hex {x : Char} {ds suf : Str} : (x = 'x' ∨ x = 'X') → ds ≠ [] → (∀ d ∈ ds, isHex d = true) →
      (∀ s ∈ suf, isLU s = true) → NumWF ('0' :: x :: (ds ++ suf))
  | dec {m tail : Str} : (∀ d ∈ m, isDigitOrDot d = true) → (∃ d ∈ m, isDigit d = true) → DecTail tail →
      NumWF (m ++ tail)

theorem digit_facts {d : Char} (h : isDigit d = true) : isDigitOrDot d = true ∧ d ≠ 'b' ∧ d ≠ 'B' ∧ d ≠ 'x' ∧ d ≠ 'X' ∧
    d ≠ '+' ∧ d ≠ '-' ∧ d ≠ 't' ∧ d ≠ 'f' ∧ d ≠ '\\' ∧ d ≠ NUL ∧ d ∉ whitespaceNoNewline ∧ d ∉ lexWhitespace := by
  have hw1 : ∀ x ∈ whitespaceNoNewline, isDigit x = false := by decide
  have hw2 : ∀ x ∈ lexWhitespace, isDigit x = false := by decide
  refine ⟨by simp [isDigitOrDot, h], ?_, ?_, ?_, ?_, ?_, ?_, ?_, ?_, ?_, ?_, ?_, ?_⟩
  case refine_11 => intro hm; rw [hw1 d hm] at h; cases h
  case refine_12 => intro hm; rw [hw2 d hm] at h; cases h
  all_goals (intro e; subst e; revert h; decide)

theorem hd_append_of_all {P : Char → Prop} {a : Str} (b : Str) (ha : ∀ x ∈ a, P x) (hb : P (hd b)) : P (hd (a ++ b)) := by
  cases a with
  | nil => simpa using hb
  | cons x a => simpa using ha x (by simp)

/-- a character after which the digits of a decimal literal end, and that does not turn `0` into a prefix -/
abbrev EndsDigits (y : Char) : Prop := isDigitOrDot y = false ∧ y ≠ 'b' ∧ y ≠ 'B' ∧ y ≠ 'x' ∧ y ≠ 'X'

theorem dd_facts {d : Char} (h : isDigitOrDot d = true) : d ≠ 'b' ∧ d ≠ 'B' ∧ d ≠ 'x' ∧ d ≠ 'X' ∧ d ≠ 't' ∧ d ≠ 'f' ∧ d ≠ '+' ∧ d ≠ '-' ∧
    d ≠ '\\' ∧ d ≠ NUL ∧ d ∉ whitespaceNoNewline := by
  have hw1 : ∀ x ∈ whitespaceNoNewline, isDigitOrDot x = false := by decide
  refine ⟨?_, ?_, ?_, ?_, ?_, ?_, ?_, ?_, ?_, ?_, ?_⟩
  case refine_11 => intro hm; rw [hw1 d hm] at h; cases h
  all_goals (intro e; subst e; revert h; decide)

theorem ends_sfx {s : Char} (h : IsSfx s) : EndsDigits s := by
  obtain ⟨a, _, b, c, d, e⟩ := sfx_facts h; exact ⟨a, b, c, d, e⟩

theorem ends_ws {c : Char} (h : IsWs c) : EndsDigits c := by
  rcases ws_cases h with rfl | rfl | rfl | rfl | rfl | rfl <;> decide

theorem ends_e {e : Char} (h : isE e = true) : EndsDigits e := by
  have : e = 'e' ∨ e = 'E' := by simpa [isE] using h
  rcases this with rfl | rfl <;> decide

theorem ends_nul : EndsDigits NUL := by decide

theorem loadFormatted_dec {m : Str} (hm : ∀ d ∈ m, isDigitOrDot d = true) (T : Str) (hT : EndsDigits (hd T)) :
    loadFormatted (m ++ T) = none := by
  unfold loadFormatted
  split
  · rename_i x t heq
    -- m ++ T = '0' :: x :: t with x = b/B/x/X is impossible
    have hx : x ≠ 'b' ∧ x ≠ 'B' ∧ x ≠ 'x' ∧ x ≠ 'X' := by
      cases m with
      | nil =>
        simp only [List.nil_append] at heq
        rw [heq] at hT
        simp only [hd_cons] at hT
        exact absurd hT.1 (by decide)
      | cons d0 m =>
        cases m with
        | nil =>
          simp only [List.cons_append, List.nil_append, List.cons.injEq] at heq
          have : hd T = x := by rw [heq.2]; rfl
          rw [this] at hT; exact hT.2
        | cons d1 m =>
          simp only [List.cons_append, List.cons.injEq] at heq
          have := dd_facts (hm d1 (by simp))
          rw [heq.2.1] at this
          exact ⟨this.1, this.2.1, this.2.2.1, this.2.2.2.1⟩
    simp [hx.1, hx.2.1, hx.2.2.1, hx.2.2.2]
  · rfl

theorem loadBody_dec (ld : Str → Option Str) {m : Str} (hm : ∀ d ∈ m, isDigitOrDot d = true)
    (hany : ∃ d ∈ m, isDigit d = true) (T : Str) (hT : EndsDigits (hd T)) :
    loadBody ld (m ++ T) = some (suffixLoop ld T) := by
  have hrun : (m ++ T).takeWhile isDigitOrDot = m ∧ (m ++ T).dropWhile isDigitOrDot = T := by
    cases T with
    | nil => exact takeWhile_run_nil hm
    | cons y rest => exact takeWhile_run hm (by simpa using hT.1) rest
  have hany' : ∃ x, x ∈ m ∧ isDigit x = true := hany
  simp [loadBody, loadFormatted_dec hm T hT, hrun.1, hrun.2, hany']

/-- the recursive `load` of an exponent: optional sign, digits, suffix letters, then a separator -/
theorem loadF_exponent (f : Nat) {sg ds s2 : Str} (hsg : IsSign sg) (hne : ds ≠ []) (hds : ∀ d ∈ ds, isDigit d = true)
    (hs2 : ∀ s ∈ s2, IsSfx s) {c : Char} (hc : IsWs c) (r : Str) :
    loadF (f + 1) true (sg ++ (ds ++ (s2 ++ c :: r))) = some (c :: r) := by
  obtain ⟨d0, ds', rfl⟩ : ∃ d0 ds', ds = d0 :: ds' := by
    cases ds with
    | nil => exact absurd rfl hne
    | cons a b => exact ⟨a, b, rfl⟩
  have hd0 := digit_facts (hds d0 (by simp))
  have hm : ∀ d ∈ d0 :: ds', isDigitOrDot d = true := fun d hd' => (digit_facts (hds d hd')).1
  have hT : EndsDigits (hd (s2 ++ c :: r)) :=
    hd_append_of_all (P := EndsDigits) _ (fun s hs => ends_sfx (hs2 s hs)) (by simpa using ends_ws hc)
  have hbody := loadBody_dec (loadF f true) hm ⟨d0, by simp, hds d0 (by simp)⟩ (s2 ++ c :: r) hT
  have hsl := suffixLoop_sfx (loadF f true) hs2 r (ws_facts hc).2.2.2.2.2.1 (ws_facts hc).2.2.2.2.2.2.1 (ws_facts hc).2.2.2.2.2.2.2.1
  rw [hsl] at hbody
  have hdrop : List.dropWhile (fun x => decide (x ∈ lexWhitespace)) (d0 :: (ds' ++ (s2 ++ c :: r))) = d0 :: (ds' ++ (s2 ++ c :: r)) := by
    rw [List.dropWhile_cons_of_neg]; simpa using hd0.2.2.2.2.2.2.2.2.2.2.2.2
  rcases hsg with rfl | rfl | rfl
  · simp only [List.nil_append, List.cons_append] at hbody ⊢
    simp [loadF, startsWith, List.isPrefixOf, Ne.symm hd0.2.2.2.2.2.2.2.1, Ne.symm hd0.2.2.2.2.2.2.2.2.1, isSigned,
      hd0.2.2.2.2.2.1, hd0.2.2.2.2.2.2.1, loadSignSkip, hbody]
  · simp only [List.cons_append, List.nil_append] at hbody ⊢
    simp [loadF, startsWith, List.isPrefixOf, isSigned, loadSignSkip, hdrop, hbody]
  · simp only [List.cons_append, List.nil_append] at hbody ⊢
    simp [loadF, startsWith, List.isPrefixOf, isSigned, loadSignSkip, hdrop, hbody]

theorem loadF_dec (f : Nat) (s : Bool) {m tail : Str} (hm : ∀ d ∈ m, isDigitOrDot d = true)
    (hany : ∃ d ∈ m, isDigit d = true) (ht : DecTail tail) {c : Char} (hc : IsWs c) (r : Str) :
    loadF (f + 2) s (m ++ (tail ++ c :: r)) = some (c :: r) := by
  obtain ⟨d0, m', rfl⟩ : ∃ d0 m', m = d0 :: m' := by
    obtain ⟨d, hd', _⟩ := hany
    cases m with
    | nil => cases hd'
    | cons a b => exact ⟨a, b, rfl⟩
  have hd0 := dd_facts (hm d0 (by simp))
  have hl1 := (ws_facts hc).2.2.2.2.2.1
  have hl2 := (ws_facts hc).2.2.2.2.2.2.1
  have hl3 := (ws_facts hc).2.2.2.2.2.2.2.1
  have hres : loadBody (loadF (f + 1) true) (d0 :: m' ++ (tail ++ c :: r)) = some (c :: r) := by
    cases ht with
    | plain h1 =>
      have hT : EndsDigits (hd (tail ++ c :: r)) :=
        hd_append_of_all (P := EndsDigits) _ (fun s hs => ends_sfx (h1 s hs)) (by simpa using ends_ws hc)
      rw [loadBody_dec _ hm hany _ hT, suffixLoop_sfx _ h1 r hl1 hl2 hl3]
    | @exp s1 e sg ds s2 h1 he hsg hne hds h2 =>
      have hT : EndsDigits (hd (s1 ++ e :: (sg ++ (ds ++ s2)) ++ c :: r)) := by
        rw [List.append_assoc]
        exact hd_append_of_all (P := EndsDigits) _ (fun s hs => ends_sfx (h1 s hs)) (by simpa using ends_e he)
      rw [loadBody_dec _ hm hany _ hT]
      have e1 : s1 ++ e :: (sg ++ (ds ++ s2)) ++ c :: r = s1 ++ e :: (sg ++ (ds ++ (s2 ++ c :: r))) := by simp
      rw [e1, suffixLoop_exp _ h1 he, loadF_exponent f hsg hne hds h2 hc r]
      rfl
  simp only [List.cons_append] at hres ⊢
  rw [loadF]
  simp [startsWith, List.isPrefixOf, Ne.symm hd0.2.2.2.2.1, Ne.symm hd0.2.2.2.2.2.1, isSigned,
    hd0.2.2.2.2.2.2.1, hd0.2.2.2.2.2.2.2.1, loadSignSkip, hres]

theorem loadF_formatted (f : Nat) (s : Bool) {x : Char} {ds suf : Str} (p : Char → Bool)
    (hx : (x = 'b' ∨ x = 'B') ∧ p = isBin ∨ (x = 'x' ∨ x = 'X') ∧ p = isHex)
    (hne : ds ≠ []) (hds : ∀ d ∈ ds, p d = true) (hsuf : ∀ s ∈ suf, isLU s = true)
    {c : Char} (hc : IsWs c) (r : Str) :
    loadF (f + 1) s ('0' :: x :: (ds ++ (suf ++ c :: r))) = some (c :: r) := by
  have hpc : p c = false := by
    rcases hx with ⟨_, rfl⟩ | ⟨_, rfl⟩
    · exact (ws_facts hc).2.2.2.2.2.2.2.2.2.1
    · exact (ws_facts hc).2.2.2.2.2.2.2.2.1
  have hpsuf : ∀ s ∈ suf, p s = false := by
    intro s hs
    rcases hx with ⟨_, rfl⟩ | ⟨_, rfl⟩
    · exact (lu_facts (hsuf s hs)).2
    · exact (lu_facts (hsuf s hs)).1
  have hrun : (ds ++ (suf ++ c :: r)).takeWhile p = ds ∧ (ds ++ (suf ++ c :: r)).dropWhile p = suf ++ c :: r := by
    cases suf with
    | nil => exact takeWhile_run hds hpc r
    | cons y rest => exact takeWhile_run hds (hpsuf y (by simp)) _
  have hlu : (suf ++ c :: r).dropWhile isLU = c :: r := (takeWhile_run hsuf (ws_facts hc).2.2.2.2.2.1 r).2
  have hdig : loadDigits p (ds ++ (suf ++ c :: r)) = some (suf ++ c :: r) := by
    cases ds with
    | nil => exact absurd rfl hne
    | cons a b =>
      have h1 := hrun.1; have h2 := hrun.2
      simp only [List.cons_append] at h1 h2
      simp [loadDigits, h1, h2]
  rcases hx with ⟨hx, rfl⟩ | ⟨hx, rfl⟩
  · rcases hx with rfl | rfl <;>
      simp [loadF, startsWith, List.isPrefixOf, isSigned, loadSignSkip, loadBody, loadFormatted, hdig, hlu]
  · rcases hx with rfl | rfl <;>
      simp [loadF, startsWith, List.isPrefixOf, isSigned, loadSignSkip, loadBody, loadFormatted, hdig, hlu]

/-- a numeric literal followed by a separator is consumed exactly, with or without `includeSign` -/
theorem loadScan_num {w : Str} (h : NumWF w) (s : Bool) {c : Char} (hc : IsWs c) (r : Str) :
    loadScan s (w ++ c :: r) = some (c :: r) := by
  unfold loadScan
  cases h with
  | tru => simp [loadF, startsWith, List.isPrefixOf]
  | fls => simp [loadF, startsWith, List.isPrefixOf]
  | @bin x ds suf hx hne hds hsuf =>
    have := loadF_formatted (('0' :: x :: (ds ++ suf) ++ c :: r).length) s isBin (Or.inl ⟨hx, rfl⟩) hne hds hsuf hc r
    simpa only [List.cons_append, List.append_assoc] using this
  | @hex x ds suf hx hne hds hsuf =>
    have := loadF_formatted (('0' :: x :: (ds ++ suf) ++ c :: r).length) s isHex (Or.inr ⟨hx, rfl⟩) hne hds hsuf hc r
    simpa only [List.cons_append, List.append_assoc] using this
  | @dec m tail hm hany ht =>
    have e : (m ++ tail ++ c :: r).length + 1 = ((m ++ tail).length + r.length) + 2 := by
      simp only [List.length_append, List.length_cons]; omega
    rw [e, List.append_assoc]
    exact loadF_dec _ s hm hany ht hc r

theorem num_first {w : Str} (h : NumWF w) : ∃ a t, w = a :: t ∧ a ≠ '\\' ∧ a ∉ whitespaceNoNewline ∧ a ≠ NUL := by
  cases h with
  | tru => exact ⟨_, _, rfl, by decide, by decide, by decide⟩
  | fls => exact ⟨_, _, rfl, by decide, by decide, by decide⟩
  | bin => exact ⟨_, _, rfl, by decide, by decide, by decide⟩
  | hex => exact ⟨_, _, rfl, by decide, by decide, by decide⟩
  | @dec m tail hm hany _ =>
    obtain ⟨d, hd', _⟩ := hany
    cases m with
    | nil => cases hd'
    | cons a b =>
      have := dd_facts (hm a (by simp))
      exact ⟨a, b ++ tail, rfl, this.2.2.2.2.2.2.2.2.1, this.2.2.2.2.2.2.2.2.2.2, this.2.2.2.2.2.2.2.2.2.1⟩

theorem getToken_prim {w : Str} (h : NumWF w) {c : Char} (hc : IsWs c) (r : Str) :
    getToken (w ++ c :: r) = .ok (some (.prim w), 0, c :: r) := by
  have hl0 := loadScan_num h false hc r
  have hl1 := loadScan_num h true hc r
  obtain ⟨a, t, rfl, hbs, hws, hnul⟩ := num_first h
  have hs : skipWhitespace (a :: t ++ c :: r) = .ok (a :: t ++ c :: r) := skipWhitespace_at _ hbs hws
  have hci : c ∉ identifierStart := by simpa using (ws_facts hc).2.2.2.1
  have hcj : c ∉ identifier := by simpa using (ws_facts hc).2.2.1
  have hp : isPrimitiveAt (a :: t ++ c :: r) = true := by
    have hl0' := hl0
    simp only [List.cons_append] at hl0'
    simp [isPrimitiveAt, hl0', hci, hcj]
  apply getToken_eq hs (by simp) (k := .prim)
  · have hsp := shallowPeek_prim hs (by simpa using hnul) hp
    simp only [peek, hsp, bind, Except.bind, pure, Except.pure]
  · -- no backslash among the consumed characters
    obtain ⟨⟨w', hw', hnb⟩, _⟩ := loadScan_suffix hl1
    have hw : w' = a :: t := (List.append_cancel_right hw'.symm)
    have hcons : consumed (a :: t ++ c :: r) (c :: r) = a :: t := consumed_append _ _
    have hb : (a :: t).contains '\\' = false := by
      cases hcn : (a :: t).contains '\\' with
      | false => rfl
      | true =>
        have hm : '\\' ∈ a :: t := by simpa using hcn
        exact absurd rfl (hnb '\\' (by rw [hw]; exact hm))
    simp only [dispatch, getPrimitiveToken, hl1, hcons, countSkippedLines, hb, bind, Except.bind, pure, Except.pure]
    simp

end Occa.Lex
