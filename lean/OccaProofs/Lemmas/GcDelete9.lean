/-
The `freeRing` loop as a whole.
-/
import OccaProofs.Lemmas.GcDelete8

namespace Occa.Gc

theorem nodup_subset_length {α : Type} [DecidableEq α] : ∀ (l1 l2 : List α), l1.Nodup → (∀ x ∈ l1, x ∈ l2) →
    l1.length ≤ l2.length
  | [], _, _, _ => by simp
  | a :: t, l2, hn, hs => by
    have ha : a ∈ l2 := hs a (by simp)
    have hn' := List.nodup_cons.mp hn
    have ih := nodup_subset_length t (l2.erase a) hn'.2 (by
      intro x hx
      have hxa : x ≠ a := fun h => hn'.1 (h ▸ hx)
      exact (List.mem_erase_of_ne hxa).mpr (hs x (List.mem_cons_of_mem _ hx)))
    rw [List.length_erase_of_mem ha] at ih
    have : 0 < l2.length := List.length_pos_of_mem ha
    simp only [List.length_cons]
    omega

theorem freeRing_inv {ex : Var → Prop} {k : Kind} {d : Nat} (hks : k = .ker ∨ k = .buf ∨ k = .str) :
    ∀ (n : Nat) (s : St), InvX ex s → s.alive d = true → s.kind d = .dev → (s.chGet k d).length ≤ n →
      InvX ex (freeRing k n s d) ∧ (freeRing k n s d).chGet k d = []
        ∧ ∃ K, Killed s K (freeRing k n s d) ∧ ∀ y ∈ K, s.kind y ≠ .dev := by
  intro n
  induction n with
  | zero =>
    intro s hi _ _ hl
    have h0 : s.chGet k d = [] := List.length_eq_zero_iff.mp (Nat.le_zero.mp hl)
    unfold freeRing
    exact ⟨hi, h0, [], Killed.refl s, by simp⟩
  | succ n ih =>
    intro s hi hda hdk hl
    match hr : s.chGet k d with
    | [] =>
      have : freeRing k (n+1) s d = s := by
        conv => lhs; unfold freeRing
        simp only [hr]
      rw [this]
      exact ⟨hi, hr, [], Killed.refl s, by simp⟩
    | x :: t =>
      have hstep : freeRing k (n+1) s d
          = freeRing k n (deleteOf k (s.chSet k d (Ring.remove (s.chGet k d) x)) x) d := by
        conv => lhs; unfold freeRing
        simp only [hr]
      have hx : x ∈ s.chGet k d := by rw [hr]; simp
      obtain ⟨hi1, K1, hk1, hxK, hK1⟩ := freeRing_step hi hks hx
      rw [hstep]
      generalize deleteOf k (s.chSet k d (Ring.remove (s.chGet k d) x)) x = s1 at *
      have hdK : d ∉ K1 := fun h => hK1 d h hdk
      have hda1 : s1.alive d = true := by rw [hk1.alive]; simp [hda, hdK]
      have hdk1 : s1.kind d = .dev := by rw [hk1.kind]; exact hdk
      have hxn : x ∉ s1.chGet k d := by
        intro h
        have := (hi1.ch_ok k d x h).1
        rw [hk1.alive] at this
        simp [hxK] at this
      have hlen : (s1.chGet k d).length ≤ n := by
        have h1 : (s1.chGet k d).length ≤ t.length := by
          apply nodup_subset_length _ _ (hi1.ch_nodup k d)
          intro y hy
          have := hk1.chS k d y hy
          rw [hr] at this
          rcases List.mem_cons.mp this with h | h
          · exact absurd (h ▸ hy) hxn
          · exact h
        have h2 : t.length + 1 ≤ n + 1 := by
          have := hl
          rw [hr] at this
          simpa using this
        omega
      obtain ⟨hi2, he2, K2, hk2, hK2⟩ := ih s1 hi1 hda1 hdk1 hlen
      refine ⟨hi2, he2, K1 ++ K2, hk1.trans hk2, ?_⟩
      intro y hy
      rcases List.mem_append.mp hy with h | h
      · exact hK1 y h
      · have := hK2 y h
        rw [hk1.kind] at this
        exact this

end Occa.Gc
