/-
Helper lemmas for C23: block-wise reduction equals the sequential fold.
-/
import OccaProofs.Lemmas.FunctionalLoops

namespace Occa.Functional

section monoid
variable {β : Type} (op : β → β → β) (e : β)
variable (assoc : ∀ a b c, op (op a b) c = op a (op b c)) (idl : ∀ a, op e a = a) (idr : ∀ a, op a e = a)
include assoc idl idr

theorem foldl_monoid (xs : List β) : ∀ acc : β, xs.foldl op acc = op acc (xs.foldl op e) := by
  induction xs with
  | nil => intro acc; simp [idr]
  | cons x xs ih =>
    intro acc
    simp only [List.foldl_cons]
    rw [ih (op acc x), ih (op e x), idl, assoc]

theorem foldl_partials_monoid (bs : List (List β)) :
    ∀ acc : β, (bs.map (fun b => b.foldl op e)).foldl op acc = bs.flatten.foldl op acc := by
  induction bs with
  | nil => intro acc; rfl
  | cons b bs ih =>
    intro acc
    simp only [List.map_cons, List.foldl_cons, List.flatten_cons, List.foldl_append]
    rw [ih, ← foldl_monoid op e assoc idl idr b acc]

/-- monoid: per-block folds from the identity, combined in block order, are the fold over everything -/
theorem reduceBlocks_monoid (blocks : List (List β)) :
    reduceBlocks op op e blocks = blocks.flatten.foldl op e := by
  unfold reduceBlocks
  cases blocks with
  | nil => rfl
  | cons b bs =>
    simp only [List.map_cons, List.flatten_cons, List.foldl_append]
    exact foldl_partials_monoid op e assoc idl idr bs _

end monoid

section semilattice
variable {β : Type} (op : β → β → β)
variable (assoc : ∀ a b c, op (op a b) c = op a (op b c)) (comm : ∀ a b, op a b = op b a) (idem : ∀ a, op a a = a)
include assoc comm

theorem foldl_comm_acc (xs : List β) : ∀ a c : β, xs.foldl op (op a c) = op (xs.foldl op a) c := by
  induction xs with
  | nil => intro a c; rfl
  | cons x xs ih =>
    intro a c
    simp only [List.foldl_cons]
    have : op (op a c) x = op (op a x) c := by rw [assoc, comm c x, ← assoc]
    rw [this, ih]

theorem foldl_partials_semilattice (a : β) (bs : List (List β)) :
    ∀ acc : β, op acc a = acc → (bs.map (fun b => b.foldl op a)).foldl op acc = bs.flatten.foldl op acc := by
  induction bs with
  | nil => intro acc _; rfl
  | cons b bs ih =>
    intro acc h
    simp only [List.map_cons, List.foldl_cons, List.flatten_cons, List.foldl_append]
    -- op acc (foldl op a b) = foldl op acc b
    have step : op acc (b.foldl op a) = b.foldl op acc := by
      have h1 : b.foldl op acc = b.foldl op (op a acc) := by rw [comm a acc, h]
      rw [h1, foldl_comm_acc op assoc comm b a acc, comm]
    rw [step]
    apply ih
    -- the new accumulator still absorbs `a`
    rw [← foldl_comm_acc op assoc comm b acc a, h]

include idem in
/-- semilattice (min, max, and, or): per-block folds from ANY start value `a`, combined in block order,
    are the fold over everything from `a` -/
theorem reduceBlocks_semilattice (a : β) (blocks : List (List β)) :
    reduceBlocks op op a blocks = blocks.flatten.foldl op a := by
  unfold reduceBlocks
  cases blocks with
  | nil => rfl
  | cons b bs =>
    simp only [List.map_cons, List.flatten_cons, List.foldl_append]
    apply foldl_partials_semilattice op assoc comm a bs
    rw [← foldl_comm_acc op assoc comm b a a, idem]

end semilattice

end Occa.Functional

namespace Occa.Functional
open Occa Occa.Gen

/-- the index blocks of the Serial/OpenMP reduction kernel -/
def cpuBlocks (len : Int) : List (List Int) :=
  (List.range cpuReduceBlocks.toNat).map fun (k : Nat) => forVals (cpuStartIndex len k) (cpuEndIndex len k) 1

theorem cpuReduce_eq_reduceBlocks (len init : Int) (f comb : Int → Int → Int) :
    cpuReduce len init f comb = reduceBlocks f comb init (cpuBlocks len) := by
  unfold cpuReduce reduceBlocks cpuBlocks cpuPartial
  simp only [List.map_map]
  rfl

/-- consecutive blocks `[k*bs, min len ((k+1)*bs))`, `k < n`, enumerate `[0, min len (n*bs))` -/
theorem blocks_flatten (len bs : Int) (hl : 0 ≤ len) (hbs : 0 ≤ bs) :
    ∀ n : Nat, ((List.range n).map fun (k : Nat) =>
        forVals ((k : Int) * bs) (if len < (k : Int) * bs + bs then len else (k : Int) * bs + bs) 1).flatten
      = forVals 0 (min len ((n : Int) * bs)) 1 := by
  intro n
  induction n with
  | zero =>
    simp only [List.range_zero, List.map_nil, List.flatten_nil]
    rw [forVals_nil 0 _ 1 (by decide) (by simp; omega)]
  | succ n ih =>
    rw [List.range_succ, List.map_append, List.flatten_append, ih]
    simp only [List.map_cons, List.map_nil, List.flatten_cons, List.flatten_nil, List.append_nil]
    have hn : (0 : Int) ≤ (n : Int) * bs := Int.mul_nonneg (by omega) hbs
    have e : ((n + 1 : Nat) : Int) * bs = (n : Int) * bs + bs := by push_cast; rw [Int.add_mul]; omega
    rw [e]
    by_cases h : (n : Int) * bs ≤ len
    · have e1 : min len ((n : Int) * bs) = (n : Int) * bs := by omega
      have e2 : (if len < (n : Int) * bs + bs then len else (n : Int) * bs + bs) = min len ((n : Int) * bs + bs) := by
        split <;> omega
      rw [e1, e2, ← forVals_split_one 0 _ _ hn (by omega)]
    · have e1 : min len ((n : Int) * bs) = len := by omega
      have e2 : (if len < (n : Int) * bs + bs then len else (n : Int) * bs + bs) = len := by
        split <;> omega
      have e3 : min len ((n : Int) * bs + bs) = len := by omega
      rw [e1, e2, e3, forVals_nil ((n : Int) * bs) len 1 (by decide) (by omega), List.append_nil]

/-- the 128 blocks of the CPU reduction are consecutive and cover exactly `0 .. len-1` -/
theorem cpuBlocks_flatten (len : Int) (hl : 0 ≤ len) : (cpuBlocks len).flatten = forVals 0 len 1 := by
  have hB : 0 < cpuReduceBlocks := by unfold cpuReduceBlocks; decide
  have hBn : (cpuReduceBlocks.toNat : Int) = cpuReduceBlocks := Int.toNat_of_nonneg (by omega)
  have hb : 0 ≤ cpuBlockSize len ∧ len ≤ (cpuReduceBlocks.toNat : Int) * cpuBlockSize len := by
    rw [hBn]
    unfold cpuBlockSize
    generalize cpuReduceBlocks = B at hB
    rw [Int.tdiv_eq_ediv_of_nonneg (by omega)]
    have h1 := Int.mul_ediv_add_emod (len + B - 1) B
    have h2 := Int.emod_lt_of_pos (len + B - 1) hB
    have h3 : 0 ≤ (len + B - 1) / B := Int.ediv_nonneg (by omega) (by omega)
    omega
  have h := blocks_flatten len (cpuBlockSize len) hl hb.1 cpuReduceBlocks.toNat
  have e : min len ((cpuReduceBlocks.toNat : Int) * cpuBlockSize len) = len := by omega
  rw [e] at h
  rw [← h]
  unfold cpuBlocks cpuStartIndex cpuEndIndex cpuUnsafeEndIndex cpuStartIndex
  simp only [decide_eq_true_eq]

theorem reduceBlocks_map {α β : Type} (g : α → β) (op : β → β → β) (init : β) (blocks : List (List α)) :
    reduceBlocks (fun acc x => op acc (g x)) op init blocks = reduceBlocks op op init (blocks.map (List.map g)) := by
  unfold reduceBlocks
  simp only [List.map_map]
  have : (fun b : List α => b.foldl (fun acc x => op acc (g x)) init) = ((fun b : List β => b.foldl op init) ∘ List.map g) := by
    funext b
    simp [List.foldl_map]
  rw [this]

theorem flatten_map_map {α β : Type} (g : α → β) (blocks : List (List α)) :
    (blocks.map (List.map g)).flatten = blocks.flatten.map g := by
  induction blocks with
  | nil => rfl
  | cons b bs ih => simp only [List.map_cons, List.flatten_cons, List.map_append, ih]

/-- reading a list back through its indices -/
theorem map_getD_forVals (xs : List Int) :
    (forVals 0 (xs.length : Int) 1).map (fun i => xs.getD i.toNat 0) = xs := by
  rw [forVals_one]
  simp only [Int.sub_zero, Int.toNat_natCast, List.map_map]
  apply List.ext_getElem
  · simp
  · intro i h1 h2
    rw [List.getElem_map, List.getElem_range]
    simp only [Function.comp_apply]
    have : (0 + (i : Int)).toNat = i := by omega
    rw [this, List.getD_eq_getElem?_getD, List.getElem?_eq_getElem h2]
    rfl

theorem minI_eq (a b : Int) : minI a b = min a b := by unfold minI; split <;> omega
theorem maxI_eq (a b : Int) : maxI a b = max a b := by unfold maxI; split <;> omega

/-- `t` takes its `k`-th component from the `k`-th list -/
def tupleOf : List Int → List (List Int) → Prop
  | [], [] => True
  | x :: t, d :: ds => x ∈ d ∧ tupleOf t ds
  | _, _ => False

/-! ### findIndex: "the last visited match wins" -/

/-- what `std::find_if` returns: the first match in visit order, or -1 -/
def firstMatch (vis : List Nat) (f : Nat → Bool) : Int :=
  match vis.find? f with
  | some i => (i : Int)
  | none => -1

theorem foldl_last_match (f : Nat → Bool) (vis : List Nat) :
    ∀ r0 : Int, vis.foldl (fun r i => if f i then (i : Int) else r) r0 =
      match vis.reverse.find? f with
      | some i => (i : Int)
      | none => r0 := by
  induction vis with
  | nil => intro r0; rfl
  | cons x t ih =>
    intro r0
    simp only [List.foldl_cons, List.reverse_cons, List.find?_append]
    rw [ih]
    cases h : t.reverse.find? f with
    | some i => simp
    | none =>
      by_cases hx : f x
      · simp [hx]
      · simp [hx]

theorem findLast_eq (vis : List Nat) (f : Nat → Bool) :
    findLast vis f = match vis.reverse.find? f with
      | some i => (i : Int)
      | none => -1 := by
  unfold findLast
  exact foldl_last_match f vis (-1)

theorem head?_eq_getLast?_of_length_le_one {α : Type} (l : List α) (h : l.length ≤ 1) : l.head? = l.getLast? := by
  match l, h with
  | [], _ => rfl
  | [_], _ => rfl
  | _ :: _ :: _, h => simp at h

theorem reverse_find?_of_unique (vis : List Nat) (f : Nat → Bool) (h : (vis.filter f).length ≤ 1) :
    vis.reverse.find? f = vis.find? f := by
  rw [← List.head?_filter, ← List.head?_filter, List.filter_reverse, List.head?_reverse,
    ← head?_eq_getLast?_of_length_le_one _ h]

end Occa.Functional

namespace Occa.Functional
open Occa Occa.Gen

/-- two step functions that agree on every accumulator satisfying an invariant give the same fold -/
theorem foldl_congr_inv {α β : Type} (P : β → Prop) (f f' : β → α → β)
    (h : ∀ acc x, P acc → f acc x = f' acc x ∧ P (f' acc x)) :
    ∀ (l : List α) (acc : β), P acc → l.foldl f acc = l.foldl f' acc := by
  intro l
  induction l with
  | nil => intro acc _; rfl
  | cons x t ih =>
    intro acc hp
    simp only [List.foldl_cons]
    rw [(h acc x hp).1]
    exact ih _ (h acc x hp).2

theorem cpuReduce_congr_inv (P : Int → Prop) (f f' : Int → Int → Int) (comb : Int → Int → Int) (len init : Int)
    (h : ∀ acc x, P acc → f acc x = f' acc x ∧ P (f' acc x)) (hi : P init) :
    cpuReduce len init f comb = cpuReduce len init f' comb := by
  unfold cpuReduce cpuPartial
  have : (fun (k : Nat) => (forVals (cpuStartIndex len k) (cpuEndIndex len k) 1).foldl f init) =
      (fun (k : Nat) => (forVals (cpuStartIndex len k) (cpuEndIndex len k) 1).foldl f' init) := by
    funext k
    exact foldl_congr_inv P f f' h _ init hi
  rw [this]

/-- the minimum of a start value and a list -/
theorem foldl_minI_le (l : List Int) : ∀ a : Int, l.foldl minI a ≤ a ∧ ∀ x ∈ l, l.foldl minI a ≤ x := by
  induction l with
  | nil => intro a; exact ⟨Int.le_refl _, fun _ h => by cases h⟩
  | cons y t ih =>
    intro a
    simp only [List.foldl_cons]
    obtain ⟨h1, h2⟩ := ih (minI a y)
    have hm : minI a y ≤ a ∧ minI a y ≤ y := by rw [minI_eq]; omega
    refine ⟨by omega, ?_⟩
    intro x hx
    rcases List.mem_cons.mp hx with rfl | hx
    · omega
    · exact h2 x hx

theorem foldl_minI_mem (l : List Int) : ∀ a : Int, l.foldl minI a = a ∨ l.foldl minI a ∈ l := by
  induction l with
  | nil => intro a; exact Or.inl rfl
  | cons y t ih =>
    intro a
    simp only [List.foldl_cons]
    rcases ih (minI a y) with h | h
    · rw [h]
      have : minI a y = a ∨ minI a y = y := by rw [minI_eq]; omega
      rcases this with e | e
      · exact Or.inl e
      · exact Or.inr (by rw [e]; simp)
    · exact Or.inr (List.mem_cons_of_mem _ h)

end Occa.Functional
