/-
modeKernel_t::setupRun (model: `validate`, `validateArgs`) against the declarative compatibility
relation, and the metadata the OKL parser produces (`metaOfSignature`).
-/
import OccaProofs.Lemmas.Dtype
import OccaProofs.Lemmas.Cast

namespace Occa.Dtype
open Occa
set_option linter.unusedSimpArgs false

/-- does argument `a` fit parameter `m`: memory or occa::null exactly for pointer parameters, and a
    memory's element type must be castable to the parameter's -/
def ArgFits (a : Arg) (m : ArgMeta) : Prop :=
  match a with
  | .mem d => m.isPtr = true ∧ CastOK d m.dtype
  | .null => m.isPtr = true
  | .scalar => m.isPtr = false
  | .hostPtr => m.isPtr = false

/-- the compatible argument lists of a parameter list: same length, every argument fits -/
def Compatible : List ArgMeta → List Arg → Prop
  | [], [] => True
  | m :: ms, a :: as => ArgFits a m ∧ Compatible ms as
  | _, _ => False

/-- `Compatible` spelled out: the same number of arguments, and argument `i` fits parameter `i` -/
theorem compatible_iff : ∀ (ms : List ArgMeta) (args : List Arg),
    Compatible ms args ↔ args.length = ms.length ∧
      ∀ i (h1 : i < args.length) (h2 : i < ms.length), ArgFits args[i] ms[i]
  | [], [] => by simp [Compatible]
  | [], _ :: _ => by simp [Compatible]
  | _ :: _, [] => by simp [Compatible]
  | m :: ms, a :: as => by
      simp only [Compatible, compatible_iff ms as, List.length_cons, Nat.add_right_cancel_iff]
      constructor
      · rintro ⟨h0, hl, hi⟩
        refine ⟨hl, ?_⟩
        intro i h1 h2
        cases i with
        | zero => simpa using h0
        | succ i => simpa using hi i (by simpa using h1) (by simpa using h2)
      · rintro ⟨hl, hi⟩
        refine ⟨by simpa using hi 0 (by simp) (by simp), hl, ?_⟩
        intro i h1 h2
        have h := hi (i + 1) (by simpa using h1) (by simpa using h2)
        simp only [List.getElem_cons_succ] at h
        exact h

theorem validateArgs_spec (hG : Gen.cyclicGuard = true) :
    ∀ (args : List Arg) (ms : List ArgMeta) (i : Nat), args.length = ms.length →
      (validateArgs args ms i = .ok () ↔ Compatible ms args) ∧
      (∀ t, validateArgs args ms i ≠ .error (.trap t))
  | [], [], _, _ => by simp [validateArgs, Compatible, pure, Except.pure]
  | [], _ :: _, _, h => by simp at h
  | _ :: _, [], _, h => by simp at h
  | a :: as, m :: ms, i, h => by
      have hl : as.length = ms.length := by simpa using h
      have ih := validateArgs_spec hG as ms (i + 1) hl
      cases a with
      | mem d =>
        obtain ⟨r, hr, hr'⟩ := canCast_spec hG d m.dtype
        cases hp : m.isPtr with
        | false => simp [validateArgs, hp, ArgFits, Compatible, throw, throwThe, MonadExceptOf.throw, bind, Except.bind]
        | true =>
          cases r with
          | false =>
            have hno : ¬ CastOK d m.dtype := by simpa using hr'
            simp [validateArgs, hp, hr, ArgFits, Compatible, hno, throw, throwThe, MonadExceptOf.throw, bind, Except.bind, pure, Except.pure]
          | true =>
            have hyes : CastOK d m.dtype := hr'.mp rfl
            simp [validateArgs, hp, hr, ArgFits, Compatible, hyes, ih, bind, Except.bind, pure, Except.pure]
      | null =>
        cases hp : m.isPtr <;>
          simp [validateArgs, hp, ArgFits, Compatible, ih, throw, throwThe, MonadExceptOf.throw, bind, Except.bind, pure, Except.pure]
      | scalar =>
        cases hp : m.isPtr <;>
          simp [validateArgs, hp, ArgFits, Compatible, ih, throw, throwThe, MonadExceptOf.throw, bind, Except.bind, pure, Except.pure]
      | hostPtr =>
        cases hp : m.isPtr <;>
          simp [validateArgs, hp, ArgFits, Compatible, ih, throw, throwThe, MonadExceptOf.throw, bind, Except.bind, pure, Except.pure]

theorem validateArgs_norm : ∀ (args : List Arg) (ms : List ArgMeta) (i : Nat),
    validateArgs args (ms.map ArgMeta.norm) i = validateArgs args ms i
  | [], [], _ => by simp [validateArgs]
  | [], _ :: _, _ => by simp [validateArgs]
  | _ :: _, [], _ => by simp [validateArgs]
  | a :: as, m :: ms, i => by
      have ih := validateArgs_norm as ms (i + 1)
      have hc : ∀ d, canCast d (Dtype.norm "" m.dtype) = canCast d m.dtype := fun d =>
        canCast_congr rfl rfl (isByte_norm m.dtype "") (Dtype.flatten_norm m.dtype "")
      cases a <;> simp [validateArgs, List.map_cons, ArgMeta.norm, hc, ih]

/-! ### the metadata the parser produces -/

theorem foldl_push (toArg : Param → ArgMeta) : ∀ (ps : List Param) (m0 : KernelMeta),
    (ps.foldl (fun m p => m.push (toArg p)) m0).arguments = m0.arguments ++ ps.map toArg ∧
    (ps.foldl (fun m p => m.push (toArg p)) m0).initialized = (m0.initialized || !ps.isEmpty) ∧
    (ps.foldl (fun m p => m.push (toArg p)) m0).name = m0.name
  | [], m0 => by simp
  | p :: ps, m0 => by
      have ih := foldl_push toArg ps (m0.push (toArg p))
      simp only [List.foldl_cons]
      refine ⟨by rw [ih.1]; simp [KernelMeta.push], by rw [ih.2.1]; simp [KernelMeta.push], by rw [ih.2.2]; simp [KernelMeta.push]⟩

theorem foldl_tuple_wf : ∀ (arrays : List (Option Int)) (d : Dtype), d.WF →
    (arrays.foldl (fun d sz => Dtype.tuple "" d (sz.getD (-1))) d).WF
  | [], d, h => by simpa using h
  | a :: r, d, h => by
      simp only [List.foldl_cons]
      exact foldl_tuple_wf r _ (by simpa [Dtype.WF] using h)

mutual
  theorem OType.dtype_wf : (t : OType) → t.dtype.WF
    | .prim p => by simpa [OType.dtype] using getBuiltin_wf p
    | .tdef b => by simpa [OType.dtype] using VType.dtype_wf b
  theorem VType.dtype_wf : (v : VType) → v.dtype.WF
    | .mk ty longQ ptrs arrays => by
        simp only [VType.dtype]
        apply foldl_tuple_wf
        have h0 := OType.dtype_wf ty
        split
        · split
          · exact getBuiltin_wf "long"
          · exact h0
        · exact h0
end

end Occa.Dtype

namespace Occa.Dtype
open Occa
set_option linter.unusedSimpArgs false

/-- memory or null: what setupRun calls `isPtr` of an argument -/
def Arg.isPtrLike : Arg → Bool
  | .mem _ => true
  | .null => true
  | _ => false

/-- the exception setupRun raises for a non-fitting argument `a` at (1-based) position `i` -/
def errKind (a : Arg) (m : ArgMeta) (i : Nat) : VErr :=
  if a.isPtrLike != m.isPtr then (if m.isPtr then .expectsMemory i else .expectsNonMemory i)
  else .wrongType i

/-- an error of the argument loop is the error of the FIRST non-fitting argument -/
theorem validateArgs_error (hG : Gen.cyclicGuard = true) :
    ∀ (args : List Arg) (ms : List ArgMeta) (i : Nat) (e : VErr), args.length = ms.length →
      validateArgs args ms i = .error e →
      ∃ k, ∃ (h1 : k < args.length) (h2 : k < ms.length),
        (∀ j (g1 : j < args.length) (g2 : j < ms.length), j < k → ArgFits args[j] ms[j]) ∧
        ¬ ArgFits args[k] ms[k] ∧ e = errKind args[k] ms[k] (i + k)
  | [], [], _, _, _, h => by simp [validateArgs, pure, Except.pure] at h
  | [], _ :: _, _, _, h, _ => by simp at h
  | _ :: _, [], _, _, h, _ => by simp at h
  | a :: as, m :: ms, i, e, hl, h => by
      have hl' : as.length = ms.length := by simpa using hl
      have ih := validateArgs_error hG as ms (i + 1) e hl'
      -- either this argument fails (k = 0) or it fits and the error comes from the tail
      by_cases hfit : ArgFits a m
      · have htail : validateArgs as ms (i + 1) = .error e := by
          cases a with
          | mem d =>
            obtain ⟨hp, hc⟩ := hfit
            obtain ⟨r, hr, hr'⟩ := canCast_spec hG d m.dtype
            have : r = true := hr'.mpr hc
            subst this
            simpa [validateArgs, hp, hr, bind, Except.bind] using h
          | null =>
            have hp : m.isPtr = true := hfit
            simpa [validateArgs, hp, bind, Except.bind] using h
          | scalar =>
            have hp : m.isPtr = false := hfit
            simpa [validateArgs, hp, bind, Except.bind] using h
          | hostPtr =>
            have hp : m.isPtr = false := hfit
            simpa [validateArgs, hp, bind, Except.bind] using h
        obtain ⟨k, h1, h2, hbefore, hnot, he⟩ := ih htail
        refine ⟨k + 1, by simpa using h1, by simpa using h2, ?_, by simpa using hnot, ?_⟩
        · intro j g1 g2 hj
          cases j with
          | zero => simpa using hfit
          | succ j =>
            have := hbefore j (by simpa using g1) (by simpa using g2) (by omega)
            simpa using this
        · have : i + (k + 1) = i + 1 + k := by omega
          simpa [this] using he
      · refine ⟨0, by simp, by simp, by intro j _ _ hj; omega, by simpa using hfit, ?_⟩
        cases a with
        | mem d =>
          cases hp : m.isPtr with
          | false =>
            simp [validateArgs, hp, throw, throwThe, MonadExceptOf.throw, bind, Except.bind] at h
            simp [errKind, Arg.isPtrLike, hp, h]
          | true =>
            obtain ⟨r, hr, hr'⟩ := canCast_spec hG d m.dtype
            have hno : ¬ CastOK d m.dtype := fun hc => hfit ⟨hp, hc⟩
            have : r = false := by
              cases r with
              | false => rfl
              | true => exact absurd (hr'.mp rfl) hno
            subst this
            simp [validateArgs, hp, hr, throw, throwThe, MonadExceptOf.throw, bind, Except.bind] at h
            simp [errKind, Arg.isPtrLike, hp, h]
        | null =>
          have hp : m.isPtr = false := by
            cases hq : m.isPtr with
            | false => rfl
            | true => exact absurd (show ArgFits .null m from hq) hfit
          simp [validateArgs, hp, throw, throwThe, MonadExceptOf.throw, bind, Except.bind] at h
          simp [errKind, Arg.isPtrLike, hp, h]
        | scalar =>
          have hp : m.isPtr = true := by
            cases hq : m.isPtr with
            | true => rfl
            | false => exact absurd (show ArgFits .scalar m from hq) hfit
          simp [validateArgs, hp, throw, throwThe, MonadExceptOf.throw, bind, Except.bind] at h
          simp [errKind, Arg.isPtrLike, hp, h]
        | hostPtr =>
          have hp : m.isPtr = true := by
            cases hq : m.isPtr with
            | true => rfl
            | false => exact absurd (show ArgFits .hostPtr m from hq) hfit
          simp [validateArgs, hp, throw, throwThe, MonadExceptOf.throw, bind, Except.bind] at h
          simp [errKind, Arg.isPtrLike, hp, h]

end Occa.Dtype

namespace Occa.Dtype
open Occa

/-- number of entries an array extent contributes: unknown (or negative) extents count once (F13b) -/
def extent (sz : Option Int) : Nat :=
  match sz with
  | none => 1
  | some k => if k < 0 then 1 else k.toNat

def extProd : List (Option Int) → Nat
  | [] => 1
  | a :: r => extent a * extProd r

theorem repeatList_add {α : Type} (xs : List α) : ∀ m n, repeatList (m + n) xs = repeatList m xs ++ repeatList n xs
  | 0, n => by simp [repeatList]
  | m + 1, n => by
      have : m + 1 + n = (m + n) + 1 := by omega
      rw [this]
      simp [repeatList, repeatList_add xs m n]

theorem repeatList_mul {α : Type} (xs : List α) (b : Nat) : ∀ a, repeatList a (repeatList b xs) = repeatList (a * b) xs
  | 0 => by simp [repeatList]
  | a + 1 => by
      have e : (a + 1) * b = b + a * b := by rw [Nat.add_mul]; omega
      rw [e, repeatList_add xs b (a * b), ← repeatList_mul xs b a]
      rfl

theorem flatten_tuple_extent (hU : Gen.unknownExtentFlattensOne = true) (d : Dtype) (sz : Option Int) :
    (Dtype.tuple "" d (sz.getD (-1))).flatten = repeatList (extent sz) d.flatten := by
  cases sz with
  | none => simp [Dtype.flatten, hU, extent]
  | some k =>
    by_cases hk : k < 0
    · simp [Dtype.flatten, hU, extent, hk]
    · simp [Dtype.flatten, extent, hk]

theorem flatten_foldl_tuple (hU : Gen.unknownExtentFlattensOne = true) :
    ∀ (arrays : List (Option Int)) (d : Dtype),
      (arrays.foldl (fun d sz => Dtype.tuple "" d (sz.getD (-1))) d).flatten = repeatList (extProd arrays) d.flatten
  | [], d => by simp [extProd, repeatList]
  | a :: r, d => by
      simp only [List.foldl_cons, extProd]
      rw [flatten_foldl_tuple hU r, flatten_tuple_extent hU, repeatList_mul, Nat.mul_comm]

end Occa.Dtype
