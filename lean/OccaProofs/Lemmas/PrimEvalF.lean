/-
Main induction of C14 extended to expressions with floating literals: the model of occa's evaluator
and the C++ semantics compute the SAME symbolic term over the (uninterpreted) IEEE operations.
-/
import OccaProofs.Lemmas.PrimFloatOps
import OccaProofs.Lemmas.PrimFloatLit
namespace Occa.Prim.Lemmas
open Occa Occa.CExpr Occa.CxxSem Occa.Gen Occa.Prim

theorem eval_land_modelF {l r : Expr} {a : Val} (hl : Prim.eval l = .ok (Prim.ofVal a)) (ha : GoodF a) :
    Prim.eval (.bin .land l r) =
      if truth a then (Prim.eval r).bind (binary .land (Prim.ofVal a)) else .ok (Prim.ofVal (ofBool false)) := by
  have hs : (Prim.ofVal a).ty.isSome = true := rfl
  simp only [Prim.eval, hl, Outcome.bind, shortCircuit_on, hs, toBool_ofVal_F ha]
  cases truth a <;> simp

theorem eval_lor_modelF {l r : Expr} {a : Val} (hl : Prim.eval l = .ok (Prim.ofVal a)) (ha : GoodF a) :
    Prim.eval (.bin .lor l r) =
      if truth a then .ok (Prim.ofVal (ofBool true)) else (Prim.eval r).bind (binary .lor (Prim.ofVal a)) := by
  have hs : (Prim.ofVal a).ty.isSome = true := rfl
  simp only [Prim.eval, hl, Outcome.bind, shortCircuit_on, hs, toBool_ofVal_F ha]
  cases truth a <;> simp

theorem maxTy_self (t : Ty) : maxTy t t = t := by simp [maxTy]

/-- primitive::and_ / or_ on two operands of the same floating type -/
theorem binary_logic_sameF {op : BinOp} (hop : op = .land ∨ op = .lor) {t : Ty} (ht : FloatTy t) {a b : Val}
    (ha : a.ty = t) (hb : b.ty = t) :
    binary op (Prim.ofVal a) (Prim.ofVal b) =
      .ok (Prim.ofVal (ofBool (if op = .land then truth a && truth b else truth a || truth b))) := by
  have hrow : binRow op t = .compute op t t := binRow_float (Or.inr hop) ht
  have hret : binRet op = .maxType := binRet_conv (Or.inr hop)
  have hg : ¬ (divGuard = true ∧ (op = .div ∨ op = .mod)) := by rcases hop with rfl | rfl <;> simp
  unfold binary
  rw [retType_max hret, ha, hb, maxTy_self]
  simp only [hg, if_false, hrow, Outcome.bind, toT_ofVal_float ht, cvt_floatTy_self ht a ha, cvt_floatTy_self ht b hb]
  rcases hop with rfl | rfl <;> cases hta : truth a <;> simp [binop, ofHost, hta]

theorem cvt_selfF {a : Val} (ha : GoodF a) : cvt a.ty a = a := by
  rcases ha with h | h
  · exact cvt_self h
  · exact cvt_floatTy_self h a rfl


theorem GoodF.cases {a : Val} (h : GoodF a) : Good a ∨ FloatTy a.ty := h

theorem binop_val_conv_of_float {op : BinOp} {a b r : Val} (hf : FloatTy a.ty ∨ FloatTy b.ty)
    (h : binop op a b = .val r) (h1 : op ≠ .land) (h2 : op ≠ .lor) : BinOp.isConv op = true := by
  have hfl : a.ty.isFloat = true ∨ b.ty.isFloat = true := hf.imp FloatTy.isFloat FloatTy.isFloat
  cases op <;> simp_all [BinOp.isConv, binop] <;> rcases hfl with h3 | h3 <;> simp [h3] at h

/-- The evaluator agrees with the C++ semantics on every well-typed expression, floating literals
    included (guard `cleanF`). -/
theorem eval_agreeF (e : Expr) : cleanF e = true → ∀ τ, typeOf e = some τ →
    ∀ v, CxxSem.eval e = .val v → Prim.eval e = .ok (Prim.ofVal v) ∧ GoodF v ∧ v.ty = τ := by
  induction e with
  | lit l =>
    intro _ τ ht v h
    simp only [CxxSem.eval] at h
    have hty : v.ty = τ := by simpa [typeOf, litType, h] using ht
    cases l with
    | bool b =>
      obtain ⟨h1, h2⟩ := lit_agree (l := .bool b) rfl h
      exact ⟨by simp [Prim.eval, h1], Or.inl h2, hty⟩
    | int il =>
      obtain ⟨h1, h2⟩ := lit_agree (l := .int il) rfl h
      exact ⟨by simp [Prim.eval, h1], Or.inl h2, hty⟩
    | float fl =>
      obtain ⟨h1, h2⟩ := floatlit_agree fl v h
      exact ⟨by simp [Prim.eval, Lit.text, h1], Or.inr h2, hty⟩
  | paren e ih =>
    intro hc τ ht v h
    simp only [cleanF, CxxSem.eval, typeOf] at hc h ht
    simpa [Prim.eval] using ih hc τ ht v h
  | un op e ih =>
    intro hc τ ht v h
    simp only [cleanF, CxxSem.eval, Bool.and_eq_true, typeOf] at hc h ht
    obtain ⟨te, hte, hτ⟩ := bind_some ht
    obtain ⟨a, ha, hv⟩ := Res.bind_val h
    obtain ⟨i1, i2, i3⟩ := ih hc.1 te hte a ha
    rcases i2 with i2 | i2
    · have hb : ¬ (op = .bnot ∧ a.ty = .bool) := by
        intro ⟨e1, e2⟩
        have := hc.2
        simp [e1, hte, ← i3, e2] at this
      refine ⟨?_, Or.inl (unop_good i2 hv), ?_⟩
      · simp [Prim.eval, i1, Outcome.bind, unary_agree i2 hb hv]
      · have := unop_ty i2 hv
        rw [i3, hτ] at this; exact (Option.some.inj this).symm
    · obtain ⟨g1, g2⟩ := unop_float i2 hv
      refine ⟨?_, g1, ?_⟩
      · simp [Prim.eval, i1, Outcome.bind, unary_agree_float i2 hv]
      · rw [i3, hτ] at g2; exact (Option.some.inj g2).symm
  | bin op l r ihl ihr =>
    intro hc τ ht v h
    simp only [cleanF, Bool.and_eq_true, typeOf] at hc ht
    obtain ⟨tl, htl, ht⟩ := bind_some ht
    obtain ⟨tr, htr, hτ⟩ := bind_some ht
    obtain ⟨⟨⟨hcl, hcr⟩, hbit⟩, hlogic⟩ := hc
    by_cases hland : op = .land
    · subst hland
      simp only [CxxSem.eval] at h
      obtain ⟨a, ha, hv⟩ := Res.bind_val h
      obtain ⟨i1, i2, i3⟩ := ihl hcl tl htl a ha
      have hτ' : τ = .bool := by simpa [binType] using hτ.symm
      rw [eval_land_modelF i1 i2]
      cases hta : truth a
      · simp [hta] at hv; subst hv
        exact ⟨by simp, Or.inl (good_ofBool _), by simp [ofBool, hτ']⟩
      · simp only [hta, if_true] at hv ⊢
        obtain ⟨b, hb, hv⟩ := Res.bind_val hv
        obtain ⟨j1, j2, j3⟩ := ihr hcr tr htr b hb
        cases hv
        refine ⟨?_, Or.inl (good_ofBool _), by simp [ofBool, hτ']⟩
        rcases i2 with i2 | i2
        · rcases j2 with j2 | j2
          · simp [j1, Outcome.bind, binary_land i2 j2, hta]
          · -- int && float: excluded by the guard
            exfalso
            have := hlogic
            simp [logicOk, htl, htr, ← i3, ← j3, i2.1.notFloat, j2.isFloat] at this
            have hnf := i2.1.notFloat
            rw [this, j2.isFloat] at hnf
            exact Bool.noConfusion hnf
        · have hsame : a.ty = b.ty := by
            have := hlogic
            simp [logicOk, htl, htr, ← i3, ← j3, i2.isFloat] at this
            exact this
          have := binary_logic_sameF (op := .land) (Or.inl rfl) i2 rfl hsame.symm
          simp [j1, Outcome.bind, this, hta]
    by_cases hlor : op = .lor
    · subst hlor
      simp only [CxxSem.eval] at h
      obtain ⟨a, ha, hv⟩ := Res.bind_val h
      obtain ⟨i1, i2, i3⟩ := ihl hcl tl htl a ha
      have hτ' : τ = .bool := by simpa [binType] using hτ.symm
      rw [eval_lor_modelF i1 i2]
      cases hta : truth a
      · simp only [hta] at hv ⊢
        obtain ⟨b, hb, hv⟩ := Res.bind_val hv
        obtain ⟨j1, j2, j3⟩ := ihr hcr tr htr b hb
        cases hv
        refine ⟨?_, Or.inl (good_ofBool _), by simp [ofBool, hτ']⟩
        rcases i2 with i2 | i2
        · rcases j2 with j2 | j2
          · simp [j1, Outcome.bind, binary_lor i2 j2, hta]
          · exfalso
            have := hlogic
            simp [logicOk, htl, htr, ← i3, ← j3, i2.1.notFloat, j2.isFloat] at this
            have hnf := i2.1.notFloat
            rw [this, j2.isFloat] at hnf
            exact Bool.noConfusion hnf
        · have hsame : a.ty = b.ty := by
            have := hlogic
            simp [logicOk, htl, htr, ← i3, ← j3, i2.isFloat] at this
            exact this
          have := binary_logic_sameF (op := .lor) (Or.inr rfl) i2 rfl hsame.symm
          simp [j1, Outcome.bind, this, hta]
      · simp [hta] at hv; subst hv
        exact ⟨by simp, Or.inl (good_ofBool _), by simp [ofBool, hτ']⟩
    · rw [eval_bin_conv hland hlor] at h
      obtain ⟨a, ha, hv⟩ := Res.bind_val h
      obtain ⟨b, hb, hv⟩ := Res.bind_val hv
      obtain ⟨i1, i2, i3⟩ := ihl hcl tl htl a ha
      obtain ⟨j1, j2, j3⟩ := ihr hcr tr htr b hb
      have hty := binop_tyF i2 j2 hv
      rw [i3, j3, hτ] at hty
      refine ⟨?_, binop_goodF i2 j2 hv, (Option.some.inj hty).symm⟩
      rw [eval_bin_model hland hlor i1, j1]
      simp only [Outcome.bind]
      by_cases hf : FloatTy a.ty ∨ FloatTy b.ty
      · exact binary_conv_float (binop_val_conv_of_float hf hv hland hlor) i2 j2 hf hv
      · have i2' : Good a := by rcases i2 with h1 | h1; exact h1; exact absurd (Or.inl h1) hf
        have j2' : Good b := by rcases j2 with h1 | h1; exact h1; exact absurd (Or.inr h1) hf
        by_cases hconv : BinOp.isConv op = true
        · apply binary_conv hconv i2' j2' _ hv
          intro ⟨e1, e2, e3⟩
          have := hbit
          cases op <;> simp_all [BinOp.isBit]
        · have hsh : op = .shl ∨ op = .shr := by cases op <;> simp_all [BinOp.isConv]
          exact binary_shift hsh i2' j2' hv
  | tern c t f ihc iht ihf =>
    intro hc τ ht v h
    simp only [cleanF, Bool.and_eq_true, typeOf, CxxSem.eval] at hc ht h
    obtain ⟨tc, htc, ht⟩ := bind_some ht
    obtain ⟨ta, hta, ht⟩ := bind_some ht
    obtain ⟨tb, htb, hτ⟩ := bind_some ht
    obtain ⟨a, ha, hv⟩ := Res.bind_val h
    obtain ⟨i1, i2, _⟩ := ihc hc.1.1.1 tc htc a ha
    have hsame : ta = tb := by
      have := hc.2
      simpa [hta, htb] using this
    subst hsame
    simp only [hta, htb] at hv
    have hcond : condType ta ta = ta := by simp [condType]
    rw [hcond] at hv hτ
    have hτ' : τ = ta := by simpa using hτ.symm
    have hm : Prim.eval (.tern c t f) = if truth a then Prim.eval t else Prim.eval f := by
      simp only [Prim.eval, i1, Outcome.bind, toBool_ofVal_F i2]
    rw [hm]
    cases htr : truth a
    · simp only [htr] at hv ⊢
      obtain ⟨x, hx, hv⟩ := Res.bind_val hv
      obtain ⟨j1, j2, j3⟩ := ihf hc.1.2 ta htb x hx
      cases hv
      rw [← j3, cvt_selfF j2]
      exact ⟨by simpa using j1, j2, by rw [hτ', j3]⟩
    · simp only [htr, if_true] at hv ⊢
      obtain ⟨x, hx, hv⟩ := Res.bind_val hv
      obtain ⟨j1, j2, j3⟩ := iht hc.1.1.2 ta hta x hx
      cases hv
      rw [← j3, cvt_selfF j2]
      exact ⟨by simpa using j1, j2, by rw [hτ', j3]⟩

end Occa.Prim.Lemmas
