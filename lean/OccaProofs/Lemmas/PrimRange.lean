import OccaProofs.Lemmas.PrimOps
namespace Occa.Prim.Lemmas
open Occa Occa.CExpr Occa.CxxSem Occa.Gen Occa.Prim

/-! ### the C++ semantics keeps values in the range of their (reachable) type -/

theorem tdiv_range_signed (M x y : Int) (hx : -M ≤ x ∧ x ≤ M - 1) (hy : -M ≤ y ∧ y ≤ M - 1) (hy0 : y ≠ 0)
    (hov : ¬ (x = -M ∧ y = -1)) : -M ≤ Int.tdiv x y ∧ Int.tdiv x y ≤ M - 1 := by
  by_cases h1 : y = 1
  · subst h1; rw [Int.tdiv_one]; exact hx
  by_cases h2 : y = -1
  · subst h2; rw [Int.tdiv_neg, Int.tdiv_one]; omega
  have hq := Int.natAbs_tdiv x y
  have h2' : 2 ≤ y.natAbs := by omega
  have hle : x.natAbs / y.natAbs ≤ x.natAbs / 2 := Nat.div_le_div_left h2' (by omega)
  have : (x.tdiv y).natAbs ≤ x.natAbs / 2 := by rw [hq]; exact hle
  omega

theorem tmod_range_signed (M x y : Int) (hy : -M ≤ y ∧ y ≤ M - 1) (hy0 : y ≠ 0) :
    -M ≤ Int.tmod x y ∧ Int.tmod x y ≤ M - 1 := by
  have hq := Int.natAbs_tmod x y
  have hlt : x.natAbs % y.natAbs < y.natAbs := Nat.mod_lt _ (by omega)
  omega

theorem tdiv_range_unsigned (U x y : Int) (hx : 0 ≤ x ∧ x ≤ U) (hy : 0 ≤ y) :
    0 ≤ Int.tdiv x y ∧ Int.tdiv x y ≤ U := by
  have h1 := Int.tdiv_nonneg hx.1 hy
  have h2 := Int.natAbs_tdiv_le_natAbs x y
  omega

theorem tmod_range_unsigned (U x y : Int) (hx : 0 ≤ x ∧ x ≤ U) :
    0 ≤ Int.tmod x y ∧ Int.tmod x y ≤ U := by
  have h1 := Int.tmod_nonneg y hx.1
  have hq := Int.natAbs_tmod x y
  have : x.natAbs % y.natAbs ≤ x.natAbs := Nat.mod_le _ _
  omega


theorem good_ofBool (b : Bool) : Good (ofBool b) := by
  constructor
  · exact Or.inl rfl
  · cases b <;> simp [ofBool, inRange_bool]

theorem good_wrapTo {t : Ty} (ht : Reach t) (z : Int) : Good ⟨t, wrapTo t z⟩ := ⟨ht, wrapTo_inRange ht z⟩

/-- the types the usual arithmetic conversions and the promotions produce -/
def Arith (t : Ty) : Prop := t = .int ∨ t = .uint ∨ t = .long ∨ t = .ulong

theorem Arith.reach {t : Ty} (h : Arith t) : Reach t := Or.inr h

theorem arithInt_good {t : Ty} (ht : Arith t) {z : Int} {r : Val} (h : arithInt t z = .val r) : Good r := by
  rcases ht with rfl | rfl | rfl | rfl
  · by_cases hz : inRange Ty.int z = true <;> simp [arithInt, Ty.signed, hz] at h
    subst h; exact ⟨Or.inr (Or.inl rfl), hz⟩
  · simp [arithInt, Ty.signed, Ty.bits] at h; subst h; refine ⟨Or.inr (Or.inr (Or.inl rfl)), ?_⟩
    show inRange Ty.uint (wrapU 32 z) = true
    simp [inRange_uint, wrapU, p32]; omega
  · by_cases hz : inRange Ty.long z = true <;> simp [arithInt, Ty.signed, hz] at h
    subst h; exact ⟨Or.inr (Or.inr (Or.inr (Or.inl rfl))), hz⟩
  · simp [arithInt, Ty.signed, Ty.bits] at h; subst h; refine ⟨Or.inr (Or.inr (Or.inr (Or.inr rfl))), ?_⟩
    show inRange Ty.ulong (wrapU 64 z) = true
    simp [inRange_ulong, wrapU, p64]; omega

theorem intBin_good {op : BinOp} {t : Ty} (ht : Arith t) {x y : Int} (hx : inRange t x = true) (hy : inRange t y = true)
    {r : Val} (h : intBin op t x y = .val r) : Good r := by
  cases op <;> simp only [intBin] at h
  case mul => exact arithInt_good ht h
  case add => exact arithInt_good ht h
  case sub => exact arithInt_good ht h
  case div =>
    split at h; · cases h
    split at h; · cases h
    rename_i hy0 hov
    cases h
    rcases ht with rfl | rfl | rfl | rfl
    · rw [inRange_int] at hx hy
      refine ⟨Or.inr (Or.inl rfl), ?_⟩
      show inRange Ty.int (x.tdiv y) = true
      rw [inRange_int]
      have := tdiv_range_signed 2147483648 x y (by omega) (by omega) hy0 (by simpa [Ty.signed, Ty.minVal, Ty.bits, p31] using hov)
      omega
    · rw [inRange_uint] at hx hy
      refine ⟨Or.inr (Or.inr (Or.inl rfl)), ?_⟩
      show inRange Ty.uint (x.tdiv y) = true
      rw [inRange_uint]
      exact tdiv_range_unsigned 4294967295 x y hx hy.1
    · rw [inRange_long] at hx hy
      refine ⟨Or.inr (Or.inr (Or.inr (Or.inl rfl))), ?_⟩
      show inRange Ty.long (x.tdiv y) = true
      rw [inRange_long]
      have := tdiv_range_signed 9223372036854775808 x y (by omega) (by omega) hy0 (by simpa [Ty.signed, Ty.minVal, Ty.bits, p63] using hov)
      omega
    · rw [inRange_ulong] at hx hy
      refine ⟨Or.inr (Or.inr (Or.inr (Or.inr rfl))), ?_⟩
      show inRange Ty.ulong (x.tdiv y) = true
      rw [inRange_ulong]
      exact tdiv_range_unsigned 18446744073709551615 x y hx hy.1
  case mod =>
    split at h; · cases h
    split at h; · cases h
    rename_i hy0 hov
    cases h
    rcases ht with rfl | rfl | rfl | rfl
    · rw [inRange_int] at hx hy
      refine ⟨Or.inr (Or.inl rfl), ?_⟩
      show inRange Ty.int (x.tmod y) = true
      rw [inRange_int]
      have := tmod_range_signed 2147483648 x y (by omega) hy0
      omega
    · rw [inRange_uint] at hx hy
      refine ⟨Or.inr (Or.inr (Or.inl rfl)), ?_⟩
      show inRange Ty.uint (x.tmod y) = true
      rw [inRange_uint]
      exact tmod_range_unsigned 4294967295 x y hx
    · rw [inRange_long] at hx hy
      refine ⟨Or.inr (Or.inr (Or.inr (Or.inl rfl))), ?_⟩
      show inRange Ty.long (x.tmod y) = true
      rw [inRange_long]
      have := tmod_range_signed 9223372036854775808 x y (by omega) hy0
      omega
    · rw [inRange_ulong] at hx hy
      refine ⟨Or.inr (Or.inr (Or.inr (Or.inr rfl))), ?_⟩
      show inRange Ty.ulong (x.tmod y) = true
      rw [inRange_ulong]
      exact tmod_range_unsigned 18446744073709551615 x y hx
  case lt => cases h; exact good_ofBool _
  case le => cases h; exact good_ofBool _
  case gt => cases h; exact good_ofBool _
  case ge => cases h; exact good_ofBool _
  case eq => cases h; exact good_ofBool _
  case ne => cases h; exact good_ofBool _
  case band => cases h; exact good_wrapTo ht.reach _
  case bxor => cases h; exact good_wrapTo ht.reach _
  case bor => cases h; exact good_wrapTo ht.reach _
  all_goals cases h

end Occa.Prim.Lemmas
