/-
Progress of the build pipeline under interference by other processes (rely/guarantee):
`Triple` = total correctness of a `Prog` when, before each of its steps, the environment may change the
file system in any way that keeps final-named files and leaves the program's own temp names alone.
`triple_buildProg`: the modelled build always returns (no exception) with a binary in place;
`triple_buildProg_warm`: with the artefacts present it never starts a compiler.
-/
import OccaProofs.Lemmas.BuildFSSafe
namespace Occa.BuildFS

/-! ### running a program while other processes work on the same file system -/

/-- run with interference: before each step of the program the environment transforms the file system
    (`es` = what the other processes do in between, consumed one element per step) -/
def runE (S : Spec) (pid : Nat) {α : Type} : Prog α → List (FS → FS) → FS → Option α × FS × Trace × List (FS → FS)
  | .ret a, es, fs => (some a, fs, [], es)
  | .fail, es, fs => (none, fs, [], es)
  | .act o k, es, fs =>
      let fs1 := (es.headD id) fs
      let r := result fs1 o
      let x := runE S pid (k r) es.tail (applyOp S fs1 o)
      (x.1, x.2.1, ⟨pid, o, r⟩ :: x.2.2.1, x.2.2.2)

/-- what a process relies on: other processes never remove a final-named file and never touch a temp
    name made from one of its tokens -/
def Rely (c : Config) (fs fs1 : FS) : Prop :=
  (∀ q, q.tmp = none → fs.present q = true → fs1.present q = true) ∧
  (∀ q i, q.tmp = some (c.toks i) → fs1.files q = fs.files q)

theorem Rely.refl (c : Config) (fs : FS) : Rely c fs fs := ⟨fun _ _ h => h, fun _ _ _ => rfl⟩

theorem Rely.trans {c : Config} {a b d : FS} (h1 : Rely c a b) (h2 : Rely c b d) : Rely c a d :=
  ⟨fun q hq h => h2.1 q hq (h1.1 q hq h), fun q i hq => (h2.2 q i hq).trans (h1.2 q i hq)⟩

/-- the interference met along THIS run respects `Rely` (each element of `es` is applied to the state the
    program has reached, so a constant function "the file system now looks like this" is allowed) -/
def EnvOK (S : Spec) (c : Config) {α : Type} : Prog α → List (FS → FS) → FS → Prop
  | .ret _, _, _ => True
  | .fail, _, _ => True
  | .act o k, es, fs =>
      Rely c fs ((es.headD id) fs) ∧
      EnvOK S c (k (result ((es.headD id) fs) o)) es.tail (applyOp S ((es.headD id) fs) o)

theorem EnvOK.nil (S : Spec) (c : Config) {α : Type} (m : Prog α) (fs : FS) : EnvOK S c m [] fs := by
  induction m generalizing fs with
  | ret a => trivial
  | fail => trivial
  | act o k ih => exact ⟨Rely.refl c fs, ih _ _⟩

def Stable (c : Config) (A : FS → Prop) : Prop := ∀ fs fs1, Rely c fs fs1 → A fs → A fs1

/-- total correctness under interference: from every state satisfying `A` the program returns (no exception)
    with a result and a state satisfying `Q`, and every step it performed satisfies `E` -/
def Triple (S : Spec) (pid : Nat) (c : Config) (E : Op → Prop) {α : Type} (A : FS → Prop) (m : Prog α) (Q : α → FS → Prop) : Prop :=
  ∀ es fs, EnvOK S c m es fs → A fs →
    ∃ a fs' t es', runE S pid m es fs = (some a, fs', t, es') ∧ Q a fs' ∧ ∀ e ∈ t, E e.op

section logic
variable {S : Spec} {pid : Nat} {c : Config} {E : Op → Prop}

theorem runE_bind {α β : Type} (m : Prog α) (f : α → Prog β) (es : List (FS → FS)) (fs : FS) :
    runE S pid (m >>= f) es fs =
      match runE S pid m es fs with
      | (some a, fs', t, es') =>
          let y := runE S pid (f a) es' fs'
          (y.1, y.2.1, t ++ y.2.2.1, y.2.2.2)
      | (none, fs', t, es') => (none, fs', t, es') := by
  induction m generalizing es fs with
  | ret a => rfl
  | fail => rfl
  | act o k ih =>
    show runE S pid (.act o (fun r => (k r) >>= f)) es fs = _
    simp only [runE]
    rw [ih]
    generalize runE S pid (k (result ((es.headD id) fs) o)) es.tail (applyOp S ((es.headD id) fs) o) = x
    obtain ⟨a, fs', t, es'⟩ := x
    cases a <;> rfl

/-- the interference of a sequential composition splits -/
theorem EnvOK_bind {α β : Type} (m : Prog α) (f : α → Prog β) (es : List (FS → FS)) (fs : FS)
    (h : EnvOK S c (m >>= f) es fs) :
    EnvOK S c m es fs ∧ ∀ a fs' t es', runE S pid m es fs = (some a, fs', t, es') → EnvOK S c (f a) es' fs' := by
  induction m generalizing es fs with
  | ret a =>
    refine ⟨trivial, ?_⟩
    intro a' fs' t es' hr
    simp only [runE, Prod.mk.injEq, Option.some.injEq] at hr
    obtain ⟨h1, h2, _, h4⟩ := hr
    subst h1; subst h2; subst h4
    exact h
  | fail => exact ⟨trivial, fun a fs' t es' hr => by simp [runE] at hr⟩
  | act o k ih =>
    have h' : EnvOK S c (.act o (fun r => (k r) >>= f)) es fs := h
    obtain ⟨h1, h2⟩ := h'
    obtain ⟨g1, g2⟩ := ih _ _ _ h2
    refine ⟨⟨h1, g1⟩, ?_⟩
    intro a fs' t es' hr
    simp only [runE] at hr
    generalize hx : runE S pid (k (result ((es.headD id) fs) o)) es.tail (applyOp S ((es.headD id) fs) o) = x at hr
    obtain ⟨a1, fs1, t1, es1⟩ := x
    simp only [Prod.mk.injEq] at hr
    obtain ⟨ha, hfs, _, hes⟩ := hr
    subst ha; subst hfs; subst hes
    exact g2 _ _ _ _ hx

theorem triple_ret {α : Type} {A : FS → Prop} {Q : α → FS → Prop} (a : α) (h : ∀ fs, A fs → Q a fs) :
    Triple S pid c E A (pure a) Q := fun es fs _ hA => ⟨a, fs, [], es, rfl, h fs hA, fun _ h => by cases h⟩

theorem triple_false {α : Type} {A : FS → Prop} (m : Prog α) (Q : α → FS → Prop) (h : ∀ fs, ¬ A fs) :
    Triple S pid c E A m Q := fun _ fs _ hA => absurd hA (h fs)

theorem triple_conseq {α : Type} {A A' : FS → Prop} {Q Q' : α → FS → Prop} {m : Prog α}
    (h : Triple S pid c E A m Q) (hA : ∀ fs, A' fs → A fs) (hQ : ∀ a fs, Q a fs → Q' a fs) :
    Triple S pid c E A' m Q' := by
  intro es fs he h0
  obtain ⟨a, fs', t, es', h1, h2, h3⟩ := h es fs he (hA fs h0)
  exact ⟨a, fs', t, es', h1, hQ a fs' h2, h3⟩

theorem triple_bind {α β : Type} {A : FS → Prop} {Q : α → FS → Prop} {R : β → FS → Prop} {m : Prog α} {f : α → Prog β}
    (hm : Triple S pid c E A m Q) (hf : ∀ a, Triple S pid c E (Q a) (f a) R) : Triple S pid c E A (m >>= f) R := by
  intro es fs he h0
  obtain ⟨he1, he2⟩ := EnvOK_bind (pid := pid) m f es fs he
  obtain ⟨a, fs', t, es', h1, h2, h4⟩ := hm es fs he1 h0
  obtain ⟨b, fs'', t', es'', g1, g2, g4⟩ := hf a es' fs' (he2 a fs' t es' h1) h2
  refine ⟨b, fs'', t ++ t', es'', ?_, g2, ?_⟩
  · rw [runE_bind, h1]
    simp [g1]
  · intro e he'
    rcases List.mem_append.1 he' with h | h
    · exact h4 e h
    · exact g4 e h

theorem triple_act {α : Type} {A : FS → Prop} {Q : α → FS → Prop} (o : Op) (k : Bool → Prog α)
    (B : Bool → FS → Prop) (hEo : E o) (hst : Stable c A) (hB : ∀ fs, A fs → B (result fs o) (applyOp S fs o))
    (hk : ∀ r, Triple S pid c E (B r) (k r) Q) : Triple S pid c E A (.act o k) Q := by
  intro es fs he h0
  obtain ⟨he1, he2⟩ := he
  have h1 : A ((es.headD id) fs) := hst _ _ he1 h0
  obtain ⟨a, fs', t, es', g1, g2, g4⟩ := hk _ es.tail _ he2 (hB _ h1)
  refine ⟨a, fs', ⟨pid, o, result ((es.headD id) fs) o⟩ :: t, es', ?_, g2, ?_⟩
  · simp only [runE, g1]
  · intro e he'
    rcases List.mem_cons.1 he' with rfl | h
    · exact hEo
    · exact g4 e h

theorem triple_op {A : FS → Prop} (o : Op) (B : Bool → FS → Prop) (hEo : E o) (hst : Stable c A)
    (hB : ∀ fs, A fs → B (result fs o) (applyOp S fs o)) : Triple S pid c E A (op o) B :=
  triple_act o .ret B hEo hst hB (fun r => triple_ret r (fun _ h => h))

end logic

theorem Stable.and_const {c : Config} {A : FS → Prop} (φ : Prop) (h : Stable c A) : Stable c (fun fs => φ ∧ A fs) :=
  fun fs fs1 hr ⟨h1, h2⟩ => ⟨h1, h fs fs1 hr h2⟩

/-! ### assertions: a list of paths known to exist -/

def Mine (c : Config) (q : Path) : Prop := q.tmp = none ∨ IsTok c q
def AllMine (c : Config) (X : List Path) : Prop := ∀ q ∈ X, Mine c q
def Fin (L : List Path) : Prop := ∀ q ∈ L, q.tmp = none
def Pr (X : List Path) (fs : FS) : Prop := ∀ q ∈ X, fs.present q = true

theorem Fin.allMine {c : Config} {L : List Path} (h : Fin L) : AllMine c L := fun q hq => Or.inl (h q hq)
theorem AllMine.cons {c : Config} {X : List Path} {q : Path} (hq : Mine c q) (h : AllMine c X) : AllMine c (q :: X) := by
  intro x hx
  rcases List.mem_cons.1 hx with rfl | h'
  · exact hq
  · exact h x h'
theorem Fin.cons {L : List Path} {q : Path} (hq : q.tmp = none) (h : Fin L) : Fin (q :: L) := by
  intro x hx
  rcases List.mem_cons.1 hx with rfl | h'
  · exact hq
  · exact h x h'
theorem mine_tok (c : Config) (p : Path) (i : Nat) : Mine c (p.withTok (c.toks i)) := Or.inr ⟨i, rfl⟩

theorem Pr_stable {c : Config} {X : List Path} (hX : AllMine c X) : Stable c (Pr X) := by
  intro fs fs1 hr h q hq
  rcases hX q hq with hf | ⟨i, hi⟩
  · exact hr.1 q hf (h q hq)
  · unfold FS.present; rw [hr.2 q i hi]; exact h q hq

theorem Pr.mono {X Y : List Path} {fs : FS} (h : Pr X fs) (hs : ∀ q ∈ Y, q ∈ X) : Pr Y fs := fun q hq => h q (hs q hq)
theorem Pr.cons {X : List Path} {fs : FS} {q : Path} (hq : fs.present q = true) (h : Pr X fs) : Pr (q :: X) fs := by
  intro x hx
  rcases List.mem_cons.1 hx with rfl | h'
  · exact hq
  · exact h x h'
theorem Pr.tail {X : List Path} {fs : FS} {q : Path} (h : Pr (q :: X) fs) : Pr X fs := fun x hx => h x (List.mem_cons_of_mem _ hx)
theorem Pr.head {X : List Path} {fs : FS} {q : Path} (h : Pr (q :: X) fs) : fs.present q = true := h q (List.mem_cons_self ..)

/-! ### what the single steps do to existence -/
section ops
variable {S : Spec}

theorem present_setFile (fs : FS) (p q : Path) (f : Option File) :
    (fs.setFile p f).present q = if q = p then f.isSome else fs.present q := by
  unfold FS.present FS.setFile; simp only; split <;> rfl

theorem present_creat (fs : FS) (t q : Path) (h : fs.present q = true ∨ q = t) :
    (applyOp S fs (.creat t)).present q = true := by
  simp only [applyOp, present_setFile]
  split
  · rfl
  · rcases h with h | h
    · exact h
    · contradiction

theorem present_append (fs : FS) (t q : Path) (bs : Bytes) (h : fs.present q = true) :
    (applyOp S fs (.append t bs)).present q = true := by
  simp only [applyOp]
  split
  · rw [present_setFile]; split
    · rfl
    · exact h
  · exact h

theorem present_close (fs : FS) (t q : Path) (h : fs.present q = true) :
    (applyOp S fs (.close t)).present q = true := by
  simp only [applyOp]
  split
  · rw [present_setFile]; split
    · rfl
    · exact h
  · exact h

theorem present_mkdir (fs : FS) (d : String) (q : Path) (h : fs.present q = true) :
    (applyOp S fs (.mkdir d)).present q = true := h

theorem present_rename (fs : FS) (a b q : Path) (hab : b ≠ a) (ha : fs.present a = true)
    (h : q = b ∨ (q ≠ a ∧ fs.present q = true)) :
    (applyOp S fs (.rename a b)).present q = true := by
  simp only [applyOp]
  cases hfa : fs.files a with
  | none => simp [FS.present, hfa] at ha
  | some f =>
    simp only
    rw [present_setFile]
    rcases h with rfl | ⟨hne, hq⟩
    · simp [hab, present_setFile]
    · simp only [hne, if_false, present_setFile]
      split
      · rfl
      · exact hq

theorem foldl_setFile_present (f : Path → Option File) (hf : ∀ o, (f o).isSome = true) :
    ∀ (outs : List Path) (fs : FS) (q : Path), (q ∈ outs ∨ fs.present q = true) →
      (outs.foldl (fun acc o => acc.setFile o (f o)) fs).present q = true := by
  intro outs
  induction outs with
  | nil => intro fs q h; rcases h with h | h; cases h; exact h
  | cons o r ih =>
    intro fs q h
    simp only [List.foldl_cons]
    apply ih
    by_cases hq : q ∈ r
    · exact Or.inl hq
    · right
      rw [present_setFile]
      split
      · exact hf o
      · rename_i hne
        rcases h with h | h
        · rcases List.mem_cons.1 h with h | h
          · exact absurd h hne
          · exact absurd h hq
        · exact h

theorem present_exec (fs : FS) (src : Path) (outs : List Path) (q : Path) (hs : fs.present src = true)
    (h : q ∈ outs ∨ fs.present q = true) : (applyOp S fs (.exec src outs)).present q = true := by
  simp only [applyOp]
  cases hfs : fs.files src with
  | none => simp [FS.present, hfs] at hs
  | some f =>
    simp only
    exact foldl_setFile_present (fun o => some ⟨S.compile o.base f.bytes, true⟩) (fun _ => rfl) outs fs q h
end ops


/-! ### the procedures make progress whatever the other processes do -/
section progress
variable {S : Spec} {pid : Nat} {c : Config} {E : Op → Prop} (hE : ∀ o, isExec o = false → E o)
include hE


/-- a step that changes nothing and tells whether `p` exists -/
theorem triple_test {X : List Path} (hX : AllMine c X) (o : Op) (p : Path) (ho : isExec o = false)
    (hn : ∀ fs, applyOp S fs o = fs) (hr : ∀ fs, result fs o = fs.present p) :
    Triple S pid c E (Pr X) (op o) (fun r fs => Pr (if r = true then p :: X else X) fs) := by
  refine triple_op o _ (hE o ho) (Pr_stable hX) ?_
  intro fs h
  rw [hn, hr]
  cases hp : fs.present p
  · simpa using h
  · simp only [if_true]; exact Pr.cons hp h

theorem triple_neutral {X : List Path} (hX : AllMine c X) (o : Op) (ho : isExec o = false) (hn : ∀ fs q, fs.present q = true → (applyOp S fs o).present q = true) :
    Triple S pid c E (Pr X) (op o) (fun _ fs => Pr X fs) :=
  triple_op o _ (hE o ho) (Pr_stable hX) (fun fs h q hq => hn fs q (h q hq))

theorem triple_readFile {X : List Path} (hX : AllMine c X) {p : Path} (hp : p ∈ X) :
    Triple S pid c E (Pr X) (readFile p) (fun _ fs => Pr X fs) := by
  refine triple_act (.openRead p) _ (fun r fs => r = true ∧ Pr X fs) (hE _ rfl) (Pr_stable hX) (fun fs h => ⟨h p hp, h⟩) ?_
  intro r
  cases r
  · exact triple_false _ _ (fun fs h => by cases h.1)
  · simp only [if_true]
    refine triple_act (.stat p) _ (fun _ fs => Pr X fs) (hE _ rfl) ((Pr_stable hX).and_const _) (fun fs h => h.2) ?_
    intro _
    exact triple_ret () (fun _ h => h)

theorem triple_mkpath {X : List Path} (hX : AllMine c X) (d : String) :
    Triple S pid c E (Pr X) (mkpath d) (fun _ fs => Pr X fs) := by
  refine triple_act (.statDir d) _ (fun _ fs => Pr X fs) (hE _ rfl) (Pr_stable hX) (fun fs h => h) ?_
  intro r
  cases r
  · simp only [Bool.false_eq_true, if_false]
    refine triple_act (.mkdir d) _ (fun _ fs => Pr X fs) (hE _ rfl) (Pr_stable hX) (fun fs h => h) ?_
    intro _
    exact triple_ret () (fun _ h => h)
  · exact triple_ret () (fun _ h => h)

theorem triple_sync {X : List Path} (hX : AllMine c X) (p : Path) :
    Triple S pid c E (Pr X) (sync p) (fun _ fs => Pr X fs) := by
  refine triple_act (.openRead p) _ (fun _ fs => Pr X fs) (hE _ rfl) (Pr_stable hX) (fun fs h => h) (fun _ => ?_)
  refine triple_act (.fsync p) _ (fun _ fs => Pr X fs) (hE _ rfl) (Pr_stable hX) (fun fs h => h) (fun _ => ?_)
  refine triple_act (.fsyncDir p.dir) _ (fun _ fs => Pr X fs) (hE _ rfl) (Pr_stable hX) (fun fs h => h) (fun _ => ?_)
  exact triple_ret () (fun _ h => h)

theorem triple_ioWrite {X : List Path} (hX : AllMine c X) (t : Path) (ht : Mine c t) (content : Bytes) :
    Triple S pid c E (Pr X) (ioWrite t content) (fun _ fs => Pr (t :: X) fs) := by
  have hX' : AllMine c (t :: X) := AllMine.cons ht hX
  unfold ioWrite
  refine triple_bind (triple_mkpath hE hX t.dir) (fun _ => ?_)
  refine triple_bind (Q := fun ok fs => ok = true ∧ Pr (t :: X) fs) ?_ ?_
  · refine triple_op (.creat t) _ (hE _ rfl) (Pr_stable hX) ?_
    intro fs h
    refine ⟨rfl, ?_⟩
    intro q hq
    rcases List.mem_cons.1 hq with rfl | hq'
    · exact present_creat fs _ _ (Or.inr rfl)
    · exact present_creat fs _ _ (Or.inl (h q hq'))
  · intro ok
    cases ok
    · exact triple_false _ _ (fun fs h => by cases h.1)
    · simp only [if_true]
      refine triple_bind (Q := fun _ fs => Pr (t :: X) fs) ?_ (fun _ => ?_)
      · by_cases hc : content.isEmpty = true
        · simp only [hc, if_true]
          exact triple_ret () (fun _ h => h.2)
        · simp only [hc]
          refine triple_bind (Q := fun _ fs => Pr (t :: X) fs) ?_ (fun _ => triple_ret () (fun _ h => h))
          refine triple_conseq (triple_neutral hE hX' (.append t content) rfl (fun fs q h => present_append fs t q content h))
            (fun _ h => h.2) (fun _ _ h => h)
      · refine triple_bind (triple_neutral hE hX' (.close t) rfl (fun fs q h => present_close fs t q h)) (fun _ => ?_)
        exact triple_sync hE hX' t

theorem triple_moveStaged {Y : List Path} (t p : Path) (hY : AllMine c Y) (ht : Mine c t) (hp : Mine c p)
    (hpt : p ≠ t) (hne : ∀ q ∈ Y, q ≠ t) :
    Triple S pid c E (Pr (t :: Y)) (moveStaged t p) (fun _ fs => Pr (p :: Y) fs) := by
  have h1 : AllMine c (t :: Y) := AllMine.cons ht hY
  have h2 : AllMine c (p :: Y) := AllMine.cons hp hY
  refine triple_act (.stat t) _ (fun r fs => r = true ∧ Pr (t :: Y) fs) (hE _ rfl) (Pr_stable h1) (fun fs h => ⟨h.head, h⟩) ?_
  intro r
  cases r
  · exact triple_false _ _ (fun fs h => by cases h.1)
  · simp only [if_true]
    refine triple_act (.rename t p) _ (fun ok fs => ok = true ∧ Pr (p :: Y) fs) (hE _ rfl) ((Pr_stable h1).and_const _) ?_ ?_
    · intro fs ⟨_, h⟩
      refine ⟨h.head, ?_⟩
      intro q hq
      rcases List.mem_cons.1 hq with rfl | hq'
      · exact present_rename fs t _ _ hpt h.head (Or.inl rfl)
      · exact present_rename fs t p q hpt h.head (Or.inr ⟨hne q hq', h.tail q hq'⟩)
    · intro ok
      cases ok
      · exact triple_false _ _ (fun fs h => by cases h.1)
      · simp only [if_true]
        exact triple_ret () (fun _ h => h.2)

omit hE in
theorem fin_ne_tok {L : List Path} (hL : Fin L) (p : Path) (tok : String) : ∀ q ∈ L, q ≠ p.withTok tok := by
  intro q hq e
  have := hL q hq
  rw [e] at this
  cases this

omit hE in
theorem final_ne_withTok (p q : Path) (tok : String) (hp : p.tmp = none) : p ≠ q.withTok tok := by
  intro e; rw [e] at hp; cases hp

theorem triple_stageFile {L : List Path} (hL : Fin L) (p : Path) (i : Nat) (skip : Bool) (prod : Path → Prog Bool)
    (hp : p.tmp = none)
    (hprod : Triple S pid c E (Pr L) (prod (p.withTok (c.toks i))) (fun ok fs => ok = true ∧ Pr (p.withTok (c.toks i) :: L) fs)) :
    Triple S pid c E (Pr L) (stageFile p (c.toks i) skip prod) (fun _ fs => Pr (p :: L) fs) := by
  have hLm : AllMine c L := hL.allMine
  unfold stageFile
  refine triple_bind (triple_mkpath hE hLm p.dir) (fun _ => ?_)
  refine triple_bind (triple_test hE hLm (.stat p) p rfl (fun _ => rfl) (fun _ => rfl)) (fun e => ?_)
  by_cases hse : (skip && e) = true
  · simp only [hse, if_true]
    have he : e = true := by simp only [Bool.and_eq_true] at hse; exact hse.2
    subst he
    exact triple_ret () (fun _ h => h)
  · simp only [hse]
    refine triple_bind (triple_conseq hprod (fun fs h => h.mono (by intro q hq; split <;> simp [hq])) (fun _ _ h => h)) (fun ok => ?_)
    cases ok
    · exact triple_false _ _ (fun fs h => by cases h.1)
    · simp only [if_true]
      refine triple_conseq (triple_moveStaged hE (p.withTok (c.toks i)) p hLm (mine_tok c p i) (Or.inl hp)
        (final_ne_withTok p p _ hp) (fin_ne_tok hL p _)) (fun _ h => h.2) (fun _ _ h => h)

theorem triple_stageFiles2 {L : List Path} (hL : Fin L) (p1 : Path) (i1 : Nat) (p2 : Path) (i2 : Nat) (skip : Bool)
    (prod : Path → Path → Prog Bool) (hp1 : p1.tmp = none) (hp2 : p2.tmp = none)
    (hne : p2.withTok (c.toks i2) ≠ p1.withTok (c.toks i1))
    (hprod : Triple S pid c E (Pr L) (prod (p1.withTok (c.toks i1)) (p2.withTok (c.toks i2)))
      (fun ok fs => ok = true ∧ Pr (p1.withTok (c.toks i1) :: p2.withTok (c.toks i2) :: L) fs)) :
    Triple S pid c E (Pr L) (stageFiles2 p1 (c.toks i1) p2 (c.toks i2) skip prod) (fun _ fs => Pr (p1 :: p2 :: L) fs) := by
  have hLm : AllMine c L := hL.allMine
  unfold stageFiles2
  refine triple_bind (triple_mkpath hE hLm p1.dir) (fun _ => ?_)
  refine triple_bind (triple_test hE hLm (.stat p1) p1 rfl (fun _ => rfl) (fun _ => rfl)) (fun e1 => ?_)
  have hX1 : AllMine c (if e1 = true then p1 :: L else L) := by
    split
    · exact AllMine.cons (Or.inl hp1) hLm
    · exact hLm
  refine triple_bind (triple_mkpath hE hX1 p2.dir) (fun _ => ?_)
  refine triple_bind (triple_test hE hX1 (.stat p2) p2 rfl (fun _ => rfl) (fun _ => rfl)) (fun e2 => ?_)
  by_cases hse : (skip && e1 && e2) = true
  · simp only [hse, if_true]
    simp only [Bool.and_eq_true] at hse
    obtain ⟨⟨_, he1⟩, he2⟩ := hse
    subst he1; subst he2
    refine triple_ret () (fun fs h => ?_)
    simp only [if_true] at h
    exact h.mono (by intro q hq; simp only [List.mem_cons] at hq ⊢; rcases hq with h | h | h <;> simp [h])
  · simp only [hse]
    refine triple_bind (triple_conseq hprod (fun fs h => h.mono ?_) (fun _ _ h => h)) (fun ok => ?_)
    · intro q hq
      split <;> split <;> simp [hq]
    cases ok
    · exact triple_false _ _ (fun fs h => by cases h.1)
    · simp only [if_true]
      have hY1 : AllMine c (p2.withTok (c.toks i2) :: L) := AllMine.cons (mine_tok c p2 i2) hLm
      refine triple_bind (Q := fun _ fs => Pr (p1 :: p2.withTok (c.toks i2) :: L) fs) ?_ (fun _ => ?_)
      · refine triple_conseq (triple_moveStaged hE (p1.withTok (c.toks i1)) p1 hY1 (mine_tok c p1 i1) (Or.inl hp1)
          (final_ne_withTok p1 p1 _ hp1) ?_) (fun _ h => h.2) (fun _ _ h => h)
        intro q hq
        rcases List.mem_cons.1 hq with rfl | hq'
        · exact hne
        · exact fin_ne_tok hL p1 _ q hq'
      · have hY2 : AllMine c (p1 :: L) := AllMine.cons (Or.inl hp1) hLm
        refine triple_conseq (triple_moveStaged hE (p2.withTok (c.toks i2)) p2 hY2 (mine_tok c p2 i2) (Or.inl hp2)
          (final_ne_withTok p2 p2 _ hp2) (fin_ne_tok (hL.cons hp1) p2 _))
          (fun fs h => h.mono (by intro q hq; simp only [List.mem_cons] at hq ⊢; rcases hq with h | h | h <;> simp [h]))
          (fun _ fs h => h.mono (by intro q hq; simp only [List.mem_cons] at hq ⊢; rcases hq with h | h | h <;> simp [h]))

theorem triple_writeProducer {L : List Path} (hL : Fin L) (p : Path) (i : Nat) (content : Bytes) :
    Triple S pid c E (Pr L) (writeProducer content (p.withTok (c.toks i)))
      (fun ok fs => ok = true ∧ Pr (p.withTok (c.toks i) :: L) fs) := by
  unfold writeProducer
  refine triple_bind (triple_ioWrite hE hL.allMine _ (mine_tok c p i) content) (fun _ => ?_)
  exact triple_ret true (fun _ h => ⟨rfl, h⟩)

theorem triple_stageWrite {L : List Path} (hL : Fin L) (p : Path) (i : Nat) (skip : Bool) (content : Bytes) (hp : p.tmp = none) :
    Triple S pid c E (Pr L) (stageFile p (c.toks i) skip (writeProducer content)) (fun _ fs => Pr (p :: L) fs) :=
  triple_stageFile hE hL p i skip _ hp (triple_writeProducer hE hL p i content)

theorem triple_applyDependencyHash {L : List Path} (hL : Fin L) :
    Triple S pid c E (Pr L) (applyDependencyHash c) (fun _ fs => Pr L fs) := by
  unfold applyDependencyHash
  refine triple_bind (triple_test hE hL.allMine (.openRead (c.k "build.json")) (c.k "build.json") rfl (fun _ => rfl) (fun _ => rfl)) (fun e => ?_)
  cases e
  · exact triple_ret () (fun _ h => by simpa using h)
  · simp only [if_true]
    exact triple_conseq (triple_readFile hE (hL.cons (k_final _)).allMine (List.mem_cons_self ..)) (fun _ h => h) (fun _ _ h => h.tail)

theorem triple_cacheFile {L : List Path} (hL : Fin L) (dst : Path) (i : Nat) (content : Bytes) (src : Option Path)
    (hp : dst.tmp = none) (hsrc : ∀ s, src = some s → s ∈ L) :
    Triple S pid c E (Pr L) (cacheFile dst (c.toks i) content src) (fun _ fs => Pr (dst :: L) fs) := by
  unfold cacheFile
  refine triple_bind (triple_test hE hL.allMine (.stat dst) dst rfl (fun _ => rfl) (fun _ => rfl)) (fun e => ?_)
  cases e
  · simp only [Bool.false_eq_true, if_false]
    refine triple_bind (Q := fun _ fs => Pr L fs) ?_ (fun _ => triple_stageWrite hE hL dst i true content hp)
    cases src with
    | none => exact triple_ret () (fun _ h => h)
    | some s0 => exact triple_readFile hE hL.allMine (hsrc s0 rfl)
  · simp only [if_true]
    exact triple_ret () (fun _ h => h)


/-- the artefacts a follow-up build needs in order not to compile anything -/
def needed (c : Config) : List Path :=
  if c.openmp = true then [c.k "binary", c.v "output", c.o "binary", c.o "output"] else [c.k "binary"]

omit hE in
theorem needed_fin (c : Config) : Fin (needed c) := by
  unfold needed
  split <;> intro q hq <;> simp only [List.mem_cons, List.mem_nil_iff, or_false] at hq
  · rcases hq with rfl | rfl | rfl | rfl <;> rfl
  · subst hq; rfl

/-- one compiler run whose source exists: all outputs exist afterwards -/
theorem triple_exec {X : List Path} (hX : AllMine c X) (src : Path) (outs : List Path) (hs : src ∈ X) (_ho : AllMine c outs) (hX' : E (.exec src outs)) :
    Triple S pid c E (Pr X) (op (.exec src outs)) (fun ok fs => ok = true ∧ Pr (outs ++ X) fs) := by
  refine triple_op _ _ hX' (Pr_stable hX) ?_
  intro fs h
  refine ⟨h src hs, ?_⟩
  intro q hq
  rcases List.mem_append.1 hq with hq' | hq'
  · exact present_exec fs src outs q (h src hs) (Or.inl hq')
  · exact present_exec fs src outs q (h src hs) (Or.inr (h q hq'))

theorem triple_compilerVendor {L : List Path} (hL : Fin L) (n : Nat) (hinj : ∀ i j, c.toks i = c.toks j → i = j) (hEx : ∀ s o, E (.exec s o)) :
    Triple S pid c E (Pr L) (compilerVendor c n) (fun _ fs => Pr (c.v "output" :: L) fs) := by
  unfold compilerVendor
  refine triple_bind (triple_cacheFile hE hL _ n c.vsrc none (v_final _) (by intro s h; cases h)) (fun _ => ?_)
  have hL1 : Fin (c.v "findCompilerVendor.cpp" :: L) := hL.cons (v_final _)
  refine triple_bind (triple_test hE hL1.allMine (.openRead (c.v "output")) (c.v "output") rfl (fun _ => rfl) (fun _ => rfl)) (fun e => ?_)
  refine triple_bind (Q := fun found fs => Pr (if found = true then c.v "output" :: c.v "findCompilerVendor.cpp" :: L
      else c.v "findCompilerVendor.cpp" :: L) fs) ?_ (fun found => ?_)
  · cases e
    · exact triple_ret false (fun _ h => by simpa using h)
    · simp only [if_true]
      refine triple_conseq (triple_test hE (hL1.cons (v_final _)).allMine (.stat (c.v "output")) (c.v "output") rfl (fun _ => rfl) (fun _ => rfl))
        (fun _ h => h) (fun r fs h => ?_)
      cases r
      · simp only [Bool.false_eq_true, if_false] at h ⊢; exact h.tail
      · simp only [if_true] at h ⊢; exact h.tail
  · cases found
    · simp only [Bool.false_eq_true, if_false]
      have hne : (c.v "build.log").withTok (c.toks (n + 2)) ≠ (c.v "binary").withTok (c.toks (n + 1)) :=
        withTok_ne hinj _ _ _ _ (by omega)
      refine triple_bind (triple_stageFiles2 hE hL1 (c.v "binary") (n + 1) (c.v "build.log") (n + 2) true _ (v_final _) (v_final _) hne ?_) (fun _ => ?_)
      · -- the producer
        refine triple_bind (triple_exec hE hL1.allMine _ _ (List.mem_cons_self ..)
            (AllMine.cons (mine_tok c _ _) (AllMine.cons (mine_tok c _ _) (fun _ h => by cases h))) (hEx _ _)) (fun _ => ?_)
        have hX : AllMine c ([(c.v "binary").withTok (c.toks (n + 1)), (c.v "build.log").withTok (c.toks (n + 2))] ++ (c.v "findCompilerVendor.cpp" :: L)) :=
          AllMine.cons (mine_tok c _ _) (AllMine.cons (mine_tok c _ _) hL1.allMine)
        refine triple_bind (Q := fun ok fs => ok = true ∧ Pr ([(c.v "binary").withTok (c.toks (n + 1)), (c.v "build.log").withTok (c.toks (n + 2))] ++ (c.v "findCompilerVendor.cpp" :: L)) fs) ?_ (fun ok => ?_)
        · refine triple_conseq (triple_op (.stat ((c.v "binary").withTok (c.toks (n + 1)))) _ (hE _ rfl) ((Pr_stable hX).and_const _) ?_) (fun _ h => h) (fun _ _ h => h)
          intro fs h
          exact ⟨h.2.head, h.2⟩
        · cases ok
          · exact triple_false _ _ (fun fs h => by cases h.1)
          · simp only [if_true]
            exact triple_ret true (fun _ h => ⟨rfl, h.2⟩)
      · have hL3 : Fin (c.v "binary" :: c.v "build.log" :: c.v "findCompilerVendor.cpp" :: L) := (hL1.cons (v_final _)).cons (v_final _)
        refine triple_bind (triple_neutral hE hL3.allMine (.run (c.v "binary")) rfl (fun _ _ h => h)) (fun _ => ?_)
        refine triple_conseq (triple_stageWrite hE hL3 (c.v "output") (n + 3) false c.vout (v_final _)) (fun _ h => h)
          (fun _ fs h => h.mono (by intro q hq; simp only [List.mem_cons] at hq ⊢; rcases hq with h | h <;> simp [h]))
    · simp only [if_true]
      refine triple_conseq (triple_readFile hE ((hL1.cons (v_final _)).allMine) (List.mem_cons_self ..)) (fun _ h => h)
        (fun _ fs h => h.mono (by intro q hq; simp only [List.mem_cons] at hq ⊢; rcases hq with h | h <;> simp [h]))

theorem triple_ompCompilerFlag {L : List Path} (hL : Fin L) (n : Nat) (hinj : ∀ i j, c.toks i = c.toks j → i = j) (hEx : ∀ s o, E (.exec s o)) :
    Triple S pid c E (Pr L) (ompCompilerFlag c n) (fun _ fs => Pr (c.o "binary" :: c.o "output" :: L) fs) := by
  unfold ompCompilerFlag
  refine triple_bind (triple_cacheFile hE hL _ n c.osrc none (o_final _) (by intro s h; cases h)) (fun _ => ?_)
  have hL1 : Fin (c.o "compilerSupportsOpenMP.cpp" :: L) := hL.cons (o_final _)
  have hne : (c.o "output").withTok (c.toks (n + 2)) ≠ (c.o "binary").withTok (c.toks (n + 1)) :=
    withTok_ne hinj _ _ _ _ (by omega)
  refine triple_bind (triple_stageFiles2 hE hL1 (c.o "binary") (n + 1) (c.o "output") (n + 2) true _ (o_final _) (o_final _) hne ?_) (fun _ => ?_)
  · refine triple_bind (triple_exec hE hL1.allMine _ _ (List.mem_cons_self ..) (AllMine.cons (mine_tok c _ _) (fun _ h => by cases h)) (hEx _ _)) (fun ok => ?_)
    have hX : AllMine c ([(c.o "binary").withTok (c.toks (n + 1))] ++ (c.o "compilerSupportsOpenMP.cpp" :: L)) :=
      AllMine.cons (mine_tok c _ _) hL1.allMine
    refine triple_bind (triple_conseq (triple_ioWrite hE hX ((c.o "output").withTok (c.toks (n + 2))) (mine_tok c _ _) (if ok = true then c.oout else c.ooutNA))
      (fun _ h => h.2) (fun _ _ h => h)) (fun _ => ?_)
    exact triple_ret true (fun fs h => ⟨rfl, h.mono (by intro q hq; simp only [List.mem_cons, List.cons_append, List.nil_append] at hq ⊢; rcases hq with h | h | h <;> simp [h])⟩)
  · have hL3 : Fin (c.o "binary" :: c.o "output" :: c.o "compilerSupportsOpenMP.cpp" :: L) := (hL1.cons (o_final _)).cons (o_final _)
    refine triple_conseq (triple_readFile hE hL3.allMine (List.mem_cons_of_mem _ (List.mem_cons_self ..))) (fun _ h => h)
      (fun _ fs h => h.mono (by intro q hq; simp only [List.mem_cons] at hq ⊢; rcases hq with h | h | h <;> simp [h]))

theorem triple_loadCached {L : List Path} (hL : Fin L) (hb : c.k "binary" ∈ L) :
    Triple S pid c E (Pr L) (loadCached c) (fun _ fs => Pr L fs) := by
  unfold loadCached
  refine triple_bind (triple_test hE hL.allMine (.stat (c.k "build.json")) (c.k "build.json") rfl (fun _ => rfl) (fun _ => rfl)) (fun e => ?_)
  refine triple_bind (Q := fun _ fs => Pr L fs) ?_ (fun _ => ?_)
  · cases e
    · exact triple_ret () (fun _ h => by simpa using h)
    · simp only [if_true]
      have hL1 : Fin (c.k "build.json" :: L) := hL.cons (k_final _)
      refine triple_bind (triple_test hE hL1.allMine (.openRead (c.k "build.json")) (c.k "build.json") rfl (fun _ => rfl) (fun _ => rfl)) (fun e2 => ?_)
      cases e2
      · exact triple_ret () (fun _ h => by simp only [Bool.false_eq_true, if_false] at h; exact h.tail)
      · simp only [if_true]
        exact triple_conseq (triple_readFile hE (hL1.cons (k_final _)).allMine (List.mem_cons_self ..)) (fun _ h => h) (fun _ _ h => h.tail.tail)
  · refine triple_bind (Q := fun ok fs => ok = true ∧ Pr L fs) (triple_op (.openRead (c.k "binary")) _ (hE _ rfl) (Pr_stable hL.allMine) (fun fs h => ⟨h _ hb, h⟩)) (fun ok => ?_)
    cases ok
    · exact triple_false _ _ (fun fs h => by cases h.1)
    · simp only [if_true]
      exact triple_ret () (fun _ h => h.2)

theorem triple_serialBuild {L : List Path} (hL : Fin L) (n : Nat) (hinj : ∀ i j, c.toks i = c.toks j → i = j) (hEx : ∀ s o, E (.exec s o))
    (hpo : c.parseOk = true) (hstr : c.fromString = true → c.k "string_source.cpp" ∈ L) :
    Triple S pid c E (Pr L) (serialBuild c n) (fun r fs => r = true ∧ Pr (c.k "binary" :: L) fs) := by
  unfold serialBuild
  refine triple_bind (triple_test hE hL.allMine (.stat (c.k "binary")) (c.k "binary") rfl (fun _ => rfl) (fun _ => rfl)) (fun found => ?_)
  cases found
  · simp only [Bool.false_eq_true, if_false]
    refine triple_bind (triple_compilerVendor hE hL n hinj hEx) (fun _ => ?_)
    have hL1 : Fin (c.v "output" :: L) := hL.cons (v_final _)
    refine triple_bind (triple_cacheFile hE hL1 (c.k c.rawBase) (n + 4) c.raw _ (k_final _) ?_) (fun _ => ?_)
    · intro s h
      split at h
      · rename_i hfs
        cases h
        exact List.mem_cons_of_mem _ (hstr hfs)
      · cases h
    have hL2 : Fin (c.k c.rawBase :: c.v "output" :: L) := hL1.cons (k_final _)
    refine triple_bind (triple_readFile hE hL2.allMine (List.mem_cons_self ..)) (fun _ => ?_)
    simp only [hpo, if_true]
    refine triple_bind (triple_stageWrite hE hL2 (c.k c.cppBase) (n + 5) true c.cpp (k_final _)) (fun _ => ?_)
    have hL3 : Fin (c.k c.cppBase :: c.k c.rawBase :: c.v "output" :: L) := hL2.cons (k_final _)
    refine triple_bind (triple_stageWrite hE hL3 (c.k "build.json") (n + 6) true c.json (k_final _)) (fun _ => ?_)
    have hL4 : Fin (c.k "build.json" :: c.k c.cppBase :: c.k c.rawBase :: c.v "output" :: L) := hL3.cons (k_final _)
    refine triple_bind (triple_stageFile hE hL4 (c.k "binary") (n + 7) true _ (k_final _) ?_) (fun _ => ?_)
    · refine triple_bind (triple_exec hE hL4.allMine (c.k c.cppBase) [(c.k "binary").withTok (c.toks (n + 7))]
        (List.mem_cons_of_mem _ (List.mem_cons_self ..)) (AllMine.cons (mine_tok c _ _) (fun _ h => by cases h)) (hEx _ _)) (fun ok => ?_)
      cases ok
      · exact triple_false _ _ (fun fs h => by cases h.1)
      · simp only [if_true]
        exact triple_ret true (fun _ h => ⟨rfl, h.2⟩)
    · have hL5 := hL4.cons (k_final (c := c) "binary")
      refine triple_bind (triple_sync hE hL5.allMine (c.k "binary")) (fun _ => ?_)
      refine triple_bind (Q := fun ok fs => ok = true ∧ Pr (c.k "binary" :: c.k "build.json" :: c.k c.cppBase :: c.k c.rawBase :: c.v "output" :: L) fs)
        (triple_op (.openRead (c.k "binary")) _ (hE _ rfl) (Pr_stable hL5.allMine) (fun fs h => ⟨h.head, h⟩)) (fun ok => ?_)
      cases ok
      · exact triple_false _ _ (fun fs h => by cases h.1)
      · simp only [if_true]
        exact triple_ret true (fun _ h => ⟨rfl, h.2.mono (by intro q hq; simp only [List.mem_cons] at hq ⊢; rcases hq with h | h <;> simp [h])⟩)
  · simp only [if_true]
    have hL1 : Fin (c.k "binary" :: L) := hL.cons (k_final _)
    refine triple_bind (triple_loadCached hE hL1 (List.mem_cons_self ..)) (fun _ => ?_)
    exact triple_ret true (fun _ h => ⟨rfl, h⟩)

theorem triple_buildProg (hinj : ∀ i j, c.toks i = c.toks j → i = j) (hEx : ∀ s o, E (.exec s o)) (hpo : c.parseOk = true) :
    Triple S pid c E (Pr []) (buildProg c) (fun r fs => r = true ∧ Pr (needed c) fs) := by
  have h0 : Fin [] := fun _ h => by cases h
  unfold buildProg
  refine triple_bind (triple_applyDependencyHash hE h0) (fun _ => ?_)
  refine triple_bind (Q := fun _ fs => Pr (if c.fromString = true then [c.k "string_source.cpp"] else []) fs) ?_ (fun _ => ?_)
  · by_cases hfs : c.fromString = true
    · simp only [hfs, if_true]
      refine triple_bind (triple_stageWrite hE h0 (c.k "string_source.cpp") 0 true c.str (k_final _)) (fun _ => ?_)
      have h1 : Fin [c.k "string_source.cpp"] := h0.cons (k_final _)
      refine triple_bind (triple_readFile hE h1.allMine (List.mem_cons_self ..)) (fun _ => ?_)
      exact triple_applyDependencyHash hE h1
    · simp only [hfs]
      exact triple_ret () (fun _ h => h)
  · have h1 : Fin (if c.fromString = true then [c.k "string_source.cpp"] else []) := by
      split
      · exact h0.cons (k_final _)
      · exact h0
    have hstr : c.fromString = true → c.k "string_source.cpp" ∈ (if c.fromString = true then [c.k "string_source.cpp"] else []) := by
      intro h; simp [h]
    refine triple_bind (Q := fun r fs => r = true ∧ Pr (needed c) fs) ?_ (fun ok => ?_)
    · by_cases hom : c.openmp = true
      · simp only [hom, if_true]
        refine triple_bind (triple_compilerVendor hE h1 1 hinj hEx) (fun _ => ?_)
        have h2 := h1.cons (v_final (c := c) "output")
        refine triple_bind (triple_ompCompilerFlag hE h2 5 hinj hEx) (fun _ => ?_)
        have h3 := (h2.cons (o_final (c := c) "output")).cons (o_final (c := c) "binary")
        refine triple_conseq (triple_serialBuild hE h3 8 hinj hEx hpo (fun h => List.mem_cons_of_mem _ (List.mem_cons_of_mem _ (List.mem_cons_of_mem _ (hstr h)))))
          (fun _ h => h) (fun _ fs h => ⟨h.1, h.2.mono ?_⟩)
        intro q hq
        simp only [needed, hom, if_true, List.mem_cons, List.mem_nil_iff, or_false] at hq
        simp only [List.mem_cons]
        rcases hq with h | h | h | h <;> simp [h]
      · simp only [hom]
        refine triple_conseq (triple_serialBuild hE h1 8 hinj hEx hpo hstr) (fun _ h => h) (fun _ fs h => ⟨h.1, h.2.mono ?_⟩)
        intro q hq
        have hq' : q = c.k "binary" := by simpa [needed, hom] using hq
        simp [hq']
    · cases ok
      · exact triple_false _ _ (fun fs h => by cases h.1)
      · simp only [if_true]
        exact triple_ret true (fun _ h => ⟨rfl, h.2⟩)


/-! ### the warm path: with the artefacts present no compiler is started -/

theorem triple_test_known {X : List Path} (hX : AllMine c X) (o : Op) (p : Path) (ho : isExec o = false)
    (hn : ∀ fs, applyOp S fs o = fs) (hr : ∀ fs, result fs o = fs.present p) (hp : p ∈ X) :
    Triple S pid c E (Pr X) (op o) (fun r fs => r = true ∧ Pr X fs) := by
  refine triple_op o _ (hE o ho) (Pr_stable hX) ?_
  intro fs h
  rw [hn, hr]
  exact ⟨h p hp, h⟩

theorem triple_stageFiles2_skip {L : List Path} (hL : Fin L) (p1 : Path) (tok1 : String) (p2 : Path) (tok2 : String)
    (prod : Path → Path → Prog Bool) (h1 : p1 ∈ L) (h2 : p2 ∈ L) :
    Triple S pid c E (Pr L) (stageFiles2 p1 tok1 p2 tok2 true prod) (fun _ fs => Pr L fs) := by
  have hLm : AllMine c L := hL.allMine
  unfold stageFiles2
  refine triple_bind (triple_mkpath hE hLm p1.dir) (fun _ => ?_)
  refine triple_bind (triple_test_known hE hLm (.stat p1) p1 rfl (fun _ => rfl) (fun _ => rfl) h1) (fun e1 => ?_)
  cases e1
  · exact triple_false _ _ (fun fs h => by cases h.1)
  refine triple_bind (triple_conseq (triple_mkpath hE hLm p2.dir) (fun _ h => h.2) (fun _ _ h => h)) (fun _ => ?_)
  refine triple_bind (triple_test_known hE hLm (.stat p2) p2 rfl (fun _ => rfl) (fun _ => rfl) h2) (fun e2 => ?_)
  cases e2
  · exact triple_false _ _ (fun fs h => by cases h.1)
  simp only [Bool.and_self, if_true]
  exact triple_ret () (fun _ h => h.2)

theorem triple_compilerVendor_warm {L : List Path} (hL : Fin L) (n : Nat) (hv : c.v "output" ∈ L) :
    Triple S pid c E (Pr L) (compilerVendor c n) (fun _ fs => Pr L fs) := by
  unfold compilerVendor
  refine triple_bind (triple_cacheFile hE hL _ n c.vsrc none (v_final _) (by intro s h; cases h)) (fun _ => ?_)
  have hL1 : Fin (c.v "findCompilerVendor.cpp" :: L) := hL.cons (v_final _)
  have hv1 : c.v "output" ∈ c.v "findCompilerVendor.cpp" :: L := List.mem_cons_of_mem _ hv
  refine triple_bind (triple_test_known hE hL1.allMine (.openRead (c.v "output")) (c.v "output") rfl (fun _ => rfl) (fun _ => rfl) hv1) (fun e => ?_)
  cases e
  · exact triple_false _ _ (fun fs h => by cases h.1)
  simp only [if_true]
  refine triple_bind (triple_conseq (triple_test_known hE hL1.allMine (.stat (c.v "output")) (c.v "output") rfl (fun _ => rfl) (fun _ => rfl) hv1)
    (fun _ h => h.2) (fun _ _ h => h)) (fun found => ?_)
  cases found
  · exact triple_false _ _ (fun fs h => by cases h.1)
  simp only [if_true]
  exact triple_conseq (triple_readFile hE hL1.allMine hv1) (fun _ h => h.2) (fun _ _ h => h.tail)

theorem triple_ompCompilerFlag_warm {L : List Path} (hL : Fin L) (n : Nat) (h1 : c.o "binary" ∈ L) (h2 : c.o "output" ∈ L) :
    Triple S pid c E (Pr L) (ompCompilerFlag c n) (fun _ fs => Pr L fs) := by
  unfold ompCompilerFlag
  refine triple_bind (triple_cacheFile hE hL _ n c.osrc none (o_final _) (by intro s h; cases h)) (fun _ => ?_)
  have hL1 : Fin (c.o "compilerSupportsOpenMP.cpp" :: L) := hL.cons (o_final _)
  refine triple_bind (triple_stageFiles2_skip hE hL1 _ _ _ _ _ (List.mem_cons_of_mem _ h1) (List.mem_cons_of_mem _ h2)) (fun _ => ?_)
  exact triple_conseq (triple_readFile hE hL1.allMine (List.mem_cons_of_mem _ h2)) (fun _ h => h) (fun _ _ h => h.tail)

theorem triple_serialBuild_warm {L : List Path} (hL : Fin L) (n : Nat) (hb : c.k "binary" ∈ L) :
    Triple S pid c E (Pr L) (serialBuild c n) (fun r fs => r = true ∧ Pr L fs) := by
  unfold serialBuild
  refine triple_bind (triple_test_known hE hL.allMine (.stat (c.k "binary")) (c.k "binary") rfl (fun _ => rfl) (fun _ => rfl) hb) (fun found => ?_)
  cases found
  · exact triple_false _ _ (fun fs h => by cases h.1)
  simp only [if_true]
  refine triple_bind (triple_conseq (triple_loadCached hE hL hb) (fun _ h => h.2) (fun _ _ h => h)) (fun _ => ?_)
  exact triple_ret true (fun _ h => ⟨rfl, h⟩)

theorem triple_buildProg_warm :
    Triple S pid c E (Pr (needed c)) (buildProg c) (fun r _ => r = true) := by
  have h0 : Fin (needed c) := needed_fin c
  have hb : c.k "binary" ∈ needed c := by unfold needed; split <;> simp
  unfold buildProg
  refine triple_bind (triple_applyDependencyHash hE h0) (fun _ => ?_)
  refine triple_bind (Q := fun _ fs => Pr (needed c) fs) ?_ (fun _ => ?_)
  · by_cases hfs : c.fromString = true
    · simp only [hfs, if_true]
      refine triple_bind (triple_stageWrite hE h0 (c.k "string_source.cpp") 0 true c.str (k_final _)) (fun _ => ?_)
      have h1 : Fin (c.k "string_source.cpp" :: needed c) := h0.cons (k_final _)
      refine triple_bind (triple_readFile hE h1.allMine (List.mem_cons_self ..)) (fun _ => ?_)
      exact triple_conseq (triple_applyDependencyHash hE h1) (fun _ h => h) (fun _ _ h => h.tail)
    · simp only [hfs]
      exact triple_ret () (fun _ h => h)
  · refine triple_bind (Q := fun r _ => r = true) ?_ (fun ok => ?_)
    · by_cases hom : c.openmp = true
      · have hv : c.v "output" ∈ needed c := by unfold needed; simp [hom]
        have ho1 : c.o "binary" ∈ needed c := by unfold needed; simp [hom]
        have ho2 : c.o "output" ∈ needed c := by unfold needed; simp [hom]
        simp only [hom, if_true]
        refine triple_bind (triple_compilerVendor_warm hE h0 1 hv) (fun _ => ?_)
        refine triple_bind (triple_ompCompilerFlag_warm hE h0 5 ho1 ho2) (fun _ => ?_)
        exact triple_conseq (triple_serialBuild_warm hE h0 8 hb) (fun _ h => h) (fun _ _ h => h.1)
      · simp only [hom]
        exact triple_conseq (triple_serialBuild_warm hE h0 8 hb) (fun _ h => h) (fun _ _ h => h.1)
    · cases ok
      · exact triple_false _ _ (fun fs h => by cases h)
      · simp only [if_true]
        exact triple_ret true (fun _ _ => rfl)

end progress

/-! ### running alone -/
section alone
variable {S : Spec} {pid : Nat}

theorem run_eq_runE {α : Type} (m : Prog α) (fs : FS) :
    run S pid m fs = ((runE S pid m [] fs).1, (runE S pid m [] fs).2.1, (runE S pid m [] fs).2.2.1) := by
  induction m generalizing fs with
  | ret a => rfl
  | fail => rfl
  | act o k ih =>
    simp only [run, runE, List.headD_nil, List.tail_nil, id]
    rw [ih]

theorem run_isTrace {α : Type} (m : Prog α) (fs : FS) : IsTrace pid m (run S pid m fs).2.2 := by
  induction m generalizing fs with
  | ret a => exact IsTrace.nil _
  | fail => exact IsTrace.nil _
  | act o k ih =>
    simp only [run]
    exact IsTrace.act o k _ _ (ih _ _)

theorem run_apply {α : Type} (m : Prog α) (fs : FS) : (run S pid m fs).2.1 = apply S (run S pid m fs).2.2 fs := by
  induction m generalizing fs with
  | ret a => rfl
  | fail => rfl
  | act o k ih =>
    simp only [run, apply_cons]
    exact ih _ _

end alone
end Occa.BuildFS
