/-
The loops of dtype_t::isCyclic / canBeCastedTo (model: OccaModel/Dtype.lean) against the declarative
cast rule: `byte` on either side, or the longer flattening is a whole number (≥ 1) of repetitions
of the shorter one.  Also: the loops never trap (no division by zero, no out-of-bounds read).
-/
import OccaModel.Dtype

namespace Occa.Dtype
open Occa

/-- `ys` is `n ≥ 1` copies of `xs` -/
def IsRep (xs ys : List Leaf) : Prop := ∃ n, 1 ≤ n ∧ ys = repeatList n xs

/-- the declarative cast rule -/
def CastOK (a b : Dtype) : Prop :=
  isByte a = true ∨ isByte b = true ∨ IsRep a.flatten b.flatten ∨ IsRep b.flatten a.flatten

theorem length_repeatList {α : Type} (xs : List α) : ∀ n, (repeatList n xs).length = n * xs.length
  | 0 => by simp [repeatList]
  | n + 1 => by simp [repeatList, length_repeatList xs n, Nat.add_mul, Nat.add_comm]

theorem getElem?_repeatList {α : Type} (xs : List α) (hx : 0 < xs.length) :
    ∀ n j, (repeatList n xs)[j]? = if j < n * xs.length then xs[j % xs.length]? else none
  | 0, j => by simp [repeatList]
  | n + 1, j => by
      simp only [repeatList]
      by_cases h : j < xs.length
      · rw [List.getElem?_append_left h]
        have : j < (n + 1) * xs.length := by
          have : xs.length ≤ (n + 1) * xs.length := Nat.le_mul_of_pos_left _ (by omega)
          omega
        simp [this, Nat.mod_eq_of_lt h]
      · have hge : xs.length ≤ j := by omega
        rw [List.getElem?_append_right hge, getElem?_repeatList xs hx n (j - xs.length)]
        have e : (j - xs.length) % xs.length = j % xs.length := (Nat.mod_eq_sub_mod hge).symm
        have c : (j - xs.length < n * xs.length) ↔ (j < (n + 1) * xs.length) := by
          rw [Nat.add_mul]; omega
        simp [e, c]

/-! ### the loops -/

theorem at_ok {vec : List Leaf} {i : Nat} (h : i < vec.length) : at_ vec i = .ok vec[i] := by
  simp [at_, List.getElem?_eq_getElem h]

theorem cyclicInner_spec (vec : List Leaf) (L i : Nat) (x : Leaf) :
    ∀ (n c : Nat), (∀ j, j < n → i + (c + j) * L < vec.length) →
      ∃ b, cyclicInner vec L i x n c = .ok b ∧ (b = true ↔ ∀ j, j < n → vec[i + (c + j) * L]? = some x)
  | 0, c, _ => ⟨true, rfl, by simp⟩
  | n + 1, c, hb => by
      have h0 : i + c * L < vec.length := by simpa using hb 0 (by omega)
      have hrec := cyclicInner_spec vec L i x n (c + 1) (fun j hj => by
        have := hb (j + 1) (by omega)
        simpa [Nat.add_assoc, Nat.add_comm 1 j] using this)
      obtain ⟨b, hb1, hb2⟩ := hrec
      simp only [cyclicInner, at_ok h0]
      by_cases hx : x = vec[i + c * L]
      · refine ⟨b, by rw [if_neg (fun hne => hne hx)]; exact hb1, ?_⟩
        rw [hb2]
        constructor
        · intro h j hj
          cases j with
          | zero => simp [List.getElem?_eq_getElem h0, hx]
          | succ j =>
            have := h j (by omega)
            simpa [Nat.add_assoc, Nat.add_comm 1 j] using this
        · intro h j hj
          have := h (j + 1) (by omega)
          simpa [Nat.add_assoc, Nat.add_comm 1 j] using this
      · refine ⟨false, by simp [hx], ?_⟩
        simp only [Bool.false_eq_true, false_iff]
        intro h
        have := h 0 (by omega)
        simp [List.getElem?_eq_getElem h0] at this
        exact hx this.symm

theorem cyclicOuter_spec (vec : List Leaf) (L cycles : Nat) (hc : 1 ≤ cycles) :
    ∀ (n i : Nat), (∀ t c, t < n → c < cycles → (i + t) + c * L < vec.length) →
      ∃ b, cyclicOuter vec L cycles n i = .ok b ∧
        (b = true ↔ ∀ t c, t < n → 1 ≤ c → c < cycles → vec[(i + t) + c * L]? = vec[i + t]?)
  | 0, i, _ => ⟨true, rfl, by simp⟩
  | n + 1, i, hb => by
      have h0 : i < vec.length := by simpa using hb 0 0 (by omega) (by omega)
      have hin := cyclicInner_spec vec L i vec[i] (cycles - 1) 1 (fun j hj => by
        have := hb 0 (1 + j) (by omega) (by omega)
        simpa using this)
      obtain ⟨b1, hb1, hb1'⟩ := hin
      have hrec := cyclicOuter_spec vec L cycles hc n (i + 1) (fun t c ht hc' => by
        have := hb (t + 1) c (by omega) hc'
        simpa [Nat.add_assoc, Nat.add_comm 1 t] using this)
      obtain ⟨b2, hb2, hb2'⟩ := hrec
      simp only [cyclicOuter, at_ok h0, hb1]
      cases b1 with
      | false =>
        refine ⟨false, rfl, ?_⟩
        simp only [Bool.false_eq_true, false_iff]
        intro h
        have : ∀ j, j < cycles - 1 → vec[i + (1 + j) * L]? = some vec[i] := by
          intro j hj
          have := h 0 (1 + j) (by omega) (by omega) (by omega)
          simpa [List.getElem?_eq_getElem h0] using this
        exact absurd (hb1'.mpr this) (by simp)
      | true =>
        refine ⟨b2, by simp [hb2], ?_⟩
        rw [hb2']
        have h1 := hb1'.mp rfl
        constructor
        · intro h t c ht hc1 hc2
          cases t with
          | zero =>
            have := h1 (c - 1) (by omega)
            have e : 1 + (c - 1) = c := by omega
            simpa [e, List.getElem?_eq_getElem h0] using this
          | succ t =>
            have := h t c (by omega) hc1 hc2
            simpa [Nat.add_assoc, Nat.add_comm 1 t] using this
        · intro h t c ht hc1 hc2
          have := h (t + 1) c (by omega) hc1 hc2
          simpa [Nat.add_assoc, Nat.add_comm 1 t] using this

theorem prefixEq_spec (a b : List Leaf) :
    ∀ (n i : Nat), i + n ≤ a.length → i + n ≤ b.length →
      ∃ r, prefixEq a b n i = .ok r ∧ (r = true ↔ ∀ j, j < n → a[i + j]? = b[i + j]?)
  | 0, i, _, _ => ⟨true, rfl, by simp⟩
  | n + 1, i, ha, hb => by
      have h1 : i < a.length := by omega
      have h2 : i < b.length := by omega
      obtain ⟨r, hr, hr'⟩ := prefixEq_spec a b n (i + 1) (by omega) (by omega)
      simp only [prefixEq, at_ok h1, at_ok h2]
      by_cases hx : a[i] = b[i]
      · refine ⟨r, by rw [if_neg (fun hne => hne hx)]; exact hr, ?_⟩
        rw [hr']
        constructor
        · intro h j hj
          cases j with
          | zero => simp [List.getElem?_eq_getElem h1, List.getElem?_eq_getElem h2, hx]
          | succ j =>
            have := h j (by omega)
            simpa [Nat.add_assoc, Nat.add_comm 1 j] using this
        · intro h j hj
          have := h (j + 1) (by omega)
          simpa [Nat.add_assoc, Nat.add_comm 1 j] using this
      · refine ⟨false, by simp [hx], ?_⟩
        simp only [Bool.false_eq_true, false_iff]
        intro h
        have := h 0 (by omega)
        simp [List.getElem?_eq_getElem h1, List.getElem?_eq_getElem h2] at this
        exact hx this

/-! ### periodic lists are repetitions -/

theorem periodic_iff (vec : List Leaf) (l q : Nat) (hl : 0 < l) (hq : 1 ≤ q) (hlen : vec.length = q * l) :
    (∀ t c, t < l → 1 ≤ c → c < q → vec[t + c * l]? = vec[t]?) ↔ vec = repeatList q (vec.take l) := by
  have hle : l ≤ vec.length := by rw [hlen]; exact Nat.le_mul_of_pos_left _ (by omega)
  have htl : (vec.take l).length = l := by simp [List.length_take, Nat.min_eq_left hle]
  constructor
  · intro h
    apply List.ext_getElem?
    intro j
    rw [getElem?_repeatList _ (by omega), htl]
    by_cases hj : j < q * l
    · simp only [hj, if_true]
      have hm : j % l < l := Nat.mod_lt _ hl
      rw [List.getElem?_take_of_lt hm]
      have hd : j / l < q := (Nat.div_lt_iff_lt_mul hl).mpr hj
      have e : j = j % l + (j / l) * l := by
        have := Nat.mod_add_div j l
        rw [Nat.mul_comm] at this; omega
      by_cases h0 : j / l = 0
      · have : j = j % l := by rw [h0] at e; simpa using e
        rw [← this]
      · have := h (j % l) (j / l) hm (Nat.pos_of_ne_zero h0) hd
        rw [← e] at this
        exact this
    · simp only [hj, if_false]
      exact List.getElem?_eq_none (by omega)
  · intro h t c ht hc1 hc2
    generalize hw : vec.take l = w at h htl
    have e1 : vec[t + c * l]? = w[t]? := by
      rw [h, getElem?_repeatList _ (by omega), htl]
      have : t + c * l < q * l := by
        have : (c + 1) * l ≤ q * l := Nat.mul_le_mul_right _ (by omega)
        rw [Nat.add_mul] at this; omega
      simp [this, Nat.add_mul_mod_self_right, Nat.mod_eq_of_lt ht]
    have e2 : vec[t]? = w[t]? := by
      rw [← hw, List.getElem?_take_of_lt ht]
    rw [e1, e2]

theorem isCyclic_spec (hG : Gen.cyclicGuard = true) (vec : List Leaf) (l : Nat) (hv : 0 < vec.length) :
    ∃ b, isCyclic vec l = .ok b ∧
      (b = true ↔ 0 < l ∧ vec.length % l = 0 ∧ vec = repeatList (vec.length / l) (vec.take l)) := by
  unfold isCyclic
  by_cases hl : l ≤ 0
  · exact ⟨false, by simp [hG, hl], by simp; omega⟩
  · have hl' : 0 < l := by omega
    have hne : l ≠ 0 := by omega
    simp only [hG, hl, decide_false, Bool.and_false, Bool.false_eq_true, if_false, cmod, cdiv, hne]
    by_cases hm : vec.length % l = 0
    · simp only [hm, ne_eq, not_true_eq_false, if_false]
      have hlen : vec.length = (vec.length / l) * l := by
        have := Nat.mod_add_div vec.length l
        rw [hm, Nat.mul_comm] at this; omega
      by_cases hq : vec.length / l = 0
      · -- (an empty vector is excluded: isCyclic would read vec[0]; canBeCastedTo never does that)
        rw [hq] at hlen; omega
      · have hq1 : 1 ≤ vec.length / l := Nat.pos_of_ne_zero hq
        obtain ⟨b, hb, hb'⟩ := cyclicOuter_spec vec l (vec.length / l) hq1 l 0 (fun t c ht hc => by
          have : (c + 1) * l ≤ (vec.length / l) * l := Nat.mul_le_mul_right _ (by omega)
          rw [Nat.add_mul] at this; omega)
        refine ⟨b, hb, ?_⟩
        rw [hb']
        have := periodic_iff vec l (vec.length / l) hl' hq1 hlen
        simp only [Nat.zero_add] at *
        rw [this]
        simp [hl']
    · exact ⟨false, by simp [hm], by simp [hm]⟩

/-! ### canBeCastedTo against the declarative rule -/

theorem repeatList_nil {α : Type} : ∀ n, repeatList n ([] : List α) = []
  | 0 => rfl
  | n + 1 => by simp [repeatList, repeatList_nil n]

theorem take_repeatList {α : Type} (xs : List α) : ∀ n, 1 ≤ n → (repeatList n xs).take xs.length = xs
  | 0, h => by omega
  | n + 1, _ => by simp [repeatList]

theorem prefix_iff (f t : List Leaf) (h : f.length ≤ t.length) :
    (∀ j, j < f.length → f[0 + j]? = t[0 + j]?) ↔ t.take f.length = f := by
  constructor
  · intro hp
    apply List.ext_getElem?
    intro j
    rw [List.getElem?_take]
    by_cases hj : j < f.length
    · simp only [hj, if_true]
      have := hp j hj
      simpa using this.symm
    · simp only [hj, if_false]
      exact (List.getElem?_eq_none (by omega)).symm
  · intro ht j hj
    rw [← ht, List.getElem?_take]
    simp [hj]

/-- consequences of `t` being `n ≥ 1` copies of a non-empty `f` -/
theorem IsRep.facts {f t : List Leaf} (h : IsRep f t) (hf : 0 < f.length) :
    t.length % f.length = 0 ∧ 1 ≤ t.length / f.length ∧ t.take f.length = f ∧
      t = repeatList (t.length / f.length) (t.take f.length) := by
  obtain ⟨n, hn, rfl⟩ := h
  have hl := length_repeatList f n
  have hd : (repeatList n f).length / f.length = n := by
    rw [hl]; exact Nat.mul_div_cancel _ hf
  refine ⟨by rw [hl]; exact Nat.mul_mod_left _ _, by rw [hd]; exact hn, take_repeatList f n hn, ?_⟩
  rw [hd, take_repeatList f n hn]

theorem IsRep.length_le {f t : List Leaf} (h : IsRep f t) : f.length ≤ t.length := by
  obtain ⟨n, hn, rfl⟩ := h
  rw [length_repeatList]
  exact Nat.le_mul_of_pos_left _ (by omega)

theorem IsRep.refl (f : List Leaf) : IsRep f f := ⟨1, by omega, by simp [repeatList]⟩

theorem IsRep.eq_of_length {f t : List Leaf} (h : IsRep f t) (hl : f.length = t.length) : f = t := by
  by_cases hf : 0 < f.length
  · have := (h.facts hf).2.2.1
    rw [hl, List.take_length] at this
    exact this.symm
  · have h0 : f = [] := List.eq_nil_of_length_eq_zero (by omega)
    have h1 : t = [] := List.eq_nil_of_length_eq_zero (by omega)
    rw [h0, h1]

/-- one direction of canBeCastedTo: the longer vector `t` is checked against the shorter `f` -/
theorem castLoop_spec (hG : Gen.cyclicGuard = true) (f t : List Leaf) (hlt : f.length < t.length)
    (swap : Bool) :
    ∃ c, isCyclic t f.length = .ok c ∧ (c = false → ¬ IsRep f t) ∧
      (c = true → ∃ r, (if swap then prefixEq t f f.length 0 else prefixEq f t f.length 0) = Except.ok r ∧
        (r = true ↔ IsRep f t)) := by
  obtain ⟨c, hc, hc'⟩ := isCyclic_spec hG t f.length (by omega)
  refine ⟨c, hc, ?_, ?_⟩
  · intro hcf hr
    subst hcf
    by_cases hf : 0 < f.length
    · have := hr.facts hf
      exact absurd (hc'.mpr ⟨hf, this.1, this.2.2.2⟩) (by simp)
    · have h0 : f = [] := List.eq_nil_of_length_eq_zero (by omega)
      obtain ⟨n, _, hn⟩ := hr
      rw [h0, repeatList_nil] at hn
      rw [hn] at hlt
      simp at hlt
  · intro hct
    obtain ⟨hf, hm, hrep⟩ := hc'.mp hct
    have hpre : ∃ r, (if swap then prefixEq t f f.length 0 else prefixEq f t f.length 0) = Except.ok r ∧
        (r = true ↔ t.take f.length = f) := by
      cases swap with
      | false =>
        obtain ⟨r, hr, hr'⟩ := prefixEq_spec f t f.length 0 (by omega) (by omega)
        exact ⟨r, by simpa using hr, by rw [hr', prefix_iff f t (by omega)]⟩
      | true =>
        obtain ⟨r, hr, hr'⟩ := prefixEq_spec t f f.length 0 (by omega) (by omega)
        refine ⟨r, by simpa using hr, ?_⟩
        rw [hr', ← prefix_iff f t (by omega)]
        constructor <;> intro h j hj <;> exact (h j hj).symm
    obtain ⟨r, hr, hr'⟩ := hpre
    refine ⟨r, hr, ?_⟩
    rw [hr']
    constructor
    · intro ht
      refine ⟨t.length / f.length, ?_, by rw [ht] at hrep; exact hrep⟩
      exact (Nat.le_div_iff_mul_le hf).mpr (by omega)
    · intro h
      exact (h.facts hf).2.2.1

theorem canCast_spec (hG : Gen.cyclicGuard = true) (a b : Dtype) :
    ∃ r, canCast a b = .ok r ∧ (r = true ↔ CastOK a b) := by
  unfold canCast CastOK
  by_cases hb : (isByte a || isByte b) = true
  · refine ⟨true, by simp [hb], ?_⟩
    simp only [Bool.or_eq_true] at hb
    simp only [true_iff]
    rcases hb with h | h
    · exact Or.inl h
    · exact Or.inr (Or.inl h)
  · have hb' : isByte a = false ∧ isByte b = false := by
      simp only [Bool.or_eq_true, not_or, Bool.not_eq_true] at hb; exact hb
    simp only [hb, if_false, Bool.false_eq_true]
    simp only [hb'.1, hb'.2, Bool.false_eq_true, false_or]
    by_cases h1 : a.flatten.length < b.flatten.length
    · simp only [h1, if_true]
      obtain ⟨c, hc, hcf, hct⟩ := castLoop_spec hG a.flatten b.flatten h1 false
      have hno : ¬ IsRep b.flatten a.flatten := fun h => by have := h.length_le; omega
      rw [hc]
      cases c with
      | false =>
        refine ⟨false, rfl, ?_⟩
        simp only [Bool.false_eq_true, false_iff]
        intro h
        rcases h with h | h
        · exact hcf rfl h
        · exact hno h
      | true =>
        obtain ⟨r, hr, hr'⟩ := hct rfl
        refine ⟨r, by simpa using hr, ?_⟩
        rw [hr']
        constructor
        · intro h; exact Or.inl h
        · intro h
          rcases h with h | h
          · exact h
          · exact absurd h hno
    · simp only [h1, if_false]
      by_cases h2 : a.flatten.length > b.flatten.length
      · simp only [h2, if_true]
        obtain ⟨c, hc, hcf, hct⟩ := castLoop_spec hG b.flatten a.flatten h2 true
        have hno : ¬ IsRep a.flatten b.flatten := fun h => by have := h.length_le; omega
        rw [hc]
        cases c with
        | false =>
          refine ⟨false, rfl, ?_⟩
          simp only [Bool.false_eq_true, false_iff]
          intro h
          rcases h with h | h
          · exact hno h
          · exact hcf rfl h
        | true =>
          obtain ⟨r, hr, hr'⟩ := hct rfl
          refine ⟨r, by simpa using hr, ?_⟩
          rw [hr']
          constructor
          · intro h; exact Or.inr h
          · intro h
            rcases h with h | h
            · exact absurd h hno
            · exact h
      · simp only [h2, if_false]
        have he : a.flatten.length = b.flatten.length := by omega
        obtain ⟨r, hr, hr'⟩ := prefixEq_spec a.flatten b.flatten a.flatten.length 0 (by omega) (by omega)
        refine ⟨r, hr, ?_⟩
        rw [hr', prefix_iff a.flatten b.flatten (by omega), he, List.take_length]
        constructor
        · intro h; rw [h]; exact Or.inl (IsRep.refl _)
        · intro h
          rcases h with h | h
          · exact (h.eq_of_length he).symm
          · exact h.eq_of_length he.symm

end Occa.Dtype
