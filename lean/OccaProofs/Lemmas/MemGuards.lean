/-
C02 tie (T): the guard events of the C++ memory functions, in source order, as they stood when
OccaModel/Mem.lean was transcribed from them (repaired code: F03, F04, F35, F36, F37, F38 applied).
translate/gen_mem.py regenerates `Occa.Gen.memGuards` from /repo's current sources on every run;
`C02_guards_as_modelled` (Props/C02.lean) states that the two lists are equal.  When a guard is
dropped, added, reordered or edited, that theorem stops checking: revisit the model, then update
this list.

Where each event lives in the model:
  ret:             `View.len` (Lean's `/` on Nat is 0 for a zero divisor, as the repaired length())
  return:/assert:  the `match view? …` heads of doSlice/doCopy…/cloneExpr/castExpr/doSetDtype
  let:             `countBytes`, `offset_`, `bytes` in sliceView / copyGuards / doCopy…Host / mallocExpr / wrapExpr
  error:           the `if ¬ … then .error …` chain of sliceView / copyGuards / doCopy…Host / mallocExpr / wrapExpr
  if:              `if sv.size = 0` in mallocFromExpr
  call:            `copyBytes` reads the source before writing (memmove); host copies cannot overlap device memory
-/
import OccaGen.MemGuards

namespace Occa.Mem

def guardsModelled : List (String × List String) := [
  ("memory::length", ["return:modeMemory == NULL", "let:dtypeSize = modeMemory->dtype_->bytes()", "ret:(dtypeSize ? (modeMemory->size / dtypeSize) : 0)"]),
  ("memory::slice", ["return:!isInitialized()", "let:dtypeSize = modeMemory->dtype_->bytes()", "let:offset_ = dtypeSize * offset", "let:bytes = dtypeSize * ((count == -1) ? (length() - offset) : count)", "error:bytes >= 0", "error:offset >= 0", "error:(offset + (dim_t) count) <= (dim_t) size()"]),
  ("memory::copyFrom(ptr)", ["return:!isInitialized()", "let:dtypeSize = modeMemory->dtype_->bytes()", "let:bytes = dtypeSize * ((count == -1) ? length() : count)", "let:offset_ = dtypeSize * offset", "error:bytes >= -1", "error:offset_ >= 0", "error:udim_t(bytes + offset_) <= modeMemory->size"]),
  ("memory::copyFrom(memory)", ["return:!isInitialized() && !src.isInitialized()", "assert:this", "assert:src", "let:dtypeSize = modeMemory->dtype_->bytes()", "let:bytes = dtypeSize * ((count == -1) ? length() : count)", "let:destOffset_ = dtypeSize * destOffset", "let:srcOffset_ = src.modeMemory->dtype_->bytes() * srcOffset", "error:bytes >= -1", "error:destOffset_ >= 0", "error:srcOffset_ >= 0", "error:udim_t(bytes + srcOffset_) <= src.modeMemory->size", "error:udim_t(bytes + destOffset_) <= modeMemory->size"]),
  ("memory::copyTo(ptr)", ["return:!isInitialized()", "let:dtypeSize = modeMemory->dtype_->bytes()", "let:bytes = dtypeSize * ((count == -1) ? length() : count)", "let:offset_ = dtypeSize * offset", "error:bytes >= -1", "error:offset_ >= 0", "error:udim_t(bytes + offset_) <= modeMemory->size"]),
  ("memory::copyTo(memory)", ["return:!isInitialized() && !dest.isInitialized()", "assert:this", "assert:dest", "let:dtypeSize = modeMemory->dtype_->bytes()", "let:bytes = dtypeSize * ((count == -1) ? length() : count)", "let:destOffset_ = dest.modeMemory->dtype_->bytes() * destOffset", "let:srcOffset_ = dtypeSize * srcOffset", "error:bytes >= -1", "error:destOffset_ >= 0", "error:srcOffset_ >= 0", "error:udim_t(bytes + srcOffset_) <= modeMemory->size", "error:udim_t(bytes + destOffset_) <= dest.modeMemory->size"]),
  ("memory::cast", []),
  ("memory::clone", ["return:!modeMemory || !byte_size()"]),
  ("memory::setDtype", ["assert:this", "error:dtype__.isRegistered()"]),
  ("modeMemory_t::slice", ["error:modeBuffer != NULL", "error:offset + offset_ >= 0"]),
  ("device::malloc(ptr)", ["assert:this", "return:entries == 0", "let:bytes = entries * dtype.bytes()", "error:bytes >= 0"]),
  ("device::malloc(memory)", ["if:entries && src.byte_size()"]),
  ("device::wrapMemory", ["assert:this", "let:bytes = entries * dtype.bytes()", "error:bytes >= 0"]),
  ("serial::memory::copyTo", ["call:memcpy"]),
  ("serial::memory::copyFrom(ptr)", ["call:memcpy"]),
  ("serial::memory::copyFrom(memory)", ["call:memmove"])
]

end Occa.Mem
