/-
Helper lemmas for C23: closed forms of the loop enumerator `loopVals` / `forVals`.
-/
import OccaModel.Functional

namespace Occa.Functional
open Occa

/-- number of iterations of `for (x; x < b; x += st)`, `st > 0` -/
def upCount (x b st : Int) : Nat := ((b - x + st - 1) / st).toNat

theorem upCount_ge (x b st : Int) (hst : 0 < st) (h : b ≤ x) : upCount x b st = 0 := by
  unfold upCount
  have : (b - x + st - 1) / st ≤ 0 := by
    have h1 : b - x + st - 1 < st := by omega
    have := Int.ediv_lt_of_lt_mul hst (show b - x + st - 1 < 1 * st by omega)
    omega
  omega

theorem upCount_lt (x b st : Int) (hst : 0 < st) (h : x < b) :
    upCount x b st = upCount (x + st) b st + 1 := by
  unfold upCount
  have e : b - x + st - 1 = (b - (x + st) + st - 1) + 1 * st := by omega
  rw [e, Int.add_mul_ediv_right _ _ (Int.ne_of_gt hst)]
  have : 0 ≤ (b - (x + st) + st - 1) / st := Int.ediv_nonneg (by omega) (by omega)
  omega

theorem loopVals_up (b st : Int) (hst : 0 < st) :
    ∀ (f : Nat) (x : Int), upCount x b st ≤ f →
      loopVals f x b st = (List.range (upCount x b st)).map (fun (i : Nat) => x + st * (i : Int)) := by
  intro f
  induction f with
  | zero =>
    intro x h
    have : upCount x b st = 0 := by omega
    simp [loopVals, this]
  | succ f ih =>
    intro x h
    unfold loopVals
    by_cases hx : x < b
    · have hc := upCount_lt x b st hst hx
      have hcond : (0 < st ∧ x < b) ∨ (st < 0 ∧ b < x) := Or.inl ⟨hst, hx⟩
      rw [if_pos hcond, ih (x + st) (by omega), hc, List.range_succ_eq_map]
      simp only [List.map_cons, List.map_map]
      congr 1
      · simp
      · apply List.map_congr_left
        intro i _
        simp only [Function.comp_apply, Nat.succ_eq_add_one]
        push_cast
        rw [Int.mul_add]; omega
    · have hcond : ¬ ((0 < st ∧ x < b) ∨ (st < 0 ∧ b < x)) := by omega
      rw [if_neg hcond, upCount_ge x b st hst (by omega)]
      simp

/-- number of iterations of `for (x; x > b; x += st)`, `st < 0` -/
def downCount (x b st : Int) : Nat := ((x - b + (-st) - 1) / (-st)).toNat

theorem downCount_le (x b st : Int) (hst : st < 0) (h : x ≤ b) : downCount x b st = 0 := by
  unfold downCount
  have hs : 0 < -st := by omega
  have := Int.ediv_lt_of_lt_mul hs (show x - b + (-st) - 1 < 1 * (-st) by omega)
  omega

theorem downCount_gt (x b st : Int) (hst : st < 0) (h : b < x) :
    downCount x b st = downCount (x + st) b st + 1 := by
  unfold downCount
  have hs : 0 < -st := by omega
  have e : x - b + (-st) - 1 = ((x + st) - b + (-st) - 1) + 1 * (-st) := by omega
  rw [e, Int.add_mul_ediv_right _ _ (Int.ne_of_gt hs)]
  have : 0 ≤ ((x + st) - b + (-st) - 1) / (-st) := Int.ediv_nonneg (by omega) (by omega)
  omega

theorem loopVals_down (b st : Int) (hst : st < 0) :
    ∀ (f : Nat) (x : Int), downCount x b st ≤ f →
      loopVals f x b st = (List.range (downCount x b st)).map (fun (i : Nat) => x + st * (i : Int)) := by
  intro f
  induction f with
  | zero =>
    intro x h
    have : downCount x b st = 0 := by omega
    simp [loopVals, this]
  | succ f ih =>
    intro x h
    unfold loopVals
    by_cases hx : b < x
    · have hc := downCount_gt x b st hst hx
      have hcond : (0 < st ∧ x < b) ∨ (st < 0 ∧ b < x) := Or.inr ⟨hst, hx⟩
      rw [if_pos hcond, ih (x + st) (by omega), hc, List.range_succ_eq_map]
      simp only [List.map_cons, List.map_map]
      congr 1
      · simp
      · apply List.map_congr_left
        intro i _
        simp only [Function.comp_apply, Nat.succ_eq_add_one]
        push_cast
        rw [Int.mul_add]; omega
    · have hcond : ¬ ((0 < st ∧ x < b) ∨ (st < 0 ∧ b < x)) := by omega
      rw [if_neg hcond, downCount_le x b st hst (by omega)]
      simp

/-- the count never exceeds the distance: the fuel of `forVals` suffices -/
theorem upCount_le_dist (x b st : Int) (hst : 0 < st) : upCount x b st ≤ (b - x).natAbs := by
  unfold upCount
  by_cases h : x < b
  · have h1 : (b - x + st - 1) / st ≤ b - x := by
      have : (b - x + st - 1) / st < b - x + 1 := by
        apply Int.ediv_lt_of_lt_mul hst
        have : (b - x + 1) * st = (b - x) * st + st := by rw [Int.add_mul]; omega
        have h2 : b - x ≤ (b - x) * st := by
          have := Int.mul_le_mul_of_nonneg_left (show 1 ≤ st by omega) (show 0 ≤ b - x by omega)
          omega
        omega
      omega
    omega
  · have := upCount_ge x b st hst (by omega)
    unfold upCount at this
    omega

theorem downCount_le_dist (x b st : Int) (hst : st < 0) : downCount x b st ≤ (b - x).natAbs := by
  unfold downCount
  have hs : 0 < -st := by omega
  by_cases h : b < x
  · have : (x - b + (-st) - 1) / (-st) < x - b + 1 := by
      apply Int.ediv_lt_of_lt_mul hs
      have e : (x - b + 1) * (-st) = (x - b) * (-st) + (-st) := by rw [Int.add_mul]; omega
      have h2 : x - b ≤ (x - b) * (-st) := by
        have := Int.mul_le_mul_of_nonneg_left (show 1 ≤ -st by omega) (show 0 ≤ x - b by omega)
        omega
      omega
    omega
  · have := downCount_le x b st hst (by omega)
    unfold downCount at this
    omega

theorem forVals_up (a b st : Int) (hst : 0 < st) :
    forVals a b st = (List.range (upCount a b st)).map (fun (i : Nat) => a + st * (i : Int)) :=
  loopVals_up b st hst _ a (upCount_le_dist a b st hst)

theorem forVals_down (a b st : Int) (hst : st < 0) :
    forVals a b st = (List.range (downCount a b st)).map (fun (i : Nat) => a + st * (i : Int)) :=
  loopVals_down b st hst _ a (downCount_le_dist a b st hst)

theorem forVals_zero (a b : Int) : forVals a b 0 = [] := by
  unfold forVals
  cases (b - a).natAbs with
  | zero => rfl
  | succ n => simp [loopVals]

end Occa.Functional
