/-
Helper lemmas for C23: closed forms of the loop enumerator `loopVals` / `forVals`.
-/
import OccaModel.Functional

namespace Occa.Functional
open Occa

/-- number of iterations of `for (x; x < b; x += st)`, `st > 0` -/
def upCount (x b st : Int) : Nat := ((b - x + st - 1) / st).toNat

theorem upCount_ge (x b st : Int) (hst : 0 < st) (h : b ≤ x) : upCount x b st = 0 := by
  unfold upCount
  have : (b - x + st - 1) / st ≤ 0 := by
    have h1 : b - x + st - 1 < st := by omega
    have := Int.ediv_lt_of_lt_mul hst (show b - x + st - 1 < 1 * st by omega)
    omega
  omega

theorem upCount_lt (x b st : Int) (hst : 0 < st) (h : x < b) :
    upCount x b st = upCount (x + st) b st + 1 := by
  unfold upCount
  have e : b - x + st - 1 = (b - (x + st) + st - 1) + 1 * st := by omega
  rw [e, Int.add_mul_ediv_right _ _ (Int.ne_of_gt hst)]
  have : 0 ≤ (b - (x + st) + st - 1) / st := Int.ediv_nonneg (by omega) (by omega)
  omega

theorem loopVals_up (b st : Int) (hst : 0 < st) :
    ∀ (f : Nat) (x : Int), upCount x b st ≤ f →
      loopVals f x b st = (List.range (upCount x b st)).map (fun (i : Nat) => x + st * (i : Int)) := by
  intro f
  induction f with
  | zero =>
    intro x h
    have : upCount x b st = 0 := by omega
    simp [loopVals, this]
  | succ f ih =>
    intro x h
    unfold loopVals
    by_cases hx : x < b
    · have hc := upCount_lt x b st hst hx
      have hcond : (0 < st ∧ x < b) ∨ (st < 0 ∧ b < x) := Or.inl ⟨hst, hx⟩
      rw [if_pos hcond, ih (x + st) (by omega), hc, List.range_succ_eq_map]
      simp only [List.map_cons, List.map_map]
      congr 1
      · simp
      · apply List.map_congr_left
        intro i _
        simp only [Function.comp_apply, Nat.succ_eq_add_one]
        push_cast
        rw [Int.mul_add]; omega
    · have hcond : ¬ ((0 < st ∧ x < b) ∨ (st < 0 ∧ b < x)) := by omega
      rw [if_neg hcond, upCount_ge x b st hst (by omega)]
      simp

/-- number of iterations of `for (x; x > b; x += st)`, `st < 0` -/
def downCount (x b st : Int) : Nat := ((x - b + (-st) - 1) / (-st)).toNat

theorem downCount_le (x b st : Int) (hst : st < 0) (h : x ≤ b) : downCount x b st = 0 := by
  unfold downCount
  have hs : 0 < -st := by omega
  have := Int.ediv_lt_of_lt_mul hs (show x - b + (-st) - 1 < 1 * (-st) by omega)
  omega

theorem downCount_gt (x b st : Int) (hst : st < 0) (h : b < x) :
    downCount x b st = downCount (x + st) b st + 1 := by
  unfold downCount
  have hs : 0 < -st := by omega
  have e : x - b + (-st) - 1 = ((x + st) - b + (-st) - 1) + 1 * (-st) := by omega
  rw [e, Int.add_mul_ediv_right _ _ (Int.ne_of_gt hs)]
  have : 0 ≤ ((x + st) - b + (-st) - 1) / (-st) := Int.ediv_nonneg (by omega) (by omega)
  omega

theorem loopVals_down (b st : Int) (hst : st < 0) :
    ∀ (f : Nat) (x : Int), downCount x b st ≤ f →
      loopVals f x b st = (List.range (downCount x b st)).map (fun (i : Nat) => x + st * (i : Int)) := by
  intro f
  induction f with
  | zero =>
    intro x h
    have : downCount x b st = 0 := by omega
    simp [loopVals, this]
  | succ f ih =>
    intro x h
    unfold loopVals
    by_cases hx : b < x
    · have hc := downCount_gt x b st hst hx
      have hcond : (0 < st ∧ x < b) ∨ (st < 0 ∧ b < x) := Or.inr ⟨hst, hx⟩
      rw [if_pos hcond, ih (x + st) (by omega), hc, List.range_succ_eq_map]
      simp only [List.map_cons, List.map_map]
      congr 1
      · simp
      · apply List.map_congr_left
        intro i _
        simp only [Function.comp_apply, Nat.succ_eq_add_one]
        push_cast
        rw [Int.mul_add]; omega
    · have hcond : ¬ ((0 < st ∧ x < b) ∨ (st < 0 ∧ b < x)) := by omega
      rw [if_neg hcond, downCount_le x b st hst (by omega)]
      simp

/-- the count never exceeds the distance: the fuel of `forVals` suffices -/
theorem upCount_le_dist (x b st : Int) (hst : 0 < st) : upCount x b st ≤ (b - x).natAbs := by
  unfold upCount
  by_cases h : x < b
  · have h1 : (b - x + st - 1) / st ≤ b - x := by
      have : (b - x + st - 1) / st < b - x + 1 := by
        apply Int.ediv_lt_of_lt_mul hst
        have : (b - x + 1) * st = (b - x) * st + st := by rw [Int.add_mul]; omega
        have h2 : b - x ≤ (b - x) * st := by
          have := Int.mul_le_mul_of_nonneg_left (show 1 ≤ st by omega) (show 0 ≤ b - x by omega)
          omega
        omega
      omega
    omega
  · have := upCount_ge x b st hst (by omega)
    unfold upCount at this
    omega

theorem downCount_le_dist (x b st : Int) (hst : st < 0) : downCount x b st ≤ (b - x).natAbs := by
  unfold downCount
  have hs : 0 < -st := by omega
  by_cases h : b < x
  · have : (x - b + (-st) - 1) / (-st) < x - b + 1 := by
      apply Int.ediv_lt_of_lt_mul hs
      have e : (x - b + 1) * (-st) = (x - b) * (-st) + (-st) := by rw [Int.add_mul]; omega
      have h2 : x - b ≤ (x - b) * (-st) := by
        have := Int.mul_le_mul_of_nonneg_left (show 1 ≤ -st by omega) (show 0 ≤ x - b by omega)
        omega
      omega
    omega
  · have := downCount_le x b st hst (by omega)
    unfold downCount at this
    omega

theorem forVals_up (a b st : Int) (hst : 0 < st) :
    forVals a b st = (List.range (upCount a b st)).map (fun (i : Nat) => a + st * (i : Int)) :=
  loopVals_up b st hst _ a (upCount_le_dist a b st hst)

theorem forVals_down (a b st : Int) (hst : st < 0) :
    forVals a b st = (List.range (downCount a b st)).map (fun (i : Nat) => a + st * (i : Int)) :=
  loopVals_down b st hst _ a (downCount_le_dist a b st hst)

theorem forVals_zero (a b : Int) : forVals a b 0 = [] := by
  unfold forVals
  cases (b - a).natAbs with
  | zero => rfl
  | succ n => simp [loopVals]

end Occa.Functional

/-! ### unit-step segments and chunking -/

namespace Occa.Functional

theorem upCount_one (a b : Int) : upCount a b 1 = (b - a).toNat := by
  unfold upCount
  simp

theorem forVals_one (a b : Int) :
    forVals a b 1 = (List.range (b - a).toNat).map (fun (i : Nat) => a + (i : Int)) := by
  rw [forVals_up a b 1 (by decide), upCount_one]
  apply List.map_congr_left
  intro i _
  omega

theorem mem_forVals_one (a b x : Int) : x ∈ forVals a b 1 ↔ a ≤ x ∧ x < b := by
  rw [forVals_one]
  simp only [List.mem_map, List.mem_range]
  constructor
  · rintro ⟨i, hi, rfl⟩
    omega
  · intro h
    exact ⟨(x - a).toNat, by omega, by omega⟩

theorem forVals_nil (a b st : Int) (hst : 0 < st) (h : b ≤ a) : forVals a b st = [] := by
  rw [forVals_up a b st hst, upCount_ge a b st hst h]
  rfl

theorem forVals_cons (a b st : Int) (hst : 0 < st) (h : a < b) :
    forVals a b st = a :: forVals (a + st) b st := by
  rw [forVals_up a b st hst, forVals_up (a + st) b st hst, upCount_lt a b st hst h, List.range_succ_eq_map]
  simp only [List.map_cons, List.map_map]
  congr 1
  · simp
  · apply List.map_congr_left
    intro i _
    simp only [Function.comp_apply, Nat.succ_eq_add_one]
    push_cast
    rw [Int.mul_add]; omega

theorem forVals_split_one (a m b : Int) (h1 : a ≤ m) (h2 : m ≤ b) :
    forVals a b 1 = forVals a m 1 ++ forVals m b 1 := by
  rw [forVals_one a b, forVals_one a m, forVals_one m b]
  have e : (b - a).toNat = (m - a).toNat + (b - m).toNat := by omega
  rw [e, List.range_add, List.map_append, List.map_map]
  congr 1
  apply List.map_congr_left
  intro i _
  simp only [Function.comp_apply]
  omega

/-- Lemma B: `m` chunks of width `c` starting at `a` enumerate `[a, a + m*c)` in order -/
theorem chunk_flatMap (c : Int) (hc : 0 < c) :
    ∀ (m : Nat) (a : Int),
      (forVals a (a + (m : Int) * c) c).flatMap (fun t => forVals t (t + c) 1) = forVals a (a + (m : Int) * c) 1 := by
  intro m
  induction m with
  | zero =>
    intro a
    have e : a + ((0 : Nat) : Int) * c = a := by simp
    rw [e, forVals_nil a a c hc (by omega), forVals_nil a a 1 (by decide) (by omega)]
    rfl
  | succ m ih =>
    intro a
    have hm : (0 : Int) ≤ (m : Int) * c := Int.mul_nonneg (by omega) (by omega)
    have e : a + ((m + 1 : Nat) : Int) * c = (a + c) + (m : Int) * c := by
      push_cast
      rw [Int.add_mul]; omega
    rw [e, forVals_cons a _ c hc (by omega), List.flatMap_cons, ih (a + c),
      forVals_split_one a (a + c) (a + c + (m : Int) * c) (by omega) (by omega)]

/-- two upward loops from the same start with the same step and the same count visit the same values -/
theorem forVals_congr_count (a b b' st : Int) (hst : 0 < st) (h : upCount a b st = upCount a b' st) :
    forVals a b st = forVals a b' st := by
  rw [forVals_up a b st hst, forVals_up a b' st hst, h]

/-- `filter` distributes over `flatMap` -/
theorem filter_flatMap' {α β : Type} (p : β → Bool) (f : α → List β) :
    ∀ l : List α, (l.flatMap f).filter p = l.flatMap (fun x => (f x).filter p)
  | [] => rfl
  | x :: l => by simp [List.flatMap_cons, List.filter_append, filter_flatMap' p f l]

theorem filter_lt_forVals_one (a b N : Int) (h1 : a ≤ N) (h2 : N ≤ b) :
    (forVals a b 1).filter (fun i => decide (i < N)) = forVals a N 1 := by
  rw [forVals_split_one a N b h1 h2, List.filter_append]
  have k1 : (forVals a N 1).filter (fun i => decide (i < N)) = forVals a N 1 := by
    apply List.filter_eq_self.mpr
    intro x hx
    have := (mem_forVals_one a N x).mp hx
    simp; omega
  have k2 : (forVals N b 1).filter (fun i => decide (i < N)) = [] := by
    apply List.filter_eq_nil_iff.mpr
    intro x hx
    have := (mem_forVals_one N b x).mp hx
    simp; omega
  rw [k1, k2, List.append_nil]

end Occa.Functional

/-! ### stepped segments: alignment, chunking by a multiple of the step, clipping -/

namespace Occa.Functional

theorem upCount_eq_zero (a b c : Int) (hc : 0 < c) (h : upCount a b c = 0) : b ≤ a := by
  by_cases hh : a < b
  · have := upCount_lt a b c hc hh; omega
  · omega

theorem upCount_aligned (a B : Int) (hB : 0 < B) (k : Nat) : upCount a (a + (k : Int) * B) B = k := by
  unfold upCount
  have e : a + (k : Int) * B - a + B - 1 = (B - 1) + (k : Int) * B := by omega
  rw [e, Int.add_mul_ediv_right _ _ (Int.ne_of_gt hB), Int.ediv_eq_zero_of_lt (by omega) (by omega)]
  omega

theorem upCount_cover (a b B : Int) (hB : 0 < B) : b ≤ a + (upCount a b B : Int) * B := by
  by_cases h : a < b
  · have hq : 0 ≤ (b - a + B - 1) / B := Int.ediv_nonneg (by omega) (by omega)
    have hk : ((upCount a b B : Nat) : Int) = (b - a + B - 1) / B := by unfold upCount; omega
    rw [hk]
    have h1 := Int.mul_ediv_add_emod (b - a + B - 1) B
    have h2 := Int.emod_lt_of_pos (b - a + B - 1) hB
    rw [Int.mul_comm] at h1
    omega
  · rw [upCount_ge a b B hB (by omega)]
    simp; omega

/-- a loop that is cut at its own block boundary visits the same values -/
theorem forVals_to_aligned (a b B : Int) (hB : 0 < B) :
    forVals a b B = forVals a (a + (upCount a b B : Int) * B) B :=
  forVals_congr_count a b _ B hB (upCount_aligned a B hB _).symm

theorem forVals_split_aligned (c : Int) (hc : 0 < c) :
    ∀ (j : Nat) (a b : Int), a + (j : Int) * c ≤ b →
      forVals a b c = forVals a (a + (j : Int) * c) c ++ forVals (a + (j : Int) * c) b c := by
  intro j
  induction j with
  | zero =>
    intro a b _
    have e : a + ((0 : Nat) : Int) * c = a := by simp
    rw [e, forVals_nil a a c hc (by omega)]
    rfl
  | succ j ih =>
    intro a b h
    have hj : (0 : Int) ≤ (j : Int) * c := Int.mul_nonneg (by omega) (by omega)
    have e : a + ((j + 1 : Nat) : Int) * c = (a + c) + (j : Int) * c := by
      push_cast; rw [Int.add_mul]; omega
    rw [e] at h ⊢
    rw [forVals_cons a b c hc (by omega), forVals_cons a (a + c + (j : Int) * c) c hc (by omega),
      ih (a + c) b h, List.cons_append]

/-- `m` blocks of `T` steps each enumerate the same values as the plain stepped loop -/
theorem chunk_flatMap_step (c : Int) (hc : 0 < c) (T : Nat) (hT : 0 < T) :
    ∀ (m : Nat) (a : Int),
      (forVals a (a + (m : Int) * ((T : Int) * c)) ((T : Int) * c)).flatMap
          (fun blk => forVals blk (blk + (T : Int) * c) c)
        = forVals a (a + (m : Int) * ((T : Int) * c)) c := by
  have hB : 0 < (T : Int) * c := Int.mul_pos (by omega) hc
  intro m
  induction m with
  | zero =>
    intro a
    have e : a + ((0 : Nat) : Int) * ((T : Int) * c) = a := by simp
    rw [e, forVals_nil a a _ hB (by omega), forVals_nil a a c hc (by omega)]
    rfl
  | succ m ih =>
    intro a
    have hm : (0 : Int) ≤ (m : Int) * ((T : Int) * c) := Int.mul_nonneg (by omega) (by omega)
    have e : a + ((m + 1 : Nat) : Int) * ((T : Int) * c) = (a + (T : Int) * c) + (m : Int) * ((T : Int) * c) := by
      push_cast; rw [Int.add_mul]; omega
    rw [e, forVals_cons a _ _ hB (by omega), List.flatMap_cons, ih (a + (T : Int) * c),
      forVals_split_aligned c hc T a (a + (T : Int) * c + (m : Int) * ((T : Int) * c)) (by omega)]

/-- keeping the values below `e` of an upward loop = stopping the loop at `e` -/
theorem filter_lt_forVals (b c e : Int) (hc : 0 < c) :
    ∀ (n : Nat) (a : Int), upCount a b c = n →
      (forVals a b c).filter (fun x => decide (x < e)) = forVals a (min b e) c := by
  intro n
  induction n with
  | zero =>
    intro a h
    have hba := upCount_eq_zero a b c hc h
    rw [forVals_nil a b c hc hba, forVals_nil a (min b e) c hc (by omega)]
    rfl
  | succ n ih =>
    intro a h
    have hab : a < b := by
      by_cases hh : a < b
      · exact hh
      · have := upCount_ge a b c hc (by omega); omega
    have hn : upCount (a + c) b c = n := by have := upCount_lt a b c hc hab; omega
    rw [forVals_cons a b c hc hab, List.filter_cons]
    by_cases hae : a < e
    · rw [if_pos (by simpa using hae), ih (a + c) hn, forVals_cons a (min b e) c hc (by omega)]
    · rw [if_neg (by simpa using hae), ih (a + c) hn, forVals_nil (a + c) (min b e) c hc (by omega),
        forVals_nil a (min b e) c hc (by omega)]

/-- a descending loop is the mirror image of an ascending one -/
theorem forVals_neg (a b st : Int) (hst : st < 0) :
    forVals a b st = (forVals (-a) (-b) (-st)).map (fun x => -x) := by
  rw [forVals_down a b st hst, forVals_up (-a) (-b) (-st) (by omega), List.map_map]
  have e : downCount a b st = upCount (-a) (-b) (-st) := by
    unfold downCount upCount
    have : a - b + -st - 1 = -b - -a + -st - 1 := by omega
    rw [this]
  rw [e]
  apply List.map_congr_left
  intro i _
  simp only [Function.comp_apply]
  rw [Int.neg_add, Int.neg_neg, Int.neg_mul, Int.neg_neg]

end Occa.Functional
