/-
`X::removeXRef()` (`dropRefWith`): leave the ring; destroy the object when that was the last reference.
-/
import OccaProofs.Lemmas.GcRef

namespace Occa.Gc

theorem setPtr_setPtr (s : St) (v : Var) (a b : Option Nat) : (s.setPtr v a).setPtr v b = s.setPtr v b := by
  apply St.ext
  all_goals first | rfl | skip
  funext w
  by_cases h : w = v <;> simp [St.setPtr, upd_apply, h]

theorem setPtr_none_self (s : St) (v : Var) (h : s.ptr v = none) : s.setPtr v none = s := by
  apply St.ext
  all_goals first | rfl | skip
  funext w
  by_cases hw : w = v
  · subst hw; simp [St.setPtr, h]
  · simp [St.setPtr, upd_apply, hw]

/-- frame facts of dropping the reference held by handle `v` -/
structure DropOut (s s' : St) (v : Var) : Prop where
  ptr : s'.ptr v = none
  keep : ∀ t, s.alive t = true → s.kind t = v.kind.obj → s.ptr v ≠ some t → s'.alive t = true
  vlive : ∀ w, (∀ d, w = Var.cur d → s'.alive d = true) → s'.vlive w = s.vlive w
  kind : s'.kind = s.kind
  next : s'.next = s.next
  alive_sub : ∀ t, s'.alive t = true → s.alive t = true
  devs : ∀ t, s.alive t = true → s.kind t = .dev → s.ptr v ≠ some t → s'.alive t = true
  ptr_out : ∀ w, w ≠ v → (∀ x, w ∉ s.ring x) → (s'.ptr w = s.ptr w ∨ s'.ptr w = none)

theorem InvX.drop_ref {ex : Var → Prop} {s : St} {v : Var} {del : St → Nat → St} (hi : InvX ex s) (hv : ¬ ex v)
    (hdel : ∀ o, s.ptr v = some o →
      InvX (fun w => ex w ∨ w = v) (s.setRing o (Ring.remove (s.ring o) v)) →
      InvX (fun w => ex w ∨ w = v) (del (s.setRing o (Ring.remove (s.ring o) v)) o)
        ∧ DelOut (s.setRing o (Ring.remove (s.ring o) v)) (del (s.setRing o (Ring.remove (s.ring o) v)) o) o) :
    InvX ex ((dropRefWith del s v).setPtr v none)
      ∧ DropOut s ((dropRefWith del s v).setPtr v none) v := by
  cases hp : s.ptr v with
  | none =>
    have h1 : dropRefWith del s v = s := by unfold dropRefWith; simp only [hp]
    rw [h1, setPtr_none_self s v hp]
    exact ⟨hi, hp, fun t ht _ _ => ht, fun _ _ => rfl, rfl, rfl, fun _ h => h, fun t ht _ _ => ht,
      fun _ _ _ => Or.inl rfl⟩
  | some o =>
    obtain ⟨hoa, hok, hvo⟩ := hi.ptr_ok v o hp hv
    have hi1 := hi.leave_ring hv hp
    have hstep : dropRefWith del s v
        = if (s.useRefs o && (Ring.remove (s.ring o) v).isEmpty) = true
          then (del (s.setRing o (Ring.remove (s.ring o) v)) o).setPtr v none
          else s.setRing o (Ring.remove (s.ring o) v) := by
      unfold dropRefWith
      simp only [hp, St.touch_alive hoa]
      have : (s.setRing o (Ring.remove (s.ring o) v)).ring o = Ring.remove (s.ring o) v := by
        simp [St.setRing]
      rw [this]
      rfl
    rw [hstep]
    have hdel' := hdel o hp
    clear hdel
    generalize hs1 : s.setRing o (Ring.remove (s.ring o) v) = s1 at *
    have hs1ptr : s1.ptr = s.ptr := by rw [← hs1]; rfl
    have hs1alive : s1.alive = s.alive := by rw [← hs1]; rfl
    have hs1kind : s1.kind = s.kind := by rw [← hs1]; rfl
    have hs1use : s1.useRefs = s.useRefs := by rw [← hs1]; rfl
    have hs1vl : s1.vlive = s.vlive := by rw [← hs1]; rfl
    have hs1next : s1.next = s.next := by rw [← hs1]; rfl
    have hs1ring : s1.ring o = Ring.remove (s.ring o) v := by rw [← hs1]; simp [St.setRing]
    have hvout : ∀ x, v ∉ s1.ring x := hi1.ex_out v (Or.inr rfl)
    by_cases hc : (s.useRefs o && (Ring.remove (s.ring o) v).isEmpty) = true
    · simp only [hc, if_true]
      obtain ⟨hi2, hd⟩ := hdel' hi1
      rw [setPtr_setPtr]
      refine ⟨hi2.null_ptr ?_, ?_⟩
      · intro o' ho' ho'a
        exfalso
        rcases hd.ptr_out v hvout with h | h
        · rw [h, hs1ptr, hp] at ho'
          cases ho'
          rw [hd.dead] at ho'a
          cases ho'a
        · rw [h] at ho'; cases ho'
      · refine ⟨by simp [St.setPtr], ?_, ?_, hd.kind.trans hs1kind, hd.next.trans hs1next, ?_, ?_, ?_⟩
        · intro t hta htk htp
          apply hd.keep t (by rw [hs1alive]; exact hta) (by rw [hs1kind, htk, hok])
          intro h; exact htp (by rw [h]; exact hp)
        · intro w hw
          show (del s1 o).vlive w = s.vlive w
          rw [hd.vlive w hw, hs1vl]
        · intro t ht
          have := hd.alive_sub t ht
          rw [hs1alive] at this
          exact this
        · intro t hta htk htp
          apply hd.devs t (by rw [hs1alive]; exact hta) (by rw [hs1kind]; exact htk)
          intro h; exact htp (by rw [h]; exact hp)
        · intro w hwv hw
          have hw1 : ∀ x, w ∉ s1.ring x := by
            intro x hx
            apply hw x
            rw [← hs1] at hx
            by_cases hxo : x = o
            · subst hxo
              have : w ∈ Ring.remove (s.ring x) v := by simpa [St.setRing] using hx
              exact ((Ring.mem_remove (hi.ring_nodup x) v w).mp this).1
            · simpa [St.setRing, upd_apply, hxo] using hx
          have e : ((del s1 o).setPtr v none).ptr w = (del s1 o).ptr w := by
            simp [St.setPtr, upd_apply, hwv]
          rw [e, ← hs1ptr]
          exact hd.ptr_out w hw1
    · simp only [hc, if_false, Bool.false_eq_true]
      refine ⟨hi1.null_ptr ?_, ?_⟩
      · intro o' ho' _ _ ho'u
        rw [hs1ptr, hp] at ho'
        cases ho'
        left
        rw [hs1ring]
        intro hnil
        apply hc
        rw [hs1use] at ho'u
        simp [ho'u, hnil]
      · refine ⟨by simp [St.setPtr], ?_, fun w _ => by rw [← hs1]; rfl, by rw [← hs1]; rfl, by rw [← hs1]; rfl, ?_, ?_, ?_⟩
        · intro t hta _ _
          rw [← hs1]; exact hta
        · intro t ht
          rw [← hs1] at ht; exact ht
        · intro t hta _ _
          rw [← hs1]; exact hta
        · intro w hwv _
          left
          rw [← hs1]
          simp [St.setPtr, St.setRing, upd_apply, hwv]

end Occa.Gc
