/-
Lemmas for C22: the declaration and break/continue checks of okl.cpp against their declarative
reading over statement occurrences ("a statement together with the statements around it").
-/
import OccaProofs.Lemmas.OklLoops

namespace Occa.Okl

/-! ### statement occurrences -/

/-- every statement of the tree with the kinds of the statements around it, nearest first -/
def occs (anc : List Kind) : Tree → List (List Kind × Node)
  | .nil => []
  | .node n kids next => (anc, n) :: (occs (n.kind :: anc) kids ++ occs anc next)

def Kind.isOuter : Kind → Bool
  | .okl o _ _ _ => o
  | _ => false

def Kind.isInner : Kind → Bool
  | .okl _ i _ _ => i
  | _ => false

theorem flags_eq (k : Kind) (anc : List Kind) :
    k.flags (anc.any Kind.isOuter) (anc.any Kind.isInner) =
      ((k :: anc).any Kind.isOuter, (k :: anc).any Kind.isInner) := by
  cases k <;> simp [Kind.flags, Kind.isOuter, Kind.isInner, Bool.or_comm]

/-- the declaration rule for one statement occurrence -/
def DeclOk (x : List Kind × Node) : Prop :=
  (∀ d, x.2.kind = .decl (.shared d) →
      d ≠ [] ∧ (∀ s ∈ d, s.isSome = true) ∧ x.1.any Kind.isOuter = true ∧ x.1.any Kind.isInner = false) ∧
  (x.2.kind = .decl .exclusive → x.1.any Kind.isOuter = true ∧ x.1.any Kind.isInner = false) ∧
  (x.2.uses ≠ [] → (x.2.kind :: x.1).any Kind.isInner = true)

theorem declsOk_iff (t : Tree) : ∀ anc : List Kind,
    declsOk (anc.any Kind.isOuter) (anc.any Kind.isInner) t = true ↔ ∀ x ∈ occs anc t, DeclOk x := by
  induction t with
  | nil => intro anc; simp [declsOk, occs]
  | node n kids next ihk ihn =>
    intro anc
    have hf := flags_eq n.kind anc
    simp only [declsOk, occs, List.mem_cons, List.mem_append, forall_eq_or_imp]
    rw [hf]
    simp only [Bool.and_eq_true, ihk (n.kind :: anc), ihn anc]
    have own : (declHere (anc.any Kind.isOuter) (anc.any Kind.isInner) n.kind = true ∧
        (n.uses.all fun _ => usageOk ((n.kind :: anc).any Kind.isOuter) ((n.kind :: anc).any Kind.isInner) false) = true)
        ↔ DeclOk (anc, n) := by
      unfold DeclOk
      have huses : (n.uses.all fun _ => usageOk ((n.kind :: anc).any Kind.isOuter) ((n.kind :: anc).any Kind.isInner) false) = true
          ↔ (n.uses ≠ [] → (n.kind :: anc).any Kind.isInner = true) := by
        cases hu : n.uses with
        | nil => simp
        | cons a r =>
          simp only [List.all_cons, usageOk, Bool.false_eq_true, ↓reduceIte, Bool.and_eq_true, ne_eq,
            reduceCtorEq, not_false_eq_true, forall_const]
          constructor
          · exact fun h => h.1
          · intro h; exact ⟨h, by simp [List.all_eq_true, h]⟩
      rw [huses]
      cases hk : n.kind with
      | decl dk =>
        cases dk with
        | plain => simp [declHere]
        | exclusive =>
          simp only [declHere, usageOk, ↓reduceIte, Bool.and_eq_true, Bool.not_eq_true']
          constructor
          · rintro ⟨⟨h1, h2⟩, h3⟩
            exact ⟨fun d hd => (by cases hd), fun _ => ⟨h2, h1⟩, h3⟩
          · rintro ⟨_, h, h3⟩
            obtain ⟨h2, h1⟩ := h trivial
            exact ⟨⟨h1, h2⟩, h3⟩
        | shared d =>
          simp only [declHere, sharedDeclOk, usageOk, ↓reduceIte, Bool.and_eq_true, Bool.not_eq_true', List.all_eq_true]
          constructor
          · rintro ⟨⟨⟨h0, h1⟩, h2, h3⟩, h4⟩
            refine ⟨fun d' hd => ?_, fun h => (by cases h), h4⟩
            cases hd
            exact ⟨by intro hd; simp [hd] at h0, h1, h3, h2⟩
          · rintro ⟨h, _, h4⟩
            obtain ⟨h0, h1, h3, h2⟩ := h d rfl
            refine ⟨⟨⟨?_, h1⟩, h2, h3⟩, h4⟩
            cases d <;> simp_all
      | _ => simp [declHere]
    constructor
    · rintro ⟨⟨⟨h1, h2⟩, h3⟩, h4⟩
      exact ⟨own.1 ⟨h1, h2⟩, fun x hx => hx.elim (h3 x) (h4 x)⟩
    · rintro ⟨h1, h2⟩
      obtain ⟨a, b⟩ := own.2 h1
      exact ⟨⟨⟨a, b⟩, fun x hx => h2 x (Or.inl hx)⟩, fun x hx => h2 x (Or.inr hx)⟩

/-! ### break / continue -/

/-- does a statement of this kind capture a `break` (isCont = false) / `continue` (isCont = true)? -/
def Kind.catches (isCont : Bool) : Kind → Bool
  | .okl _ _ _ _ | .for_ | .while_ => true
  | .switch_ => !isCont
  | _ => false

def Kind.isOklLoop : Kind → Bool
  | .okl o i _ _ => o || i
  | _ => false

theorem directlyInOkl_iff (isCont : Bool) (anc : List Kind) :
    directlyInOkl isCont (anc.map Kind.anc) = true ↔
      ∃ k, anc.find? (Kind.catches isCont) = some k ∧ k.isOklLoop = true := by
  induction anc with
  | nil => simp [directlyInOkl]
  | cons k r ih =>
    cases k <;> cases isCont <;>
      simp_all [directlyInOkl, Kind.anc, Kind.catches, Kind.isOklLoop, List.find?]
    all_goals (split <;> simp_all [directlyInOkl])

/-- the break/continue rule for one statement occurrence: the statement that captures it is not an
    @outer/@inner loop -/
def BreakOk (x : List Kind × Node) : Prop :=
  (x.2.kind = .brk → ∀ k, x.1.find? (Kind.catches false) = some k → k.isOklLoop = false) ∧
  (x.2.kind = .cont → ∀ k, x.1.find? (Kind.catches true) = some k → k.isOklLoop = false)

theorem breaksOk_iff (t : Tree) : ∀ anc : List Kind,
    breaksOk (anc.map Kind.anc) t = true ↔ ∀ x ∈ occs anc t, BreakOk x := by
  induction t with
  | nil => intro anc; simp [breaksOk, occs]
  | node n kids next ihk ihn =>
    intro anc
    simp only [breaksOk, occs, List.mem_cons, List.mem_append, forall_eq_or_imp, Bool.and_eq_true]
    have hk := ihk (n.kind :: anc)
    simp only [List.map_cons] at hk
    rw [hk, ihn anc]
    have own : breakHere (anc.map Kind.anc) n.kind = true ↔ BreakOk (anc, n) := by
      unfold BreakOk
      cases hkind : n.kind <;>
        simp only [breakHere, reduceCtorEq, false_imp_iff, and_self, true_imp_iff, true_and, and_true]
      · rw [Bool.not_eq_true', ← Bool.not_eq_true, directlyInOkl_iff]
        simp only [not_exists, not_and, Bool.not_eq_true]
      · rw [Bool.not_eq_true', ← Bool.not_eq_true, directlyInOkl_iff]
        simp only [not_exists, not_and, Bool.not_eq_true]
    rw [own]
    constructor
    · rintro ⟨⟨h1, h2⟩, h3⟩; exact ⟨h1, fun x hx => hx.elim (h2 x) (h3 x)⟩
    · rintro ⟨h1, h2⟩; exact ⟨⟨h1, fun x hx => h2 x (Or.inl hx)⟩, fun x hx => h2 x (Or.inr hx)⟩

/-! ### headers and the whole of kernelHasValidOklLoops -/

theorem Res.and_eq_ok (a : Res) (b : Unit → Res) : a.and b = .ok ↔ a = .ok ∧ b () = .ok := by
  cases a <;> simp [Res.and]

theorem Res.ofBool_eq_ok (b : Bool) : Res.ofBool b = .ok ↔ b = true := by
  cases b <;> simp [Res.ofBool]

theorem hdrsGo_iff (attr : Bool) (hs : List (Bool × Res)) :
    hdrsGo attr hs = .ok ↔ ∀ x ∈ hs, x.1 = attr → x.2 = .ok := by
  induction hs with
  | nil => simp [hdrsGo]
  | cons x r ih =>
    obtain ⟨o, h⟩ := x
    simp only [hdrsGo, List.mem_cons, forall_eq_or_imp]
    by_cases ho : o = attr
    · simp [ho, Res.and_eq_ok, ih]
    · simp [ho, ih]

/-- the loop rules, declaratively, on the forest of @outer/@inner loops of a kernel -/
def LoopsSpec (f : LF) : Prop :=
  (∃ x ∈ loopHdrs f, x.1 = true) ∧ (∃ x ∈ loopHdrs f, x.1 = false) ∧
  (∀ x ∈ loopHdrs f, x.2 = .ok) ∧ NestingSpec f

theorem loopsOk_iff (body : Tree) : loopsOk body = .ok ↔ LoopsSpec (forest body) := by
  unfold loopsOk LoopsSpec
  simp only
  by_cases h1 : (loopHdrs (forest body)).any (fun x => x.1) = true
  · by_cases h2 : (loopHdrs (forest body)).any (fun x => !x.1) = true
    · simp only [h1, h2, Bool.not_true, Bool.false_eq_true, ↓reduceIte, Res.and_eq_ok, hdrsGo_iff,
        Res.ofBool_eq_ok, countsGo_innerMost]
      have e1 : (∃ x ∈ loopHdrs (forest body), x.1 = true) := by simpa using h1
      have e2 : (∃ x ∈ loopHdrs (forest body), x.1 = false) := by simpa using h2
      constructor
      · rintro ⟨a, b, c⟩
        refine ⟨e1, e2, ?_, c⟩
        intro x hx
        cases hx1 : x.1
        · exact b x hx hx1
        · exact a x hx hx1
      · rintro ⟨_, _, c, d⟩
        exact ⟨fun x hx _ => c x hx, fun x hx _ => c x hx, d⟩
    · simp only [h1, h2, Bool.not_true, Bool.false_eq_true, ↓reduceIte, Bool.not_false, reduceCtorEq, false_iff]
      rintro ⟨_, ⟨x, hx, hx1⟩, _⟩
      exact h2 (by simp only [List.any_eq_true]; exact ⟨x, hx, by simp [hx1]⟩)
  · simp only [h1, Bool.not_false, ↓reduceIte, reduceCtorEq, false_iff]
    rintro ⟨⟨x, hx, hx1⟩, _⟩
    exact h1 (by simp only [List.any_eq_true]; exact ⟨x, hx, hx1⟩)

end Occa.Okl
