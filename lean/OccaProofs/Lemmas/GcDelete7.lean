/-
`delete` of a memory object (`deleteMem`): the object, and its buffer when it was the last slice.
-/
import OccaProofs.Lemmas.GcDelete6

namespace Occa.Gc

theorem InvX.del_mem {ex : Var → Prop} {s : St} {m : Nat} (hi : InvX ex s) (ha : s.alive m = true)
    (hk : s.kind m = .mem)
    (hpool : ∀ b, s.par m = some b → s.kind b = .pool → s.useRefs b = true → s.ring b ≠ []) :
    InvX ex (deleteMem s m)
      ∧ ∃ K, Killed s K (deleteMem s m) ∧ m ∈ K ∧ ∀ x ∈ K, x = m ∨ s.kind x = .buf := by
  obtain ⟨b, hp, hmb⟩ := hi.mem_par m ha hk
  obtain ⟨_, _, _, hba, hbk⟩ := hi.kids_ok b m hmb
  have hbm : b ≠ m := by intro h; rw [h, hk] at hbk; rcases hbk with h' | h' <;> cases h'
  have hk' : s.kind m = .mem ∨ s.kind m = .ker ∨ s.kind m = .str := Or.inl hk
  have hkn := hi.kids_nodup b
  let s1 := killForm s m
  let sA := s1.setKids b (Ring.remove (s1.kids b) m)
  have he : deleteMem s m = (if needsFreeBuf sA b then deleteBuf sA b else sA).setPar m none := by
    unfold deleteMem dtorMemBody
    dsimp only
    rw [kill1_eq ha (hi.ring_nodup m)]
    have h1 : (killForm s m).par m = some b := hp
    have h2 : (killForm s m).alive b = true := by simp [killForm, upd_apply, hbm, hba]
    simp only [h1, St.touch_alive h2]
    rfl
  have hkA : Killed s [m] sA := by
    have h1 := killForm_killed (s := s) (o := m)
    have h2 : PreEdit s1 sA [] := preEdit_setKids_remove b m hkn (Or.inr (by simp [s1, killForm]))
    simpa using h1.trans h2.killed
  have hsAkids : sA.kids b = Ring.remove (s.kids b) m := by simp [sA, s1, St.setKids, killForm]
  have hpurA : Purged sA [m] := by
    constructor
    · intro b' x hx hxm
      have : x = m := by simpa using hxm
      subst this
      by_cases hb' : b' = b
      · subst hb'
        rw [hsAkids] at hx
        exact Ring.not_mem_remove hkn x hx
      · have h0 := hkA.kidsS b' x hx
        have e1 := (hi.kids_ok b' x h0).2.2.1
        rw [hp] at e1
        cases e1
        exact hb' rfl
    · intro k' d' x hx hxm
      have : x = m := by simpa using hxm
      subst this
      exact (hi.ch_ok k' d' x (hkA.chS k' d' x hx)).2.2.2.2.1 hk
  have hempA : Emptied sA [m] := single_emptied hi.toInv00 hk' hkA
  have hi0A : Inv0 ex sA := hi.toInv0.killed hkA (single_closed hi.toInv00 ha hk') hpurA hempA
  have hnf : needsFreeBuf sA b
      = if s.kind b = .pool then (s.useRefs b && (s.ring b).isEmpty) else (Ring.remove (s.kids b) m).isEmpty := by
    unfold needsFreeBuf
    rw [hsAkids]
    have : sA.ring b = s.ring b := by simp [sA, s1, St.setKids, killForm, upd_apply, hbm]
    rw [this]
    rfl
  rw [he]
  by_cases hneed : needsFreeBuf sA b = true
  · -- last slice of a plain buffer: the buffer goes too
    have hkb : s.kind b = .buf := by
      rcases hbk with h | h
      · exact h
      · exfalso
        rw [hnf] at hneed
        simp only [h, if_true, Bool.and_eq_true, List.isEmpty_iff] at hneed
        exact hpool b hp h hneed.1 hneed.2
    have hlast : Ring.remove (s.kids b) m = [] := by
      rw [hnf] at hneed
      have : s.kind b ≠ .pool := by rw [hkb]; decide
      simpa [this] using hneed
    have hsAk0 : sA.kids b = [] := by rw [hsAkids]; exact hlast
    have hsAkind : sA.kind b = .buf := hkb
    have hsAalive : sA.alive b = true := by rw [hkA.alive]; simp [hba, hbm]
    have hbK : bufK sA b = [b] := by
      unfold bufK
      have : sA.kind b ≠ .pool := by rw [hsAkind]; decide
      simp [this, hsAk0]
    have hkbd : sA.kind b ≠ .dev := by rw [hsAkind]; decide
    have hkbm : sA.kind b ≠ .mem := by rw [hsAkind]; decide
    obtain ⟨d, hpA, hdaA, hdkA, _⟩ := hi0A.ch_par b hsAalive hkbd hkbm
    obtain ⟨hkB, _, _⟩ := deleteBuf_core hi0A.toInv00 hsAalive (Or.inl hsAkind) hpA hdaA hdkA
    obtain ⟨hpurB, hempB⟩ := deleteBuf_purged hi0A.toInv00 hsAalive (Or.inl hsAkind) hpA hdaA hdkA
    rw [hbK] at hkB hpurB hempB
    simp only [hneed, if_true]
    generalize deleteBuf sA b = sB at *
    have hmdead : sB.alive m = false := by
      rw [hkB.alive, hkA.alive]; simp
    have hfin : PreEdit sB (sB.setPar m none) [] := preEdit_setPar m none (Or.inr hmdead)
    have hkF : Killed s [m, b] (sB.setPar m none) := by
      simpa using (hkA.trans hkB).trans hfin.killed
    refine ⟨?_, [m, b], hkF, by simp, ?_⟩
    · have hcl : Closed s [m, b] := by
        have hall : ∀ x ∈ s.kids b, x = m := (Ring.remove_eq_nil hkn m).mp hlast
        refine ⟨⟨?_, ?_, ?_, ?_, ?_, ?_⟩, ?_⟩
        · simp [Ne.symm hbm]
        · intro o ho
          rcases List.mem_cons.mp ho with h | h
          · rw [h]; exact ha
          · have : o = b := by simpa using h
            rw [this]; exact hba
        · intro o ho x hx
          rcases List.mem_cons.mp ho with h | h
          · subst h
            rw [hi.kids_nil (by rw [hk]; exact ⟨by decide, by decide⟩)] at hx
            simp at hx
          · have : o = b := by simpa using h
            subst this
            rw [hall x hx]; simp
        · intro p hpK i hin
          rcases List.mem_cons.mp hpK with h | h
          · subst h
            have := (hi.inner_ok p i ha hin).1
            rw [hk] at this; cases this
          · have : p = b := by simpa using h
            subst this
            have := (hi.inner_ok p i hba hin).1
            rw [hkb] at this; cases this
        · intro d' hd' k c hc
          have hdk := (hi.ch_ok k d' c hc).2.2.2.2.2.2
          rcases List.mem_cons.mp hd' with h | h
          · subst h; rw [hk] at hdk; cases hdk
          · have : d' = b := by simpa using h
            subst this; rw [hkb] at hdk; cases hdk
        · intro p i hpa hin hiK
          rcases List.mem_cons.mp hiK with h | h
          · subst h
            have := (hi.inner_ok p i hpa hin).2.2.1
            rw [hk] at this; cases this
          · have : i = b := by simpa using h
            subst this
            have := (hi.inner_ok p i hpa hin).2.2.2.1
            rw [this] at hmb; simp at hmb
        · intro b' _ hb'k hb'K hne
          obtain ⟨x, hx⟩ := List.exists_mem_of_ne_nil _ hne
          refine ⟨x, hx, ?_⟩
          intro hxK
          have hxk := hi.kids_ok b' x hx
          rcases List.mem_cons.mp hxK with h | h
          · subst h
            have e1 := hxk.2.2.1
            rw [hp] at e1
            cases e1
            exact hb'K (by simp)
          · have : x = b := by simpa using h
            subst this
            rw [hkb] at hxk; cases hxk.2.1
      have hpur : Purged (sB.setPar m none) [m, b] := by
        have h1 : Purged (sB.setPar m none) [m] := (hpurA.mono hkB).mono hfin.killed
        have h2 : Purged (sB.setPar m none) [b] := hpurB.mono hfin.killed
        simpa using h1.append h2
      have hemp : Emptied (sB.setPar m none) [m, b] := by
        have h1 : Emptied (sB.setPar m none) [m] := (hempA.mono hkB).mono hfin.killed
        have h2 : Emptied (sB.setPar m none) [b] := hempB.mono hfin.killed
        simpa using h1.append h2
      exact hi.killed hkF hcl hpur hemp
    · intro x hx
      rcases List.mem_cons.mp hx with h | h
      · exact Or.inl h
      · have : x = b := by simpa using h
        rw [this]; exact Or.inr hkb
  · -- other slices (or a pool) remain
    simp only [hneed, if_false, Bool.false_eq_true]
    have hmdead : sA.alive m = false := by rw [hkA.alive]; simp
    have hfin : PreEdit sA (sA.setPar m none) [] := preEdit_setPar m none (Or.inr hmdead)
    have hkF : Killed s [m] (sA.setPar m none) := by simpa using hkA.trans hfin.killed
    refine ⟨?_, [m], hkF, by simp, fun x hx => Or.inl (by simpa using hx)⟩
    have hcl : Closed s [m] := by
      refine ⟨single_closed hi.toInv00 ha hk', ?_⟩
      intro b' _ hb'k _ hne
      by_cases hb' : b' = b
      · subst hb'
        have hne' : Ring.remove (s.kids b') m ≠ [] := by
          intro h0
          apply hneed
          rw [hnf]
          have : s.kind b' ≠ .pool := by rw [hb'k]; decide
          simp [this, h0]
        obtain ⟨x, hx⟩ := List.exists_mem_of_ne_nil _ hne'
        obtain ⟨hx1, hx2⟩ := (Ring.mem_remove hkn m x).mp hx
        exact ⟨x, hx1, by simpa using hx2⟩
      · obtain ⟨x, hx⟩ := List.exists_mem_of_ne_nil _ hne
        refine ⟨x, hx, ?_⟩
        intro hxm
        have : x = m := by simpa using hxm
        subst this
        have e1 := (hi.kids_ok b' x hx).2.2.1
        rw [hp] at e1
        cases e1
        exact hb' rfl
    exact hi.killed hkF hcl (hpurA.mono hfin.killed) (hempA.mono hfin.killed)

end Occa.Gc
