/-
Concrete specifications, configurations, file systems and traces used by the `example`s beside the
property theorems of Props/C08.lean and Props/C09.lean (they show that the hypotheses are satisfiable).
-/
import OccaProofs.Lemmas.BuildFSSched

namespace Occa.BuildFS.Examples
open Occa Occa.BuildFS


def exSpec : Spec where
  valid := fun p bs => if p.base = "binary" ∨ p.base = "build.log" then bs == [9] else bs == [1]
  compile := fun _ _ => [9]
  recipe := fun p =>
    if p.base = "binary" ∨ p.base = "build.log" then
      some (if p.dir = "V" then "findCompilerVendor.cpp" else if p.dir = "O" then "compilerSupportsOpenMP.cpp" else "k.source.cpp")
    else none

theorem exSpec_coherent : exSpec.Coherent := by
  intro src out s _ hr _ _
  simp only [exSpec, Path.final] at hr ⊢
  split at hr
  · rename_i h; simp [h]
  · cases hr

def exToks (n : Nat) : String := String.ofList (List.replicate n 'a')

theorem exToks_inj : ∀ i j, exToks i = exToks j → i = j := by
  intro i j h
  have : (exToks i).toList.length = (exToks j).toList.length := by rw [h]
  simpa [exToks] using this

def exCfg : Config :=
  { openmp := true, fromString := true, silent := false, parseOk := true, kdir := "K", vdir := "V", odir := "O",
    rawBase := "k.raw_source.cpp", cppBase := "k.source.cpp", str := [1], raw := [1], cpp := [1], json := [1],
    vsrc := [1], vout := [1], osrc := [1], oout := [1], ooutNA := [1], toks := exToks }

theorem exCfg_ok : CfgOK exSpec exCfg :=
  { toks_inj := exToks_inj, v_str := by decide, v_raw := by decide, v_cpp := by decide, v_json := by decide,
    v_vsrc := by decide, v_vout := by decide, v_osrc := by decide, v_oout := by decide, v_ooutNA := by decide,
    r_kbin := by decide, r_vbin := by decide, r_vlog := by decide, r_obin := by decide }

/-- a Good state with debris: an empty cache plus a half-written temp-named binary of a dead process -/
def exFS : FS := FS.empty.setFile ⟨"K", some "deadbeef", "binary"⟩ (some ⟨[7], false⟩)

theorem exFS_good : Good exSpec exFS := by
  intro p f hp hf
  simp only [exFS, FS.setFile, FS.empty] at hf
  split at hf
  · rename_i h; rw [h] at hp; cases hp
  · cases hf

theorem exFS_fresh : TokFresh exCfg exFS := by
  intro p ⟨i, hi⟩
  simp only [exFS, FS.setFile, FS.empty]
  split
  · rename_i h
    rw [h] at hi
    simp only [exCfg, Option.some.injEq] at hi
    have : ("deadbeef" : String).toList = (exToks i).toList := by rw [hi]
    simp only [exToks] at this
    have h8 : i = 8 := by
      have := congrArg List.length this
      simpa using this.symm
    subst h8
    revert this
    decide
  · rfl


/-- two processes whose steps alternate, each staging its own temp file for the same final name -/
def exSpec9 : Spec where
  valid := fun _ bs => bs == [1]
  compile := fun _ _ => [1]
  recipe := fun _ => none

def fin : Path := ⟨"K", none, "build.json"⟩
def ta : Path := ⟨"K", some "aaaa", "build.json"⟩
def tb : Path := ⟨"K", some "bbbb", "build.json"⟩

def exTrace : Trace :=
  [⟨1, .creat ta, true⟩, ⟨2, .creat tb, true⟩, ⟨1, .append ta [1], true⟩, ⟨2, .append tb [1], true⟩,
   ⟨2, .close tb, true⟩, ⟨1, .close ta, true⟩, ⟨2, .rename tb fin, true⟩, ⟨1, .openRead fin, true⟩,
   ⟨1, .rename ta fin, true⟩, ⟨2, .openRead fin, true⟩]


def mkTok (i n : Nat) : String := String.ofList (List.replicate i 'b' ++ 'c' :: List.replicate n 'a')

theorem mkTok_inj (i j n m : Nat) (h : mkTok i n = mkTok j m) : i = j ∧ n = m := by
  have hl : (List.replicate i 'b' ++ 'c' :: List.replicate n 'a') = (List.replicate j 'b' ++ 'c' :: List.replicate m 'a') := by
    have := congrArg String.toList h
    simpa [mkTok] using this
  have h1 := congrArg (List.count 'b') hl
  have h2 := congrArg List.length hl
  simp [List.count_append, List.count_replicate, List.count_cons] at h1
  simp at h2
  omega

def spec2 : Spec where
  valid := fun p bs => if p.base = "binary" ∨ p.base = "build.log" then bs == [9] else bs == [1]
  compile := fun _ _ => [9]
  recipe := fun p =>
    if p.base = "binary" ∨ p.base = "build.log" then
      some (if p.dir = "V" then "findCompilerVendor.cpp" else if p.dir = "O" then "compilerSupportsOpenMP.cpp" else "k.source.cpp")
    else none

theorem spec2_coherent : spec2.Coherent := by
  intro src out s _ hr _ _
  simp only [spec2, Path.final] at hr ⊢
  split at hr
  · rename_i h; simp [h]
  · cases hr

/-- every process builds the SAME kernel (same directories), OpenMP, from a string; process i's tokens are mkTok i _ -/
def cfgsEx (i : Nat) : Config :=
  { openmp := true, fromString := true, silent := false, parseOk := true, kdir := "K", vdir := "V", odir := "O",
    rawBase := "k.raw_source.cpp", cppBase := "k.source.cpp", str := [1], raw := [1], cpp := [1], json := [1],
    vsrc := [1], vout := [1], osrc := [1], oout := [1], ooutNA := [1], toks := mkTok i }

theorem cfgsEx_ok (i : Nat) : CfgOK spec2 (cfgsEx i) :=
  { toks_inj := fun a b h => (mkTok_inj i i a b h).2, v_str := by simp [cfgsEx, Config.k, Config.v, Config.o, spec2], v_raw := by simp [cfgsEx, Config.k, Config.v, Config.o, spec2], v_cpp := by simp [cfgsEx, Config.k, Config.v, Config.o, spec2], v_json := by simp [cfgsEx, Config.k, Config.v, Config.o, spec2],
    v_vsrc := by simp [cfgsEx, Config.k, Config.v, Config.o, spec2], v_vout := by simp [cfgsEx, Config.k, Config.v, Config.o, spec2], v_osrc := by simp [cfgsEx, Config.k, Config.v, Config.o, spec2], v_oout := by simp [cfgsEx, Config.k, Config.v, Config.o, spec2], v_ooutNA := by simp [cfgsEx, Config.k, Config.v, Config.o, spec2],
    r_kbin := by simp [cfgsEx, Config.k, Config.v, Config.o, spec2], r_vbin := by simp [cfgsEx, Config.k, Config.v, Config.o, spec2], r_vlog := by simp [cfgsEx, Config.k, Config.v, Config.o, spec2], r_obin := by simp [cfgsEx, Config.k, Config.v, Config.o, spec2] }

theorem cfgsEx_disj : ∀ i j, i ≠ j → ∀ x, IsTok (cfgsEx i) x → ¬ IsTok (cfgsEx j) x := by
  intro i j hij x ⟨a, ha⟩ ⟨b, hb⟩
  rw [ha] at hb
  exact hij (mkTok_inj i j a b (Option.some.inj hb)).1


end Occa.BuildFS.Examples
