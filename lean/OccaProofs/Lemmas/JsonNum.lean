/-
Lemmas for C24: decimal printing and reading of integers
(`primitive::toString` followed by `primitive::load` for every bool/integer type).
-/
import OccaModel.Json
import OccaProofs.Lemmas.JsonStr

namespace Occa.Json

/-! ### digits -/

theorem digit_facts : ∀ k, k < 10 →
    isDigit (48 + k.toUInt8) = true ∧ (48 + k.toUInt8).toNat - 48 = k ∧ (48 + k.toUInt8 = 48 → k = 0) := by
  decide

def AllDigits (s : Bytes) : Prop := ∀ c ∈ s, isDigit c = true

theorem allDigits_append {a b : Bytes} (ha : AllDigits a) (hb : AllDigits b) : AllDigits (a ++ b) := by
  intro c h
  rcases List.mem_append.mp h with h | h
  · exact ha c h
  · exact hb c h

theorem two64_eq : two64 = 18446744073709551616 := rfl

/-- reading the printed digits of `n` continues with accumulator `n` -/
theorem readDec_digitsRev (f : Nat) : ∀ (n : Nat) (X : Bytes), n < 10 ^ f → n < two64 →
    readDec ((digitsRev f n).reverse ++ X) 0 = readDec X n := by
  induction f with
  | zero =>
    intro n X h _
    have : n = 0 := by simpa using h
    subst this
    simp [digitsRev]
  | succ f ih =>
    intro n X h h64
    have hd := digit_facts (n % 10) (Nat.mod_lt _ (by decide))
    by_cases hlt : n < 10
    · have hn : n % 10 = n := Nat.mod_eq_of_lt hlt
      simp only [digitsRev, hlt, if_true, List.reverse_cons, List.reverse_nil, List.nil_append,
        List.cons_append]
      rw [readDec]
      simp only [hd.1, if_true, hd.2.1, Nat.zero_mul, Nat.zero_add]
      rw [hn, Nat.mod_eq_of_lt h64]
    · have hge : 10 ≤ n := Nat.le_of_not_lt hlt
      have h10 : n / 10 < 10 ^ f := by
        have : n < 10 ^ f * 10 := by rw [← Nat.pow_succ]; exact h
        exact Nat.div_lt_of_lt_mul (by rw [Nat.mul_comm]; exact this)
      have h64' : n / 10 < two64 := Nat.lt_of_le_of_lt (Nat.div_le_self _ _) h64
      simp only [digitsRev, hlt, if_false, List.reverse_cons, List.append_assoc, List.cons_append,
        List.nil_append]
      rw [ih (n / 10) _ h10 h64', readDec]
      simp only [hd.1, if_true, hd.2.1]
      have : n / 10 * 10 + n % 10 = n := by omega
      rw [this, Nat.mod_eq_of_lt h64]

theorem allDigits_digitsRev (f : Nat) : ∀ n, AllDigits (digitsRev f n) := by
  induction f with
  | zero => intro n c h; simp [digitsRev] at h
  | succ f ih =>
    intro n c h
    have hd := digit_facts (n % 10) (Nat.mod_lt _ (by decide))
    simp only [digitsRev, List.mem_cons] at h
    rcases h with h | h
    · rw [h]; exact hd.1
    · by_cases hlt : n < 10
      · simp [hlt] at h
      · simp only [hlt, if_false] at h
        exact ih _ c h

/-- the printed number starts with a digit, which is not `0` unless the number is 0 -/
theorem digitsRev_head (f : Nat) : ∀ n, n < 10 ^ f → 1 ≤ f →
    ∃ c t, (digitsRev f n).reverse = c :: t ∧ isDigit c = true ∧ (1 ≤ n → c ≠ 48) := by
  induction f with
  | zero => intro n _ h; omega
  | succ f ih =>
    intro n h _
    have hd := digit_facts (n % 10) (Nat.mod_lt _ (by decide))
    by_cases hlt : n < 10
    · refine ⟨48 + (n % 10).toUInt8, [], ?_, hd.1, ?_⟩
      · simp [digitsRev, hlt]
      · intro h1 h48
        have := hd.2.2 h48
        omega
    · have hge : 10 ≤ n := Nat.le_of_not_lt hlt
      have h10 : n / 10 < 10 ^ f := by
        have : n < 10 ^ f * 10 := by rw [← Nat.pow_succ]; exact h
        exact Nat.div_lt_of_lt_mul (by rw [Nat.mul_comm]; exact this)
      have hf : 1 ≤ f := by
        rcases f with _ | f
        · simp at h10; omega
        · omega
      obtain ⟨c, t, hr, hc, hnz⟩ := ih (n / 10) h10 hf
      refine ⟨c, t ++ [48 + (n % 10).toUInt8], ?_, hc, ?_⟩
      · simp [digitsRev, hlt, hr]
      · intro _; exact hnz (by omega)

theorem pow10_20 : (10 : Nat) ^ 20 = 100000000000000000000 := by decide

theorem natDec_allDigits (n : Nat) : AllDigits (natDec n) := by
  intro c h
  unfold natDec at h
  exact allDigits_digitsRev 20 n c (List.mem_reverse.mp h)

theorem natDec_head (n : Nat) (h : n < two64) :
    ∃ c t, natDec n = c :: t ∧ isDigit c = true ∧ (1 ≤ n → c ≠ 48) := by
  unfold natDec
  exact digitsRev_head 20 n (by rw [pow10_20]; unfold two64 at h; omega) (by decide)

theorem readDec_natDec (n : Nat) (X : Bytes) (h : n < two64) :
    readDec (natDec n ++ X) 0 = readDec X n := by
  unfold natDec
  exact readDec_digitsRev 20 n X (by rw [pow10_20]; unfold two64 at h; omega) h

theorem natDec_zero : natDec 0 = [48] := by decide

/-! ### delimiters: what follows a value in dumped text -/

/-- `,` `]` `}` or whitespace -/
def isDelimC (c : UInt8) : Bool := c = cComma || c = cRBrack || c = cRBrace || isWs c

/-- the text after a value: the end of the buffer or a delimiter character -/
def Delim (r : Bytes) : Prop := r = [] ∨ ∃ c t, r = c :: t ∧ isDelimC c = true

/-- lift a decidable per-byte fact checked on 0..255 to all bytes -/
theorem forall_byte {P : UInt8 → Prop} (h : ∀ n, n < 256 → P (UInt8.ofNat n)) (c : UInt8) : P c := by
  have := h c.toNat (UInt8.toNat_lt c)
  simpa using this

theorem delimC_facts {c : UInt8} (h : isDelimC c = true) :
    isDigit c = false ∧ c ≠ cDot ∧ upper c ≠ 76 ∧ upper c ≠ 85 ∧ upper c ≠ 69 ∧ upper c ≠ 70
      ∧ upper c ≠ 66 ∧ upper c ≠ 88 ∧ c ≠ 0 := by
  have key : ∀ n, n < 256 → (isDelimC (UInt8.ofNat n) = true →
      isDigit (UInt8.ofNat n) = false ∧ UInt8.ofNat n ≠ cDot ∧ upper (UInt8.ofNat n) ≠ 76
      ∧ upper (UInt8.ofNat n) ≠ 85 ∧ upper (UInt8.ofNat n) ≠ 69 ∧ upper (UInt8.ofNat n) ≠ 70
      ∧ upper (UInt8.ofNat n) ≠ 66 ∧ upper (UInt8.ofNat n) ≠ 88 ∧ UInt8.ofNat n ≠ 0) := by
    decide +kernel
  have := key c.toNat (UInt8.toNat_lt c)
  simp only [UInt8.ofNat_toNat] at this
  exact this h

theorem digit_char_facts {c : UInt8} (h : isDigit c = true) :
    isWs c = false ∧ c ≠ cPlus ∧ c ≠ cMinus ∧ c ≠ 116 ∧ c ≠ 102 ∧ c ≠ cDot ∧ isDelimC c = false
      ∧ c ≠ cRBrack ∧ c ≠ 0 := by
  have key : ∀ n, n < 256 → (isDigit (UInt8.ofNat n) = true →
      isWs (UInt8.ofNat n) = false ∧ UInt8.ofNat n ≠ cPlus ∧ UInt8.ofNat n ≠ cMinus
      ∧ UInt8.ofNat n ≠ 116 ∧ UInt8.ofNat n ≠ 102 ∧ UInt8.ofNat n ≠ cDot
      ∧ isDelimC (UInt8.ofNat n) = false ∧ UInt8.ofNat n ≠ cRBrack ∧ UInt8.ofNat n ≠ 0) := by
    decide +kernel
  have := key c.toNat (UInt8.toNat_lt c)
  simp only [UInt8.ofNat_toNat] at this
  exact this h

theorem scan_digits (D X : Bytes) (hD : AllDigits D) (d : Nat) (dot : Bool) :
    scanDigitsDots (D ++ X) d dot = scanDigitsDots X (d + D.length) dot := by
  induction D generalizing d with
  | nil => simp
  | cons c t ih =>
    have hc : isDigit c = true := hD c (by simp)
    have ht : AllDigits t := fun x hx => hD x (by simp [hx])
    simp only [List.cons_append, scanDigitsDots, hc, if_true, List.length_cons]
    rw [ih ht]
    congr 1
    omega

theorem sufLoop_delim (fm : Bool) (r : Bytes) (hr : Delim r) (l : Nat) (u f : Bool) :
    sufLoop fm r l u f = (l, u, f, .plain, r) := by
  rcases hr with hr | ⟨c, t, hr, hc⟩
  · subst hr; simp [sufLoop]
  · subst hr
    have hf := delimC_facts hc
    simp [sufLoop, hf.2.2.1, hf.2.2.2.1, hf.2.2.2.2.1, hf.2.2.2.2.2.1]

theorem scan_stop_delim (r : Bytes) (hr : Delim r) (d : Nat) (dot : Bool) :
    scanDigitsDots r d dot = (d, dot, r) := by
  rcases hr with hr | ⟨c, t, hr, hc⟩
  · subst hr; simp [scanDigitsDots]
  · subst hr
    have hf := delimC_facts hc
    simp [scanDigitsDots, hf.1, hf.2.1]

/-! ### reading the text of an integer -/

theorem take_prefix (a b : Bytes) : (a ++ b).take ((a ++ b).length - b.length) = a := by
  simp

/-- the value and type primitive::load gives the digits of `m` (no `u`, `longs` L's, sign `neg`) -/
def reloaded (m : Nat) (longs : Nat) (neg : Bool) : PType × Int := signedLiteral m true false longs neg

theorem intLiteral_zero (longs : Nat) : intLiteral 0 false false longs = intLiteral 0 true false longs := by
  unfold intLiteral
  by_cases h : longs = 0 <;> simp [h]

theorem loadDecimal_int (expLoad : Bytes → Prim × Bytes) (sign : Bytes) (m : Nat) (suf rest : Bytes) (neg : Bool)
    (hs : suf = [] ∨ suf = [76]) (hr : Delim rest) (hm : m < two64) :
    loadDecimal expLoad (sign ++ (natDec m ++ suf) ++ rest) (natDec m ++ suf ++ rest) neg =
      (⟨(reloaded m (if suf = [] then 0 else 1) neg).1, (reloaded m (if suf = [] then 0 else 1) neg).2,
        sign ++ (natDec m ++ suf)⟩, rest) := by
  obtain ⟨c, t, hD, hc, hnz⟩ := natDec_head m hm
  have hlen : (natDec m).length ≠ 0 := by rw [hD]; simp
  have hdig : (natDec m ++ (suf ++ rest)).take ((natDec m ++ (suf ++ rest)).length - (suf ++ rest).length) = natDec m :=
    take_prefix _ _
  have hpk : peek (natDec m ++ (suf ++ rest)) = c := by rw [hD]; rfl
  have hrd : (readDec (natDec m) 0).1 = m := by
    have := readDec_natDec m [] hm
    simp only [List.append_nil] at this
    rw [this]; rfl
  -- the value read from the digit text, and its type
  have hval : (if (peek (natDec m ++ (suf ++ rest)) != 48) = true then (readDec (natDec m) 0).1 else parseBinaryStr (natDec m)) = m
      ∧ ∀ l, intLiteral m (peek (natDec m ++ (suf ++ rest)) != 48) false l = intLiteral m true false l := by
    rw [hpk, hrd]
    by_cases h0 : m = 0
    · subst h0
      rw [natDec_zero] at hD
      injection hD with hc0 _
      subst hc0
      refine ⟨by decide, fun l => ?_⟩
      simpa using intLiteral_zero l
    · have : c ≠ 48 := hnz (by omega)
      have hb : (c != 48) = true := by simp [this]
      rw [hb]
      exact ⟨by simp, fun _ => rfl⟩
  unfold loadDecimal
  rw [List.append_assoc (natDec m), scan_digits (natDec m) (suf ++ rest) (natDec_allDigits m)]
  rcases hs with hs | hs <;> subst hs
  · simp only [List.nil_append, scan_stop_delim rest hr, Nat.zero_add, hlen, if_false,
      sufLoop_delim false rest hr]
    simp only [List.nil_append] at hdig hval
    simp only [List.append_nil, take_prefix, Bool.or_self, Bool.false_eq_true, if_false, if_true, hdig]
    unfold reloaded signedLiteral
    simp only [hval.1, hval.2]
  · have e1 : scanDigitsDots ([76] ++ rest) (0 + (natDec m).length) false = ((natDec m).length, false, [76] ++ rest) := by
      simp [scanDigitsDots, isDigit, cDot]
    have e2 : sufLoop false ([76] ++ rest) 0 false false = (1, false, false, .plain, rest) := by
      simp [sufLoop, upper, sufLoop_delim false rest hr]
    simp only [e1, hlen, if_false, e2]
    simp only [take_prefix, Bool.or_self, Bool.false_eq_true, if_false, List.cons_ne_nil, hdig]
    unfold reloaded signedLiteral
    simp only [hval.1, hval.2]

theorem take4_ne (x : UInt8) (l : Bytes) (h : x ≠ 116) : ¬ (x :: l).take 4 = sTrue := by
  intro e; simp [sTrue] at e; exact h e.1

theorem take5_ne (x : UInt8) (l : Bytes) (h : x ≠ 102) : ¬ (x :: l).take 5 = sFalse := by
  intro e; simp [sFalse] at e; exact h e.1

theorem c1_not_bx (suf rest : Bytes) (hs : suf = [] ∨ suf = [76]) (hr : Delim rest) :
    upper (peek (suf ++ rest)) ≠ 66 ∧ upper (peek (suf ++ rest)) ≠ 88 := by
  rcases hs with hs | hs <;> subst hs
  · rcases hr with hr | ⟨c, t, hr, hc⟩
    · subst hr; decide
    · subst hr
      have hf := delimC_facts hc
      exact ⟨hf.2.2.2.2.2.2.1, hf.2.2.2.2.2.2.2.1⟩
  · have : peek ([76] ++ rest) = 76 := rfl
    rw [this]; decide

theorem loadPrim_int (fuel : Nat) (neg : Bool) (m : Nat) (suf rest : Bytes)
    (hs : suf = [] ∨ suf = [76]) (hr : Delim rest) (hm : m < two64) (hneg : neg = true → 1 ≤ m) :
    loadPrim (fuel + 1) ((if neg then [cMinus] else []) ++ (natDec m ++ suf) ++ rest) =
      (⟨(reloaded m (if suf = [] then 0 else 1) neg).1, (reloaded m (if suf = [] then 0 else 1) neg).2,
        (if neg then [cMinus] else []) ++ (natDec m ++ suf)⟩, rest) := by
  obtain ⟨c, t, hD, hc, hnz⟩ := natDec_head m hm
  have hcf := digit_char_facts hc
  have hbx := c1_not_bx suf rest hs hr
  -- the formatted-number test fails: the first digit is not 0, or it is the only digit
  have hfmt : (peek (natDec m ++ suf ++ rest) = 48 && (upper (peek ((natDec m ++ suf ++ rest).drop 1)) = 66
      || upper (peek ((natDec m ++ suf ++ rest).drop 1)) = 88)) = false := by
    by_cases h0 : m = 0
    · subst h0
      simp only [natDec_zero, List.cons_append, List.nil_append, List.drop_succ_cons, List.drop_zero]
      simp [hbx.1, hbx.2]
    · have : ¬ c = 48 := hnz (by omega)
      simp [hD, peek, this]
  cases neg with
  | false =>
    simp only [Bool.false_eq_true, if_false, List.nil_append]
    have hshape : natDec m ++ suf ++ rest = c :: (t ++ suf ++ rest) := by rw [hD]; simp
    unfold loadPrim
    have h4 : ¬ (natDec m ++ suf ++ rest).take 4 = sTrue := by rw [hshape]; exact take4_ne _ _ hcf.2.2.2.1
    have h5 : ¬ (natDec m ++ suf ++ rest).take 5 = sFalse := by rw [hshape]; exact take5_ne _ _ hcf.2.2.2.2.1
    have hsp : splitSign (natDec m ++ suf ++ rest) = (false, natDec m ++ suf ++ rest) := by
      unfold splitSign
      have : peek (natDec m ++ suf ++ rest) = c := by rw [hshape]; rfl
      rw [this]
      simp [hcf.2.1, hcf.2.2.1]
    simp only [h4, h5, if_false, hsp, hfmt, Bool.false_eq_true]
    have := loadDecimal_int (loadPrim fuel) [] m suf rest false hs hr hm
    simp only [List.nil_append] at this
    exact this
  | true =>
    have h1 : 1 ≤ m := hneg rfl
    simp only [if_true, List.cons_append, List.nil_append]
    unfold loadPrim
    have h4 : ¬ (cMinus :: (natDec m ++ suf ++ rest)).take 4 = sTrue := take4_ne _ _ (by decide)
    have h5 : ¬ (cMinus :: (natDec m ++ suf ++ rest)).take 5 = sFalse := take5_ne _ _ (by decide)
    have hsp : splitSign (cMinus :: (natDec m ++ suf ++ rest)) = (true, natDec m ++ suf ++ rest) := by
      unfold splitSign
      have hsk : skipWs (natDec m ++ suf ++ rest) = natDec m ++ suf ++ rest := by
        rw [hD]; exact skipWs_cons_nonws c _ hcf.1
      have p0 : peek (cMinus :: (natDec m ++ suf ++ rest)) = cMinus := rfl
      rw [p0]
      simp only [List.drop_succ_cons, List.drop_zero, hsk]
      simp [cMinus, cPlus]
    simp only [h4, h5, if_false, hsp, hfmt, Bool.false_eq_true]
    have := loadDecimal_int (loadPrim fuel) [cMinus] m suf rest true hs hr hm
    simp only [List.cons_append, List.nil_append] at this
    exact this

/-! ### two's-complement facts -/

theorem p31 : (2:Int)^(32-1) = 2147483648 := by decide
theorem p32 : (2:Int)^32 = 4294967296 := by decide
theorem p63 : (2:Int)^(64-1) = 9223372036854775808 := by decide
theorem p64 : (2:Int)^64 = 18446744073709551616 := by decide

theorem ws32_idem (x : Int) : wrapS 32 (wrapS 32 x) = wrapS 32 x := by
  simp only [wrapS, p31, p32]; omega
theorem wu32_ws32 (x : Int) : wrapU 32 (wrapS 32 x) = wrapU 32 x := by
  simp only [wrapS, wrapU, p31, p32]; omega
theorem ws64_idem (x : Int) : wrapS 64 (wrapS 64 x) = wrapS 64 x := by
  simp only [wrapS, p63, p64]; omega
theorem wu64_ws64 (x : Int) : wrapU 64 (wrapS 64 x) = wrapU 64 x := by
  simp only [wrapS, wrapU, p63, p64]; omega

theorem wu64_idem (x : Int) : wrapU 64 (wrapU 64 x) = wrapU 64 x := by
  simp only [wrapU, p64]; omega

/-! ### the number lemma -/

/-- an integer-typed primitive built through the API: no source text, value in the range of its type -/
def Prim.IsInt (p : Prim) : Prop :=
  p.src = [] ∧ p.InRange ∧
    (p.ty = .i8 ∨ p.ty = .u8 ∨ p.ty = .i16 ∨ p.ty = .u16 ∨ p.ty = .i32 ∨ p.ty = .u32 ∨ p.ty = .i64 ∨ p.ty = .u64)

def PType.isLong : PType → Bool
  | .i64 | .u64 => true
  | _ => false

theorem p7 : (2:Int)^(8-1) = 128 := by decide
theorem p8 : (2:Int)^8 = 256 := by decide
theorem p15 : (2:Int)^(16-1) = 32768 := by decide
theorem p16 : (2:Int)^16 = 65536 := by decide

theorem isInt_natAbs_lt {p : Prim} (h : p.IsInt) : p.val.natAbs < two64 := by
  obtain ⟨_, hr, ht⟩ := h
  unfold Prim.InRange at hr
  rcases ht with ht | ht | ht | ht | ht | ht | ht | ht <;> rw [ht] at hr <;>
    simp only [PType.wrap, wrapS, wrapU, p7, p8, p15, p16, p31, p32, p63, p64] at hr <;>
    unfold two64 <;> omega

/-- primitive::toString of an integer primitive -/
theorem toStr_isInt {p : Prim} (h : p.IsInt) :
    p.toStr = (if p.val < 0 then [cMinus] else []) ++ (natDec p.val.natAbs ++ (if p.ty.isLong then [76] else [])) := by
  obtain ⟨hs, _, ht⟩ := h
  have hnat : p.val.toNat = p.val.natAbs ∨ p.val < 0 := by omega
  unfold Prim.toStr intDec
  rcases ht with ht | ht | ht | ht | ht | ht | ht | ht <;> rw [ht] <;> simp only [hs, PType.isLong] <;>
    (by_cases hv : p.val < 0
     · simp [hv]
     · have : p.val.toNat = p.val.natAbs := by omega
       simp [hv, this])

theorem primEq_of_val_eq (p : Prim)
    (ht : p.ty = .i8 ∨ p.ty = .u8 ∨ p.ty = .i16 ∨ p.ty = .u16 ∨ p.ty = .i32 ∨ p.ty = .u32 ∨ p.ty = .i64 ∨ p.ty = .u64)
    (ty' : PType) (hty : ty' = .i32 ∨ ty' = .i64 ∨ ty' = .u64) (T : Bytes) : primEq p ⟨ty', p.val, T⟩ = true := by
  rcases ht with ht | ht | ht | ht | ht | ht | ht | ht <;> rcases hty with hty | hty | hty <;>
    simp [primEq, maxTy, PType.rank, Prim.toInt, ht, hty]

/-- decimal literal without `u`: int if it fits (and there is no `l`), else long, else unsigned long -/
theorem intLiteral_dec (m longs : Nat) :
    intLiteral m true false longs =
      if longs = 0 ∧ m ≤ 2147483647 then .i32 else if m ≤ 9223372036854775807 then .i64 else .u64 := by
  unfold intLiteral
  by_cases h1 : longs = 0 <;> by_cases h2 : m ≤ 2147483647 <;> by_cases h3 : m ≤ 9223372036854775807 <;>
    simp [h1, h2, h3]

theorem intLiteral_cases (m longs : Nat) :
    intLiteral m true false longs = .i32 ∨ intLiteral m true false longs = .i64 ∨ intLiteral m true false longs = .u64 := by
  rw [intLiteral_dec]
  split
  · exact Or.inl rfl
  · split
    · exact Or.inr (Or.inl rfl)
    · exact Or.inr (Or.inr rfl)

/-- json::operator== accepts the re-read number: it has the same value (a 64-bit type for values that
    do not fit `int`), except that the most negative int64 comes back as the uint64 with the same bits -/
theorem primEq_reload (p : Prim) (h : p.IsInt) (T : Bytes) :
    primEq p ⟨(reloaded p.val.natAbs (if p.ty.isLong then 1 else 0) (decide (p.val < 0))).1,
      (reloaded p.val.natAbs (if p.ty.isLong then 1 else 0) (decide (p.val < 0))).2, T⟩ = true := by
  obtain ⟨_, hr, ht⟩ := h
  unfold Prim.InRange at hr
  have hcases := intLiteral_cases p.val.natAbs (if p.ty.isLong then 1 else 0)
  unfold reloaded signedLiteral
  simp only []
  by_cases hv : p.val < 0
  · have hval : -(p.val.natAbs : Int) = p.val := by omega
    simp only [hv, decide_true, if_true, hval]
    by_cases hmin : p.val = -9223372036854775808
    · -- only an int64 can hold this value; it is re-read as uint64 2^63
      have hty : p.ty = .i64 := by
        rcases ht with ht | ht | ht | ht | ht | ht | ht | ht <;> rw [ht] at hr <;>
          simp only [PType.wrap, wrapS, wrapU, p7, p8, p15, p16, p31, p32, p63, p64] at hr <;>
          first | exact ht | omega
      have hna : p.val.natAbs = 9223372036854775808 := by omega
      have hlit : intLiteral p.val.natAbs true false (if p.ty.isLong then 1 else 0) = .u64 := by
        rw [intLiteral_dec, hna]; simp
      rw [hlit, hmin]
      have hp : p = ⟨.i64, -9223372036854775808, p.src⟩ := by
        cases p; simp_all
      rw [hp]
      simp [primEq, maxTy, PType.rank, Prim.toInt, PType.wrap, wrapU, p64]
    · -- otherwise the negated literal is in the range of its type: the value is unchanged
      have hb : p.val.natAbs ≤ 9223372036854775807 := by
        rcases ht with ht | ht | ht | ht | ht | ht | ht | ht <;> rw [ht] at hr <;>
          simp only [PType.wrap, wrapS, wrapU, p7, p8, p15, p16, p31, p32, p63, p64] at hr <;> omega
      have hx : (intLiteral p.val.natAbs true false (if p.ty.isLong then 1 else 0)).wrap p.val = p.val := by
        rw [intLiteral_dec]
        by_cases h1 : (if p.ty.isLong then 1 else 0) = 0 ∧ p.val.natAbs ≤ 2147483647
        · rw [if_pos h1]
          simp only [PType.wrap, wrapS, p31, p32]; omega
        · rw [if_neg h1, if_pos hb]
          simp only [PType.wrap, wrapS, p63, p64]; omega
      rw [hx]
      exact primEq_of_val_eq p ht _ hcases T
  · have hval : (p.val.natAbs : Int) = p.val := by omega
    simp only [hv, decide_false, Bool.false_eq_true, if_false, hval]
    exact primEq_of_val_eq p ht _ hcases T

/-- C24 number lemma: reading the printed text of an integer primitive, followed by a delimiter,
    yields a primitive that json::operator== accepts as equal, and stops at the delimiter -/
theorem loadPrim_toStr (fuel : Nat) (p : Prim) (h : p.IsInt) (rest : Bytes) (hr : Delim rest) :
    ∃ p', loadPrim (fuel + 1) (p.toStr ++ rest) = (p', rest) ∧ primEq p p' = true ∧ p'.src = p.toStr := by
  have hm := isInt_natAbs_lt h
  have hT := toStr_isInt h
  have hsuf : (if p.ty.isLong then [76] else ([] : Bytes)) = [] ∨ (if p.ty.isLong then [76] else ([] : Bytes)) = [76] := by
    cases p.ty.isLong <;> simp
  have hneg : decide (p.val < 0) = true → 1 ≤ p.val.natAbs := by intro hh; have := of_decide_eq_true hh; omega
  have hl := loadPrim_int fuel (decide (p.val < 0)) p.val.natAbs _ rest hsuf hr hm hneg
  have hsel : (if (if p.ty.isLong then [76] else ([] : Bytes)) = [] then 0 else 1) = (if p.ty.isLong then 1 else 0) := by
    cases p.ty.isLong <;> simp
  simp only [decide_eq_true_eq, hsel] at hl
  refine ⟨_, by rw [hT]; exact hl, ?_, ?_⟩
  · have := primEq_reload p h ((if p.val < 0 then [cMinus] else []) ++ (natDec p.val.natAbs ++ if p.ty.isLong then [76] else []))
    simpa using this
  · simp only [hT]

/-- the number read back has the same mathematical value; only INT64_MIN comes back as uint64 2^63 -/
theorem reload_value (p : Prim) (h : p.IsInt) :
    (reloaded p.val.natAbs (if p.ty.isLong then 1 else 0) (decide (p.val < 0))).2 = p.val
      ∨ (p.ty = .i64 ∧ p.val = -9223372036854775808
          ∧ reloaded p.val.natAbs (if p.ty.isLong then 1 else 0) (decide (p.val < 0)) = (.u64, 9223372036854775808)) := by
  obtain ⟨_, hr, ht⟩ := h
  unfold Prim.InRange at hr
  unfold reloaded signedLiteral
  simp only []
  by_cases hv : p.val < 0
  · have hval : -(p.val.natAbs : Int) = p.val := by omega
    simp only [hv, decide_true, if_true, hval]
    by_cases hmin : p.val = -9223372036854775808
    · right
      have hty : p.ty = .i64 := by
        rcases ht with ht | ht | ht | ht | ht | ht | ht | ht <;> rw [ht] at hr <;>
          simp only [PType.wrap, wrapS, wrapU, p7, p8, p15, p16, p31, p32, p63, p64] at hr <;>
          first | exact ht | omega
      have hna : p.val.natAbs = 9223372036854775808 := by omega
      have hlit : intLiteral p.val.natAbs true false (if p.ty.isLong then 1 else 0) = .u64 := by
        rw [intLiteral_dec, hna]; simp
      refine ⟨hty, hmin, ?_⟩
      rw [hlit, hmin]
      simp [PType.wrap, wrapU, p64]
    · left
      have hb : p.val.natAbs ≤ 9223372036854775807 := by
        rcases ht with ht | ht | ht | ht | ht | ht | ht | ht <;> rw [ht] at hr <;>
          simp only [PType.wrap, wrapS, wrapU, p7, p8, p15, p16, p31, p32, p63, p64] at hr <;> omega
      rw [intLiteral_dec]
      by_cases h1 : (if p.ty.isLong then 1 else 0) = 0 ∧ p.val.natAbs ≤ 2147483647
      · rw [if_pos h1]
        simp only [PType.wrap, wrapS, p31, p32]; omega
      · rw [if_neg h1, if_pos hb]
        simp only [PType.wrap, wrapS, p63, p64]; omega
  · left
    have hval : (p.val.natAbs : Int) = p.val := by omega
    simp only [hv, decide_false, Bool.false_eq_true, if_false, hval]

end Occa.Json
