/-
`delete` of a kernel / stream (`deleteChild`) and of a memory object (`deleteMem`).
-/
import OccaProofs.Lemmas.GcDelete5

namespace Occa.Gc

/-- what callers need to know about the destruction of object `o` -/
structure DelOut (s s' : St) (o : Nat) : Prop where
  dead : s'.alive o = false
  keep : ∀ t, s.alive t = true → s.kind t = s.kind o → t ≠ o → s'.alive t = true
  vlive : ∀ v, (∀ d, v = Var.cur d → s'.alive d = true) → s'.vlive v = s.vlive v
  kind : s'.kind = s.kind
  next : s'.next = s.next
  ptr_out : ∀ w, (∀ x, w ∉ s.ring x) → (s'.ptr w = s.ptr w ∨ s'.ptr w = none)
  alive_sub : ∀ t, s'.alive t = true → s.alive t = true
  devs : ∀ t, s.alive t = true → s.kind t = .dev → t ≠ o → s'.alive t = true
  ptr_in : ∀ w, w ∈ s.ring o → s'.ptr w = none

theorem DelOut.of_killed {s s' : St} {K : List Nat} {o : Nat} (hk : Killed s K s') (ho : o ∈ K)
    (hK : ∀ x ∈ K, x = o ∨ s.kind x ≠ s.kind o) (hD : ∀ x ∈ K, x = o ∨ s.kind x ≠ .dev) : DelOut s s' o := by
  refine ⟨by rw [hk.alive]; simp [ho], ?_, fun v _ => by rw [hk.vlive], hk.kind, hk.next,
    fun w hw => Or.inl (hk.ptrU w (fun x _ => hw x)), fun t ht => ((hk.alive_iff t).mp ht).1, ?_,
    fun w hw => hk.ptrK w o ho hw⟩
  rotate_left
  · intro t hta htk hto
    rw [hk.alive]
    have : t ∉ K := by
      intro h
      rcases hD t h with h1 | h1
      · exact hto h1
      · exact h1 htk
    simp [hta, this]
  intro t hta htk hto
  rw [hk.alive]
  have : t ∉ K := by
    intro h
    rcases hK t h with h1 | h1
    · exact hto h1
    · exact h1 htk
  simp [hta, this]

theorem single_closed {ex : Var → Prop} {s : St} {o : Nat} (hi : Inv00 ex s) (ha : s.alive o = true)
    (hk : s.kind o = .mem ∨ s.kind o = .ker ∨ s.kind o = .str) : Closed0 s [o] := by
  have hkids : s.kids o = [] := hi.kids_nil (by rcases hk with h | h | h <;> rw [h] <;> exact ⟨by decide, by decide⟩)
  have hch : ∀ k, s.chGet k o = [] := fun k => hi.ch_nil (by rcases hk with h | h | h <;> rw [h] <;> decide) k
  refine ⟨by simp, by simpa using ha, ?_, ?_, ?_, ?_⟩
  · intro b hb m hm
    have : b = o := by simpa using hb
    subst this
    rw [hkids] at hm; simp at hm
  · intro p hp i hin
    have : p = o := by simpa using hp
    subst this
    have := (hi.inner_ok p i ha hin).1
    rcases hk with h | h | h <;> rw [h] at this <;> cases this
  · intro d hd k c hc
    have : d = o := by simpa using hd
    subst this
    rw [hch k] at hc; simp at hc
  · intro p i hpa hin hiK
    have : i = o := by simpa using hiK
    subst this
    have := (hi.inner_ok p i hpa hin).2.2.1
    rcases hk with h | h | h <;> rw [h] at this <;> cases this

theorem single_emptied {ex : Var → Prop} {s s' : St} {o : Nat} {K : List Nat} (hi : Inv00 ex s)
    (hk : s.kind o = .mem ∨ s.kind o = .ker ∨ s.kind o = .str) (hkil : Killed s K s') : Emptied s' [o] := by
  intro b hb
  have : b = o := by simpa using hb
  subst this
  have hkids : s.kids b = [] := hi.kids_nil (by rcases hk with h | h | h <;> rw [h] <;> exact ⟨by decide, by decide⟩)
  have hch : ∀ k, s.chGet k b = [] := fun k => hi.ch_nil (by rcases hk with h | h | h <;> rw [h] <;> decide) k
  constructor
  · apply List.eq_nil_iff_forall_not_mem.mpr
    intro x hx
    have := hkil.kidsS b x hx
    rw [hkids] at this; simp at this
  · intro k
    apply List.eq_nil_iff_forall_not_mem.mpr
    intro x hx
    have := hkil.chS k b x hx
    rw [hch k] at this; simp at this

theorem deleteChild_core {ex : Var → Prop} {s : St} {o d : Nat} {k : Kind} (hi : Inv00 ex s)
    (ha : s.alive o = true) (hko : s.kind o = k) (hk : k = .ker ∨ k = .str)
    (hp : s.par o = some d) (hda : s.alive d = true) (hdo : d ≠ o) :
    Killed s [o] (deleteChild k s o) ∧ Purged (deleteChild k s o) [o] ∧ Emptied (deleteChild k s o) [o] := by
  have hk' : s.kind o = .mem ∨ s.kind o = .ker ∨ s.kind o = .str := by
    rcases hk with h | h <;> rw [hko, h] <;> simp
  have hkm : s.kind o ≠ .mem := by rcases hk with h | h <;> rw [hko, h] <;> decide
  have he : deleteChild k s o
      = (killForm s o).chSet k d (Ring.remove ((killForm s o).chGet k d) o) := by
    unfold deleteChild
    dsimp only
    rw [kill1_eq ha (hi.ring_nodup o)]
    have h1 : (killForm s o).par o = some d := hp
    have h2 : (killForm s o).alive d = true := by simp [killForm, upd_apply, hdo, hda]
    simp only [h1, St.touch_alive h2]
  have hkil : Killed s [o] (deleteChild k s o) := by
    rw [he]
    have h1 := killForm_killed (s := s) (o := o)
    have h2 : PreEdit (killForm s o) ((killForm s o).chSet k d (Ring.remove ((killForm s o).chGet k d) o)) [] :=
      preEdit_chSet_remove k d o (by simpa using hi.ch_nodup k d) (Or.inr (by simp [killForm]))
    simpa using h1.trans h2.killed
  refine ⟨hkil, ?_, single_emptied hi hk' hkil⟩
  constructor
  · intro b x hx hxo
    have : x = o := by simpa using hxo
    subst this
    exact hkm (hi.kids_ok b x (hkil.kidsS b x hx)).2.1
  · intro k' d' x hx hxo
    have : x = o := by simpa using hxo
    subst this
    have hx0 := hkil.chS k' d' x hx
    have hxk := hi.ch_ok k' d' x hx0
    have e1 := hxk.2.1
    rw [hp] at e1
    cases e1
    have e2 : slot k' = slot k := by rw [← hxk.2.2.1, hko]
    rw [he, chGet_chSet] at hx
    simp only [e2, and_self, if_true] at hx
    exact Ring.not_mem_remove (by simpa using hi.ch_nodup k d) x hx

theorem child_closed {ex : Var → Prop} {s : St} {o : Nat} (hi : Inv00 ex s) (ha : s.alive o = true)
    (hk : s.kind o = .ker ∨ s.kind o = .str) : Closed s [o] := by
  have hk' : s.kind o = .mem ∨ s.kind o = .ker ∨ s.kind o = .str := Or.inr hk
  have hkm : s.kind o ≠ .mem := by rcases hk with h | h <;> rw [h] <;> decide
  refine ⟨single_closed hi ha hk', ?_⟩
  intro b' _ hb'k _ hne
  obtain ⟨m, hm⟩ := List.exists_mem_of_ne_nil _ hne
  refine ⟨m, hm, ?_⟩
  intro hmo
  have : m = o := by simpa using hmo
  subst this
  exact hkm (hi.kids_ok b' m hm).2.1

/-- `delete` of a kernel or stream -/
theorem InvX.del_child {ex : Var → Prop} {s : St} {o : Nat} {k : Kind} (hi : InvX ex s)
    (ha : s.alive o = true) (hko : s.kind o = k) (hk : k = .ker ∨ k = .str) :
    InvX ex (deleteChild k s o) ∧ Killed s [o] (deleteChild k s o) := by
  have hkd : s.kind o ≠ .dev := by rcases hk with h | h <;> rw [hko, h] <;> decide
  have hkm : s.kind o ≠ .mem := by rcases hk with h | h <;> rw [hko, h] <;> decide
  obtain ⟨d, hp, hda, hdk, _⟩ := hi.ch_par o ha hkd hkm
  have hdo : d ≠ o := by intro h; rw [h] at hdk; exact hkd hdk
  obtain ⟨h1, h2, h3⟩ := deleteChild_core hi.toInv00 ha hko hk hp hda hdo
  have hk2 : s.kind o = .ker ∨ s.kind o = .str := by rcases hk with h | h <;> rw [hko, h] <;> simp
  exact ⟨hi.killed h1 (child_closed hi.toInv00 ha hk2) h2 h3, h1⟩

end Occa.Gc
