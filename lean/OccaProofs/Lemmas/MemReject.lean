/-
C02: which requests are rejected.  The guards of OccaModel/Mem.lean characterised as the property
words them: negative, out of the handle's range, uninitialised operand.
-/
import OccaProofs.Lemmas.Mem

namespace Occa.Mem

/-! ### dtype sizes are positive -/

/-- every reachable `modeMemory_t` has a dtype of at least one byte -/
def EszPos (s : State) : Prop := ∀ (m : Nat) (v : View), s.mems[m]? = some v → 0 < v.esz

/-- the dtype named by the request has at least one byte (every dtype but `void`/`none`) -/
def Op.wf : Op → Prop
  | .malloc _ _ e _ => 0 < e
  | .mallocFrom _ _ e _ => 0 < e
  | .wrap _ _ _ e => 0 < e
  | .cast _ _ e => 0 < e
  | .setDtype _ e => 0 < e
  | _ => True

theorem EszPos.view {s : State} (h : EszPos s) {x : Nat} {p : View} (hp : view? s x = some p) : 0 < p.esz := by
  obtain ⟨m, _, hm⟩ := view?_some hp
  exact h _ _ hm

theorem eszPos_push {s s' : State} (h : EszPos s) {v : View} (hv : 0 < v.esz) (hm : s'.mems = s.mems ++ [v]) :
    EszPos s' := by
  intro m w hw
  rw [hm] at hw
  by_cases hlt : m < s.mems.length
  · rw [List.getElem?_append_left hlt] at hw; exact h _ _ hw
  · rw [List.getElem?_append_right (by omega)] at hw
    rcases Nat.eq_zero_or_pos (m - s.mems.length) with h0 | hpos
    · rw [h0] at hw; simp at hw; subst hw; exact hv
    · have : ([v] : List View)[m - s.mems.length]? = none := by
        simp only [List.getElem?_eq_none_iff, List.length_singleton]; omega
      rw [this] at hw; cases hw

theorem eszPos_set {s s' : State} (h : EszPos s) {m e : Nat} {p : View} (he : 0 < e)
    (hm : s'.mems = s.mems.set m { p with esz := e }) : EszPos s' := by
  intro k w hw
  rw [hm] at hw
  by_cases hmk : m = k
  · subst hmk
    by_cases hlt : m < s.mems.length
    · rw [List.getElem?_set_self hlt] at hw; cases hw; exact he
    · rw [List.getElem?_eq_none (by simp only [List.length_set]; omega)] at hw; cases hw
  · rw [List.getElem?_set_ne hmk] at hw; exact h _ _ hw

theorem eszPos_same {s s' : State} (h : EszPos s) (hm : s'.mems = s.mems) : EszPos s' := by
  intro m v hv; rw [hm] at hv; exact h _ _ hv

theorem copyBytes_mems (s : State) (dst src : View) (bytes dOff sOff : Nat) :
    (copyBytes s dst src bytes dOff sOff).1.mems = s.mems := by
  unfold copyBytes
  split <;> rfl

def MRes.EP : MRes → Prop
  | .val s _ => EszPos s
  | _ => True

theorem assignTo_eszPos {s0 : State} (h0 : EszPos s0) (d : Nat) {r : MRes} (hr : r.EP) : EszPos (assignTo s0 d r).1 := by
  cases r with
  | val s m => exact eszPos_same hr rfl
  | err e => exact h0
  | trap => exact h0

theorem mallocExpr_ep {s : State} (h : EszPos s) {n : Int} {e : Nat} (he : 0 < e) (data : Option (List UInt8)) :
    (mallocExpr s n e data).EP := by
  cases hme : mallocExpr s n e data with
  | err er => trivial
  | trap => trivial
  | val s1 om =>
    cases om with
    | none => rw [mallocExpr_val_none hme]; exact h
    | some m =>
      obtain ⟨_, _, _, nb, _, _, hs1⟩ := mallocExpr_val hme
      exact eszPos_push h (v := rootView s n e) he (by rw [hs1]; rfl)

theorem mallocFromExpr_ep {s : State} (h : EszPos s) {n : Int} {e : Nat} (he : 0 < e) (src : Nat) :
    (mallocFromExpr s n e src).EP := by
  unfold mallocFromExpr
  have hg := mallocExpr_ep h (n := n) he none
  cases hme : mallocExpr s n e none with
  | err er => trivial
  | trap => trivial
  | val s1 om =>
    rw [hme] at hg
    cases om with
    | none => exact hg
    | some m =>
      simp only []
      split
      · split
        · exact hg
        · split
          · trivial
          · split
            · rename_i s2 _ heq
              have h1 := congrArg (fun r : State × Res => r.1.mems) heq
              simp only [copyBytes_mems] at h1
              exact eszPos_same hg h1.symm
            · trivial
            · trivial
      · exact hg

theorem step_eszPos {s : State} (h : EszPos s) {op : Op} (hw : op.wf) : EszPos (step s op).1 := by
  cases op with
  | malloc v n e data => exact assignTo_eszPos h v (mallocExpr_ep h hw data)
  | mallocFrom v n e src => exact assignTo_eszPos h v (mallocFromExpr_ep h hw src)
  | wrap v hb n e =>
    refine assignTo_eszPos h v ?_
    unfold wrapExpr
    simp only []
    split
    · trivial
    · split
      · trivial
      · exact eszPos_push h (v := { buf := hb, off := 0, size := (n * (e : Int)).toNat, esz := e }) hw rfl
  | slice d src off cnt =>
    refine assignTo_eszPos h d ?_
    unfold sliceExpr
    split
    · exact h
    · rename_i p hp
      split
      · trivial
      · rename_i v hv
        have := (sliceView_ok hv).2.1
        exact eszPos_push h (v := v) (by rw [this]; exact h.view hp) rfl
  | cast d src e =>
    refine assignTo_eszPos h d ?_
    unfold castExpr
    split
    · trivial
    · split
      · trivial
      · rename_i v hv
        exact eszPos_push h (v := { v with esz := e }) hw rfl
  | clone d src =>
    refine assignTo_eszPos h d ?_
    unfold cloneExpr
    split
    · exact h
    · rename_i p hp
      split
      · exact h
      · have hg := mallocFromExpr_ep h (n := (p.size : Int)) (e := 1) (by decide) src
        cases hmf : mallocFromExpr s (p.size : Int) 1 src with
        | err er => trivial
        | trap => trivial
        | val s1 om =>
          rw [hmf] at hg
          cases om with
          | none => trivial
          | some m =>
            simp only []
            split
            · trivial
            · rename_i c hc
              exact eszPos_set hg (h.view hp) rfl
  | setDtype v e =>
    simp only [step, doSetDtype]
    split
    · exact h
    · split
      · exact h
      · exact eszPos_set h hw rfl
  | copyFromHost v data cnt off =>
    simp only [step, doCopyFromHost]
    split
    · exact h
    · split
      · exact h
      split
      · exact h
      split
      · exact h
      split
      · exact h
      split
      · exact h
      · exact eszPos_same h rfl
  | copyToHost v cap cnt off =>
    simp only [step, doCopyToHost]
    split
    · exact h
    · split
      · exact h
      split
      · exact h
      split
      · exact h
      split
      · exact h
      split <;> exact h
  | copyFromMem d src cnt doff soff =>
    simp only [step, doCopyFromMem]
    split
    · exact h
    · exact h
    · exact h
    · split
      · exact h
      · exact eszPos_same h (copyBytes_mems _ _ _ _ _ _)
  | copyToMem src d cnt doff soff =>
    simp only [step, doCopyToMem]
    split
    · exact h
    · exact h
    · exact h
    · split
      · exact h
      · exact eszPos_same h (copyBytes_mems _ _ _ _ _ _)
  | assign d src => exact eszPos_same h rfl
  | free v =>
    simp only [step, doFree]
    split
    · exact h
    · exact eszPos_same h rfl
  | hostWrite hb off data =>
    simp only [step, doHostWrite]
    split
    · split
      · exact eszPos_same h rfl
      · exact h
    · exact h
  | hostRead hb off n =>
    simp only [step, doHostRead]
    split
    · split <;> exact h
    · exact h

theorem init_eszPos : EszPos init := by
  intro m v h; simp [init] at h

theorem run_eszPos {s : State} (h : EszPos s) {ops : List Op} (hw : ∀ op ∈ ops, op.wf) : EszPos (run s ops) := by
  induction ops generalizing s with
  | nil => exact h
  | cons op rest ih =>
    exact ih (step_eszPos h (hw op (by simp))) (fun o ho => hw o (by simp [ho]))

/-! ### the guards, in the property's words -/

/-- a slice request is negative or reaches past the end of the handle -/
def sliceBad (p : View) (off cnt : Int) : Prop :=
  off < 0 ∨ cnt < -1 ∨ (cnt = -1 ∧ p.len < off) ∨ (cnt ≠ -1 ∧ p.len < off + cnt)

/-- a host copy request is negative or reaches past the end of the handle -/
def hostCopyBad (p : View) (cnt off : Int) : Prop :=
  cnt < -1 ∨ off < 0 ∨ (p.size : Int) < countBytes p cnt + (p.esz : Int) * off

/-- a device-to-device copy request is negative or reaches past the end of either handle -/
def memCopyBad (self dst src : View) (cnt doff soff : Int) : Prop :=
  cnt < -1 ∨ doff < 0 ∨ soff < 0 ∨ (src.size : Int) < countBytes self cnt + (src.esz : Int) * soff ∨
    (dst.size : Int) < countBytes self cnt + (dst.esz : Int) * doff

theorem mul_nonneg_iff_pos {a b : Int} (ha : 0 < a) : 0 ≤ a * b ↔ 0 ≤ b :=
  ⟨fun h => Int.nonneg_of_mul_nonneg_right h ha, fun h => Int.mul_nonneg (Int.le_of_lt ha) h⟩

theorem countBytes_ge_iff {p : View} (hp : 0 < p.esz) (cnt : Int) : countBytes p cnt ≥ -1 ↔ ¬ cnt < -1 := by
  have he : (0 : Int) < (p.esz : Int) := by exact_mod_cast hp
  constructor
  · intro h hc
    have h0 := countBytes_nonneg h
    unfold countBytes at h0
    have hne : cnt ≠ -1 := by omega
    rw [if_neg hne] at h0
    have := (mul_nonneg_iff_pos he).mp h0
    omega
  · intro h
    unfold countBytes
    by_cases hc : cnt = -1
    · rw [if_pos hc]
      have := Int.mul_nonneg (Int.le_of_lt he) (len_nonneg p)
      omega
    · rw [if_neg hc]
      have := Int.mul_nonneg (Int.le_of_lt he) (show (0 : Int) ≤ cnt by omega)
      omega

theorem sliceView_error_iff {p : View} (hp : 0 < p.esz) (off cnt : Int) :
    (∃ e, sliceView p off cnt = .error e) ↔ sliceBad p off cnt := by
  have he : (0 : Int) < (p.esz : Int) := by exact_mod_cast hp
  have hl := len_nonneg p
  simp only [sliceView, sliceBad]
  by_cases h1 : (p.esz : Int) * (if cnt = -1 then p.len - off else cnt) ≥ 0
  case neg =>
    rw [if_pos h1]
    refine ⟨fun _ => ?_, fun _ => ⟨_, rfl⟩⟩
    by_cases hc : cnt = -1
    · rw [if_pos hc] at h1
      have : ¬ (0 ≤ p.len - off) := fun h => h1 ((mul_nonneg_iff_pos he).mpr h)
      right; right; left; exact ⟨hc, by omega⟩
    · rw [if_neg hc] at h1
      have : ¬ (0 ≤ cnt) := fun h => h1 ((mul_nonneg_iff_pos he).mpr h)
      right; left; omega
  rw [if_neg (not_not_intro h1)]
  by_cases h2 : off ≥ 0
  case neg => rw [if_pos h2]; exact ⟨fun _ => Or.inl (by omega), fun _ => ⟨_, rfl⟩⟩
  rw [if_neg (not_not_intro h2)]
  by_cases h3 : off + cnt ≤ p.len
  case neg =>
    rw [if_pos h3]
    refine ⟨fun _ => ?_, fun _ => ⟨_, rfl⟩⟩
    by_cases hc : cnt = -1
    · right; right; left; exact ⟨hc, by omega⟩
    · right; right; right; exact ⟨hc, by omega⟩
  rw [if_neg (not_not_intro h3)]
  have h4 : (p.off : Int) + (p.esz : Int) * off ≥ 0 := by
    have := Int.mul_nonneg (Int.le_of_lt he) h2
    omega
  rw [if_neg (not_not_intro h4)]
  refine ⟨fun ⟨e, h⟩ => (by cases h), fun h => ?_⟩
  exfalso
  by_cases hc : cnt = -1
  · rw [if_pos hc] at h1
    have := (mul_nonneg_iff_pos he).mp h1
    rcases h with h | h | h | h <;> omega
  · rw [if_neg hc] at h1
    have := (mul_nonneg_iff_pos he).mp h1
    rcases h with h | h | h | h <;> omega

theorem copyGuards_error_iff {self dst src : View} (h1 : 0 < self.esz) (h2 : 0 < dst.esz) (h3 : 0 < src.esz)
    (cnt doff soff : Int) :
    (∃ e, copyGuards self dst src cnt doff soff = .error e) ↔ memCopyBad self dst src cnt doff soff := by
  have e2 : (0 : Int) < (dst.esz : Int) := by exact_mod_cast h2
  have e3 : (0 : Int) < (src.esz : Int) := by exact_mod_cast h3
  simp only [copyGuards, memCopyBad]
  by_cases g1 : countBytes self cnt ≥ -1
  case neg =>
    rw [if_pos g1]
    have : cnt < -1 := by
      by_cases hc : cnt < -1
      · exact hc
      · exact absurd ((countBytes_ge_iff h1 cnt).mpr hc) g1
    exact ⟨fun _ => Or.inl this, fun _ => ⟨_, rfl⟩⟩
  rw [if_neg (not_not_intro g1)]
  have c1 := (countBytes_ge_iff h1 cnt).mp g1
  have hb := countBytes_nonneg g1
  by_cases g2 : (dst.esz : Int) * doff ≥ 0
  case neg =>
    rw [if_pos g2]
    have : ¬ (0 ≤ doff) := fun h => g2 ((mul_nonneg_iff_pos e2).mpr h)
    exact ⟨fun _ => Or.inr (Or.inl (by omega)), fun _ => ⟨_, rfl⟩⟩
  rw [if_neg (not_not_intro g2)]
  have c2 := (mul_nonneg_iff_pos e2).mp g2
  by_cases g3 : (src.esz : Int) * soff ≥ 0
  case neg =>
    rw [if_pos g3]
    have : ¬ (0 ≤ soff) := fun h => g3 ((mul_nonneg_iff_pos e3).mpr h)
    exact ⟨fun _ => Or.inr (Or.inr (Or.inl (by omega))), fun _ => ⟨_, rfl⟩⟩
  rw [if_neg (not_not_intro g3)]
  have c3 := (mul_nonneg_iff_pos e3).mp g3
  by_cases g4 : udimLe (countBytes self cnt + (src.esz : Int) * soff) src.size = true
  case neg =>
    rw [if_pos g4]
    simp only [udimLe, Bool.and_eq_true, decide_eq_true_eq] at g4
    exact ⟨fun _ => Or.inr (Or.inr (Or.inr (Or.inl (by omega)))), fun _ => ⟨_, rfl⟩⟩
  rw [if_neg (not_not_intro g4)]
  by_cases g5 : udimLe (countBytes self cnt + (dst.esz : Int) * doff) dst.size = true
  case neg =>
    rw [if_pos g5]
    simp only [udimLe, Bool.and_eq_true, decide_eq_true_eq] at g5
    exact ⟨fun _ => Or.inr (Or.inr (Or.inr (Or.inr (by omega)))), fun _ => ⟨_, rfl⟩⟩
  rw [if_neg (not_not_intro g5)]
  simp only [udimLe, Bool.and_eq_true, decide_eq_true_eq] at g4 g5
  refine ⟨fun ⟨e, h⟩ => (by cases h), fun h => ?_⟩
  exfalso
  rcases h with h | h | h | h | h <;> omega

/-! ### requests, in the property's words -/

/-- the request is negative, out of the range of a handle it names, or names an uninitialised
    handle (where the operation needs one) -/
def Invalid (s : State) : Op → Prop
  | .malloc _ n _ _ => n < 0
  | .mallocFrom _ n e src =>
      n < 0 ∨ (n ≠ 0 ∧ ∃ sv, view? s src = some sv ∧ sv.size ≠ 0 ∧ (sv.size : Int) < n * (e : Int))
  | .wrap _ _ n _ => n < 0
  | .slice _ src off cnt =>
      match view? s src with
      | none => True
      | some p => sliceBad p off cnt
  | .cast _ src _ => view? s src = none
  | .setDtype v _ => view? s v = none
  | .clone _ src => view? s src = none
  | .copyFromHost v _ cnt off =>
      match view? s v with
      | none => True
      | some p => hostCopyBad p cnt off
  | .copyToHost v _ cnt off =>
      match view? s v with
      | none => True
      | some p => hostCopyBad p cnt off
  | .copyFromMem d src cnt doff soff =>
      match view? s d, view? s src with
      | some dv, some sv => memCopyBad dv dv sv cnt doff soff
      | _, _ => True
  | .copyToMem src d cnt doff soff =>
      match view? s src, view? s d with
      | some sv, some dv => memCopyBad sv dv sv cnt doff soff
      | _, _ => True
  | .assign _ _ => False
  | .free _ => False
  | .hostWrite _ _ _ => False
  | .hostRead _ _ _ => False

/-- the operation raised `occa::exception` -/
def Rejected (s : State) (op : Op) : Prop := ∃ e, (step s op).2 = .err e

/-- the request shapes of finding F05: the receiver is an uninitialised handle (both operands, for a
    device-to-device copy) and the C++ returns early without raising -/
def Silent (s : State) : Op → Prop
  | .slice _ src _ _ => view? s src = none
  | .clone _ src => view? s src = none
  | .copyFromHost v _ _ _ => view? s v = none
  | .copyToHost v _ _ _ => view? s v = none
  | .copyFromMem d src _ _ _ => view? s d = none ∧ view? s src = none
  | .copyToMem src d _ _ _ => view? s src = none ∧ view? s d = none
  | _ => False

theorem assignTo_rejected {s0 : State} {d : Nat} {r : MRes} :
    (∃ e, (assignTo s0 d r).2 = .err e) ↔ ∃ e, r = .err e := by
  cases r with
  | val s m => exact ⟨fun ⟨e, h⟩ => (by cases h), fun ⟨e, h⟩ => (by cases h)⟩
  | err e0 => exact ⟨fun _ => ⟨e0, rfl⟩, fun _ => ⟨e0, rfl⟩⟩
  | trap => exact ⟨fun ⟨e, h⟩ => (by cases h), fun ⟨e, h⟩ => (by cases h)⟩

theorem mul_neg_iff_pos {n : Int} {e : Nat} (he : 0 < e) : ¬ (n * (e : Int) ≥ 0) ↔ n < 0 := by
  have he' : (0 : Int) < (e : Int) := by exact_mod_cast he
  rw [Int.mul_comm]
  constructor
  · intro h
    by_cases hn : 0 ≤ n
    · exact absurd ((mul_nonneg_iff_pos he').mpr hn) h
    · omega
  · intro h hc
    have := (mul_nonneg_iff_pos he').mp hc
    omega

theorem mallocExpr_rejected {s : State} {n : Int} {e : Nat} (he : 0 < e) (data : Option (List UInt8)) :
    (∃ er, mallocExpr s n e data = .err er) ↔ n < 0 := by
  unfold mallocExpr
  by_cases h0 : n = 0
  · rw [if_pos h0]
    exact ⟨fun ⟨_, h⟩ => (by cases h), fun h => by omega⟩
  rw [if_neg h0]
  simp only []
  by_cases h1 : n * (e : Int) ≥ 0
  case neg =>
    rw [if_pos h1]
    exact ⟨fun _ => (mul_neg_iff_pos he).mp h1, fun _ => ⟨_, rfl⟩⟩
  rw [if_neg (not_not_intro h1)]
  have hn : ¬ n < 0 := fun hn => (mul_neg_iff_pos he).mpr hn h1
  refine ⟨fun ⟨er, h⟩ => ?_, fun h => absurd h hn⟩
  cases data with
  | none => cases h
  | some dt =>
    simp only [] at h
    split at h <;> cases h

theorem hostCopy_guards {p : View} (hp : 0 < p.esz) (cnt off : Int) :
    (¬ (countBytes p cnt ≥ -1) ∨ ¬ ((p.esz : Int) * off ≥ 0) ∨
      ¬ (udimLe (countBytes p cnt + (p.esz : Int) * off) p.size = true)) ↔ hostCopyBad p cnt off := by
  have he : (0 : Int) < (p.esz : Int) := by exact_mod_cast hp
  unfold hostCopyBad
  by_cases g1 : countBytes p cnt ≥ -1
  case neg =>
    have : cnt < -1 := by
      by_cases hc : cnt < -1
      · exact hc
      · exact absurd ((countBytes_ge_iff hp cnt).mpr hc) g1
    exact ⟨fun _ => Or.inl this, fun _ => Or.inl g1⟩
  have c1 := (countBytes_ge_iff hp cnt).mp g1
  have hb := countBytes_nonneg g1
  by_cases g2 : (p.esz : Int) * off ≥ 0
  case neg =>
    have : ¬ (0 ≤ off) := fun h => g2 ((mul_nonneg_iff_pos he).mpr h)
    exact ⟨fun _ => Or.inr (Or.inl (by omega)), fun _ => Or.inr (Or.inl g2)⟩
  have c2 := (mul_nonneg_iff_pos he).mp g2
  simp only [udimLe, Bool.and_eq_true, decide_eq_true_eq]
  constructor
  · intro h
    rcases h with h | h | h
    · exact absurd g1 h
    · exact absurd g2 h
    · right; right; omega
  · intro h
    rcases h with h | h | h
    · omega
    · omega
    · right; right; omega

/-! ### malloc from a memory, clone -/

theorem mallocExpr_val_none_n {s s1 : State} {n : Int} {e : Nat} {data : Option (List UInt8)}
    (h : mallocExpr s n e data = .val s1 none) : n = 0 := by
  unfold mallocExpr at h
  by_cases h0 : n = 0
  · exact h0
  rw [if_neg h0] at h
  simp only [] at h
  by_cases h1 : n * (e : Int) ≥ 0
  case neg => rw [if_pos h1] at h; cases h
  rw [if_neg (not_not_intro h1)] at h
  cases data with
  | none => simp at h
  | some dt =>
    simp only [] at h
    split at h
    · cases h
    · simp at h

theorem countBytes_rootView (s : State) {n : Int} {e : Nat} (he : 0 < e) (hn : 0 ≤ n * (e : Int)) :
    countBytes (rootView s n e) (-1) = n * (e : Int) := by
  have he' : (0 : Int) < (e : Int) := by exact_mod_cast he
  have hn0 : 0 ≤ n := by
    rw [Int.mul_comm] at hn
    exact (mul_nonneg_iff_pos he').mp hn
  unfold countBytes View.len rootView
  simp only [if_true]
  have h1 : (n * (e : Int)).toNat = n.toNat * e := by
    have : ((n.toNat * e : Nat) : Int) = n * (e : Int) := by
      rw [Int.natCast_mul, Int.toNat_of_nonneg hn0]
    omega
  rw [h1, Nat.mul_div_cancel _ he, Int.toNat_of_nonneg hn0, Int.mul_comm]

theorem mallocFromExpr_rejected {s : State} (h : Inv s) (hp : EszPos s) {n : Int} {e : Nat} (he : 0 < e) (src : Nat) :
    (∃ er, mallocFromExpr s n e src = .err er) ↔
      (n < 0 ∨ (n ≠ 0 ∧ ∃ sv, view? s src = some sv ∧ sv.size ≠ 0 ∧ (sv.size : Int) < n * (e : Int))) := by
  have hg := mallocExpr_good h n e none
  have hnt := mallocExpr_noTrap (s := s) (n := n) (e := e) (data := none) (fun _ hd => by cases hd)
  have hrej := mallocExpr_rejected (s := s) (n := n) he none
  unfold mallocFromExpr
  cases hme : mallocExpr s n e none with
  | trap => exact absurd hme hnt
  | err er =>
    simp only []
    exact ⟨fun _ => Or.inl (hrej.mp ⟨er, hme⟩), fun _ => ⟨er, rfl⟩⟩
  | val s1 om =>
    rw [hme] at hg
    have hn : ¬ n < 0 := fun hn => by
      obtain ⟨er, h'⟩ := hrej.mpr hn
      rw [hme] at h'; cases h'
    cases om with
    | none =>
      simp only []
      have := mallocExpr_val_none_n hme
      exact ⟨fun ⟨_, h'⟩ => (by cases h'), fun h' => by rcases h' with h' | ⟨h', _⟩ <;> omega⟩
    | some m =>
      simp only []
      obtain ⟨hn0, hnn, hm, nb, hnb, _, hs1⟩ := mallocExpr_val hme
      have hle : BufLe s s1 := by rw [hs1]; exact bufLe_pushBuf s nb
      have hdv : s1.mems[m]? = some (rootView s n e) := by rw [hs1, hm]; simp [pushMem]
      rw [hdv]
      cases hsv : view? s src with
      | none =>
        simp only []
        exact ⟨fun ⟨_, h'⟩ => (by cases h'), fun h' => by
          rcases h' with h' | ⟨_, sv, h', _⟩
          · exact absurd h' hn
          · cases h'⟩
      | some sv =>
        simp only []
        by_cases hz : sv.size = 0
        · rw [if_pos hz]
          exact ⟨fun ⟨_, h'⟩ => (by cases h'), fun h' => by
            rcases h' with h' | ⟨_, sv', h1, h2, _⟩
            · exact absurd h' hn
            · cases h1; exact absurd hz h2⟩
        rw [if_neg hz]
        have hcb := countBytes_rootView s he hnn
        have hiff := copyGuards_error_iff (self := rootView s n e) (dst := rootView s n e) (src := sv)
          he he (hp.view hsv) (-1) 0 0
        have hbad : memCopyBad (rootView s n e) (rootView s n e) sv (-1) 0 0 ↔ (sv.size : Int) < n * (e : Int) := by
          unfold memCopyBad
          rw [hcb]
          have : ((rootView s n e).size : Int) = n * (e : Int) := by
            show (((n * (e : Int)).toNat : Nat) : Int) = n * (e : Int)
            exact Int.toNat_of_nonneg hnn
          rw [this]
          simp only [Int.mul_zero, Int.add_zero]
          constructor
          · intro h'; rcases h' with h' | h' | h' | h' | h' <;> omega
          · intro h'; right; right; right; left; exact h'
        cases hcg : copyGuards (rootView s n e) (rootView s n e) sv (-1) 0 0 with
        | error er =>
          simp only []
          have : (sv.size : Int) < n * (e : Int) := hbad.mp (hiff.mp ⟨er, hcg⟩)
          exact ⟨fun _ => Or.inr ⟨hn0, sv, rfl, hz, this⟩, fun _ => ⟨er, rfl⟩⟩
        | ok t =>
          obtain ⟨bytes, dOff, sOff⟩ := t
          simp only []
          obtain ⟨_, _, _, g1, g2⟩ := copyGuards_ok hcg
          have hc := copyBytes_inv hg.1 (hg.1.views _ _ hdv) ((h.viewOk hsv).mono hle) g1 g2
          cases hcbs : copyBytes s1 (rootView s n e) sv bytes dOff sOff with
          | mk s2 r =>
            rw [hcbs] at hc
            have hr : r = .ok none := hc.2.1
            subst hr
            simp only []
            refine ⟨fun ⟨_, h'⟩ => (by cases h'), fun h' => ?_⟩
            rcases h' with h' | ⟨_, sv', h1, _, h3⟩
            · exact absurd h' hn
            · cases h1
              have : ¬ memCopyBad (rootView s n e) (rootView s n e) sv (-1) 0 0 := fun hb' => by
                obtain ⟨er, h''⟩ := hiff.mpr hb'
                rw [hcg] at h''; cases h''
              exact absurd (hbad.mpr h3) this

theorem mallocFromExpr_val_none {s s1 : State} {n : Int} {e src : Nat}
    (h : mallocFromExpr s n e src = .val s1 none) : n = 0 := by
  unfold mallocFromExpr at h
  cases hme : mallocExpr s n e none with
  | trap => rw [hme] at h; cases h
  | err er => rw [hme] at h; cases h
  | val s0 om =>
    rw [hme] at h
    cases om with
    | none => exact mallocExpr_val_none_n hme
    | some m =>
      simp only [] at h
      split at h
      · split at h
        · cases h
        · split at h
          · cases h
          · split at h <;> cases h
      · cases h

theorem cloneExpr_not_rejected {s : State} (h : Inv s) (hp : EszPos s) {src : Nat} {p : View}
    (hv : view? s src = some p) : ¬ ∃ er, cloneExpr s src = .err er := by
  intro ⟨er, hc⟩
  unfold cloneExpr at hc
  rw [hv] at hc
  simp only [] at hc
  by_cases hz : p.size = 0
  · rw [if_pos hz] at hc; cases hc
  rw [if_neg hz] at hc
  have hrej := mallocFromExpr_rejected h hp (n := (p.size : Int)) (e := 1) (by decide) src
  have hg := mallocFromExpr_good h (p.size : Int) 1 src
  have hnr : ¬ ∃ er, mallocFromExpr s (p.size : Int) 1 src = .err er := by
    intro hx
    rcases hrej.mp hx with h1 | ⟨_, sv, h1, _, h3⟩
    · omega
    · rw [hv] at h1; cases h1
      simp at h3
  cases hmf : mallocFromExpr s (p.size : Int) 1 src with
  | err e1 => exact hnr ⟨e1, hmf⟩
  | trap => rw [hmf] at hc; cases hc
  | val s1 om =>
    rw [hmf] at hc hg
    cases om with
    | none =>
      have := mallocFromExpr_val_none hmf
      omega
    | some m =>
      simp only [] at hc
      have hlt := hg.2 m rfl
      rw [List.getElem?_eq_getElem hlt] at hc
      cases hc

/-! ### rejected exactly when invalid (outside the region of finding F05) -/

theorem step_rejected_iff {s : State} (h : Inv s) (hp : EszPos s) {op : Op} (hw : op.wf) (hs : ¬ Silent s op) :
    Rejected s op ↔ Invalid s op := by
  unfold Rejected
  cases op with
  | malloc v n e data =>
    simp only [step, doMalloc, Invalid]
    rw [assignTo_rejected]
    exact mallocExpr_rejected hw data
  | mallocFrom v n e src =>
    simp only [step, doMallocFrom, Invalid]
    rw [assignTo_rejected]
    exact mallocFromExpr_rejected h hp hw src
  | wrap v hb n e =>
    simp only [step, doWrap, Invalid]
    rw [assignTo_rejected]
    unfold wrapExpr
    simp only []
    by_cases h1 : n * (e : Int) ≥ 0
    case neg =>
      rw [if_pos h1]
      exact ⟨fun _ => (mul_neg_iff_pos hw).mp h1, fun _ => ⟨_, rfl⟩⟩
    rw [if_neg (not_not_intro h1)]
    have hn : ¬ n < 0 := fun hn => (mul_neg_iff_pos hw).mpr hn h1
    refine ⟨fun ⟨er, h'⟩ => ?_, fun h' => absurd h' hn⟩
    split at h' <;> cases h'
  | slice d src off cnt =>
    simp only [step, doSlice, Invalid]
    rw [assignTo_rejected]
    unfold sliceExpr
    cases hv : view? s src with
    | none => exact absurd hv hs
    | some p =>
      simp only []
      rw [← sliceView_error_iff (hp.view hv)]
      cases sliceView p off cnt with
      | error e0 => exact ⟨fun _ => ⟨e0, rfl⟩, fun _ => ⟨e0, rfl⟩⟩
      | ok w => exact ⟨fun ⟨_, h'⟩ => (by cases h'), fun ⟨_, h'⟩ => (by cases h')⟩
  | cast d src e =>
    simp only [step, doCast, Invalid]
    rw [assignTo_rejected]
    unfold castExpr
    cases hv : view? s src with
    | none => exact ⟨fun _ => rfl, fun _ => ⟨_, rfl⟩⟩
    | some p =>
      simp only []
      have hnb : ¬ sliceBad p 0 (-1) := by
        have := len_nonneg p
        intro hb; rcases hb with hb | hb | hb | hb <;> omega
      have hne : ¬ ∃ e0, sliceView p 0 (-1) = .error e0 := fun hx => hnb ((sliceView_error_iff (hp.view hv) 0 (-1)).mp hx)
      cases hsv : sliceView p 0 (-1) with
      | error e0 => exact absurd ⟨e0, hsv⟩ hne
      | ok w => exact ⟨fun ⟨_, h'⟩ => (by cases h'), fun h' => (by cases h')⟩
  | setDtype v e =>
    simp only [step, doSetDtype, Invalid]
    unfold view?
    cases hv : s.vars v with
    | none => exact ⟨fun _ => rfl, fun _ => ⟨_, rfl⟩⟩
    | some m =>
      simp only [Option.bind_some]
      cases hm : s.mems[m]? with
      | none => exact ⟨fun _ => rfl, fun _ => ⟨_, rfl⟩⟩
      | some p => exact ⟨fun ⟨_, h'⟩ => (by cases h'), fun h' => (by cases h')⟩
  | clone d src =>
    simp only [step, doClone, Invalid]
    rw [assignTo_rejected]
    cases hv : view? s src with
    | none => exact absurd hv hs
    | some p => exact ⟨fun hx => absurd hx (cloneExpr_not_rejected h hp hv), fun h' => (by cases h')⟩
  | copyFromHost v data cnt off =>
    simp only [step, doCopyFromHost, Invalid]
    cases hv : view? s v with
    | none => exact absurd hv hs
    | some p =>
      simp only []
      rw [← hostCopy_guards (hp.view hv)]
      by_cases g1 : countBytes p cnt ≥ -1
      case neg => rw [if_pos g1]; exact ⟨fun _ => Or.inl g1, fun _ => ⟨_, rfl⟩⟩
      rw [if_neg (not_not_intro g1)]
      by_cases g2 : (p.esz : Int) * off ≥ 0
      case neg => rw [if_pos g2]; exact ⟨fun _ => Or.inr (Or.inl g2), fun _ => ⟨_, rfl⟩⟩
      rw [if_neg (not_not_intro g2)]
      by_cases g3 : udimLe (countBytes p cnt + (p.esz : Int) * off) p.size = true
      case neg => rw [if_pos g3]; exact ⟨fun _ => Or.inr (Or.inr g3), fun _ => ⟨_, rfl⟩⟩
      rw [if_neg (not_not_intro g3)]
      refine ⟨fun ⟨er, h'⟩ => ?_, fun h' => ?_⟩
      · exfalso
        split at h'
        · cases h'
        · split at h' <;> cases h'
      · rcases h' with h' | h' | h'
        · exact absurd g1 h'
        · exact absurd g2 h'
        · exact absurd g3 h'
  | copyToHost v cap cnt off =>
    simp only [step, doCopyToHost, Invalid]
    cases hv : view? s v with
    | none => exact absurd hv hs
    | some p =>
      simp only []
      rw [← hostCopy_guards (hp.view hv)]
      by_cases g1 : countBytes p cnt ≥ -1
      case neg => rw [if_pos g1]; exact ⟨fun _ => Or.inl g1, fun _ => ⟨_, rfl⟩⟩
      rw [if_neg (not_not_intro g1)]
      by_cases g2 : (p.esz : Int) * off ≥ 0
      case neg => rw [if_pos g2]; exact ⟨fun _ => Or.inr (Or.inl g2), fun _ => ⟨_, rfl⟩⟩
      rw [if_neg (not_not_intro g2)]
      by_cases g3 : udimLe (countBytes p cnt + (p.esz : Int) * off) p.size = true
      case neg => rw [if_pos g3]; exact ⟨fun _ => Or.inr (Or.inr g3), fun _ => ⟨_, rfl⟩⟩
      rw [if_neg (not_not_intro g3)]
      refine ⟨fun ⟨er, h'⟩ => ?_, fun h' => ?_⟩
      · exfalso
        split at h'
        · cases h'
        · split at h' <;> cases h'
      · rcases h' with h' | h' | h'
        · exact absurd g1 h'
        · exact absurd g2 h'
        · exact absurd g3 h'
  | copyFromMem d src cnt doff soff =>
    simp only [step, doCopyFromMem, Invalid]
    cases hd : view? s d with
    | none =>
      cases hsv : view? s src with
      | none => exact absurd ⟨hd, hsv⟩ hs
      | some sv => exact ⟨fun _ => trivial, fun _ => ⟨_, rfl⟩⟩
    | some dv =>
      cases hsv : view? s src with
      | none => exact ⟨fun _ => trivial, fun _ => ⟨_, rfl⟩⟩
      | some sv =>
        simp only []
        rw [← copyGuards_error_iff (hp.view hd) (hp.view hd) (hp.view hsv)]
        cases hcg : copyGuards dv dv sv cnt doff soff with
        | error e0 => exact ⟨fun _ => ⟨e0, rfl⟩, fun _ => ⟨e0, rfl⟩⟩
        | ok t =>
          obtain ⟨bytes, dOff, sOff⟩ := t
          simp only []
          obtain ⟨_, _, _, g1, g2⟩ := copyGuards_ok hcg
          rw [(copyBytes_inv h (h.viewOk hd) (h.viewOk hsv) g1 g2).2.1]
          exact ⟨fun ⟨_, h'⟩ => (by cases h'), fun ⟨_, h'⟩ => (by cases h')⟩
  | copyToMem src d cnt doff soff =>
    simp only [step, doCopyToMem, Invalid]
    cases hsv : view? s src with
    | none =>
      cases hd : view? s d with
      | none => exact absurd ⟨hsv, hd⟩ hs
      | some dv => exact ⟨fun _ => trivial, fun _ => ⟨_, rfl⟩⟩
    | some sv =>
      cases hd : view? s d with
      | none => exact ⟨fun _ => trivial, fun _ => ⟨_, rfl⟩⟩
      | some dv =>
        simp only []
        rw [← copyGuards_error_iff (hp.view hsv) (hp.view hd) (hp.view hsv)]
        cases hcg : copyGuards sv dv sv cnt doff soff with
        | error e0 => exact ⟨fun _ => ⟨e0, rfl⟩, fun _ => ⟨e0, rfl⟩⟩
        | ok t =>
          obtain ⟨bytes, dOff, sOff⟩ := t
          simp only []
          obtain ⟨_, _, _, g1, g2⟩ := copyGuards_ok hcg
          rw [(copyBytes_inv h (h.viewOk hd) (h.viewOk hsv) g1 g2).2.1]
          exact ⟨fun ⟨_, h'⟩ => (by cases h'), fun ⟨_, h'⟩ => (by cases h')⟩
  | assign d src => exact ⟨fun ⟨_, h'⟩ => (by cases h'), fun h' => (by cases h')⟩
  | free v =>
    simp only [step, doFree, Invalid]
    refine ⟨fun ⟨_, h'⟩ => ?_, fun h' => (by cases h')⟩
    split at h' <;> cases h'
  | hostWrite hb off data =>
    simp only [step, doHostWrite, Invalid]
    refine ⟨fun ⟨_, h'⟩ => ?_, fun h' => (by cases h')⟩
    split at h'
    · split at h' <;> cases h'
    · cases h'
  | hostRead hb off n =>
    simp only [step, doHostRead, Invalid]
    refine ⟨fun ⟨_, h'⟩ => ?_, fun h' => (by cases h')⟩
    split at h'
    · split at h' <;> cases h'
    · cases h'

/-! ### what an allocation initialised from a memory holds -/

theorem byteAt_congr {s s' : State} (h : s'.bufs = s.bufs) (q : View) (j : Nat) : byteAt s' q j = byteAt s q j := by
  unfold byteAt; rw [h]

/-- a successful non-empty `malloc(n, dtype, src)` from an initialised, non-empty source: the new
    root view sits alone in a fresh buffer, holds the first bytes of the source, and no byte of any
    older buffer changed -/
theorem mallocFromExpr_spec {s s2 : State} (h : Inv s) {n : Int} {e m src : Nat} (he : 0 < e) {sv : View}
    (hsv : view? s src = some sv) (hz : sv.size ≠ 0)
    (hmf : mallocFromExpr s n e src = .val s2 (some m)) :
    m = s.mems.length ∧ s2.mems = s.mems ++ [rootView s n e] ∧ 0 ≤ n * (e : Int) ∧
    (∀ j, j < (n * (e : Int)).toNat → byteAt s2 (rootView s n e) j = byteAt s sv j) ∧
    (∀ (q : View), q.buf < s.bufs.length → ∀ j, byteAt s2 q j = byteAt s q j) := by
  have hg := mallocExpr_good h n e none
  unfold mallocFromExpr at hmf
  cases hme : mallocExpr s n e none with
  | trap => rw [hme] at hmf; cases hmf
  | err er => rw [hme] at hmf; cases hmf
  | val s1 om =>
    rw [hme] at hmf hg
    cases om with
    | none => cases hmf
    | some m1 =>
      simp only [] at hmf
      obtain ⟨hn0, hnn, hm, nb, hnb, _, hs1⟩ := mallocExpr_val hme
      have hle : BufLe s s1 := by rw [hs1]; exact bufLe_pushBuf s nb
      have hdv : s1.mems[m1]? = some (rootView s n e) := by rw [hs1, hm]; simp [pushMem]
      have hbufs : s1.bufs = s.bufs ++ [nb] := by rw [hs1]
      have hold : ∀ (q : View), q.buf < s.bufs.length → ∀ j, byteAt s1 q j = byteAt s q j := by
        intro q hq j
        unfold byteAt
        rw [hbufs, List.getElem?_append_left hq]
      rw [hdv, hsv] at hmf
      simp only [] at hmf
      rw [if_neg hz] at hmf
      cases hcg : copyGuards (rootView s n e) (rootView s n e) sv (-1) 0 0 with
      | error er => rw [hcg] at hmf; cases hmf
      | ok t =>
        obtain ⟨bytes, dOff, sOff⟩ := t
        rw [hcg] at hmf
        simp only [] at hmf
        obtain ⟨e1, e2, e3, g1, g2⟩ := copyGuards_ok hcg
        have hcb := countBytes_rootView s he hnn
        have hb : bytes = (n * (e : Int)).toNat := by omega
        have hd0 : dOff = 0 := by simp only [Int.mul_zero] at e2; omega
        have hs0 : sOff = 0 := by simp only [Int.mul_zero] at e3; omega
        subst hd0 hs0
        have hvd := hg.1.views _ _ hdv
        have hvs := (h.viewOk hsv).mono hle
        have hc := copyBytes_inv hg.1 hvd hvs g1 g2
        have hspec := fun q j => copyBytes_spec (s := s1) hvd hvs g1 g2 q j
        cases hcbs : copyBytes s1 (rootView s n e) sv bytes 0 0 with
        | mk s3 r =>
          rw [hcbs] at hmf hc
          have hr : r = .ok none := hc.2.1
          subst hr
          simp only [MRes.val.injEq, Option.some.injEq] at hmf
          obtain ⟨hs3, hm3⟩ := hmf
          subst hs3 hm3
          have hs3 : s3 = (copyBytes s1 (rootView s n e) sv bytes 0 0).1 := by rw [hcbs]
          obtain ⟨sb, hsb, hsl⟩ := h.viewOk hsv
          have hsvlt : sv.buf < s.bufs.length := (List.getElem?_eq_some_iff.mp hsb).1
          refine ⟨hm, ?_, hnn, ?_, ?_⟩
          · rw [hc.2.2, hs1]; rfl
          · intro j hj
            rw [hs3, hspec]
            have hcond : (rootView s n e).buf = (rootView s n e).buf ∧
                (rootView s n e).off + 0 ≤ (rootView s n e).off + j ∧
                (rootView s n e).off + j < (rootView s n e).off + 0 + bytes := ⟨rfl, by omega, by omega⟩
            rw [if_pos hcond]
            have : 0 + ((rootView s n e).off + j - ((rootView s n e).off + 0)) = j := by omega
            rw [this]
            exact hold sv hsvlt j
          · intro q hq j
            rw [hs3, hspec]
            have : ¬ (q.buf = (rootView s n e).buf ∧ (rootView s n e).off + 0 ≤ q.off + j ∧
                q.off + j < (rootView s n e).off + 0 + bytes) := by
              intro hx
              have : q.buf = s.bufs.length := hx.1
              omega
            rw [if_neg this]
            exact hold q hq j

end Occa.Mem
