/-
C02: which requests are rejected.  The guards of OccaModel/Mem.lean characterised as the property
words them: negative, out of the handle's range, uninitialised operand.
-/
import OccaProofs.Lemmas.Mem

namespace Occa.Mem

/-! ### dtype sizes are positive -/

/-- every reachable `modeMemory_t` has a dtype of at least one byte -/
def EszPos (s : State) : Prop := ∀ (m : Nat) (v : View), s.mems[m]? = some v → 0 < v.esz

/-- the dtype named by the request has at least one byte (every dtype but `void`/`none`) -/
def Op.wf : Op → Prop
  | .malloc _ _ e _ => 0 < e
  | .mallocFrom _ _ e _ => 0 < e
  | .wrap _ _ _ e => 0 < e
  | .cast _ _ e => 0 < e
  | .setDtype _ e => 0 < e
  | _ => True

theorem EszPos.view {s : State} (h : EszPos s) {x : Nat} {p : View} (hp : view? s x = some p) : 0 < p.esz := by
  obtain ⟨m, _, hm⟩ := view?_some hp
  exact h _ _ hm

theorem eszPos_push {s s' : State} (h : EszPos s) {v : View} (hv : 0 < v.esz) (hm : s'.mems = s.mems ++ [v]) :
    EszPos s' := by
  intro m w hw
  rw [hm] at hw
  by_cases hlt : m < s.mems.length
  · rw [List.getElem?_append_left hlt] at hw; exact h _ _ hw
  · rw [List.getElem?_append_right (by omega)] at hw
    rcases Nat.eq_zero_or_pos (m - s.mems.length) with h0 | hpos
    · rw [h0] at hw; simp at hw; subst hw; exact hv
    · have : ([v] : List View)[m - s.mems.length]? = none := by
        simp only [List.getElem?_eq_none_iff, List.length_singleton]; omega
      rw [this] at hw; cases hw

theorem eszPos_set {s s' : State} (h : EszPos s) {m e : Nat} {p : View} (he : 0 < e)
    (hm : s'.mems = s.mems.set m { p with esz := e }) : EszPos s' := by
  intro k w hw
  rw [hm] at hw
  by_cases hmk : m = k
  · subst hmk
    by_cases hlt : m < s.mems.length
    · rw [List.getElem?_set_self hlt] at hw; cases hw; exact he
    · rw [List.getElem?_eq_none (by simp only [List.length_set]; omega)] at hw; cases hw
  · rw [List.getElem?_set_ne hmk] at hw; exact h _ _ hw

theorem eszPos_same {s s' : State} (h : EszPos s) (hm : s'.mems = s.mems) : EszPos s' := by
  intro m v hv; rw [hm] at hv; exact h _ _ hv

theorem copyBytes_mems (s : State) (dst src : View) (bytes dOff sOff : Nat) :
    (copyBytes s dst src bytes dOff sOff).1.mems = s.mems := by
  unfold copyBytes
  split <;> rfl

def MRes.EP : MRes → Prop
  | .val s _ => EszPos s
  | _ => True

theorem assignTo_eszPos {s0 : State} (h0 : EszPos s0) (d : Nat) {r : MRes} (hr : r.EP) : EszPos (assignTo s0 d r).1 := by
  cases r with
  | val s m => exact eszPos_same hr rfl
  | err e => exact h0
  | trap => exact h0

theorem mallocExpr_ep {s : State} (h : EszPos s) {n : Int} {e : Nat} (he : 0 < e) (data : Option (List UInt8)) :
    (mallocExpr s n e data).EP := by
  cases hme : mallocExpr s n e data with
  | err er => trivial
  | trap => trivial
  | val s1 om =>
    cases om with
    | none => rw [mallocExpr_val_none hme]; exact h
    | some m =>
      obtain ⟨_, _, _, nb, _, _, hs1⟩ := mallocExpr_val hme
      exact eszPos_push h (v := rootView s n e) he (by rw [hs1]; rfl)

theorem mallocFromExpr_ep {s : State} (h : EszPos s) {n : Int} {e : Nat} (he : 0 < e) (src : Nat) :
    (mallocFromExpr s n e src).EP := by
  unfold mallocFromExpr
  have hg := mallocExpr_ep h (n := n) he none
  cases hme : mallocExpr s n e none with
  | err er => trivial
  | trap => trivial
  | val s1 om =>
    rw [hme] at hg
    cases om with
    | none => exact hg
    | some m =>
      simp only []
      split
      · split
        · exact hg
        · split
          · trivial
          · split
            · rename_i s2 _ heq
              have h1 := congrArg (fun r : State × Res => r.1.mems) heq
              simp only [copyBytes_mems] at h1
              exact eszPos_same hg h1.symm
            · trivial
            · trivial
      · exact hg

theorem step_eszPos {s : State} (h : EszPos s) {op : Op} (hw : op.wf) : EszPos (step s op).1 := by
  cases op with
  | malloc v n e data => exact assignTo_eszPos h v (mallocExpr_ep h hw data)
  | mallocFrom v n e src => exact assignTo_eszPos h v (mallocFromExpr_ep h hw src)
  | wrap v hb n e =>
    refine assignTo_eszPos h v ?_
    unfold wrapExpr
    simp only []
    split
    · trivial
    · split
      · trivial
      · exact eszPos_push h (v := { buf := hb, off := 0, size := (n * (e : Int)).toNat, esz := e }) hw rfl
  | slice d src off cnt =>
    refine assignTo_eszPos h d ?_
    unfold sliceExpr
    split
    · exact h
    · rename_i p hp
      split
      · trivial
      · rename_i v hv
        have := (sliceView_ok hv).2.1
        exact eszPos_push h (v := v) (by rw [this]; exact h.view hp) rfl
  | cast d src e =>
    refine assignTo_eszPos h d ?_
    unfold castExpr
    split
    · trivial
    · split
      · trivial
      · rename_i v hv
        exact eszPos_push h (v := { v with esz := e }) hw rfl
  | clone d src =>
    refine assignTo_eszPos h d ?_
    unfold cloneExpr
    split
    · exact h
    · rename_i p hp
      split
      · exact h
      · have hg := mallocFromExpr_ep h (n := (p.size : Int)) (e := 1) (by decide) src
        cases hmf : mallocFromExpr s (p.size : Int) 1 src with
        | err er => trivial
        | trap => trivial
        | val s1 om =>
          rw [hmf] at hg
          cases om with
          | none => trivial
          | some m =>
            simp only []
            split
            · trivial
            · rename_i c hc
              exact eszPos_set hg (h.view hp) rfl
  | setDtype v e =>
    simp only [step, doSetDtype]
    split
    · exact h
    · split
      · exact h
      · exact eszPos_set h hw rfl
  | copyFromHost v data cnt off =>
    simp only [step, doCopyFromHost]
    split
    · exact h
    · split
      · exact h
      split
      · exact h
      split
      · exact h
      split
      · exact h
      split
      · exact h
      · exact eszPos_same h rfl
  | copyToHost v cap cnt off =>
    simp only [step, doCopyToHost]
    split
    · exact h
    · split
      · exact h
      split
      · exact h
      split
      · exact h
      split
      · exact h
      split <;> exact h
  | copyFromMem d src cnt doff soff =>
    simp only [step, doCopyFromMem]
    split
    · exact h
    · exact h
    · exact h
    · split
      · exact h
      · exact eszPos_same h (copyBytes_mems _ _ _ _ _ _)
  | copyToMem src d cnt doff soff =>
    simp only [step, doCopyToMem]
    split
    · exact h
    · exact h
    · exact h
    · split
      · exact h
      · exact eszPos_same h (copyBytes_mems _ _ _ _ _ _)
  | assign d src => exact eszPos_same h rfl
  | free v =>
    simp only [step, doFree]
    split
    · exact h
    · exact eszPos_same h rfl
  | hostWrite hb off data =>
    simp only [step, doHostWrite]
    split
    · split
      · exact eszPos_same h rfl
      · exact h
    · exact h
  | hostRead hb off n =>
    simp only [step, doHostRead]
    split
    · split <;> exact h
    · exact h

theorem init_eszPos : EszPos init := by
  intro m v h; simp [init] at h

theorem run_eszPos {s : State} (h : EszPos s) {ops : List Op} (hw : ∀ op ∈ ops, op.wf) : EszPos (run s ops) := by
  induction ops generalizing s with
  | nil => exact h
  | cons op rest ih =>
    exact ih (step_eszPos h (hw op (by simp))) (fun o ho => hw o (by simp [ho]))

end Occa.Mem
