/-
Helper lemmas for C16, part 2: setup establishes the invariant, navigation preserves it, reads and
getNextOperator are safe under it.
-/
import OccaProofs.Lemmas.FrontEnd

namespace Occa.FrontEnd

/-! ### setupTokenIndices / findSemicolons / setup -/

theorem setupTokenIndices_ok (tokens : Array Tok) :
    ∀ (k v : Nat), (setupTokenIndices tokens)[k]? = some v → v < tokens.size := by
  have h : ∀ (l : List Nat) (acc : Array Nat), (∀ v ∈ acc, v < tokens.size) →
      ∀ v ∈ (l.foldl (fun acc i =>
        match tokens[i]? with
        | some t => if t.skippable then acc else acc.push i
        | none => acc) acc), v < tokens.size := by
    intro l
    induction l with
    | nil => intro acc hacc; simpa using hacc
    | cons i r ih =>
      intro acc hacc
      simp only [List.foldl_cons]
      apply ih
      cases h : tokens[i]? with
      | none => simpa [h] using hacc
      | some t =>
        obtain ⟨hlt, _⟩ := Array.getElem?_eq_some_iff.mp h
        by_cases hs : t.skippable = true
        · simpa [h, hs] using hacc
        · simp only [hs, Bool.false_eq_true, if_false]
          intro v hv
          rcases Array.mem_push.mp hv with h1 | h1
          · exact hacc v h1
          · subst h1; exact hlt
  intro k v hk
  exact h (List.range tokens.size) #[] (by simp) v (Array.mem_of_getElem? hk)

theorem findSemicolonsLoop_ok (c : Ctx) (hidx : IdxOk c) :
    ∀ (rem i : Nat) (acc : List Int), i + rem = c.tokenIndices.size →
      ∃ s, findSemicolonsLoop c rem i acc = .ok s := by
  intro rem
  induction rem with
  | zero => intro i acc _; exact ⟨acc, rfl⟩
  | succ rem ih =>
    intro i acc hlen
    obtain ⟨t, k, hget, _⟩ := getToken_ok c hidx i (by omega)
    unfold findSemicolonsLoop
    simp only [hget, ok_bind]
    split
    · exact ih (i + 1) _ (by omega)
    · exact ih (i + 1) _ (by omega)

/-- the structural invariant of a token context -/
structure Valid (c : Ctx) : Prop where
  idx : IdxOk c
  typed : Typed c.tokens
  lo : 0 ≤ c.tp.start
  mid : c.tp.start ≤ c.tp.stop
  hi : c.tp.stop ≤ (c.tokenIndices.size : Int)
  stk : ∀ r ∈ c.stack, 0 ≤ r.start ∧ r.start ≤ r.stop ∧ r.stop ≤ (c.tokenIndices.size : Int)

/-- every binding of the pair map goes forward and stays inside the token list -/
def PairsBounded (c : Ctx) : Prop :=
  ∀ a b, (a, b) ∈ c.pairs → a < b ∧ b < (c.tokenIndices.size : Int)

/-- every opening bracket has a binding to a later token -/
def Covered (c : Ctx) : Prop :=
  ∀ j, j < c.tokenIndices.size → Opener c j → ∃ b, lookup c.pairs (j : Int) = some b ∧ (j : Int) < b

/-- every binding joins an opening bracket with a closing bracket of the same kind -/
def PairsMatch (c : Ctx) : Prop := ∀ a b, (a, b) ∈ c.pairs → Match c a b

/-- every closing bracket is the target of a binding -/
def ClosersCovered (c : Ctx) : Prop :=
  ∀ j, j < c.tokenIndices.size → Closer c j → ∃ a, (a, (j : Int)) ∈ c.pairs

theorem setup_spec (tokens : Array Tok) (ht : Typed tokens) :
    ∃ c, setup tokens = .ok c ∧ Valid c ∧ PairsBounded c ∧ c.tokens = tokens ∧ c.stack = [] ∧
      c.tp = ⟨0, (c.tokenIndices.size : Int)⟩ ∧ (c.hasError = false → Covered c) ∧
      PairsMatch c ∧ (c.hasError = false → ClosersCovered c) ∧
      c.tokenIndices = setupTokenIndices tokens ∧ c.supressErrors = false := by
  let idx := setupTokenIndices tokens
  let c0 : Ctx := { tokens := tokens, tokenIndices := idx, pairs := [], semicolons := [], hasError := false,
                    supressErrors := false, stack := [], tp := ⟨0, Int.ofNat idx.size⟩ }
  have hidx0 : IdxOk c0 := setupTokenIndices_ok tokens
  obtain ⟨out, hout, hb, hc, hm, hcl⟩ := findPairsLoop_spec c0 hidx0 ht idx.size 0 [] []
    (by simp [c0]) (by simp) (by simp) (by intro j hj; omega) (by simp) (by intro j hj; omega)
  let c1 : Ctx := { c0 with pairs := out.pairs, hasError := out.hasError }
  have hidx1 : IdxOk c1 := hidx0
  obtain ⟨s, hs⟩ := findSemicolonsLoop_ok c1 hidx1 idx.size 0 [] (by simp [c1, c0])
  refine ⟨{ c1 with semicolons := s }, ?_, ?_, ?_, rfl, rfl, rfl, ?_, ?_, ?_, rfl, rfl⟩
  · have e1 : c0.size.toNat = idx.size := by simp [c0, Ctx.size]
    have e2 : c1.size.toNat = idx.size := by simp [c1, c0, Ctx.size]
    have hout' : findPairsLoop c0 idx.size 0 [] c0.pairs = .ok out := hout
    have hs' : findSemicolonsLoop c1 idx.size 0 c1.semicolons = .ok s := hs
    have hfs : c1.findSemicolons = .ok { c1 with semicolons := s } := by
      simp only [Ctx.findSemicolons, e2, hs', ok_bind]
    have hfp : c0.findPairs = .ok c1 := by
      simp only [Ctx.findPairs, e1, hout', ok_bind]
      rfl
    show (do let c ← c0.findPairs; c.findSemicolons) = _
    rw [hfp]
    exact hfs
  · exact ⟨hidx0, ht, by simp [c1, c0], by simp [c1, c0], by simp [c1, c0], by simp [c1, c0]⟩
  · exact hb
  · intro he
    exact hc rfl rfl he
  · exact hm
  · intro he
    exact hcl rfl rfl he

/-! ### navigation preserves the invariant -/

theorem Valid.with_tp {c : Ctx} (hv : Valid c) (r : Range) (h0 : 0 ≤ r.start) (h1 : r.start ≤ r.stop)
    (h2 : r.stop ≤ (c.tokenIndices.size : Int)) : Valid { c with tp := r } :=
  ⟨hv.idx, hv.typed, h0, h1, h2, hv.stk⟩

theorem indexInRange_iff (c : Ctx) (i : Int) :
    c.indexInRange i = true ↔ (0 ≤ i ∧ c.tp.start + i < c.tp.stop) := by
  simp [Ctx.indexInRange]

theorem set1_valid {c : Ctx} (hv : Valid c) (a : Int) : Valid (c.set1 a) := by
  unfold Ctx.set1
  by_cases h : c.indexInRange a = true
  · have h' := (indexInRange_iff c a).mp h
    simp only [h, if_true]
    exact hv.with_tp _ (by have := hv.lo; simp; omega) (by simp; omega) hv.hi
  · simp only [h, Bool.false_eq_true, if_false]
    exact hv.with_tp _ (by have := hv.lo; have := hv.mid; simp; omega) (by simp) hv.hi

theorem set2_valid {c : Ctx} (hv : Valid c) (a b : Int) : Valid (c.set2 a b) := by
  unfold Ctx.set2
  by_cases h : c.indexInRange a = true
  · have h' := (indexInRange_iff c a).mp h
    simp only [h, if_true]
    have hv1 : Valid { c with tp := ⟨c.tp.start + a, c.tp.stop⟩ } :=
      hv.with_tp _ (by have := hv.lo; simp; omega) (by simp; omega) hv.hi
    by_cases h2 : Ctx.indexInRange { c with tp := ⟨c.tp.start + a, c.tp.stop⟩ } (b - a) = true
    · have h2' := (indexInRange_iff _ (b - a)).mp h2
      simp only [h2, if_true]
      simp at h2'
      exact hv1.with_tp _ (by have := hv.lo; simp; omega) (by simp; omega) (by have := hv.hi; simp; omega)
    · simp only [h2, Bool.false_eq_true, if_false]
      exact hv1
  · simp only [h, Bool.false_eq_true, if_false]
    exact hv.with_tp _ (by have := hv.lo; have := hv.mid; simp; omega) (by simp) hv.hi

theorem push0_valid {c : Ctx} (hv : Valid c) : Valid c.push0 := by
  refine ⟨hv.idx, hv.typed, hv.lo, hv.mid, hv.hi, ?_⟩
  intro r hr
  rcases List.mem_cons.mp hr with e | e
  · subst e; exact ⟨hv.lo, hv.mid, hv.hi⟩
  · exact hv.stk r e

theorem pop_valid {c : Ctx} (hv : Valid c) :
    c.pop = .err ∨ ∃ c' r, c.pop = .ok (c', r) ∧ Valid c' ∧ c'.pairs = c.pairs ∧
      c'.tokens = c.tokens ∧ c'.tokenIndices = c.tokenIndices := by
  unfold Ctx.pop
  cases hs : c.stack with
  | nil => exact Or.inl rfl
  | cons r rest =>
    refine Or.inr ⟨_, _, rfl, ?_, rfl, rfl, rfl⟩
    have hr := hv.stk r (by simp [hs])
    refine ⟨hv.idx, hv.typed, hr.1, hr.2.1, hr.2.2, ?_⟩
    intro r' hr'
    exact hv.stk r' (by simp [hs, hr'])

end Occa.FrontEnd
