/-
C24: the value read back from dumped text dumps to the same text again (so it also has the same hash):
the round-trip induction of JsonRoundtrip.lean with the additional invariant `SameText`.
-/
import OccaProofs.Lemmas.JsonRoundtrip

namespace Occa.Json

/-- `v'` prints exactly like `v`, at every indentation -/
def SameText (v v' : Json) : Prop := ∀ i c, dump i c v' = dump i c v
def SameTextL (xs xs' : List Json) : Prop := (∀ i n, dumpArr i n xs' = dumpArr i n xs) ∧ xs'.isEmpty = xs.isEmpty
def SameTextO (a a' : Obj) : Prop := (∀ i n, dumpObj i n a' = dumpObj i n a) ∧ a'.isEmpty = a.isEmpty

theorem sameText_arr {xs xs' : List Json} (h : SameTextL xs xs') : SameText (.arr xs) (.arr xs') := by
  intro i c
  simp only [dump, h.1, h.2]

theorem sameText_obj {a a' : Obj} (h : SameTextO a a') : SameText (.obj a) (.obj a') := by
  intro i c
  simp only [dump, h.1, h.2]

theorem sameTextL_single {x x' : Json} (h : SameText x x') : SameTextL [x] [x'] :=
  ⟨fun i n => by simp only [dumpArr, h i n], rfl⟩

theorem sameTextL_cons {x x' : Json} {xs xs' : List Json} (h : SameText x x') (hs : SameTextL xs xs') :
    SameTextL (x :: xs) (x' :: xs') :=
  ⟨fun i n => by simp only [dumpArr, h i n, hs.1, hs.2], rfl⟩

theorem jsonEq_isNone {v v' : Json} (h : jsonEq v v' = true) : v'.isNone = v.isNone := by
  cases v <;> cases v' <;> simp [jsonEq, Json.isNone] at h ⊢

theorem sameTextO_single (k : Bytes) {v v' : Json} (he : jsonEq v v' = true) (h : SameText v v') :
    SameTextO [(k, v)] [(k, v')] :=
  ⟨fun i n => by simp only [dumpObj, h i n, jsonEq_isNone he], rfl⟩

theorem sameTextO_cons (k : Bytes) {v v' : Json} {r r' : Obj} (he : jsonEq v v' = true) (h : SameText v v')
    (hs : SameTextO r r') : SameTextO ((k, v) :: r) ((k, v') :: r') :=
  ⟨fun i n => by simp only [dumpObj, h i n, jsonEq_isNone he, hs.1, hs.2], rfl⟩

/-- the number read back keeps the printed text as its source, so it prints the same text -/
theorem load_num_src (n : Nat) (p : Prim) (h : p.IsInt) (rest : Bytes) (hr : Delim rest) :
    ∃ p', load (n + 1) (p.toStr ++ rest) = .ok (.num p', rest) ∧ primEq p p' = true ∧ p'.toStr = p.toStr := by
  have hm := isInt_natAbs_lt h
  obtain ⟨c, t, hD, hc, _⟩ := natDec_head p.val.natAbs hm
  obtain ⟨p', hl, he, hsrc⟩ := loadPrim_toStr (p.toStr ++ rest).length p h rest hr
  obtain ⟨p2, hl2, he2⟩ := load_num n p h rest hr
  have hT := toStr_isInt h
  have hne : p.toStr ≠ [] := by
    rw [hT, hD]
    cases hv : decide (p.val < 0) <;> simp
  -- `load_num` and `loadPrim_toStr` describe the same primitive
  have hsame : p2 = p' := by
    have hcf := digit_char_facts hc
    have hhead : ∃ c0 t0, p.toStr ++ rest = c0 :: t0 ∧ isWs c0 = false ∧ (isDigit c0 || c0 = cMinus) = true := by
      by_cases hv : p.val < 0
      · refine ⟨cMinus, (natDec p.val.natAbs ++ (if p.ty.isLong then [76] else [])) ++ rest, ?_, by decide, by decide⟩
        rw [hT]; simp [hv]
      · refine ⟨c, (t ++ (if p.ty.isLong then [76] else [])) ++ rest, ?_, hcf.1, by simp [hc]⟩
        rw [hT, hD]; simp [hv]
    obtain ⟨c0, t0, hs, hw, hd⟩ := hhead
    have hsk : skipWs (p.toStr ++ rest) = p.toStr ++ rest := by rw [hs]; exact skipWs_cons_nonws _ _ hw
    have hpk : peek (p.toStr ++ rest) = c0 := by rw [hs]; rfl
    simp only [load, hsk, hpk, hl] at hl2
    rw [if_pos hd] at hl2
    injection hl2 with hl2
    injection hl2 with h1 _
    injection h1 with h1
    exact h1.symm
  refine ⟨p', by rw [← hsame]; exact hl2, he, ?_⟩
  unfold Prim.toStr
  rw [hsrc]
  have : (p.toStr).isEmpty = false := by cases hp : p.toStr <;> simp_all
  simp only [this, Bool.not_false, if_true]
  rfl

mutual
theorem rs_val : ∀ (v : Json), RT v → ∀ (ind cur rest : Bytes) (n : Nat), AllWs ind → AllWs cur → Delim rest → need v ≤ n →
    ∃ v', load n (dump ind cur v ++ rest) = .ok (v', rest) ∧ jsonEq v v' = true ∧ SameText v v'
  | .none, hv, _, _, _, _, _, _, _, _ => absurd hv (by simp [RT])
  | .null, _, ind, cur, rest, n, _, _, _, hn => by
    cases n with
    | zero => simp [need] at hn
    | succ n => exact ⟨.null, by simpa [dump] using load_null n rest, by simp [jsonEq], fun _ _ => rfl⟩
  | .str s, _, ind, cur, rest, n, _, _, _, hn => by
    cases n with
    | zero => simp [need] at hn
    | succ n => exact ⟨.str s, by simpa [dump] using load_str n s rest, by simp [jsonEq], fun _ _ => rfl⟩
  | .num p, hv, ind, cur, rest, n, _, _, hr, hn => by
    cases n with
    | zero => simp [need] at hn
    | succ n =>
      simp only [RT] at hv
      rcases hv with h | h | h
      · obtain ⟨p', hl, he, hsrc⟩ := load_num_src n p h rest hr
        exact ⟨.num p', by simpa [dump] using hl, by simpa [jsonEq] using he, fun _ _ => by simp only [dump]; exact hsrc⟩
      · subst h
        exact ⟨_, by simpa [dump, Prim.toStr] using load_false n rest, by simp [jsonEq, primEq, maxTy, PType.rank, Prim.toInt, PType.wrap], fun _ _ => rfl⟩
      · subst h
        exact ⟨_, by simpa [dump, Prim.toStr] using load_true n rest, by simp [jsonEq, primEq, maxTy, PType.rank, Prim.toInt, PType.wrap], fun _ _ => rfl⟩
  | .arr xs, hv, ind, cur, rest, n, hind, hcur, hr, hn => by
    cases xs with
    | nil =>
      match n, hn with
      | 0, hn => simp [need, needL] at hn
      | 1, hn => simp [need, needL] at hn
      | n + 2, _ =>
        refine ⟨.arr [], ?_, by simp [jsonEq, eqList], fun _ _ => rfl⟩
        simp [dump, load, loadArrLoop, skipWs, isWs, peek, isDigit, cMinus, cLBrace, cLBrack, cRBrack]
    | cons x xs' =>
      match n, hn with
      | 0, hn => simp [need, needL] at hn
      | n + 1, hn =>
        have hni : AllWs (cur ++ ind) := allWs_append hcur hind
        have hW : AllWs (if ind.isEmpty then [] else [cNl]) := by
          by_cases hi : ind.isEmpty = true
          · simp [hi]; exact allWs_nil
          · simp [hi]; intro c hc; simp at hc; subst hc; decide
        obtain ⟨xs2, hl, he, hst⟩ := rs_arrLoop (x :: xs') (by simp) (by simpa [RT] using hv) ind (cur ++ ind) cur
          (if ind.isEmpty then [] else [cNl]) rest [] n hind hni hcur hW (by simp [need] at hn; omega)
        refine ⟨.arr xs2, ?_, by simpa [jsonEq] using he, sameText_arr hst⟩
        simp only [dump, List.isEmpty_cons, Bool.false_eq_true, if_false, load]
        have : skipWs (cLBrack :: ((if ind.isEmpty then [] else [cNl]) ++ dumpArr ind (cur ++ ind) (x :: xs') ++ cur ++ [cRBrack]) ++ rest)
            = cLBrack :: ((if ind.isEmpty then [] else [cNl]) ++ (dumpArr ind (cur ++ ind) (x :: xs') ++ (cur ++ cRBrack :: rest))) := by
          simp [skipWs, isWs, cLBrack]
        rw [this]
        simp only [peek, List.drop_succ_cons, List.drop_zero]
        simp only [show isDigit cLBrack = false by decide, show (cLBrack = cMinus) = False by decide,
          show (cLBrack = cLBrace) = False by decide, Bool.false_or, decide_false, if_false, if_true, Bool.false_eq_true]
        simpa using hl
  | .obj kvs, hv, ind, cur, rest, n, hind, hcur, hr, hn => by
    cases kvs with
    | nil =>
      match n, hn with
      | 0, hn => simp [need, needO] at hn
      | 1, hn => simp [need, needO] at hn
      | n + 2, _ =>
        refine ⟨.obj [], ?_, by simp [jsonEq, eqObj], fun _ _ => rfl⟩
        simp [dump, load, loadObjLoop, skipWs, isWs, peek, isDigit, cMinus, cLBrace, cLBrack, cRBrace]
    | cons kv kvs' =>
      match n, hn with
      | 0, hn => simp [need, needO] at hn
      | n + 1, hn =>
        simp only [RT] at hv
        have hni : AllWs (cur ++ ind) := allWs_append hcur hind
        have hW : AllWs (if ind.isEmpty then [] else [cNl]) := by
          by_cases hi : ind.isEmpty = true
          · simp [hi]; exact allWs_nil
          · simp [hi]; intro c hc; simp at hc; subst hc; decide
        have hT : AllWs (if ind.isEmpty then [] else cur) := by
          by_cases hi : ind.isEmpty = true
          · simp [hi]; exact allWs_nil
          · simp [hi]; exact hcur
        obtain ⟨kvs2, hl, he, hst⟩ := rs_objLoop (kv :: kvs') (by simp) hv.2 hv.1 ind (cur ++ ind)
          (if ind.isEmpty then [] else cur) (if ind.isEmpty then [] else [cNl]) rest [] n hind hni hT hW
          (by intro p hp; simp at hp) (by simp [need] at hn; omega)
        refine ⟨.obj kvs2, ?_, by simpa [jsonEq] using he, sameText_obj hst⟩
        simp only [dump, List.isEmpty_cons, Bool.false_eq_true, if_false, load]
        have : skipWs (cLBrace :: ((if ind.isEmpty then [] else [cNl]) ++ dumpObj ind (cur ++ ind) (kv :: kvs')
              ++ (if ind.isEmpty then [] else cur) ++ [cRBrace]) ++ rest)
            = cLBrace :: ((if ind.isEmpty then [] else [cNl]) ++ (dumpObj ind (cur ++ ind) (kv :: kvs')
              ++ ((if ind.isEmpty then [] else cur) ++ cRBrace :: rest))) := by
          simp [skipWs, isWs, cLBrace]
        rw [this]
        simp only [peek, List.drop_succ_cons, List.drop_zero]
        simp only [show isDigit cLBrace = false by decide, show (cLBrace = cMinus) = False by decide,
          Bool.false_or, decide_false, if_false, if_true, Bool.false_eq_true]
        simpa using hl
theorem rs_arrLoop : ∀ (xs : List Json), xs ≠ [] → RTL xs → ∀ (ind ni cur W rest : Bytes) (acc : List Json) (n : Nat),
    AllWs ind → AllWs ni → AllWs cur → AllWs W → needL xs ≤ n →
    ∃ xs', loadArrLoop n (W ++ (dumpArr ind ni xs ++ (cur ++ cRBrack :: rest))) acc = .ok (.arr (acc ++ xs'), rest)
      ∧ eqList xs xs' = true ∧ SameTextL xs xs'
  | [], h, _, _, _, _, _, _, _, _, _, _, _, _, _ => absurd rfl h
  | x :: xs, _, hRT, ind, ni, cur, W, rest, acc, n, hind, hni, hcur, hW, hn => by
    obtain ⟨hx, hxs⟩ := hRT
    match n, hn with
    | 0, hn => simp [needL] at hn
    | n + 1, hn =>
      simp only [needL] at hn
      obtain ⟨c, t, hd, hcw, hcb⟩ := dump_head x hx ind ni
      -- the text after the element
      cases xs with
      | nil =>
        have hdel := sepAfter_last_delim ind cur rest hcur
        obtain ⟨x', hx', hex, hsx⟩ := rs_val x hx ind ni _ n hind hni hdel (by omega)
        refine ⟨[x'], ?_, by simp [eqList, hex], sameTextL_single hsx⟩
        have hs0 : W ++ (dumpArr ind ni [x] ++ (cur ++ cRBrack :: rest))
            = (W ++ ni) ++ (dump ind ni x ++ (sepAfter ind true ++ (cur ++ cRBrack :: rest))) := by
          simp [dumpArr]
        rw [hs0]
        have hne : ((W ++ ni) ++ (dump ind ni x ++ (sepAfter ind true ++ (cur ++ cRBrack :: rest)))).isEmpty = false := by
          rw [hd]; simp
        have hsk : skipWs ((W ++ ni) ++ (dump ind ni x ++ (sepAfter ind true ++ (cur ++ cRBrack :: rest))))
            = dump ind ni x ++ (sepAfter ind true ++ (cur ++ cRBrack :: rest)) := by
          rw [skipWs_allWs_append _ _ (allWs_append hW hni), hd]
          exact skipWs_cons_nonws _ _ hcw
        have hpk : peek (dump ind ni x ++ (sepAfter ind true ++ (cur ++ cRBrack :: rest))) = c := by rw [hd]; rfl
        simp only [loadArrLoop, hne, hsk, hpk, hcb, hx', if_false, Bool.false_eq_true]
        -- after the element: optional newline, cur, then ']'
        have hws : AllWs (sepAfter ind true ++ cur) := by
          refine allWs_append ?_ hcur
          unfold sepAfter
          by_cases hi : ind.isEmpty = true
          · simp [hi]; exact allWs_nil
          · simp [hi]; intro c hc; simp at hc; subst hc; decide
        have hsk2 : skipWs (sepAfter ind true ++ (cur ++ cRBrack :: rest)) = cRBrack :: rest := by
          have : sepAfter ind true ++ (cur ++ cRBrack :: rest) = (sepAfter ind true ++ cur) ++ (cRBrack :: rest) := by simp
          rw [this, skipWs_allWs_append _ _ hws]
          exact skipWs_cons_nonws _ _ (by decide)
        rw [hsk2]
        simp [peek, cRBrack, cComma]
      | cons y ys =>
        obtain ⟨w, hw, hsep⟩ := sepAfter_more ind
        have hdel : Delim (sepAfter ind false ++ (dumpArr ind ni (y :: ys) ++ (cur ++ cRBrack :: rest))) := by
          rw [hsep]; exact delim_cons _ (by decide)
        obtain ⟨x', hx', hex, hsx⟩ := rs_val x hx ind ni _ n hind hni hdel (by omega)
        obtain ⟨xs2, hl2, he2, hs2⟩ := rs_arrLoop (y :: ys) (by simp) hxs ind ni cur [w] rest (acc ++ [x']) n hind hni hcur hw (by omega)
        refine ⟨x' :: xs2, ?_, by simp [eqList, hex, he2], sameTextL_cons hsx hs2⟩
        have hs0 : W ++ (dumpArr ind ni (x :: y :: ys) ++ (cur ++ cRBrack :: rest))
            = (W ++ ni) ++ (dump ind ni x ++ (sepAfter ind false ++ (dumpArr ind ni (y :: ys) ++ (cur ++ cRBrack :: rest)))) := by
          rw [dumpArr]; simp
        rw [hs0]
        have hne : ((W ++ ni) ++ (dump ind ni x ++ (sepAfter ind false ++ (dumpArr ind ni (y :: ys) ++ (cur ++ cRBrack :: rest))))).isEmpty = false := by
          rw [hd]; simp
        have hsk : skipWs ((W ++ ni) ++ (dump ind ni x ++ (sepAfter ind false ++ (dumpArr ind ni (y :: ys) ++ (cur ++ cRBrack :: rest)))))
            = dump ind ni x ++ (sepAfter ind false ++ (dumpArr ind ni (y :: ys) ++ (cur ++ cRBrack :: rest))) := by
          rw [skipWs_allWs_append _ _ (allWs_append hW hni), hd]
          exact skipWs_cons_nonws _ _ hcw
        have hpk : peek (dump ind ni x ++ (sepAfter ind false ++ (dumpArr ind ni (y :: ys) ++ (cur ++ cRBrack :: rest)))) = c := by rw [hd]; rfl
        simp only [loadArrLoop, hne, hsk, hpk, hcb, hx', if_false, Bool.false_eq_true]
        have hsk2 : skipWs (sepAfter ind false ++ (dumpArr ind ni (y :: ys) ++ (cur ++ cRBrack :: rest)))
            = cComma :: ([w] ++ (dumpArr ind ni (y :: ys) ++ (cur ++ cRBrack :: rest))) := by
          rw [hsep]; exact skipWs_cons_nonws _ _ (by decide)
        rw [hsk2]
        simp only [peek, if_true, List.drop_succ_cons, List.drop_zero, hl2]
        simp
theorem rs_objLoop : ∀ (kvs : Obj), kvs ≠ [] → RTO kvs → Sorted kvs →
    ∀ (ind ni tw W rest : Bytes) (acc : Obj) (n : Nat),
    AllWs ind → AllWs ni → AllWs tw → AllWs W → (∀ p ∈ acc, ∀ q ∈ kvs, p.1 < q.1) → needO kvs ≤ n →
    ∃ kvs', loadObjLoop n true (W ++ (dumpObj ind ni kvs ++ (tw ++ cRBrace :: rest))) acc = .ok (.obj (acc ++ kvs'), rest)
      ∧ eqObj kvs kvs' = true ∧ SameTextO kvs kvs'
  | [], h, _, _, _, _, _, _, _, _, _, _, _, _, _, _, _ => absurd rfl h
  | (k, v) :: r, _, hRT, hS, ind, ni, tw, W, rest, acc, n, hind, hni, htw, hW, hacc, hn => by
    obtain ⟨hk, hv, hr⟩ := hRT
    obtain ⟨hgt, hSr⟩ := hS
    match n, hn with
    | 0, hn => simp [needO] at hn
    | n + 1, hn =>
      simp only [needO] at hn
      have hvn : v.isNone = false := by
        cases v <;> first | rfl | exact absurd hv (by simp [RT])
      have hins : ∀ v', insert k v' acc = acc ++ [(k, v')] :=
        fun v' => insert_append v' (fun p hp => hacc p hp (k, v) (by simp))
      cases r with
      | nil =>
        have hdel : Delim (sepAfter ind true ++ (tw ++ cRBrace :: rest)) := by
          unfold sepAfter
          by_cases hi : ind.isEmpty = true
          · simp only [hi, if_true, List.nil_append]
            exact delim_ws_append htw rest (by decide)
          · simp only [hi, if_false, Bool.false_eq_true]
            exact delim_cons _ (by decide)
        obtain ⟨v', hv', hev, hsv⟩ := rs_val v hv ind ni _ n hind hni hdel (by omega)
        refine ⟨[(k, v')], ?_, by simp [eqObj, hev], sameTextO_single k hev hsv⟩
        have hs0 : W ++ (dumpObj ind ni [(k, v)] ++ (tw ++ cRBrace :: rest))
            = (W ++ ni) ++ (cQuote :: (escBytes k ++ cQuote :: (cColon :: cSp :: (dump ind ni v ++ (sepAfter ind true ++ (tw ++ cRBrace :: rest)))))) := by
          simp [dumpObj, hvn, dumpStr]
        rw [hs0]
        have hsk : skipWs ((W ++ ni) ++ (cQuote :: (escBytes k ++ cQuote :: (cColon :: cSp :: (dump ind ni v ++ (sepAfter ind true ++ (tw ++ cRBrace :: rest)))))))
            = cQuote :: (escBytes k ++ cQuote :: (cColon :: cSp :: (dump ind ni v ++ (sepAfter ind true ++ (tw ++ cRBrace :: rest))))) := by
          rw [skipWs_allWs_append _ _ (allWs_append hW hni)]
          exact skipWs_cons_nonws _ _ (by decide)
        have hkey := loadStr_escBytes k (cColon :: cSp :: (dump ind ni v ++ (sepAfter ind true ++ (tw ++ cRBrace :: rest)))) []
        simp only [List.nil_append] at hkey
        have hld : load n (cSp :: (dump ind ni v ++ (sepAfter ind true ++ (tw ++ cRBrace :: rest)))) = .ok (v', sepAfter ind true ++ (tw ++ cRBrace :: rest)) := by
          have := load_ws n [cSp] (dump ind ni v ++ (sepAfter ind true ++ (tw ++ cRBrace :: rest))) (by intro c hc; simp at hc; subst hc; decide)
          simpa [hv'] using this
        have hws : AllWs (sepAfter ind true ++ tw) := by
          refine allWs_append ?_ htw
          unfold sepAfter
          by_cases hi : ind.isEmpty = true
          · simp [hi]; exact allWs_nil
          · simp [hi]; intro c hc; simp at hc; subst hc; decide
        have hsk2 : skipWs (sepAfter ind true ++ (tw ++ cRBrace :: rest)) = cRBrace :: rest := by
          have : sepAfter ind true ++ (tw ++ cRBrace :: rest) = (sepAfter ind true ++ tw) ++ (cRBrace :: rest) := by simp
          rw [this, skipWs_allWs_append _ _ hws]
          exact skipWs_cons_nonws _ _ (by decide)
        have hkne : k.isEmpty = false := by cases k <;> simp_all
        have hne0 : ((W ++ ni) ++ (cQuote :: (escBytes k ++ cQuote :: (cColon :: cSp :: (dump ind ni v ++ (sepAfter ind true ++ (tw ++ cRBrace :: rest))))))).isEmpty = false := by simp
        simp only [loadObjLoop, hsk, hne0]
        simp only [Bool.false_eq_true, if_false, peek,
          show (cQuote = cRBrace) = False by decide, show (cQuote = (0 : UInt8)) = False by decide, decide_false,
          Bool.or_self, if_true, List.drop_succ_cons, List.drop_zero, hkey, hkne]
        simp only [show skipWs (cColon :: cSp :: (dump ind ni v ++ (sepAfter ind true ++ (tw ++ cRBrace :: rest))))
            = cColon :: cSp :: (dump ind ni v ++ (sepAfter ind true ++ (tw ++ cRBrace :: rest))) from skipWs_cons_nonws _ _ (by decide),
          peek, ne_eq, not_true_eq_false, if_false, List.drop_succ_cons, List.drop_zero, hld, hsk2, hins]
        simp [cRBrace, cComma]
      | cons q r' =>
        obtain ⟨w, hw, hsep⟩ := sepAfter_more ind
        have hdel : Delim (sepAfter ind false ++ (dumpObj ind ni (q :: r') ++ (tw ++ cRBrace :: rest))) := by
          rw [hsep]; exact delim_cons _ (by decide)
        obtain ⟨v', hv', hev, hsv⟩ := rs_val v hv ind ni _ n hind hni hdel (by omega)
        have hacc' : ∀ p ∈ acc ++ [(k, v')], ∀ q' ∈ q :: r', p.1 < q'.1 := by
          intro p hp q' hq'
          rcases List.mem_append.mp hp with hp | hp
          · exact hacc p hp q' (List.mem_cons_of_mem _ hq')
          · simp at hp; subst hp; exact hgt q' hq'
        obtain ⟨kvs2, hl2, he2, hs2⟩ := rs_objLoop (q :: r') (by simp) hr hSr ind ni tw [w] rest (acc ++ [(k, v')]) n
          hind hni htw hw hacc' (by omega)
        refine ⟨(k, v') :: kvs2, ?_, by simp [eqObj, hev, he2], sameTextO_cons k hev hsv hs2⟩
        have hs0 : W ++ (dumpObj ind ni ((k, v) :: q :: r') ++ (tw ++ cRBrace :: rest))
            = (W ++ ni) ++ (cQuote :: (escBytes k ++ cQuote :: (cColon :: cSp :: (dump ind ni v ++ (sepAfter ind false ++ (dumpObj ind ni (q :: r') ++ (tw ++ cRBrace :: rest))))))) := by
          rw [dumpObj]; simp [hvn, dumpStr]
        rw [hs0]
        have hsk : skipWs ((W ++ ni) ++ (cQuote :: (escBytes k ++ cQuote :: (cColon :: cSp :: (dump ind ni v ++ (sepAfter ind false ++ (dumpObj ind ni (q :: r') ++ (tw ++ cRBrace :: rest))))))))
            = cQuote :: (escBytes k ++ cQuote :: (cColon :: cSp :: (dump ind ni v ++ (sepAfter ind false ++ (dumpObj ind ni (q :: r') ++ (tw ++ cRBrace :: rest)))))) := by
          rw [skipWs_allWs_append _ _ (allWs_append hW hni)]
          exact skipWs_cons_nonws _ _ (by decide)
        have hkey := loadStr_escBytes k (cColon :: cSp :: (dump ind ni v ++ (sepAfter ind false ++ (dumpObj ind ni (q :: r') ++ (tw ++ cRBrace :: rest))))) []
        simp only [List.nil_append] at hkey
        have hld : load n (cSp :: (dump ind ni v ++ (sepAfter ind false ++ (dumpObj ind ni (q :: r') ++ (tw ++ cRBrace :: rest)))))
            = .ok (v', sepAfter ind false ++ (dumpObj ind ni (q :: r') ++ (tw ++ cRBrace :: rest))) := by
          have := load_ws n [cSp] (dump ind ni v ++ (sepAfter ind false ++ (dumpObj ind ni (q :: r') ++ (tw ++ cRBrace :: rest)))) (by intro c hc; simp at hc; subst hc; decide)
          simpa [hv'] using this
        have hsk2 : skipWs (sepAfter ind false ++ (dumpObj ind ni (q :: r') ++ (tw ++ cRBrace :: rest)))
            = cComma :: ([w] ++ (dumpObj ind ni (q :: r') ++ (tw ++ cRBrace :: rest))) := by
          rw [hsep]; exact skipWs_cons_nonws _ _ (by decide)
        have hkne : k.isEmpty = false := by cases k <;> simp_all
        have hne0 : ((W ++ ni) ++ (cQuote :: (escBytes k ++ cQuote :: (cColon :: cSp :: (dump ind ni v ++ (sepAfter ind false ++ (dumpObj ind ni (q :: r') ++ (tw ++ cRBrace :: rest)))))))).isEmpty = false := by simp
        simp only [loadObjLoop, hsk, hne0]
        simp only [Bool.false_eq_true, if_false, peek,
          show (cQuote = cRBrace) = False by decide, show (cQuote = (0 : UInt8)) = False by decide, decide_false,
          Bool.or_self, if_true, List.drop_succ_cons, List.drop_zero, hkey, hkne]
        simp only [show skipWs (cColon :: cSp :: (dump ind ni v ++ (sepAfter ind false ++ (dumpObj ind ni (q :: r') ++ (tw ++ cRBrace :: rest)))))
            = cColon :: cSp :: (dump ind ni v ++ (sepAfter ind false ++ (dumpObj ind ni (q :: r') ++ (tw ++ cRBrace :: rest)))) from skipWs_cons_nonws _ _ (by decide),
          peek, ne_eq, not_true_eq_false, if_false, List.drop_succ_cons, List.drop_zero, hld, hsk2, hins, if_true, hl2]
        simp
end


/-- parse after dump, with the same-text invariant -/
theorem parse_dump_same (v : Json) (hv : RT v) (hn : NoNul v) (ind : Bytes) (hi : AllWs ind) :
    ∃ v', parse (dump ind [] v) = .ok v' ∧ jsonEq v v' = true ∧ SameText v v' := by
  have hnn := noNul_dump v hv hn ind [] hi allWs_nil
  obtain ⟨v', hl, he, hs⟩ := rs_val v hv ind [] [] (parseFuel (dump ind [] v).length) hi allWs_nil (Or.inl rfl)
    (fuel_suffices v hv ind [])
  refine ⟨v', ?_, he, hs⟩
  simp only [List.append_nil] at hl
  unfold parse
  simp only [cstr_of_noNul hnn, hl]

end Occa.Json
