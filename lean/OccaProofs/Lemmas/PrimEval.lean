/-
The main induction of C14: the model of occa's evaluator agrees with the C++ semantics on every
well-typed integer/boolean expression (outside the three known deviations, `clean`).
-/
import OccaProofs.Lemmas.PrimSpec
import OccaProofs.Lemmas.PrimLit
namespace Occa.Prim.Lemmas
open Occa Occa.CExpr Occa.CxxSem Occa.Gen Occa.Prim

theorem Res.bind_val {r : Res} {f : Val → Res} {v : Val} (h : r.bind f = .val v) : ∃ a, r = .val a ∧ f a = .val v := by
  cases r <;> simp [Res.bind] at h
  exact ⟨_, rfl, h⟩

theorem toBool_ofVal {a : Val} (ha : Good a) : toBool (Prim.ofVal a) = .ok (truth a) := by
  unfold toBool
  rw [toT_ofVal ha.1.notFloat, truth_int ha.1.notFloat, cvt_int a ha.1.notFloat rfl]
  simp only [Outcome.bind, wrapTo_bool]
  congr 1
  by_cases h : a.v = 0 <;> simp [h]

theorem eval_bin_conv {op : BinOp} (h1 : op ≠ .land) (h2 : op ≠ .lor) (l r : Expr) :
    CxxSem.eval (.bin op l r) = (CxxSem.eval l).bind fun a => (CxxSem.eval r).bind fun b => binop op a b := by
  cases op <;> simp_all [CxxSem.eval]

theorem shortCircuit_on : shortCircuit = true := by decide

theorem eval_land_model {l r : Expr} {a : Val} (hl : Prim.eval l = .ok (Prim.ofVal a)) (ha : Good a) :
    Prim.eval (.bin .land l r) =
      if truth a then (Prim.eval r).bind (binary .land (Prim.ofVal a)) else .ok (Prim.ofVal (ofBool false)) := by
  have hs : (Prim.ofVal a).ty.isSome = true := rfl
  simp only [Prim.eval, hl, Outcome.bind, shortCircuit_on, hs, toBool_ofVal ha]
  cases truth a <;> simp

theorem eval_lor_model {l r : Expr} {a : Val} (hl : Prim.eval l = .ok (Prim.ofVal a)) (ha : Good a) :
    Prim.eval (.bin .lor l r) =
      if truth a then .ok (Prim.ofVal (ofBool true)) else (Prim.eval r).bind (binary .lor (Prim.ofVal a)) := by
  have hs : (Prim.ofVal a).ty.isSome = true := rfl
  simp only [Prim.eval, hl, Outcome.bind, shortCircuit_on, hs, toBool_ofVal ha]
  cases truth a <;> simp

theorem eval_bin_model {op : BinOp} (h1 : op ≠ .land) (h2 : op ≠ .lor) {l r : Expr} {pl : Prim}
    (hl : Prim.eval l = .ok pl) : Prim.eval (.bin op l r) = (Prim.eval r).bind (binary op pl) := by
  simp [Prim.eval, hl, Outcome.bind, h1, h2]

theorem bind_some {α β : Type} {o : Option α} {f : α → Option β} {b : β} (h : o.bind f = some b) :
    ∃ a, o = some a ∧ f a = some b := by
  cases o <;> simp at h
  exact ⟨_, rfl, h⟩

theorem binType_logic_rel {op : BinOp} (h : op = .land ∨ op = .lor) (a b : Ty) : binType op a b = some .bool := by
  rcases h with rfl | rfl <;> rfl

/-- The evaluator agrees with the C++ semantics on well-typed integer/boolean expressions (main induction). -/
theorem eval_agree (e : Expr) : integral e = true → clean e = true → ∀ τ, typeOf e = some τ →
    ∀ v, CxxSem.eval e = .val v → Prim.eval e = .ok (Prim.ofVal v) ∧ Good v ∧ v.ty = τ := by
  induction e with
  | lit l =>
    intro hi _ τ ht v h
    simp only [CxxSem.eval] at h
    obtain ⟨h1, h2⟩ := lit_agree hi h
    refine ⟨by simp [Prim.eval, h1], h2, ?_⟩
    simpa [typeOf, litType, h] using ht
  | paren e ih =>
    intro hi hc τ ht v h
    simp only [integral, clean, CxxSem.eval, typeOf] at hi hc h ht
    simpa [Prim.eval] using ih hi hc τ ht v h
  | un op e ih =>
    intro hi hc τ ht v h
    simp only [integral, clean, CxxSem.eval, Bool.and_eq_true, typeOf] at hi hc h ht
    obtain ⟨te, hte, hτ⟩ := bind_some ht
    obtain ⟨a, ha, hv⟩ := Res.bind_val h
    obtain ⟨i1, i2, i3⟩ := ih hi hc.1 te hte a ha
    have hb : ¬ (op = .bnot ∧ a.ty = .bool) := by
      intro ⟨e1, e2⟩
      have := hc.2
      simp [e1, hte, ← i3, e2] at this
    refine ⟨?_, unop_good i2 hv, ?_⟩
    · simp [Prim.eval, i1, Outcome.bind, unary_agree i2 hb hv]
    · have := unop_ty i2 hv
      rw [i3, hτ] at this; exact (Option.some.inj this).symm
  | bin op l r ihl ihr =>
    intro hi hc τ ht v h
    simp only [integral, clean, Bool.and_eq_true, typeOf] at hi hc ht
    obtain ⟨tl, htl, ht⟩ := bind_some ht
    obtain ⟨tr, htr, hτ⟩ := bind_some ht
    by_cases hland : op = .land
    · subst hland
      simp only [CxxSem.eval] at h
      obtain ⟨a, ha, hv⟩ := Res.bind_val h
      obtain ⟨i1, i2, i3⟩ := ihl hi.1 hc.1.1 tl htl a ha
      have hτ' : τ = .bool := by simpa [binType] using hτ.symm
      rw [eval_land_model i1 i2]
      cases hta : truth a
      · simp [hta] at hv; subst hv
        exact ⟨by simp, good_ofBool _, by simp [ofBool, hτ']⟩
      · simp only [hta, if_true] at hv ⊢
        obtain ⟨b, hb, hv⟩ := Res.bind_val hv
        obtain ⟨j1, j2, j3⟩ := ihr hi.2 hc.1.2 tr htr b hb
        cases hv
        exact ⟨by simp [j1, Outcome.bind, binary_land i2 j2, hta], good_ofBool _, by simp [ofBool, hτ']⟩
    by_cases hlor : op = .lor
    · subst hlor
      simp only [CxxSem.eval] at h
      obtain ⟨a, ha, hv⟩ := Res.bind_val h
      obtain ⟨i1, i2, i3⟩ := ihl hi.1 hc.1.1 tl htl a ha
      have hτ' : τ = .bool := by simpa [binType] using hτ.symm
      rw [eval_lor_model i1 i2]
      cases hta : truth a
      · simp only [hta] at hv ⊢
        obtain ⟨b, hb, hv⟩ := Res.bind_val hv
        obtain ⟨j1, j2, j3⟩ := ihr hi.2 hc.1.2 tr htr b hb
        cases hv
        exact ⟨by simp [j1, Outcome.bind, binary_lor i2 j2, hta], good_ofBool _, by simp [ofBool, hτ']⟩
      · simp [hta] at hv; subst hv
        exact ⟨by simp, good_ofBool _, by simp [ofBool, hτ']⟩
    · rw [eval_bin_conv hland hlor] at h
      obtain ⟨a, ha, hv⟩ := Res.bind_val h
      obtain ⟨b, hb, hv⟩ := Res.bind_val hv
      obtain ⟨i1, i2, i3⟩ := ihl hi.1 hc.1.1 tl htl a ha
      obtain ⟨j1, j2, j3⟩ := ihr hi.2 hc.1.2 tr htr b hb
      have hty := binop_ty i2 j2 hv
      rw [i3, j3, hτ] at hty
      refine ⟨?_, binop_good i2 j2 hv, (Option.some.inj hty).symm⟩
      rw [eval_bin_model hland hlor i1, j1]
      simp only [Outcome.bind]
      by_cases hconv : BinOp.isConv op = true
      · apply binary_conv hconv i2 j2 _ hv
        intro ⟨e1, e2, e3⟩
        have := hc.2
        cases op <;> simp_all [BinOp.isBit]
      · have hsh : op = .shl ∨ op = .shr := by cases op <;> simp_all [BinOp.isConv]
        exact binary_shift hsh i2 j2 hv
  | tern c t f ihc iht ihf =>
    intro hi hc τ ht v h
    simp only [integral, clean, Bool.and_eq_true, typeOf, CxxSem.eval] at hi hc ht h
    obtain ⟨tc, htc, ht⟩ := bind_some ht
    obtain ⟨ta, hta, ht⟩ := bind_some ht
    obtain ⟨tb, htb, hτ⟩ := bind_some ht
    obtain ⟨a, ha, hv⟩ := Res.bind_val h
    obtain ⟨i1, i2, _⟩ := ihc hi.1.1 hc.1.1.1 tc htc a ha
    have hsame : ta = tb := by
      have := hc.2
      simpa [hta, htb] using this
    subst hsame
    simp only [hta, htb] at hv
    have hcond : condType ta ta = ta := by simp [condType]
    rw [hcond] at hv hτ
    have hτ' : τ = ta := by simpa using hτ.symm
    have hm : Prim.eval (.tern c t f) = if truth a then Prim.eval t else Prim.eval f := by
      simp only [Prim.eval, i1, Outcome.bind, toBool_ofVal i2]
    rw [hm]
    cases htr : truth a
    · simp only [htr] at hv ⊢
      obtain ⟨x, hx, hv⟩ := Res.bind_val hv
      obtain ⟨j1, j2, j3⟩ := ihf hi.2 hc.1.2 ta htb x hx
      cases hv
      rw [← j3, cvt_self j2]
      exact ⟨by simpa using j1, j2, by rw [hτ', j3]⟩
    · simp only [htr, if_true] at hv ⊢
      obtain ⟨x, hx, hv⟩ := Res.bind_val hv
      obtain ⟨j1, j2, j3⟩ := iht hi.1.2 hc.1.1.2 ta hta x hx
      cases hv
      rw [← j3, cvt_self j2]
      exact ⟨by simpa using j1, j2, by rw [hτ', j3]⟩

end Occa.Prim.Lemmas
