/-
The creating calls: a new kernel / stream / memory pool of a device (pattern A).
-/
import OccaProofs.Lemmas.GcOps1

namespace Occa.Gc

theorem alloc_fields (s : St) (K : Kind) (p : Option Nat) (sz : Nat) :
    let s' := (s.alloc K p sz).1
    s'.next = s.next + 1 ∧ s'.ptr = s.ptr ∧ s'.vlive = s.vlive ∧ s'.trap = s.trap
    ∧ (∀ x, s'.alive x = if x = s.next then true else s.alive x)
    ∧ (∀ x, s'.kind x = if x = s.next then K else s.kind x)
    ∧ (∀ x, s'.par x = if x = s.next then p else s.par x)
    ∧ (∀ x, s'.ring x = if x = s.next then [] else s.ring x)
    ∧ (∀ x, s'.kids x = if x = s.next then [] else s.kids x)
    ∧ (∀ x, s'.useRefs x = if x = s.next then true else s.useRefs x)
    ∧ (∀ x, s'.inner x = if x = s.next then none else s.inner x) :=
  ⟨rfl, rfl, rfl, rfl, fun _ => rfl, fun _ => rfl, fun _ => rfl, fun _ => rfl, fun _ => rfl, fun _ => rfl,
    fun _ => rfl⟩

/-- positive clauses of the invariant for all objects, assembled from the old objects (`Grow.pos`)
    and the new ones -/
theorem pos_all {s s' : St} (hi : InvX E s) (hg : Grow s s') (h00 : Inv00 E s')
    (hnew_ch : ∀ c, s.next ≤ c → s'.alive c = true → s'.kind c ≠ .dev → s'.kind c ≠ .mem →
      ∃ d, s'.par c = some d ∧ s'.alive d = true ∧ s'.kind d = .dev
        ∧ (c ∈ s'.chGet (s'.kind c) d ∨ (s'.kind c = .buf ∧ ∃ p, s'.alive p = true ∧ s'.inner p = some c)))
    (hnew_mem : ∀ m, s.next ≤ m → s'.alive m = true → s'.kind m = .mem → ∃ b, s'.par m = some b ∧ m ∈ s'.kids b)
    (hnew_buf : ∀ b, s.next ≤ b → s'.alive b = true → s'.kind b = .buf →
        (s'.kids b ≠ [] ∨ ∃ p, s'.alive p = true ∧ s'.inner p = some b)) :
    Inv0 E s'
      ∧ (∀ x, x < s.next → s'.alive x = true → s'.kind x ≠ .buf → s'.useRefs x = true → s'.ring x ≠ [])
      ∧ (∀ b, s'.alive b = true → s'.kind b = .buf →
          (s'.kids b ≠ [] ∨ ∃ p, s'.alive p = true ∧ s'.inner p = some b)) := by
  obtain ⟨p1, p2, p3, p4⟩ := hg.pos hi
  refine ⟨⟨h00, ?_, ?_⟩, p3, ?_⟩
  · intro c hca hk1 hk2
    by_cases hc : c < s.next
    · exact p1 c hc hca hk1 hk2
    · exact hnew_ch c (by omega) hca hk1 hk2
  · intro m hma hmk
    by_cases hm : m < s.next
    · exact p2 m hm hma hmk
    · exact hnew_mem m (by omega) hma hmk
  · intro b hba hbk
    by_cases hb : b < s.next
    · exact p4 b hb hba hbk
    · exact hnew_buf b (by omega) hba hbk

/-- pattern A: `new X(modeDevice, ...)` for a kernel, stream or pool, registered in the device's ring
    and returned through a temporary handle -/
theorem InvX.new_child {s : St} (hi : InvX E s) {K ks : Kind} {hk : HKind} {dv : Nat}
    (hK1 : K ≠ .dev) (hK2 : K ≠ .mem) (hK3 : K ≠ .buf) (hslot : slot K = slot ks) (hhk : hk.obj = K)
    (hda : s.alive dv = true) (hdk : s.kind dv = .dev) (htl : s.vlive (.tmp hk) = false) (sz : Nat) :
    let sA := (s.alloc K (some dv) sz).1
    let sL := sA.chSet ks dv (Ring.add (sA.chGet ks dv) s.next)
    InvX E (tempOf sL hk s.next) ∧ TempOut sL (tempOf sL hk s.next) hk s.next ∧ Grow s sL
      ∧ sL.next = s.next + 1 ∧ sL.vlive = s.vlive ∧ sL.ptr = s.ptr
      ∧ (∀ x, sL.alive x = if x = s.next then true else s.alive x)
      ∧ (∀ x, sL.kind x = if x = s.next then K else s.kind x) := by
  intro sA sL
  obtain ⟨a1, a2, a3, a4, a5, a6, a7, a8, a9, a10, a11⟩ := alloc_fields s K (some dv) sz
  obtain ⟨f1, f2, f3, f4, f5, f6, f7, f8⟩ := hi.toInv00.fresh (Nat.le_refl s.next)
  obtain ⟨c1, c2, c3, c4, c5, c6, c7, c8, c9, c10, c11, c12⟩ := chSet_fields sA ks dv (Ring.add (sA.chGet ks dv) s.next)
  have hdn : dv ≠ s.next := by intro h; rw [h, f1] at hda; cases hda
  have hA : Inv00 E sA := hi.toInv00.alloc_only K (some dv) sz
  have hAa : sA.alive s.next = true := by rw [a5]; simp
  have hAk : sA.kind s.next = K := by rw [a6]; simp
  have hL : Inv00 E sL := by
    apply hA.link_ch hAa (by rw [a7]; simp) (by rw [a5]; simp [hdn, hda]) (by rw [a6]; simp [hdn, hdk])
      (by rw [hAk]; exact hslot) (by rw [hAk]; exact hK1) (by rw [hAk]; exact hK2)
    intro p hpa hin
    rw [a11] at hin
    rw [a5] at hpa
    split at hin
    · cases hin
    · rename_i hp
      simp only [hp, if_false] at hpa
      exact f8 p hpa hin
  have hLchN : s.next ∈ sL.chGet ks dv := by
    show s.next ∈ (sA.chSet ks dv (Ring.add (sA.chGet ks dv) s.next)).chGet ks dv
    rw [chGet_chSet]
    simp only [and_self, if_true]
    exact (Ring.mem_add _ _).mpr (Or.inr rfl)
  have hg : Grow s sL := by
    have ne : ∀ x, x < s.next → x ≠ s.next := fun x hx => by omega
    refine ⟨?_, ?_, ?_, ?_, ?_, ?_, ?_, ?_⟩
    · intro x hx; rw [c3, a5]; simp [ne x hx]
    · intro x hx; rw [c2, a6]; simp [ne x hx]
    · intro x hx; rw [c7, a7]; simp [ne x hx]
    · intro x hx; rw [c6, a8]; simp [ne x hx]
    · intro x hx; rw [c5, a10]; simp [ne x hx]
    · intro x i hx hin; rw [c9, a11]; simp [ne x hx, hin]
    · intro b x hx
      rw [c8, a9]
      have : b ≠ s.next := by intro h; rw [h, f3] at hx; simp at hx
      simp [this, hx]
    · intro k d x hx
      have hd : d ≠ s.next := by intro h; rw [h, f4 k] at hx; simp at hx
      show x ∈ (sA.chSet ks dv (Ring.add (sA.chGet ks dv) s.next)).chGet k d
      rw [chGet_chSet]
      split
      · rename_i h
        apply (Ring.mem_add _ _).mpr
        left
        rw [alloc_chGet]
        simp only [hdn, if_false]
        rw [chGet_slot s ks, ← h.1, ← chGet_slot, ← h.2]
        exact hx
      · rw [alloc_chGet]; simp only [hd, if_false]; exact hx
  have hLalive : ∀ x, sL.alive x = if x = s.next then true else s.alive x := by
    intro x; rw [c3, a5]
  have hLkind : ∀ x, sL.kind x = if x = s.next then K else s.kind x := by
    intro x; rw [c2, a6]
  have honly : ∀ c, s.next ≤ c → sL.alive c = true → c = s.next := by
    intro c hc hca
    have := hL.alive_lt c hca
    rw [c1, a1] at this
    omega
  obtain ⟨h0L, hrn, hbn⟩ := pos_all hi hg hL
    (by
      intro c hc hca _ _
      have := honly c hc hca
      subst this
      refine ⟨dv, by rw [c7, a7]; simp, by rw [hLalive]; simp [hdn, hda], by rw [hLkind]; simp [hdn, hdk], Or.inl ?_⟩
      rw [hLkind]
      simp only [if_true]
      rw [chGet_slot, hslot, ← chGet_slot]
      exact hLchN)
    (by
      intro m hm hma hmk
      have := honly m hm hma
      subst this
      rw [hLkind] at hmk
      simp only [if_true] at hmk
      exact absurd hmk hK2)
    (by
      intro b hb hba hbk
      have := honly b hb hba
      subst this
      rw [hLkind] at hbk
      simp only [if_true] at hbk
      exact absurd hbk hK3)
  have hrn' : ∀ x, x ≠ s.next → sL.alive x = true → sL.kind x ≠ .buf → sL.useRefs x = true → sL.ring x ≠ [] := by
    intro x hx hxa hxk hxu
    have hlt : x < s.next := by
      have := hL.alive_lt x hxa
      rw [c1, a1] at this
      omega
    exact hrn x hlt hxa hxk hxu
  obtain ⟨r1, r2⟩ := attach_new (hk := hk) (o := s.next) h0L hrn' hbn (by rw [hLalive]; simp)
    (by rw [hLkind]; simp [hhk]) (by rw [c11, a3]; exact htl)
  exact ⟨r1, r2, hg, by rw [c1, a1], by rw [c11, a3], by rw [c10, a2], hLalive, hLkind⟩

end Occa.Gc
