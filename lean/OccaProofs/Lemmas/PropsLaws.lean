/-
Lemmas for C26: the layering functions of src/core/device.cpp on dictionary-like values
(`none` or an ordered object), member by member.
-/
import OccaModel.Props
import OccaProofs.Lemmas.JsonPathLaws
import OccaProofs.Lemmas.JsonSplit

namespace Occa.Json

/-- undefined, or an object ordered like std::map -/
def DictLike (j : Json) : Prop := j = .none ∨ ∃ kvs, j = .obj kvs ∧ Sorted kvs

/-- the member `k` of a value (undefined for anything that is not an object) -/
def memberOf (j : Json) (k : Bytes) : Option Json :=
  match j with
  | .obj kvs => lookup k kvs
  | _ => Option.none

/-- one layer over another, for one member: the upper layer wins, except that objects present in both
    layers are merged recursively (`mergeVal`) -/
def over (lower upper : Option Json) : Option Json :=
  match upper with
  | Option.none => lower
  | some vb => some (mergeVal lower vb)

theorem over_none_right (x : Option Json) : over x Option.none = x := rfl

theorem over_none_left (y : Option Json) : over Option.none y = y := by
  cases y with
  | none => rfl
  | some v => simp [over, mergeVal_none]

/-- an upper layer whose member is not an object decides the result -/
theorem over_leaf (x : Option Json) (v : Json) (h : v.isObj = false) : over x (some v) = some v := by
  simp [over, mergeVal_nonobj x v h]

theorem dictLike_none : DictLike .none := Or.inl rfl
theorem dictLike_obj {kvs : Obj} (h : Sorted kvs) : DictLike (.obj kvs) := Or.inr ⟨kvs, rfl, h⟩

theorem memberOf_none (k : Bytes) : memberOf .none k = Option.none := rfl

/-- `a + b` on dictionary-like values -/
theorem add_dict (a b : Json) (ha : DictLike a) (hb : DictLike b) :
    ∃ r, add a b = .ok r ∧ DictLike r ∧ (∀ k, memberOf r k = over (memberOf a k) (memberOf b k))
      ∧ (a.isObj = true ∨ b.isObj = true → r.isObj = true) := by
  rcases hb with hb | ⟨bk, hb, hbs⟩
  · subst hb
    refine ⟨a, by cases a <;> rfl, ha, fun k => rfl, ?_⟩
    intro h; rcases h with h | h
    · exact h
    · simp [Json.isObj] at h
  · subst hb
    rcases ha with ha | ⟨ak, ha, has⟩
    · subst ha
      refine ⟨.obj bk, ?_, dictLike_obj hbs, ?_, fun _ => rfl⟩
      · simp only [add]; rw [mergeObj_empty bk hbs]
      · intro k; simp [memberOf, over_none_left]
    · subst ha
      refine ⟨.obj (mergeObj ak bk), rfl, dictLike_obj (sorted_mergeObj bk ak has), ?_, fun _ => rfl⟩
      intro k
      simp only [memberOf, over]
      exact lookup_mergeObj bk ak hbs k

/-- `j.remove(key)` for a single key on a dictionary-like value -/
theorem remove1_dict (m : Bytes) (j : Json) (hj : DictLike j) :
    DictLike (removeK [m] j) ∧ (∀ k, memberOf (removeK [m] j) k = if k = m then Option.none else memberOf j k)
      ∧ (removeK [m] j).isObj = j.isObj := by
  rcases hj with hj | ⟨kvs, hj, hs⟩
  · subst hj
    exact ⟨dictLike_none, fun k => by simp [removeK, memberOf], rfl⟩
  · subst hj
    rw [removeK_single]
    refine ⟨dictLike_obj (sorted_erase m hs), ?_, rfl⟩
    intro k
    simp only [memberOf]
    by_cases hk : k = m
    · subst hk; simp [lookup_erase_self k hs]
    · simp [hk, lookup_erase_ne hk]

/-- `j.remove("a/b")` on a dictionary-like value: members other than `a` are untouched, the member `a`
    loses its own member `b` -/
theorem remove2_dict (a b : Bytes) (j : Json) (hj : DictLike j) :
    DictLike (removeK [a, b] j)
      ∧ (∀ k, memberOf (removeK [a, b] j) k = if k = a then (memberOf j a).map (removeK [b]) else memberOf j k)
      ∧ (removeK [a, b] j).isObj = j.isObj := by
  rcases hj with hj | ⟨kvs, hj, hs⟩
  · subst hj
    refine ⟨dictLike_none, fun k => ?_, rfl⟩
    by_cases hk : k = a <;> simp [hk, removeK, memberOf]
  · subst hj
    rw [removeK_cons2]
    cases hl : lookup a kvs with
    | none =>
      refine ⟨dictLike_obj hs, fun k => ?_, rfl⟩
      by_cases hk : k = a
      · subst hk; simp [memberOf, hl]
      · simp [hk]
    | some v =>
      refine ⟨dictLike_obj (sorted_insert _ _ hs), ?_, rfl⟩
      intro k
      simp only [memberOf]
      by_cases hk : k = a
      · subst hk; simp [lookup_insert_self, hl]
      · simp [hk, lookup_insert_ne hk]

/-- `j[key] = v` (single key) on a dictionary-like value -/
theorem write1_dict (m : Bytes) (v j : Json) (hj : DictLike j) :
    ∃ kvs, write [m] v j = .ok (.obj kvs) ∧ Sorted kvs
      ∧ (∀ k, lookup k kvs = if k = m then some v else memberOf j k) := by
  rcases hj with hj | ⟨kvs, hj, hs⟩
  · subst hj
    refine ⟨[(m, v)], by rfl, ⟨fun p hp => by simp at hp, trivial⟩, ?_⟩
    intro k
    by_cases hk : k = m
    · subst hk; simp [lookup]
    · simp [lookup, hk, memberOf]
  · subst hj
    refine ⟨insert m v kvs, ?_, sorted_insert _ _ hs, ?_⟩
    · unfold write touchWith
      simp only [Json.isNone, Bool.false_eq_true, if_false]
      rw [touchGo_cons_obj, touchGo_nil]
    · intro k
      by_cases hk : k = m
      · subst hk; simp [lookup_insert_self]
      · simp [hk, lookup_insert_ne hk, memberOf]

theorem plain_sModes : PlainKey sModes := by
  refine ⟨by decide, ?_⟩
  intro c hc
  simp [sModes] at hc
  rcases hc with hc | hc | hc | hc | hc <;> subst hc <;> decide

theorem plain_sMode : PlainKey sMode := by
  refine ⟨by decide, ?_⟩
  intro c hc
  simp [sMode] at hc
  rcases hc with hc | hc | hc | hc <;> subst hc <;> decide

theorem splitPath1 (a : Bytes) (ha : PlainKey a) : splitPath a = [a] := by
  have := splitPath_join [a] (by intro k hk; simp at hk; subst hk; exact ha)
  simpa [joinPath] using this

theorem splitPath2 (a b : Bytes) (ha : PlainKey a) (hb : PlainKey b) : splitPath (a ++ [cSlash] ++ b) = [a, b] := by
  have := splitPath_join [a, b] (by intro k hk; simp at hk; rcases hk with hk | hk <;> subst hk <;> assumption)
  simpa [joinPath] using this

theorem splitPath3 (a b c : Bytes) (ha : PlainKey a) (hb : PlainKey b) (hc : PlainKey c) :
    splitPath (a ++ [cSlash] ++ b ++ [cSlash] ++ c) = [a, b, c] := by
  have := splitPath_join [a, b, c] (by
    intro k hk; simp at hk; rcases hk with hk | hk | hk <;> subst hk <;> assumption)
  simpa [joinPath] using this

/-- the three places `getObjectSpecificProps` reads for one object -/
def layer1 (object : Bytes) (props : Json) : Json := readK [object] props
def layer2 (mode object : Bytes) (props : Json) : Json := readK [object, sModes, mode] props
def layer3 (mode object : Bytes) (props : Json) : Json := readK [sModes, mode, object] props

/-- the member `k` of the three layers of one property tree, lowest priority first.  (The C++ also calls
    `remove(object + "/modes")` on the merged value: a member that happens to be named like the object
    itself loses its own "modes" member.) -/
def objMember (mode object : Bytes) (props : Json) (k : Bytes) : Option Json :=
  let m := over (over (memberOf (layer1 object props) k) (memberOf (layer2 mode object props) k))
    (memberOf (layer3 mode object props) k)
  if k = object then m.map (removeK [sModes]) else m

theorem modeSpecific_dict (mode : Bytes) (props : Json) (hm : PlainKey mode) (hp : DictLike props)
    (hM : DictLike (readK [sModes, mode] props)) :
    ∃ r, modeSpecific mode props = .ok r ∧ DictLike r ∧ (props.isObj = true → r.isObj = true)
      ∧ ∀ k, memberOf r k = if k = sModes then Option.none
          else over (memberOf props k) (memberOf (readK [sModes, mode] props) k) := by
  obtain ⟨all, hadd, hd, hmem, hobj⟩ := add_dict props (readK [sModes, mode] props) hp hM
  obtain ⟨hd2, hmem2, hobj2⟩ := remove1_dict sModes all hd
  refine ⟨removeK [sModes] all, ?_, hd2, ?_, ?_⟩
  · unfold modeSpecific readP removeP
    rw [splitPath2 sModes mode plain_sModes hm, hadd, splitPath1 sModes plain_sModes]
  · intro h; rw [hobj2]; exact hobj (Or.inl h)
  · intro k
    rw [hmem2 k, hmem k]

theorem objectSpecific_dict (mode object : Bytes) (props : Json) (hm : PlainKey mode) (ho : PlainKey object)
    (h1 : DictLike (layer1 object props)) (h2 : DictLike (layer2 mode object props))
    (h3 : DictLike (layer3 mode object props)) :
    ∃ r, objectSpecific mode object props = .ok r ∧ DictLike r
      ∧ ∀ k, memberOf r k = if k = sModes then Option.none else objMember mode object props k := by
  obtain ⟨ab, hab, hdab, hmab, _⟩ := add_dict _ _ h1 h2
  obtain ⟨abc, habc, hdabc, hmabc, _⟩ := add_dict _ _ hdab h3
  obtain ⟨hdr, hmr, _⟩ := remove2_dict object sModes abc hdabc
  obtain ⟨hdr2, hmr2, _⟩ := remove1_dict sModes _ hdr
  refine ⟨removeK [sModes] (removeK [object, sModes] abc), ?_, hdr2, ?_⟩
  · unfold objectSpecific readP removeP add3
    rw [splitPath1 object ho, splitPath3 object sModes mode ho plain_sModes hm,
      splitPath3 sModes mode object plain_sModes hm ho, splitPath2 object sModes ho plain_sModes,
      splitPath1 sModes plain_sModes]
    unfold layer1 at hab
    unfold layer2 at hab
    unfold layer3 at habc
    rw [hab]
    simp only [habc]
  · intro k
    rw [hmr2 k]
    by_cases hks : k = sModes
    · simp [hks]
    · simp only [hks, if_false]
      rw [hmr k]
      unfold objMember
      by_cases hko : k = object
      · subst hko; simp only [if_true]; rw [hmabc k, hmab k]
      · simp only [hko, if_false]; rw [hmabc k, hmab k]

/-- initialObjectProps: settings layers below user layers, then `mode` is set -/
theorem initialObject_dict (settings props : Json) (mode object : Bytes) (hm : PlainKey mode) (ho : PlainKey object)
    (s1 : DictLike (layer1 object settings)) (s2 : DictLike (layer2 mode object settings))
    (s3 : DictLike (layer3 mode object settings))
    (u1 : DictLike (layer1 object props)) (u2 : DictLike (layer2 mode object props))
    (u3 : DictLike (layer3 mode object props)) :
    ∃ kvs, initialObject settings mode object props = .ok (.obj kvs) ∧ Sorted kvs
      ∧ ∀ k, lookup k kvs =
          if k = sMode then some (.str mode)
          else if k = sModes then Option.none
          else over (objMember mode object settings k) (objMember mode object props k) := by
  obtain ⟨s, hs, hds, hms⟩ := objectSpecific_dict mode object settings hm ho s1 s2 s3
  obtain ⟨u, hu, hdu, hmu⟩ := objectSpecific_dict mode object props hm ho u1 u2 u3
  obtain ⟨su, hsu, hdsu, hmsu, _⟩ := add_dict s u hds hdu
  obtain ⟨kvs, hw, hsorted, hl⟩ := write1_dict sMode (.str mode) su hdsu
  refine ⟨kvs, ?_, hsorted, ?_⟩
  · unfold initialObject
    rw [hs, hu]
    simp only [hsu, hw]
  · intro k
    rw [hl k]
    by_cases hkm : k = sMode
    · simp [hkm]
    · simp only [hkm, if_false]
      rw [hmsu k, hms k, hmu k]
      by_cases hks : k = sModes
      · simp [hks, over]
      · simp [hks]

/-- per call: stored properties below `getModeSpecificProps(mode, extra)` -/
theorem perCall_dict (mode : Bytes) (stored extra : Json) (hm : PlainKey mode) (hs : DictLike stored)
    (he : DictLike extra) (hM : DictLike (readK [sModes, mode] extra)) :
    ∃ r, (do let m ← modeSpecific mode extra; add stored m) = .ok r ∧ DictLike r
      ∧ ∀ k, memberOf r k = over (memberOf stored k)
          (if k = sModes then Option.none else over (memberOf extra k) (memberOf (readK [sModes, mode] extra) k)) := by
  obtain ⟨m, hms, hdm, _, hmm⟩ := modeSpecific_dict mode extra hm he hM
  obtain ⟨r, hr, hdr, hmr, _⟩ := add_dict stored m hs hdm
  refine ⟨r, ?_, hdr, ?_⟩
  · rw [hms]; exact hr
  · intro k; rw [hmr k, hmm k]


/-! ### entries of other modes are inert -/

theorem dict_obj_shape {r : Json} (hd : DictLike r) (ho : r.isObj = true) : ∃ kvs, r = .obj kvs ∧ Sorted kvs := by
  rcases hd with hd | hd
  · subst hd; simp [Json.isObj] at ho
  · exact hd

theorem write_obj_shape (k : Bytes) (ks : List Bytes) (v : Json) (P : Obj) (j' : Json)
    (h : write (k :: ks) v (.obj P) = .ok j') :
    ∃ c, j' = .obj (insert k c P) ∧ touchGo (fun _ => v) ks (stepChild k P) (stepEx k P true) = .ok c := by
  unfold write at h
  rw [touchWith_root] at h
  simp only [Json.isNone, Bool.false_eq_true, if_false, Bool.not_false] at h
  rw [touchGo_cons_obj] at h
  cases hc : touchGo (fun _ => v) ks (stepChild k P) (stepEx k P true) with
  | error e => rw [hc] at h; cases h
  | ok c => rw [hc] at h; injection h with h; exact ⟨c, h.symm, rfl⟩

theorem not_prefix_2_2 {a b c d : Bytes} (h : b ≠ d) : ¬ [a, b] <+: [c, d] := by
  intro hp
  obtain ⟨_, hp⟩ := List.cons_prefix_cons.mp hp
  obtain ⟨hbd, _⟩ := List.cons_prefix_cons.mp hp
  exact h hbd

/-- getModeSpecificProps ignores what is stored for another mode -/
theorem modeSpecific_inert (mode m' : Bytes) (x : Json) (P : Obj) (j' : Json) (hP : Sorted P)
    (hm : PlainKey mode) (hne : m' ≠ mode) (hw : write [sModes, m'] x (.obj P) = .ok j')
    (hM : DictLike (readK [sModes, mode] (.obj P))) :
    modeSpecific mode j' = modeSpecific mode (.obj P) := by
  obtain ⟨c, hj', _⟩ := write_obj_shape sModes [m'] x P j' hw
  have hfr : readK [sModes, mode] j' = readK [sModes, mode] (.obj P) :=
    frame_touchWith _ [sModes, m'] [sModes, mode] (.obj P) j' hw (not_prefix_2_2 hne) (not_prefix_2_2 (Ne.symm hne))
  have hP' : Sorted (insert sModes c P) := sorted_insert _ _ hP
  obtain ⟨r, hr, hdr, hor, hmr⟩ := modeSpecific_dict mode (.obj P) hm (dictLike_obj hP) hM
  obtain ⟨r', hr', hdr', hor', hmr'⟩ := modeSpecific_dict mode j' hm (by rw [hj']; exact dictLike_obj hP') (by rw [hfr]; exact hM)
  obtain ⟨kvs, hk, hs⟩ := dict_obj_shape hdr (hor rfl)
  obtain ⟨kvs', hk', hs'⟩ := dict_obj_shape hdr' (hor' (by rw [hj']; rfl))
  rw [hr, hr', hk, hk']
  congr 2
  apply sorted_ext hs' hs
  intro k
  have h1 := hmr k
  have h2 := hmr' k
  rw [hk] at h1
  rw [hk'] at h2
  simp only [memberOf] at h1 h2
  rw [h1, h2, hfr]
  by_cases hks : k = sModes
  · simp [hks]
  · simp only [hks, if_false]
    rw [hj']
    simp only [memberOf]
    rw [lookup_insert_ne hks]

/-- getObjectSpecificProps ignores what is stored under `modes/<other mode>` -/
theorem objectSpecific_inert_top (mode m' object : Bytes) (x j j' : Json) (hm : PlainKey mode) (ho : PlainKey object)
    (hos : object ≠ sModes) (hne : m' ≠ mode) (hw : write [sModes, m'] x j = .ok j') :
    objectSpecific mode object j' = objectSpecific mode object j := by
  have f1 : readK [object] j' = readK [object] j :=
    frame_touchWith _ [sModes, m'] [object] j j' hw
      (fun hp => by have := List.IsPrefix.length_le hp; simp at this)
      (fun hp => hos (List.cons_prefix_cons.mp hp).1)
  have f2 : readK [object, sModes, mode] j' = readK [object, sModes, mode] j :=
    frame_touchWith _ [sModes, m'] [object, sModes, mode] j j' hw
      (fun hp => hos (List.cons_prefix_cons.mp hp).1.symm)
      (fun hp => hos (List.cons_prefix_cons.mp hp).1)
  have f3 : readK [sModes, mode, object] j' = readK [sModes, mode, object] j :=
    frame_touchWith _ [sModes, m'] [sModes, mode, object] j j' hw
      (fun hp => hne (List.cons_prefix_cons.mp (List.cons_prefix_cons.mp hp).2).1)
      (fun hp => by have := List.IsPrefix.length_le hp; simp at this)
  unfold objectSpecific readP
  rw [splitPath1 object ho, splitPath3 object sModes mode ho plain_sModes hm,
    splitPath3 sModes mode object plain_sModes hm ho, f1, f2, f3]


/-- the shape of the child below `object` after writing `object/modes/<m'>` -/
theorem stepChild_cases (k : Bytes) (P : Obj) (hP : WFO P) :
    (∃ K, stepChild k P = .obj K ∧ Sorted K ∧ ∀ q, lookup q K = memberOf ((lookup k P).getD .none) q)
      ∨ ((stepChild k P).isObj = false ∧ stepChild k P = (lookup k P).getD .none) := by
  unfold stepChild
  cases hl : lookup k P with
  | none => exact Or.inl ⟨[], by simp [Json.isNone], sorted_nil, fun q => by simp [lookup, memberOf]⟩
  | some ch =>
    cases ch with
    | none => exact Or.inl ⟨[], by simp [Json.isNone], sorted_nil, fun q => by simp [lookup, memberOf]⟩
    | obj K =>
      have : WFJ (.obj K) := wfo_lookup hP hl
      exact Or.inl ⟨K, by simp [Json.isNone], this.1, fun q => by simp [memberOf]⟩
    | null => exact Or.inr ⟨by simp [Json.isNone, Json.isObj], by simp [Json.isNone]⟩
    | num p => exact Or.inr ⟨by simp [Json.isNone, Json.isObj], by simp [Json.isNone]⟩
    | str s => exact Or.inr ⟨by simp [Json.isNone, Json.isObj], by simp [Json.isNone]⟩
    | arr xs => exact Or.inr ⟨by simp [Json.isNone, Json.isObj], by simp [Json.isNone]⟩

/-- initialObjectProps ignores what is stored under `<object>/modes/<other mode>` -/
theorem initialObject_inert_obj (settings : Json) (mode m' object : Bytes) (x : Json) (P : Obj) (j' : Json)
    (hP : Sorted P) (hPw : WFO P) (hm : PlainKey mode) (ho : PlainKey object) (hos : object ≠ sModes) (hne : m' ≠ mode)
    (hw : write [object, sModes, m'] x (.obj P) = .ok j')
    (s1 : DictLike (layer1 object settings)) (s2 : DictLike (layer2 mode object settings))
    (s3 : DictLike (layer3 mode object settings))
    (u1 : DictLike (layer1 object (.obj P))) (u2 : DictLike (layer2 mode object (.obj P)))
    (u3 : DictLike (layer3 mode object (.obj P))) :
    initialObject settings mode object j' = initialObject settings mode object (.obj P) := by
  obtain ⟨c, hj', hc⟩ := write_obj_shape object [sModes, m'] x P j' hw
  -- the child below `object` is an object; the write adds/replaces its "modes" member
  rcases stepChild_cases object P hPw with ⟨K, hK, hKs, hKm⟩ | ⟨hno, _⟩
  · rw [hK, touchGo_cons_obj] at hc
    cases hc2 : touchGo (fun _ => x) [m'] (stepChild sModes K) (stepEx sModes K (stepEx object P true)) with
    | error e => rw [hc2] at hc; cases hc
    | ok c2 =>
      rw [hc2] at hc
      injection hc with hc
      have f2 : layer2 mode object j' = layer2 mode object (.obj P) :=
        frame_touchWith _ [object, sModes, m'] [object, sModes, mode] (.obj P) j' hw
          (fun hp => hne (List.cons_prefix_cons.mp (List.cons_prefix_cons.mp (List.cons_prefix_cons.mp hp).2).2).1)
          (fun hp => hne (List.cons_prefix_cons.mp (List.cons_prefix_cons.mp (List.cons_prefix_cons.mp hp).2).2).1.symm)
      have f3 : layer3 mode object j' = layer3 mode object (.obj P) :=
        frame_touchWith _ [object, sModes, m'] [sModes, mode, object] (.obj P) j' hw
          (fun hp => hos (List.cons_prefix_cons.mp hp).1)
          (fun hp => hos (List.cons_prefix_cons.mp hp).1.symm)
      have l1 : layer1 object j' = .obj (insert sModes c2 K) := by
        unfold layer1
        rw [hj', readK_cons_obj, lookup_insert_self, ← hc]
        rfl
      have l1m : ∀ q, q ≠ sModes → memberOf (layer1 object j') q = memberOf (layer1 object (.obj P)) q := by
        intro q hq
        rw [l1]
        simp only [memberOf]
        rw [lookup_insert_ne hq, hKm q]
        unfold layer1
        rw [readK_cons_obj]
        cases lookup object P <;> rfl
      obtain ⟨kvs, hr, hs, hl⟩ := initialObject_dict settings (.obj P) mode object hm ho s1 s2 s3 u1 u2 u3
      obtain ⟨kvs', hr', hs', hl'⟩ := initialObject_dict settings j' mode object hm ho s1 s2 s3
        (by rw [l1]; exact dictLike_obj (sorted_insert _ _ hKs)) (by rw [f2]; exact u2) (by rw [f3]; exact u3)
      rw [hr, hr']
      congr 2
      apply sorted_ext hs' hs
      intro k
      rw [hl k, hl' k]
      by_cases hk1 : k = sMode
      · simp [hk1]
      · by_cases hk2 : k = sModes
        · simp [hk1, hk2]
        · simp only [hk1, hk2, if_false]
          congr 1
          unfold objMember
          rw [f2, f3, l1m k hk2]
  · rw [touchGo_cons_nonobj _ _ _ _ _ hno] at hc
    cases hc

theorem plain_lit {k : Bytes} (h1 : k ≠ []) (h2 : k.all (fun c => c ≠ cSlash && c ≠ cBackslash && c ≠ 0) = true) : PlainKey k := by
  refine ⟨h1, fun c hc => ?_⟩
  have := List.all_eq_true.mp h2 c hc
  simp at this
  exact ⟨this.1.1, this.1.2, this.2⟩

theorem memberOf_obj (kvs : Obj) (k : Bytes) : memberOf (.obj kvs) k = lookup k kvs := rfl

theorem plain_sDevice : PlainKey sDevice := plain_lit (by decide) (by decide)
theorem plain_sKernel : PlainKey sKernel := plain_lit (by decide) (by decide)
theorem plain_sMemory : PlainKey sMemory := plain_lit (by decide) (by decide)
theorem plain_sStream : PlainKey sStream := plain_lit (by decide) (by decide)

/-- the hypotheses of the device-level statement: every place the code reads is undefined or an object -/
structure DevLayers (settings props : Json) (mode : Bytes) : Prop where
  d1 : DictLike (layer1 sDevice settings)
  d2 : DictLike (layer2 mode sDevice settings)
  d3 : DictLike (layer3 mode sDevice settings)
  um : DictLike (readK [sModes, mode] props)
  obj : ∀ o, o = sKernel ∨ o = sMemory ∨ o = sStream →
    DictLike (layer1 o settings) ∧ DictLike (layer2 mode o settings) ∧ DictLike (layer3 mode o settings)
      ∧ DictLike (layer1 o props) ∧ DictLike (layer2 mode o props) ∧ DictLike (layer3 mode o props)

/-- device::setup: what `device.properties()` contains, member by member -/
theorem deviceProps_dict (settings : Json) (P : Obj) (mode : Bytes) (hP : Sorted P) (hm : PlainKey mode)
    (hmode : lookup sMode P = some (.str mode)) (L : DevLayers settings (.obj P) mode) :
    ∃ kvs ko me st, deviceProps settings (.obj P) = .ok (.obj kvs) ∧ Sorted kvs
      ∧ initialObject settings mode sKernel (.obj P) = .ok ko
      ∧ initialObject settings mode sMemory (.obj P) = .ok me
      ∧ initialObject settings mode sStream (.obj P) = .ok st
      ∧ ∀ k, lookup k kvs =
          if k = sMode then
            some (.str (canonicalMode (toStringJ ((over (objMember mode sDevice settings sMode)
              (over (some (.str mode)) (memberOf (readK [sModes, mode] (.obj P)) sMode))).getD .none))))
          else if k = sStream then some st
          else if k = sMemory then some me
          else if k = sKernel then some ko
          else if k = sModes then Option.none
          else over (objMember mode sDevice settings k)
                 (over (lookup k P) (memberOf (readK [sModes, mode] (.obj P)) k)) := by
  obtain ⟨d, hd, hdd, hmd⟩ := objectSpecific_dict mode sDevice settings hm plain_sDevice L.d1 L.d2 L.d3
  obtain ⟨m, hms, hdm, hom, hmm⟩ := modeSpecific_dict mode (.obj P) hm (dictLike_obj hP) L.um
  obtain ⟨dp0, hdp0, hddp0, hmdp0, _⟩ := add_dict d m hdd hdm
  obtain ⟨s1, s2, s3, u1, u2, u3⟩ := L.obj sKernel (Or.inl rfl)
  obtain ⟨kk, hkk, _, _⟩ := initialObject_dict settings (.obj P) mode sKernel hm plain_sKernel s1 s2 s3 u1 u2 u3
  obtain ⟨s1, s2, s3, u1, u2, u3⟩ := L.obj sMemory (Or.inr (Or.inl rfl))
  obtain ⟨km, hkm, _, _⟩ := initialObject_dict settings (.obj P) mode sMemory hm plain_sMemory s1 s2 s3 u1 u2 u3
  obtain ⟨s1, s2, s3, u1, u2, u3⟩ := L.obj sStream (Or.inr (Or.inr rfl))
  obtain ⟨ks, hks, _, _⟩ := initialObject_dict settings (.obj P) mode sStream hm plain_sStream s1 s2 s3 u1 u2 u3
  obtain ⟨k1, hw1, hs1, hl1⟩ := write1_dict sKernel (.obj kk) dp0 hddp0
  obtain ⟨k2, hw2, hs2, hl2⟩ := write1_dict sMemory (.obj km) (.obj k1) (dictLike_obj hs1)
  obtain ⟨k3, hw3, hs3, hl3⟩ := write1_dict sStream (.obj ks) (.obj k2) (dictLike_obj hs2)
  obtain ⟨k4, hw4, hs4, hl4⟩ := write1_dict sMode
    (.str (canonicalMode (toStringJ (readP sMode (.obj k3))))) (.obj k3) (dictLike_obj hs3)
  have hmd' : toStringJ (readP sMode (.obj P)) = mode := by
    unfold readP
    rw [splitPath1 sMode plain_sMode, readK_cons_obj, hmode]
    rfl
  refine ⟨k4, .obj kk, .obj km, .obj ks, ?_, hs4, hkk, hkm, hks, ?_⟩
  · unfold deviceProps
    simp only [hmd', hd, hms, hdp0, hkk, hkm, hks, hw1, hw2, hw3, hw4, bind, Except.bind]
  · intro k
    rw [hl4 k]
    have hne1 : sStream ≠ sMode := by decide
    have hne2 : sMemory ≠ sMode := by decide
    have hne3 : sKernel ≠ sMode := by decide
    have hne4 : sMemory ≠ sStream := by decide
    have hne5 : sKernel ≠ sStream := by decide
    have hne6 : sKernel ≠ sMemory := by decide
    have hne7 : sMode ≠ sModes := by decide
    have hne8 : sMode ≠ sDevice := by decide
    -- members of k3 in terms of dp0
    have hk3 : ∀ q, lookup q k3 = if q = sStream then some (.obj ks) else if q = sMemory then some (.obj km)
        else if q = sKernel then some (.obj kk) else memberOf dp0 q := by
      intro q
      rw [hl3 q]
      by_cases h1 : q = sStream
      · simp [h1]
      · simp only [h1, if_false, memberOf_obj]
        rw [hl2 q]
        by_cases h2 : q = sMemory
        · simp [h2]
        · simp only [h2, if_false, memberOf_obj]
          rw [hl1 q]
    have hdp0m : ∀ q, q ≠ sModes → memberOf dp0 q = over (objMember mode sDevice settings q)
        (over (lookup q P) (memberOf (readK [sModes, mode] (.obj P)) q)) := by
      intro q hq
      rw [hmdp0 q, hmd q, hmm q]
      simp [hq, memberOf_obj]
    by_cases hk : k = sMode
    · subst hk
      simp only [if_true]
      congr 3
      unfold readP
      rw [splitPath1 sMode plain_sMode, readK_cons_obj, hk3 sMode]
      simp only [Ne.symm hne1, Ne.symm hne2, Ne.symm hne3, if_false]
      rw [hdp0m sMode hne7, hmode]
      cases over (objMember mode sDevice settings sMode) (over (some (Json.str mode)) (memberOf (readK [sModes, mode] (Json.obj P)) sMode)) <;> rfl
    · simp only [hk, if_false, memberOf_obj]
      rw [hk3 k]
      by_cases h1 : k = sStream
      · simp [h1]
      · by_cases h2 : k = sMemory
        · simp [h1, h2]
        · by_cases h3 : k = sKernel
          · simp [h1, h2, h3]
          · simp only [h1, h2, h3, if_false]
            by_cases h4 : k = sModes
            · subst h4
              rw [hmdp0 sModes, hmd sModes, hmm sModes]
              simp [over]
            · simp only [h4, if_false]
              exact hdp0m k h4

/-- device::setup ignores what is stored under `modes/<other mode>`: the device gets the same properties -/
theorem deviceProps_inert_top (settings : Json) (P : Obj) (mode m' : Bytes) (x j' : Json) (hP : Sorted P)
    (hm : PlainKey mode) (hne : m' ≠ mode) (hmode : lookup sMode P = some (.str mode))
    (L : DevLayers settings (.obj P) mode) (hw : write [sModes, m'] x (.obj P) = .ok j') :
    deviceProps settings j' = deviceProps settings (.obj P) := by
  obtain ⟨c, hj', _⟩ := write_obj_shape sModes [m'] x P j' hw
  have hP' : Sorted (insert sModes c P) := sorted_insert _ _ hP
  have hne7 : sMode ≠ sModes := by decide
  have hmode' : lookup sMode (insert sModes c P) = some (.str mode) := by
    rw [lookup_insert_ne hne7]; exact hmode
  have hfr : readK [sModes, mode] j' = readK [sModes, mode] (.obj P) :=
    frame_touchWith _ [sModes, m'] [sModes, mode] (.obj P) j' hw (not_prefix_2_2 hne) (not_prefix_2_2 (Ne.symm hne))
  -- the object layers are read at paths the write does not touch
  have hlay : ∀ o, PlainKey o → o ≠ sModes →
      layer1 o j' = layer1 o (.obj P) ∧ layer2 mode o j' = layer2 mode o (.obj P) ∧ layer3 mode o j' = layer3 mode o (.obj P) := by
    intro o _ hos
    refine ⟨?_, ?_, ?_⟩
    · exact frame_touchWith _ [sModes, m'] [o] (.obj P) j' hw
        (fun hp => by have := List.IsPrefix.length_le hp; simp at this)
        (fun hp => hos (List.cons_prefix_cons.mp hp).1)
    · exact frame_touchWith _ [sModes, m'] [o, sModes, mode] (.obj P) j' hw
        (fun hp => hos (List.cons_prefix_cons.mp hp).1.symm)
        (fun hp => hos (List.cons_prefix_cons.mp hp).1)
    · exact frame_touchWith _ [sModes, m'] [sModes, mode, o] (.obj P) j' hw
        (fun hp => hne (List.cons_prefix_cons.mp (List.cons_prefix_cons.mp hp).2).1)
        (fun hp => by have := List.IsPrefix.length_le hp; simp at this)
  have L' : DevLayers settings j' mode := by
    refine ⟨L.d1, L.d2, L.d3, by rw [hfr]; exact L.um, ?_⟩
    intro o ho
    obtain ⟨s1, s2, s3, u1, u2, u3⟩ := L.obj o ho
    have hpo : PlainKey o ∧ o ≠ sModes := by
      rcases ho with ho | ho | ho <;> subst ho
      · exact ⟨plain_sKernel, by decide⟩
      · exact ⟨plain_sMemory, by decide⟩
      · exact ⟨plain_sStream, by decide⟩
    obtain ⟨e1, e2, e3⟩ := hlay o hpo.1 hpo.2
    exact ⟨s1, s2, s3, by rw [e1]; exact u1, by rw [e2]; exact u2, by rw [e3]; exact u3⟩
  obtain ⟨kvs, ko, me, st, hr, hs, hko, hme, hst, hl⟩ := deviceProps_dict settings P mode hP hm hmode L
  rw [hj'] at L' hfr ⊢
  obtain ⟨kvs', ko', me', st', hr', hs', hko', hme', hst', hl'⟩ :=
    deviceProps_dict settings (insert sModes c P) mode hP' hm hmode' L'
  -- the kernel / memory / stream members are the same values
  have hio : ∀ o, PlainKey o → o ≠ sModes →
      initialObject settings mode o (.obj (insert sModes c P)) = initialObject settings mode o (.obj P) := by
    intro o ho hos
    have := objectSpecific_inert_top mode m' o x (.obj P) j' hm ho hos hne hw
    rw [hj'] at this
    unfold initialObject
    rw [this]
  have eko : ko' = ko := by
    have := hio sKernel plain_sKernel (by decide); rw [hko', hko] at this; injection this
  have eme : me' = me := by
    have := hio sMemory plain_sMemory (by decide); rw [hme', hme] at this; injection this
  have est : st' = st := by
    have := hio sStream plain_sStream (by decide); rw [hst', hst] at this; injection this
  rw [hr, hr']
  congr 2
  apply sorted_ext hs' hs
  intro k
  rw [hl k, hl' k, hfr, eko, eme, est]
  by_cases h1 : k = sMode
  · simp [h1]
  · by_cases h2 : k = sStream
    · simp [h1, h2]
    · by_cases h3 : k = sMemory
      · simp [h1, h2, h3]
      · by_cases h4 : k = sKernel
        · simp [h1, h2, h3, h4]
        · by_cases h5 : k = sModes
          · simp [h1, h2, h3, h4, h5]
          · simp only [h1, h2, h3, h4, h5, if_false]
            rw [lookup_insert_ne h5]

end Occa.Json
