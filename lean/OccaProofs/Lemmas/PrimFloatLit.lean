import OccaProofs.Lemmas.PrimLit
namespace Occa.Prim.Lemmas
open Occa Occa.CExpr Occa.CxxSem Occa.Gen Occa.Prim

/-! ### floating literals: primitive::load follows [lex.fcon] -/

/-- a list that no digit loop continues into: empty, or starting with something that is neither a
    decimal digit nor '.' -/
def NoDigitHead (s : List Char) : Prop := s = [] ∨ ∃ c t, s = c :: t ∧ ¬ ('0' ≤ c ∧ c ≤ '9') ∧ c ≠ '.'

theorem scanDigits_stop {s : List Char} (h : NoDigitHead s) (k : Nat) (b : Bool) : scanDigits s k b = (k, b, s) := by
  rcases h with rfl | ⟨c, t, rfl, h1, h2⟩
  · rfl
  · simp [scanDigits, h1, h2]

theorem scanDigits_run (ds : List Char) (hd : ∀ c ∈ ds, isDigitOf 10 c = true) (rest : List Char) :
    ∀ k b, scanDigits (ds ++ rest) k b = scanDigits rest (k + ds.length) b := by
  induction ds with
  | nil => intro k b; simp
  | cons c t ih =>
    intro k b
    obtain ⟨h1, _⟩ := dec_digit (hd c (by simp))
    rw [List.cons_append]
    simp only [scanDigits, h1, and_self, if_true]
    rw [ih (fun x hx => hd x (by simp [hx]))]
    simp [Nat.add_assoc, Nat.add_comm 1]

/-- digits, optional point, digits -/
theorem scanDigits_float (ip fr : List Char) (dot : Bool) (hip : ∀ c ∈ ip, isDigitOf 10 c = true)
    (hfr : ∀ c ∈ fr, isDigitOf 10 c = true) (hdf : dot = true ∨ fr = []) (rest : List Char) (hr : NoDigitHead rest)
    (k : Nat) :
    scanDigits (ip ++ (if dot then ['.'] else []) ++ fr ++ rest) k false = (k + ip.length + fr.length, dot, rest) := by
  cases dot
  · have : fr = [] := by simpa using hdf
    subst this
    simp only [Bool.false_eq_true, if_false, List.append_nil, List.length_nil, Nat.add_zero]
    rw [scanDigits_run ip hip, scanDigits_stop hr]
  · simp only [if_true, List.append_assoc, List.cons_append, List.nil_append]
    rw [scanDigits_run ip hip]
    have h09 : ¬ ('0' ≤ '.' ∧ '.' ≤ '9') := by decide
    simp only [scanDigits, h09, if_false, if_true]
    rw [scanDigits_run fr hfr, scanDigits_stop hr]

theorem takeDigits_run (ds : List Char) (hd : ∀ c ∈ ds, isDigitOf 10 c = true) (rest : List Char)
    (hr : rest = [] ∨ ∃ c t, rest = c :: t ∧ ¬ ('0' ≤ c ∧ c ≤ '9')) : takeDigits (ds ++ rest) = (ds, rest) := by
  induction ds with
  | nil =>
    rcases hr with rfl | ⟨c, t, rfl, h1⟩
    · rfl
    · simp [takeDigits, h1]
  | cons c t ih =>
    obtain ⟨h1, _⟩ := dec_digit (hd c (by simp))
    rw [List.cons_append]
    simp only [takeDigits, h1, and_self, if_true]
    rw [ih (fun x hx => hd x (by simp [hx]))]


theorem integerLiteral_notFloat (V : Nat) (d u : Bool) (n : Nat) :
    (integerLiteral V d u n).1 = .int ∨ (integerLiteral V d u n).1 = .uint ∨
    (integerLiteral V d u n).1 = .long ∨ (integerLiteral V d u n).1 = .ulong := by
  unfold integerLiteral
  repeat' split
  all_goals simp

theorem applySign_notFloat (neg : Bool) (q : Ty × Int)
    (hq : q.1 = .int ∨ q.1 = .uint ∨ q.1 = .long ∨ q.1 = .ulong) :
    ∃ t, (applySign neg q).ty = some t ∧ t.isFloat = false := by
  obtain ⟨t, v⟩ := q
  simp only at hq
  unfold applySign
  by_cases hc : neg = true ∧ literalTypedByValue = true
  · simp only [hc, and_self, if_true]
    rcases hq with rfl | rfl | rfl | rfl
    · by_cases hr : inRange Ty.int (-(cvt Ty.int ⟨Ty.int, v⟩).v) = true <;>
        simp [unop, Ty.promote, arithInt, Ty.signed, hr, ofHost, Prim.ofVal, Ty.isFloat]
    · simp [unop, Ty.promote, arithInt, Ty.signed, ofHost, Prim.ofVal, Ty.isFloat]
    · by_cases hr : inRange Ty.long (-(cvt Ty.long ⟨Ty.long, v⟩).v) = true <;>
        simp [unop, Ty.promote, arithInt, Ty.signed, hr, ofHost, Prim.ofVal, Ty.isFloat]
    · simp [unop, Ty.promote, arithInt, Ty.signed, ofHost, Prim.ofVal, Ty.isFloat]
  · simp only [hc, if_false]
    rcases hq with rfl | rfl | rfl | rfl <;> exact ⟨_, rfl, rfl⟩


theorem applySign_lit_notFloat (neg : Bool) (V : Nat) (d u : Bool) (n : Nat) :
    (match (applySign neg (integerLiteral V d u n)).ty with | some t => t.isFloat | none => false) = false := by
  obtain ⟨t, h1, h2⟩ := applySign_notFloat neg _ (integerLiteral_notFloat V d u n)
  rw [h1]; exact h2

def FSuf (suf : List Char) : Prop := suf = [] ∨ suf = ['f'] ∨ suf = ['F']

theorem FSuf.noDigit {suf : List Char} (h : FSuf suf) : NoDigitHead suf := by
  rcases h with rfl | rfl | rfl
  · exact Or.inl rfl
  · exact Or.inr ⟨'f', [], rfl, by decide, by decide⟩
  · exact Or.inr ⟨'F', [], rfl, by decide, by decide⟩

theorem scanSuffix_fsuf (loadRec : List Char → Prim × List Char) {suf : List Char} (h : FSuf suf) (st : Suffix) :
    scanSuffix loadRec false suf st = { st with float_ := st.float_ || !suf.isEmpty, rest := [] } := by
  rcases h with rfl | rfl | rfl
  · simp [scanSuffix]
  · have : upper 'f' = 'F' := by decide
    simp [scanSuffix, this]
  · have : upper 'F' = 'F' := by decide
    simp [scanSuffix, this]

theorem dec_table2 : ∀ n, n < 128 →
    (!isDigitOf 10 (Char.ofNat n) ||
      decide (upper (Char.ofNat n) ≠ 'B' ∧ upper (Char.ofNat n) ≠ 'X' ∧ isWs (Char.ofNat n) = false)) = true := by
  decide +kernel

theorem dec_digit2 {c : Char} (h : isDigitOf 10 c = true) : upper c ≠ 'B' ∧ upper c ≠ 'X' ∧ isWs c = false := by
  have := ascii_table (fun c => !isDigitOf 10 c || decide (upper c ≠ 'B' ∧ upper c ≠ 'X' ∧ isWs c = false))
    dec_table2 c (digit_ascii h)
  simpa [h] using this

/-- the second character of `digits ++ [f|F]` is never the `b`/`x` of a binary / hex prefix -/
theorem second_not_bx (ds suf : List Char) (hd : ∀ c ∈ ds, isDigitOf 10 c = true) (hs : FSuf suf) :
    upper (Prim.hd (ds ++ suf)) ≠ 'B' ∧ upper (Prim.hd (ds ++ suf)) ≠ 'X' := by
  cases ds with
  | cons c t =>
    obtain ⟨h1, h2, _⟩ := dec_digit2 (hd c (by simp))
    simpa [Prim.hd] using And.intro h1 h2
  | nil => rcases hs with rfl | rfl | rfl <;> simp [Prim.hd] <;> decide

theorem skipWs_digit (c : Char) (t : List Char) (h : isDigitOf 10 c = true) : skipWs (c :: t) = c :: t := by
  simp [skipWs, (dec_digit2 h).2.2]

/-- the recursive `primitive::load(++c)` on the exponent `[sign] digits [f|F]`: consumes everything,
    and its result is floating exactly when the `f` suffix is there -/
theorem load_exponent (fuel : Nat) (sg : List Char) (d0 : Char) (ds suf : List Char)
    (hsg : sg = [] ∨ sg = ['+'] ∨ sg = ['-']) (hd : ∀ c ∈ d0 :: ds, isDigitOf 10 c = true) (hs : FSuf suf) :
    ∃ p, load (fuel + 1) (sg ++ (d0 :: ds ++ suf)) true = (p, []) ∧
      (match p.ty with | some t => t.isFloat | none => false) = !suf.isEmpty := by
  obtain ⟨h09, _, ht, hf, hp, hm, _⟩ := dec_digit (hd d0 (by simp))
  obtain ⟨hB, hX⟩ := second_not_bx ds suf (fun c hc => hd c (by simp [hc])) hs
  have hscan0 := scanDigits_run (d0 :: ds) hd suf
  have hstop := scanDigits_stop hs.noDigit
  have hws := skipWs_digit d0 (ds ++ suf) (hd d0 (by simp))
  simp only [List.cons_append] at hscan0
  simp only [Prim.hd] at hB hX
  -- the three sign spellings lead to the same digits, only `negative` differs
  have key : ∀ (c0 : List Char) (negative : Bool),
      ∃ p, finishPlain (fun t => load fuel t true) c0 (d0 :: (ds ++ suf)) negative = (p, []) ∧
        (match p.ty with | some t => t.isFloat | none => false) = !suf.isEmpty := by
    intro c0 negative
    unfold finishPlain
    simp only [hscan0, hstop, scanSuffix_fsuf _ hs]
    by_cases hsuf : suf = []
    · subst hsuf
      have hlen : (if Prim.hd (d0 :: (ds ++ [])) = '0' then 1 else 0) + (d0 :: ds).length ≠ 0 := by simp
      simp only [List.isEmpty_nil, Bool.not_true, Bool.or_false, Bool.false_eq_true, or_self, if_false, hlen]
      exact ⟨_, rfl, applySign_lit_notFloat _ _ _ _ _⟩
    · have hne : suf.isEmpty = false := by cases suf <;> simp_all
      have hlen : (if Prim.hd (d0 :: (ds ++ suf)) = '0' then 1 else 0) + (d0 :: ds).length ≠ 0 := by simp
      simp [hne, hlen, Ty.isFloat]
  rcases hsg with rfl | rfl | rfl
  · have hpre1 : ("true".toList.isPrefixOf (d0 :: (ds ++ suf))) = false := by simp [List.isPrefixOf, Ne.symm ht]
    have hpre2 : ("false".toList.isPrefixOf (d0 :: (ds ++ suf))) = false := by simp [List.isPrefixOf, Ne.symm hf]
    simp only [List.nil_append, List.cons_append, load, hpre1, hpre2, Prim.hd, List.headD_cons, hp, hm, false_or,
      false_and, Bool.false_eq_true, if_false]
    have hfmt : ¬ (d0 = '0' ∧ (upper ((List.drop 1 (d0 :: (ds ++ suf))).headD (Char.ofNat 0)) = 'B' ∨
        upper ((List.drop 1 (d0 :: (ds ++ suf))).headD (Char.ofNat 0)) = 'X')) := by
      simp only [List.drop_succ_cons, List.drop_zero]
      intro ⟨_, h⟩; rcases h with h | h
      · exact hB h
      · exact hX h
    simp only [hfmt, if_false]
    exact key _ _
  all_goals
    simp [Prim.hd] at hB hX
    simp [load, List.isPrefixOf, Prim.hd, hws, hB, hX]
    exact key _ _


def expoText : Option (Char × List Char × List Char) → List Char
  | none => []
  | some (e, s, d) => e :: (s ++ d)

/-- well-formed exponent part -/
def ExpoOk (expo : Option (Char × List Char × List Char)) : Prop :=
  match expo with
  | none => True
  | some (e, s, d) => (e = 'e' ∨ e = 'E') ∧ (s = [] ∨ s = ['+'] ∨ s = ['-']) ∧ d ≠ [] ∧ ∀ c ∈ d, isDigitOf 10 c = true

/-- value of the exponent part -/
def expE (expo : Option (Char × List Char × List Char)) : Int :=
  match expo with
  | none => 0
  | some (_, s, d) => if s = ['-'] then -(Int.ofNat (digitsVal 10 d)) else Int.ofNat (digitsVal 10 d)

theorem floatText (l : FloatLit) :
    l.text = l.ipart ++ (if l.dot then ['.'] else []) ++ l.frac ++ expoText l.expo ++ l.suf := by
  unfold FloatLit.text expoText
  cases l.expo <;> rfl

theorem fsuf_E {suf : List Char} (h : FSuf suf) : upper (Prim.hd suf) ≠ 'E' := by
  rcases h with rfl | rfl | rfl <;> decide

theorem fsuf_nodigit {suf : List Char} (h : FSuf suf) :
    suf = [] ∨ ∃ c t, suf = c :: t ∧ ¬ ('0' ≤ c ∧ c ≤ '9') := by
  rcases h with rfl | rfl | rfl
  · exact Or.inl rfl
  · exact Or.inr ⟨'f', [], rfl, by decide⟩
  · exact Or.inr ⟨'F', [], rfl, by decide⟩

/-- the exponent part of atof: `[eE][sign]digits` or nothing, followed by the f suffix -/
theorem atofExp_text (expo : Option (Char × List Char × List Char)) (suf : List Char) (hs : FSuf suf)
    (hx : ExpoOk expo) :
    atofExp (expoText expo ++ suf) =
    expE expo := by
  unfold atofExp
  cases expo with
  | none => simp [expoText, expE, fsuf_E hs]
  | some x =>
    obtain ⟨e, s, d⟩ := x
    obtain ⟨he, hsg, hne, hd⟩ := hx
    have hup : upper e = 'E' := by rcases he with rfl | rfl <;> decide
    have htd := takeDigits_run d hd suf (fsuf_nodigit hs)
    cases d with
    | nil => exact absurd rfl hne
    | cons d0 dt =>
      obtain ⟨_, _, _, _, hp, hm, _⟩ := dec_digit (hd d0 (by simp))
      simp only [List.cons_append] at htd
      rcases hsg with rfl | rfl | rfl <;>
        simp [expoText, expE, Prim.hd, hup, htd, hp, hm]


theorem expoText_nodigit (expo : Option (Char × List Char × List Char)) (suf : List Char) (hs : FSuf suf)
    (he : ∀ e s d, expo = some (e, s, d) → (e = 'e' ∨ e = 'E')) :
    (expoText expo ++ suf = [] ∨ ∃ c t, expoText expo ++ suf = c :: t ∧ ¬ ('0' ≤ c ∧ c ≤ '9')) ∧
    Prim.hd (expoText expo ++ suf) ≠ '.' := by
  cases expo with
  | none =>
    simp only [expoText, List.nil_append]
    exact ⟨fsuf_nodigit hs, by rcases hs with rfl | rfl | rfl <;> decide⟩
  | some x =>
    obtain ⟨e, s, d⟩ := x
    rcases he e s d rfl with rfl | rfl
    · exact ⟨Or.inr ⟨'e', _, rfl, by decide⟩, by simp [expoText, Prim.hd]⟩
    · exact ⟨Or.inr ⟨'E', _, rfl, by decide⟩, by simp [expoText, Prim.hd]⟩

/-- strtod on the text of a well-formed floating literal -/
theorem atof_text (ip fr : List Char) (dot : Bool) (expo : Option (Char × List Char × List Char)) (suf : List Char)
    (hip : ∀ c ∈ ip, isDigitOf 10 c = true) (hfr : ∀ c ∈ fr, isDigitOf 10 c = true) (hdf : dot = true ∨ fr = [])
    (hne : ¬ (ip = [] ∧ fr = [])) (hs : FSuf suf)
    (hx : ExpoOk expo) :
    atof (ip ++ (if dot then ['.'] else []) ++ fr ++ expoText expo ++ suf) =
      (let m := digitsVal 10 (ip ++ fr)
       let e : Int := expE expo - Int.ofNat fr.length
       if m < 2 ^ 53 ∧ -22 ≤ e ∧ e ≤ 22 then decToFloat m e
       else if e ≥ 0 then Float.ofNat (m * 10 ^ e.toNat)
       else Float.ofScientific m true (-e).toNat) := by
  have hE := atofExp_text expo suf hs hx
  have hexpo : ∀ e s d, expo = some (e, s, d) → (e = 'e' ∨ e = 'E') := by
    intro e s d h; subst h; exact hx.1
  obtain ⟨hnd, hnp⟩ := expoText_nodigit expo suf hs hexpo
  cases dot
  · -- no point: frac is empty, an exponent follows the integer part
    have hfr0 : fr = [] := by simpa using hdf
    subst hfr0
    have hip0 : ip ≠ [] := fun h => hne ⟨h, rfl⟩
    obtain ⟨c0, it, rfl⟩ := List.exists_cons_of_ne_nil hip0
    obtain ⟨_, _, _, _, hp, hm, _⟩ := dec_digit (hip c0 (by simp))
    have hws := skipWs_digit c0 (it ++ (expoText expo ++ suf)) (hip c0 (by simp))
    have htd := takeDigits_run (c0 :: it) hip (expoText expo ++ suf) hnd
    simp only [List.cons_append] at htd
    unfold atof
    simp only [Bool.false_eq_true, if_false, List.append_nil, List.cons_append, List.append_assoc, hws,
      Prim.hd, List.headD_cons, hp, hm, or_self, htd]
    simp [Prim.hd] at hnp
    simp [hnp, hE]
  · simp only [if_true]
    have h09 : ¬ ('0' ≤ '.' ∧ '.' ≤ '9') := by decide
    have htd2 := takeDigits_run fr hfr (expoText expo ++ suf) hnd
    have htd1 := takeDigits_run ip hip ('.' :: (fr ++ (expoText expo ++ suf))) (Or.inr ⟨'.', _, rfl, h09⟩)
    -- the first character is a digit or the point: not white space, not a sign
    have hfirst : skipWs (ip ++ '.' :: (fr ++ (expoText expo ++ suf))) = ip ++ '.' :: (fr ++ (expoText expo ++ suf)) ∧
        Prim.hd (ip ++ '.' :: (fr ++ (expoText expo ++ suf))) ≠ '-' ∧
        Prim.hd (ip ++ '.' :: (fr ++ (expoText expo ++ suf))) ≠ '+' := by
      cases ip with
      | nil => simp [skipWs, isWs, Prim.hd]
      | cons c0 it =>
        obtain ⟨_, _, _, _, hp, hm, _⟩ := dec_digit (hip c0 (by simp))
        exact ⟨skipWs_digit c0 _ (hip c0 (by simp)), by simpa [Prim.hd] using hm, by simpa [Prim.hd] using hp⟩
    obtain ⟨hws, hm, hp⟩ := hfirst
    have hnotboth : ¬ (ip.isEmpty = true ∧ fr.isEmpty = true) := by
      intro ⟨a, b⟩; exact hne ⟨List.isEmpty_iff.mp a, List.isEmpty_iff.mp b⟩
    have hdot : Prim.hd ('.' :: (fr ++ (expoText expo ++ suf))) = '.' := rfl
    have hdrop : List.drop 1 ('.' :: (fr ++ (expoText expo ++ suf))) = fr ++ (expoText expo ++ suf) := rfl
    unfold atof
    simp only [List.append_assoc, List.cons_append, List.nil_append, hws, hm, hp, or_self, if_false, htd1,
      hdot, if_true, hdrop, htd2, hE]
    simp
    intro a b
    exact absurd ⟨a, b⟩ hne


theorem expoText_noDigitHead (expo : Option (Char × List Char × List Char)) (suf : List Char) (hs : FSuf suf)
    (he : ∀ e s d, expo = some (e, s, d) → (e = 'e' ∨ e = 'E')) : NoDigitHead (expoText expo ++ suf) := by
  cases expo with
  | none => simpa [expoText] using hs.noDigit
  | some x =>
    obtain ⟨e, s, d⟩ := x
    rcases he e s d rfl with rfl | rfl
    · exact Or.inr ⟨'e', _, rfl, by decide, by decide⟩
    · exact Or.inr ⟨'E', _, rfl, by decide, by decide⟩

/-- the suffix loop of primitive::load on `[exponent][f]` -/
theorem scanSuffix_float (fuel : Nat) (expo : Option (Char × List Char × List Char)) (suf : List Char) (hs : FSuf suf)
    (hx : ExpoOk expo)
    (dot : Bool) (r0 : List Char) :
    scanSuffix (fun t => load (fuel + 1) t true) false (expoText expo ++ suf) ⟨0, false, dot, false, r0⟩ =
      ⟨0, false, dot || expo.isSome, !suf.isEmpty, []⟩ := by
  cases expo with
  | none =>
    simp only [expoText, List.nil_append]
    rw [scanSuffix_fsuf _ hs]
    simp
  | some x =>
    obtain ⟨e, sg, d⟩ := x
    obtain ⟨he, hsg, hne, hd⟩ := hx
    obtain ⟨d0, dt, rfl⟩ := List.exists_cons_of_ne_nil hne
    obtain ⟨p, hp1, hp2⟩ := load_exponent fuel sg d0 dt suf hsg hd hs
    have hup : upper e = 'E' := by rcases he with rfl | rfl <;> decide
    simp only [expoText, List.cons_append, List.append_assoc] at hp1 ⊢
    simp [scanSuffix, hup, hp1]
    exact hp2


/-- the text of a floating literal never looks like a `0x` / `0b` prefix -/
theorem float_second (it fr : List Char) (dot : Bool) (expo : Option (Char × List Char × List Char)) (suf : List Char)
    (hit : ∀ c ∈ it, isDigitOf 10 c = true) (hde : dot = true ∨ expo.isSome = true) (hdf : dot = true ∨ fr = [])
    (he : ∀ e s d, expo = some (e, s, d) → (e = 'e' ∨ e = 'E')) :
    upper (Prim.hd (it ++ ((if dot then ['.'] else []) ++ (fr ++ (expoText expo ++ suf))))) ≠ 'B' ∧
    upper (Prim.hd (it ++ ((if dot then ['.'] else []) ++ (fr ++ (expoText expo ++ suf))))) ≠ 'X' := by
  cases it with
  | cons c t =>
    obtain ⟨h1, h2, _⟩ := dec_digit2 (hit c (by simp))
    simpa [Prim.hd] using And.intro h1 h2
  | nil =>
    cases dot
    · have : expo.isSome = true := by simpa using hde
      obtain ⟨x, rfl⟩ := Option.isSome_iff_exists.mp this
      obtain ⟨e, s, d⟩ := x
      have hfr : fr = [] := by simpa using hdf
      subst hfr
      rcases he e s d rfl with rfl | rfl <;> simp [Prim.hd, expoText] <;> decide
    · simp [Prim.hd]; decide


theorem load_succ (n : Nat) (c0 : List Char) (includeSign : Bool) :
    load (n + 1) c0 includeSign =
      if "true".toList.isPrefixOf c0 then (⟨some .bool, 1⟩, c0.drop 4)
      else if "false".toList.isPrefixOf c0 then (⟨some .bool, 0⟩, c0.drop 5)
      else
        if (Prim.hd c0 = '+' ∨ Prim.hd c0 = '-') ∧ !includeSign then (Prim.none, c0)
        else
          let s := if Prim.hd c0 = '+' ∨ Prim.hd c0 = '-' then skipWs (c0.drop 1) else c0
          if Prim.hd s = '0' ∧ (upper (Prim.hd (s.drop 1)) = 'B' ∨ upper (Prim.hd (s.drop 1)) = 'X') then
            let neg' := if literalTypedByValue then false else decide (Prim.hd c0 = '-')
            let pr := if upper (Prim.hd (s.drop 1)) = 'B' then loadBinary (s.drop 2) neg' else loadHex (s.drop 2) neg'
            if pr.1.ty.isNone then (Prim.none, c0)
            else finishFormatted (fun t => load n t true) pr.1 pr.2 (decide (Prim.hd c0 = '-'))
          else finishPlain (fun t => load n t true) c0 s (decide (Prim.hd c0 = '-')) := by
  rw [load]

/-- primitive::load on the text of a well-formed floating literal: the whole text is consumed, the
    type is float exactly when the f suffix is present, the value is strtod of the text -/
theorem load_float_text (fuel : Nat) (ip fr : List Char) (dot : Bool) (expo : Option (Char × List Char × List Char))
    (suf : List Char)
    (hip : ∀ c ∈ ip, isDigitOf 10 c = true) (hfr : ∀ c ∈ fr, isDigitOf 10 c = true) (hdf : dot = true ∨ fr = [])
    (hne : ¬ (ip = [] ∧ fr = [])) (hs : FSuf suf)
    (hx : ExpoOk expo)
    (hde : dot = true ∨ expo.isSome = true) :
    load (fuel + 2) (ip ++ (if dot then ['.'] else []) ++ fr ++ expoText expo ++ suf) true =
      (if suf.isEmpty then ⟨some .double, b64 (atof (ip ++ (if dot then ['.'] else []) ++ fr ++ expoText expo ++ suf))⟩
       else ⟨some .float, b32 (atof (ip ++ (if dot then ['.'] else []) ++ fr ++ expoText expo ++ suf)).toFloat32⟩, []) := by
  have hexpo : ∀ e s d, expo = some (e, s, d) → (e = 'e' ∨ e = 'E') := by
    intro e s d h; subst h; exact hx.1
  have hnd := expoText_noDigitHead expo suf hs hexpo
  have hsuf := scanSuffix_float fuel expo suf hs hx
  have hdec : (dot || expo.isSome) = true := by rcases hde with h | h <;> simp [h]
  -- everything after the prefix / sign tests
  have key : finishPlain (fun t => load (fuel + 1) t true)
        (ip ++ ((if dot then ['.'] else []) ++ (fr ++ (expoText expo ++ suf))))
        (ip ++ ((if dot then ['.'] else []) ++ (fr ++ (expoText expo ++ suf)))) false =
        (if suf.isEmpty then ⟨some .double, b64 (atof (ip ++ ((if dot then ['.'] else []) ++ (fr ++ (expoText expo ++ suf)))))⟩
         else ⟨some .float, b32 (atof (ip ++ ((if dot then ['.'] else []) ++ (fr ++ (expoText expo ++ suf))))).toFloat32⟩, []) := by
    have hscan := scanDigits_float ip fr dot hip hfr hdf (expoText expo ++ suf) hnd
      (if Prim.hd (ip ++ ((if dot then ['.'] else []) ++ (fr ++ (expoText expo ++ suf)))) = '0' then 1 else 0)
    simp only [List.append_assoc] at hscan
    have hlen : (if Prim.hd (ip ++ ((if dot then ['.'] else []) ++ (fr ++ (expoText expo ++ suf)))) = '0' then 1 else 0)
        + ip.length + fr.length ≠ 0 := by
      intro h0
      have : ip.length = 0 ∧ fr.length = 0 := by omega
      exact hne ⟨List.length_eq_zero_iff.mp this.1, List.length_eq_zero_iff.mp this.2⟩
    unfold finishPlain
    simp only [hscan, hlen, if_false, hsuf, hdec, true_or, if_true, List.length_nil, Nat.sub_zero, List.take_length]
    cases suf.isEmpty <;> simp
  -- the first character is a digit or the point: not white space, not a sign
  -- the first character is a digit or the point
  cases ip with
  | nil =>
    have hdot : dot = true := by
      rcases hdf with h | h
      · exact h
      · exact absurd ⟨rfl, h⟩ hne
    subst hdot
    have := key
    simp only [if_true, List.nil_append, List.cons_append, List.append_assoc] at this ⊢
    rw [load_succ]
    simp only [List.isPrefixOf, Prim.hd, List.headD_cons]
    simpa [Prim.hd] using this
  | cons c0 it =>
    obtain ⟨_, _, ht, hf, hp, hm, _⟩ := dec_digit (hip c0 (by simp))
    obtain ⟨hB, hX⟩ := float_second it fr dot expo suf (fun c hc => hip c (by simp [hc])) hde hdf hexpo
    have := key
    simp only [List.cons_append, List.append_assoc] at this ⊢
    have hpre1 : ("true".toList.isPrefixOf (c0 :: (it ++ ((if dot = true then ['.'] else []) ++ (fr ++ (expoText expo ++ suf)))))) = false := by
      simp [List.isPrefixOf, Ne.symm ht]
    have hpre2 : ("false".toList.isPrefixOf (c0 :: (it ++ ((if dot = true then ['.'] else []) ++ (fr ++ (expoText expo ++ suf)))))) = false := by
      simp [List.isPrefixOf, Ne.symm hf]
    rw [load_succ]
    simp only [hpre1, hpre2, Prim.hd, List.headD_cons, hp, hm, false_or, false_and, Bool.false_eq_true, if_false,
      List.drop_succ_cons, List.drop_zero, decide_false]
    simp only [Prim.hd] at hB hX this
    have hfmt : ¬ (c0 = '0' ∧ (upper ((it ++ ((if dot = true then ['.'] else []) ++ (fr ++ (expoText expo ++ suf)))).headD (Char.ofNat 0)) = 'B' ∨
        upper ((it ++ ((if dot = true then ['.'] else []) ++ (fr ++ (expoText expo ++ suf)))).headD (Char.ofNat 0)) = 'X')) := by
      intro ⟨_, h⟩; rcases h with h | h
      · exact hB h
      · exact hX h
    simp only [hfmt, if_false]
    exact this


/-- [lex.fcon] = primitive::load for every well-formed floating literal in the exactly converted subset -/
theorem floatlit_agree (l : FloatLit) (v : Val) (h : floatLitVal l = .val v) :
    loadTok l.text = Prim.ofVal v ∧ (v.ty = .float ∨ v.ty = .double) := by
  obtain ⟨ip, dot, fr, expo, suf⟩ := l
  by_cases hwf : (FloatLit.wf ⟨ip, dot, fr, expo, suf⟩) = true
  case neg => simp [floatLitVal, hwf] at h
  have hwf0 := hwf
  simp only [FloatLit.wf, Bool.and_eq_true, Bool.or_eq_true, List.all_eq_true, Bool.not_eq_true', Bool.and_eq_false_iff,
    decide_eq_true_eq] at hwf
  obtain ⟨⟨⟨⟨⟨⟨hip, hfr⟩, hdf⟩, hne⟩, hde⟩, hx⟩, hsuf⟩ := hwf
  have hs : FSuf suf := hsuf
  have hdf' : dot = true ∨ fr = [] := hdf.imp id List.isEmpty_iff.mp
  have hne' : ¬ (ip = [] ∧ fr = []) := by
    intro ⟨a, b⟩; subst a; subst b; simp at hne
  have hT := floatText ⟨ip, dot, fr, expo, suf⟩
  simp only at hT
  have hlen0 : (ip ++ (if dot then ['.'] else []) ++ fr ++ expoText expo ++ suf).length ≠ 0 := by
    simp only [List.length_append]
    intro h0
    have : ip.length = 0 ∧ fr.length = 0 := by omega
    exact hne' ⟨List.length_eq_zero_iff.mp this.1, List.length_eq_zero_iff.mp this.2⟩
  have hlen : (ip ++ (if dot then ['.'] else []) ++ fr ++ expoText expo ++ suf).length + 1 =
      ((ip ++ (if dot then ['.'] else []) ++ fr ++ expoText expo ++ suf).length - 1) + 2 := by omega
  -- the remaining work is the same for both shapes of the exponent
  have finish : ExpoOk expo →
      loadTok (FloatLit.text ⟨ip, dot, fr, expo, suf⟩) = Prim.ofVal v ∧ (v.ty = .float ∨ v.ty = .double) := by
    intro hx'
    have hload := load_float_text ((ip ++ (if dot then ['.'] else []) ++ fr ++ expoText expo ++ suf).length - 1)
      ip fr dot expo suf hip hfr hdf' hne' hs hx' hde
    have hatof := atof_text ip fr dot expo suf hip hfr hdf' hne' hs hx'
    unfold loadTok
    rw [hT, hlen, hload, hatof]
    have hexp : FloatLit.exp10 ⟨ip, dot, fr, expo, suf⟩ = expE expo - Int.ofNat fr.length := by
      unfold FloatLit.exp10 expE; cases expo <;> rfl
    unfold floatLitVal at h
    rw [if_pos hwf0] at h
    by_cases hsafe : FloatLit.mantissa ⟨ip, dot, fr, expo, suf⟩ < 2 ^ 53 ∧ -22 ≤ FloatLit.exp10 ⟨ip, dot, fr, expo, suf⟩ ∧
        FloatLit.exp10 ⟨ip, dot, fr, expo, suf⟩ ≤ 22 ∧ FloatLit.expDigits ⟨ip, dot, fr, expo, suf⟩ ≤ 3
    · rw [if_pos hsafe] at h
      rw [hexp] at hsafe h
      simp only [FloatLit.mantissa] at hsafe h
      simp only [hsafe.1, hsafe.2.1, hsafe.2.2.1, and_self, if_true]
      by_cases hse : suf = []
      · subst hse
        simp only [if_true] at h
        unfold finite64 at h
        split at h
        · exact ⟨by rw [← Res.val.inj h]; rfl, Or.inr (by rw [← Res.val.inj h])⟩
        · exact Res.noConfusion h
      · simp only [hse, if_false] at h
        have hne2 : suf.isEmpty = false := by
          cases suf with
          | nil => exact absurd rfl hse
          | cons _ _ => rfl
        unfold finite32 at h
        split at h
        · exact ⟨by rw [← Res.val.inj h, hne2]; rfl, Or.inl (by rw [← Res.val.inj h])⟩
        · exact Res.noConfusion h
    · rw [if_neg hsafe] at h
      exact Res.noConfusion h
  cases expo with
  | none => exact finish trivial
  | some x =>
    obtain ⟨e, s, d⟩ := x
    simp only [Bool.and_eq_true, decide_eq_true_eq, Bool.not_eq_true', List.all_eq_true] at hx
    exact finish ⟨hx.1.1.1, hx.1.1.2, by intro hd; simp [hd] at hx, hx.2⟩

end Occa.Prim.Lemmas
