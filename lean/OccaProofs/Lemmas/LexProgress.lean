/-
Helper lemmas for C12: every token function returns without a trap and leaves a suffix; getToken
consumes at least one character.
-/
import OccaProofs.Lemmas.LexTotal

namespace Occa.Lex
open Occa.Gen

theorem skipFrom_ok (ds : List Char) (r : Str) : ∃ r', skipFrom ds r = .ok r' ∧ Suffix r' r := skipUntil_ok _ r
theorem skipTo_ok (ds : List Char) (r : Str) : ∃ r', skipTo ds r = .ok r' ∧ Suffix r' r := skipUntil_ok _ r
theorem skipToChar_ok (d : Char) (r : Str) : ∃ r', skipToChar d r = .ok r' ∧ Suffix r' r := skipUntil_ok _ r
theorem skipWhitespace_ok (r : Str) : ∃ r', skipWhitespace r = .ok r' ∧ Suffix r' r := skipUntil_ok _ r

theorem getIdentifier_ok (r : Str) : ∃ w r1, getIdentifier r = .ok (w, r1) ∧ Suffix r1 r ∧
    (identifierStart.contains (hd r) = true → r1.length < r.length) := by
  by_cases h : identifierStart.contains (hd r) = true
  · obtain ⟨c, t, rfl⟩ := nonempty_of_idStart h
    obtain ⟨r1, e, s⟩ := skipFrom_ok identifier t
    refine ⟨consumed (c :: t) r1, r1, ?_, s.cons c, fun _ => ?_⟩
    · have h' : c ∈ identifierStart := by simpa using h
      simp [getIdentifier, h', e, bind, Except.bind, pure, Except.pure]
    · have := s.length_le; simp; omega
  · refine ⟨[], r, ?_, Suffix.refl _, fun h' => absurd h' h⟩
    have h' : ¬ hd r ∈ identifierStart := by simpa using h
    simp [getIdentifier, h', pure, Except.pure]

theorem getUdf_ok (r : Str) : ∃ w r1, getUdf r = .ok (w, r1) ∧ Suffix r1 r := by
  unfold getUdf
  split
  · obtain ⟨w, r1, e, s, _⟩ := getIdentifier_ok r
    exact ⟨w, r1, e, s⟩
  · exact ⟨[], r, rfl, Suffix.refl _⟩

theorem blockLoop_ok (r : Str) : ∃ r1, blockLoop r = .ok r1 ∧ Suffix r1 r := by
  induction r with
  | nil => exact ⟨[], rfl, Suffix.refl _⟩
  | cons c t ih =>
    obtain ⟨r1, e, s⟩ := ih
    rw [blockLoop]
    by_cases hc : c = '*'
    · simp only [hc, if_true, rd_cons_one]
      by_cases hd' : hd t = '/'
      · simp only [hd', if_true]
        cases t with
        | nil => simp [NUL] at hd'
        | cons d t' => exact ⟨t', by simp, ((Suffix.refl t').cons d).cons _⟩
      · simp only [hd', if_false]
        exact ⟨r1, e, s.cons _⟩
    · simp only [hc, if_false]
      exact ⟨r1, e, s.cons _⟩

theorem getD_of_ne_nul {r : Str} {k : Nat} {x : Char} (h : r[k]?.getD NUL = x) (hx : x ≠ NUL) : k < r.length := by
  rcases Nat.lt_or_ge k r.length with h1 | h1
  · exact h1
  · rw [List.getElem?_eq_none h1] at h; exact absurd h.symm hx

theorem matchAt_ok (r : Str) : ∀ (m : Str) (k : Nat), NoNul m → k ≤ r.length →
    ∃ b, matchAt r m k = .ok b ∧ (b = true → k + m.length ≤ r.length) := by
  intro m
  induction m with
  | nil => intro k _ hk; exact ⟨true, rfl, fun _ => by simpa using hk⟩
  | cons x m' ih =>
    intro k hm hk
    rw [matchAt]
    simp only [rd, hk, if_true]
    by_cases hx : r[k]?.getD NUL = x
    · have hlt := getD_of_ne_nul hx (hm x (by simp))
      obtain ⟨b, e, hb⟩ := ih (k + 1) (fun c hc => hm c (by simp [hc])) hlt
      refine ⟨b, by simp [hx, e], fun h => ?_⟩
      have := hb h; simp; omega
    · exact ⟨false, by simp [hx], fun h => by cases h⟩

theorem rawLoop_ok (m : Str) (hm : NoNul m) (r : Str) :
    ∃ r4, rawLoop m r = .ok r4 ∧ Suffix r4 r ∧ (r4 = [] ∨ m.length ≤ r4.length) := by
  induction r with
  | nil => exact ⟨[], rfl, Suffix.refl _, Or.inl rfl⟩
  | cons c t ih =>
    obtain ⟨b, e, hb⟩ := matchAt_ok (c :: t) m 0 hm (by simp)
    rw [rawLoop, e]
    cases b with
    | true => exact ⟨c :: t, rfl, Suffix.refl _, Or.inr (by simpa using hb rfl)⟩
    | false =>
      obtain ⟨r4, e4, s4, h4⟩ := ih
      exact ⟨r4, e4, s4.cons c, h4⟩

theorem getRawString_ok (r : Str) (hn : NoNul r) : ∃ v r', getRawString r = .ok (v, r') ∧ Suffix r' r := by
  by_cases h0 : hd r = '"'
  · obtain ⟨t, rfl⟩ := ne_nil_of_hd h0 (by decide)
    obtain ⟨r2, e2, s2⟩ := skipTo_ok ['(', '\n'] t
    by_cases h2 : hd r2 = '('
    · obtain ⟨t2, rfl⟩ := ne_nil_of_hd h2 (by decide)
      have hm : NoNul (')' :: (consumed t ('(' :: t2) ++ ['"'])) := by
        intro c hc
        rcases List.mem_cons.mp hc with rfl | hc
        · decide
        · rcases List.mem_append.mp hc with hc | hc
          · exact (hn.tail.consumed _) c hc
          · simp at hc; subst hc; decide
      obtain ⟨r4, e4, s4, h4⟩ := rawLoop_ok _ hm t2
      by_cases h4n : hd r4 = NUL
      · refine ⟨[], _, ?_, Suffix.refl _⟩
        simp only [getRawString, bind, Except.bind, pure, Except.pure, hd_cons, adv_cons_one, e2, e4, h4n]
        simp
      · have hne : r4 ≠ [] := by intro e; subst e; simp at h4n
        have hl := h4.resolve_left hne
        have e5 := adv_ok_of_le hl
        refine ⟨consumed t2 r4, r4.drop (')' :: (consumed t ('(' :: t2) ++ ['"'])).length, ?_, ?_⟩
        · simp only [getRawString, bind, Except.bind, pure, Except.pure, hd_cons, adv_cons_one, e2, e4, h4n, e5]
          simp
        · exact ((((Suffix.drop r4 _).trans s4).cons '(').trans s2).cons '"'
    · refine ⟨[], _, ?_, Suffix.refl _⟩
      simp only [getRawString, bind, Except.bind, pure, Except.pure, hd_cons, adv_cons_one, e2]
      simp [h2]
  · refine ⟨[], r, ?_, Suffix.refl _⟩
    simp only [getRawString, bind, Except.bind, pure, Except.pure]
    simp [h0]

theorem getString_ok (enc : Nat) (r : Str) (hn : NoNul r) :
    ∃ v ok e r', getString enc r = .ok (v, ok, e, r') ∧ Suffix r' r ∧
      (enc &&& encR = 0 → hd r = '"' → r'.length < r.length) := by
  by_cases hr : enc &&& encR = 0
  · by_cases h0 : hd r = '"'
    · obtain ⟨t, rfl⟩ := ne_nil_of_hd h0 (by decide)
      obtain ⟨r2, e2, s2⟩ := skipTo_ok ['"', '\n'] t
      by_cases h2 : hd r2 = '"'
      · obtain ⟨t2, rfl⟩ := ne_nil_of_hd h2 (by decide)
        refine ⟨unescape '"' (consumed t ('"' :: t2)), true, 0, t2, ?_, ((Suffix.refl t2).cons '"' |>.trans s2).cons '"', fun _ _ => ?_⟩
        · simp only [getString, bind, Except.bind, pure, Except.pure, hd_cons, adv_cons_one, e2, hr]
          simp
        · have := s2.length_le; simp at this ⊢; omega
      · refine ⟨[], false, 1, r2, ?_, s2.cons '"', fun _ _ => ?_⟩
        · simp only [getString, bind, Except.bind, pure, Except.pure, hd_cons, adv_cons_one, e2, hr]
          simp [h2]
        · have := s2.length_le; simp; omega
    · refine ⟨[], false, 0, r, ?_, Suffix.refl _, fun _ h => absurd h h0⟩
      simp only [getString, bind, Except.bind, pure, Except.pure, hr]
      simp [h0]
  · obtain ⟨v, r', e, s⟩ := getRawString_ok r hn
    refine ⟨v, true, 0, r', ?_, s, fun h => absurd h hr⟩
    simp only [getString, bind, Except.bind, pure, Except.pure, e]
    simp [hr]

/-- what `peek` guarantees about the position for each token type -/
def PeekInv : Kind → Str → Prop
  | .ident, r => identifierStart.contains (hd r) = true
  | .prim, r => ∃ x, loadScan false r = some x
  | .op, r => longestOp r ≠ none
  | .str enc, r => (enc = 0 ∧ hd r = '"') ∨ (enc ≠ 0 ∧ identifierStart.contains (hd r) = true)
  | .chr enc, r => (enc = 0 ∧ hd r = '\'') ∨ (enc ≠ 0 ∧ identifierStart.contains (hd r) = true)
  | .newline, _ => True
  | .none, _ => True

/-- the outcome of a token function that is neither a trap nor a stall -/
def Fine (r : Str) (x : M Step) : Prop := ∃ t e r', x = .ok (t, e, r') ∧ Suffix r' r ∧ r'.length < r.length

theorem getIdentifierToken_fine (r : Str) (h : identifierStart.contains (hd r) = true) : Fine r (getIdentifierToken r) := by
  obtain ⟨w, r1, e, s, hl⟩ := getIdentifier_ok r
  refine ⟨some (.ident w), 0, r1, ?_, s, hl h⟩
  have h' : hd r ∈ identifierStart := by simpa using h
  simp only [getIdentifierToken, bind, Except.bind, pure, Except.pure, e]
  simp [h']

theorem getPrimitiveToken_fine (r : Str) (h : ∃ x, loadScan false r = some x) : Fine r (getPrimitiveToken r) := by
  obtain ⟨x, hx⟩ := h
  have hx' : loadScan true r = some x := loadF_true_of_false _ r x hx
  obtain ⟨⟨w, rfl, hw⟩, hl⟩ := loadScan_suffix hx'
  refine ⟨some (.prim (consumed (w ++ x) x)), 0, x, ?_, ⟨w, rfl⟩, hl⟩
  have hb : (consumed (w ++ x) x).contains '\\' = false := by
    rw [consumed_append]
    cases hc : w.contains '\\' with
    | false => rfl
    | true => exact absurd rfl (hw '\\' (by simpa using hc))
  simp only [getPrimitiveToken, hx', countSkippedLines, hb, bind, Except.bind, pure, Except.pure]
  simp

theorem getOperatorToken_fine (r : Str) (h : longestOp r ≠ none) : Fine r (getOperatorToken r) := by
  cases hl : longestOp r with
  | none => exact absurd hl h
  | some p =>
    obtain ⟨id, len⟩ := p
    obtain ⟨sp, h1, h2, h3, h4, _⟩ := longestOp_some hl
    obtain ⟨t, rfl⟩ := prefix_of_isPrefixOf h2
    by_cases hlc : id = lineCommentId
    · subst hlc
      have : sp = ['/', '/'] := by rw [registered_lineComment] at h1; exact (Option.some.inj h1).symm
      subst this
      simp only [List.cons_append, List.nil_append] at hl
      obtain ⟨r1, e, s⟩ := skipUntil_progress (stop := (· == '\n')) (c := '/') ('/' :: t) (by decide) (by decide)
      refine ⟨some (.comment (consumed ('/' :: '/' :: t) r1)), 0, r1, ?_, s.cons '/', ?_⟩
      · simp only [getOperatorToken, hl, skipToChar, List.cons_append, List.nil_append, e, bind, Except.bind, pure, Except.pure]
        simp
      · have := s.length_le; simp at this ⊢; omega
    · by_cases hbc : id = blockCommentId
      · subst hbc
        have : sp = ['/', '*'] := by rw [registered_blockComment] at h1; exact (Option.some.inj h1).symm
        subst this
        simp only [List.cons_append, List.nil_append] at hl
        obtain ⟨r1, e, s⟩ := blockLoop_ok t
        refine ⟨some (.comment (consumed ('/' :: '*' :: t) r1)), 0, r1, ?_, (s.cons '*').cons '/', ?_⟩
        · simp only [getOperatorToken, hl, List.cons_append, List.nil_append, adv_cons_two, e, hlc, bind, Except.bind, pure, Except.pure]
          simp
        · have := s.length_le; simp; omega
      · have e := adv_append sp t
        refine ⟨some (.op id), 0, t, ?_, ⟨sp, rfl⟩, ?_⟩
        · rw [← h3] at e
          simp only [getOperatorToken, hl, e, hlc, hbc, bind, Except.bind, pure, Except.pure]
          simp
        · simp; omega

theorem encR_zero : (0 : Nat) &&& encR = 0 := by decide

theorem getStringToken_fine (enc : Nat) (r : Str) (hn : NoNul r)
    (inv : (enc = 0 ∧ hd r = '"') ∨ (enc ≠ 0 ∧ identifierStart.contains (hd r) = true)) :
    Fine r (getStringToken enc r) := by
  rcases inv with ⟨rfl, h0⟩ | ⟨hne, hid⟩
  · obtain ⟨v, ok, e, r2, es, s2, hl⟩ := getString_ok 0 r hn
    have hl := hl encR_zero h0
    obtain ⟨udf, r3, eu, s3⟩ := getUdf_ok r2
    cases ok with
    | false =>
      refine ⟨none, e, r2, ?_, s2, hl⟩
      simp only [getStringToken, bind, Except.bind, pure, Except.pure, es]
      simp [h0]
    | true =>
      refine ⟨some (.str 0 v udf), e, r3, ?_, s3.trans s2, by have := s3.length_le; omega⟩
      simp only [getStringToken, bind, Except.bind, pure, Except.pure, es, eu]
      simp [h0]
  · obtain ⟨w, r1, e1, s1, hl1⟩ := getIdentifier_ok r
    have hl1 := hl1 hid
    by_cases h1 : hd r1 = '"'
    · obtain ⟨v, ok, e, r2, es, s2, _⟩ := getString_ok enc r1 (hn.suffix s1)
      obtain ⟨udf, r3, eu, s3⟩ := getUdf_ok r2
      cases ok with
      | false =>
        refine ⟨none, e, r2, ?_, s2.trans s1, by have := s2.length_le; omega⟩
        simp only [getStringToken, bind, Except.bind, pure, Except.pure, e1, es]
        simp [hne, h1]
      | true =>
        refine ⟨some (.str enc v udf), e, r3, ?_, (s3.trans s2).trans s1, by have := s3.length_le; have := s2.length_le; omega⟩
        simp only [getStringToken, bind, Except.bind, pure, Except.pure, e1, es, eu]
        simp [hne, h1]
    · refine ⟨none, 1, r1, ?_, s1, hl1⟩
      simp only [getStringToken, bind, Except.bind, pure, Except.pure, e1]
      simp [hne, h1]

/-- the part of getCharToken after the optional prefix, on a position that starts with the quote -/
theorem charBody_ok (enc : Nat) (t : Str) :
    ∃ tok e r', (do
        let r2 ← adv ('\'' :: t) 1
        let r3 ← skipTo ['\'', '\n'] r2
        if hd r3 ≠ '\'' then return (none, 1, r2)
        let r4 ← adv r3 1
        let (udf, r5) ← getUdf r4
        return (some (.chr enc (unescape '\'' (consumed r2 r3)) udf), 0, r5) : M Step) = .ok (tok, e, r') ∧ Suffix r' t := by
  obtain ⟨r3, e3, s3⟩ := skipTo_ok ['\'', '\n'] t
  by_cases h3 : hd r3 = '\''
  · obtain ⟨t3, rfl⟩ := ne_nil_of_hd h3 (by decide)
    obtain ⟨udf, r5, eu, s5⟩ := getUdf_ok t3
    refine ⟨some (.chr enc (unescape '\'' (consumed t ('\'' :: t3))) udf), 0, r5, ?_, (s5.cons '\'').trans s3⟩
    simp only [bind, Except.bind, pure, Except.pure, adv_cons_one, e3, hd_cons, eu]
    simp
  · refine ⟨none, 1, t, ?_, Suffix.refl _⟩
    simp only [bind, Except.bind, pure, Except.pure, adv_cons_one, e3]
    simp [h3]

theorem getCharToken_fine (enc : Nat) (r : Str)
    (inv : (enc = 0 ∧ hd r = '\'') ∨ (enc ≠ 0 ∧ identifierStart.contains (hd r) = true)) :
    Fine r (getCharToken enc r) := by
  rcases inv with ⟨rfl, h0⟩ | ⟨hne, hid⟩
  · obtain ⟨t, rfl⟩ := ne_nil_of_hd h0 (by decide)
    obtain ⟨tok, e, r', eb, sb⟩ := charBody_ok 0 t
    refine ⟨tok, e, r', ?_, sb.cons '\'', by have := sb.length_le; simp; omega⟩
    rw [← eb]
    simp only [getCharToken, bind, Except.bind, pure, Except.pure]
    simp
  · obtain ⟨w, r1, e1, s1, hl1⟩ := getIdentifier_ok r
    have hl1 := hl1 hid
    by_cases h1 : hd r1 = '\''
    · obtain ⟨t, rfl⟩ := ne_nil_of_hd h1 (by decide)
      obtain ⟨tok, e, r', eb, sb⟩ := charBody_ok enc t
      refine ⟨tok, e, r', ?_, (sb.cons '\'').trans s1, by have := sb.length_le; simp at hl1; omega⟩
      rw [← eb]
      simp only [getCharToken, bind, Except.bind, pure, Except.pure, e1]
      simp [hne]
    · refine ⟨none, 1, r1, ?_, s1, hl1⟩
      simp only [getCharToken, bind, Except.bind, pure, Except.pure, e1]
      simp [hne, h1]

theorem dispatch_fine (k : Kind) (r : Str) (hn : NoNul r) (hr : r ≠ []) (inv : PeekInv k r) : Fine r (dispatch k r) := by
  cases k with
  | ident => exact getIdentifierToken_fine r inv
  | prim => exact getPrimitiveToken_fine r inv
  | op => exact getOperatorToken_fine r inv
  | str enc => exact getStringToken_fine enc r hn inv
  | chr enc => exact getCharToken_fine enc r inv
  | newline =>
    cases r with
    | nil => exact absurd rfl hr
    | cons c t => exact ⟨some .newline, 0, t, by simp [dispatch, bind, Except.bind, pure, Except.pure], (Suffix.refl t).cons c, by simp⟩
  | none =>
    cases r with
    | nil => exact absurd rfl hr
    | cons c t => exact ⟨some (.unknown c), 0, t, by simp [dispatch, bind, Except.bind, pure, Except.pure], (Suffix.refl t).cons c, by simp⟩

theorem peekForIdentifier_ok (r : Str) (h : identifierStart.contains (hd r) = true) :
    ∃ k, peekForIdentifier r = .ok k ∧ PeekInv k r := by
  obtain ⟨c, t, rfl⟩ := nonempty_of_idStart h
  obtain ⟨r1, e1, s1⟩ := skipFrom_ok identifier t
  by_cases hreg : registered.contains (consumed (c :: t) r1) = true
  · refine ⟨.op, ?_, ?_⟩
    · simp only [peekForIdentifier, bind, Except.bind, pure, Except.pure, adv_cons_one, e1, hreg]
      simp
    · -- the identifier is a registered spelling and a prefix of the input
      obtain ⟨w, hw⟩ := s1.cons c
      intro hnone
      have hmem : consumed (c :: t) r1 ∈ registered := by simpa using hreg
      have hp : (consumed (c :: t) r1).isPrefixOf (c :: t) = true := by
        rw [hw, consumed_append]; exact isPrefixOf_append _ _
      exact registered_nonempty _ hmem (longestOp_none hnone _ hmem hp)
  · by_cases hs : hd r1 = '"' ∧ getStringEncoding (consumed (c :: t) r1) ≠ 0
    · refine ⟨.str (getStringEncoding (consumed (c :: t) r1)), ?_, Or.inr ⟨hs.2, h⟩⟩
      simp only [peekForIdentifier, bind, Except.bind, pure, Except.pure, adv_cons_one, e1, hreg]
      simp [hs]
    · by_cases hc : hd r1 = '\'' ∧ getCharacterEncoding (consumed (c :: t) r1) ≠ 0
      · refine ⟨.chr (getCharacterEncoding (consumed (c :: t) r1)), ?_, Or.inr ⟨hc.2, h⟩⟩
        simp only [peekForIdentifier, bind, Except.bind, pure, Except.pure, adv_cons_one, e1, hreg]
        simp [hs, hc]
      · refine ⟨.ident, ?_, h⟩
        simp only [peekForIdentifier, bind, Except.bind, pure, Except.pure, adv_cons_one, e1, hreg]
        simp [hs, hc]

theorem classifyChar_inv (r : Str) : PeekInv (classifyChar (hd r)) r ∨
    (classifyChar (hd r) = .ident ∧ identifierStart.contains (hd r) = true) ∨ classifyChar (hd r) = .op := by
  unfold classifyChar
  split
  · exact Or.inr (Or.inl ⟨rfl, ‹_›⟩)
  · split
    · exact Or.inr (Or.inr rfl)
    · split
      · exact Or.inl trivial
      · split
        · exact Or.inl (Or.inl ⟨rfl, ‹_›⟩)
        · split
          · exact Or.inl (Or.inl ⟨rfl, ‹_›⟩)
          · exact Or.inl trivial

theorem peek_ok (r : Str) (hi : skipWhitespace r = .ok r) : ∃ k err, peek r = .ok (k, err, r) ∧ PeekInv k r := by
  by_cases h0 : hd r = NUL
  · refine ⟨.none, false, ?_, trivial⟩
    simp only [peek, shallowPeek, bind, Except.bind, pure, Except.pure, hi]
    simp [h0]
  · by_cases hp : isPrimitiveAt r = true
    · refine ⟨.prim, false, ?_, ?_⟩
      · simp only [peek, shallowPeek, bind, Except.bind, pure, Except.pure, hi]
        simp [h0, hp]
      · unfold isPrimitiveAt at hp
        cases hl : loadScan false r with
        | none => simp [hl] at hp
        | some x => exact ⟨x, hl⟩
    · have hsp : shallowPeek r = .ok (classifyChar (hd r), r) := by
        simp only [shallowPeek, bind, Except.bind, pure, Except.pure, hi]
        simp [h0, hp]
      rcases classifyChar_inv r with hinv | ⟨hk, hid⟩ | hk
      · -- passes through unless it is ident / op, which the invariant excludes or handles
        cases hc : classifyChar (hd r) with
        | ident =>
          rw [hc] at hinv
          obtain ⟨k, ek, ik⟩ := peekForIdentifier_ok r hinv
          exact ⟨k, false, by simp only [peek, hsp, hc, bind, Except.bind, pure, Except.pure, ek], ik⟩
        | op =>
          cases hl : longestOp r with
          | none => exact ⟨.none, true, by simp only [peek, hsp, hc, bind, Except.bind, pure, Except.pure, hl], trivial⟩
          | some p => exact ⟨.op, false, by simp only [peek, hsp, hc, bind, Except.bind, pure, Except.pure, hl], by simp [PeekInv, hl]⟩
        | prim => rw [hc] at hinv; exact ⟨.prim, false, by simp only [peek, hsp, hc, bind, Except.bind, pure, Except.pure], hinv⟩
        | newline => exact ⟨.newline, false, by simp only [peek, hsp, hc, bind, Except.bind, pure, Except.pure], trivial⟩
        | none => exact ⟨.none, false, by simp only [peek, hsp, hc, bind, Except.bind, pure, Except.pure], trivial⟩
        | str enc => rw [hc] at hinv; exact ⟨.str enc, false, by simp only [peek, hsp, hc, bind, Except.bind, pure, Except.pure], hinv⟩
        | chr enc => rw [hc] at hinv; exact ⟨.chr enc, false, by simp only [peek, hsp, hc, bind, Except.bind, pure, Except.pure], hinv⟩
      · obtain ⟨k, ek, ik⟩ := peekForIdentifier_ok r hid
        exact ⟨k, false, by simp only [peek, hsp, hk, bind, Except.bind, pure, Except.pure, ek], ik⟩
      · cases hl : longestOp r with
        | none => exact ⟨.none, true, by simp only [peek, hsp, hk, bind, Except.bind, pure, Except.pure, hl], trivial⟩
        | some p => exact ⟨.op, false, by simp only [peek, hsp, hk, bind, Except.bind, pure, Except.pure, hl], by simp [PeekInv, hl]⟩

/-- progress: on a position that is not the end, getToken returns (no trap) and has consumed at least one character -/
theorem getToken_progress (r : Str) (hn : NoNul r) (hr : r ≠ []) : Fine r (getToken r) := by
  obtain ⟨r1, e1, s1⟩ := skipWhitespace_ok r
  by_cases h1 : r1 = []
  · subst h1
    refine ⟨some .newline, 0, [], ?_, Suffix.nil r, ?_⟩
    · simp only [getToken, bind, Except.bind, pure, Except.pure, e1]
      simp
    · cases r with
      | nil => exact absurd rfl hr
      | cons c t => simp
  · have hi : skipWhitespace r1 = .ok r1 := skipUntil_idem _ r e1
    obtain ⟨k, err, ep, inv⟩ := peek_ok r1 hi
    obtain ⟨t, e, r', ed, sd, ld⟩ := dispatch_fine k r1 (hn.suffix s1) h1 inv
    refine ⟨t, (if err then 1 else 0) + e, r', ?_, sd.trans s1, by have := s1.length_le; omega⟩
    have hne : r1.isEmpty = false := by cases r1 with
      | nil => exact absurd rfl h1
      | cons c t => rfl
    simp only [getToken, bind, Except.bind, pure, Except.pure, e1, ep, ed, hne]
    simp

/-- the token loop neither traps nor runs out of fuel -/
theorem tokenizeF_total : ∀ (fuel : Nat) (r : Str) (errs : Nat) (acc : List Tok), NoNul r → r.length < fuel →
    ∃ res, tokenizeF fuel r errs acc = .ok res := by
  intro fuel
  induction fuel with
  | zero => intro r _ _ _ h; exact absurd h (Nat.not_lt_zero _)
  | succ f ih =>
    intro r errs acc hn hl
    cases r with
    | nil => exact ⟨_, rfl⟩
    | cons c t =>
      obtain ⟨tok, e, r', eg, sg, lg⟩ := getToken_progress (c :: t) hn (by simp)
      rw [tokenizeF, eg]
      exact ih r' _ _ (hn.suffix sg) (by simp at hl lg ⊢; omega)

theorem tokenize_total (s : Str) (hn : NoNul s) : ∃ res, tokenize s = .ok res :=
  tokenizeF_total _ s 0 [] hn (by simp)

end Occa.Lex
