/-
`setModeX`, constructors and destructors of handles, assignment from a returned temporary.
-/
import OccaProofs.Lemmas.GcNew3

namespace Occa.Gc

structure SetOut (s s' : St) (v : Var) : Prop where
  vlive : ∀ w, (∀ d, w = Var.cur d → s'.alive d = true) → s'.vlive w = s.vlive w
  kind : s'.kind = s.kind
  next : s'.next = s.next
  alive_sub : ∀ t, s'.alive t = true → s.alive t = true
  devs : ∀ t, s.alive t = true → s.kind t = .dev → s.ptr v ≠ some t → s'.alive t = true

theorem SetOut.refl (s : St) (v : Var) : SetOut s s v :=
  ⟨fun _ _ => rfl, rfl, rfl, fun _ h => h, fun _ h _ _ => h⟩

theorem SetOut.of_drop {s s' : St} {v : Var} (h : DropOut s s' v) : SetOut s s' v :=
  ⟨h.vlive, h.kind, h.next, h.alive_sub, h.devs⟩

/-- `X::setModeX(modeX_)` keeps the invariant -/
theorem InvX.set_mode {s : St} {v : Var} {tgt : Option Nat} (hi : InvX E s) (hl : s.vlive v = true)
    (hvc : ∀ d, v = Var.cur d → s.alive d = true ∧ s.kind d = .dev)
    (ht : ∀ o, tgt = some o → s.alive o = true ∧ s.kind o = v.kind.obj) :
    InvX E (setMode s v tgt) ∧ SetOut s (setMode s v tgt) v ∧ (setMode s v tgt).ptr v = tgt := by
  by_cases hsame : s.ptr v = tgt
  · have : setMode s v tgt = s := by unfold setMode; simp only [hsame, if_true]
    rw [this]
    exact ⟨hi, SetOut.refl s v, hsame⟩
  · obtain ⟨hi2, hdo⟩ := hi.detach (v := v)
    cases tgt with
    | none =>
      have he : setMode s v none = (dropRef s v).setPtr v none := by
        unfold setMode; simp only [hsame, if_false]
      rw [he]
      exact ⟨hi2, SetOut.of_drop hdo, hdo.ptr⟩
    | some o =>
      obtain ⟨hoa, hok⟩ := ht o rfl
      have h2a : ((dropRef s v).setPtr v none).alive o = true := hdo.keep o hoa hok hsame
      have he : setMode s v (some o)
          = (((dropRef s v).setPtr v none).setPtr v (some o)).setRing o
              (Ring.add (((dropRef s v).setPtr v none).ring o) v) := by
        unfold setMode
        simp only [hsame, if_false]
        have ha' : ((dropRef s v).setPtr v (some o)).alive o = true := h2a
        simp only [St.touch_alive ha']
        rw [setPtr_setPtr]
        rfl
      rw [he]
      generalize (dropRef s v).setPtr v none = s2 at *
      have hvl : s2.vlive v = true := by
        rw [hdo.vlive v]
        · exact hl
        · intro d hd
          obtain ⟨a, b⟩ := hvc d hd
          apply hdo.devs d a b
          intro hp
          have := (hi.ptr_ok v d hp (fun h => h)).2.1
          rw [b, hd] at this
          cases this
      refine ⟨hi2.attach (fun h => h) hdo.ptr hvl h2a (by rw [hdo.kind]; exact hok), ?_, ?_⟩
      · exact ⟨hdo.vlive, hdo.kind, hdo.next, hdo.alive_sub, hdo.devs⟩
      · simp [St.setRing, St.setPtr]

/-- default constructor of a handle -/
theorem InvX.construct_ok {s : St} {v : Var} (hi : InvX E s) (hl : s.vlive v = false)
    (hc : ∀ d, v = Var.cur d → d < s.next) :
    InvX E (construct s v) ∧ construct s v = s.setVLive v true := by
  have hp : s.ptr v = none := by
    cases h : s.ptr v with
    | none => rfl
    | some x =>
      have := hi.ptr_live v x h
      rw [hl] at this; cases this
  have he : construct s v = s.setVLive v true := by
    unfold construct
    exact setPtr_none_self _ _ hp
  rw [he]
  exact ⟨hi.kill_var hp true (fun _ => hc), rfl⟩

/-- destructor of a handle -/
theorem InvX.destruct_ok {s : St} {v : Var} (hi : InvX E s) :
    InvX E (destruct s v) ∧ (destruct s v).vlive v = false
      ∧ (∀ w, w ≠ v → (∀ d, w = Var.cur d → (destruct s v).alive d = true) → (destruct s v).vlive w = s.vlive w)
      ∧ (destruct s v).kind = s.kind ∧ (destruct s v).next = s.next
      ∧ (∀ t, (destruct s v).alive t = true → s.alive t = true)
      ∧ (∀ t, s.alive t = true → s.kind t = .dev → s.ptr v ≠ some t → (destruct s v).alive t = true) := by
  obtain ⟨hi2, hdo⟩ := hi.detach (v := v)
  unfold destruct
  generalize (dropRef s v).setPtr v none = s2 at *
  refine ⟨hi2.kill_var hdo.ptr false (by intro h; cases h), by simp [St.setVLive], ?_, hdo.kind, hdo.next,
    hdo.alive_sub, hdo.devs⟩
  intro w hwv hw
  show upd s2.vlive v false w = s.vlive w
  rw [upd_other _ _ hwv]
  exact hdo.vlive w hw

end Occa.Gc
