/-
Tie (T) of the JSON models to the source: the hand-written definitions of OccaModel/Json.lean,
JsonPath.lean and Props.lean agree with the tables and shapes that translate/gen_json.py extracts from
the CURRENT json.cpp / json.tpp / primitive.hpp / primitive.cpp / lex.cpp / string.cpp / device.cpp.
If the code changes (a character dropped from the whitespace set, an escape added, keys no longer
escaped, a layer added to getObjectSpecificProps, …) the generated file changes and these theorems stop
checking, which the check reports as a broken proof obligation.
-/
import OccaGen.JsonConsts
import OccaModel.Props

namespace Occa.Json
open Occa.Gen.Json

/-- lex::whitespaceCharset and json::objectKeyEndChars -/
theorem gen_ws_agrees : ∀ n, n < 256 →
    isWs (UInt8.ofNat n) = wsChars.contains (UInt8.ofNat n)
      ∧ isKeyEnd (UInt8.ofNat n) = keyEndChars.contains (UInt8.ofNat n) := by
  decide +kernel

/-- the escape switch of the dumper -/
theorem gen_escape_agrees : ∀ n, n < 256 →
    escByte (UInt8.ofNat n) =
      match escapes.lookup (UInt8.ofNat n) with
      | some l => [cBackslash, l]
      | none => [UInt8.ofNat n] := by
  decide +kernel

def okStr : Res Bytes → Option Bytes
  | .ok (s, _) => some s
  | .error _ => none

/-- the unescape switch of the loader: after a backslash, a listed letter gives the listed character,
    a newline is skipped, `u` starts a kept \uXXXX escape (an error here: no hex digits follow), every
    other character stands for itself -/
theorem gen_unescape_agrees : ∀ n, n < 256 →
    okStr (loadStr cQuote true [UInt8.ofNat n, cQuote] []) =
      if UInt8.ofNat n = cNl ∧ loaderSkipsEscapedNewline = true then some []
      else if UInt8.ofNat n = 117 ∧ loaderKeepsUnicodeEscapes = true then none
      else match unescapes.lookup (UInt8.ofNat n) with
        | some c => some [c]
        | none => some [UInt8.ofNat n] := by
  decide +kernel

/-- bit positions of primitiveType, print precisions, the `L` suffix -/
theorem gen_prim_agrees :
    [PType.none, .bool, .i8, .u8, .i16, .u16, .i32, .u32, .i64, .u64, .f32, .f64].map PType.rank = typeRanks
      ∧ floatPrecision = 8 ∧ doublePrecision = 16
      ∧ longSuffixTypes = ["int64_", "uint64_"] ∧ toStringPrefersSource = true := by
  decide

/-- the shapes the model of the repaired code relies on -/
theorem gen_shapes_agree :
    keysEscaped = true ∧ noneMemberDumpedAsBraces = true ∧ closingBraceRequired = true
      ∧ mergeTestsLiteralKey = true ∧ getPathValueEscapes = true ∧ pathAccessorsEscape = true
      ∧ setConvertsThroughAsObject = true ∧ typedAssignClearsSource = true := by
  decide

/-- the `+` chains and removals of getModeSpecificProps / getObjectSpecificProps / initialObjectProps
    are the ones modelled in OccaModel/Props.lean -/
theorem gen_layers_agree :
    modeLayers = [[], ["modes", "$M"]] ∧ modeRemoves = [["modes"]]
      ∧ objectLayers = [["$O"], ["$O", "modes", "$M"], ["modes", "$M", "$O"]]
      ∧ objectRemoves = [["$O", "modes"], ["modes"]]
      ∧ initialSettingsBelowUser = true ∧ initialSetsMode = true := by
  decide

end Occa.Json
