import OccaProofs.Lemmas.PrimEval
namespace Occa.Prim.Lemmas
open Occa Occa.CExpr Occa.CxxSem Occa.Gen Occa.Prim

/-! ### floating types: symbolic agreement (nothing is assumed about IEEE arithmetic) -/

def FloatTy (t : Ty) : Prop := t = .float ∨ t = .double

/-- reachable type of any kind -/
def Reach7 (t : Ty) : Prop := Reach t ∨ FloatTy t

/-- a value an expression can produce: an in-range integer/bool, or any float/double bit pattern -/
def GoodF (a : Val) : Prop := Good a ∨ FloatTy a.ty

theorem FloatTy.isFloat {t : Ty} (h : FloatTy t) : t.isFloat = true := by rcases h with rfl | rfl <;> rfl

theorem GoodF.reach {a : Val} (h : GoodF a) : Reach7 a.ty := by
  rcases h with h | h
  · exact Or.inl h.1
  · exact Or.inr h

theorem cvt_floatTy_ty {t : Ty} (ht : FloatTy t) (a : Val) : (cvt t a).ty = t := by
  rcases ht with rfl | rfl <;> unfold cvt <;> cases h : a.ty.isFloat <;> simp <;> split <;> simp_all

theorem cvt_floatTy_self {t : Ty} (ht : FloatTy t) (a : Val) (h : a.ty = t) : cvt t a = a := by
  rcases ht with rfl | rfl <;> unfold cvt <;> simp [h, Ty.isFloat]

theorem maxTy_float {a b : Ty} (ha : Reach7 a) (hb : Reach7 b) (hf : FloatTy a ∨ FloatTy b) :
    FloatTy (maxTy a b) ∧ common a b = maxTy a b := by
  have ha' : a = .bool ∨ a = .int ∨ a = .uint ∨ a = .long ∨ a = .ulong ∨ a = .float ∨ a = .double := by
    rcases ha with h | h
    · rcases h with h | h | h | h | h <;> simp [h]
    · rcases h with h | h <;> simp [h]
  have hb' : b = .bool ∨ b = .int ∨ b = .uint ∨ b = .long ∨ b = .ulong ∨ b = .float ∨ b = .double := by
    rcases hb with h | h
    · rcases h with h | h | h | h | h <;> simp [h]
    · rcases h with h | h <;> simp [h]
  rcases ha' with rfl | rfl | rfl | rfl | rfl | rfl | rfl <;> rcases hb' with rfl | rfl | rfl | rfl | rfl | rfl | rfl <;>
    first
    | exact ⟨by unfold FloatTy; decide, by decide⟩
    | (exfalso; rcases hf with h | h <;> rcases h with h | h <;> cases h)

theorem common_floatTy_self {t : Ty} (ht : FloatTy t) : common t t = t := by rcases ht with rfl | rfl <;> decide

/-- with a floating operand the max-rank type IS the common type, and converting twice is converting once -/
theorem binop_maxTy_float {op : BinOp} (h : BinOp.isConv op = true) {a b : Val} (ha : GoodF a) (hb : GoodF b)
    (hf : FloatTy a.ty ∨ FloatTy b.ty) :
    binop op (cvt (maxTy a.ty b.ty) a) (cvt (maxTy a.ty b.ty) b) = binop op a b := by
  obtain ⟨hT, hc⟩ := maxTy_float ha.reach hb.reach hf
  rw [binop_conv_eq h, binop_conv_eq h, cvt_floatTy_ty hT, cvt_floatTy_ty hT, common_floatTy_self hT, hc,
    cvt_floatTy_self hT _ (cvt_floatTy_ty hT a), cvt_floatTy_self hT _ (cvt_floatTy_ty hT b)]


def BinOp.floatOk : BinOp → Bool
  | .mul | .div | .add | .sub | .lt | .le | .gt | .ge | .eq | .ne => true
  | _ => false

theorem binRow_float {op : BinOp} {t : Ty} (h : BinOp.floatOk op = true ∨ op = .land ∨ op = .lor) (ht : FloatTy t) :
    binRow op t = .compute op t t := by
  rcases ht with rfl | rfl <;> cases op <;> simp_all [BinOp.floatOk] <;> rfl

theorem unRow_float {op : UnOp} {t : Ty} (h : op ≠ .bnot) (ht : FloatTy t) : unRow op t = .native op := by
  rcases ht with rfl | rfl <;> cases op <;> simp_all <;> rfl

theorem toT_ofVal_float {t : Ty} (ht : FloatTy t) (a : Val) : toT t (Prim.ofVal a) = .ok (cvt t a) := by
  simp [toT, Prim.ofVal, ht.isFloat]

theorem toBool_ofVal_F {a : Val} (ha : GoodF a) : toBool (Prim.ofVal a) = .ok (truth a) := by
  rcases ha with ha | ha
  · exact toBool_ofVal ha
  · unfold toBool toT
    have : (cvt .bool a) = ofBool (truth a) := by
      rcases ha with h | h <;> simp [cvt, h, Ty.isFloat]
    simp only [Prim.ofVal, ha.isFloat]
    simp [Outcome.bind, this, ofBool]

/-- binop with a floating operand can only yield a value for the floating-capable operators -/
theorem floatBin_val_ok {op : BinOp} {t : Ty} {x y : Int} {r : Val} (h : floatBin op t x y = .val r) :
    BinOp.floatOk op = true := by
  unfold floatBin at h
  split at h <;> cases op <;> simp_all [BinOp.floatOk]

theorem binary_conv_float {op : BinOp} (h : BinOp.isConv op = true) {a b r : Val} (ha : GoodF a) (hb : GoodF b)
    (hf : FloatTy a.ty ∨ FloatTy b.ty) (hr : binop op a b = .val r) :
    binary op (Prim.ofVal a) (Prim.ofVal b) = .ok (Prim.ofVal r) := by
  obtain ⟨hT, hc⟩ := maxTy_float ha.reach hb.reach hf
  have hok : BinOp.floatOk op = true := by
    have h2 := hr
    rw [binop_conv_eq h, hc, hT.isFloat] at h2
    exact floatBin_val_ok h2
  have hrow := binRow_float (op := op) (Or.inl hok) hT
  have hguard : (if divGuard = true ∧ (op = .div ∨ op = .mod) then
        checkIntegerDivision (Prim.ofVal a) (Prim.ofVal b) (maxTy a.ty b.ty) else Outcome.ok ()) = .ok () := by
    split
    · simp [checkIntegerDivision, hT.isFloat]
    · rfl
  have hl : op ≠ .land := by intro hh; subst hh; cases h
  have ho : op ≠ .lor := by intro hh; subst hh; cases h
  unfold binary
  rw [retType_max (binRet_conv (Or.inl h))]
  simp only [hguard, hrow, Outcome.bind, toT_ofVal_float hT, hl, ho, false_and, if_false,
    binop_maxTy_float h ha hb hf, hr, ofHost]

theorem unary_agree_float {op : UnOp} {a r : Val} (ha : FloatTy a.ty) (hr : unop op a = .val r) :
    unary op (Prim.ofVal a) = .ok (Prim.ofVal r) := by
  have hb : op ≠ .bnot := by
    intro h; subst h; simp [unop, ha.isFloat] at hr
  unfold unary
  simp only [Prim.ofVal, unRow_float hb ha]
  have : (⟨a.ty, a.v⟩ : Val) = a := rfl
  rw [this, hr]; rfl


theorem finite32_ty {t : Ty} {x : Float32} {r : Val} (h : finite32 t x = .val r) : r.ty = t := by
  unfold finite32 at h; split at h <;> cases h; rfl
theorem finite64_ty {t : Ty} {x : Float} {r : Val} (h : finite64 t x = .val r) : r.ty = t := by
  unfold finite64 at h; split at h <;> cases h; rfl

theorem finite32_div {t : Ty} {a b : Float32} {r : Val}
    (h : (if b == 0 then Res.undef (.floatRange ⟨t, b32 (a / b)⟩) else finite32 t (a / b)) = .val r) : r.ty = t := by
  split at h
  · exact Res.noConfusion h
  · exact finite32_ty h

theorem finite64_div {t : Ty} {a b : Float} {r : Val}
    (h : (if b == 0 then Res.undef (.floatRange ⟨t, b64 (a / b)⟩) else finite64 t (a / b)) = .val r) : r.ty = t := by
  split at h
  · exact Res.noConfusion h
  · exact finite64_ty h

theorem floatBin_res {op : BinOp} {t : Ty} {x y : Int} {r : Val} (h : floatBin op t x y = .val r) :
    (BinOp.isRel op = false ∧ r.ty = t) ∨ (BinOp.isRel op = true ∧ ∃ b, r = ofBool b) := by
  unfold floatBin at h
  split at h
  · cases op <;> simp only at h
    case mul => exact Or.inl ⟨rfl, finite32_ty h⟩
    case add => exact Or.inl ⟨rfl, finite32_ty h⟩
    case sub => exact Or.inl ⟨rfl, finite32_ty h⟩
    case div => exact Or.inl ⟨rfl, finite32_div h⟩
    case lt => exact Or.inr ⟨rfl, _, (Res.val.inj h).symm⟩
    case le => exact Or.inr ⟨rfl, _, (Res.val.inj h).symm⟩
    case gt => exact Or.inr ⟨rfl, _, (Res.val.inj h).symm⟩
    case ge => exact Or.inr ⟨rfl, _, (Res.val.inj h).symm⟩
    case eq => exact Or.inr ⟨rfl, _, (Res.val.inj h).symm⟩
    case ne => exact Or.inr ⟨rfl, _, (Res.val.inj h).symm⟩
    all_goals exact Res.noConfusion h
  · cases op <;> simp only at h
    case mul => exact Or.inl ⟨rfl, finite64_ty h⟩
    case add => exact Or.inl ⟨rfl, finite64_ty h⟩
    case sub => exact Or.inl ⟨rfl, finite64_ty h⟩
    case div => exact Or.inl ⟨rfl, finite64_div h⟩
    case lt => exact Or.inr ⟨rfl, _, (Res.val.inj h).symm⟩
    case le => exact Or.inr ⟨rfl, _, (Res.val.inj h).symm⟩
    case gt => exact Or.inr ⟨rfl, _, (Res.val.inj h).symm⟩
    case ge => exact Or.inr ⟨rfl, _, (Res.val.inj h).symm⟩
    case eq => exact Or.inr ⟨rfl, _, (Res.val.inj h).symm⟩
    case ne => exact Or.inr ⟨rfl, _, (Res.val.inj h).symm⟩
    all_goals exact Res.noConfusion h

theorem binop_goodF {op : BinOp} {a b r : Val} (ha : GoodF a) (hb : GoodF b) (h : binop op a b = .val r) : GoodF r := by
  by_cases hf : FloatTy a.ty ∨ FloatTy b.ty
  · obtain ⟨hT, hc⟩ := maxTy_float ha.reach hb.reach hf
    by_cases hconv : BinOp.isConv op = true
    · rw [binop_conv_eq hconv, hc, hT.isFloat] at h
      rcases floatBin_res h with ⟨_, h2⟩ | ⟨_, b', rfl⟩
      · exact Or.inr (h2 ▸ hT)
      · exact Or.inl (good_ofBool _)
    · have hfl : a.ty.isFloat = true ∨ b.ty.isFloat = true := hf.imp FloatTy.isFloat FloatTy.isFloat
      cases op <;> simp [BinOp.isConv] at hconv <;> simp [binop] at h
      · rcases hfl with h1 | h1 <;> simp [h1] at h
      · rcases hfl with h1 | h1 <;> simp [h1] at h
      · subst h; exact Or.inl (good_ofBool _)
      · subst h; exact Or.inl (good_ofBool _)
  · have ha' : Good a := by rcases ha with h1 | h1; exact h1; exact absurd (Or.inl h1) hf
    have hb' : Good b := by rcases hb with h1 | h1; exact h1; exact absurd (Or.inr h1) hf
    exact Or.inl (binop_good ha' hb' h)

theorem binop_tyF {op : BinOp} {a b r : Val} (ha : GoodF a) (hb : GoodF b) (h : binop op a b = .val r) :
    binType op a.ty b.ty = some r.ty := by
  by_cases hf : FloatTy a.ty ∨ FloatTy b.ty
  · obtain ⟨hT, hc⟩ := maxTy_float ha.reach hb.reach hf
    have hcf : (common a.ty b.ty).isFloat = true := by rw [hc]; exact hT.isFloat
    by_cases hconv : BinOp.isConv op = true
    · rw [binop_conv_eq hconv, hcf] at h
      have hok := floatBin_val_ok h
      rcases floatBin_res h with ⟨h1, h2⟩ | ⟨h1, b', rfl⟩
      · cases op <;> simp_all [BinOp.isRel, BinOp.floatOk, binType]
      · cases op <;> simp_all [BinOp.isRel, BinOp.floatOk, binType, ofBool]
    · have hfl : a.ty.isFloat = true ∨ b.ty.isFloat = true := hf.imp FloatTy.isFloat FloatTy.isFloat
      cases op <;> simp [BinOp.isConv] at hconv <;> simp [binop] at h
      · rcases hfl with h1 | h1 <;> simp [h1] at h
      · rcases hfl with h1 | h1 <;> simp [h1] at h
      · subst h; rfl
      · subst h; rfl
  · have ha' : Good a := by rcases ha with h1 | h1; exact h1; exact absurd (Or.inl h1) hf
    have hb' : Good b := by rcases hb with h1 | h1; exact h1; exact absurd (Or.inr h1) hf
    exact binop_ty ha' hb' h

theorem unop_float {op : UnOp} {a r : Val} (ha : FloatTy a.ty) (h : unop op a = .val r) :
    GoodF r ∧ unType op a.ty = some r.ty := by
  rcases ha with hf | hf <;> obtain ⟨t, x⟩ := a <;> simp only at hf <;> subst hf <;> cases op <;>
    simp [unop, Ty.isFloat] at h <;> subst h <;>
    first
    | exact ⟨Or.inl (good_ofBool _), rfl⟩
    | exact ⟨Or.inr (Or.inl rfl), rfl⟩
    | exact ⟨Or.inr (Or.inr rfl), rfl⟩

end Occa.Prim.Lemmas
