/-
Helper lemmas for C06 / C07: association lists (List.lookup), the std::map model `insertKV` /
`mkMap`, and the labelled key objects built from them.
-/
import OccaModel.CacheKey

namespace Occa.CacheKey
open Occa.CacheKeyBase

/-! ### List.lookup -/

theorem lookup_cons_eq {α : Type} (n k : String) (v : α) (l : List (String × α)) :
    ((k, v) :: l).lookup n = if n = k then some v else l.lookup n := by
  by_cases h : n = k
  · subst h; simp [List.lookup]
  · have : (n == k) = false := by simpa using h
    simp [List.lookup, this, h]

theorem lookup_eq_none_of_not_mem {α : Type} (n : String) :
    ∀ (l : List (String × α)), n ∉ l.map (·.1) → l.lookup n = Option.none
  | [], _ => rfl
  | (k, v) :: t, h => by
    have h1 : n ≠ k := fun e => h (by simp [e])
    have h2 : n ∉ t.map (·.1) := fun m => h (by simp [m])
    rw [lookup_cons_eq, if_neg h1]
    exact lookup_eq_none_of_not_mem n t h2

theorem mem_of_lookup_eq_some {α : Type} (n : String) (v : α) :
    ∀ (l : List (String × α)), l.lookup n = some v → (n, v) ∈ l
  | [], h => by simp [List.lookup] at h
  | (k, w) :: t, h => by
    rw [lookup_cons_eq] at h
    by_cases e : n = k
    · rw [if_pos e] at h
      have : w = v := by injection h
      subst this; subst e; simp
    · rw [if_neg e] at h
      exact List.mem_cons_of_mem _ (mem_of_lookup_eq_some n v t h)

theorem lookup_of_mem_nodup {α : Type} (n : String) (v : α) :
    ∀ (l : List (String × α)), (l.map (·.1)).Nodup → (n, v) ∈ l → l.lookup n = some v
  | [], _, h => by simp at h
  | (k, w) :: t, hnd, h => by
    simp only [List.map_cons, List.nodup_cons] at hnd
    rw [lookup_cons_eq]
    rcases List.mem_cons.mp h with e | m
    · have e1 : n = k := (Prod.mk.inj e).1
      have e2 : v = w := (Prod.mk.inj e).2
      rw [if_pos e1, e2]
    · have : n ≠ k := by
        intro e
        apply hnd.1
        rw [← e]
        exact List.mem_map.mpr ⟨(n, v), m, rfl⟩
      rw [if_neg this]
      exact lookup_of_mem_nodup n v t hnd.2 m

/-! ### the std::map model -/

theorem lookup_insertKV {α : Type} (n k : String) (v : α) :
    ∀ (l : List (String × α)), (insertKV k v l).lookup n = if n = k then some v else l.lookup n
  | [] => by simp [insertKV, lookup_cons_eq, List.lookup]
  | (k', v') :: t => by
    unfold insertKV
    by_cases h1 : k < k'
    · rw [if_pos h1, lookup_cons_eq]
    · rw [if_neg h1]
      by_cases h2 : k = k'
      · rw [if_pos h2, lookup_cons_eq, lookup_cons_eq]
        by_cases e : n = k
        · rw [if_pos e, if_pos e]
        · have e' : n ≠ k' := h2 ▸ e
          rw [if_neg e, if_neg e, if_neg e']
      · rw [if_neg h2, lookup_cons_eq, lookup_insertKV n k v t, lookup_cons_eq]
        by_cases e : n = k
        · have e' : n ≠ k' := fun x => h2 (e ▸ x)
          simp only [if_pos e, if_neg e']
        · simp only [if_neg e]

theorem lookup_mkMap {α : Type} (n : String) :
    ∀ (l : List (String × α)), (mkMap l).lookup n = l.lookup n
  | [] => rfl
  | (k, v) :: t => by
    show (insertKV k v (mkMap t)).lookup n = _
    rw [lookup_insertKV, lookup_mkMap n t, lookup_cons_eq]

/-- two key objects are equal only if they hold the same value under every label -/
theorem lookup_of_mkObj_eq {l₁ l₂ : List (String × J)} (h : mkObj l₁ = mkObj l₂) (n : String) :
    l₁.lookup n = l₂.lookup n := by
  unfold mkObj at h
  cases l₁ with
  | nil =>
    cases l₂ with
    | nil => rfl
    | cons b t => simp at h
  | cons a s =>
    cases l₂ with
    | nil => simp at h
    | cons b t =>
      simp only [List.isEmpty_cons, Bool.false_eq_true, if_false] at h
      have hm : mkMap (a :: s) = mkMap (b :: t) := J.obj.inj h
      have := congrArg (fun m => List.lookup n m) hm
      simpa only [lookup_mkMap] using this

/-! ### labelled objects -/

theorem lookup_filterMap_names (g : String → Option J) (n : String) :
    ∀ (names : List String),
      (names.filterMap fun m => (g m).map fun v => (m, v)).lookup n = if n ∈ names then g n else Option.none
  | [] => by simp
  | m :: t => by
    have ih := lookup_filterMap_names g n t
    cases hg : g m with
    | none =>
      simp only [List.filterMap_cons, hg, Option.map_none]
      rw [ih]
      by_cases e : n = m
      · subst e; simp [hg]
      · simp [e]
    | some v =>
      simp only [List.filterMap_cons, hg, Option.map_some]
      rw [lookup_cons_eq, ih]
      by_cases e : n = m
      · subst e; simp [hg]
      · simp [e]

theorem lookup_filterMap_assoc {α : Type} (f : α → Option J) (n : String) :
    ∀ (ps : List (String × α)), (ps.map (·.1)).Nodup →
      (ps.filterMap fun lp => (f lp.2).map fun v => (lp.1, v)).lookup n = (ps.lookup n).bind f
  | [], _ => by simp [List.lookup]
  | (l, a) :: t, hnd => by
    simp only [List.map_cons, List.nodup_cons] at hnd
    have ih := lookup_filterMap_assoc f n t hnd.2
    rw [lookup_cons_eq]
    cases hf : f a with
    | none =>
      simp only [List.filterMap_cons, hf, Option.map_none]
      rw [ih]
      by_cases e : n = l
      · rw [if_pos e, e, lookup_eq_none_of_not_mem l t hnd.1]
        simp [hf]
      · rw [if_neg e]
    | some v =>
      simp only [List.filterMap_cons, hf, Option.map_some]
      rw [lookup_cons_eq, ih]
      by_cases e : n = l
      · rw [if_pos e, if_pos e]; simp [hf]
      · rw [if_neg e, if_neg e]

/-- equal labelled objects over the same names: equal values for every name -/
theorem objOf_inj {names : List String} {g₁ g₂ : String → Option J}
    (h : objOf names g₁ = objOf names g₂) : ∀ n ∈ names, g₁ n = g₂ n := by
  intro n hn
  have := lookup_of_mkObj_eq h n
  rw [lookup_filterMap_names, lookup_filterMap_names, if_pos hn, if_pos hn] at this
  exact this

theorem filterMap_congr' {α β : Type} {f g : α → Option β} :
    ∀ (l : List α), (∀ x ∈ l, f x = g x) → l.filterMap f = l.filterMap g
  | [], _ => rfl
  | a :: t, h => by
    simp only [List.filterMap_cons, h a (by simp)]
    rw [filterMap_congr' t (fun x hx => h x (List.mem_cons_of_mem _ hx))]

theorem objOf_congr {names : List String} {g₁ g₂ : String → Option J}
    (h : ∀ n ∈ names, g₁ n = g₂ n) : objOf names g₁ = objOf names g₂ := by
  unfold objOf
  congr 1
  apply filterMap_congr'
  intro n hn
  rw [h n hn]

theorem fieldVal_true (get : String → Option J) (n : String) : fieldVal true get n = get n := by
  unfold fieldVal
  cases get n <;> simp

theorem fieldVal_congr (g : Bool) {get₁ get₂ : String → Option J} {n : String} (h : get₁ n = get₂ n) :
    fieldVal g get₁ n = fieldVal g get₂ n := by
  unfold fieldVal
  rw [h]

/-! ### the historical composition (before the repair of F09), kept to show why no hash function could have saved it -/

/-- combine the hashes of the VALUES of the listed properties with one binary operation
    (`hash_t::operator^` historically); the property NAMES do not enter -/
def valueFoldKey {κ : Type} (op : κ → κ → κ) (h : Option J → κ) (init : κ) (fields : List String)
    (c : Config) : κ :=
  fields.foldl (fun acc n => op acc (h (c.get n))) init

/-! ### the kernel key -/

variable {κ σ : Type}

/-- "no collisions": the idealisation under which the property is stated.  The encoder is
    required to be injective on a set `W` of JSON values (`fun _ => True`: everywhere;
    `J.WFtop`: on well-formed values, which is what is PROVED of the dump model in
    Lemmas/JsonDump.lean). -/
structure Env.Inj (e : Env κ σ) (W : J → Prop) : Prop where
  H : Function.Injective e.H
  enc : ∀ a b, W a → W b → e.enc a = e.enc b → a = b
  raw : Function.Injective e.raw
  full : Function.Injective e.full
  tweak : Function.Injective e.tweak

/-- the three objects a configuration feeds to the encoder lie in `W` -/
structure Config.Ok (e : Env κ σ) (W : J → Prop) (c : Config) : Prop where
  key : W (mkObj (partList e c Gen.setupParts))
  mode : W (fieldObj Gen.serialSkipsUnset Gen.serialFields c.get)
  header : W (fieldObj Gen.headerSkipsUnset Gen.headerFields c.get)

theorem Config.ok_all (e : Env κ σ) (c : Config) : Config.Ok e (fun _ => True) c :=
  ⟨trivial, trivial, trivial⟩

/-- some label of the key object of setupKernelInfo holds this part -/
def hasPart (p : KeyPart) : Bool := Gen.setupParts.any fun lp => lp.2.1 == p

/-- every property that setupKernelInfo stores itself is stored only when it is set -/
def propsGuarded : Bool :=
  Gen.setupParts.all fun lp => match lp.2.1 with | .prop _ => lp.2.2 | _ => true

/-- What the proofs use of the regenerated table: the labelled combinator everywhere, unset
    values skipped, hashes rendered with all 256 bits, distinct labels, all four hash parts
    present.  Checked by evaluation of the table (`shape`). -/
structure Shape : Prop where
  serialComb : Gen.serialComb = Comb.labelled
  headerComb : Gen.headerComb = Comb.labelled
  setupComb : Gen.setupComb = Comb.labelled
  serialSkip : Gen.serialSkipsUnset = true
  headerSkip : Gen.headerSkipsUnset = true
  render : Gen.setupRender = Render.full
  nodup : (Gen.setupParts.map (·.1)).Nodup
  device : hasPart .deviceHash = true
  mode : hasPart .modeHash = true
  header : hasPart .headerHash = true
  source : hasPart .sourceHash = true
  guarded : propsGuarded = true

theorem shape : Shape := by
  constructor <;> decide

theorem partVal_eq_of_baseKey_eq (e : Env κ σ) {W : J → Prop} (hi : e.Inj W) (sh : Shape) {c₁ c₂ : Config}
    (o₁ : Config.Ok e W c₁) (o₂ : Config.Ok e W c₂) (h : baseKey e c₁ = baseKey e c₂) :
    ∀ lp ∈ Gen.setupParts, partVal e c₁ lp.2 = partVal e c₂ lp.2 := by
  intro lp hlp
  have h1 := hi.enc _ _ o₁.key o₂.key (hi.H h)
  have h2 := lookup_of_mkObj_eq h1 lp.1
  unfold partList at h2
  rw [lookup_filterMap_assoc (partVal e c₁) lp.1 _ sh.nodup,
    lookup_filterMap_assoc (partVal e c₂) lp.1 _ sh.nodup] at h2
  have h3 : Gen.setupParts.lookup lp.1 = some lp.2 :=
    lookup_of_mem_nodup lp.1 lp.2 _ sh.nodup (by cases lp; exact hlp)
  rw [h3] at h2
  simpa using h2

theorem exists_part {p : KeyPart} (h : hasPart p = true) :
    ∃ l g, (l, p, g) ∈ Gen.setupParts := by
  obtain ⟨lp, hlp, hp⟩ := List.any_eq_true.mp h
  have hp' : lp.2.1 = p := eq_of_beq hp
  obtain ⟨l, q, g⟩ := lp
  exact ⟨l, g, by simpa [← hp'] using hlp⟩

theorem render_full (e : Env κ σ) (sh : Shape) : render e Gen.setupRender = e.full := by
  rw [sh.render]; rfl

theorem modeKey_eq_of_baseKey_eq (e : Env κ σ) {W : J → Prop} (hi : e.Inj W) (sh : Shape) {c₁ c₂ : Config}
    (o₁ : Config.Ok e W c₁) (o₂ : Config.Ok e W c₂) (h : baseKey e c₁ = baseKey e c₂) : modeKey e c₁ = modeKey e c₂ := by
  obtain ⟨l, g, hm⟩ := exists_part sh.mode
  have := partVal_eq_of_baseKey_eq e hi sh o₁ o₂ h _ hm
  simp only [partVal, render_full e sh] at this
  exact hi.full (Option.some.inj this)

theorem headerKey_eq_of_baseKey_eq (e : Env κ σ) {W : J → Prop} (hi : e.Inj W) (sh : Shape) {c₁ c₂ : Config}
    (o₁ : Config.Ok e W c₁) (o₂ : Config.Ok e W c₂) (h : baseKey e c₁ = baseKey e c₂) : headerKey e c₁ = headerKey e c₂ := by
  obtain ⟨l, g, hm⟩ := exists_part sh.header
  have := partVal_eq_of_baseKey_eq e hi sh o₁ o₂ h _ hm
  simp only [partVal, render_full e sh] at this
  exact hi.full (Option.some.inj this)

theorem src_eq_of_baseKey_eq (e : Env κ σ) {W : J → Prop} (hi : e.Inj W) (sh : Shape) {c₁ c₂ : Config}
    (o₁ : Config.Ok e W c₁) (o₂ : Config.Ok e W c₂) (h : baseKey e c₁ = baseKey e c₂) : c₁.src = c₂.src := by
  obtain ⟨l, g, hm⟩ := exists_part sh.source
  have := partVal_eq_of_baseKey_eq e hi sh o₁ o₂ h _ hm
  simp only [partVal, render_full e sh] at this
  exact hi.raw (hi.H (hi.full (Option.some.inj this)))

theorem mem_propParts {n : String} (h : n ∈ propParts) : ∃ l g, (l, KeyPart.prop n, g) ∈ Gen.setupParts := by
  unfold propParts at h
  obtain ⟨lp, hlp, hf⟩ := List.mem_filterMap.mp h
  obtain ⟨l, q, g⟩ := lp
  cases q <;> simp at hf
  subst hf
  exact ⟨l, g, hlp⟩

theorem guarded_of_mem (sh : Shape) {l n g} (h : (l, KeyPart.prop n, g) ∈ Gen.setupParts) : g = true := by
  have := List.all_eq_true.mp sh.guarded _ h
  simpa using this

theorem get_eq_of_baseKey_eq (e : Env κ σ) {W : J → Prop} (hi : e.Inj W) (sh : Shape) {c₁ c₂ : Config}
    (o₁ : Config.Ok e W c₁) (o₂ : Config.Ok e W c₂) (h : baseKey e c₁ = baseKey e c₂) : ∀ n ∈ hashedNames, c₁.get n = c₂.get n := by
  intro n hn
  unfold hashedNames at hn
  rcases List.mem_append.mp hn with hn | hn
  · rcases List.mem_append.mp hn with hn | hn
    · have hk := hi.enc _ _ o₁.mode o₂.mode (hi.H (hi.tweak (modeKey_eq_of_baseKey_eq e hi sh o₁ o₂ h)))
      have := objOf_inj hk n hn
      rw [sh.serialSkip, fieldVal_true, fieldVal_true] at this
      exact this
    · have hk := hi.enc _ _ o₁.header o₂.header (hi.H (headerKey_eq_of_baseKey_eq e hi sh o₁ o₂ h))
      have := objOf_inj hk n hn
      rw [sh.headerSkip, fieldVal_true, fieldVal_true] at this
      exact this
  · obtain ⟨l, g, hm⟩ := mem_propParts hn
    have hg := guarded_of_mem sh hm
    subst hg
    have := partVal_eq_of_baseKey_eq e hi sh o₁ o₂ h _ hm
    simp only [partVal, fieldVal_true] at this
    exact this

/-- the key determines everything that enters it -/
theorem view_eq_of_baseKey_eq (e : Env κ σ) {W : J → Prop} (hi : e.Inj W) (sh : Shape) {c₁ c₂ : Config}
    (o₁ : Config.Ok e W c₁) (o₂ : Config.Ok e W c₂) (h : baseKey e c₁ = baseKey e c₂) : c₁.view = c₂.view := by
  unfold Config.view
  rw [src_eq_of_baseKey_eq e hi sh o₁ o₂ h, List.map_congr_left (get_eq_of_baseKey_eq e hi sh o₁ o₂ h)]

/-- the key depends on the configuration only through the hashed properties and the source -/
theorem baseKey_congr (e : Env κ σ) {c₁ c₂ : Config}
    (hget : ∀ n ∈ hashedNames, c₁.get n = c₂.get n) (hsrc : c₁.src = c₂.src) :
    baseKey e c₁ = baseKey e c₂ := by
  have hmode : modeKey e c₁ = modeKey e c₂ := by
    unfold modeKey fieldObj
    rw [objOf_congr (fun n hn => fieldVal_congr _ (hget n (by
      unfold hashedNames; exact List.mem_append.mpr (Or.inl (List.mem_append.mpr (Or.inl hn))))))]
  have hhdr : headerKey e c₁ = headerKey e c₂ := by
    unfold headerKey fieldObj
    rw [objOf_congr (fun n hn => fieldVal_congr _ (hget n (by
      unfold hashedNames; exact List.mem_append.mpr (Or.inl (List.mem_append.mpr (Or.inr hn))))))]
  unfold baseKey partList
  congr 2
  apply congrArg
  apply filterMap_congr'
  intro lp hlp
  obtain ⟨l, q, g⟩ := lp
  have : partVal e c₁ (q, g) = partVal e c₂ (q, g) := by
    cases q with
    | deviceHash => rfl
    | modeHash => simp only [partVal, hmode]
    | headerHash => simp only [partVal, hhdr]
    | sourceHash => simp only [partVal, hsrc]
    | prop n =>
      simp only [partVal]
      apply fieldVal_congr
      apply hget
      unfold hashedNames propParts
      apply List.mem_append.mpr
      right
      exact List.mem_filterMap.mpr ⟨(l, KeyPart.prop n, g), hlp, rfl⟩
  simp only [this]

end Occa.CacheKey
