/-
Helper lemmas for C12: raw string literals (printed with a delimiter since fix FL6) are read back.
-/
import OccaProofs.Lemmas.LexLoop

namespace Occa.Lex
open Occa.Gen

/-! ### raw strings -/

theorem hasInfix_length {p : Str} : ∀ {s : Str}, hasInfix p s = true → p.length ≤ s.length := by
  intro s
  induction s with
  | nil => intro h; simp [hasInfix] at h; simp [h]
  | cons c t ih =>
    intro h
    simp only [hasInfix, Bool.or_eq_true] at h
    rcases h with h | h
    · obtain ⟨u, hu⟩ := prefix_of_isPrefixOf h
      rw [hu]; simp
    · have := ih h; simp; omega

theorem hasInfix_false_split {p : Str} : ∀ {s : Str}, hasInfix p s = false → ∀ a b, s = a ++ b → p.isPrefixOf b = false := by
  intro s
  induction s with
  | nil =>
    intro h a b hab
    have : b = [] := by
      cases a with
      | nil => simpa using hab.symm
      | cons x a => cases hab
    subst this
    cases p with
    | nil => simp [hasInfix] at h
    | cons x p => rfl
  | cons c t ih =>
    intro h a b hab
    obtain ⟨h1, h2⟩ := hasInfix_cons_false h
    cases a with
    | nil => simp only [List.nil_append] at hab; rw [← hab]; exact h1
    | cons x a =>
      simp only [List.cons_append, List.cons.injEq] at hab
      exact ih h2 a b hab.2

/-- FL6: the delimiter chosen by the printer is a run of `_` and `)delimiter"` does not occur in the value -/
theorem pickDelim_spec (v : Str) : ∀ (fuel : Nat) (d : Str), (∀ x ∈ d, x = '_') → v.length + 1 ≤ fuel + d.length →
    (∀ x ∈ pickDelim v fuel d, x = '_') ∧ hasInfix (')' :: (pickDelim v fuel d ++ ['"'])) v = false := by
  intro fuel
  induction fuel with
  | zero =>
    intro d hd' hl
    refine ⟨hd', ?_⟩
    cases h : hasInfix (')' :: (pickDelim v 0 d ++ ['"'])) v with
    | false => rfl
    | true =>
      have := hasInfix_length h
      simp [pickDelim] at this
      omega
  | succ f ih =>
    intro d hd' hl
    unfold pickDelim
    split
    · exact ih ('_' :: d) (fun x hx => by
        rcases List.mem_cons.mp hx with rfl | hx
        · rfl
        · exact hd' x hx) (by simp; omega)
    · rename_i hn
      exact ⟨hd', by simpa using hn⟩

theorem isPrefixOf_short {q : Str} : ∀ {b X : Str}, q.isPrefixOf (b ++ X) = true → q.length ≤ b.length → q.isPrefixOf b = true := by
  induction q with
  | nil => intros; simp
  | cons x q ih =>
    intro b X h hl
    cases b with
    | nil => simp at hl
    | cons y b =>
      simp only [List.cons_append, List.isPrefixOf_cons_cons, Bool.and_eq_true] at h ⊢
      exact ⟨h.1, ih h.2 (by simpa using hl)⟩

theorem isPrefixOf_long {q : Str} : ∀ {b X : Str}, q.isPrefixOf (b ++ X) = true → b.length < q.length →
    ∃ u, q = b ++ u ∧ u ≠ [] ∧ u.isPrefixOf X = true := by
  induction q with
  | nil => intro b X _ hl; simp at hl
  | cons x q ih =>
    intro b X h hl
    cases b with
    | nil => exact ⟨x :: q, rfl, by simp, by simpa using h⟩
    | cons y b =>
      simp only [List.cons_append, List.isPrefixOf_cons_cons, Bool.and_eq_true, beq_iff_eq] at h
      obtain ⟨u, hu, hne, hp⟩ := ih h.2 (by simpa using hl)
      exact ⟨u, by rw [h.1, hu]; rfl, hne, hp⟩

/-- the end pattern of a raw string cannot start inside the value -/
theorem rawPattern_no_straddle {d v : Str} (hd' : ∀ x ∈ d, x = '_') (hinf : hasInfix (')' :: (d ++ ['"'])) v = false)
    (a b : Str) (hab : v = a ++ b) (hb : b ≠ []) (rest : Str) :
    (')' :: (d ++ ['"'])).isPrefixOf (b ++ ((')' :: (d ++ ['"'])) ++ rest)) = false := by
  cases h : (')' :: (d ++ ['"'])).isPrefixOf (b ++ ((')' :: (d ++ ['"'])) ++ rest)) with
  | false => rfl
  | true =>
    exfalso
    have hsplit := hasInfix_false_split hinf a b hab
    rcases Nat.lt_or_ge b.length (')' :: (d ++ ['"'])).length with hlt | hge
    · obtain ⟨u, hu, hne, hp⟩ := isPrefixOf_long h hlt
      -- u starts with ')' but sits inside the pattern after its first character
      cases b with
      | nil => exact hb rfl
      | cons b0 b' =>
        cases u with
        | nil => exact hne rfl
        | cons u0 u' =>
          have hu0 : u0 = ')' := by
            simp only [List.cons_append, List.isPrefixOf_cons_cons, Bool.and_eq_true, beq_iff_eq] at hp
            exact hp.1
          simp only [List.cons_append, List.cons.injEq] at hu
          have hmem : u0 ∈ d ++ ['"'] := by rw [hu.2]; simp
          rw [hu0] at hmem
          rcases List.mem_append.mp hmem with hm | hm
          · have := hd' _ hm; revert this; decide
          · simp at hm
    · have := isPrefixOf_short h hge
      rw [this] at hsplit
      cases hsplit

theorem matchAt_eq (r : Str) : ∀ (m : Str) (k : Nat), NoNul m → k ≤ r.length →
    matchAt r m k = .ok (m.isPrefixOf (r.drop k)) := by
  intro m
  induction m with
  | nil => intro k _ _; simp [matchAt]
  | cons x m ih =>
    intro k hm hk
    have hx : x ≠ NUL := hm x (by simp)
    rw [matchAt]
    simp only [rd, hk, if_true]
    rcases Nat.lt_or_ge k r.length with hlt | hge
    · have hdrop : r.drop k = r[k] :: r.drop (k + 1) := List.drop_eq_getElem_cons hlt
      have hget : r.getD k NUL = r[k] := by simp [List.getD_eq_getElem?_getD, hlt]
      rw [hdrop, hget, ih (k + 1) (fun c hc => hm c (by simp [hc])) hlt]
      by_cases hxe : r[k] = x
      · rw [List.isPrefixOf_cons_cons, hxe]; simp
      · have : (x == r[k]) = false := by simpa using fun e => hxe e.symm
        rw [List.isPrefixOf_cons_cons, this, Bool.false_and]; simp [hxe]
    · have hk' : k = r.length := by omega
      subst hk'
      have hget : r.getD r.length NUL = NUL := by simp [List.getD_eq_getElem?_getD]
      rw [hget]
      have : (NUL != x) = true := by simpa using fun e => hx e.symm
      simp [this]

theorem rawLoop_find {pat : Str} (hpat : NoNul pat) (hne : pat ≠ []) (rest : Str) :
    ∀ v : Str, (∀ a b, v = a ++ b → b ≠ [] → pat.isPrefixOf (b ++ (pat ++ rest)) = false) →
      rawLoop pat (v ++ (pat ++ rest)) = .ok (pat ++ rest) := by
  intro v
  induction v with
  | nil =>
    intro _
    obtain ⟨p0, pt, rfl⟩ : ∃ p0 pt, pat = p0 :: pt := by
      cases pat with
      | nil => exact absurd rfl hne
      | cons a b => exact ⟨a, b, rfl⟩
    have := matchAt_eq (p0 :: pt ++ rest) (p0 :: pt) 0 hpat (by simp)
    simp only [List.drop_zero, isPrefixOf_append] at this
    simp only [List.nil_append, List.cons_append] at this ⊢
    rw [rawLoop, this]
  | cons x v ih =>
    intro h
    have h0 := h [] (x :: v) rfl (by simp)
    have := matchAt_eq (x :: v ++ (pat ++ rest)) pat 0 hpat (by simp)
    simp only [List.drop_zero, h0] at this
    simp only [List.cons_append] at this ⊢
    rw [rawLoop, this]
    exact ih (fun a b hab hb => h (x :: a) b (by rw [hab]; rfl) hb)

/-- the text of a raw string after its prefix: `"delimiter(value)delimiter"` -/
def rawBody (d v : Str) : Str := '"' :: (d ++ '(' :: (v ++ (')' :: (d ++ ['"']))))

theorem getRawString_body {d v : Str} (hd' : ∀ x ∈ d, x = '_') (hinf : hasInfix (')' :: (d ++ ['"'])) v = false)
    (rest : Str) :
    getRawString (rawBody d v ++ rest) = .ok (v, rest) := by
  have hdn : NoNul d := fun c hc => by rw [hd' c hc]; decide
  have hpat : NoNul (')' :: (d ++ ['"'])) := noNul_cons (by decide) (noNul_append hdn (by decide))
  -- the delimiter is skipped up to the parenthesis
  have e2 : skipTo ['(', '\n'] (d ++ '(' :: (v ++ ((')' :: (d ++ ['"'])) ++ rest))) = .ok ('(' :: (v ++ ((')' :: (d ++ ['"'])) ++ rest))) := by
    unfold skipTo
    rw [skipUntil_clean]
    · exact skipUntil_stop _ (by decide) (by decide)
    · intro x hx; rw [hd' x hx]; exact ⟨by decide, by decide⟩
  have hcons2 : consumed (d ++ '(' :: (v ++ ((')' :: (d ++ ['"'])) ++ rest))) ('(' :: (v ++ ((')' :: (d ++ ['"'])) ++ rest))) = d :=
    consumed_append _ _
  have e4 := rawLoop_find hpat (by simp) rest v (fun a b hab hb => rawPattern_no_straddle hd' hinf a b hab hb rest)
  have e5 : adv ((')' :: (d ++ ['"'])) ++ rest) (')' :: (d ++ ['"'])).length = .ok rest := adv_append _ _
  have hcons4 : consumed (v ++ ((')' :: (d ++ ['"'])) ++ rest)) ((')' :: (d ++ ['"'])) ++ rest) = v := consumed_append _ _
  have hshape : rawBody d v ++ rest = '"' :: (d ++ '(' :: (v ++ ((')' :: (d ++ ['"'])) ++ rest))) := by
    simp [rawBody]
  rw [hshape]
  simp only [getRawString, hd_cons, adv_cons_one, e2, hcons2, e4, bind, Except.bind, pure, Except.pure]
  have hh : hd ((')' :: (d ++ ['"'])) ++ rest) ≠ NUL := by simp; decide
  simp only [List.cons_append] at hh e5 hcons4 ⊢
  have hpn : (')' : Char) ≠ NUL := by decide
  simp only [hd_cons, e5, hcons4]
  simp [hpn]

/-- raw encodings and their printed prefixes -/
theorem rawEnc_facts : ∀ enc ∈ [encR, encR ||| encu8, encR ||| encu, encR ||| encU, encR ||| encL],
    hd (encPrefix enc ++ ['R']) ∈ identifierStart ∧ hd (encPrefix enc ++ ['R']) ≠ 't' ∧ hd (encPrefix enc ++ ['R']) ≠ 'f' ∧
    (∀ x ∈ encPrefix enc ++ ['R'], x ∈ identifier) ∧ encPrefix enc ++ ['R'] ∉ registered ∧
    getStringEncoding (encPrefix enc ++ ['R']) = enc ∧ enc &&& encR ≠ 0 ∧ enc ≠ 0 := by decide +kernel

/-- a raw string literal: encoding R, u8R, uR, UR or LR, any NUL-free value, an optional udf -/
structure RawWF (enc : Nat) (v udf : Str) : Prop where
  enc : enc ∈ [encR, encR ||| encu8, encR ||| encu, encR ||| encU, encR ||| encL]
  val : NoNul v
  udf : UdfWF udf

theorem printTok_raw {enc : Nat} (h : enc &&& encR ≠ 0) (v udf : Str) :
    printTok (.str enc v udf) = (encPrefix enc ++ ['R']) ++ (rawBody (pickDelim v (v.length + 1) []) v ++ udf) := by
  simp [printTok, h, rawBody]

theorem getToken_rawstr {enc : Nat} {v udf : Str} (h : RawWF enc v udf) {c : Char} (hc : IsWs c) (r : Str) :
    getToken (printTok (.str enc v udf) ++ c :: r) = .ok (some (.str enc v udf), 0, c :: r) := by
  obtain ⟨hst, hnt, hnf, hall, hnreg, hget, hr1, hne⟩ := rawEnc_facts enc h.enc
  rw [printTok_raw hr1]
  obtain ⟨hdel, hinf⟩ := pickDelim_spec v (v.length + 1) [] (by simp) (by simp)
  generalize pickDelim v (v.length + 1) [] = d at hdel hinf
  obtain ⟨a, t, hp⟩ := nonempty_of_idStart (by simpa using hst)
  rw [hp] at hst hnt hnf hall hnreg hget ⊢
  simp only [hd_cons] at hst hnt hnf
  obtain ⟨hws, hbs, hnul, hdd, hplus, hminus, _, _⟩ := idStart_facts a hst
  have ht : ∀ x ∈ t, x ∈ identifier := fun x hx => hall x (by simp [hx])
  have hbody := getRawString_body hdel hinf (udf ++ c :: r)
  have hrb : rawBody d v ++ (udf ++ c :: r) = '"' :: (d ++ '(' :: (v ++ (')' :: (d ++ ['"']))) ++ (udf ++ c :: r)) := by
    simp [rawBody]
  rw [hrb] at hbody
  have hshape : a :: t ++ (rawBody d v ++ udf) ++ c :: r
      = a :: (t ++ '"' :: (d ++ '(' :: (v ++ (')' :: (d ++ ['"']))) ++ (udf ++ c :: r))) := by
    simp [rawBody]
  rw [hshape]
  have hs : skipWhitespace (a :: (t ++ '"' :: (d ++ '(' :: (v ++ (')' :: (d ++ ['"']))) ++ (udf ++ c :: r)))) = .ok _ :=
    skipWhitespace_at _ hbs hws
  apply getToken_eq hs (by simp) (k := .str enc)
  · have hsp := shallowPeek_class hs (by simpa using hnul)
      (isPrimitiveAt_of_none (loadScan_none_of_first _ hnt hnf hplus hminus hdd))
    have hcl : classifyChar a = .ident := by simp [classifyChar, hst]
    have hpk := peekForIdentifier_eq (a := a) (t := t) (c := '"') (d ++ '(' :: (v ++ (')' :: (d ++ ['"']))) ++ (udf ++ c :: r)) ht
      (by decide) (by decide)
    simp only [List.cons_append, hd_cons, hcl] at hsp hpk
    simp only [peek, hsp, hpk, bind, Except.bind, pure, Except.pure]
    simp [hnreg, hget, hne]
  · have hg := getIdentifier_eq (a := a) (t := t) (c := '"') (d ++ '(' :: (v ++ (')' :: (d ++ ['"']))) ++ (udf ++ c :: r)) hst ht
      (by decide) (by decide)
    have e2 := getUdf_eq h.udf hc r
    simp only [List.cons_append] at hg
    simp only [dispatch, getStringToken, hg, hd_cons, getString, hbody, bind, Except.bind, pure, Except.pure]
    simp [hne, hr1, e2]

end Occa.Lex
