/-
The invariant of the handle model and the lemma that destroying a closed set of objects keeps it.

`InvX ex s`: `ex` is the set of handles that are in the middle of `X::removeXRef` / `setModeX`: such a
handle has already left the ring of its object but still holds the pointer.  With the empty set this
is the invariant proper (`Inv`).
-/
import OccaProofs.Lemmas.GcKilled

namespace Occa.Gc

/-- which of the device's three rings a child of class `k` is kept in -/
def slot : Kind → Kind
  | .ker => .ker
  | .str => .str
  | _ => .buf

theorem chGet_slot (s : St) (k : Kind) (d : Nat) : s.chGet k d = s.chGet (slot k) d := by
  cases k <;> rfl

/-- the safety part of the invariant, without "every child is in its device's ring" -/
structure Inv00 (ex : Var → Prop) (s : St) : Prop where
  notrap : s.trap = false
  alive_lt : ∀ o, s.alive o = true → o < s.next
  dtors_eq : ∀ o, s.dtors o = if (o < s.next ∧ s.alive o = false) then 1 else 0
  ptr_ok : ∀ v o, s.ptr v = some o → ¬ ex v →
    (s.alive o = true ∧ s.kind o = v.kind.obj ∧ v ∈ s.ring o)
  ptr_live : ∀ v o, s.ptr v = some o → s.vlive v = true
  ring_ptr : ∀ v o, v ∈ s.ring o → s.ptr v = some o
  ring_nodup : ∀ o, (s.ring o).Nodup
  ex_out : ∀ v, ex v → ∀ o, v ∉ s.ring o
  cur_lt : ∀ d, s.vlive (.cur d) = true → d < s.next
  kids_ok : ∀ b m, m ∈ s.kids b →
    (s.alive m = true ∧ s.kind m = .mem ∧ s.par m = some b ∧ s.alive b = true
      ∧ (s.kind b = .buf ∨ s.kind b = .pool))
  kids_nodup : ∀ b, (s.kids b).Nodup
  ch_ok : ∀ k d c, c ∈ s.chGet k d →
    (s.alive c = true ∧ s.par c = some d ∧ slot (s.kind c) = slot k ∧ s.kind c ≠ .dev ∧ s.kind c ≠ .mem
      ∧ s.alive d = true ∧ s.kind d = .dev)
  ch_nodup : ∀ k d, (s.chGet k d).Nodup
  inner_ok : ∀ p i, s.alive p = true → s.inner p = some i →
    (s.kind p = .pool ∧ s.alive i = true ∧ s.kind i = .buf ∧ s.kids i = [] ∧ s.par i = s.par p
      ∧ ∀ k d, i ∉ s.chGet k d)
  inner_inj : ∀ p q i, s.alive p = true → s.alive q = true → s.inner p = some i → s.inner q = some i → p = q

/-- the safety part of the invariant -/
structure Inv0 (ex : Var → Prop) (s : St) : Prop extends Inv00 ex s where
  ch_par : ∀ c, s.alive c = true → s.kind c ≠ .dev → s.kind c ≠ .mem →
    ∃ d, s.par c = some d ∧ s.alive d = true ∧ s.kind d = .dev
      ∧ (c ∈ s.chGet (s.kind c) d ∨ (s.kind c = .buf ∧ ∃ p, s.alive p = true ∧ s.inner p = some c))
  mem_par : ∀ m, s.alive m = true → s.kind m = .mem → ∃ b, s.par m = some b ∧ m ∈ s.kids b

/-- safety part plus "nothing is alive without an owner" (no leak) -/
structure InvX (ex : Var → Prop) (s : St) : Prop extends Inv0 ex s where
  ring_ne : ∀ o, s.alive o = true → s.kind o ≠ .buf → s.useRefs o = true →
    (s.ring o ≠ [] ∨ ∃ v, ex v ∧ s.ptr v = some o)
  buf_ne : ∀ b, s.alive b = true → s.kind b = .buf →
    (s.kids b ≠ [] ∨ ∃ p, s.alive p = true ∧ s.inner p = some b)

/-- a set of objects that can be destroyed together: it contains everything its members own, and it
    takes away neither the last slice of a surviving buffer nor the inner buffer of a surviving pool -/
structure Closed0 (s : St) (K : List Nat) : Prop where
  nodup : K.Nodup
  alive : ∀ o ∈ K, s.alive o = true
  kidsC : ∀ b ∈ K, ∀ m ∈ s.kids b, m ∈ K
  innerC : ∀ p ∈ K, ∀ i, s.inner p = some i → i ∈ K
  chC : ∀ d ∈ K, ∀ k, ∀ c ∈ s.chGet k d, c ∈ K
  innerUp : ∀ p i, s.alive p = true → s.inner p = some i → i ∈ K → p ∈ K

structure Closed (s : St) (K : List Nat) : Prop extends Closed0 s K where
  bufKeep : ∀ b, s.alive b = true → s.kind b = .buf → b ∉ K → s.kids b ≠ [] → ∃ m ∈ s.kids b, m ∉ K

theorem Killed.ptr_some {s s' : St} {K : List Nat} (h : Killed s K s') {v : Var} {o : Nat}
    (hp : s'.ptr v = some o) : s.ptr v = some o ∧ ∀ x ∈ K, v ∉ s.ring x := by
  by_cases hx : ∀ x ∈ K, v ∉ s.ring x
  · exact ⟨by rw [← h.ptrU v hx]; exact hp, hx⟩
  · have : ∃ x ∈ K, v ∈ s.ring x := by
      by_contra hc
      exact hx (fun x hx' hv => hc ⟨x, hx', hv⟩)
    obtain ⟨x, hx', hv⟩ := this
    rw [h.ptrK v x hx' hv] at hp
    cases hp

theorem Killed.alive_iff {s s' : St} {K : List Nat} (h : Killed s K s') (o : Nat) :
    s'.alive o = true ↔ s.alive o = true ∧ o ∉ K := by
  rw [h.alive]; simp

theorem Inv00.killed {ex : Var → Prop} {s s' : St} {K : List Nat} (hi : Inv00 ex s) (hk : Killed s K s')
    (hc : Closed0 s K) (hp : Purged s' K) (he : Emptied s' K) : Inv00 ex s' := by
  have al := hk.alive_iff
  constructor
  · rw [hk.trap]; exact hi.notrap
  · intro o ho
    rw [hk.next]
    exact hi.alive_lt o ((al o).mp ho).1
  · intro o
    rw [hk.dtors, hk.next, hi.dtors_eq o]
    by_cases hK : o ∈ K
    · have h1 : s.alive o = true := hc.alive o hK
      have h2 : s'.alive o = false := by rw [hk.alive]; simp [hK]
      have h3 : K.count o = 1 := by rw [hc.nodup.count]; simp [hK]
      have h4 : o < s.next := hi.alive_lt o h1
      simp [h1, h2, h3, h4]
    · have h3 : K.count o = 0 := List.count_eq_zero.mpr hK
      have h2 : s'.alive o = s.alive o := by rw [hk.alive]; simp [hK]
      simp [h3, h2]
  · intro v o hv hex
    obtain ⟨h1, h2⟩ := hk.ptr_some hv
    obtain ⟨a, b, c⟩ := hi.ptr_ok v o h1 hex
    have hoK : o ∉ K := fun x => h2 o x c
    refine ⟨(al o).mpr ⟨a, hoK⟩, by rw [hk.kind]; exact b, by rw [hk.ring]; simp [hoK, c]⟩
  · intro v o hv
    rw [hk.vlive]
    exact hi.ptr_live v o (hk.ptr_some hv).1
  · intro v o hv
    rw [hk.ring] at hv
    by_cases hoK : o ∈ K
    · simp [hoK] at hv
    · simp only [hoK, if_false] at hv
      have h1 := hi.ring_ptr v o hv
      rw [hk.ptrU v]
      · exact h1
      · intro x hx hvx
        have h2 := hi.ring_ptr v x hvx
        rw [h1] at h2
        cases h2
        exact hoK hx
  · intro o
    rw [hk.ring]
    split
    · exact List.nodup_nil
    · exact hi.ring_nodup o
  · intro v hv o ho
    rw [hk.ring] at ho
    split at ho
    · simp at ho
    · exact hi.ex_out v hv o ho
  · intro d hd
    rw [hk.next]
    rw [hk.vlive] at hd
    exact hi.cur_lt d hd
  · intro b m hm
    have h1 := hk.kidsS b m hm
    have hmK : m ∉ K := hp.1 b m hm
    obtain ⟨a1, a2, a3, a4, a5⟩ := hi.kids_ok b m h1
    have hbK : b ∉ K := by
      intro hbK
      have := (he b hbK).1
      rw [this] at hm
      simp at hm
    refine ⟨(al m).mpr ⟨a1, hmK⟩, by rw [hk.kind]; exact a2, by rw [hk.par m hmK a1]; exact a3,
      (al b).mpr ⟨a4, hbK⟩, by rw [hk.kind]; exact a5⟩
  · intro b
    exact hk.kidsN b (hi.kids_nodup b)
  · intro k d c hcm
    have h1 := hk.chS k d c hcm
    have hcK : c ∉ K := hp.2 k d c hcm
    obtain ⟨a1, a2, a3, a4, a5, a6, a7⟩ := hi.ch_ok k d c h1
    have hdK : d ∉ K := by
      intro hdK
      have := (he d hdK).2 k
      rw [this] at hcm
      simp at hcm
    rw [hk.kind]
    exact ⟨(al c).mpr ⟨a1, hcK⟩, by rw [hk.par c hcK a1]; exact a2, a3, a4, a5, (al d).mpr ⟨a6, hdK⟩, a7⟩
  · intro k d
    exact hk.chN k d (hi.ch_nodup k d)
  · intro p i hpa hpi
    rw [hk.inner] at hpi
    obtain ⟨hp1, hp2⟩ := (al p).mp hpa
    obtain ⟨q1, q2, q3, q4, q5, q6⟩ := hi.inner_ok p i hp1 hpi
    have hiK : i ∉ K := fun x => hp2 (hc.innerUp p i hp1 hpi x)
    rw [hk.kind]
    refine ⟨q1, (al i).mpr ⟨q2, hiK⟩, q3, ?_, by rw [hk.par i hiK q2, hk.par p hp2 hp1]; exact q5, ?_⟩
    · apply List.eq_nil_iff_forall_not_mem.mpr
      intro x hx
      have := hk.kidsS i x hx
      rw [q4] at this
      simp at this
    · intro k d hx
      exact q6 k d (hk.chS k d i hx)
  · intro p q i hpa hqa hpi hqi
    rw [hk.inner] at hpi hqi
    exact hi.inner_inj p q i ((al p).mp hpa).1 ((al q).mp hqa).1 hpi hqi

theorem Inv0.killed {ex : Var → Prop} {s s' : St} {K : List Nat} (hi : Inv0 ex s) (hk : Killed s K s')
    (hc : Closed0 s K) (hp : Purged s' K) (he : Emptied s' K) : Inv0 ex s' := by
  have al := hk.alive_iff
  refine ⟨hi.toInv00.killed hk hc hp he, ?_, ?_⟩
  rotate_left
  · intro m hm hkm
    rw [hk.kind] at hkm
    obtain ⟨hm1, hm2⟩ := (al m).mp hm
    obtain ⟨b, hb1, hb2⟩ := hi.mem_par m hm1 hkm
    refine ⟨b, by rw [hk.par m hm2 hm1]; exact hb1, ?_⟩
    apply hk.kidsU b m hb2 hm1 hm2
    intro hbK
    exact hm2 (hc.kidsC b hbK m hb2)
  · intro c hca hk1 hk2
    rw [hk.kind] at hk1 hk2
    obtain ⟨hc1, hc2⟩ := (al c).mp hca
    obtain ⟨d, hd1, hd2, hd3, hd4⟩ := hi.ch_par c hc1 hk1 hk2
    have hdK : d ∉ K := by
      intro hdK
      rcases hd4 with hd4 | ⟨hkb, p, hp1, hp2⟩
      · exact hc2 (hc.chC d hdK _ c hd4)
      · -- c is the inner buffer of pool p, which is a child of d
        obtain ⟨q1, q2, q3, q4, q5, q6⟩ := hi.inner_ok p c hp1 hp2
        have hkp1 : s.kind p ≠ .dev := by rw [q1]; decide
        have hkp2 : s.kind p ≠ .mem := by rw [q1]; decide
        obtain ⟨d', e1, e2, e3, e4⟩ := hi.ch_par p hp1 hkp1 hkp2
        have : d' = d := by
          rw [q5, e1] at hd1
          cases hd1
          rfl
        subst this
        rcases e4 with e4 | ⟨e5, _⟩
        · exact hc2 (hc.innerC p (hc.chC d' hdK _ p e4) c hp2)
        · rw [q1] at e5
          cases e5
    refine ⟨d, by rw [hk.par c hc2 hc1]; exact hd1, (al d).mpr ⟨hd2, hdK⟩, by rw [hk.kind]; exact hd3, ?_⟩
    rw [hk.kind]
    rcases hd4 with hd4 | ⟨hkb, p, hp1, hp2⟩
    · exact Or.inl (hk.chU _ d c hd4 hc1 hc2 hdK)
    · refine Or.inr ⟨hkb, p, (al p).mpr ⟨hp1, ?_⟩, by rw [hk.inner]; exact hp2⟩
      intro hpK
      exact hc2 (hc.innerC p hpK c hp2)

theorem InvX.killed {ex : Var → Prop} {s s' : St} {K : List Nat} (hi : InvX ex s) (hk : Killed s K s')
    (hc : Closed s K) (hp : Purged s' K) (he : Emptied s' K) : InvX ex s' := by
  have al := hk.alive_iff
  refine ⟨hi.toInv0.killed hk hc.toClosed0 hp he, ?_, ?_⟩
  · intro o hoa hko hu
    rw [hk.kind] at hko
    rw [hk.useRefs] at hu
    obtain ⟨ho1, ho2⟩ := (al o).mp hoa
    rw [hk.ring]
    simp only [ho2, if_false]
    rcases hi.ring_ne o ho1 hko hu with h | ⟨v, hv1, hv2⟩
    · exact Or.inl h
    · refine Or.inr ⟨v, hv1, ?_⟩
      rw [hk.ptrU v]
      · exact hv2
      · intro x _ hvx
        exact hi.ex_out v hv1 x hvx
  · intro b hba hkb
    rw [hk.kind] at hkb
    obtain ⟨hb1, hb2⟩ := (al b).mp hba
    rcases hi.buf_ne b hb1 hkb with h | ⟨p, hp1, hp2⟩
    · obtain ⟨m, hm1, hm2⟩ := hc.bufKeep b hb1 hkb hb2 h
      left
      intro hnil
      have := hk.kidsU b m hm1 (hi.kids_ok b m hm1).1 hm2 hb2
      rw [hnil] at this
      simp at this
    · refine Or.inr ⟨p, (al p).mpr ⟨hp1, ?_⟩, by rw [hk.inner]; exact hp2⟩
      intro hpK
      exact hb2 (hc.innerC p hpK b hp2)

end Occa.Gc
