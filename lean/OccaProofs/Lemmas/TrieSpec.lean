/-
Lemmas about the specification side of the trie model (OccaModel/Trie.lean): association lists,
`lookup`, `longestPrefix`, `specAdd`, `specRemove`, and the position function `idxOf` that the
representation invariant uses.  Core Lean only.
-/
import OccaModel.Trie

set_option linter.unusedSectionVars false

namespace Occa.Trie
variable {α V β : Type} [DecidableEq α]

/-! ### `longestBy'`: the longest prefix on which a partial function is defined, by recursion on the query -/

/-- longest prefix `p` of `q` with `f p` defined, as `(p.length, f p)`; recursion on `q` -/
def longestBy (f : List α → Option β) : List α → Option (Nat × β)
  | [] => (f []).map fun b => (0, b)
  | c :: cs =>
    match longestBy (fun k => f (c :: k)) cs with
    | some (m, b) => some (m + 1, b)
    | none => (f []).map fun b => (0, b)

/-- the same by counting down over `q.take n` (the shape of `longestPrefix.go`) -/
def longestTake (f : List α → Option β) (q : List α) : Nat → Option (Nat × β)
  | 0 => (f []).map fun b => (0, b)
  | n + 1 =>
    match f (q.take (n + 1)) with
    | some b => some (n + 1, b)
    | none => longestTake f q n

theorem longestTake_cons (f : List α → Option β) (c : α) (cs : List α) (n : Nat) :
    longestTake f (c :: cs) (n + 1) =
      match longestTake (fun k => f (c :: k)) cs n with
      | some (m, b) => some (m + 1, b)
      | none => (f []).map fun b => (0, b) := by
  induction n with
  | zero =>
    simp only [longestTake, List.take_succ_cons, List.take_zero]
    cases h : f [c] <;> simp
  | succ n ih =>
    rw [longestTake]
    simp only [List.take_succ_cons]
    conv => rhs; rw [longestTake]
    cases h : f (c :: List.take (n + 1) cs) with
    | some b => simp
    | none => simp only []; rw [ih]

theorem longestTake_eq_longestBy (f : List α → Option β) (q : List α) :
    longestTake f q q.length = longestBy f q := by
  induction q generalizing f with
  | nil => simp [longestTake, longestBy]
  | cons c cs ih =>
    rw [List.length_cons, longestTake_cons, ih, longestBy]

theorem longestPrefix_go_eq (M : List (List α × V)) (q : List α) (n : Nat) :
    longestPrefix.go M q n = longestTake (fun k => lookup k M) q n := by
  induction n with
  | zero => simp [longestPrefix.go, longestTake]
  | succ n ih =>
    rw [longestPrefix.go, longestTake, ih]
    cases lookup (List.take (n + 1) q) M <;> rfl

theorem longestPrefix_eq_longestBy (M : List (List α × V)) (q : List α) :
    longestPrefix M q = longestBy (fun k => lookup k M) q := by
  rw [longestPrefix, longestPrefix_go_eq, longestTake_eq_longestBy]

/-- characterisation of `longestTake`: the answer is the largest `n ≤ N` with `f (q.take n)` defined -/
theorem longestTake_some_iff (f : List α → Option β) (q : List α) (N n : Nat) (b : β) :
    longestTake f q N = some (n, b) ↔
      n ≤ N ∧ f (q.take n) = some b ∧ ∀ m, n < m → m ≤ N → f (q.take m) = none := by
  induction N with
  | zero =>
    simp only [longestTake]
    constructor
    · intro h
      cases hf : f [] with
      | none => simp [hf] at h
      | some b' =>
        simp [hf] at h
        obtain ⟨rfl, rfl⟩ := h
        exact ⟨Nat.le_refl _, by simpa using hf, fun m h1 h2 => by omega⟩
    · rintro ⟨h0, hf, _⟩
      have : n = 0 := by omega
      subst this
      simp at hf
      simp [hf]
  | succ N ih =>
    rw [longestTake]
    cases hf : f (q.take (N + 1)) with
    | some b' =>
      simp only []
      constructor
      · intro h
        simp at h
        obtain ⟨rfl, rfl⟩ := h
        exact ⟨Nat.le_refl _, hf, fun m h1 h2 => by omega⟩
      · rintro ⟨h0, hfn, hmax⟩
        by_cases hn : n = N + 1
        · subst hn; rw [hf] at hfn; simp at hfn; simp [hfn]
        · have := hmax (N + 1) (by omega) (Nat.le_refl _)
          rw [hf] at this; simp at this
    | none =>
      simp only []
      rw [ih]
      constructor
      · rintro ⟨h0, hfn, hmax⟩
        refine ⟨by omega, hfn, fun m h1 h2 => ?_⟩
        by_cases hm : m = N + 1
        · subst hm; exact hf
        · exact hmax m h1 (by omega)
      · rintro ⟨h0, hfn, hmax⟩
        have hn : n ≠ N + 1 := by
          intro e; subst e; rw [hf] at hfn; simp at hfn
        exact ⟨by omega, hfn, fun m h1 h2 => hmax m h1 (by omega)⟩

theorem longestTake_none_iff (f : List α → Option β) (q : List α) (N : Nat) :
    longestTake f q N = none ↔ ∀ m, m ≤ N → f (q.take m) = none := by
  induction N with
  | zero =>
    simp only [longestTake]
    constructor
    · intro h m hm
      have : m = 0 := by omega
      subst this
      cases hf : f [] with
      | none => simpa using hf
      | some b => simp [hf] at h
    · intro h
      have := h 0 (Nat.le_refl _)
      simp at this
      simp [this]
  | succ N ih =>
    rw [longestTake]
    cases hf : f (q.take (N + 1)) with
    | some b' =>
      simp only []
      constructor
      · intro h; simp at h
      · intro h; have := h (N + 1) (Nat.le_refl _); rw [hf] at this; simp at this
    | none =>
      simp only []
      rw [ih]
      constructor
      · intro h m hm
        by_cases e : m = N + 1
        · subst e; exact hf
        · exact h m (by omega)
      · intro h m hm
        exact h m (by omega)

/-- `longestBy` only depends on the values of `f` -/
theorem longestBy_congr {f g : List α → Option β} (h : ∀ k, f k = g k) (q : List α) :
    longestBy f q = longestBy g q := by
  have : f = g := funext h
  rw [this]

theorem longestBy_some {f : List α → Option β} {q : List α} {m : Nat} {b : β}
    (h : longestBy f q = some (m, b)) : m ≤ q.length ∧ f (q.take m) = some b := by
  induction q generalizing f m with
  | nil =>
    simp only [longestBy] at h
    cases h0 : f [] with
    | none => simp [h0] at h
    | some j =>
      simp [h0] at h
      obtain ⟨rfl, rfl⟩ := h
      exact ⟨Nat.le_refl _, by simpa using h0⟩
  | cons c cs ih =>
    simp only [longestBy] at h
    cases h1 : longestBy (fun k => f (c :: k)) cs with
    | none =>
      simp [h1] at h
      cases h0 : f [] with
      | none => simp [h0] at h
      | some j =>
        simp [h0] at h
        obtain ⟨rfl, rfl⟩ := h
        exact ⟨Nat.zero_le _, by simpa using h0⟩
    | some r =>
      obtain ⟨m', b'⟩ := r
      simp [h1] at h
      obtain ⟨rfl, rfl⟩ := h
      have := ih h1
      exact ⟨by simp; omega, by simpa using this.2⟩

/-- post-composing with a function that is defined wherever `f` produces an index -/
theorem longestBy_bind (f : List α → Option Nat) (g : Nat → Option β)
    (hg : ∀ k i, f k = some i → (g i).isSome) (q : List α) :
    longestBy (fun k => (f k).bind g) q =
      (longestBy f q).bind fun r => (g r.2).map fun b => (r.1, b) := by
  induction q generalizing f with
  | nil =>
    simp only [longestBy]
    cases h : f [] with
    | none => simp
    | some i => simp
  | cons c cs ih =>
    simp only [longestBy]
    rw [ih (fun k => f (c :: k)) (fun k i h => hg (c :: k) i h)]
    cases h : longestBy (fun k => f (c :: k)) cs with
    | none =>
      simp only [Option.bind_none]
      cases h0 : f [] <;> simp
    | some r =>
      obtain ⟨m, i⟩ := r
      simp only [Option.bind_some]
      have hi := hg _ i (longestBy_some h).2
      cases hgi : g i with
      | none => simp [hgi] at hi
      | some b => simp

/-! ### positions in the association list -/

/-- position of the first entry with key `k` -/
def idxOf (k : List α) : List (List α × V) → Option Nat
  | [] => none
  | (k', _) :: r => if k = k' then some 0 else (idxOf k r).map (· + 1)

/-- the keys of `M` are pairwise distinct -/
def NodupKeys (M : List (List α × V)) : Prop := (M.map (·.1)).Nodup

theorem idxOf_lt {k : List α} {M : List (List α × V)} {i : Nat} (h : idxOf k M = some i) : i < M.length := by
  induction M generalizing i with
  | nil => simp [idxOf] at h
  | cons e r ih =>
    obtain ⟨k', v⟩ := e
    simp only [idxOf] at h
    split at h
    · simp at h; subst h; simp
    · cases h' : idxOf k r with
      | none => simp [h'] at h
      | some j => simp [h'] at h; subst h; have := ih h'; simp; omega

theorem idxOf_isSome_iff {k : List α} {M : List (List α × V)} : (idxOf k M).isSome ↔ k ∈ M.map (·.1) := by
  induction M with
  | nil => simp [idxOf]
  | cons e r ih =>
    obtain ⟨k', v⟩ := e
    simp only [idxOf, List.map_cons, List.mem_cons]
    split
    · simp_all
    · rename_i hne
      simp only [Option.isSome_map, ih]
      constructor
      · exact Or.inr
      · rintro (h | h)
        · exact absurd h hne
        · exact h

theorem idxOf_eq_none_iff {k : List α} {M : List (List α × V)} : idxOf k M = none ↔ k ∉ M.map (·.1) := by
  rw [← idxOf_isSome_iff]; cases idxOf k M <;> simp

theorem idxOf_getElem {k : List α} {M : List (List α × V)} {i : Nat} (h : idxOf k M = some i) :
    ∃ v, M[i]? = some (k, v) := by
  induction M generalizing i with
  | nil => simp [idxOf] at h
  | cons e r ih =>
    obtain ⟨k', v⟩ := e
    simp only [idxOf] at h
    split at h
    · rename_i hk; simp at h; subst h; subst hk; exact ⟨v, by simp⟩
    · cases h' : idxOf k r with
      | none => simp [h'] at h
      | some j => simp [h'] at h; subst h; simpa using ih h'

/-- `lookup` is "find the position, read the value there" -/
theorem lookup_eq_idxOf (k : List α) (M : List (List α × V)) :
    lookup k M = (idxOf k M).bind fun i => (M.map (·.2))[i]? := by
  induction M with
  | nil => simp [lookup, idxOf]
  | cons e r ih =>
    obtain ⟨k', v⟩ := e
    simp only [lookup, idxOf]
    split
    · simp
    · rw [ih]
      cases idxOf k r <;> simp

theorem lookup_isSome_iff {k : List α} {M : List (List α × V)} : (lookup k M).isSome ↔ k ∈ M.map (·.1) := by
  induction M with
  | nil => simp [lookup]
  | cons e r ih =>
    obtain ⟨k', v⟩ := e
    simp only [lookup, List.map_cons, List.mem_cons]
    split
    · simp_all
    · rename_i hne
      rw [ih]
      constructor
      · exact Or.inr
      · rintro (h | h)
        · exact absurd h hne
        · exact h

theorem lookup_eq_none_iff {k : List α} {M : List (List α × V)} : lookup k M = none ↔ k ∉ M.map (·.1) := by
  rw [← lookup_isSome_iff]; cases lookup k M <;> simp

/-! ### `specAdd` -/

theorem idxOf_append_new {k k' : List α} {v : V} {M : List (List α × V)} (hk : idxOf k M = none) :
    idxOf k' (M ++ [(k, v)]) = if k' = k then some M.length else idxOf k' M := by
  induction M with
  | nil => simp [idxOf]
  | cons e r ih =>
    obtain ⟨k0, v0⟩ := e
    simp only [idxOf] at hk
    split at hk
    · simp at hk
    · rename_i hne
      have hr : idxOf k r = none := by cases h : idxOf k r <;> simp_all
      simp only [List.cons_append, idxOf, ih hr]
      by_cases h1 : k' = k0
      · subst h1
        have : ¬ k' = k := fun e => hne e.symm
        simp [this]
      · simp only [h1, if_false]
        by_cases h2 : k' = k
        · simp [h2]
        · simp [h2]

theorem idxOf_map_update {k k' : List α} {v : V} {M : List (List α × V)} :
    idxOf k' (M.map fun e => if e.1 = k then (k, v) else e) = idxOf k' M := by
  induction M with
  | nil => simp [idxOf]
  | cons e r ih =>
    obtain ⟨k0, v0⟩ := e
    simp only [List.map_cons]
    by_cases h : k0 = k
    · subst h; simp only [if_true, idxOf, ih]
    · simp only [h, if_false, idxOf, ih]

theorem keys_map_update {k : List α} {v : V} {M : List (List α × V)} :
    (M.map fun e => if e.1 = k then (k, v) else e).map (·.1) = M.map (·.1) := by
  induction M with
  | nil => simp
  | cons e r ih =>
    obtain ⟨k0, v0⟩ := e
    simp only [List.map_cons, ih]
    by_cases h : k0 = k
    · subst h; simp
    · simp [h]

theorem values_map_update {k : List α} {v : V} {M : List (List α × V)} {i : Nat}
    (hn : NodupKeys M) (hi : idxOf k M = some i) :
    (M.map fun e => if e.1 = k then (k, v) else e).map (·.2) = (M.map (·.2)).set i v := by
  induction M generalizing i with
  | nil => simp [idxOf] at hi
  | cons e r ih =>
    obtain ⟨k0, v0⟩ := e
    have hn' : NodupKeys r := by
      unfold NodupKeys at hn ⊢; simp only [List.map_cons, List.nodup_cons] at hn; exact hn.2
    simp only [idxOf] at hi
    by_cases h : k = k0
    · subst h
      simp at hi; subst hi
      simp only [List.map_cons, if_true, List.set_cons_zero]
      congr 1
      -- no other entry has key k
      unfold NodupKeys at hn; simp only [List.map_cons, List.nodup_cons] at hn
      have : ∀ e ∈ r, ¬ e.1 = k := fun e he heq => hn.1 (by rw [← heq]; exact List.mem_map_of_mem he)
      clear ih hn hn'
      induction r with
      | nil => simp
      | cons e' r' ih' =>
        simp only [List.map_cons]
        rw [if_neg (this e' (by simp)), ih' (fun e he => this e (by simp [he]))]
    · simp only [h, if_false] at hi
      cases h' : idxOf k r with
      | none => simp [h'] at hi
      | some j =>
        simp [h'] at hi; subst hi
        have h0 : ¬ k0 = k := fun e => h e.symm
        simp only [List.map_cons, h0, if_false, List.set_cons_succ, ih hn' h']

theorem nodupKeys_specAdd {M : List (List α × V)} (hn : NodupKeys M) (k : List α) (v : V) :
    NodupKeys (specAdd M k v) := by
  unfold specAdd
  split
  · unfold NodupKeys; rw [keys_map_update]; exact hn
  · rename_i h
    have : k ∉ M.map (·.1) := by rw [← lookup_isSome_iff]; exact h
    unfold NodupKeys at hn ⊢
    rw [List.map_append, List.nodup_append]
    refine ⟨hn, by simp, ?_⟩
    intro a ha b hb
    simp at hb; subst hb
    intro e; subst e; exact this ha

/-! ### `specRemove` -/

theorem specRemove_of_absent {k : List α} {M : List (List α × V)} (h : idxOf k M = none) : specRemove M k = M := by
  rw [idxOf_eq_none_iff] at h
  unfold specRemove
  rw [List.filter_eq_self]
  intro e he
  simp only [ne_eq, decide_eq_true_eq]
  intro heq; exact h (by rw [← heq]; exact List.mem_map_of_mem he)

theorem specRemove_eq_eraseIdx {k : List α} {M : List (List α × V)} {i : Nat}
    (hn : NodupKeys M) (hi : idxOf k M = some i) : specRemove M k = M.eraseIdx i := by
  induction M generalizing i with
  | nil => simp [idxOf] at hi
  | cons e r ih =>
    obtain ⟨k0, v0⟩ := e
    have hn' : NodupKeys r := by
      unfold NodupKeys at hn ⊢; simp only [List.map_cons, List.nodup_cons] at hn; exact hn.2
    simp only [idxOf] at hi
    by_cases h : k = k0
    · subst h
      simp at hi; subst hi
      unfold NodupKeys at hn; simp only [List.map_cons, List.nodup_cons] at hn
      have hthis : specRemove r k = r := specRemove_of_absent (idxOf_eq_none_iff.mpr hn.1)
      show List.filter _ _ = _
      rw [List.filter_cons_of_neg (by simp), List.eraseIdx_cons_zero]
      exact hthis
    · simp only [h, if_false] at hi
      cases h' : idxOf k r with
      | none => simp [h'] at hi
      | some j =>
        simp [h'] at hi; subst hi
        have h0 : ¬ k0 = k := fun e => h e.symm
        have hthis : specRemove r k = r.eraseIdx j := ih hn' h'
        show List.filter _ _ = _
        rw [List.filter_cons_of_pos (by simpa using h0), List.eraseIdx_cons_succ]
        exact congrArg _ hthis

/-- what `decrementIndex` does to one index -/
def decIdx (vi i : Nat) : Nat := if i > vi then i - 1 else i

theorem idxOf_eraseIdx {k k' : List α} {M : List (List α × V)} {i : Nat}
    (hn : NodupKeys M) (hi : idxOf k M = some i) :
    idxOf k' (M.eraseIdx i) = if k' = k then none else (idxOf k' M).map (decIdx i) := by
  induction M generalizing i with
  | nil => simp [idxOf] at hi
  | cons e r ih =>
    obtain ⟨k0, v0⟩ := e
    have hn' : NodupKeys r := by
      unfold NodupKeys at hn ⊢; simp only [List.map_cons, List.nodup_cons] at hn; exact hn.2
    simp only [idxOf] at hi
    by_cases h : k = k0
    · subst h
      simp at hi; subst hi
      unfold NodupKeys at hn; simp only [List.map_cons, List.nodup_cons] at hn
      simp only [List.eraseIdx_cons_zero, idxOf]
      by_cases h1 : k' = k
      · subst h1; simp [idxOf_eq_none_iff.mpr hn.1]
      · simp only [h1, if_false]
        cases idxOf k' r with
        | none => simp
        | some j => simp [decIdx]
    · simp only [h, if_false] at hi
      cases h' : idxOf k r with
      | none => simp [h'] at hi
      | some j =>
        simp [h'] at hi; subst hi
        simp only [List.eraseIdx_cons_succ, idxOf, ih hn' h']
        by_cases h1 : k' = k0
        · subst h1
          have : ¬ k' = k := fun e => h e.symm
          simp [this, decIdx]
        · simp only [h1, if_false]
          by_cases h2 : k' = k
          · simp [h2]
          · simp only [h2, if_false]
            cases idxOf k' r with
            | none => simp
            | some j' =>
              simp only [Option.map_some, decIdx]
              congr 1
              by_cases hj : j' > j
              · simp [hj]; omega
              · simp [hj]

theorem nodupKeys_eraseIdx {M : List (List α × V)} (hn : NodupKeys M) (i : Nat) : NodupKeys (M.eraseIdx i) := by
  unfold NodupKeys at hn ⊢
  exact List.Nodup.sublist ((List.eraseIdx_sublist M i).map _) hn

theorem nodupKeys_specRemove {M : List (List α × V)} (hn : NodupKeys M) (k : List α) : NodupKeys (specRemove M k) := by
  unfold NodupKeys specRemove at *
  exact List.Nodup.sublist ((List.filter_sublist).map _) hn

end Occa.Trie
