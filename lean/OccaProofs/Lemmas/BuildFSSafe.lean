/-
The build pipeline obeys the staging discipline whatever the file system answers:
a small program logic over `Prog` (Safe), specifications of every procedure of
OccaModel/BuildFS.lean, and `safe_buildProg`.
-/
import OccaProofs.Lemmas.BuildFS
namespace Occa.BuildFS

theorem acceptStep_res (S : Spec) (st : AS) (pid : Nat) (o : Op) (r r' : Bool) :
    acceptStep S st ⟨pid, o, r⟩ = acceptStep S st ⟨pid, o, r'⟩ := by
  cases o <;> rfl

/-- the paths a step writes to satisfy `P`, and a rename targets a final name -/
def touchedOK (P : Path → Prop) : Op → Prop
  | .creat p => P p
  | .append p _ => P p
  | .close p => P p
  | .rename a b => P a ∧ b.tmp = none
  | .exec _ outs => ∀ x ∈ outs, P x
  | _ => True

def isRmrf : Op → Bool
  | .rmrf _ => true
  | _ => false

theorem touchedOK_outs {P : Path → Prop} {o : Op} (h : touchedOK P o) : ∀ x ∈ execOutsOf o, P x := by
  cases o <;> simp [execOutsOf] <;> exact h

/-- all traces of the program from discipline state `st` are accepted, every file name it asks a compiler
    to produce satisfies `P`, and when the program returns `a` in state `st'` then `Q a st'` -/
def Safe (S : Spec) (pid : Nat) (P : Path → Prop) (Rm : Prop) {α : Type} : Prog α → AS → (α → AS → Prop) → Prop
  | .ret a, st, Q => Q a st
  | .fail, _, _ => True
  | .act o k, st, Q => touchedOK P o ∧ (isRmrf o = true → Rm) ∧
      ∃ st', acceptStep S st ⟨pid, o, true⟩ = some st' ∧ ∀ r, Safe S pid P Rm (k r) st' Q

theorem safe_bind {S : Spec} {pid : Nat} {P : Path → Prop} {Rm : Prop} {α β : Type} (m : Prog α) (f : α → Prog β) (st : AS)
    (Q : α → AS → Prop) (R : β → AS → Prop)
    (hm : Safe S pid P Rm m st Q) (hf : ∀ a st', Q a st' → Safe S pid P Rm (f a) st' R) :
    Safe S pid P Rm (m >>= f) st R := by
  induction m generalizing st with
  | ret a => exact hf a st hm
  | fail => trivial
  | act o k ih =>
    obtain ⟨hP, hR, st', h1, h2⟩ := hm
    exact ⟨hP, hR, st', h1, fun r => ih r st' (h2 r)⟩

theorem safe_mono {S : Spec} {pid : Nat} {P : Path → Prop} {Rm : Prop} {α : Type} (m : Prog α) (st : AS) (Q R : α → AS → Prop)
    (hm : Safe S pid P Rm m st Q) (h : ∀ a st', Q a st' → R a st') : Safe S pid P Rm m st R := by
  induction m generalizing st with
  | ret a => exact h a st hm
  | fail => trivial
  | act o k ih =>
    obtain ⟨hP, hR, st', h1, h2⟩ := hm
    exact ⟨hP, hR, st', h1, fun r => ih r st' (h2 r)⟩

theorem safe_trace {S : Spec} {pid : Nat} {P : Path → Prop} {Rm : Prop} {α : Type} (m : Prog α) (st : AS) (Q : α → AS → Prop)
    (hm : Safe S pid P Rm m st Q) (t : Trace) (ht : IsTrace pid m t) : (acceptsFrom S st t).isSome = true := by
  induction ht generalizing st with
  | nil m => simp [acceptsFrom]
  | act o k r t _ ih =>
    obtain ⟨_, _, st', h1, h2⟩ := hm
    simp only [acceptsFrom]
    rw [acceptStep_res S st pid o r true, h1]
    exact ih st' (h2 r)


theorem safe_outs {S : Spec} {pid : Nat} {P : Path → Prop} {Rm : Prop} {α : Type} (m : Prog α) (st : AS) (Q : α → AS → Prop)
    (hm : Safe S pid P Rm m st Q) (t : Trace) (ht : IsTrace pid m t) : ∀ e ∈ t, ∀ x ∈ execOutsOf e.op, P x := by
  induction ht generalizing st with
  | nil m => intro e he; cases he
  | act o k r t _ ih =>
    obtain ⟨hP, _, st', _, h2⟩ := hm
    intro e he
    rcases List.mem_cons.1 he with rfl | he'
    · exact touchedOK_outs hP
    · exact ih st' (h2 r) e he'

/-- what every step of the program guarantees, whatever the answers (no bookkeeping needed to state it) -/
def Guar (G : Op → Prop) {α : Type} : Prog α → Prop
  | .ret _ => True
  | .fail => True
  | .act o k => G o ∧ ∀ r, Guar G (k r)

theorem safe_guar {S : Spec} {pid : Nat} {P : Path → Prop} {Rm : Prop} {α : Type} (m : Prog α) (st : AS) (Q : α → AS → Prop)
    (hm : Safe S pid P Rm m st Q) : Guar (fun o => touchedOK P o ∧ (isRmrf o = true → Rm)) m := by
  induction m generalizing st with
  | ret a => trivial
  | fail => trivial
  | act o k ih =>
    obtain ⟨hP, hR, st', _, h2⟩ := hm
    exact ⟨⟨hP, hR⟩, fun r => ih r st' (h2 r)⟩

theorem guar_trace {G : Op → Prop} {pid : Nat} {α : Type} (m : Prog α) (hm : Guar G m) (t : Trace) (ht : IsTrace pid m t) :
    ∀ e ∈ t, G e.op := by
  induction ht with
  | nil m => intro e he; cases he
  | act o k r t _ ih =>
    intro e he
    rcases List.mem_cons.1 he with rfl | he'
    · exact hm.1
    · exact ih (hm.2 r) e he'

/-! ### acceptance of the single steps -/
section steps
variable {S : Spec} {pid : Nat} {P : Path → Prop} {Rm : Prop} {st : AS}

theorem safe_op {o : Op} {st' : AS} (h : acceptStep S st ⟨pid, o, true⟩ = some st')
    (hP : touchedOK P o := by simp [touchedOK]) (hR : isRmrf o = true → Rm := by simp [isRmrf]) :
    Safe S pid P Rm (op o) st (fun _ s => s = st') := ⟨hP, hR, st', h, fun _ => rfl⟩

theorem acc_stat {p : Path} (hp : p.tmp = none) : acceptStep S st ⟨pid, .stat p, true⟩ = some st := by
  simp [acceptStep, Path.isTemp, hp]
theorem acc_openRead {p : Path} (hp : p.tmp = none) : acceptStep S st ⟨pid, .openRead p, true⟩ = some st := by
  simp [acceptStep, Path.isTemp, hp]
theorem acc_fsync {p : Path} (hp : p.tmp = none) : acceptStep S st ⟨pid, .fsync p, true⟩ = some st := by
  simp [acceptStep, Path.isTemp, hp]
theorem acc_run {p : Path} (hp : p.tmp = none) : acceptStep S st ⟨pid, .run p, true⟩ = some st := by
  simp [acceptStep, Path.isTemp, hp]
theorem acc_statDir {d : String} : acceptStep S st ⟨pid, .statDir d, true⟩ = some st := rfl
theorem acc_mkdir {d : String} : acceptStep S st ⟨pid, .mkdir d, true⟩ = some st := rfl
theorem acc_fsyncDir {d : String} : acceptStep S st ⟨pid, .fsyncDir d, true⟩ = some st := rfl
theorem acc_rmrf {d : String} : acceptStep S st ⟨pid, .rmrf d, true⟩ = some st := rfl

theorem acc_creat {p : Path} (hp : p.isTemp = true) (hn : st p = none) :
    acceptStep S st ⟨pid, .creat p, true⟩ = some (st.set p (pid, .opened [])) := by
  simp [acceptStep, hp, hn]
theorem acc_append {p : Path} {cur bs : Bytes} (h : st p = some (pid, .opened cur)) :
    acceptStep S st ⟨pid, .append p bs, true⟩ = some (st.set p (pid, .opened (cur ++ bs))) := by
  simp [acceptStep, h]
theorem acc_close {p : Path} {cur : Bytes} (h : st p = some (pid, .opened cur)) :
    acceptStep S st ⟨pid, .close p, true⟩ = some (st.set p (pid, .closedW cur)) := by
  simp [acceptStep, h]
theorem acc_stat_own {p : Path} {ts : TS} (h : st p = some (pid, ts)) :
    acceptStep S st ⟨pid, .stat p, true⟩ = some st := by
  simp [acceptStep, owned, h]
theorem acc_openRead_closed {p : Path} {bs : Bytes} (h : st p = some (pid, .closedW bs)) :
    acceptStep S st ⟨pid, .openRead p, true⟩ = some st := by
  simp [acceptStep, ownedClosed, h]
theorem acc_fsync_closed {p : Path} {bs : Bytes} (h : st p = some (pid, .closedW bs)) :
    acceptStep S st ⟨pid, .fsync p, true⟩ = some st := by
  simp [acceptStep, ownedClosed, h]

/-- the temp name `t` may be renamed onto `p` -/
def Movable (S : Spec) (pid : Nat) (st : AS) (t p : Path) : Prop :=
  (∃ bs, st t = some (pid, .closedW bs) ∧ S.valid p bs = true) ∨ st t = some (pid, .compiled)

theorem acc_rename {t p : Path} (ht : t.isTemp = true) (hp : p.tmp = none) (hf : t.final = p)
    (hm : Movable S pid st t p) :
    acceptStep S st ⟨pid, .rename t p, true⟩ = some (st.set t (pid, .gone)) := by
  have hp' : p.isTemp = false := (not_isTemp_iff p).2 hp
  rcases hm with ⟨bs, h1, h2⟩ | h1
  · simp [acceptStep, ht, hp', hf, h1, h2]
  · simp [acceptStep, ht, hp', hf, h1]
end steps

/-! ### the procedures -/
section procs
variable {S : Spec} {pid : Nat} {P : Path → Prop} {Rm : Prop}

theorem withTok_isTemp (p : Path) (tok : String) : (p.withTok tok).isTemp = true := rfl
theorem withTok_final (p : Path) (tok : String) (hp : p.tmp = none) : (p.withTok tok).final = p := by
  cases p; simp_all [Path.withTok, Path.final]
theorem withTok_dir (p : Path) (tok : String) : (p.withTok tok).dir = p.dir := rfl

theorem safe_ioExists (st : AS) {p : Path} (hp : p.tmp = none) :
    Safe S pid P Rm (ioExists p) st (fun _ s => s = st) := safe_op (acc_openRead hp)
theorem safe_isFile (st : AS) {p : Path} (hp : p.tmp = none) :
    Safe S pid P Rm (isFile p) st (fun _ s => s = st) := safe_op (acc_stat hp)

theorem safe_readFile (st : AS) {p : Path} (hp : p.tmp = none) :
    Safe S pid P Rm (readFile p) st (fun _ s => s = st) := by
  refine ⟨by simp [touchedOK], by simp [isRmrf], st, acc_openRead hp, fun r => ?_⟩
  cases r
  · trivial
  · exact ⟨by simp [touchedOK], by simp [isRmrf], st, acc_stat hp, fun _ => rfl⟩

theorem safe_mkpath (st : AS) (d : String) : Safe S pid P Rm (mkpath d) st (fun _ s => s = st) := by
  refine ⟨by simp [touchedOK], by simp [isRmrf], st, acc_statDir, fun r => ?_⟩
  cases r
  · exact ⟨by simp [touchedOK], by simp [isRmrf], st, acc_mkdir, fun _ => rfl⟩
  · rfl

theorem safe_sync_final (st : AS) {p : Path} (hp : p.tmp = none) :
    Safe S pid P Rm (sync p) st (fun _ s => s = st) :=
  ⟨by simp [touchedOK], by simp [isRmrf], st, acc_openRead hp, fun _ => ⟨by simp [touchedOK], by simp [isRmrf], st, acc_fsync hp, fun _ => ⟨by simp [touchedOK], by simp [isRmrf], st, acc_fsyncDir, fun _ => rfl⟩⟩⟩

theorem safe_sync_closed (st : AS) {p : Path} {bs : Bytes} (h : st p = some (pid, .closedW bs)) :
    Safe S pid P Rm (sync p) st (fun _ s => s = st) :=
  ⟨by simp [touchedOK], by simp [isRmrf], st, acc_openRead_closed h, fun _ => ⟨by simp [touchedOK], by simp [isRmrf], st, acc_fsync_closed h, fun _ => ⟨by simp [touchedOK], by simp [isRmrf], st, acc_fsyncDir, fun _ => rfl⟩⟩⟩

theorem AS.set_set (st : AS) (p : Path) (v w : Nat × TS) : (st.set p v).set p w = st.set p w := by
  funext q; simp only [AS.set]; split <;> rfl

theorem safe_ioWrite (st : AS) {t : Path} (c : Bytes) (ht : t.isTemp = true) (hn : st t = none) (hPt : P t) :
    Safe S pid P Rm (ioWrite t c) st (fun _ s => s = st.set t (pid, .closedW c)) := by
  unfold ioWrite
  refine safe_bind _ _ _ _ _ (safe_mkpath st t.dir) ?_
  intro _ s hs; subst s
  refine safe_bind _ _ _ _ _ (safe_op (acc_creat ht hn) hPt) ?_
  intro ok s hs; subst s
  cases ok
  · trivial
  · simp only [if_true]
    have h0 : (st.set t (pid, .opened [])) t = some (pid, .opened []) := AS.set_same ..
    refine safe_bind _ _ _ (fun _ s => s = st.set t (pid, .opened c)) _ ?_ ?_
    · by_cases hc : c.isEmpty = true
      · have hc' : c = [] := List.isEmpty_iff.1 hc
        subst hc'
        simp only [List.isEmpty_nil, if_true]
        rfl
      · simp only [hc, if_false]
        refine safe_bind _ _ _ _ _ (safe_op (acc_append h0) hPt) ?_
        intro _ s hs; subst s
        show _ = _
        rw [AS.set_set, List.nil_append]
    · intro _ s hs; subst s
      have h1 : (st.set t (pid, .opened c)) t = some (pid, .opened c) := AS.set_same ..
      refine safe_bind _ _ _ _ _ (safe_op (acc_close h1) hPt) ?_
      intro _ s hs; subst s
      have h2 : ((st.set t (pid, .opened c)).set t (pid, .closedW c)) t = some (pid, .closedW c) := AS.set_same ..
      refine safe_mono _ _ _ _ (safe_sync_closed _ h2) ?_
      intro _ s hs; subst s
      rw [AS.set_set]

/-- the bookkeeping changed at most at `t` -/
def OnlyAt (st st' : AS) (t : Path) : Prop := ∀ q, q ≠ t → st' q = st q
def OnlyAt2 (st st' : AS) (t1 t2 : Path) : Prop := ∀ q, q ≠ t1 → q ≠ t2 → st' q = st q

theorem OnlyAt.refl (st : AS) (t : Path) : OnlyAt st st t := fun _ _ => rfl
theorem OnlyAt.set (st : AS) (t : Path) (v : Nat × TS) : OnlyAt st (st.set t v) t := fun q hq => AS.set_ne _ _ _ _ hq
theorem OnlyAt.trans {a b c : AS} {t : Path} (h1 : OnlyAt a b t) (h2 : OnlyAt b c t) : OnlyAt a c t :=
  fun q hq => (h2 q hq).trans (h1 q hq)
theorem OnlyAt2.refl (st : AS) (t1 t2 : Path) : OnlyAt2 st st t1 t2 := fun _ _ _ => rfl
theorem OnlyAt2.trans {a b c : AS} {t1 t2 : Path} (h1 : OnlyAt2 a b t1 t2) (h2 : OnlyAt2 b c t1 t2) : OnlyAt2 a c t1 t2 :=
  fun q h h' => (h2 q h h').trans (h1 q h h')
theorem OnlyAt.left {a b : AS} {t1 t2 : Path} (h : OnlyAt a b t1) : OnlyAt2 a b t1 t2 := fun q h1 _ => h q h1
theorem OnlyAt.right {a b : AS} {t1 t2 : Path} (h : OnlyAt a b t2) : OnlyAt2 a b t1 t2 := fun q _ h2 => h q h2

theorem safe_moveStaged (st : AS) {t p : Path} (ht : t.isTemp = true) (hp : p.tmp = none) (hf : t.final = p)
    (hm : Movable S pid st t p) (hPt : P t) : Safe S pid P Rm (moveStaged t p) st (fun _ s => OnlyAt st s t) := by
  have hown : ∃ ts, st t = some (pid, ts) := by
    rcases hm with ⟨bs, h, _⟩ | h
    · exact ⟨_, h⟩
    · exact ⟨_, h⟩
  obtain ⟨ts, hts⟩ := hown
  refine ⟨by simp [touchedOK], by simp [isRmrf], st, acc_stat_own hts, fun e => ?_⟩
  cases e
  · exact OnlyAt.refl st t
  · refine ⟨⟨hPt, hp⟩, by simp [isRmrf], _, acc_rename ht hp hf hm, fun ok => ?_⟩
    cases ok
    · refine ⟨by simp [touchedOK], by simp [isRmrf], _, acc_stat hp, fun e2 => ?_⟩
      cases e2
      · trivial
      · exact OnlyAt.set st t _
    · exact OnlyAt.set st t _

theorem safe_stageFile (st : AS) (p : Path) (tok : String) (skip : Bool) (prod : Path → Prog Bool)
    (hp : p.tmp = none) (hPt : P (p.withTok tok))
    (hprod : Safe S pid P Rm (prod (p.withTok tok)) st
      (fun ok s => OnlyAt st s (p.withTok tok) ∧ (ok = true → Movable S pid s (p.withTok tok) p))) :
    Safe S pid P Rm (stageFile p tok skip prod) st (fun _ s => OnlyAt st s (p.withTok tok)) := by
  unfold stageFile
  refine safe_bind _ _ _ _ _ (safe_mkpath st p.dir) ?_
  intro _ s hs; subst s
  refine safe_bind _ _ _ _ _ (safe_isFile st hp) ?_
  intro e s hs; subst s
  by_cases hse : (skip && e) = true
  · simp only [hse, if_true]
    exact OnlyAt.refl st _
  · simp only [hse]
    refine safe_bind _ _ _ _ _ hprod ?_
    intro ok s ⟨h1, h2⟩
    cases ok
    · exact h1
    · simp only [if_true]
      refine safe_mono _ _ _ _ (safe_moveStaged s (withTok_isTemp p tok) hp (withTok_final p tok hp) (h2 rfl) hPt) ?_
      intro _ s' h3
      exact h1.trans h3

theorem Movable.of_eq {st s : AS} {t p : Path} (h : s t = st t) (hm : Movable S pid st t p) : Movable S pid s t p := by
  unfold Movable at *; rw [h]; exact hm

theorem safe_stageFiles2 (st : AS) (p1 : Path) (tok1 : String) (p2 : Path) (tok2 : String) (skip : Bool)
    (prod : Path → Path → Prog Bool) (hp1 : p1.tmp = none) (hp2 : p2.tmp = none)
    (hne : p1.withTok tok1 ≠ p2.withTok tok2) (hPt1 : P (p1.withTok tok1)) (hPt2 : P (p2.withTok tok2))
    (hprod : Safe S pid P Rm (prod (p1.withTok tok1) (p2.withTok tok2)) st
      (fun ok s => OnlyAt2 st s (p1.withTok tok1) (p2.withTok tok2) ∧
        (ok = true → Movable S pid s (p1.withTok tok1) p1 ∧ Movable S pid s (p2.withTok tok2) p2))) :
    Safe S pid P Rm (stageFiles2 p1 tok1 p2 tok2 skip prod) st
      (fun _ s => OnlyAt2 st s (p1.withTok tok1) (p2.withTok tok2)) := by
  unfold stageFiles2
  refine safe_bind _ _ _ _ _ (safe_mkpath st p1.dir) ?_
  intro _ s hs; subst s
  refine safe_bind _ _ _ _ _ (safe_isFile st hp1) ?_
  intro e1 s hs; subst s
  refine safe_bind _ _ _ _ _ (safe_mkpath st p2.dir) ?_
  intro _ s hs; subst s
  refine safe_bind _ _ _ _ _ (safe_isFile st hp2) ?_
  intro e2 s hs; subst s
  by_cases hse : (skip && e1 && e2) = true
  · simp only [hse, if_true]
    exact OnlyAt2.refl st _ _
  · simp only [hse]
    refine safe_bind _ _ _ _ _ hprod ?_
    intro ok s ⟨h1, h2⟩
    cases ok
    · exact h1
    · simp only [if_true]
      obtain ⟨m1, m2⟩ := h2 rfl
      refine safe_bind _ _ _ _ _ (safe_moveStaged s (withTok_isTemp p1 tok1) hp1 (withTok_final p1 tok1 hp1) m1 hPt1) ?_
      intro _ s' h3
      have m2' : Movable S pid s' (p2.withTok tok2) p2 := Movable.of_eq (h3 _ hne.symm) m2
      refine safe_mono _ _ _ _ (safe_moveStaged s' (withTok_isTemp p2 tok2) hp2 (withTok_final p2 tok2 hp2) m2' hPt2) ?_
      intro _ s'' h4
      exact h1.trans (h3.left.trans h4.right)

theorem safe_writeProducer (st : AS) (p : Path) (tok : String) (c : Bytes) (hv : S.valid p c = true)
    (hn : st (p.withTok tok) = none) (hPt : P (p.withTok tok)) :
    Safe S pid P Rm (writeProducer c (p.withTok tok)) st
      (fun ok s => OnlyAt st s (p.withTok tok) ∧ (ok = true → Movable S pid s (p.withTok tok) p)) := by
  unfold writeProducer
  refine safe_bind _ _ _ _ _ (safe_ioWrite st c (withTok_isTemp p tok) hn hPt) ?_
  intro _ s hs; subst s
  exact ⟨OnlyAt.set st _ _, fun _ => Or.inl ⟨c, AS.set_same .., hv⟩⟩


/-! ### the pipeline -/

/-- what the theorems assume about a configuration: distinct temp tokens, producers write correct contents,
    the compiled artefacts are compiled from the right sources -/
structure CfgOK (S : Spec) (c : Config) : Prop where
  toks_inj : ∀ i j, c.toks i = c.toks j → i = j
  v_str : S.valid (c.k "string_source.cpp") c.str = true
  v_raw : S.valid (c.k c.rawBase) c.raw = true
  v_cpp : S.valid (c.k c.cppBase) c.cpp = true
  v_json : S.valid (c.k "build.json") c.json = true
  v_vsrc : S.valid (c.v "findCompilerVendor.cpp") c.vsrc = true
  v_vout : S.valid (c.v "output") c.vout = true
  v_osrc : S.valid (c.o "compilerSupportsOpenMP.cpp") c.osrc = true
  v_oout : S.valid (c.o "output") c.oout = true
  v_ooutNA : S.valid (c.o "output") c.ooutNA = true
  r_kbin : S.recipe (c.k "binary") = some c.cppBase
  r_vbin : S.recipe (c.v "binary") = some "findCompilerVendor.cpp"
  r_vlog : S.recipe (c.v "build.log") = some "findCompilerVendor.cpp"
  r_obin : S.recipe (c.o "binary") = some "compilerSupportsOpenMP.cpp"

/-- a temp name made from one of the configuration's tokens -/
def IsTok (c : Config) (x : Path) : Prop := ∃ i, x.tmp = some (c.toks i)

/-- no file named with one of the configuration's temp tokens is lying around -/
def TokFresh (c : Config) (fs : FS) : Prop := ∀ p, IsTok c p → fs.files p = none

/-- no temp name with a token of call site `n` or later has been used -/
def FreshFrom (c : Config) (st : AS) (n : Nat) : Prop := ∀ q i, q.tmp = some (c.toks i) → n ≤ i → st q = none

theorem FreshFrom.mono {c : Config} {st : AS} {n m : Nat} (h : FreshFrom c st n) (hnm : n ≤ m) : FreshFrom c st m :=
  fun q i hq hi => h q i hq (Nat.le_trans hnm hi)

theorem FreshFrom.at {c : Config} {st : AS} {n : Nat} (h : FreshFrom c st n) (p : Path) (i : Nat) (hi : n ≤ i) :
    st (p.withTok (c.toks i)) = none := h _ i rfl hi

theorem FreshFrom.step {c : Config} (hinj : ∀ i j, c.toks i = c.toks j → i = j) {st s : AS} {n : Nat} (p : Path)
    (i m : Nat) (hi : i < m) (hn : n ≤ m)
    (h : FreshFrom c st n) (ho : OnlyAt st s (p.withTok (c.toks i))) : FreshFrom c s m := by
  intro q k hq hk
  have : q ≠ p.withTok (c.toks i) := by
    intro e; rw [e] at hq
    have := hinj _ _ (Option.some.inj hq)
    omega
  rw [ho q this]
  exact h q k hq (by omega)

theorem FreshFrom.step2 {c : Config} (hinj : ∀ i j, c.toks i = c.toks j → i = j) {st s : AS} {n : Nat} (p1 p2 : Path)
    (i j m : Nat) (hi : i < m) (hj : j < m) (hn : n ≤ m)
    (h : FreshFrom c st n) (ho : OnlyAt2 st s (p1.withTok (c.toks i)) (p2.withTok (c.toks j))) :
    FreshFrom c s m := by
  intro q k hq hk
  have h1 : q ≠ p1.withTok (c.toks i) := by
    intro e; rw [e] at hq
    have := hinj _ _ (Option.some.inj hq)
    omega
  have h2 : q ≠ p2.withTok (c.toks j) := by
    intro e; rw [e] at hq
    have := hinj _ _ (Option.some.inj hq)
    omega
  rw [ho q h1 h2]
  exact h q k hq (by omega)

theorem withTok_ne {c : Config} (hinj : ∀ i j, c.toks i = c.toks j → i = j) (p1 p2 : Path) (i j : Nat) (h : i ≠ j) :
    p1.withTok (c.toks i) ≠ p2.withTok (c.toks j) := by
  intro e
  have : (p1.withTok (c.toks i)).tmp = (p2.withTok (c.toks j)).tmp := by rw [e]
  exact h (hinj _ _ (Option.some.inj this))

variable {c : Config}

theorem k_final (b : String) : (c.k b).tmp = none := rfl
theorem v_final (b : String) : (c.v b).tmp = none := rfl
theorem o_final (b : String) : (c.o b).tmp = none := rfl

/-- a staged write at call site `n` -/
theorem safe_stageWrite (hc : CfgOK S c) (st : AS) (n : Nat) (p : Path) (skip : Bool) (content : Bytes)
    (hp : p.tmp = none) (hv : S.valid p content = true) (hf : FreshFrom c st n) :
    Safe S pid (IsTok c) Rm (stageFile p (c.toks n) skip (writeProducer content)) st (fun _ s => FreshFrom c s (n + 1)) := by
  refine safe_mono _ _ _ _ (safe_stageFile st p _ skip _ hp ⟨n, rfl⟩ (safe_writeProducer st p _ content hv (hf.at p n (Nat.le_refl _)) ⟨n, rfl⟩)) ?_
  intro _ s ho
  exact hf.step hc.toks_inj p n (n + 1) (Nat.lt_succ_self _) (Nat.le_succ _) ho

theorem safe_applyDependencyHash (st : AS) : Safe S pid P Rm (applyDependencyHash c) st (fun _ s => s = st) := by
  unfold applyDependencyHash
  refine safe_bind _ _ _ _ _ (safe_ioExists st (k_final _)) ?_
  intro e s hs; subst s
  cases e
  · rfl
  · exact safe_readFile st (k_final _)

theorem safe_cacheFile (hc : CfgOK S c) (st : AS) (n : Nat) (dst : Path) (content : Bytes) (src : Option Path)
    (hp : dst.tmp = none) (hv : S.valid dst content = true) (hsrc : ∀ s, src = some s → s.tmp = none)
    (hf : FreshFrom c st n) :
    Safe S pid (IsTok c) Rm (cacheFile dst (c.toks n) content src) st (fun _ s => FreshFrom c s (n + 1)) := by
  unfold cacheFile
  refine safe_bind _ _ _ _ _ (safe_isFile st hp) ?_
  intro e s hs; subst s
  cases e
  · simp only [Bool.false_eq_true, if_false]
    refine safe_bind _ _ _ (fun _ s => s = st) _ ?_ ?_
    · cases src with
      | none => rfl
      | some s0 => exact safe_readFile st (hsrc s0 rfl)
    · intro _ s hs; subst s
      exact safe_stageWrite hc st n dst true content hp hv hf
  · exact hf.mono (Nat.le_succ _)

theorem acc_exec1 {st : AS} {src t : Path} (hs : src.tmp = none) (ht : t.isTemp = true) (hn : st t = none)
    (hd : t.dir = src.dir) (hr : S.recipe t.final = some src.base) :
    acceptStep S st ⟨pid, .exec src [t], true⟩ = some (st.set t (pid, .compiled)) := by
  simp [acceptStep, execOuts, Path.isTemp, hs, hn, hd, hr, ht, (isTemp_iff t).1 ht]

theorem acc_exec2 {st : AS} {src t1 t2 : Path} (hs : src.tmp = none) (ht1 : t1.isTemp = true) (ht2 : t2.isTemp = true)
    (hn1 : st t1 = none) (hn2 : st t2 = none) (hne : t2 ≠ t1)
    (hd1 : t1.dir = src.dir) (hd2 : t2.dir = src.dir)
    (hr1 : S.recipe t1.final = some src.base) (hr2 : S.recipe t2.final = some src.base) :
    acceptStep S st ⟨pid, .exec src [t1, t2], true⟩ = some ((st.set t1 (pid, .compiled)).set t2 (pid, .compiled)) := by
  have h2 : (st.set t1 (pid, .compiled)) t2 = none := by rw [AS.set_ne _ _ _ _ hne]; exact hn2
  simp [acceptStep, execOuts, Path.isTemp, hs, hn1, hd1, hd2, hr1, hr2, h2]
  exact ⟨ht1, (isTemp_iff t2).1 ht2⟩


theorem safe_compilerVendor (hc : CfgOK S c) (st : AS) (n : Nat) (hf : FreshFrom c st n) :
    Safe S pid (IsTok c) Rm (compilerVendor c n) st (fun _ s => FreshFrom c s (n + 4)) := by
  unfold compilerVendor
  refine safe_bind _ _ _ _ _ (safe_cacheFile hc st n _ c.vsrc none (v_final _) hc.v_vsrc (by intro s h; cases h) hf) ?_
  intro _ s1 hf1
  refine safe_bind _ _ _ _ _ (safe_ioExists s1 (v_final _)) ?_
  intro e s hs; subst s
  refine safe_bind _ _ _ (fun _ s => s = s1) _ ?_ ?_
  · cases e
    · rfl
    · exact safe_isFile s1 (v_final _)
  intro found s hs; subst s
  cases found
  · simp only [Bool.false_eq_true, if_false]
    -- compile and run the probe, then publish `output`
    have hn1 : s1 ((c.v "binary").withTok (c.toks (n + 1))) = none := hf1.at _ _ (Nat.le_refl _)
    have hn2 : s1 ((c.v "build.log").withTok (c.toks (n + 2))) = none := hf1.at _ _ (Nat.le_succ _)
    have hne : (c.v "binary").withTok (c.toks (n + 1)) ≠ (c.v "build.log").withTok (c.toks (n + 2)) :=
      withTok_ne hc.toks_inj _ _ _ _ (by omega)
    refine safe_bind _ _ _ (fun _ s => FreshFrom c s (n + 3)) _ ?_ ?_
    · refine safe_mono _ _ _ _ (safe_stageFiles2 s1 _ _ _ _ true _ (v_final _) (v_final _) hne ⟨_, rfl⟩ ⟨_, rfl⟩ ?_) ?_
      · -- the producer: one compiler run, then the test that the binary exists
        have hacc := acc_exec2 (S := S) (pid := pid) (st := s1) (src := c.v "findCompilerVendor.cpp")
          (t1 := (c.v "binary").withTok (c.toks (n + 1))) (t2 := (c.v "build.log").withTok (c.toks (n + 2)))
          (v_final _) rfl rfl hn1 hn2 hne.symm rfl rfl
          (by rw [withTok_final _ _ (v_final _)]; exact hc.r_vbin)
          (by rw [withTok_final _ _ (v_final _)]; exact hc.r_vlog)
        refine safe_bind _ _ _ _ _ (safe_op hacc (by intro x hx; simp only [execOutsOf, List.mem_cons, List.mem_nil_iff, or_false] at hx; rcases hx with rfl | rfl <;> exact ⟨_, rfl⟩)) ?_
        intro _ s hs; subst s
        have hb : ((s1.set ((c.v "binary").withTok (c.toks (n + 1))) (pid, .compiled)).set
            ((c.v "build.log").withTok (c.toks (n + 2))) (pid, .compiled)) ((c.v "binary").withTok (c.toks (n + 1)))
            = some (pid, .compiled) := by
          rw [AS.set_ne _ _ _ _ hne, AS.set_same]
        refine safe_bind _ _ _ _ _ (safe_op (acc_stat_own hb)) ?_
        intro ok s hs; subst s
        cases ok
        · trivial
        · refine ⟨?_, fun _ => ⟨Or.inr hb, Or.inr (AS.set_same ..)⟩⟩
          intro q h1 h2
          rw [AS.set_ne _ _ _ _ h2, AS.set_ne _ _ _ _ h1]
      · intro _ s ho
        exact hf1.step2 hc.toks_inj _ _ (n + 1) (n + 2) (n + 3) (by omega) (by omega) (by omega) ho
    · intro _ s2 hf2
      refine safe_bind _ _ _ _ _ (safe_op (acc_run (v_final _))) ?_
      intro _ s hs; subst s
      exact safe_stageWrite hc s2 (n + 3) _ false c.vout (v_final _) hc.v_vout hf2
  · simp only [if_true]
    refine safe_mono _ _ _ _ (safe_readFile s1 (v_final _)) ?_
    intro _ s hs; subst s
    exact hf1.mono (by omega)

theorem safe_ompCompilerFlag (hc : CfgOK S c) (st : AS) (n : Nat) (hf : FreshFrom c st n) :
    Safe S pid (IsTok c) Rm (ompCompilerFlag c n) st (fun _ s => FreshFrom c s (n + 3)) := by
  unfold ompCompilerFlag
  refine safe_bind _ _ _ _ _ (safe_cacheFile hc st n _ c.osrc none (o_final _) hc.v_osrc (by intro s h; cases h) hf) ?_
  intro _ s1 hf1
  have hn1 : s1 ((c.o "binary").withTok (c.toks (n + 1))) = none := hf1.at _ _ (Nat.le_refl _)
  have hn2 : s1 ((c.o "output").withTok (c.toks (n + 2))) = none := hf1.at _ _ (Nat.le_succ _)
  have hne : (c.o "binary").withTok (c.toks (n + 1)) ≠ (c.o "output").withTok (c.toks (n + 2)) :=
    withTok_ne hc.toks_inj _ _ _ _ (by omega)
  refine safe_bind _ _ _ (fun _ s => FreshFrom c s (n + 3)) _ ?_ ?_
  · refine safe_mono _ _ _ _ (safe_stageFiles2 s1 _ _ _ _ true _ (o_final _) (o_final _) hne ⟨_, rfl⟩ ⟨_, rfl⟩ ?_) ?_
    · have hacc := acc_exec1 (S := S) (pid := pid) (st := s1) (src := c.o "compilerSupportsOpenMP.cpp")
        (t := (c.o "binary").withTok (c.toks (n + 1))) (o_final _) rfl hn1 rfl
        (by rw [withTok_final _ _ (o_final _)]; exact hc.r_obin)
      refine safe_bind _ _ _ _ _ (safe_op hacc (by intro x hx; simp only [execOutsOf, List.mem_cons, List.mem_nil_iff, or_false] at hx; subst hx; exact ⟨_, rfl⟩)) ?_
      intro ok s hs; subst s
      have hn2' : (s1.set ((c.o "binary").withTok (c.toks (n + 1))) (pid, .compiled)) ((c.o "output").withTok (c.toks (n + 2))) = none := by
        rw [AS.set_ne _ _ _ _ hne.symm]; exact hn2
      refine safe_bind _ _ _ _ _ (safe_ioWrite _ (if ok = true then c.oout else c.ooutNA) rfl hn2' ⟨_, rfl⟩) ?_
      intro _ s hs; subst s
      refine ⟨?_, fun _ => ⟨Or.inr ?_, Or.inl ⟨_, AS.set_same .., ?_⟩⟩⟩
      · intro q h1 h2
        rw [AS.set_ne _ _ _ _ h2, AS.set_ne _ _ _ _ h1]
      · rw [AS.set_ne _ _ _ _ hne, AS.set_same]
      · cases ok
        · exact hc.v_ooutNA
        · exact hc.v_oout
    · intro _ s ho
      exact hf1.step2 hc.toks_inj _ _ (n + 1) (n + 2) (n + 3) (by omega) (by omega) (by omega) ho
  · intro _ s2 hf2
    refine safe_mono _ _ _ _ (safe_readFile s2 (o_final _)) ?_
    intro _ s hs; subst s
    exact hf2

theorem safe_loadCached (st : AS) : Safe S pid P Rm (loadCached c) st (fun _ s => s = st) := by
  unfold loadCached
  refine safe_bind _ _ _ _ _ (safe_isFile st (k_final _)) ?_
  intro e s hs; subst s
  refine safe_bind _ _ _ (fun _ s => s = st) _ ?_ ?_
  · cases e
    · rfl
    · simp only [if_true]
      refine safe_bind _ _ _ _ _ (safe_ioExists st (k_final _)) ?_
      intro e2 s hs; subst s
      cases e2
      · rfl
      · exact safe_readFile st (k_final _)
  · intro _ s hs; subst s
    refine safe_bind _ _ _ _ _ (safe_op (acc_openRead (k_final _))) ?_
    intro ok s hs; subst s
    cases ok
    · trivial
    · rfl

theorem safe_serialBuild (hc : CfgOK S c) (st : AS) (n : Nat) (hf : FreshFrom c st n) :
    Safe S pid (IsTok c) Rm (serialBuild c n) st (fun r _ => r = false → c.parseOk = false) := by
  unfold serialBuild
  refine safe_bind _ _ _ _ _ (safe_isFile st (k_final _)) ?_
  intro found s hs; subst s
  cases found
  · simp only [Bool.false_eq_true, if_false]
    refine safe_bind _ _ _ _ _ (safe_compilerVendor hc st n hf) ?_
    intro _ s1 hf1
    refine safe_bind _ _ _ _ _ (safe_cacheFile hc s1 (n + 4) _ c.raw _ (k_final _) hc.v_raw ?_ hf1) ?_
    · intro s h
      split at h
      · cases h; rfl
      · cases h
    intro _ s2 hf2
    refine safe_bind _ _ _ _ _ (safe_readFile s2 (k_final _)) ?_
    intro _ s hs; subst s
    by_cases hpo : c.parseOk = true
    · simp only [hpo, if_true]
      refine safe_bind _ _ _ _ _ (safe_stageWrite hc s2 (n + 5) _ true c.cpp (k_final _) hc.v_cpp hf2) ?_
      intro _ s3 hf3
      refine safe_bind _ _ _ _ _ (safe_stageWrite hc s3 (n + 6) _ true c.json (k_final _) hc.v_json hf3) ?_
      intro _ s4 hf4
      have hn : s4 ((c.k "binary").withTok (c.toks (n + 7))) = none := hf4.at _ _ (Nat.le_refl _)
      refine safe_bind _ _ _ (fun _ _ => True) _ ?_ ?_
      · refine safe_mono _ _ _ _ (safe_stageFile s4 _ _ true _ (k_final _) ⟨_, rfl⟩ ?_) (fun _ _ _ => trivial)
        have hacc := acc_exec1 (S := S) (pid := pid) (st := s4) (src := c.k c.cppBase)
          (t := (c.k "binary").withTok (c.toks (n + 7))) (k_final _) rfl hn rfl
          (by rw [withTok_final _ _ (k_final _)]; exact hc.r_kbin)
        refine safe_bind _ _ _ _ _ (safe_op hacc (by intro x hx; simp only [execOutsOf, List.mem_cons, List.mem_nil_iff, or_false] at hx; subst hx; exact ⟨_, rfl⟩)) ?_
        intro ok s hs; subst s
        cases ok
        · trivial
        · exact ⟨OnlyAt.set _ _ _, fun _ => Or.inr (AS.set_same ..)⟩
      · intro _ s5 _
        refine safe_bind _ _ _ _ _ (safe_sync_final s5 (k_final _)) ?_
        intro _ s hs; subst s
        refine safe_bind _ _ _ _ _ (safe_op (acc_openRead (k_final _))) ?_
        intro ok s hs; subst s
        cases ok
        · trivial
        · intro h; cases h
    · simp only [hpo]
      by_cases hsil : c.silent = true
      · simp only [hsil, if_true]
        intro _
        simpa using hpo
      · simp only [hsil]; trivial
  · simp only [if_true]
    refine safe_bind _ _ _ _ _ (safe_loadCached st) ?_
    intro _ s hs; subst s
    intro h; cases h

theorem FreshFrom_empty (c : Config) (n : Nat) : FreshFrom c AS.empty n := fun _ _ _ _ => rfl

theorem safe_buildProg (hc : CfgOK S c) :
    Safe S pid (IsTok c) (c.parseOk = false) (buildProg c) AS.empty (fun _ _ => True) := by
  unfold buildProg
  refine safe_bind _ _ _ _ _ (safe_applyDependencyHash AS.empty) ?_
  intro _ s hs; subst s
  refine safe_bind _ _ _ (fun _ s => FreshFrom c s 1) _ ?_ ?_
  · by_cases hfs : c.fromString = true
    · simp only [hfs, if_true]
      refine safe_bind _ _ _ _ _ (safe_stageWrite hc AS.empty 0 _ true c.str (k_final _) hc.v_str (FreshFrom_empty c 0)) ?_
      intro _ s1 hf1
      refine safe_bind _ _ _ _ _ (safe_readFile s1 (k_final _)) ?_
      intro _ s hs; subst s
      refine safe_mono _ _ _ _ (safe_applyDependencyHash s1) ?_
      intro _ s hs; subst s
      exact hf1
    · simp only [hfs]
      exact FreshFrom_empty c 1
  · intro _ s1 hf1
    refine safe_bind _ _ _ (fun r _ => r = false → c.parseOk = false) _ ?_ ?_
    · by_cases hom : c.openmp = true
      · simp only [hom, if_true]
        refine safe_bind _ _ _ _ _ (safe_compilerVendor hc s1 1 hf1) ?_
        intro _ s2 hf2
        refine safe_bind _ _ _ _ _ (safe_ompCompilerFlag hc s2 5 hf2) ?_
        intro _ s3 hf3
        exact safe_serialBuild hc s3 8 hf3
      · simp only [hom]
        exact safe_serialBuild hc s1 8 (hf1.mono (by omega))
    · intro ok s hq
      cases ok
      · simp only [Bool.false_eq_true, if_false]
        refine safe_bind _ _ _ _ _ (safe_op acc_rmrf (by simp [touchedOK]) (fun _ => hq rfl)) ?_
        intro _ s' _
        trivial
      · trivial

end procs
end Occa.BuildFS
