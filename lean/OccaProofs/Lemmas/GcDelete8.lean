/-
`modeDevice_t::freeRing`: the loop that deletes every member of one of the device's rings.
-/
import OccaProofs.Lemmas.GcDelete7

namespace Occa.Gc

theorem chSet_fields (s : St) (k : Kind) (d : Nat) (l : List Nat) :
    (s.chSet k d l).next = s.next ∧ (s.chSet k d l).kind = s.kind ∧ (s.chSet k d l).alive = s.alive
    ∧ (s.chSet k d l).dtors = s.dtors ∧ (s.chSet k d l).useRefs = s.useRefs ∧ (s.chSet k d l).ring = s.ring
    ∧ (s.chSet k d l).par = s.par ∧ (s.chSet k d l).kids = s.kids ∧ (s.chSet k d l).inner = s.inner
    ∧ (s.chSet k d l).ptr = s.ptr ∧ (s.chSet k d l).vlive = s.vlive ∧ (s.chSet k d l).trap = s.trap := by
  cases k <;> exact ⟨rfl, rfl, rfl, rfl, rfl, rfl, rfl, rfl, rfl, rfl, rfl, rfl⟩

/-- taking an entry out of a device ring keeps everything except "every child is in its ring" -/
theorem Inv00.chSet_remove {ex : Var → Prop} {s : St} (hi : Inv00 ex s) (k : Kind) (d x : Nat) :
    Inv00 ex (s.chSet k d (Ring.remove (s.chGet k d) x)) := by
  have pe : PreEdit s (s.chSet k d (Ring.remove (s.chGet k d) x)) [x] :=
    preEdit_chSet_remove k d x (hi.ch_nodup k d) (Or.inl (by simp))
  obtain ⟨f1, f2, f3, f4, f5, f6, f7, f8, f9, f10, f11, f12⟩ := chSet_fields s k d (Ring.remove (s.chGet k d) x)
  constructor
  · rw [f12]; exact hi.notrap
  · intro o; rw [f3, f1]; exact hi.alive_lt o
  · intro o; rw [f4, f1, f3]; exact hi.dtors_eq o
  · intro v o; rw [f10, f3, f2, f6]; exact hi.ptr_ok v o
  · intro v o; rw [f10, f11]; exact hi.ptr_live v o
  · intro v o; rw [f6, f10]; exact hi.ring_ptr v o
  · intro o; rw [f6]; exact hi.ring_nodup o
  · intro v hv o; rw [f6]; exact hi.ex_out v hv o
  · intro d'; rw [f11, f1]; exact hi.cur_lt d'
  · intro b m; rw [f8, f3, f2, f7]; exact hi.kids_ok b m
  · intro b; rw [f8]; exact hi.kids_nodup b
  · intro k' d' c hc
    rw [f3, f7, f2]
    exact hi.ch_ok k' d' c (pe.chS k' d' c hc)
  · intro k' d'; exact pe.chN k' d' (hi.ch_nodup k' d')
  · intro p i; rw [f3, f9, f2, f8, f7]
    intro hpa hin
    obtain ⟨q1, q2, q3, q4, q5, q6⟩ := hi.inner_ok p i hpa hin
    exact ⟨q1, q2, q3, q4, q5, fun k' d' h => q6 k' d' (pe.chS k' d' i h)⟩
  · intro p q i; rw [f3, f9]; exact hi.inner_inj p q i

/-- one iteration of `freeRing`: `ring.removeRef(ptr); delete ptr;` -/
theorem freeRing_step {ex : Var → Prop} {s : St} {d x : Nat} {k : Kind} (hi : InvX ex s)
    (hks : k = .ker ∨ k = .buf ∨ k = .str) (hx : x ∈ s.chGet k d) :
    InvX ex (deleteOf k (s.chSet k d (Ring.remove (s.chGet k d) x)) x)
      ∧ ∃ K, Killed s K (deleteOf k (s.chSet k d (Ring.remove (s.chGet k d) x)) x) ∧ x ∈ K
          ∧ ∀ y ∈ K, s.kind y ≠ .dev := by
  obtain ⟨hxa, hxp, hxs, hxd, hxm, hda, hdk⟩ := hi.ch_ok k d x hx
  have hdx : d ≠ x := by intro h; rw [h] at hdk; exact hxd hdk
  have hiE := hi.toInv00.chSet_remove k d x
  obtain ⟨f1, f2, f3, f4, f5, f6, f7, f8, f9, f10, f11, f12⟩ := chSet_fields s k d (Ring.remove (s.chGet k d) x)
  generalize hsE : s.chSet k d (Ring.remove (s.chGet k d) x) = sE at *
  have hxaE : sE.alive x = true := by rw [f3]; exact hxa
  have hxpE : sE.par x = some d := by rw [f7]; exact hxp
  have hdaE : sE.alive d = true := by rw [f3]; exact hda
  have hdkE : sE.kind d = .dev := by rw [f2]; exact hdk
  have child : ∀ (hk : k = .ker ∨ k = .str), s.kind x = k →
      InvX ex (deleteChild k sE x) ∧ ∃ K, Killed s K (deleteChild k sE x) ∧ x ∈ K ∧ ∀ y ∈ K, s.kind y ≠ .dev := by
    intro hk hkx
    obtain ⟨h1, h2, h3⟩ := deleteChild_core hiE hxaE (by rw [f2]; exact hkx) hk hxpE hdaE hdx
    have pe : PreEdit s sE [x] := by
      rw [← hsE]
      exact preEdit_chSet_remove k d x (hi.ch_nodup k d) (Or.inl (by simp))
    have hkil := Killed.pre_edit pe h1
    have hk2 : s.kind x = .ker ∨ s.kind x = .str := by rcases hk with h | h <;> rw [hkx, h] <;> simp
    refine ⟨hi.killed hkil (child_closed hi.toInv00 hxa hk2) h2 h3, [x], hkil, by simp, ?_⟩
    intro y hy
    have : y = x := by simpa using hy
    rw [this]; exact hxd
  rcases hks with hk | hk | hk
  · subst hk
    have hkx : s.kind x = .ker := by
      cases h : s.kind x <;> simp [slot, h] at hxs <;> first | rfl | (exfalso; exact hxd h) | (exfalso; exact hxm h)
    exact child (Or.inl rfl) hkx
  · subst hk
    have hkx : s.kind x = .buf ∨ s.kind x = .pool := by
      cases h : s.kind x <;> simp [slot, h] at hxs <;> first | exact Or.inl rfl | exact Or.inr rfl | (exfalso; exact hxd h) | (exfalso; exact hxm h)
    have hkxE : sE.kind x = .buf ∨ sE.kind x = .pool := by rw [f2]; exact hkx
    obtain ⟨h1, _, _⟩ := deleteBuf_core hiE hxaE hkxE hxpE hdaE hdkE
    obtain ⟨h2, h3⟩ := deleteBuf_purged hiE hxaE hkxE hxpE hdaE hdkE
    have hKeq : bufK sE x = bufK s x := by
      unfold bufK; rw [f2, f9, f8]
    rw [hKeq] at h1 h2 h3
    have hxK : x ∈ bufK s x := (mem_bufK s x x).mpr (Or.inl rfl)
    have pe : PreEdit s sE (bufK s x) := by
      rw [← hsE]
      exact preEdit_chSet_remove .buf d x (hi.ch_nodup .buf d) (Or.inl hxK)
    have hkil := Killed.pre_edit pe h1
    have hni : ∀ p, s.alive p = true → s.inner p ≠ some x := by
      intro p hpa hin
      exact (hi.inner_ok p x hpa hin).2.2.2.2.2 .buf d hx
    refine ⟨hi.killed hkil (bufK_closed hi.toInv00 hxa hkx hni) h2 h3, bufK s x, hkil, hxK, ?_⟩
    intro y hy
    rcases bufK_cases hi.toInv00 hxa hy with h | ⟨_, _, h, _, _⟩ | ⟨_, h, _⟩
    · rw [h]; exact hxd
    · rw [h]; decide
    · rw [h]; decide
  · subst hk
    have hkx : s.kind x = .str := by
      cases h : s.kind x <;> simp [slot, h] at hxs <;> first | rfl | (exfalso; exact hxd h) | (exfalso; exact hxm h)
    exact child (Or.inr rfl) hkx

end Occa.Gc
