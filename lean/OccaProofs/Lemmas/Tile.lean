/-
Helper lemmas for C18: the tiled loops enumerate the index range block by block.
-/
import OccaProofs.Lemmas.Loop
import Mathlib.Tactic.Linarith
import Mathlib.Data.List.Perm.Basic

namespace Occa.Loop

/-! ### `ceilN` by inequalities -/

theorem ceilN_spec (d s : Int) (hs : 0 < s) :
    (d ≤ 0 ∧ ceilN d s = 0) ∨
    (0 < d ∧ 0 < ceilN d s ∧ s * ((ceilN d s : Nat) - 1 : Int) < d ∧ d ≤ s * ((ceilN d s : Nat) : Int)) := by
  by_cases hd : d ≤ 0
  · exact Or.inl ⟨hd, ceilN_nonpos d s hs hd⟩
  · right
    have hd' : 0 < d := by omega
    unfold ceilN
    rw [Int.tdiv_eq_ediv_of_nonneg (by omega : 0 ≤ d + s - 1)]
    have h1 := Int.mul_ediv_add_emod (d + s - 1) s
    have h2 := Int.emod_nonneg (d + s - 1) (Int.ne_of_gt hs)
    have h3 := Int.emod_lt_of_pos (d + s - 1) hs
    have hq : 0 ≤ (d + s - 1) / s := Int.ediv_nonneg (by omega) (by omega)
    have hcast : (((d + s - 1) / s).toNat : Int) = (d + s - 1) / s := Int.toNat_of_nonneg hq
    rw [hcast]
    generalize (d + s - 1) / s = q at *
    generalize (d + s - 1) % s = r at *
    have e : s * (q - 1) = s * q - s := by ring
    refine ⟨hd', ?_, ?_, ?_⟩
    · by_contra hz
      have : q = 0 := by omega
      subst this
      simp at h1
      omega
    · rw [e]; omega
    · omega

/-- the value at index `k` passes the loop test iff `k` is below the iteration count -/
theorem test_valueOf (h : Header) (hv : h.Valid) (hs : 0 < h.step) (k : Nat) :
    h.test (valueOf h (Int.ofNat k)) = decide (k < ceilN h.dist h.step) := by
  have hspec := ceilN_spec h.dist h.step hs
  have hk : (0 : Int) ≤ (k : Int) := Int.natCast_nonneg k
  have hmono : ∀ a b : Int, a ≤ b → h.step * a ≤ h.step * b :=
    fun a b hab => Int.mul_le_mul_of_nonneg_left hab (by omega)
  cases hu : h.upward
  · have hp : h.positiveUpdate = false := by rw [← hv]; exact hu
    have htest : ∀ i, h.test i = decide (i > h.strictBound) := by
      intro i
      obtain ⟨i0, b0, c, r, u⟩ := h
      cases c <;> cases r <;>
        simp_all [Header.test, Header.strictBound, Header.upward, Header.inclusive, Cmp.holds] <;> omega
    have hd : h.dist = h.init - h.strictBound := by simp [Header.dist, hu]
    rw [htest, valueOf_eq, hp, hd]
    rw [hd] at hspec
    simp only [Bool.false_eq_true, if_false, Int.ofNat_eq_natCast]
    rcases hspec with ⟨h1, h2⟩ | ⟨h1, h2, h3, h4⟩
    · rw [h2]
      have := hmono 0 k hk
      simp only [Int.mul_zero] at this
      simp
      omega
    · by_cases hlt : k < ceilN (h.init - h.strictBound) h.step
      · have := hmono k ((ceilN (h.init - h.strictBound) h.step : Nat) - 1 : Int) (by omega)
        simp [hlt]
        omega
      · have := hmono ((ceilN (h.init - h.strictBound) h.step : Nat) : Int) k (by omega)
        simp [hlt]
        omega
  · have hp : h.positiveUpdate = true := by rw [← hv]; exact hu
    have htest : ∀ i, h.test i = decide (i < h.strictBound) := by
      intro i
      obtain ⟨i0, b0, c, r, u⟩ := h
      cases c <;> cases r <;>
        simp_all [Header.test, Header.strictBound, Header.upward, Header.inclusive, Cmp.holds] <;> omega
    have hd : h.dist = h.strictBound - h.init := by simp [Header.dist, hu]
    rw [htest, valueOf_eq, hp, hd]
    rw [hd] at hspec
    simp only [if_true, Int.ofNat_eq_natCast]
    rcases hspec with ⟨h1, h2⟩ | ⟨h1, h2, h3, h4⟩
    · rw [h2]
      have := hmono 0 k hk
      simp only [Int.mul_zero] at this
      simp
      omega
    · by_cases hlt : k < ceilN (h.strictBound - h.init) h.step
      · have := hmono k ((ceilN (h.strictBound - h.init) h.step : Nat) - 1 : Int) (by omega)
        simp [hlt]
        omega
      · have := hmono ((ceilN (h.strictBound - h.init) h.step : Nat) : Int) k (by omega)
        simp [hlt]
        omega

/-! ### blocks of indices -/

theorem flatMap_congr' {α β : Type} {l : List α} {f g : α → List β} (h : ∀ x ∈ l, f x = g x) :
    l.flatMap f = l.flatMap g := by
  induction l with
  | nil => rfl
  | cons a t ih =>
    rw [List.flatMap_cons, List.flatMap_cons, h a (by simp), ih (fun x hx => h x (by simp [hx]))]

theorem filter_lt_range' (n : Nat) : ∀ (len a : Nat),
    (List.range' a len).filter (fun x => decide (x < n)) = List.range' a (min len (n - a)) := by
  intro len
  induction len with
  | zero => intro a; simp
  | succ len ih =>
    intro a
    rw [List.range'_succ, List.filter_cons]
    by_cases h : a < n
    · simp only [h, decide_true, if_true]
      rw [ih (a + 1)]
      have : min (len + 1) (n - a) = min len (n - (a + 1)) + 1 := by omega
      rw [this, List.range'_succ]
    · simp only [h, decide_false]
      rw [ih (a + 1)]
      have e1 : min len (n - (a + 1)) = 0 := by omega
      have e2 : min (len + 1) (n - a) = 0 := by omega
      rw [e1, e2]
      simp

theorem map_add_range (a T : Nat) : (List.range T).map (fun m => a + m) = List.range' a T := by
  rw [List.range_eq_range']
  rw [List.map_add_range']
  simp

/-- `nb` blocks of `T` consecutive indices, each filtered by `< n`, are the indices below `min n (nb*T)` -/
theorem blocks_filtered (T n : Nat) : ∀ nb : Nat,
    (List.range nb).flatMap (fun j => ((List.range T).map (fun m => T * j + m)).filter (fun x => decide (x < n)))
      = List.range (min n (nb * T)) := by
  intro nb
  induction nb with
  | zero => simp
  | succ nb ih =>
    rw [List.range_succ, List.flatMap_append, ih]
    simp only [List.flatMap_cons, List.flatMap_nil, List.append_nil]
    rw [map_add_range, filter_lt_range']
    rw [List.range_eq_range' (n := min n (nb * T)), List.range_eq_range' (n := min n ((nb + 1) * T))]
    by_cases hle : n ≤ nb * T
    · have e1 : min T (n - T * nb) = 0 := by
        have : T * nb = nb * T := Nat.mul_comm _ _
        omega
      have e2 : min n ((nb + 1) * T) = min n (nb * T) := by
        have : (nb + 1) * T = nb * T + T := by ring
        omega
      rw [e1, e2]; simp
    · have e0 : min n (nb * T) = nb * T := by omega
      have e3 : T * nb = nb * T := Nat.mul_comm _ _
      have e4 : (nb + 1) * T = nb * T + T := by ring
      rw [e0, e3]
      have := List.range'_append (s := 0) (m := nb * T) (n := min T (n - nb * T)) (step := 1)
      simp only [Nat.one_mul, Nat.zero_add] at this
      rw [this]
      congr 1
      omega

/-- without the filter: `nb` full blocks -/
theorem blocks_full (T : Nat) : ∀ nb : Nat,
    (List.range nb).flatMap (fun j => (List.range T).map (fun m => T * j + m)) = List.range (nb * T) := by
  intro nb
  have := blocks_filtered T (nb * T) nb
  rw [Nat.min_self] at this
  rw [← this]
  apply flatMap_congr'
  intro j hj
  symm
  apply List.filter_eq_self.mpr
  intro x hx
  obtain ⟨m, hm, rfl⟩ := List.mem_map.mp hx
  have hj' : j < nb := List.mem_range.mp hj
  have hm' : m < T := List.mem_range.mp hm
  have : T * j + m < nb * T := by
    have h1 : T * j + T ≤ nb * T := by
      have : T * (j + 1) ≤ T * nb := Nat.mul_le_mul_left T hj'
      rw [Nat.mul_comm nb T]
      simpa [Nat.mul_add] using this
    omega
  simpa using this

/-! ### the block loop and the in-block loop as headers -/

theorem stride_eq (h : Header) (T : Int) : stride h T = T * h.step := by
  obtain ⟨i0, b0, c, r, u⟩ := h
  cases u <;> simp [stride, Header.step]

theorem block_pos (h : Header) (T : Int) : (blockHeader h T).positiveUpdate = h.positiveUpdate := by
  obtain ⟨i0, b0, c, r, u⟩ := h
  cases u <;> simp [blockHeader, Header.positiveUpdate]

theorem block_step (h : Header) (T : Int) : (blockHeader h T).step = T * h.step := by
  rw [← stride_eq]
  obtain ⟨i0, b0, c, r, u⟩ := h
  cases u <;> simp [blockHeader, Header.positiveUpdate, Header.step]

theorem block_valid (h : Header) (T : Int) (hv : h.Valid) : (blockHeader h T).Valid := by
  unfold Header.Valid at *
  rw [block_pos]
  simpa [blockHeader, Header.upward] using hv

theorem block_dist (h : Header) (T : Int) : (blockHeader h T).dist = h.dist := rfl

theorem block_init (h : Header) (T : Int) : (blockHeader h T).init = h.init := rfl

theorem strict_upward (h : Header) (T xT : Int) : (innerHeader h T xT).upward = h.upward := by
  obtain ⟨i0, b0, c, r, u⟩ := h
  cases c <;> cases r <;> simp [innerHeader, Header.upward, Cmp.strict]

theorem inner_pos (h : Header) (T xT : Int) : (innerHeader h T xT).positiveUpdate = h.positiveUpdate := rfl
theorem inner_step (h : Header) (T xT : Int) : (innerHeader h T xT).step = h.step := rfl
theorem inner_init (h : Header) (T xT : Int) : (innerHeader h T xT).init = xT := rfl

theorem inner_valid (h : Header) (T xT : Int) (hv : h.Valid) : (innerHeader h T xT).Valid := by
  unfold Header.Valid at *
  rw [strict_upward, inner_pos]
  exact hv

theorem inner_dist (h : Header) (T xT : Int) (hv : h.Valid) : (innerHeader h T xT).dist = T * h.step := by
  have hu := strict_upward h T xT
  have hincl : (innerHeader h T xT).inclusive = false := by
    obtain ⟨i0, b0, c, r, u⟩ := h
    cases c <;> simp [innerHeader, Header.inclusive, Cmp.strict]
  unfold Header.Valid at hv
  simp only [Header.dist, Header.strictBound, hu, hincl, Bool.false_eq_true, if_false]
  simp only [innerHeader, ← hv, stride_eq]
  cases h.upward <;> simp

theorem ceilN_mul (T s : Int) (hT : 0 ≤ T) (hs : 0 < s) : ceilN (T * s) s = T.toNat := by
  unfold ceilN
  have hnn : 0 ≤ T * s := Int.mul_nonneg hT (by omega)
  rw [Int.tdiv_eq_ediv_of_nonneg (by omega)]
  have e : T * s + s - 1 = (s - 1) + T * s := by ring
  rw [e, Int.add_mul_ediv_right _ _ (Int.ne_of_gt hs), Int.ediv_eq_zero_of_lt (by omega) (by omega)]
  simp

/-- enough blocks: `n ≤ nb * T` -/
theorem blocks_cover (d s T : Int) (hs : 0 < s) (hT : 0 < T) :
    ceilN d s ≤ ceilN d (T * s) * T.toNat := by
  have hTs : 0 < T * s := Int.mul_pos hT hs
  rcases ceilN_spec d s hs with ⟨h1, h2⟩ | ⟨h1, h2, h3, h4⟩
  · rw [h2]; omega
  · rcases ceilN_spec d (T * s) hTs with ⟨g1, _⟩ | ⟨_, g2, g3, g4⟩
    · omega
    · -- s * (n - 1) < d ≤ (T * s) * nb  ⟹  n - 1 < T * nb
      have key : s * ((ceilN d s : Nat) - 1 : Int) < s * (T * (ceilN d (T * s) : Nat)) := by
        have : T * s * ((ceilN d (T * s) : Nat) : Int) = s * (T * (ceilN d (T * s) : Nat)) := by ring
        omega
      have := Int.lt_of_mul_lt_mul_left key (by omega)
      have hTn : (T.toNat : Int) = T := Int.toNat_of_nonneg (by omega)
      have : ((ceilN d s : Nat) : Int) ≤ ((ceilN d (T * s) * T.toNat : Nat) : Int) := by
        push_cast
        rw [hTn]
        have e : (ceilN d (T * s) : Int) * T = T * (ceilN d (T * s) : Int) := by ring
        omega
      exact_mod_cast this

/-- exactly enough blocks when `T` divides the iteration count -/
theorem blocks_exact (d s T : Int) (hs : 0 < s) (hT : 0 < T) (hdiv : T.toNat ∣ ceilN d s) :
    ceilN d (T * s) * T.toNat = ceilN d s := by
  have hTs : 0 < T * s := Int.mul_pos hT hs
  have hTn : (T.toNat : Int) = T := Int.toNat_of_nonneg (by omega)
  obtain ⟨q, hq⟩ := hdiv
  rcases ceilN_spec d s hs with ⟨h1, h2⟩ | ⟨h1, h2, h3, h4⟩
  · rw [h2, ceilN_nonpos d (T * s) hTs h1]; simp
  · rcases ceilN_spec d (T * s) hTs with ⟨g1, _⟩ | ⟨_, g2, g3, g4⟩
    · omega
    · -- n = T q;  (T s)(nb - 1) < d ≤ s n = (T s) q  ⟹ nb ≤ q;   s (n - 1) < d ≤ (T s) nb ⟹ n ≤ T nb ⟹ q ≤ nb
      have hn : ((ceilN d s : Nat) : Int) = T * (q : Int) := by
        rw [hq]; push_cast; rw [hTn]
      have k1 : T * s * (((ceilN d (T * s) : Nat) : Int) - 1) < T * s * (q : Int) := by
        have : s * ((ceilN d s : Nat) : Int) = T * s * (q : Int) := by rw [hn]; ring
        omega
      have l1 := Int.lt_of_mul_lt_mul_left k1 (by omega)
      have k2 : s * (T * (q : Int) - 1) < s * (T * ((ceilN d (T * s) : Nat) : Int)) := by
        have e1 : T * s * ((ceilN d (T * s) : Nat) : Int) = s * (T * ((ceilN d (T * s) : Nat) : Int)) := by ring
        rw [hn] at h3
        omega
      have l2 := Int.lt_of_mul_lt_mul_left k2 (by omega)
      -- T q - 1 < T nb  and  nb - 1 < q
      have l3 : (q : Int) ≤ ((ceilN d (T * s) : Nat) : Int) := by
        by_contra hc
        have : ((ceilN d (T * s) : Nat) : Int) + 1 ≤ (q : Int) := by omega
        have := Int.mul_le_mul_of_nonneg_left this (by omega : (0 : Int) ≤ T)
        have e : T * (((ceilN d (T * s) : Nat) : Int) + 1) = T * ((ceilN d (T * s) : Nat) : Int) + T := by ring
        omega
      have hnb : ((ceilN d (T * s) : Nat) : Int) = (q : Int) := by omega
      have : ceilN d (T * s) = q := by exact_mod_cast hnb
      rw [this, hq, Nat.mul_comm]

/-! ### closed form of the tiled loops -/

/-- indices visited by `nb` blocks of `Tn` with the bounds check `k < n` (or none) -/
def tiledIdx (nb Tn n : Nat) (check : Bool) : List Nat :=
  (List.range nb).flatMap fun j =>
    ((List.range Tn).map fun m => Tn * j + m).filter fun k => !check || decide (k < n)

theorem inner_block (h : Header) (T : Int) (check : Bool) (hv : h.Valid) (hs : 0 < h.step) (hT : 0 < T) (j : Nat) :
    ((List.range T.toNat).map fun m => valueOf (innerHeader h T (valueOf (blockHeader h T) (Int.ofNat j))) (Int.ofNat m)).filter
        (fun x => !check || h.test x)
      = (((List.range T.toNat).map fun m => T.toNat * j + m).filter
          fun k => !check || decide (k < ceilN h.dist h.step)).map fun k => valueOf h (Int.ofNat k) := by
  have hTn : (T.toNat : Int) = T := Int.toNat_of_nonneg (by omega)
  have hval : ∀ m : Nat, valueOf (innerHeader h T (valueOf (blockHeader h T) (Int.ofNat j))) (Int.ofNat m)
      = valueOf h (Int.ofNat (T.toNat * j + m)) := by
    intro m
    rw [valueOf_eq, valueOf_eq (blockHeader h T), valueOf_eq h, inner_pos, inner_step, inner_init, block_pos,
        block_step, block_init]
    simp only [Int.ofNat_eq_natCast, Nat.cast_add, Nat.cast_mul, hTn]
    split <;> ring
  have e1 : ((List.range T.toNat).map fun m => valueOf (innerHeader h T (valueOf (blockHeader h T) (Int.ofNat j))) (Int.ofNat m))
      = ((List.range T.toNat).map fun m => T.toNat * j + m).map fun k => valueOf h (Int.ofNat k) := by
    rw [List.map_map]
    apply List.map_congr_left
    intro m _
    exact hval m
  rw [e1, List.filter_map]
  congr 1
  apply List.filter_congr
  intro k _
  simp only [Function.comp_apply]
  rw [test_valueOf h hv hs k]

theorem tiled_closed (h : Header) (T : Int) (check : Bool) (hv : h.Valid) (hs : 0 < h.step) (hT : 0 < T) :
    tiled h T check
      = (tiledIdx (ceilN h.dist (T * h.step)) T.toNat (ceilN h.dist h.step) check).map
          fun k => valueOf h (Int.ofNat k) := by
  have hTs : 0 < T * h.step := Int.mul_pos hT hs
  unfold tiled tiledIdx
  rw [seqIters_closed (blockHeader h T) (block_valid h T hv) (by rw [block_step]; exact hTs), block_dist, block_step,
      List.flatMap_map, List.map_flatMap]
  apply flatMap_congr'
  intro j _
  rw [seqIters_closed (innerHeader h T _) (inner_valid h T _ hv) (by rw [inner_step]; exact hs), inner_dist h T _ hv,
      inner_step, ceilN_mul T h.step (by omega) hs]
  exact inner_block h T check hv hs hT j

theorem tiledLaunch_closed (h : Header) (T : Int) (check : Bool) (hv : h.Valid) (hs : 0 < h.step) (hT : 0 < T)
    (hrb : (blockHeader h T).DimInRange) (hri : (innerHeader h T h.init).DimInRange) :
    tiledLaunch h T check
      = (tiledIdx (ceilN h.dist (T * h.step)) T.toNat (ceilN h.dist h.step) check).map
          fun k => valueOf h (Int.ofNat k) := by
  have hTs : 0 < T * h.step := Int.mul_pos hT hs
  have nIn : launched (toUDim (count (innerHeader h T h.init))) = T.toNat := by
    rw [launched_toUDim _ hri.1 hri.2, count_eq _ (inner_valid h T _ hv), inner_dist h T _ hv, inner_step]
    exact ceilN_mul T h.step (by omega) hs
  have nBlk : launched (toUDim (count (blockHeader h T))) = ceilN h.dist (T * h.step) := by
    rw [launched_toUDim _ hrb.1 hrb.2, count_eq _ (block_valid h T hv), block_dist, block_step]
    rfl
  unfold tiledLaunch tiledIdx
  simp only [nIn, nBlk]
  have hne : ¬ (T.toNat = 0) := by omega
  rw [if_neg hne, List.map_flatMap]
  apply flatMap_congr'
  intro j _
  exact inner_block h T check hv hs hT j

/-! ### interchanging independent loops permutes the visits -/

theorem flatMap_comm_perm {α β γ : Type} (l1 : List α) (l2 : List β) (g : α → β → List γ) :
    (l1.flatMap fun a => l2.flatMap fun b => g a b).Perm (l2.flatMap fun b => l1.flatMap fun a => g a b) := by
  induction l1 with
  | nil => simp
  | cons a t ih =>
    simp only [List.flatMap_cons]
    exact (ih.append_left _).trans (List.flatMap_append_perm l2 (g a) (fun b => t.flatMap fun a' => g a' b))

end Occa.Loop
