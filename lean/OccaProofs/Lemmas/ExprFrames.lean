/-
Frames: the parser's two stacks read as ONE sequence.  Each pending operator owns the operands
that were pushed just before it; the token sequence of a scope is recovered from its frames and
applying the top operator preserves it.
-/
import OccaProofs.Lemmas.ExprOps

namespace Occa.Expr
open Occa.Gen

/-- result of `applyLeftUnaryOperator` for the prefix operators of `prefixOk` -/
def pfxNode (n : OpNode) (v : Expr) : Expr :=
  if !has n.op.ty T.special then .lu n.op v
  else if has n.op.ty T.parenCast then .cast n.castName n.castPtrs v
  else if has n.op.ty T.sizeof_ then .sizeof v
  else .throw_ v

/-- tokens of a prefix operator entry (a cast is three tokens) -/
def pfxToks (n : OpNode) : List Tok :=
  if has n.op.ty T.parenCast then [.op .parenthesesStart, .vtype n.castName n.castPtrs, .op .parenthesesEnd]
  else [.op (lexedOp n.op)]

/-- operators that may sit in a prefix frame: the prefix operator tokens and the cast operator that
    `transformLastPair` builds from `( type )` -/
def preOk (o : Op) : Bool := prefixOk o || o == .parenCast

inductive Frame where
  | pre (n : OpNode)
  | bin (n : OpNode) (l : Expr)
  | post (n : OpNode) (e : Expr)
  | quest (n : OpNode) (c : Expr)
  | colon (n : OpNode) (c t : Expr) (q : Op)
  | opn (n : OpNode)

namespace Frame

def node : Frame → OpNode
  | pre n => n | bin n _ => n | post n _ => n | quest n _ => n | colon n _ _ _ => n | opn n => n

/-- operands owned by the frame, top of the output stack first -/
def outs : Frame → List Expr
  | pre _ => [] | bin _ l => [l] | post _ e => [e] | quest _ c => [c] | colon _ c t q => [.lu q t, c] | opn _ => []

/-- tokens of the frame in input order -/
def toks : Frame → List Tok
  | pre n => pfxToks n
  | bin n l => printToks l ++ [.op (lexedOp n.op)]
  | post n e => printToks e ++ [.op (lexedOp n.op)]
  | quest _ c => printToks c ++ [.op .questionMark]
  | colon _ c t _ => printToks c ++ [.op .questionMark] ++ printToks t ++ [.op .colon]
  | opn n => [.op n.op]

def isPost : Frame → Bool
  | post _ _ => true | _ => false

def isOpn : Frame → Bool
  | opn _ => true | _ => false

def isQuest : Frame → Bool
  | quest _ _ => true | _ => false

/-- the kind of operator a frame may hold -/
def ok : Frame → Prop
  | pre n => preOk n.op = true
  | bin n _ => has n.op.ty T.binary = true
  | post n _ => has n.op.ty T.rightUnary = true
  | quest n _ => (n.op.ty == T.questionMark) = true
  | colon n _ _ q => (n.op.ty == T.colon) = true ∧ (q.ty == T.questionMark) = true
  | opn n => has n.op.ty T.pairStart = true

/-- the operands a frame owns, as trees (the `? t` of a colon frame counted as `t`) -/
def operands : Frame → List Expr
  | pre _ => [] | bin _ l => [l] | post _ e => [e] | quest _ c => [c] | colon _ c t _ => [c, t] | opn _ => []

/-- binding level of the tree that applying the frame produces (16 for a pending `?`: the conditional
    expression it will be part of) -/
def lvl : Frame → Nat
  | pre n => n.op.prec | bin n _ => n.op.prec | post n _ => n.op.prec
  | quest _ _ => Op.questionMark.prec | colon _ _ _ _ => Op.questionMark.prec | opn _ => 0

/-- the operand to the left of the frame's operator binds tightly enough -/
def fit : Frame → Bool
  | pre _ => true
  | bin n l => leftFits n.op.prec (rootPrec l)
  | post n e => leftFits n.op.prec (rootPrec e)
  | quest _ c => leftFits Op.questionMark.prec (rootPrec c)
  | colon _ c _ _ => leftFits Op.questionMark.prec (rootPrec c)
  | opn _ => true

/-- a tree of level `p` may become the right operand of the frame's operator -/
def accepts : Frame → Nat → Bool
  | pre n, p => rightFits n.op.prec p
  | bin n _, p => rightFits n.op.prec p
  | post _ _, _ => false
  | quest _ _, _ => true
  | colon _ _ _ _, p => rightFits Op.questionMark.prec p
  | opn _, _ => true

end Frame

/-- output stack of a scope: optional top operand, then the frames' operands -/
def scopeOut (fs : List Frame) (top : Option Expr) : List Expr :=
  top.toList ++ fs.flatMap Frame.outs

def scopeOps (fs : List Frame) : List OpNode := fs.map Frame.node

def topToks (top : Option Expr) : List Tok :=
  match top with
  | some e => printToks e
  | none => []

/-- tokens consumed in a scope, in input order (frames are kept top first) -/
def scopeToks (fs : List Frame) (top : Option Expr) : List Tok :=
  fs.reverse.flatMap Frame.toks ++ topToks top

theorem scopeToks_cons (f : Frame) (fs : List Frame) (top : Option Expr) :
    scopeToks (f :: fs) top = scopeToks fs none ++ f.toks ++ topToks top := by
  simp [scopeToks, topToks, List.flatMap_append]

theorem scopeToks_some (fs : List Frame) (e : Expr) :
    scopeToks fs (some e) = scopeToks fs none ++ printToks e := by
  simp [scopeToks, topToks]

/-! ### operator-table facts used below -/

theorem ty_facts_bin : ∀ o : Op, has o.ty T.binary = true →
    has o.ty T.leftUnary = false ∧ has o.ty T.rightUnary = false ∧ has o.ty T.pair = false := by
  intro o; revert o; exact forall_op (by decide +kernel)

theorem ty_facts_lu : ∀ o : Op, has o.ty T.leftUnary = true →
    has o.ty T.binary = false ∧ has o.ty T.rightUnary = false ∧ has o.ty T.pair = false ∧
    has o.ty T.pairStart = false := by
  intro o; revert o; exact forall_op (by decide +kernel)

theorem ty_facts_ru : ∀ o : Op, has o.ty T.rightUnary = true →
    has o.ty T.binary = false ∧ has o.ty T.leftUnary = false ∧ has o.ty T.pairStart = false ∧ o.prec = 2 := by
  intro o; revert o; exact forall_op (by decide +kernel)

theorem ty_facts_prefixOk : ∀ o : Op, preOk o = true →
    has o.ty T.leftUnary = true ∧ has o.ty T.colon = false ∧ has o.ty T.questionMark = false ∧
    (has o.ty T.special = true → has o.ty T.parenCast = false → has o.ty T.sizeof_ = false →
      (has o.ty T.new_ = false ∧ has o.ty T.delete_ = false ∧ has o.ty T.throw_ = true)) ∧
    (has o.ty T.parenCast = true → has o.ty T.special = true) ∧
    (has o.ty T.sizeof_ = true → has o.ty T.special = true ∧ has o.ty T.parenCast = false) := by
  intro o; revert o; exact forall_op (by decide +kernel)

theorem ty_facts_q : ∀ o : Op, (o.ty == T.questionMark) = true →
    o = .questionMark ∧ has o.ty T.leftUnary = true ∧ has o.ty T.special = false ∧ has o.ty T.colon = false ∧
    has o.ty T.binary = false ∧ has o.ty T.pairStart = false := by
  intro o; revert o; exact forall_op (by decide +kernel)

theorem ty_facts_c : ∀ o : Op, (o.ty == T.colon) = true →
    o = .colon ∧ has o.ty T.leftUnary = true ∧ has o.ty T.special = false ∧ has o.ty T.colon = true ∧
    has o.ty T.binary = false ∧ has o.ty T.pairStart = false := by
  intro o; revert o; exact forall_op (by decide +kernel)

/-! ### applying the operator of the top frame -/

theorem apply_bin (n : OpNode) (prev : Option Tok) (r l : Expr) (rest : List Expr)
    (h : has n.op.ty T.binary = true) :
    applyOperator n prev (r :: l :: rest) = .ok (.bin n.op l r :: rest) := by
  simp [applyOperator, h]

theorem apply_post (n : OpNode) (prev : Option Tok) (e : Expr) (rest : List Expr)
    (h : has n.op.ty T.rightUnary = true) :
    applyOperator n prev (e :: rest) = .ok (.ru n.op e :: rest) := by
  obtain ⟨h1, h2, _⟩ := ty_facts_ru n.op h
  simp [applyOperator, h, h1, h2]

theorem applyLeftUnary_pfx (n : OpNode) (v : Expr) (h : preOk n.op = true) :
    applyLeftUnary n v = .ok (pfxNode n v) := by
  obtain ⟨_, _, _, h4, h5, h6⟩ := ty_facts_prefixOk n.op h
  unfold applyLeftUnary pfxNode
  by_cases hs : has n.op.ty T.special = true
  · by_cases hp : has n.op.ty T.parenCast = true
    · simp [hs, hp]
    · by_cases hz : has n.op.ty T.sizeof_ = true
      · simp [hs, hp, hz]
      · have := h4 hs (by simpa using hp) (by simpa using hz)
        simp [hs, hp, hz, this.1, this.2.1, this.2.2]
  · simp [hs]

theorem apply_pre (n : OpNode) (prev : Option Tok) (e : Expr) (rest : List Expr)
    (h : preOk n.op = true) :
    applyOperator n prev (e :: rest) = .ok (pfxNode n e :: rest) := by
  obtain ⟨h1, h2, _⟩ := ty_facts_prefixOk n.op h
  obtain ⟨hb, _⟩ := ty_facts_lu n.op h1
  simp [applyOperator, hb, h1, applyLeftUnary_pfx n e h, h2]

theorem apply_quest (n : OpNode) (prev : Option Tok) (t : Expr) (rest : List Expr)
    (h : (n.op.ty == T.questionMark) = true) :
    applyOperator n prev (t :: rest) = .ok (.lu n.op t :: rest) := by
  obtain ⟨_, h1, h2, h3, h4, _⟩ := ty_facts_q n.op h
  simp [applyOperator, h4, h1, applyLeftUnary, h2, h3]

theorem apply_colon (n : OpNode) (prev : Option Tok) (f t c : Expr) (q : Op) (rest : List Expr)
    (h : (n.op.ty == T.colon) = true) (hq : (q.ty == T.questionMark) = true) :
    applyOperator n prev (f :: .lu q t :: c :: rest) = .ok (.tern c t f :: rest) := by
  obtain ⟨_, h1, h2, h3, h4, _⟩ := ty_facts_c n.op h
  simp [applyOperator, h4, h1, applyLeftUnary, h2, h3, applyTernary, h, hq]

/-! ### printed tokens of the results -/

theorem lexedOp_q : lexedOp .questionMark = .questionMark := by decide
theorem lexedOp_c : lexedOp .colon = .colon := by decide

theorem printToks_pfx (n : OpNode) (e : Expr) (h : preOk n.op = true) :
    printToks (pfxNode n e) = pfxToks n ++ printToks e := by
  obtain ⟨_, _, _, h4, h5, h6⟩ := ty_facts_prefixOk n.op h
  unfold pfxNode pfxToks
  by_cases hs : has n.op.ty T.special = true
  · by_cases hp : has n.op.ty T.parenCast = true
    · simp [hs, hp, printToks]
    · by_cases hz : has n.op.ty T.sizeof_ = true
      · have : n.op = .sizeof_ := by
          have : ∀ o : Op, has o.ty T.sizeof_ = true → o = .sizeof_ := forall_op (by decide +kernel)
          exact this _ hz
        rw [this]
        have a1 : has Op.sizeof_.ty T.special = true := by decide
        have a2 : has Op.sizeof_.ty T.parenCast = false := by decide
        have a3 : has Op.sizeof_.ty T.sizeof_ = true := by decide
        have a4 : lexedOp .sizeof_ = .sizeof_ := by decide
        simp [a1, a2, a3, a4, printToks]
      · have ht := (h4 hs (by simpa using hp) (by simpa using hz)).2.2
        have : n.op = .throw_ := by
          have : ∀ o : Op, has o.ty T.throw_ = true → o = .throw_ := forall_op (by decide +kernel)
          exact this _ ht
        rw [this]
        have a1 : has Op.throw_.ty T.special = true := by decide
        have a2 : has Op.throw_.ty T.parenCast = false := by decide
        have a3 : has Op.throw_.ty T.sizeof_ = false := by decide
        have a4 : lexedOp .throw_ = .throw_ := by decide
        simp [a1, a2, a3, a4, printToks]
  · have hp : has n.op.ty T.parenCast = false := by
      cases hh : has n.op.ty T.parenCast
      · rfl
      · exact absurd (h5 hh) hs
    simp [hs, hp, printToks]

end Occa.Expr

namespace Occa.Expr
open Occa.Gen

theorem pfx_prec_facts : Op.sizeof_.prec = 3 ∧ Op.throw_.prec = 17 ∧ Op.parenCast.prec = 3 ∧ Op.questionMark.prec = 16 ∧
    Op.colon.prec = 16 := by decide

theorem pfxNode_cases (n : OpNode) (e : Expr) (h : preOk n.op = true) :
    (has n.op.ty T.special = false ∧ pfxNode n e = .lu n.op e) ∨
    (n.op = .parenCast ∧ pfxNode n e = .cast n.castName n.castPtrs e) ∨
    (n.op = .sizeof_ ∧ pfxNode n e = .sizeof e) ∨
    (n.op = .throw_ ∧ pfxNode n e = .throw_ e) := by
  obtain ⟨_, _, _, h4, h5, h6⟩ := ty_facts_prefixOk n.op h
  unfold pfxNode
  by_cases hs : has n.op.ty T.special = true
  · by_cases hp : has n.op.ty T.parenCast = true
    · have : n.op = .parenCast := by
        have : ∀ o : Op, has o.ty T.parenCast = true → o = .parenCast := forall_op (by decide +kernel)
        exact this _ hp
      exact Or.inr (Or.inl ⟨this, by simp [hs, hp]⟩)
    · by_cases hz : has n.op.ty T.sizeof_ = true
      · have : n.op = .sizeof_ := by
          have : ∀ o : Op, has o.ty T.sizeof_ = true → o = .sizeof_ := forall_op (by decide +kernel)
          exact this _ hz
        exact Or.inr (Or.inr (Or.inl ⟨this, by simp [hs, hp, hz]⟩))
      · have ht := (h4 hs (by simpa using hp) (by simpa using hz)).2.2
        have : n.op = .throw_ := by
          have : ∀ o : Op, has o.ty T.throw_ = true → o = .throw_ := forall_op (by decide +kernel)
          exact this _ ht
        exact Or.inr (Or.inr (Or.inr ⟨this, by simp [hs, hp, hz]⟩))
  · exact Or.inl ⟨by simpa using hs, by simp [hs]⟩

/-- the level of a prefix node is the level of its operator -/
theorem rootPrec_pfx (n : OpNode) (e : Expr) (h : preOk n.op = true) : rootPrec (pfxNode n e) = n.op.prec := by
  rcases pfxNode_cases n e h with ⟨_, h2⟩ | ⟨h1, h2⟩ | ⟨h1, h2⟩ | ⟨h1, h2⟩ <;> rw [h2] <;> simp [rootPrec] <;> rw [h1]

theorem canonB_pfx (n : OpNode) (e : Expr) (h : preOk n.op = true) (he : canonB e = true)
    (hf : rightFits n.op.prec (rootPrec e) = true) : canonB (pfxNode n e) = true := by
  rcases pfxNode_cases n e h with ⟨_, h2⟩ | ⟨h1, h2⟩ | ⟨h1, h2⟩ | ⟨h1, h2⟩
  · rw [h2]; simp [canonB, he, hf]
  · rw [h2]; rw [h1] at hf; simp [canonB, he, hf]
  · rw [h2]; rw [h1] at hf; simp [canonB, he, hf]
  · rw [h2]; rw [h1] at hf; simp [canonB, he, hf]

end Occa.Expr
