import OccaProofs.Lemmas.PrimScan
namespace Occa.Prim.Lemmas
open Occa Occa.CExpr Occa.CxxSem Occa.Gen Occa.Prim

theorem inRange_int_nat (V : Nat) : inRange .int (V : Int) = decide (V ≤ 2147483647) := by
  rw [Bool.eq_iff_iff, inRange_int]; simp; omega
theorem inRange_uint_nat (V : Nat) : inRange .uint (V : Int) = decide (V ≤ 4294967295) := by
  rw [Bool.eq_iff_iff, inRange_uint]; simp; omega
theorem inRange_long_nat (V : Nat) : inRange .long (V : Int) = decide (V ≤ 9223372036854775807) := by
  rw [Bool.eq_iff_iff, inRange_long]; simp; omega
theorem inRange_ulong_nat (V : Nat) : inRange .ulong (V : Int) = decide (V ≤ 18446744073709551615) := by
  rw [Bool.eq_iff_iff, inRange_ulong]; simp; omega

/-- the typing branches of primitive.cpp's integerLiteral() pick the first fitting type of Table 7 -/
theorem integerLiteral_spec (dec uns : Bool) (n V : Nat) (t : Ty)
    (h : (match uns, n with
          | false, 0 => if dec then [Ty.int, .long] else [.int, .uint, .long, .ulong]
          | true,  0 => [.uint, .ulong]
          | false, _ => if dec then [.long] else [.long, .ulong]
          | true,  _ => [.ulong]).find? (fun t => inRange t (Int.ofNat V)) = some t) :
    integerLiteral V dec uns n = (t, Int.ofNat V) := by
  by_cases c1 : V ≤ 2147483647 <;> by_cases c2 : V ≤ 4294967295 <;> by_cases c3 : V ≤ 9223372036854775807 <;>
    by_cases c4 : V ≤ 18446744073709551615 <;> (try (exfalso; omega)) <;>
    cases uns <;> cases dec <;> rcases n with _ | n <;>
    simp [List.find?, inRange_int_nat, inRange_uint_nat, inRange_long_nat, inRange_ulong_nat, c1, c2, c3, c4] at h <;>
    subst h <;> simp [integerLiteral, c1, c2, c3, c4] <;> (try omega)


theorem p8 : (2:Int)^8 = 256 := by decide
theorem p16 : (2:Int)^16 = 65536 := by decide

/-- loadHex / loadBinary hand the value over in the smallest unsigned type that holds the digits read;
    `p.to<uint64_t>()` gets the value back -/
theorem sizedPrim_ulong (v bits : Nat) (hv : v < 2 ^ bits) (hv64 : v < two64) :
    toT .ulong (sizedPrim v bits false) = .ok ⟨.ulong, Int.ofNat v⟩ ∧ (sizedPrim v bits false).ty.isNone = false := by
  unfold sizedPrim
  have h64 : two64 = 18446744073709551616 := rfl
  by_cases h1 : bits < 8
  · have : 2 ^ bits ≤ 2 ^ 7 := Nat.pow_le_pow_right (by decide) (by omega)
    have : v < 128 := by omega
    simp [h1, toT, cvt, Ty.isFloat, wrapTo, Ty.signed, Ty.bits, wrapU, p8, p64]
    omega
  by_cases h2 : bits < 16
  · have : 2 ^ bits ≤ 2 ^ 15 := Nat.pow_le_pow_right (by decide) (by omega)
    have : v < 32768 := by omega
    simp [h1, h2, toT, cvt, Ty.isFloat, wrapTo, Ty.signed, Ty.bits, wrapU, p16, p64]
    omega
  by_cases h3 : bits < 32
  · have : 2 ^ bits ≤ 2 ^ 31 := Nat.pow_le_pow_right (by decide) (by omega)
    have : v < 2147483648 := by omega
    simp [h1, h2, h3, toT, cvt, Ty.isFloat, wrapTo, Ty.signed, Ty.bits, wrapU, p32, p64]
    omega
  · simp [h1, h2, h3, toT, cvt, Ty.isFloat, wrapTo, Ty.signed, Ty.bits, wrapU, p64]
    omega

end Occa.Prim.Lemmas
