/-
`useRefs` is only ever switched off by `dontUseRefs()`: histories without it pin nothing.
-/
import OccaProofs.Lemmas.GcFinal

namespace Occa.Gc

@[simp] theorem touch_useRefs (s : St) (o : Nat) : (s.touch o).useRefs = s.useRefs := by
  unfold St.touch; split <;> rfl

@[simp] theorem died_useRefs (s : St) (o : Nat) : (s.died o).useRefs = s.useRefs := by
  unfold St.died; split <;> rfl

@[simp] theorem chSet_useRefs (s : St) (k : Kind) (d : Nat) (l : List Nat) : (s.chSet k d l).useRefs = s.useRefs := by
  cases k <;> rfl

@[simp] theorem nullWrappers_useRefs (o : Nat) : ∀ (n : Nat) (s : St), (nullWrappers n s o).useRefs = s.useRefs
  | 0, s => rfl
  | n+1, s => by
    unfold nullWrappers
    split
    · rfl
    · rw [nullWrappers_useRefs o n]; rfl

@[simp] theorem dtorMemBody_useRefs (s : St) (m : Nat) : (dtorMemBody s m).useRefs = s.useRefs := by
  unfold dtorMemBody; simp

@[simp] theorem destroySlices_useRefs (b : Nat) : ∀ (n : Nat) (s : St), (destroySlices n s b).useRefs = s.useRefs
  | 0, s => rfl
  | n+1, s => by
    unfold destroySlices
    split
    · rfl
    · rw [destroySlices_useRefs b n]; simp [St.setPar, St.setKids]

@[simp] theorem dtorBufBase_useRefs (s : St) (b : Nat) : (dtorBufBase s b).useRefs = s.useRefs := by
  unfold dtorBufBase
  simp only []
  split
  · simp
  · simp [St.addBytes]

@[simp] theorem deleteBuf_useRefs (s : St) (b : Nat) : (deleteBuf s b).useRefs = s.useRefs := by
  unfold deleteBuf
  simp only [dtorBufBase_useRefs]
  split
  · split <;> simp
  · simp

@[simp] theorem deleteMem_useRefs (s : St) (m : Nat) : (deleteMem s m).useRefs = s.useRefs := by
  unfold deleteMem
  simp only []
  split
  · simp
  · simp only [St.setPar]
    split <;> simp [St.setKids]

@[simp] theorem deleteChild_useRefs (k : Kind) (s : St) (o : Nat) : (deleteChild k s o).useRefs = s.useRefs := by
  unfold deleteChild
  simp only []
  split <;> simp

@[simp] theorem deleteOf_useRefs (k : Kind) (s : St) (o : Nat) : (deleteOf k s o).useRefs = s.useRefs := by
  unfold deleteOf; cases k <;> simp

@[simp] theorem freeRing_useRefs (k : Kind) (d : Nat) : ∀ (n : Nat) (s : St), (freeRing k n s d).useRefs = s.useRefs
  | 0, s => rfl
  | n+1, s => by
    unfold freeRing
    split
    · rfl
    · rw [freeRing_useRefs k d n]; simp

theorem dropRefWith_useRefs (del : St → Nat → St) (hd : ∀ s o, (del s o).useRefs = s.useRefs) (s : St) (v : Var) :
    (dropRefWith del s v).useRefs = s.useRefs := by
  unfold dropRefWith
  split
  · rfl
  · simp only []
    split
    · simp [St.setPtr, hd, St.setRing]
    · simp [St.setRing]

@[simp] theorem deleteDev_useRefs (s : St) (d : Nat) : (deleteDev s d).useRefs = s.useRefs := by
  unfold deleteDev
  simp [St.setPtr, St.setVLive, dropRefWith_useRefs _ (deleteChild_useRefs .str)]

@[simp] theorem deleteObj_useRefs (k : HKind) (s : St) (o : Nat) : (deleteObj k s o).useRefs = s.useRefs := by
  cases k <;> simp [deleteObj]

@[simp] theorem dropRef_useRefs (s : St) (v : Var) : (dropRef s v).useRefs = s.useRefs :=
  dropRefWith_useRefs _ (deleteObj_useRefs v.kind) s v

@[simp] theorem setMode_useRefs (s : St) (v : Var) (t : Option Nat) : (setMode s v t).useRefs = s.useRefs := by
  unfold setMode
  split
  · rfl
  · simp only []
    split <;> simp [St.setPtr, St.setRing]

@[simp] theorem construct_useRefs (s : St) (v : Var) : (construct s v).useRefs = s.useRefs := rfl

@[simp] theorem destruct_useRefs (s : St) (v : Var) : (destruct s v).useRefs = s.useRefs := by
  unfold destruct; simp [St.setPtr, St.setVLive]

@[simp] theorem freeHandle_useRefs (s : St) (v : Var) : (freeHandle s v).useRefs = s.useRefs := by
  unfold freeHandle
  split
  · rfl
  · split <;> simp [St.setPtr]

@[simp] theorem swapHandles_useRefs (s : St) (a b : Var) : (swapHandles s a b).useRefs = s.useRefs := by
  unfold swapHandles; simp

@[simp] theorem tempOf_useRefs (s : St) (k : HKind) (o : Nat) : (tempOf s k o).useRefs = s.useRefs := by
  unfold tempOf; simp

@[simp] theorem assignTemp_useRefs (s : St) (v : Var) (k : HKind) : (assignTemp s v k).useRefs = s.useRefs := by
  unfold assignTemp; simp

/-- all reference counting is on -/
def AllRefs (s : St) : Prop := ∀ o, s.useRefs o = true

theorem alloc_allRefs {s : St} (h : AllRefs s) (K : Kind) (p : Option Nat) (sz : Nat) : AllRefs (s.alloc K p sz).1 := by
  intro o
  show upd s.useRefs s.next true o = true
  by_cases e : o = s.next
  · rw [e, upd_same]
  · rw [upd_other _ _ e]; exact h o

theorem AllRefs.of_eq {s s' : St} (h : AllRefs s) (e : s'.useRefs = s.useRefs) : AllRefs s' := by
  intro o; rw [e]; exact h o

theorem setKids_allRefs {s : St} (h : AllRefs s) (b : Nat) (l : List Nat) : AllRefs (s.setKids b l) := h
theorem addBytes_allRefs {s : St} (h : AllRefs s) (d : Nat) (n : Int) : AllRefs (s.addBytes d n) := h
theorem chSet_allRefs {s : St} (h : AllRefs s) (k : Kind) (d : Nat) (l : List Nat) : AllRefs (s.chSet k d l) :=
  h.of_eq (chSet_useRefs s k d l)
theorem touch_allRefs {s : St} (h : AllRefs s) (o : Nat) : AllRefs (s.touch o) := h.of_eq (touch_useRefs s o)

def Op.isNorefs : Op → Bool
  | .norefs _ _ => true
  | _ => false

theorem step_allRefs {s : St} (h : AllRefs s) (op : Op) (hn : op.isNorefs = false) : AllRefs (step s op).1 := by
  cases op with
  | norefs k i => simp [Op.isNorefs] at hn
  | ctor k i => simp only [step]; split <;> first | exact h | exact h.of_eq (by simp)
  | copy k d a => simp only [step]; split <;> first | exact h | exact h.of_eq (by simp)
  | asg k d a => simp only [step]; split <;> first | exact h | exact h.of_eq (by simp)
  | swap k a b => simp only [step]; split <;> first | exact h | exact h.of_eq (by simp)
  | free k i => simp only [step]; split <;> first | exact h | exact h.of_eq (by simp)
  | drop k i => simp only [step]; split <;> first | exact h | exact h.of_eq (by simp)
  | getstr st d =>
    simp only [step]; split
    · exact h
    · split <;> first | exact h | exact h.of_eq (by simp)
  | setstr d st =>
    simp only [step]; split
    · exact h
    · split <;> first | exact h | exact h.of_eq (by simp)
  | getdev d k i =>
    simp only [step]; split
    · exact h
    · split <;> exact h.of_eq (by simp)
  | mkdev i =>
    simp only [step]; split
    · exact h
    · apply AllRefs.of_eq _ (assignTemp_useRefs _ _ _)
      unfold newDevice
      simp only []
      apply AllRefs.of_eq _ (assignTemp_useRefs _ _ _)
      apply AllRefs.of_eq _ (tempOf_useRefs _ _ _)
      apply AllRefs.of_eq _ (chSet_useRefs _ _ _ _)
      apply alloc_allRefs
      apply AllRefs.of_eq _ (tempOf_useRefs _ _ _)
      apply AllRefs.of_eq _ (construct_useRefs _ _)
      exact alloc_allRefs h _ _ _
  | malloc m d n =>
    simp only [step]; split
    · exact h
    · split
      · exact h
      · split
        · exact h.of_eq (by simp)
        · apply AllRefs.of_eq _ (assignTemp_useRefs _ _ _)
          apply AllRefs.of_eq _ (tempOf_useRefs _ _ _)
          apply addBytes_allRefs
          apply setKids_allRefs
          apply alloc_allRefs
          apply chSet_allRefs
          apply alloc_allRefs
          exact touch_allRefs h _
  | slice m1 m2 off n =>
    simp only [step]; split
    · exact h
    · split
      · exact h.of_eq (by simp)
      · split
        · exact h.of_eq (by simp)
        · split
          · exact h.of_eq (by simp)
          · apply AllRefs.of_eq _ (assignTemp_useRefs _ _ _)
            apply AllRefs.of_eq _ (tempOf_useRefs _ _ _)
            apply setKids_allRefs
            apply alloc_allRefs
            exact touch_allRefs (touch_allRefs h _) _
  | mkpool p d =>
    simp only [step]; split
    · exact h
    · split
      · exact h
      · apply AllRefs.of_eq _ (assignTemp_useRefs _ _ _)
        apply AllRefs.of_eq _ (tempOf_useRefs _ _ _)
        apply AllRefs.of_eq _ (chSet_useRefs _ _ _ _)
        apply alloc_allRefs
        exact h.of_eq (by simp)
  | mkker k d =>
    simp only [step]; split
    · exact h
    · split
      · exact h
      · apply AllRefs.of_eq _ (assignTemp_useRefs _ _ _)
        apply AllRefs.of_eq _ (tempOf_useRefs _ _ _)
        apply AllRefs.of_eq _ (chSet_useRefs _ _ _ _)
        apply alloc_allRefs
        exact h.of_eq (by simp)
  | mkstr st d =>
    simp only [step]; split
    · exact h
    · split
      · exact h
      · apply AllRefs.of_eq _ (assignTemp_useRefs _ _ _)
        apply AllRefs.of_eq _ (tempOf_useRefs _ _ _)
        apply AllRefs.of_eq _ (chSet_useRefs _ _ _ _)
        apply alloc_allRefs
        exact h.of_eq (by simp)
  | reserve m p n =>
    simp only [step]; split
    · exact h
    · split
      · exact h
      · split
        · exact h.of_eq (by simp)
        · apply AllRefs.of_eq _ (assignTemp_useRefs _ _ _)
          apply AllRefs.of_eq _ (tempOf_useRefs _ _ _)
          rename_i pl _ _
          have hin : AllRefs (match (s.touch pl).inner pl with
              | some _ => s.touch pl
              | none => ({ ((s.touch pl).alloc .buf ((s.touch pl).par pl) 0).1 with
                  inner := upd ((s.touch pl).alloc .buf ((s.touch pl).par pl) 0).1.inner pl
                    (some ((s.touch pl).alloc .buf ((s.touch pl).par pl) 0).2) } : St)) := by
            split
            · exact h.of_eq (by simp)
            · exact AllRefs.of_eq (alloc_allRefs (touch_allRefs h pl) .buf ((s.touch pl).par pl) 0) rfl
          exact setKids_allRefs (alloc_allRefs hin .mem (some pl) n) _ _

theorem runFrom_allRefs {s : St} (h : AllRefs s) (ops : List Op) (hn : ∀ op ∈ ops, op.isNorefs = false) :
    AllRefs (runFrom s ops) := by
  induction ops generalizing s with
  | nil => exact h
  | cons op t ih =>
    exact ih (step_allRefs h op (hn op (by simp))) (fun o ho => hn o (by simp [ho]))

theorem init_allRefs : AllRefs St.init := fun _ => rfl

end Occa.Gc
