/-
resize / setAlignment / reserve of the pool preserve the invariant `PInv`, the contents and the
aliasing of every live memory (with all repairs present, `Cfg.Fixed`).
-/
import OccaProofs.Lemmas.PoolInv

namespace Occa.Pool
open Finset

/-! ### more about the sweep -/

theorem sweepGo_total_dvd (a : Nat) (st : Nat → Nat) :
    ∀ (ms : List Resv) (lo hi offset : Nat), a ∣ (sweepGo a st lo hi offset ms).total := by
  intro ms
  induction ms with
  | nil => intro lo hi offset; unfold sweepGo; exact rup_dvd a _
  | cons m ms ih =>
    intro lo hi offset
    unfold sweepGo
    split
    · exact Nat.dvd_add (rup_dvd a _) (ih _ _ _)
    · exact ih _ _ _

theorem sweep_total_dvd (a : Nat) (st : Nat → Nat) (m : Resv) (ms : List Resv) : a ∣ (sweep a st m ms).total :=
  sweepGo_total_dvd a st ms _ _ _

theorem sweepGo_srcBound {a : Nat} {st : Nat → Nat} (hst : StOK st) (B : Nat) :
    ∀ (ms : List Resv) (lo hi offset : Nat), lo ≤ hi → hi ≤ B → (∀ m ∈ ms, m.off + m.size ≤ B) →
      ∀ c ∈ (sweepGo a st lo hi offset ms).copies, c.src + c.len ≤ B := by
  intro ms
  induction ms with
  | nil =>
    intro lo hi offset h1 h2 _ c hc
    unfold sweepGo at hc
    simp at hc; subst hc
    show lo + (hi - lo) ≤ B
    omega
  | cons m ms ih =>
    intro lo hi offset h1 h2 hB c hc
    have hmB := hB m List.mem_cons_self
    have hstm := hst.le m.off
    unfold sweepGo at hc
    split at hc
    · rcases List.mem_cons.1 hc with rfl | hc
      · show lo + (hi - lo) ≤ B
        omega
      · exact ih _ _ _ (by omega) hmB (fun x hx => hB x (List.mem_cons_of_mem _ hx)) c hc
    · exact ih _ _ _ (by omega) (by omega) (fun x hx => hB x (List.mem_cons_of_mem _ hx)) c hc

theorem sweep_srcBound {a : Nat} {st : Nat → Nat} (hst : StOK st) (B : Nat) (m : Resv) (ms : List Resv)
    (hB : ∀ x ∈ m :: ms, x.off + x.size ≤ B) : ∀ c ∈ (sweep a st m ms).copies, c.src + c.len ≤ B := by
  have := hst.le m.off
  have hm := hB m List.mem_cons_self
  exact sweepGo_srcBound hst B ms _ _ _ (by omega) hm (fun x hx => hB x (List.mem_cons_of_mem _ hx))

/-! ### Forall₂ helpers -/

theorem forall2_findSlot {R : Resv → Resv → Prop} {l l' : List Resv} (h : List.Forall₂ R l l')
    (hs : ∀ x y, R x y → y.slot = x.slot) {k : Nat} {r : Resv} (hr : findSlot k l = some r) :
    ∃ r', findSlot k l' = some r' ∧ R r r' := by
  induction h with
  | nil => simp [findSlot] at hr
  | @cons x y xs ys hxy _ ih =>
    unfold findSlot at hr ⊢
    rw [hs x y hxy]
    split at hr
    · rename_i hk
      cases hr
      rw [if_pos hk]
      exact ⟨y, rfl, hxy⟩
    · rename_i hk
      rw [if_neg hk]
      exact ih hr

theorem forall2_mem_right {R : Resv → Resv → Prop} {l l' : List Resv} (h : List.Forall₂ R l l') :
    ∀ y ∈ l', ∃ x ∈ l, R x y := by
  induction h with
  | nil => intro y hy; simp at hy
  | cons hxy _ ih =>
    intro y hy
    rcases List.mem_cons.1 hy with rfl | hy
    · exact ⟨_, List.mem_cons_self, hxy⟩
    · obtain ⟨x, hx, hr⟩ := ih y hy
      exact ⟨x, List.mem_cons_of_mem _ hx, hr⟩

theorem forall2_map_slot {R : Resv → Resv → Prop} {l l' : List Resv} (h : List.Forall₂ R l l')
    (hs : ∀ x y, R x y → y.slot = x.slot) : l'.map (·.slot) = l.map (·.slot) := by
  induction h with
  | nil => rfl
  | cons hxy _ ih => simp [hs _ _ hxy, ih]

/-! ### packing: what resize and setAlignment have in common -/

structure PackedFrom (p p' : Pool) : Prop where
  contents : SameContents p p'
  aliasing : SameAliasing p p'
  famDisj : ∀ r ∈ p'.resv, ∀ r' ∈ p'.resv, r.fam ≠ r'.fam → NoShare r r'
  nodup : (p'.resv.map (·.slot)).Nodup
  buflen : p'.buf.length = p'.size

theorem packed_of_sweep {p : Pool} (h : PInv p) {a : Nat} (ha : 0 < a) {st : Nat → Nat} (hst : StOK st)
    {m : Resv} {ms : List Resv} (hl : p.resv = m :: ms) (newSize : Nat)
    (hfit : (sweep a st m ms).total ≤ newSize) (p' : Pool)
    (hresv : p'.resv = (sweep a st m ms).resv)
    (hbuf : p'.buf = applyCopies p.buf (sweep a st m ms).copies (zeros newSize))
    (hsize : p'.size = newSize) : PackedFrom p p' := by
  have hsort : OffSorted (m :: ms) := hl ▸ h.sorted
  have spec := sweep_spec ha hst m ms hsort
  have hin : ∀ c ∈ (sweep a st m ms).copies,
      c.dst + c.len ≤ (zeros newSize).length ∧ c.src + c.len ≤ p.buf.length := by
    intro c hc
    rw [length_zeros, h.buflen]
    refine ⟨Nat.le_trans (spec.bound c hc) hfit, ?_⟩
    exact sweep_srcBound hst p.size m ms (fun x hx => h.inBounds (hl ▸ hx)) c hc
  have hslot : ∀ x y, Moved (sweep a st m ms).copies x y → y.slot = x.slot := fun _ _ hm => hm.1
  have hmoved : List.Forall₂ (Moved (sweep a st m ms).copies) p.resv p'.resv := by
    rw [hl, hresv]; exact spec.moved
  refine ⟨?_, ?_, ?_, ?_, ?_⟩
  · intro k r hr
    obtain ⟨r', hr', hm⟩ := forall2_findSlot hmoved hslot hr
    refine ⟨r', hr', hm.2.1, hm.2.2.1, ?_⟩
    rw [hbuf]
    exact moved_reads_same spec.ordered hin hm
  · intro k₁ k₂ r₁ r₂ r₁' r₂' h1 h2 h1' h2' i j hi hj
    obtain ⟨x₁, hx₁, hm₁⟩ := forall2_findSlot hmoved hslot h1
    obtain ⟨x₂, hx₂, hm₂⟩ := forall2_findSlot hmoved hslot h2
    rw [hx₁] at h1'; rw [hx₂] at h2'; cases h1'; cases h2'
    exact moved_same_position spec.ordered hm₁ hm₂ i j hi hj
  · intro r hr r' hr' hne
    obtain ⟨x, hx, hmx⟩ := forall2_mem_right hmoved r hr
    obtain ⟨x', hx', hmx'⟩ := forall2_mem_right hmoved r' hr'
    have hne' : x.fam ≠ x'.fam := by rw [← hmx.2.2.1, ← hmx'.2.2.1]; exact hne
    have hold := h.famDisj x hx x' hx' hne'
    intro i hi j hj e
    have hi' : i < x.size := by rw [← hmx.2.1]; exact hi
    have hj' : j < x'.size := by rw [← hmx'.2.1]; exact hj
    exact hold i hi' j hj' ((moved_same_position spec.ordered hmx hmx' i j hi' hj').1 e)
  · rw [forall2_map_slot hmoved hslot]; exact h.nodup
  · rw [hbuf, applyCopies_length _ _ _ hin, length_zeros, hsize]

/-- every rebased reservation ends at or before the sweep's total -/
theorem sweep_resv_bound {a : Nat} (ha : 0 < a) {st : Nat → Nat} (hst : StOK st) (m : Resv) (ms : List Resv)
    (hsort : OffSorted (m :: ms)) : ∀ r ∈ (sweep a st m ms).resv, r.off + r.size ≤ (sweep a st m ms).total := by
  have spec := sweep_spec ha hst m ms hsort
  intro r hr
  obtain ⟨x, _, hm⟩ := forall2_mem_right spec.moved r hr
  obtain ⟨_, hsz, _, c, hc, h1, h2, h3⟩ := hm
  have := spec.bound c hc
  omega

/-! ### resize -/

/-- what a resize that really re-allocates establishes -/
structure Resized (p p' : Pool) (bytes : Nat) : Prop where
  inv : PInv p'
  packed : SameContents p p' ∧ SameAliasing p p'
  align : p'.align = p.align
  size : p'.size = rup p.align bytes
  reserved : p'.reserved = p.reserved
  hasBuf : p'.hasBuf = true
  below : ∀ r ∈ p'.resv, r.off + r.size ≤ p'.reserved
  slots : p'.resv.map (·.slot) = p.resv.map (·.slot)
  members : ∀ r' ∈ p'.resv, ∃ r ∈ p.resv, r'.fam = r.fam ∧ r'.slot = r.slot

theorem resize_ok {c : Cfg} (hc : c.Fixed) {d d' : Dev} {p p' : Pool} (h : PInv p) {bytes : Nat} {pack : Bool}
    (hres : p.resize c d bytes pack = .ok (d', p')) :
    p.reserved ≤ bytes ∧ ((p.size = bytes ∧ pack = false ∧ p' = p ∧ d' = d) ∨
      (¬ (p.size = bytes ∧ pack = false) ∧ Resized p p' bytes)) := by
  unfold Pool.resize at hres
  split at hres
  · cases hres
  rename_i hle
  have hle' : p.reserved ≤ bytes := by omega
  refine ⟨hle', ?_⟩
  split at hres
  · rename_i hearly
    cases hres
    exact Or.inl ⟨hearly.1, hearly.2, rfl, rfl⟩
  rename_i hnot
  refine Or.inr ⟨hnot, ?_⟩
  have hab := le_rup h.apos bytes
  split at hres
  · -- no reservations: a fresh buffer
    rename_i hnil
    cases hres
    have hr0 : p.reserved = 0 := by rw [h.reserved_eq, hnil, measure_nil]
    refine ⟨⟨h.apos, hnil ▸ List.Pairwise.nil, by simp [hnil], by simp [zeros], ?_, by simp [hnil], by simp [hnil],
      Or.inl rfl⟩, ⟨?_, ?_⟩, rfl, rfl, rfl, rfl, by simp [hnil], by simp [hnil], by simp [hnil]⟩
    · show p.reserved = measure p.align p.resv
      exact h.reserved_eq
    · intro k r hr; rw [hnil] at hr; simp [findSlot] at hr
    · intro k₁ k₂ r₁ r₂ r₁' r₂' h1; rw [hnil] at h1; simp [findSlot] at h1
  · rename_i m ms hl
    split at hres
    · cases hres
    cases hres
    have hst : resizeStart c p.align = rdn p.align := by
      unfold resizeStart; rw [if_pos hc.2.1]
    rw [hst]
    have hsort : OffSorted (m :: ms) := hl ▸ h.sorted
    have htot : (sweep p.align (rdn p.align) m ms).total = p.reserved := by
      rw [sweep_total_eq_old_measure h.apos m ms hsort, h.reserved_eq, hl]
    have hfit : (sweep p.align (rdn p.align) m ms).total ≤ rup p.align bytes := by omega
    let p' : Pool := { p with resv := (sweep p.align (rdn p.align) m ms).resv,
                              buf := applyCopies p.buf (sweep p.align (rdn p.align) m ms).copies (zeros (rup p.align bytes)),
                              size := rup p.align bytes, reserved := (sweep p.align (rdn p.align) m ms).total }
    have pk : PackedFrom p p' := packed_of_sweep h h.apos (stOK_rdn p.align) hl (rup p.align bytes) hfit p' rfl rfl rfl
    have hbound := sweep_resv_bound h.apos (stOK_rdn p.align) m ms hsort
    have hslots : p'.resv.map (·.slot) = p.resv.map (·.slot) := by
      have spec := sweep_spec h.apos (stOK_rdn p.align) m ms hsort
      rw [hl]
      exact forall2_map_slot spec.moved (fun _ _ hm => hm.1)
    have hbuf : p.hasBuf = true := by
      rcases h.hasBuf with hb | hb
      · exact hb
      · rw [hl] at hb; cases hb.1
    refine ⟨⟨h.apos, sweep_sorted h.apos (stOK_rdn p.align) m ms hsort, ?_, pk.buflen, ?_, pk.famDisj, pk.nodup, Or.inl hbuf⟩,
      ⟨pk.contents, pk.aliasing⟩, rfl, rfl, htot, hbuf, hbound, hslots, ?_⟩
    · intro r hr
      have hd := sweep_total_dvd p.align (rdn p.align) m ms
      have := rup_le_of_dvd h.apos hd (hbound r hr)
      show rup p.align (r.off + r.size) ≤ rup p.align bytes
      omega
    · show (sweep p.align (rdn p.align) m ms).total = measure p.align (sweep p.align (rdn p.align) m ms).resv
      exact (sweep_total_eq_measure h.apos (stOK_rdn p.align) (stAlign_rdn h.apos) m ms hsort).1.symm
    · intro r' hr'
      have spec := sweep_spec h.apos (stOK_rdn p.align) m ms hsort
      obtain ⟨x, hx, hm⟩ := forall2_mem_right spec.moved r' hr'
      exact ⟨x, hl ▸ hx, hm.2.2.1, hm.1⟩

/-- C04: resizing below `reserved` raises an error (and nothing else does) -/
theorem resize_err_iff {c : Cfg} {d : Dev} {p : Pool} (h : PInv p) (bytes : Nat) (pack : Bool) :
    (∃ e, p.resize c d bytes pack = .error e) ↔ bytes < p.reserved := by
  constructor
  · rintro ⟨e, he⟩
    unfold Pool.resize at he
    split at he
    · omega
    · exfalso
      split at he
      · cases he
      · split at he
        · cases he
        · rename_i m ms hl
          split at he
          · rename_i hb
            rcases h.hasBuf with hb' | hb'
            · rw [hb'] at hb; cases hb
            · rw [hl] at hb'; cases hb'.1
          · cases he
  · intro hlt
    refine ⟨.err, ?_⟩
    unfold Pool.resize
    rw [if_pos (by omega)]

theorem resize_err_is_err {c : Cfg} {d : Dev} {p : Pool} (h : PInv p) {bytes : Nat} {pack : Bool}
    {e : Err} (he : p.resize c d bytes pack = .error e) : e = .err := by
  unfold Pool.resize at he
  split at he
  · cases he; rfl
  · exfalso
    split at he
    · cases he
    · split at he
      · cases he
      · rename_i m ms hl
        split at he
        · rename_i hb
          rcases h.hasBuf with hb' | hb'
          · rw [hb'] at hb; cases hb
          · rw [hl] at hb'; cases hb'.1
        · cases he

/-! ### setAlignment -/

structure Realigned (p p' : Pool) (na : Nat) : Prop where
  inv : PInv p'
  packed : SameContents p p' ∧ SameAliasing p p'
  align : p'.align = na
  slots : p'.resv.map (·.slot) = p.resv.map (·.slot)
  members : ∀ r' ∈ p'.resv, ∃ r ∈ p.resv, r'.fam = r.fam ∧ r'.slot = r.slot
  size : p.resv = [] → p'.size = p.size

theorem setAlignment_ok {d d' : Dev} {p p' : Pool} (h : PInv p) {na : Nat}
    (hres : p.setAlignment d na = .ok (d', p')) : 0 < na ∧ Realigned p p' na := by
  unfold Pool.setAlignment at hres
  split at hres
  · cases hres
  rename_i hna
  have hna' : 0 < na := by omega
  refine ⟨hna', ?_⟩
  split at hres
  · rename_i hsame
    cases hres
    exact ⟨h, ⟨SameContents.refl _, SameAliasing.refl _⟩, hsame, rfl, fun r hr => ⟨r, hr, rfl, rfl⟩, fun _ => rfl⟩
  split at hres
  · rename_i hnil
    cases hres
    refine ⟨⟨hna', h.sorted, by simp [hnil], h.buflen, ?_, h.famDisj, h.nodup, h.hasBuf⟩,
      ⟨SameContents.refl _, SameAliasing.refl _⟩, rfl, rfl, fun r hr => ⟨r, hr, rfl, rfl⟩, fun _ => rfl⟩
    show p.reserved = measure na p.resv
    rw [h.reserved_eq, hnil, measure_nil, measure_nil]
  · rename_i m ms hl
    split at hres
    · cases hres
    cases hres
    have hsort : OffSorted (m :: ms) := hl ▸ h.sorted
    let p' : Pool := { p with align := na, resv := (sweep na id m ms).resv,
                              buf := applyCopies p.buf (sweep na id m ms).copies (zeros (sweep na id m ms).total),
                              size := (sweep na id m ms).total, reserved := (sweep na id m ms).total }
    have pk : PackedFrom p p' := packed_of_sweep h hna' stOK_id hl _ (Nat.le_refl _) p' rfl rfl rfl
    have hbound := sweep_resv_bound hna' stOK_id m ms hsort
    have hbuf : p.hasBuf = true := by
      rcases h.hasBuf with hb | hb
      · exact hb
      · rw [hl] at hb; cases hb.1
    have hslots : p'.resv.map (·.slot) = p.resv.map (·.slot) := by
      have spec := sweep_spec hna' stOK_id m ms hsort
      rw [hl]
      exact forall2_map_slot spec.moved (fun _ _ hm => hm.1)
    refine ⟨⟨hna', sweep_sorted hna' stOK_id m ms hsort, ?_, pk.buflen, ?_, pk.famDisj, pk.nodup, Or.inl hbuf⟩,
      ⟨pk.contents, pk.aliasing⟩, rfl, hslots, ?_, fun hn => by rw [hl] at hn; cases hn⟩
    · intro r hr
      exact rup_le_of_dvd hna' (sweep_total_dvd na id m ms) (hbound r hr)
    · show (sweep na id m ms).total = measure na (sweep na id m ms).resv
      exact (sweep_total_eq_measure hna' stOK_id stAlign_id m ms hsort).1.symm
    · intro r' hr'
      have spec := sweep_spec hna' stOK_id m ms hsort
      obtain ⟨x, hx, hm⟩ := forall2_mem_right spec.moved r' hr'
      exact ⟨x, hl ▸ hx, hm.2.2.1, hm.1⟩

theorem setAlignment_err {d : Dev} {p : Pool} (h : PInv p) {na : Nat} {e : Err}
    (he : p.setAlignment d na = .error e) : e = .err ∧ na = 0 := by
  unfold Pool.setAlignment at he
  split at he
  · rename_i h0; cases he; exact ⟨rfl, h0⟩
  · exfalso
    split at he
    · cases he
    · split at he
      · cases he
      · rename_i m ms hl
        split at he
        · rename_i hb
          rcases h.hasBuf with hb' | hb'
          · rw [hb'] at hb; cases hb
          · rw [hl] at hb'; cases hb'.1
        · cases he

end Occa.Pool
