/-
Creating calls, continued: registration steps as `Inv00` + `Grow` facts; new slices, malloc, devices,
the inner buffer of a pool.
-/
import OccaProofs.Lemmas.GcOps2

namespace Occa.Gc

theorem Grow.trans {s s1 s2 : St} (h1 : Grow s s1) (h2 : Grow s1 s2) (hn : s.next ≤ s1.next) : Grow s s2 := by
  have lt : ∀ x, x < s.next → x < s1.next := fun x hx => by omega
  refine ⟨?_, ?_, ?_, ?_, ?_, ?_, ?_, ?_⟩
  · intro x hx; rw [h2.alive_old x (lt x hx), h1.alive_old x hx]
  · intro x hx; rw [h2.kind x (lt x hx), h1.kind x hx]
  · intro x hx; rw [h2.par x (lt x hx), h1.par x hx]
  · intro x hx; rw [h2.ring x (lt x hx), h1.ring x hx]
  · intro x hx; rw [h2.useRefs x (lt x hx), h1.useRefs x hx]
  · intro x i hx hin; exact h2.inner x i (lt x hx) (h1.inner x i hx hin)
  · intro b x hx; exact h2.kids b x (h1.kids b x hx)
  · intro k d x hx; exact h2.ch k d x (h1.ch k d x hx)

/-- facts about the one new object of a registration step -/
structure NewObj (s s' : St) (K : Kind) (p : Option Nat) : Prop where
  next : s'.next = s.next + 1
  vlive : s'.vlive = s.vlive
  ptr : s'.ptr = s.ptr
  alive : ∀ x, s'.alive x = if x = s.next then true else s.alive x
  kind : ∀ x, s'.kind x = if x = s.next then K else s.kind x
  par : ∀ x, s'.par x = if x = s.next then p else s.par x
  inner : ∀ x, s'.inner x = if x = s.next then none else s.inner x
  useRefs : ∀ x, s'.useRefs x = if x = s.next then true else s.useRefs x
  ring : ∀ x, s'.ring x = if x = s.next then [] else s.ring x

/-- `new X(modeDevice, ...)` + `modeDevice->addXRef(this)` -/
theorem child_link {s : St} (hi : Inv00 E s) {K ks : Kind} {dv : Nat}
    (hK1 : K ≠ .dev) (hK2 : K ≠ .mem) (hslot : slot K = slot ks)
    (hda : s.alive dv = true) (hdk : s.kind dv = .dev) (sz : Nat) :
    let sA := (s.alloc K (some dv) sz).1
    let sL := sA.chSet ks dv (Ring.add (sA.chGet ks dv) s.next)
    Inv00 E sL ∧ Grow s sL ∧ NewObj s sL K (some dv) ∧ s.next ∈ sL.chGet K dv
      ∧ (∀ x, sL.kids x = if x = s.next then [] else s.kids x) := by
  intro sA sL
  obtain ⟨a1, a2, a3, a4, a5, a6, a7, a8, a9, a10, a11⟩ := alloc_fields s K (some dv) sz
  obtain ⟨f1, f2, f3, f4, f5, f6, f7, f8⟩ := hi.fresh (Nat.le_refl s.next)
  obtain ⟨c1, c2, c3, c4, c5, c6, c7, c8, c9, c10, c11, c12⟩ := chSet_fields sA ks dv (Ring.add (sA.chGet ks dv) s.next)
  have hdn : dv ≠ s.next := by intro h; rw [h, f1] at hda; cases hda
  have hA : Inv00 E sA := hi.alloc_only K (some dv) sz
  have hAa : sA.alive s.next = true := by rw [a5]; simp
  have hAk : sA.kind s.next = K := by rw [a6]; simp
  have hL : Inv00 E sL := by
    apply hA.link_ch hAa (by rw [a7]; simp) (by rw [a5]; simp [hdn, hda]) (by rw [a6]; simp [hdn, hdk])
      (by rw [hAk]; exact hslot) (by rw [hAk]; exact hK1) (by rw [hAk]; exact hK2)
    intro p hpa hin
    rw [a11] at hin
    rw [a5] at hpa
    split at hin
    · cases hin
    · rename_i hp
      simp only [hp, if_false] at hpa
      exact f8 p hpa hin
  have hLchN : s.next ∈ sL.chGet K dv := by
    show s.next ∈ (sA.chSet ks dv (Ring.add (sA.chGet ks dv) s.next)).chGet K dv
    rw [chGet_chSet]
    simp only [hslot, and_self, if_true]
    exact (Ring.mem_add _ _).mpr (Or.inr rfl)
  have hg : Grow s sL := by
    have ne : ∀ x, x < s.next → x ≠ s.next := fun x hx => by omega
    refine ⟨?_, ?_, ?_, ?_, ?_, ?_, ?_, ?_⟩
    · intro x hx; rw [c3, a5]; simp [ne x hx]
    · intro x hx; rw [c2, a6]; simp [ne x hx]
    · intro x hx; rw [c7, a7]; simp [ne x hx]
    · intro x hx; rw [c6, a8]; simp [ne x hx]
    · intro x hx; rw [c5, a10]; simp [ne x hx]
    · intro x i hx hin; rw [c9, a11]; simp [ne x hx, hin]
    · intro b x hx
      rw [c8, a9]
      have : b ≠ s.next := by intro h; rw [h, f3] at hx; simp at hx
      simp [this, hx]
    · intro k d x hx
      have hd : d ≠ s.next := by intro h; rw [h, f4 k] at hx; simp at hx
      show x ∈ (sA.chSet ks dv (Ring.add (sA.chGet ks dv) s.next)).chGet k d
      rw [chGet_chSet]
      split
      · rename_i h
        apply (Ring.mem_add _ _).mpr
        left
        rw [alloc_chGet]
        simp only [hdn, if_false]
        rw [chGet_slot s ks, ← h.1, ← chGet_slot, ← h.2]
        exact hx
      · rw [alloc_chGet]; simp only [hd, if_false]; exact hx
  refine ⟨hL, hg, ⟨by rw [c1, a1], by rw [c11, a3], by rw [c10, a2], ?_, ?_, ?_, ?_, ?_, ?_⟩, hLchN, ?_⟩
  · intro x; rw [c3, a5]
  · intro x; rw [c2, a6]
  · intro x; rw [c7, a7]
  · intro x; rw [c9, a11]
  · intro x; rw [c5, a10]
  · intro x; rw [c6, a8]
  · intro x; rw [c8, a9]

/-- `new memory(modeBuffer, ...)` + `modeBuffer->addModeMemoryRef(this)` -/
theorem mem_link {s : St} (hi : Inv00 E s) {b : Nat} (hba : s.alive b = true)
    (hbk : s.kind b = .buf ∨ s.kind b = .pool) (hnin : ∀ p, s.alive p = true → s.inner p ≠ some b) (sz : Nat) :
    let sA := (s.alloc .mem (some b) sz).1
    let sL := sA.setKids b (Ring.add (sA.kids b) s.next)
    Inv00 E sL ∧ Grow s sL ∧ NewObj s sL .mem (some b) ∧ s.next ∈ sL.kids b := by
  intro sA sL
  obtain ⟨a1, a2, a3, a4, a5, a6, a7, a8, a9, a10, a11⟩ := alloc_fields s .mem (some b) sz
  obtain ⟨f1, f2, f3, f4, f5, f6, f7, f8⟩ := hi.fresh (Nat.le_refl s.next)
  have hbn : b ≠ s.next := by intro h; rw [h, f1] at hba; cases hba
  have hA : Inv00 E sA := hi.alloc_only .mem (some b) sz
  have hL : Inv00 E sL := by
    apply hA.link_kids (by rw [a5]; simp) (by rw [a6]; simp) (by rw [a7]; simp) (by rw [a5]; simp [hbn, hba])
      (by rw [a6]; simp [hbn]; exact hbk)
    intro p hpa hin
    rw [a11] at hin
    rw [a5] at hpa
    split at hin
    · cases hin
    · rename_i hp
      simp only [hp, if_false] at hpa
      exact hnin p hpa hin
  have hkids : ∀ x, sL.kids x = if x = b then Ring.add (sA.kids b) s.next else sA.kids x := fun x => rfl
  have hch : ∀ k d, sL.chGet k d = sA.chGet k d := by intro k d; cases k <;> rfl
  have hg : Grow s sL := by
    have ne : ∀ x, x < s.next → x ≠ s.next := fun x hx => by omega
    refine ⟨?_, ?_, ?_, ?_, ?_, ?_, ?_, ?_⟩
    · intro x hx; show sA.alive x = _; rw [a5]; simp [ne x hx]
    · intro x hx; show sA.kind x = _; rw [a6]; simp [ne x hx]
    · intro x hx; show sA.par x = _; rw [a7]; simp [ne x hx]
    · intro x hx; show sA.ring x = _; rw [a8]; simp [ne x hx]
    · intro x hx; show sA.useRefs x = _; rw [a10]; simp [ne x hx]
    · intro x i hx hin; show sA.inner x = _; rw [a11]; simp [ne x hx, hin]
    · intro b' x hx
      have hb' : b' ≠ s.next := by intro h; rw [h, f3] at hx; simp at hx
      rw [hkids]
      split
      · rename_i h
        apply (Ring.mem_add _ _).mpr
        left
        rw [a9]; simp only [hbn, if_false]
        rw [← h]; exact hx
      · rw [a9]; simp only [hb', if_false]; exact hx
    · intro k d x hx
      have hd : d ≠ s.next := by intro h; rw [h, f4 k] at hx; simp at hx
      rw [hch, alloc_chGet]; simp only [hd, if_false]; exact hx
  refine ⟨hL, hg, ⟨a1, a3, a2, a5, a6, a7, a11, a10, a8⟩, ?_⟩
  rw [hkids]
  simp only [if_true]
  exact (Ring.mem_add _ _).mpr (Or.inr rfl)

theorem Inv00.addBytes {s : St} (hi : Inv00 E s) (d : Nat) (n : Int) : Inv00 E (s.addBytes d n) := by
  have hch : ∀ k d', (s.addBytes d n).chGet k d' = s.chGet k d' := by intro k d'; cases k <;> rfl
  refine ⟨hi.notrap, hi.alive_lt, hi.dtors_eq, hi.ptr_ok, hi.ptr_live, hi.ring_ptr, hi.ring_nodup, hi.ex_out,
    hi.cur_lt, hi.kids_ok, hi.kids_nodup, ?_, ?_, ?_, hi.inner_inj⟩
  · intro k d' c hc; rw [hch] at hc; exact hi.ch_ok k d' c hc
  · intro k d'; rw [hch]; exact hi.ch_nodup k d'
  · intro p i hpa hin
    obtain ⟨q1, q2, q3, q4, q5, q6⟩ := hi.inner_ok p i hpa hin
    exact ⟨q1, q2, q3, q4, q5, fun k d' hx => q6 k d' (by rw [hch] at hx; exact hx)⟩

theorem Grow.addBytes (s : St) (d : Nat) (n : Int) : Grow s (s.addBytes d n) := by
  refine ⟨fun _ _ => rfl, fun _ _ => rfl, fun _ _ => rfl, fun _ _ => rfl, fun _ _ => rfl,
    fun _ _ _ h => h, fun _ _ h => h, ?_⟩
  intro k d' x hx; cases k <;> exact hx

end Occa.Gc
