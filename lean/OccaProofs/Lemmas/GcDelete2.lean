/-
Destruction of one object, of the slices of a buffer, of a buffer / pool.
-/
import OccaProofs.Lemmas.GcDelete

namespace Occa.Gc

/-- closed form of "destructor entry; NULL all wrappers" -/
def killForm (s : St) (o : Nat) : St :=
  { s with alive := upd s.alive o false, dtors := upd s.dtors o (s.dtors o + 1),
           ring := upd s.ring o [], ptr := fun v => if v ∈ s.ring o then none else s.ptr v }

theorem died_eq {s : St} {o : Nat} (ha : s.alive o = true) :
    s.died o = { s with alive := upd s.alive o false, dtors := upd s.dtors o (s.dtors o + 1) } := by
  simp [St.died, ha]

theorem kill1_eq {s : St} {o : Nat} (ha : s.alive o = true) (hn : (s.ring o).Nodup) :
    nullWrappers ((s.died o).ring o).length (s.died o) o = killForm s o := by
  rw [nullWrappers_eq o _ _ rfl (by rw [died_eq ha]; exact hn), died_eq ha]
  rfl

theorem died_eq_killForm {s : St} {o : Nat} (ha : s.alive o = true) (hr : s.ring o = []) :
    s.died o = killForm s o := by
  rw [died_eq ha]
  apply St.ext
  all_goals first | rfl | skip
  · funext x; by_cases hx : x = o <;> simp [killForm, upd_apply, hx, hr]
  · funext v; simp [killForm, hr]

@[simp] theorem killForm_chGet (s : St) (o : Nat) (k : Kind) (d : Nat) :
    (killForm s o).chGet k d = s.chGet k d := by cases k <;> rfl

theorem killForm_killed {s : St} {o : Nat} : Killed s [o] (killForm s o) := by
  constructor
  any_goals rfl
  · intro x
    by_cases hx : x = o <;> simp [killForm, upd_apply, hx]
  · intro x
    by_cases hx : x = o
    · subst hx; simp [killForm]
    · have : ¬ (o = x) := fun h => hx h.symm
      simp [killForm, upd_apply, hx, this]
  · intro x
    by_cases hx : x = o <;> simp [killForm, upd_apply, hx]
  · intro v x hx hv
    have : x = o := by simpa using hx
    subst this
    simp [killForm, hv]
  · intro v hv
    have : v ∉ s.ring o := hv o (by simp)
    simp [killForm, this]
  · intro x _ _; rfl
  · intro b x hx; exact hx
  · intro b x hx _ _ _; exact hx
  · intro b hb; exact hb
  · intro k d x hx; simpa using hx
  · intro k d x hx _ _ _; simpa using hx
  · intro k d hd; simpa using hd

/-- `~modeBuffer_t`'s loop over the slices -/
theorem destroySlices_killed (b : Nat) : ∀ (n : Nat) (s : St), (s.kids b).length = n → (s.kids b).Nodup →
    (∀ m ∈ s.kids b, s.alive m = true ∧ (s.ring m).Nodup) →
    (Killed s (s.kids b) (destroySlices n s b) ∧ (destroySlices n s b).kids b = []
      ∧ (∀ x, x ∉ s.kids b → (destroySlices n s b).par x = s.par x)
      ∧ (∀ x, x ≠ b → (destroySlices n s b).kids x = s.kids x)) := by
  intro n
  induction n with
  | zero =>
    intro s hl _ _
    have h0 : s.kids b = [] := List.length_eq_zero_iff.mp hl
    unfold destroySlices
    rw [h0]
    exact ⟨Killed.refl s, rfl, fun _ _ => rfl, fun _ _ => rfl⟩
  | succ n ih =>
    intro s hl hn hk
    match hr : s.kids b, hl with
    | [], hl => simp at hl
    | m :: t, hl =>
      have hn' : (m :: t).Nodup := hr ▸ hn
      let s1 : St := (s.setKids b (Ring.remove (s.kids b) m)).setPar m none
      have hstep : destroySlices (n+1) s b = destroySlices n (dtorMemBody s1 m) b := by
        conv => lhs; unfold destroySlices
        simp only [hr, s1]
      have hm : s.alive m = true ∧ (s.ring m).Nodup := hk m (by rw [hr]; simp)
      have h2 : dtorMemBody s1 m = killForm s1 m := kill1_eq (s := s1) hm.1 hm.2
      have hpe : PreEdit s s1 [m] :=
        (preEdit_setKids_remove b m hn (Or.inl (by simp))).trans (preEdit_setPar m none (Or.inl (by simp)))
      have hk1 : Killed s [m] (killForm s1 m) := Killed.pre_edit hpe killForm_killed
      have hkids2 : (killForm s1 m).kids b = Ring.remove (m :: t) m := by
        simp [killForm, s1, St.setPar, St.setKids, hr]
      have hlen : (Ring.remove (m :: t) m).length = n := by
        rw [Ring.remove_head_length]; simpa using hl
      have hmem : ∀ x, x ∈ Ring.remove (m :: t) m ↔ x ∈ t ∧ x ≠ m := by
        intro x
        rw [Ring.mem_remove hn']
        constructor
        · rintro ⟨h1, h2⟩
          refine ⟨?_, h2⟩
          rcases List.mem_cons.mp h1 with h | h
          · exact absurd h h2
          · exact h
        · rintro ⟨h1, h2⟩
          exact ⟨List.mem_cons_of_mem _ h1, h2⟩
      obtain ⟨i1, i2, i3, i4⟩ := ih (killForm s1 m) (by rw [hkids2]; exact hlen)
        (by rw [hkids2]; exact Ring.nodup_remove hn' m)
        (by
          intro x hx
          rw [hkids2] at hx
          obtain ⟨hx1, hx2⟩ := (hmem x).mp hx
          have hxk := hk x (by rw [hr]; exact List.mem_cons_of_mem _ hx1)
          constructor
          · simpa [killForm, s1, St.setPar, St.setKids, upd_apply, hx2] using hxk.1
          · simpa [killForm, s1, St.setPar, St.setKids, upd_apply, hx2] using hxk.2)
      rw [hstep, h2]
      refine ⟨?_, i2, ?_, ?_⟩
      · have := hk1.trans i1
        rw [hkids2] at this
        refine Killed.perm ?_ this
        have hp := Ring.remove_perm_erase (m :: t) m
        rw [List.erase_cons_head] at hp
        simpa using List.Perm.cons m hp
      · intro x hx
        have hxm : x ≠ m := fun h => hx (by rw [h]; simp)
        have hxt : x ∉ (killForm s1 m).kids b := by
          rw [hkids2]
          intro h
          exact hx (List.mem_cons_of_mem _ ((hmem x).mp h).1)
        rw [i3 x hxt]
        simp [killForm, s1, St.setPar, St.setKids, upd_apply, hxm]
      · intro x hx
        rw [i4 x hx]
        simp [killForm, s1, St.setPar, St.setKids, upd_apply, hx]

end Occa.Gc
