/-
`deleteBuf` keeps the invariant; `deleteChild` (kernel / stream).
-/
import OccaProofs.Lemmas.GcDelete4

namespace Occa.Gc

/-- the members of `bufK` and their classes -/
theorem bufK_cases {ex : Var → Prop} {s : St} {b x : Nat} (hi : Inv00 ex s) (ha : s.alive b = true)
    (hx : x ∈ bufK s b) :
    x = b ∨ (s.kind b = .pool ∧ s.inner b = some x ∧ s.kind x = .buf ∧ s.alive x = true ∧ s.kids x = [])
      ∨ (x ∈ s.kids b ∧ s.kind x = .mem ∧ s.alive x = true) := by
  rcases (mem_bufK s b x).mp hx with h | ⟨h1, h2⟩ | h
  · exact Or.inl h
  · obtain ⟨_, q2, q3, q4, _, _⟩ := hi.inner_ok b x ha h2
    exact Or.inr (Or.inl ⟨h1, h2, q3, q2, q4⟩)
  · exact Or.inr (Or.inr ⟨h, (hi.kids_ok b x h).2.1, (hi.kids_ok b x h).1⟩)

theorem bufK_nodup {ex : Var → Prop} {s : St} {b : Nat} (hi : Inv00 ex s) (ha : s.alive b = true)
    (hk : s.kind b = .buf ∨ s.kind b = .pool) : (bufK s b).Nodup := by
  have hbk : b ∉ s.kids b := by
    intro h
    have := (hi.kids_ok b b h).2.1
    rcases hk with h1 | h1 <;> rw [h1] at this <;> cases this
  unfold bufK
  by_cases hp : s.kind b = .pool
  · cases hin : s.inner b with
    | none =>
      simp only [hp, if_true, hin, Option.toList_none, List.append_nil, List.singleton_append,
        List.nodup_cons]
      exact ⟨hbk, hi.kids_nodup b⟩
    | some i =>
      obtain ⟨_, _, q3, _, _, _⟩ := hi.inner_ok b i ha hin
      have hib : i ≠ b := by intro h; rw [h, hp] at q3; cases q3
      have hik : i ∉ s.kids b := by
        intro h; have := (hi.kids_ok b i h).2.1; rw [q3] at this; cases this
      simp only [hp, if_true, hin, Option.toList_some, List.singleton_append, List.cons_append,
        List.nil_append, List.nodup_cons, List.mem_cons, not_or]
      exact ⟨⟨fun h => hib h.symm, hbk⟩, hik, hi.kids_nodup b⟩
  · simp only [hp, if_false, List.append_nil, List.singleton_append, List.nodup_cons]
    exact ⟨hbk, hi.kids_nodup b⟩

theorem bufK_closed {ex : Var → Prop} {s : St} {b : Nat} (hi : Inv00 ex s) (ha : s.alive b = true)
    (hk : s.kind b = .buf ∨ s.kind b = .pool) (hni : ∀ p, s.alive p = true → s.inner p ≠ some b) :
    Closed s (bufK s b) := by
  have hcase := fun x hx => bufK_cases (x := x) hi ha hx
  refine ⟨⟨bufK_nodup hi ha hk, ?_, ?_, ?_, ?_, ?_⟩, ?_⟩
  · intro o ho
    rcases hcase o ho with h | ⟨_, _, _, h, _⟩ | ⟨_, _, h⟩
    · rw [h]; exact ha
    · exact h
    · exact h
  · intro o ho m hm
    rcases hcase o ho with h | ⟨_, _, _, _, h⟩ | ⟨_, h, _⟩
    · subst h; exact (mem_bufK s o m).mpr (Or.inr (Or.inr hm))
    · rw [h] at hm; simp at hm
    · have := (hi.kids_kind hm).2
      rw [h] at this
      rcases this with h' | h' <;> cases h'
  · intro p hp i hin
    rcases hcase p hp with h | ⟨_, _, h1, h2, _⟩ | ⟨_, h1, h2⟩
    · subst h
      have := (hi.inner_ok p i ha hin).1
      exact (mem_bufK s p i).mpr (Or.inr (Or.inl ⟨this, hin⟩))
    · have := (hi.inner_ok p i h2 hin).1
      rw [h1] at this; cases this
    · have := (hi.inner_ok p i h2 hin).1
      rw [h1] at this; cases this
  · intro d hd k c hc
    have hdk := (hi.ch_ok k d c hc).2.2.2.2.2.2
    rcases hcase d hd with h | ⟨_, _, h1, _, _⟩ | ⟨_, h1, _⟩
    · subst h
      rcases hk with h' | h' <;> rw [h'] at hdk <;> cases hdk
    · rw [h1] at hdk; cases hdk
    · rw [h1] at hdk; cases hdk
  · intro p i hpa hin hiK
    rcases hcase i hiK with h | ⟨_, h1, _, _, _⟩ | ⟨_, h1, _⟩
    · subst h; exact absurd hin (hni p hpa)
    · have := hi.inner_inj p b i hpa ha hin h1
      rw [this]; exact (mem_bufK s b b).mpr (Or.inl rfl)
    · have := (hi.inner_ok p i hpa hin).2.2.1
      rw [h1] at this; cases this
  · intro b' hb'a hb'k hb'K hne
    obtain ⟨m, hm⟩ := List.exists_mem_of_ne_nil _ hne
    refine ⟨m, hm, ?_⟩
    intro hmK
    have hmk := (hi.kids_ok b' m hm)
    rcases hcase m hmK with h | ⟨_, _, h1, _, _⟩ | ⟨h1, _, _⟩
    · subst h
      rcases hk with h' | h' <;> rw [h'] at hmk <;> cases hmk.2.1
    · rw [h1] at hmk; cases hmk.2.1
    · have e1 := (hi.kids_ok b m h1).2.2.1
      rw [hmk.2.2.1] at e1
      cases e1
      exact hb'K ((mem_bufK _ _ _).mpr (Or.inl rfl))

theorem deleteBuf_purged {ex : Var → Prop} {s : St} {b : Nat} (hi : Inv00 ex s) (ha : s.alive b = true)
    (hk : s.kind b = .buf ∨ s.kind b = .pool) {d : Nat} (hp : s.par b = some d) (hda : s.alive d = true)
    (hdk : s.kind d = .dev) :
    Purged (deleteBuf s b) (bufK s b) ∧ Emptied (deleteBuf s b) (bufK s b) := by
  obtain ⟨hkil, hk0, hnb⟩ := deleteBuf_core hi ha hk hp hda hdk
  have hcase := fun x hx => bufK_cases (x := x) hi ha hx
  have hkb : s.kind b ≠ .mem := by rcases hk with h | h <;> rw [h] <;> decide
  have hslot : slot (s.kind b) = .buf := by rcases hk with h | h <;> rw [h] <;> rfl
  refine ⟨⟨?_, ?_⟩, ?_⟩
  · intro b' x hx hxK
    have hx0 := hkil.kidsS b' x hx
    have hxk := hi.kids_ok b' x hx0
    rcases hcase x hxK with h | ⟨_, _, h1, _, _⟩ | ⟨h1, _, _⟩
    · subst h; exact hkb hxk.2.1
    · rw [h1] at hxk; cases hxk.2.1
    · have e1 := (hi.kids_ok b x h1).2.2.1
      rw [hxk.2.2.1] at e1
      cases e1
      rw [hk0] at hx
      simp at hx
  · intro k d' x hx hxK
    have hx0 := hkil.chS k d' x hx
    have hxk := hi.ch_ok k d' x hx0
    rcases hcase x hxK with h | ⟨_, h1, _, _, _⟩ | ⟨_, h1, _⟩
    · subst h
      have e1 := hxk.2.1
      rw [hp] at e1
      cases e1
      have e2 : slot k = .buf := by rw [← hxk.2.2.1]; exact hslot
      rw [chGet_slot, e2] at hx
      exact hnb hx
    · exact (hi.inner_ok b x ha h1).2.2.2.2.2 k d' hx0
    · exact hxk.2.2.2.2.1 h1
  · intro o ho
    constructor
    · apply List.eq_nil_iff_forall_not_mem.mpr
      intro m hm
      have hm0 := hkil.kidsS o m hm
      rcases hcase o ho with h | ⟨_, _, _, _, h1⟩ | ⟨_, h1, _⟩
      · subst h; rw [hk0] at hm; simp at hm
      · rw [h1] at hm0; simp at hm0
      · have := (hi.kids_kind hm0).2
        rw [h1] at this
        rcases this with h' | h' <;> cases h'
    · intro k
      apply List.eq_nil_iff_forall_not_mem.mpr
      intro c hc
      have hdk := (hi.ch_ok k o c (hkil.chS k o c hc)).2.2.2.2.2.2
      rcases hcase o ho with h | ⟨_, _, h1, _, _⟩ | ⟨_, h1, _⟩
      · subst h
        rcases hk with h' | h' <;> rw [h'] at hdk <;> cases hdk
      · rw [h1] at hdk; cases hdk
      · rw [h1] at hdk; cases hdk

/-- deleting a buffer or pool (which is not the inner buffer of a pool) keeps the invariant -/
theorem InvX.del_buf {ex : Var → Prop} {s : St} {b : Nat} (hi : InvX ex s) (ha : s.alive b = true)
    (hk : s.kind b = .buf ∨ s.kind b = .pool) (hni : ∀ p, s.alive p = true → s.inner p ≠ some b) :
    InvX ex (deleteBuf s b) ∧ Killed s (bufK s b) (deleteBuf s b) := by
  have hkd : s.kind b ≠ .dev := by rcases hk with h | h <;> rw [h] <;> decide
  have hkm : s.kind b ≠ .mem := by rcases hk with h | h <;> rw [h] <;> decide
  obtain ⟨d, hp, hda, hdk, _⟩ := hi.ch_par b ha hkd hkm
  obtain ⟨hkil, _, _⟩ := deleteBuf_core hi.toInv00 ha hk hp hda hdk
  obtain ⟨h1, h2⟩ := deleteBuf_purged hi.toInv00 ha hk hp hda hdk
  exact ⟨hi.killed hkil (bufK_closed hi.toInv00 ha hk hni) h1 h2, hkil⟩

end Occa.Gc
