import OccaProofs.Lemmas.PrimInt
namespace Occa.Prim.Lemmas
open Occa Occa.CExpr Occa.CxxSem Occa.Gen Occa.Prim

/-- the operators whose operands undergo the usual arithmetic conversions -/
def BinOp.isConv : BinOp → Bool
  | .shl | .shr | .land | .lor => false
  | _ => true

def BinOp.isBit : BinOp → Bool
  | .band | .bxor | .bor => true
  | _ => false

/-! ### facts about the generated tables -/

theorem binRet_conv {op : BinOp} (h : BinOp.isConv op = true ∨ op = .land ∨ op = .lor) : binRet op = .maxType := by
  cases op <;> simp_all [BinOp.isConv] <;> rfl

theorem binRet_shift {op : BinOp} (h : op = .shl ∨ op = .shr) : binRet op = .leftUnlessRightFloat := by
  rcases h with rfl | rfl <;> rfl

theorem binRow_conv {op : BinOp} {t : Ty} (h : BinOp.isConv op = true ∨ op = .land ∨ op = .lor) (ht : Reach t)
    (hb : ¬ (BinOp.isBit op = true ∧ t = .bool)) : binRow op t = .compute op t t := by
  rcases ht with rfl | rfl | rfl | rfl | rfl <;> cases op <;> simp_all [BinOp.isConv, BinOp.isBit] <;> rfl

theorem binRow_shift {op : BinOp} {t : Ty} (h : op = .shl ∨ op = .shr) (ht : Reach t) :
    binRow op t = .compute op t .long := by
  rcases ht with rfl | rfl | rfl | rfl | rfl <;> rcases h with rfl | rfl <;> rfl

theorem unRow_native {op : UnOp} {t : Ty} (ht : Reach t) (hb : ¬ (op = .bnot ∧ t = .bool)) :
    unRow op t = .native op := by
  rcases ht with rfl | rfl | rfl | rfl | rfl <;> cases op <;> simp_all <;> rfl


/-! ### conversions done by `to<T>()` -/

theorem toT_ofVal {t : Ty} {a : Val} (ha : a.ty.isFloat = false) : toT t (Prim.ofVal a) = .ok (cvt t a) := by
  simp [toT, Prim.ofVal, ha]

theorem retType_max {op : BinOp} (h : binRet op = .maxType) (a b : Val) :
    retType op (Prim.ofVal a) (Prim.ofVal b) = some (maxTy a.ty b.ty) := by
  simp only [retType, h, rankOf, Prim.ofVal, maxTy]
  by_cases hc : primRank a.ty > primRank b.ty <;> simp [hc]

theorem retType_shift {op : BinOp} (h : binRet op = .leftUnlessRightFloat) (a b : Val) (hb : b.ty.isFloat = false) :
    retType op (Prim.ofVal a) (Prim.ofVal b) = some a.ty := by
  simp [retType, h, Prim.ofVal, hb]

theorem maxTy_bool {a b : Ty} (ha : Reach a) (hb : Reach b) (h : maxTy a b = .bool) : a = .bool ∧ b = .bool := by
  rcases ha with rfl | rfl | rfl | rfl | rfl <;> rcases hb with rfl | rfl | rfl | rfl | rfl <;> revert h <;> decide

theorem binop_conv_eq {op : BinOp} (h : BinOp.isConv op = true) (a b : Val) :
    binop op a b =
      if (common a.ty b.ty).isFloat then floatBin op (common a.ty b.ty) (cvt (common a.ty b.ty) a).v (cvt (common a.ty b.ty) b).v
      else intBin op (common a.ty b.ty) (cvt (common a.ty b.ty) a).v (cvt (common a.ty b.ty) b).v := by
  cases op <;> simp_all [BinOp.isConv, binop]

theorem cvt_ty_int {t : Ty} (a : Val) (ha : a.ty.isFloat = false) (ht : t.isFloat = false) : (cvt t a).ty = t := by
  rw [cvt_int a ha ht]

/-- applying a C++ operator after converting both operands to occa's max-rank type gives what the
    operator gives on the unconverted operands -/
theorem binop_maxTy {op : BinOp} (h : BinOp.isConv op = true) {a b : Val} (ha : Good a) (hb : Good b) :
    binop op (cvt (maxTy a.ty b.ty) a) (cvt (maxTy a.ty b.ty) b) = binop op a b := by
  have hT := (maxTy_reach ha.1 hb.1).notFloat
  rw [binop_conv_eq h, binop_conv_eq h, cvt_ty_int a ha.1.notFloat hT, cvt_ty_int b hb.1.notFloat hT,
    common_maxTy ha.1 hb.1, cvt_common_maxTy_left ha hb, cvt_common_maxTy_right ha hb]


theorem intBin_divmod_val {op : BinOp} (hop : op = .div ∨ op = .mod) {t : Ty} {x y : Int} {r : Val}
    (h : intBin op t x y = .val r) : y ≠ 0 ∧ ¬ (t.signed = true ∧ x = t.minVal ∧ y = -1) := by
  rcases hop with rfl | rfl <;> simp only [intBin] at h <;>
    (split at h; · cases h) <;> (split at h; · cases h) <;> exact ⟨by assumption, by assumption⟩

theorem checkDiv_ok {op : BinOp} (hop : op = .div ∨ op = .mod) {a b r : Val} (ha : Good a) (hb : Good b)
    (hr : binop op a b = .val r) :
    checkIntegerDivision (Prim.ofVal a) (Prim.ofVal b) (maxTy a.ty b.ty) = .ok () := by
  have hconv : BinOp.isConv op = true := by rcases hop with rfl | rfl <;> rfl
  rw [binop_conv_eq hconv, (common_reach ha.1 hb.1).1.notFloat] at hr
  obtain ⟨h1, h2⟩ := intBin_divmod_val hop hr
  clear hr
  obtain ⟨ta, x⟩ := a
  obtain ⟨tb, y⟩ := b
  obtain ⟨hta, hx⟩ := ha
  obtain ⟨htb, hy⟩ := hb
  simp only at hta htb hx hy h1 h2
  rcases hta with rfl | rfl | rfl | rfl | rfl <;> rcases htb with rfl | rfl | rfl | rfl | rfl <;>
    simp [common, Ty.promote, Ty.signed, Ty.crank, Ty.bits, cvt, Ty.isFloat, Ty.minVal, p31, p63] at h1 h2 <;>
    simp [checkIntegerDivision, toT, Prim.ofVal, maxTy, primRank, cvt, Ty.isFloat, Outcome.bind, Ty.minVal, Ty.signed, Ty.bits, p31, p63] <;>
    (first | rw [inRange_bool] at hx | rw [inRange_int] at hx | rw [inRange_uint] at hx | rw [inRange_long] at hx | rw [inRange_ulong] at hx) <;>
    (first | rw [inRange_bool] at hy | rw [inRange_int] at hy | rw [inRange_uint] at hy | rw [inRange_long] at hy | rw [inRange_ulong] at hy) <;>
    (try split) <;> (try split) <;> first | rfl | omega | (exfalso; omega)


/-- arithmetic, relational and bitwise operators: occa's `switch(retType)` row computes the C++ result -/
theorem binary_conv {op : BinOp} (h : BinOp.isConv op = true) {a b r : Val} (ha : Good a) (hb : Good b)
    (hbit : ¬ (BinOp.isBit op = true ∧ a.ty = .bool ∧ b.ty = .bool)) (hr : binop op a b = .val r) :
    binary op (Prim.ofVal a) (Prim.ofVal b) = .ok (Prim.ofVal r) := by
  have hT := maxTy_reach ha.1 hb.1
  have hrow : binRow op (maxTy a.ty b.ty) = .compute op (maxTy a.ty b.ty) (maxTy a.ty b.ty) :=
    binRow_conv (Or.inl h) hT (fun ⟨h1, h2⟩ => hbit ⟨h1, maxTy_bool ha.1 hb.1 h2⟩)
  have hguard : (if divGuard = true ∧ (op = .div ∨ op = .mod) then
        checkIntegerDivision (Prim.ofVal a) (Prim.ofVal b) (maxTy a.ty b.ty) else Outcome.ok ()) = .ok () := by
    split
    · rename_i hc; exact checkDiv_ok hc.2 ha hb hr
    · rfl
  have hl : op ≠ .land := by intro hh; subst hh; cases h
  have ho : op ≠ .lor := by intro hh; subst hh; cases h
  unfold binary
  rw [retType_max (binRet_conv (Or.inl h))]
  simp only [hguard, hrow, Outcome.bind, toT_ofVal ha.1.notFloat, toT_ofVal hb.1.notFloat, hl, ho, false_and, if_false,
    binop_maxTy h ha hb, hr, ofHost]


theorem cvt_self {a : Val} (ha : Good a) : cvt a.ty a = a := by
  rw [cvt_int a ha.1.notFloat ha.1.notFloat, wrapTo_id ha.1 ha.2]

theorem shift_val_count {l : Bool} {t : Ty} {x c : Int} {r : Val} (h : shift l t x c = .val r) :
    0 ≤ c ∧ c < t.bits := by
  unfold shift at h
  split at h
  · cases h
  · omega

theorem bits_le_64 (t : Ty) : (t.bits : Int) ≤ 64 := by cases t <;> simp [Ty.bits]

theorem binop_shift_eq {op : BinOp} (h : op = .shl ∨ op = .shr) (a b : Val) (ha : a.ty.isFloat = false) (hb : b.ty.isFloat = false) :
    binop op a b = shift (op == .shl) a.ty.promote (cvt a.ty.promote a).v b.v := by
  rcases h with rfl | rfl <;> simp [binop, ha, hb]

/-- `<<` and `>>`: the row of the LEFT operand's type with the count converted to int64_t -/
theorem binary_shift {op : BinOp} (h : op = .shl ∨ op = .shr) {a b r : Val} (ha : Good a) (hb : Good b)
    (hr : binop op a b = .val r) :
    binary op (Prim.ofVal a) (Prim.ofVal b) = .ok (Prim.ofVal r) := by
  have hrow : binRow op a.ty = .compute op a.ty .long := binRow_shift h ha.1
  have hg : ¬ (divGuard = true ∧ (op = .div ∨ op = .mod)) := by rcases h with rfl | rfl <;> simp
  have hl : op ≠ .land := by rcases h with rfl | rfl <;> simp
  have ho : op ≠ .lor := by rcases h with rfl | rfl <;> simp
  have hfa := ha.1.notFloat
  have hfb := hb.1.notFloat
  rw [binop_shift_eq h a b hfa hfb] at hr
  have hc := shift_val_count hr
  have hb64 := bits_le_64 a.ty.promote
  have hcount : (cvt .long b).v = b.v := by
    rw [cvt_int b hfb rfl]; simp only [wrapTo_long]; omega
  have hlt : (cvt .long b).ty = .long := cvt_ty_int b hfb rfl
  unfold binary
  rw [retType_shift (binRet_shift h) a b hfb]
  simp only [hg, if_false, hrow, Outcome.bind, toT_ofVal hfa, toT_ofVal hfb, hl, ho, false_and, cvt_self ha]
  rw [binop_shift_eq h a (cvt .long b) hfa (by rw [hlt]; rfl), hcount, hr]
  simp [ofHost]


theorem truth_int {a : Val} (ha : a.ty.isFloat = false) : truth a = decide (a.v ≠ 0) := by
  obtain ⟨t, x⟩ := a
  cases t <;> simp_all [truth, Ty.isFloat]

/-- widening to the max-rank type keeps zero / non-zero -/
theorem truth_cvt_maxTy_left {a b : Val} (ha : Good a) (hb : Good b) : truth (cvt (maxTy a.ty b.ty) a) = truth a := by
  have hT := (maxTy_reach ha.1 hb.1).notFloat
  rw [truth_int (by rw [cvt_ty_int a ha.1.notFloat hT]; exact hT), truth_int ha.1.notFloat, cvt_int a ha.1.notFloat hT]
  obtain ⟨ta, x⟩ := a
  obtain ⟨tb, y⟩ := b
  obtain ⟨hta, hx⟩ := ha
  obtain ⟨htb, _⟩ := hb
  simp only at hta htb hx ⊢
  rcases hta with rfl | rfl | rfl | rfl | rfl <;> rcases htb with rfl | rfl | rfl | rfl | rfl <;>
    simp [maxTy, primRank] <;>
    (first | rw [inRange_bool] at hx | rw [inRange_int] at hx | rw [inRange_uint] at hx | rw [inRange_long] at hx | rw [inRange_ulong] at hx) <;>
    omega

theorem truth_cvt_maxTy_right {a b : Val} (ha : Good a) (hb : Good b) : truth (cvt (maxTy a.ty b.ty) b) = truth b := by
  have hT := (maxTy_reach ha.1 hb.1).notFloat
  rw [truth_int (by rw [cvt_ty_int b hb.1.notFloat hT]; exact hT), truth_int hb.1.notFloat, cvt_int b hb.1.notFloat hT]
  obtain ⟨ta, x⟩ := a
  obtain ⟨tb, y⟩ := b
  obtain ⟨hta, _⟩ := ha
  obtain ⟨htb, hy⟩ := hb
  simp only at hta htb hy ⊢
  rcases hta with rfl | rfl | rfl | rfl | rfl <;> rcases htb with rfl | rfl | rfl | rfl | rfl <;>
    simp [maxTy, primRank] <;>
    (first | rw [inRange_bool] at hy | rw [inRange_int] at hy | rw [inRange_uint] at hy | rw [inRange_long] at hy | rw [inRange_ulong] at hy) <;>
    omega

/-- primitive::and_ on two evaluated operands -/
theorem binary_land {a b : Val} (ha : Good a) (hb : Good b) :
    binary .land (Prim.ofVal a) (Prim.ofVal b) = .ok (Prim.ofVal (ofBool (truth a && truth b))) := by
  have hT := maxTy_reach ha.1 hb.1
  have hrow : binRow .land (maxTy a.ty b.ty) = .compute .land (maxTy a.ty b.ty) (maxTy a.ty b.ty) :=
    binRow_conv (Or.inr (Or.inl rfl)) hT (by simp [BinOp.isBit])
  unfold binary
  rw [retType_max (binRet_conv (Or.inr (Or.inl rfl)))]
  simp only [hrow, Outcome.bind, toT_ofVal ha.1.notFloat, toT_ofVal hb.1.notFloat, truth_cvt_maxTy_left ha hb]
  cases hta : truth a <;> simp [binop, ofHost, truth_cvt_maxTy_left ha hb, truth_cvt_maxTy_right ha hb, hta]

/-- primitive::or_ on two evaluated operands -/
theorem binary_lor {a b : Val} (ha : Good a) (hb : Good b) :
    binary .lor (Prim.ofVal a) (Prim.ofVal b) = .ok (Prim.ofVal (ofBool (truth a || truth b))) := by
  have hT := maxTy_reach ha.1 hb.1
  have hrow : binRow .lor (maxTy a.ty b.ty) = .compute .lor (maxTy a.ty b.ty) (maxTy a.ty b.ty) :=
    binRow_conv (Or.inr (Or.inr rfl)) hT (by simp [BinOp.isBit])
  unfold binary
  rw [retType_max (binRet_conv (Or.inr (Or.inr rfl)))]
  simp only [hrow, Outcome.bind, toT_ofVal ha.1.notFloat, toT_ofVal hb.1.notFloat, truth_cvt_maxTy_left ha hb]
  cases hta : truth a <;> simp [binop, ofHost, truth_cvt_maxTy_left ha hb, truth_cvt_maxTy_right ha hb, hta]

/-- unary operators: the row of the operand's type applies the same C++ operator to the stored value -/
theorem unary_agree {op : UnOp} {a r : Val} (ha : Good a) (hb : ¬ (op = .bnot ∧ a.ty = .bool))
    (hr : unop op a = .val r) : unary op (Prim.ofVal a) = .ok (Prim.ofVal r) := by
  unfold unary
  simp only [Prim.ofVal, unRow_native ha.1 hb]
  have : (⟨a.ty, a.v⟩ : Val) = a := rfl
  rw [this, hr]; rfl

end Occa.Prim.Lemmas
