/-
The exact hash_t model satisfies the side conditions of the key theorems: getFullString is
injective on well-formed hashes, xor with a constant is an involution (so the OpenMP constant is
an injective step), hashes of strings are well-formed.  This packages the exact model as an
`Env` over well-formed hashes (`exactEnvW`).
-/
import OccaModel.CacheKeyExact
import OccaProofs.Props.C27
import OccaProofs.Lemmas.JsonDump

namespace Occa.CacheKey
open Occa Occa.Hash Occa.Gen

/-! ### 32-bit lanes -/

theorem bmod32 (x : Int) (h : -2147483648 ≤ x ∧ x < 2147483648) : x.bmod (2 ^ 32) = x := by
  have : (2 ^ 32 : Nat) = 4294967296 := by decide
  rw [this]
  unfold Int.bmod
  simp only []
  omega

theorem bmod64 (x : Int) (h : -2147483648 ≤ x ∧ x < 2147483648) : x.bmod (2 ^ 64) = x := by
  have : (2 ^ 64 : Nat) = 18446744073709551616 := by decide
  rw [this]
  unfold Int.bmod
  simp only []
  omega

theorem wrapS32_id (r : Int) (h : -2147483648 ≤ r ∧ r < 2147483648) : wrapS 32 r = r := by
  unfold wrapS
  rw [show (2 : Int) ^ (32 - 1) = 2147483648 by decide, show (2 : Int) ^ 32 = 4294967296 by decide]
  omega

theorem ofInt64_eq_signExtend (x : Int) (h : -2147483648 ≤ x ∧ x < 2147483648) :
    BitVec.ofInt 64 x = BitVec.signExtend 64 (BitVec.ofInt 32 x) := by
  apply BitVec.eq_of_toInt_eq
  rw [BitVec.toInt_ofInt, BitVec.toInt_signExtend, BitVec.toInt_ofInt]
  rw [bmod64 x h, bmod32 x h]
  show x = x.bmod (2 ^ 32)
  rw [bmod32 x h]

theorem toInt32_range (v : BitVec 32) : -2147483648 ≤ v.toInt ∧ v.toInt < 2147483648 := by
  have h1 := BitVec.le_toInt v
  have h2 := @BitVec.toInt_lt 32 v
  rw [show (2 : Int) ^ (32 - 1) = 2147483648 by decide] at h1 h2
  exact ⟨h1, h2⟩

/-- the xor of two sign-extended 32-bit values, computed on 64 bits, is again one -/
theorem cxor_spec (x c : Int) (hx : -2147483648 ≤ x ∧ x < 2147483648) (hc : -2147483648 ≤ c ∧ c < 2147483648) :
    (-2147483648 ≤ cxor x c ∧ cxor x c < 2147483648) ∧
    BitVec.ofInt 64 (cxor x c) = BitVec.ofInt 64 x ^^^ BitVec.ofInt 64 c := by
  unfold cxor
  refine ⟨?_, BitVec.ofInt_toInt⟩
  rw [ofInt64_eq_signExtend x hx, ofInt64_eq_signExtend c hc, ← BitVec.signExtend_xor, BitVec.toInt_signExtend]
  have hr := toInt32_range (BitVec.ofInt 32 x ^^^ BitVec.ofInt 32 c)
  show -2147483648 ≤ ((BitVec.ofInt 32 x ^^^ BitVec.ofInt 32 c).toInt).bmod (2 ^ 32) ∧
    ((BitVec.ofInt 32 x ^^^ BitVec.ofInt 32 c).toInt).bmod (2 ^ 32) < 2147483648
  rw [bmod32 _ hr]
  exact hr

theorem lane_xor_involutive (x c : Int) (hx : -2147483648 ≤ x ∧ x < 2147483648)
    (hc : -2147483648 ≤ c ∧ c < 2147483648) :
    wrapS 32 (cxor (wrapS 32 (cxor x c)) c) = x := by
  obtain ⟨hr, he⟩ := cxor_spec x c hx hc
  rw [wrapS32_id _ hr]
  have h2 : cxor (cxor x c) c = x := by
    show (BitVec.ofInt 64 (cxor x c) ^^^ BitVec.ofInt 64 c).toInt = x
    rw [he, BitVec.xor_assoc, BitVec.xor_self, BitVec.xor_zero, BitVec.toInt_ofInt, bmod64 x hx]
  rw [h2, wrapS32_id x hx]

/-- hash_t::operator^ with the same operand twice gives the original hash back -/
theorem xor_involutive : ∀ (a c : Lanes),
    (∀ x ∈ a, -2147483648 ≤ x ∧ x < 2147483648) → (∀ y ∈ c, -2147483648 ≤ y ∧ y < 2147483648) →
    a.length = c.length → Hash.xor (Hash.xor a c) c = a
  | [], [], _, _, _ => rfl
  | [], _ :: _, _, _, h => by simp at h
  | _ :: _, [], _, _, h => by simp at h
  | x :: a, y :: c, ha, hc, hl => by
    have ih := xor_involutive a c (fun z hz => ha z (List.mem_cons_of_mem _ hz))
      (fun z hz => hc z (List.mem_cons_of_mem _ hz)) (by simpa using hl)
    unfold Hash.xor at ih ⊢
    simp only [List.zipWith_cons_cons]
    rw [lane_xor_involutive x y (ha x (by simp)) (hc y (by simp)), ih]

/-! ### getFullString -/

theorem hexOfByte_ascii : ∀ b : Nat, b < 256 → ∀ c ∈ hexOfByte b, 0 ≤ c ∧ c < 128 := by
  decide +kernel

theorem charOfNat_toNat : ∀ n : Nat, n < 128 → (Char.ofNat n).toNat = n := by
  decide +kernel

theorem fullString_ascii (h : Lanes) : ∀ c ∈ fullString h, 0 ≤ c ∧ c < 128 := by
  intro c hc
  unfold fullString toHexBytes at hc
  obtain ⟨b, hb, hcb⟩ := List.mem_flatMap.mp hc
  obtain ⟨x, _, hx⟩ := List.mem_flatMap.mp hb
  have hb256 : b < 256 := by
    simp [laneBytes] at hx
    omega
  exact hexOfByte_ascii b hb256 c hcb

theorem strOfCodes_inj : ∀ (a b : List Int), (∀ c ∈ a, 0 ≤ c ∧ c < 128) → (∀ c ∈ b, 0 ≤ c ∧ c < 128) →
    strOfCodes a = strOfCodes b → a = b := by
  intro a b ha hb h
  have hm : a.map (fun c => Char.ofNat c.toNat) = b.map (fun c => Char.ofNat c.toNat) :=
    String.ofList_injective h
  clear h
  induction a generalizing b with
  | nil =>
    cases b with
    | nil => rfl
    | cons y t => simp at hm
  | cons x s ih =>
    cases b with
    | nil => simp at hm
    | cons y t =>
      simp only [List.map_cons] at hm
      obtain ⟨h1, h2⟩ := List.cons.inj hm
      have hx := ha x (by simp)
      have hy := hb y (by simp)
      have e := congrArg Char.toNat h1
      rw [charOfNat_toNat _ (by omega), charOfNat_toNat _ (by omega)] at e
      have exy : x = y := by omega
      rw [exy, ih t (fun c hc => ha c (List.mem_cons_of_mem _ hc)) (fun c hc => hb c (List.mem_cons_of_mem _ hc)) h2]

theorem fullStr_inj (a b : Lanes) (ha : WellFormed a) (hb : WellFormed b) (h : fullStr a = fullStr b) : a = b := by
  have := strOfCodes_inj _ _ (fullString_ascii a) (fullString_ascii b) h
  have h2 := congrArg fromString this
  rw [C27.C27_full_roundtrip a ha, C27.C27_full_roundtrip b hb] at h2
  exact h2

/-! ### the exact model as an `Env` over well-formed hashes -/

abbrev WLanes := { h : Lanes // WellFormed h }

theorem openmpSaltHash_wf : WellFormed openmpSaltHash := C27.C27_hash_wellformed _

/-- the driver's parameters (lean/Driver/Cache.lean), with the well-formedness of every hash
    carried along; `openmp` selects the OpenMP device's constant, `dev` is device::hash() -/
def exactEnvW (openmp : Bool) (dev : WLanes) : Env WLanes String where
  H s := ⟨hashStr s, C27.C27_hash_wellformed _⟩
  enc := dump
  raw := id
  full K := .str (fullStr K.1)
  short K := .str (shortStr K.1)
  tweak K := if openmp then ⟨Hash.xor K.1 openmpSaltHash, C27.C27_xor_wellformed _ _ K.2.1 openmpSaltHash_wf.1⟩ else K
  dev := dev

/-- `exactEnvW` computes exactly the keys of the driver's `exactEnv` (the same functions, with the
    well-formedness proofs carried along) -/
theorem exactEnvW_baseKey (openmp : Bool) (dev : WLanes) (c : Config) :
    (baseKey (exactEnvW openmp dev) c).1 = baseKey (exactEnv openmp dev.1) c := by
  cases openmp <;> rfl

theorem exactEnvW_full_inj (openmp : Bool) (dev : WLanes) : Function.Injective (exactEnvW openmp dev).full := by
  intro a b h
  exact Subtype.ext (fullStr_inj a.1 b.1 a.2 b.2 (J.str.inj h))

theorem exactEnvW_tweak_inj (openmp : Bool) (dev : WLanes) : Function.Injective (exactEnvW openmp dev).tweak := by
  intro a b h
  cases openmp with
  | false => simpa [exactEnvW] using h
  | true =>
    simp only [exactEnvW, if_true] at h
    have h1 : Hash.xor a.1 openmpSaltHash = Hash.xor b.1 openmpSaltHash := congrArg Subtype.val h
    have h2 : Hash.xor (Hash.xor a.1 openmpSaltHash) openmpSaltHash =
        Hash.xor (Hash.xor b.1 openmpSaltHash) openmpSaltHash :=
      congrArg (fun k => Hash.xor k openmpSaltHash) h1
    rw [xor_involutive a.1 _ a.2.2 openmpSaltHash_wf.2 (by rw [a.2.1, openmpSaltHash_wf.1]),
      xor_involutive b.1 _ b.2.2 openmpSaltHash_wf.2 (by rw [b.2.1, openmpSaltHash_wf.1])] at h2
    exact Subtype.ext h2

theorem exactEnvW_full_wf (openmp : Bool) (dev : WLanes) (k : WLanes) : ((exactEnvW openmp dev).full k).WF := trivial

theorem mem_takeWhile_true {α : Type} (p : α → Bool) (c : α) :
    ∀ (l : List α), c ∈ l.takeWhile p → p c = true
  | [], h => by simp at h
  | x :: t, h => by
    by_cases hx : p x = true
    · rw [List.takeWhile_cons_of_pos hx] at h
      rcases List.mem_cons.mp h with e | m
      · rw [e]; exact hx
      · exact mem_takeWhile_true p c t m
    · rw [List.takeWhile_cons_of_neg hx] at h
      simp at h

/-- the include scanner of the driver only yields paths without `"` (the path of `#include "…"`
    ends at the closing quote) -/
theorem scanIncludes_keyOk (t p : String) (h : p ∈ scanIncludes t) : keyOk p := by
  unfold scanIncludes at h
  obtain ⟨line, _, hf⟩ := List.mem_filterMap.mp h
  simp only at hf
  split at hf
  · have hp := Option.some.inj hf
    rw [← hp]
    intro c hc
    rw [String.toList_ofList] at hc
    have := mem_takeWhile_true _ c _ hc
    simpa using this
  · simp at hf

end Occa.CacheKey
