/-
Lemmas about the macro-expansion machine (OccaModel/CppExpand.lean) used by Props/C13.lean.

1. Fuel monotonicity: a result obtained with `n` units of fuel is obtained with every larger amount.
   Hence "terminates" (∃ n, result ≠ outOfFuel) is a property of the input, and a computation that runs
   out of fuel for one amount runs out of fuel for every smaller one.
-/
import OccaModel.CppExpand

namespace Occa.Cpp

/-- all eight mutually recursive functions keep a result other than `outOfFuel` when one more unit of fuel is given -/
structure Mono (vc : XCfg) (n : Nat) : Prop where
  next : ∀ s r, next vc n s = r → r ≠ .outOfFuel → Occa.Cpp.next vc (n + 1) s = r
  fill : ∀ s r, fill vc n s = r → r ≠ .outOfFuel → Occa.Cpp.fill vc (n + 1) s = r
  processToken : ∀ t s r, processToken vc n t s = r → r ≠ .outOfFuel → Occa.Cpp.processToken vc (n + 1) t s = r
  processIdentifier : ∀ t s r, processIdentifier vc n t s = r → r ≠ .outOfFuel → Occa.Cpp.processIdentifier vc (n + 1) t s = r
  expandMacro : ∀ t m s r, expandMacro vc n t m s = r → r ≠ .outOfFuel → Occa.Cpp.expandMacro vc (n + 1) t m s = r
  macroExpand : ∀ m s r, macroExpand vc n m s = r → r ≠ .outOfFuel → Occa.Cpp.macroExpand vc (n + 1) m s = r
  loadArgs : ∀ m s r, loadArgs vc n m s = r → r ≠ .outOfFuel → Occa.Cpp.loadArgs vc (n + 1) m s = r
  collect : ∀ pc acc s r, collect vc n pc acc s = r → r ≠ .outOfFuel → Occa.Cpp.collect vc (n + 1) pc acc s = r

theorem mono_zero (vc : XCfg) : Mono vc 0 := by
  constructor <;> intros <;> simp_all [next, fill, processToken, processIdentifier, expandMacro, macroExpand,
    loadArgs, collect]

theorem mono_succ (vc : XCfg) (n : Nat) (ih : Mono vc n) : Mono vc (n + 1) := by
  constructor
  · -- next
    intro s r h hne
    simp only [next] at h ⊢
    cases hf : fill vc n s with
    | ok s' => rw [hf] at h; rw [ih.fill _ _ hf (by simp)]; exact h
    | outOfFuel => rw [hf] at h; exact absurd h.symm hne
    | trap => rw [hf] at h; rw [ih.fill _ _ hf (by simp)]; exact h
  · -- fill
    intro s r h hne
    unfold fill at h ⊢
    by_cases ho : (!s.output.isEmpty) = true
    · rw [if_pos ho] at h ⊢; exact h
    · rw [if_neg ho] at h ⊢
      cases hi : s.input with
      | nil => rw [hi] at h; exact h
      | cons t rest =>
        rw [hi] at h
        simp only at h ⊢
        cases hp : processToken vc n t { s with input := rest } with
        | ok s' =>
          rw [hp] at h; simp only at h
          rw [ih.processToken _ _ _ hp (by simp)]; simp only
          exact ih.fill _ _ h hne
        | outOfFuel => rw [hp] at h; exact absurd h.symm hne
        | trap => rw [hp] at h; rw [ih.processToken _ _ _ hp (by simp)]; exact h
  · -- processToken
    intro t s r h hne
    simp only [processToken] at h ⊢
    split at h
    · rename_i hid
      rw [if_pos hid]
      cases hp : processIdentifier vc n t s with
      | ok x => rw [hp] at h; rw [ih.processIdentifier _ _ _ hp (by simp)]; exact h
      | outOfFuel => rw [hp] at h; exact absurd h.symm hne
      | trap => rw [hp] at h; rw [ih.processIdentifier _ _ _ hp (by simp)]; exact h
    · rename_i hid; rw [if_neg hid]; exact h
  · -- processIdentifier
    intro t s r h hne
    simp only [processIdentifier] at h ⊢
    generalize (if s.expanding = true then lookup s.table t.tok.text else none) = o at h ⊢
    cases o with
    | none => exact h
    | some m =>
      simp only at h ⊢
      split at h
      · rename_i hd; simp only [hd, if_true]; exact h
      · rename_i hd
        simp only [hd]
        split at h
        · rename_i hdb; simp only [hdb, if_true]; exact h
        · rename_i hdb
          simp only [hdb]
          split at h
          · rename_i hfn; simp only [hfn, if_true]; exact ih.expandMacro _ _ _ _ h hne
          · rename_i hfn
            simp only [hfn]
            split at h
            · rename_i he; simp only [he, if_true]; exact h
            · rename_i he
              simp only [he]
              cases hn : Occa.Cpp.next vc n s with
              | ok x =>
                rw [hn] at h; rw [ih.next _ _ hn (by simp)]
                obtain ⟨o, s'⟩ := x
                cases o with
                | none => exact h
                | some nt =>
                  simp only at h ⊢
                  split at h
                  · rename_i hp; simp only [hp, if_true]; exact ih.expandMacro _ _ _ _ h hne
                  · rename_i hp; simp only [hp]; exact h
              | outOfFuel => rw [hn] at h; exact absurd h.symm hne
              | trap => rw [hn] at h; rw [ih.next _ _ hn (by simp)]; exact h
  · -- expandMacro
    intro t m s r h hne
    simp only [expandMacro] at h ⊢
    cases hm : Occa.Cpp.macroExpand vc n m s with
    | ok x => rw [hm] at h; rw [ih.macroExpand _ _ _ hm (by simp)]; exact h
    | outOfFuel => rw [hm] at h; exact absurd h.symm hne
    | trap => rw [hm] at h; rw [ih.macroExpand _ _ _ hm (by simp)]; exact h
  · -- macroExpand
    intro m s r h hne
    simp only [macroExpand] at h ⊢
    split at h
    · rename_i hs
      simp only [hs, if_true]
      cases hl : Occa.Cpp.loadArgs vc n m { s with expanding := false } with
      | ok x => rw [hl] at h; rw [ih.loadArgs _ _ _ hl (by simp)]; exact h
      | outOfFuel => rw [hl] at h; exact absurd h.symm hne
      | trap => rw [hl] at h; rw [ih.loadArgs _ _ _ hl (by simp)]; exact h
    · rename_i hs
      simp only [hs]
      cases hl : Occa.Cpp.loadArgs vc n m s with
      | ok x => rw [hl] at h; rw [ih.loadArgs _ _ _ hl (by simp)]; exact h
      | outOfFuel => rw [hl] at h; exact absurd h.symm hne
      | trap => rw [hl] at h; rw [ih.loadArgs _ _ _ hl (by simp)]; exact h
  · -- loadArgs
    intro m s r h hne
    simp only [loadArgs] at h ⊢
    split at h
    · rename_i hfn; simp only [hfn, if_true]; exact h
    · rename_i hfn
      simp only [hfn]
      cases hc : Occa.Cpp.collect vc n 1 [] s with
      | ok x => rw [hc] at h; rw [ih.collect _ _ _ _ hc (by simp)]; exact h
      | outOfFuel => rw [hc] at h; exact absurd h.symm hne
      | trap => rw [hc] at h; rw [ih.collect _ _ _ _ hc (by simp)]; exact h
  · -- collect
    intro pc acc s r h hne
    unfold collect at h ⊢
    cases hn : Occa.Cpp.next vc n s with
    | ok x =>
      rw [hn] at h; rw [ih.next _ _ hn (by simp)]
      obtain ⟨o, s'⟩ := x
      cases o with
      | none => exact h
      | some t =>
        simp only at h ⊢
        split at h
        · rename_i hp; simp only [hp, if_true]; exact ih.collect _ _ _ _ h hne
        · rename_i hp
          simp only [hp]
          split at h
          · rename_i hq
            simp only [hq, if_true]
            split at h
            · rename_i hr; simp only [hr, if_true]; exact h
            · rename_i hr; simp only [hr]; exact ih.collect _ _ _ _ h hne
          · rename_i hq; simp only [hq]; exact ih.collect _ _ _ _ h hne
    | outOfFuel => rw [hn] at h; exact absurd h.symm hne
    | trap => rw [hn] at h; rw [ih.next _ _ hn (by simp)]; exact h

theorem mono_all (vc : XCfg) : ∀ n, Mono vc n
  | 0 => mono_zero vc
  | n + 1 => mono_succ vc n (mono_all vc n)


theorem fill_mono_le (vc : XCfg) (s : PP) (r : Res PP) (hne : r ≠ .outOfFuel) :
    ∀ (n k : Nat), fill vc n s = r → fill vc (n + k) s = r
  | _, 0, h => h
  | n, k + 1, h => (mono_all vc (n + k)).fill s r (fill_mono_le vc s r hne n k h) hne

theorem processToken_mono_le (vc : XCfg) (t : ITok) (s : PP) (r : Res PP) (hne : r ≠ .outOfFuel) :
    ∀ (n k : Nat), processToken vc n t s = r → processToken vc (n + k) t s = r
  | _, 0, h => h
  | n, k + 1, h => (mono_all vc (n + k)).processToken t s r (processToken_mono_le vc t s r hne n k h) hne

theorem next_mono_le (vc : XCfg) (s : PP) (r : Res (Option Tok × PP)) (hne : r ≠ .outOfFuel) :
    ∀ (n k : Nat), next vc n s = r → next vc (n + k) s = r
  | _, 0, h => h
  | n, k + 1, h => (mono_all vc (n + k)).next s r (next_mono_le vc s r hne n k h) hne

/-- two runs of processToken that both finish give the same result -/
theorem processToken_det (vc : XCfg) (t : ITok) (s : PP) (n m : Nat) (r r' : Res PP)
    (h : processToken vc n t s = r) (h' : processToken vc m t s = r')
    (hne : r ≠ .outOfFuel) (hne' : r' ≠ .outOfFuel) : r = r' := by
  rcases Nat.le_total n m with hle | hle
  · obtain ⟨k, rfl⟩ := Nat.exists_eq_add_of_le hle
    rw [← h', processToken_mono_le vc t s r hne n k h]
  · obtain ⟨k, rfl⟩ := Nat.exists_eq_add_of_le hle
    rw [← h, processToken_mono_le vc t s r' hne' m k h']

theorem drain_mono (vc : XCfg) : ∀ (n : Nat) (s : PP) (acc : List Tok) (r : Res (List Tok × PP)),
    drain vc n s acc = r → r ≠ .outOfFuel → drain vc (n + 1) s acc = r
  | 0, s, acc, r, h, hne => by simp [drain] at h; exact absurd h.symm hne
  | n + 1, s, acc, r, h, hne => by
    unfold drain at h ⊢
    cases hn : next vc n s with
    | ok x =>
      rw [hn] at h; rw [(mono_all vc n).next _ _ hn (by simp)]
      obtain ⟨o, s'⟩ := x
      cases o with
      | none => exact h
      | some t => simp only at h ⊢; exact drain_mono vc n _ _ _ h hne
    | outOfFuel => rw [hn] at h; exact absurd h.symm hne
    | trap => rw [hn] at h; rw [(mono_all vc n).next _ _ hn (by simp)]; exact h

theorem drain_mono_le (vc : XCfg) (s : PP) (acc : List Tok) (r : Res (List Tok × PP)) (hne : r ≠ .outOfFuel) :
    ∀ (n k : Nat), drain vc n s acc = r → drain vc (n + k) s acc = r
  | _, 0, h => h
  | n, k + 1, h => drain_mono vc (n + k) s acc r (drain_mono_le vc s acc r hne n k h) hne

/-- if a line is expanded with some amount of fuel, every larger amount gives the same result -/
theorem expandLine_mono_le (vc : XCfg) (s : PP) (toks : List Tok) (r : Res (List Tok × PP)) (hne : r ≠ .outOfFuel)
    (n k : Nat) (h : expandLine vc n s toks = r) : expandLine vc (n + k) s toks = r :=
  drain_mono_le vc _ _ r hne n k h


/-! ### 2. a translation unit on which the expansion never terminates (finding F63)

    #define f(x) g(x)
    #define g(x) f(x)
    f(1)
-/

def tId (s : String) : Tok := ⟨.ident, s⟩
def tOp (s : String) : Tok := ⟨.op, s⟩
def tNum (s : String) : Tok := ⟨.num, s⟩

def macroF : Macro := { name := "f", isFn := true, nparams := 1, variadic := false,
                        body := [.raw (tId "g"), .raw (tOp "("), .arg 0, .raw (tOp ")")] }
def macroG : Macro := { name := "g", isFn := true, nparams := 1, variadic := false,
                        body := [.raw (tId "f"), .raw (tOp "("), .arg 0, .raw (tOp ")")] }
def tblFG : List Macro := [macroF, macroG]

/-- the rest of the line after the macro name: `( 1 )` whose `)` ends the macro `by`, then the newline -/
def callTail (by_ : String) : List ITok := [⟨tOp "(", []⟩, ⟨tNum "1", []⟩, ⟨tOp ")", [by_]⟩, ⟨nlTok, []⟩]

/-- the two states the machine alternates between -/
def loopG : PP := { input := callTail "f", disabled := ["f"], table := tblFG }     -- about to process `g`
def loopF : PP := { input := callTail "g", disabled := ["g"], table := tblFG }     -- about to process `f`
def startF : PP := { input := [⟨tOp "(", []⟩, ⟨tNum "1", []⟩, ⟨tOp ")", []⟩, ⟨nlTok, []⟩], table := tblFG }

theorem step_g (vc : XCfg) : processToken vc 12 ⟨tId "g", []⟩ loopG = .ok { loopF with input := ⟨tId "f", []⟩ :: loopF.input } := by
  rcases vc with ⟨a, b⟩
  cases a <;> cases b <;> decide

theorem step_f (vc : XCfg) : processToken vc 12 ⟨tId "f", []⟩ loopF = .ok { loopG with input := ⟨tId "g", []⟩ :: loopG.input } := by
  rcases vc with ⟨a, b⟩
  cases a <;> cases b <;> decide

theorem step_start (vc : XCfg) : processToken vc 12 ⟨tId "f", []⟩ startF = .ok { loopG with input := ⟨tId "g", []⟩ :: loopG.input } := by
  rcases vc with ⟨a, b⟩
  cases a <;> cases b <;> decide

/-- one iteration of the `fill` loop from a state whose first token is `t`: either the fuel is exhausted
    inside processToken or the loop continues from the known successor state -/
theorem fill_step (vc : XCfg) (t : ITok) (s s' : PP) (K : Nat) (ho : s.output = [])
    (hk : processToken vc K t s = .ok s') (n : Nat) :
    fill vc (n + 1) { s with input := t :: s.input } = .outOfFuel ∨
    fill vc (n + 1) { s with input := t :: s.input } = fill vc n s' := by
  cases s with
  | mk inp out dis tbl ex er =>
    simp only at ho
    subst ho
    rw [fill]
    simp only [List.isEmpty_nil, Bool.not_true, Bool.false_eq_true, if_false]
    cases hp : processToken vc n t { input := inp, output := [], disabled := dis, table := tbl, expanding := ex, errors := er } with
    | outOfFuel => left; rfl
    | ok x =>
      right
      have := processToken_det vc t _ n K _ _ hp hk (by simp) (by simp)
      rw [Res.ok.inj this]
    | trap =>
      have := processToken_det vc t _ n K _ _ hp hk (by simp) (by simp)
      simp at this

theorem loop_forever (vc : XCfg) : ∀ n,
    fill vc n { loopG with input := ⟨tId "g", []⟩ :: loopG.input } = .outOfFuel ∧
    fill vc n { loopF with input := ⟨tId "f", []⟩ :: loopF.input } = .outOfFuel
  | 0 => by simp [fill]
  | n + 1 => by
    obtain ⟨ih1, ih2⟩ := loop_forever vc n
    constructor
    · rcases fill_step vc ⟨tId "g", []⟩ loopG _ 12 rfl (step_g vc) n with h | h
      · exact h
      · rw [h]; exact ih2
    · rcases fill_step vc ⟨tId "f", []⟩ loopF _ 12 rfl (step_f vc) n with h | h
      · exact h
      · rw [h]; exact ih1

/-- `f ( 1 )` with the table above: no amount of fuel is enough -/
theorem expand_fg_diverges (vc : XCfg) (n : Nat) :
    expandLine vc n { table := tblFG } [tId "f", tOp "(", tNum "1", tOp ")"] = .outOfFuel := by
  cases n with
  | zero => simp [expandLine, drain]
  | succ n =>
    cases n with
    | zero => simp [expandLine, drain, next]
    | succ n =>
      have hfill : fill vc n { startF with input := ⟨tId "f", []⟩ :: startF.input } = .outOfFuel := by
        cases n with
        | zero => simp [fill]
        | succ n =>
          rcases fill_step vc ⟨tId "f", []⟩ startF _ 12 rfl (step_start vc) n with h | h
          · exact h
          · rw [h]; exact (loop_forever vc n).1
      have e : ({ table := tblFG, input := ([tId "f", tOp "(", tNum "1", tOp ")"] ++ [nlTok]).map (fun t => (⟨t, []⟩ : ITok)) } : PP)
          = { startF with input := ⟨tId "f", []⟩ :: startF.input } := by rfl
      simp only [expandLine, drain, next]
      rw [e, hfill]

end Occa.Cpp
