/-
Helper lemmas for C02 (OccaModel/Mem.lean): byte-array facts and the state invariant.
-/
import OccaModel.Mem

namespace Occa.Mem

/-! ### byte arrays -/

theorem writeAt_length {b : Buffer} {pos : Nat} {data : List Byte} (h : pos + data.length ≤ b.length) :
    (writeAt b pos data).length = b.length := by
  simp only [writeAt, List.length_append, List.length_take, List.length_drop]
  omega

theorem readAt_length {b : Buffer} {pos n : Nat} (h : pos + n ≤ b.length) : (readAt b pos n).length = n := by
  simp only [readAt, List.length_take, List.length_drop]
  omega

theorem getElem?_writeAt {b : Buffer} {pos : Nat} {data : List Byte} (h : pos + data.length ≤ b.length) (i : Nat) :
    (writeAt b pos data)[i]? = if pos ≤ i ∧ i < pos + data.length then data[i - pos]? else b[i]? := by
  unfold writeAt
  have hl : (b.take pos).length = pos := by simp only [List.length_take]; omega
  by_cases h1 : i < pos
  · have : ¬ (pos ≤ i ∧ i < pos + data.length) := by omega
    rw [if_neg this, List.append_assoc, List.getElem?_append_left (by omega)]
    rw [List.getElem?_take]; simp [h1]
  · by_cases h2 : i < pos + data.length
    · rw [if_pos ⟨by omega, h2⟩, List.append_assoc, List.getElem?_append_right (by omega), hl,
        List.getElem?_append_left (by omega)]
    · have : ¬ (pos ≤ i ∧ i < pos + data.length) := by omega
      rw [if_neg this, List.getElem?_append_right (by simp only [List.length_append, hl]; omega)]
      simp only [List.length_append, hl, List.getElem?_drop]
      congr 1; omega

theorem getElem?_readAt {b : Buffer} {pos n i : Nat} (h : i < n) : (readAt b pos n)[i]? = b[pos + i]? := by
  simp [readAt, h]

theorem getElem?_readAt_ge {b : Buffer} {pos n i : Nat} (h : n ≤ i) : (readAt b pos n)[i]? = none := by
  simp only [readAt, List.getElem?_eq_none_iff, List.length_take, List.length_drop]
  omega

/-! ### the state invariant -/

/-- the view lies inside its buffer -/
def ViewOk (s : State) (v : View) : Prop := ∃ b, s.bufs[v.buf]? = some b ∧ v.off + v.size ≤ b.length

/-- every reachable `modeMemory_t` lies inside its buffer, every handle points to an existing
    `modeMemory_t`, the caller's host arrays are there -/
structure Inv (s : State) : Prop where
  views : ∀ (m : Nat) (v : View), s.mems[m]? = some v → ViewOk s v
  vars : ∀ (x m : Nat), s.vars x = some m → m < s.mems.length
  host : ∀ hb : Nat, hb < nHostBufs → ∃ b, s.bufs[hb]? = some b ∧ b.length = hostBufSize

/-- buffers only grow in number and keep their length -/
@[reducible] def BufLe (s s' : State) : Prop :=
  ∀ (i : Nat) (b : Buffer), s.bufs[i]? = some b → ∃ b', s'.bufs[i]? = some b' ∧ b'.length = b.length

theorem BufLe.refl (s : State) : BufLe s s := fun _ b h => ⟨b, h, rfl⟩

theorem ViewOk.mono {s s' : State} {v : View} (h : ViewOk s v) (hb : BufLe s s') : ViewOk s' v := by
  obtain ⟨b, h1, h2⟩ := h
  obtain ⟨b', h3, h4⟩ := hb _ _ h1
  exact ⟨b', h3, by omega⟩

theorem bufLe_setBuf {s : State} {i : Nat} {b b' : Buffer} (hi : s.bufs[i]? = some b)
    (hl : b'.length = b.length) : BufLe s (setBuf s i b') := by
  intro j c hj
  by_cases hji : i = j
  · subst hji
    have : i < s.bufs.length := by
      have := List.getElem?_eq_some_iff.mp hi; exact this.1
    refine ⟨b', ?_, ?_⟩
    · simp [setBuf, this]
    · rw [hi] at hj; cases hj; exact hl
  · exact ⟨c, by simp [setBuf, hji, hj], rfl⟩

theorem bufLe_pushBuf (s : State) (nb : Buffer) : BufLe s { s with bufs := s.bufs ++ [nb] } := by
  intro j c hj
  have : j < s.bufs.length := (List.getElem?_eq_some_iff.mp hj).1
  exact ⟨c, by simp [List.getElem?_append_left this, hj], rfl⟩

theorem init_inv : Inv init := by
  refine ⟨?_, ?_, ?_⟩
  · intro m v h; simp [init] at h
  · intro x m h; simp [init] at h
  · intro hb h
    have : hb = 0 ∨ hb = 1 := by simp [nHostBufs] at h; omega
    rcases this with rfl | rfl <;> exact ⟨_, rfl, List.length_replicate⟩

theorem Inv.setVar {s : State} (h : Inv s) (d : Nat) (m : Option Nat)
    (hm : ∀ m', m = some m' → m' < s.mems.length) : Inv (setVar s d m) := by
  refine ⟨h.views, ?_, h.host⟩
  intro x m' hx
  simp only [Mem.setVar] at hx
  split at hx
  · exact hm _ hx
  · exact h.vars _ _ hx

theorem Inv.pushMem {s : State} (h : Inv s) {v : View} (hv : ViewOk s v) : Inv (pushMem s v) := by
  refine ⟨?_, ?_, h.host⟩
  · intro m w hm
    simp only [Mem.pushMem] at hm
    by_cases hlt : m < s.mems.length
    · rw [List.getElem?_append_left hlt] at hm; exact h.views _ _ hm
    · rw [List.getElem?_append_right (by omega)] at hm
      rcases Nat.eq_zero_or_pos (m - s.mems.length) with h0 | hpos
      · rw [h0] at hm; simp at hm; subst hm; exact hv
      · have : ([v] : List View)[m - s.mems.length]? = none := by
          simp only [List.getElem?_eq_none_iff, List.length_singleton]; omega
        rw [this] at hm; cases hm
  · intro x m hx
    have := h.vars _ _ hx
    simp only [Mem.pushMem, List.length_append, List.length_singleton]; omega

theorem Inv.of_bufLe {s s' : State} (h : Inv s) (hb : BufLe s s') (hm : s'.mems = s.mems) (hv : s'.vars = s.vars) :
    Inv s' := by
  refine ⟨?_, ?_, ?_⟩
  · intro m v hmv; rw [hm] at hmv; exact (h.views _ _ hmv).mono hb
  · intro x m hx; rw [hv] at hx; rw [hm]; exact h.vars _ _ hx
  · intro k hk
    obtain ⟨b, h1, h2⟩ := h.host k hk
    obtain ⟨b', h3, h4⟩ := hb _ _ h1
    exact ⟨b', h3, by omega⟩

theorem Inv.setBuf {s : State} (h : Inv s) {i : Nat} {b b' : Buffer} (hi : s.bufs[i]? = some b)
    (hl : b'.length = b.length) : Inv (setBuf s i b') :=
  h.of_bufLe (bufLe_setBuf hi hl) rfl rfl

theorem Inv.pushBuf {s : State} (h : Inv s) (nb : Buffer) : Inv { s with bufs := s.bufs ++ [nb] } :=
  h.of_bufLe (bufLe_pushBuf s nb) rfl rfl

theorem Inv.setEsz {s : State} (h : Inv s) {m : Nat} {p : View} (hp : s.mems[m]? = some p) (e : Nat) :
    Inv { s with mems := s.mems.set m { p with esz := e } } := by
  have hlt : m < s.mems.length := (List.getElem?_eq_some_iff.mp hp).1
  refine ⟨?_, ?_, h.host⟩
  · intro k v hk
    by_cases hmk : m = k
    · subst hmk
      rw [List.getElem?_set_self hlt] at hk
      cases hk
      obtain ⟨b, h1, h2⟩ := h.views _ _ hp
      exact ⟨b, h1, h2⟩
    · rw [List.getElem?_set_ne hmk] at hk
      exact h.views _ _ hk
  · intro x k hx
    simp only [List.length_set]; exact h.vars _ _ hx

theorem Inv.free {s : State} (h : Inv s) (m : Nat) :
    Inv { s with vars := fun w => if s.vars w = some m then none else s.vars w } := by
  refine ⟨h.views, ?_, h.host⟩
  intro x k hx
  simp only at hx
  split at hx
  · cases hx
  · exact h.vars _ _ hx

/-! ### arithmetic of the guards -/

theorem len_mul_le (p : View) : (p.esz : Int) * p.len ≤ (p.size : Int) := by
  have := Nat.div_mul_le_self p.size p.esz
  unfold View.len
  rw [Int.mul_comm]
  exact_mod_cast this

theorem len_nonneg (p : View) : 0 ≤ p.len := Int.natCast_nonneg _

/-- what a successful `memory::slice` returns: same buffer, offset advanced by whole elements,
    and the new view lies inside the view it was taken from -/
theorem sliceView_ok {p v : View} {off cnt : Int} (h : sliceView p off cnt = .ok v) :
    v.buf = p.buf ∧ v.esz = p.esz ∧ 0 ≤ off ∧ (v.off : Int) = p.off + (p.esz : Int) * off ∧
      v.off + v.size ≤ p.off + p.size ∧
      (v.size : Int) = (p.esz : Int) * (if cnt = -1 then p.len - off else cnt) := by
  simp only [sliceView] at h
  by_cases h1 : (p.esz : Int) * (if cnt = -1 then p.len - off else cnt) ≥ 0
  case neg => rw [if_pos h1] at h; cases h
  rw [if_neg (not_not_intro h1)] at h
  by_cases h2 : off ≥ 0
  case neg => rw [if_pos h2] at h; cases h
  rw [if_neg (not_not_intro h2)] at h
  by_cases h3 : off + cnt ≤ p.len
  case neg => rw [if_pos h3] at h; cases h
  rw [if_neg (not_not_intro h3)] at h
  by_cases h4 : (p.off : Int) + (p.esz : Int) * off ≥ 0
  case neg => rw [if_pos h4] at h; cases h
  rw [if_neg (not_not_intro h4)] at h
  cases h
  have hl := len_mul_le p
  have he : (0 : Int) ≤ (p.esz : Int) := Int.natCast_nonneg _
  refine ⟨rfl, rfl, h2, by simp only []; omega, ?_, by simp only []; omega⟩
  simp only []
  by_cases hc : cnt = -1
  · simp only [hc, if_true] at h1 ⊢
    rw [Int.mul_sub] at h1 ⊢
    omega
  · simp only [hc, if_false] at h1 ⊢
    have h5 : (p.esz : Int) * (off + cnt) ≤ (p.esz : Int) * p.len := Int.mul_le_mul_of_nonneg_left h3 he
    rw [Int.mul_add] at h5
    omega

theorem countBytes_nonneg {p : View} {cnt : Int} (h : countBytes p cnt ≥ -1) : 0 ≤ countBytes p cnt := by
  unfold countBytes at h ⊢
  have hl := len_nonneg p
  have he : (0 : Int) ≤ (p.esz : Int) := Int.natCast_nonneg _
  by_cases hc : cnt = -1
  · simp only [hc, if_true] at h ⊢; exact Int.mul_nonneg he hl
  · simp only [hc, if_false] at h ⊢
    by_cases hn : 0 ≤ cnt
    · exact Int.mul_nonneg he hn
    · rcases Nat.eq_zero_or_pos p.esz with h0 | hpos
      · simp [h0]
      · have h1 : (1 : Int) ≤ (p.esz : Int) := by exact_mod_cast hpos
        have h2 : cnt ≤ -2 := by omega
        have h3 : (p.esz : Int) * cnt ≤ 1 * cnt := Int.mul_le_mul_of_nonpos_right h1 (by omega)
        omega

/-- what passing all five guards of a device-to-device copy means -/
theorem copyGuards_ok {self dst src : View} {cnt doff soff : Int} {bytes dOff sOff : Nat}
    (h : copyGuards self dst src cnt doff soff = .ok (bytes, dOff, sOff)) :
    (bytes : Int) = countBytes self cnt ∧ (dOff : Int) = (dst.esz : Int) * doff ∧ (sOff : Int) = (src.esz : Int) * soff ∧
      sOff + bytes ≤ src.size ∧ dOff + bytes ≤ dst.size := by
  simp only [copyGuards] at h
  by_cases h1 : countBytes self cnt ≥ -1
  case neg => rw [if_pos h1] at h; cases h
  rw [if_neg (not_not_intro h1)] at h
  by_cases h2 : (dst.esz : Int) * doff ≥ 0
  case neg => rw [if_pos h2] at h; cases h
  rw [if_neg (not_not_intro h2)] at h
  by_cases h3 : (src.esz : Int) * soff ≥ 0
  case neg => rw [if_pos h3] at h; cases h
  rw [if_neg (not_not_intro h3)] at h
  by_cases h4 : udimLe (countBytes self cnt + (src.esz : Int) * soff) src.size = true
  case neg => rw [if_pos h4] at h; cases h
  rw [if_neg (not_not_intro h4)] at h
  by_cases h5 : udimLe (countBytes self cnt + (dst.esz : Int) * doff) dst.size = true
  case neg => rw [if_pos h5] at h; cases h
  rw [if_neg (not_not_intro h5)] at h
  simp only [udimLe, Bool.and_eq_true, decide_eq_true_eq] at h4 h5
  have hb := countBytes_nonneg h1
  simp only [Except.ok.injEq, Prod.mk.injEq] at h
  obtain ⟨rfl, rfl, rfl⟩ := h
  refine ⟨?_, ?_, ?_, ?_, ?_⟩ <;> omega

/-! ### every operation preserves the invariant -/

theorem view?_some {s : State} {x : Nat} {p : View} (h : view? s x = some p) :
    ∃ m, s.vars x = some m ∧ s.mems[m]? = some p := by
  unfold view? at h
  cases hv : s.vars x with
  | none => rw [hv] at h; cases h
  | some m => rw [hv] at h; exact ⟨m, rfl, h⟩

theorem Inv.viewOk {s : State} (h : Inv s) {x : Nat} {p : View} (hp : view? s x = some p) : ViewOk s p := by
  obtain ⟨m, _, hm⟩ := view?_some hp
  exact h.views _ _ hm

/-- the value of a memory-typed expression is acceptable: the state it leaves satisfies the
    invariant and the returned pointer exists -/
def MRes.Good : MRes → Prop
  | .val s m => Inv s ∧ ∀ m', m = some m' → m' < s.mems.length
  | _ => True

theorem assignTo_inv {s0 : State} (h0 : Inv s0) (d : Nat) {r : MRes} (hr : r.Good) : Inv (assignTo s0 d r).1 := by
  cases r with
  | val s m => exact hr.1.setVar d m hr.2
  | err e => exact h0
  | trap => exact h0

theorem pushMem_good {s : State} (h : Inv s) {v : View} (hv : ViewOk s v) :
    (MRes.val (pushMem s v) (some s.mems.length)).Good := by
  refine ⟨h.pushMem hv, ?_⟩
  intro m' hm; cases hm
  simp [pushMem]

theorem sliceView_viewOk {s : State} {p v : View} {off cnt : Int} (hp : ViewOk s p)
    (h : sliceView p off cnt = .ok v) : ViewOk s v := by
  obtain ⟨hb, _, _, _, hin, _⟩ := sliceView_ok h
  obtain ⟨b, h1, h2⟩ := hp
  exact ⟨b, by rw [hb]; exact h1, by omega⟩

theorem sliceExpr_good {s : State} (h : Inv s) (src : Nat) (off cnt : Int) : (sliceExpr s src off cnt).Good := by
  unfold sliceExpr
  split
  · exact ⟨h, fun _ hm => by cases hm⟩
  · rename_i p hp
    split
    · trivial
    · rename_i v hv
      exact pushMem_good h (sliceView_viewOk (h.viewOk hp) hv)

theorem castExpr_good {s : State} (h : Inv s) (src e : Nat) : (castExpr s src e).Good := by
  unfold castExpr
  split
  · trivial
  · rename_i p hp
    split
    · trivial
    · rename_i v hv
      have := sliceView_viewOk (h.viewOk hp) hv
      exact pushMem_good h (v := { v with esz := e }) this

theorem mallocExpr_good {s : State} (h : Inv s) (n : Int) (e : Nat) (data : Option (List UInt8)) :
    (mallocExpr s n e data).Good := by
  unfold mallocExpr
  split
  · exact ⟨h, fun _ hm => by cases hm⟩
  · simp only []
    split
    · trivial
    · have key : ∀ nb : Buffer, nb.length = (n * (e : Int)).toNat →
          (MRes.val { pushMem s { buf := s.bufs.length, off := 0, size := (n * (e : Int)).toNat, esz := e } with
              bufs := s.bufs ++ [nb] } (some s.mems.length)).Good := by
        intro nb hnb
        have h1 : Inv { s with bufs := s.bufs ++ [nb] } := h.pushBuf nb
        have h2 := pushMem_good h1 (v := { buf := s.bufs.length, off := 0, size := (n * (e : Int)).toNat, esz := e })
          ⟨nb, by simp, by simp [hnb]⟩
        exact h2
      split
      · exact key _ (by simp)
      · split
        · trivial
        · rename_i dt hlen
          exact key _ (by simp only [List.length_map, List.length_take]; omega)

theorem wrapExpr_good {s : State} (h : Inv s) (hb : Nat) (n : Int) (e : Nat) : (wrapExpr s hb n e).Good := by
  unfold wrapExpr
  simp only []
  split
  · trivial
  · split
    · trivial
    · rename_i h1 h2
      simp only [Decidable.not_not] at h2
      obtain ⟨b, hb1, hb2⟩ := h.host hb h2.1
      exact pushMem_good h ⟨b, hb1, by simp only []; omega⟩

theorem copyBytes_eq {s : State} {dst src : View} {db sb : Buffer} (hd : s.bufs[dst.buf]? = some db)
    (hs : s.bufs[src.buf]? = some sb) (bytes dOff sOff : Nat) :
    copyBytes s dst src bytes dOff sOff =
      (setBuf s dst.buf (writeAt db (dst.off + dOff) (readAt sb (src.off + sOff) bytes)), .ok none) := by
  unfold copyBytes
  rw [hs, hd]

theorem copyBytes_inv {s : State} (h : Inv s) {dst src : View} (hd : ViewOk s dst) (hs : ViewOk s src)
    {bytes dOff sOff : Nat} (h1 : sOff + bytes ≤ src.size) (h2 : dOff + bytes ≤ dst.size) :
    Inv (copyBytes s dst src bytes dOff sOff).1 ∧ (copyBytes s dst src bytes dOff sOff).2 = .ok none ∧
      (copyBytes s dst src bytes dOff sOff).1.mems = s.mems := by
  obtain ⟨db, hd1, hd2⟩ := hd
  obtain ⟨sb, hs1, hs2⟩ := hs
  rw [copyBytes_eq hd1 hs1]
  have hr : (readAt sb (src.off + sOff) bytes).length = bytes := readAt_length (by omega)
  exact ⟨h.setBuf hd1 (writeAt_length (by rw [hr]; omega)), rfl, rfl⟩

/-- the fresh root view of an allocation of `n` elements of size `e` -/
def rootView (s : State) (n : Int) (e : Nat) : View :=
  { buf := s.bufs.length, off := 0, size := (n * (e : Int)).toNat, esz := e }

/-- shape of a successful non-empty `device::malloc` -/
theorem mallocExpr_val {s s1 : State} {n : Int} {e m : Nat} {data : Option (List UInt8)}
    (h : mallocExpr s n e data = .val s1 (some m)) :
    n ≠ 0 ∧ 0 ≤ n * (e : Int) ∧ m = s.mems.length ∧
      ∃ nb : Buffer, nb.length = (n * (e : Int)).toNat ∧
        (nb = match data with
              | none => List.replicate (n * (e : Int)).toNat none
              | some dt => (dt.take (n * (e : Int)).toNat).map some) ∧
        s1 = { pushMem s (rootView s n e) with bufs := s.bufs ++ [nb] } := by
  unfold mallocExpr at h
  by_cases h0 : n = 0
  · rw [if_pos h0] at h; cases h
  rw [if_neg h0] at h
  simp only [] at h
  by_cases h1 : n * (e : Int) ≥ 0
  case neg => rw [if_pos h1] at h; cases h
  rw [if_neg (not_not_intro h1)] at h
  cases data with
  | none =>
    simp only [MRes.val.injEq, Option.some.injEq] at h
    exact ⟨h0, h1, h.2.symm, _, by simp, rfl, h.1.symm⟩
  | some dt =>
    simp only [] at h
    by_cases h2 : dt.length < (n * (e : Int)).toNat
    · rw [if_pos h2] at h; cases h
    rw [if_neg h2] at h
    simp only [MRes.val.injEq, Option.some.injEq] at h
    exact ⟨h0, h1, h.2.symm, _, by simp only [List.length_map, List.length_take]; omega, rfl, h.1.symm⟩

theorem mallocExpr_val_none {s s1 : State} {n : Int} {e : Nat} {data : Option (List UInt8)}
    (h : mallocExpr s n e data = .val s1 none) : s1 = s := by
  unfold mallocExpr at h
  by_cases h0 : n = 0
  · rw [if_pos h0] at h; cases h; rfl
  rw [if_neg h0] at h
  simp only [] at h
  by_cases h1 : n * (e : Int) ≥ 0
  case neg => rw [if_pos h1] at h; cases h
  rw [if_neg (not_not_intro h1)] at h
  cases data with
  | none => simp at h
  | some dt =>
    simp only [] at h
    by_cases h2 : dt.length < (n * (e : Int)).toNat
    · rw [if_pos h2] at h; cases h
    · rw [if_neg h2] at h; simp at h

theorem mallocFromExpr_good {s : State} (h : Inv s) (n : Int) (e src : Nat) : (mallocFromExpr s n e src).Good := by
  unfold mallocFromExpr
  have hg := mallocExpr_good h n e none
  cases hme : mallocExpr s n e none with
  | err er => trivial
  | trap => trivial
  | val s1 om =>
    rw [hme] at hg
    cases om with
    | none => exact hg
    | some m =>
      simp only []
      obtain ⟨_, _, hm, nb, hnb, _, hs1⟩ := mallocExpr_val hme
      have hle : BufLe s s1 := by rw [hs1]; exact bufLe_pushBuf s nb
      cases hsv : view? s src with
      | none => exact hg
      | some sv =>
        cases hdv : s1.mems[m]? with
        | none => exact hg
        | some dv =>
          simp only []
          split
          · exact hg
          · cases hcg : copyGuards dv dv sv (-1) 0 0 with
            | error er => trivial
            | ok t =>
              obtain ⟨bytes, dOff, sOff⟩ := t
              simp only []
              obtain ⟨_, _, _, g1, g2⟩ := copyGuards_ok hcg
              have hc := copyBytes_inv hg.1 (hg.1.views _ _ hdv) ((h.viewOk hsv).mono hle) g1 g2
              cases hcb : copyBytes s1 dv sv bytes dOff sOff with
              | mk s2 r =>
                rw [hcb] at hc
                cases r with
                | ok o =>
                  refine ⟨hc.1, ?_⟩
                  intro m' hm'; cases hm'
                  rw [hc.2.2]; exact hg.2 _ rfl
                | err er => trivial
                | trap => trivial

theorem cloneExpr_good {s : State} (h : Inv s) (src : Nat) : (cloneExpr s src).Good := by
  unfold cloneExpr
  split
  · exact ⟨h, fun _ hm => by cases hm⟩
  · rename_i p hp
    split
    · exact ⟨h, fun _ hm => by cases hm⟩
    · have hg := mallocFromExpr_good h (p.size : Int) 1 src
      cases hmf : mallocFromExpr s (p.size : Int) 1 src with
      | err er => trivial
      | trap => trivial
      | val s1 om =>
        rw [hmf] at hg
        cases om with
        | none => trivial
        | some m =>
          simp only []
          cases hc : s1.mems[m]? with
          | none => trivial
          | some c =>
            simp only []
            refine ⟨hg.1.setEsz hc p.esz, ?_⟩
            intro m' hm'; cases hm'
            simp only [List.length_set]; exact hg.2 _ rfl

theorem step_inv {s : State} (h : Inv s) (op : Op) : Inv (step s op).1 := by
  cases op with
  | malloc v n e data => exact assignTo_inv h v (mallocExpr_good h n e data)
  | mallocFrom v n e src => exact assignTo_inv h v (mallocFromExpr_good h n e src)
  | wrap v hb n e => exact assignTo_inv h v (wrapExpr_good h hb n e)
  | slice d src off cnt => exact assignTo_inv h d (sliceExpr_good h src off cnt)
  | cast d src e => exact assignTo_inv h d (castExpr_good h src e)
  | clone d src => exact assignTo_inv h d (cloneExpr_good h src)
  | setDtype v e =>
    simp only [step, doSetDtype]
    split
    · exact h
    · split
      · exact h
      · rename_i p hp; exact h.setEsz hp e
  | copyFromHost v data cnt off =>
    simp only [step, doCopyFromHost]
    split
    · exact h
    · rename_i p hp
      split
      · exact h
      split
      · exact h
      split
      · exact h
      split
      · exact h
      rename_i h1 h2 h3 h4
      obtain ⟨b, hb1, hb2⟩ := h.viewOk hp
      rw [hb1]
      simp only [Decidable.not_not, udimLe, Bool.and_eq_true, decide_eq_true_eq] at h1 h2 h3
      have hb := countBytes_nonneg h1
      refine h.setBuf hb1 (writeAt_length ?_)
      simp only [List.length_map, List.length_take]
      omega
  | copyToHost v cap cnt off =>
    simp only [step, doCopyToHost]
    split
    · exact h
    · split
      · exact h
      split
      · exact h
      split
      · exact h
      split
      · exact h
      split <;> exact h
  | copyFromMem d src cnt doff soff =>
    simp only [step, doCopyFromMem]
    split
    · exact h
    · exact h
    · exact h
    · rename_i dv sv hd hs
      split
      · exact h
      · rename_i bytes dOff sOff hcg
        obtain ⟨_, _, _, g1, g2⟩ := copyGuards_ok hcg
        exact (copyBytes_inv h (h.viewOk hd) (h.viewOk hs) g1 g2).1
  | copyToMem src d cnt doff soff =>
    simp only [step, doCopyToMem]
    split
    · exact h
    · exact h
    · exact h
    · rename_i sv dv hs hd
      split
      · exact h
      · rename_i bytes dOff sOff hcg
        obtain ⟨_, _, _, g1, g2⟩ := copyGuards_ok hcg
        exact (copyBytes_inv h (h.viewOk hd) (h.viewOk hs) g1 g2).1
  | assign d src =>
    simp only [step, doAssign]
    exact h.setVar d _ (fun m' hm => h.vars _ _ hm)
  | free v =>
    simp only [step, doFree]
    split
    · exact h
    · exact h.free _
  | hostWrite hb off data =>
    simp only [step, doHostWrite]
    split
    · rename_i b hb1
      split
      · rename_i hc
        exact h.setBuf hb1 (writeAt_length (by simp only [List.length_map]; omega))
      · exact h
    · exact h
  | hostRead hb off n =>
    simp only [step, doHostRead]
    split
    · split <;> exact h
    · exact h

theorem run_inv {s : State} (h : Inv s) (ops : List Op) : Inv (run s ops) := by
  induction ops generalizing s with
  | nil => exact h
  | cons op rest ih => exact ih (step_inv h op)

/-! ### exceptions and traps leave the state unchanged -/

theorem assignTo_frame {s0 : State} {d : Nat} {r : MRes} (h : ∀ o, (assignTo s0 d r).2 ≠ .ok o) :
    (assignTo s0 d r).1 = s0 := by
  cases r with
  | val s m => exact absurd rfl (h none)
  | err e => rfl
  | trap => rfl

theorem copyBytes_frame {s : State} {dst src : View} {bytes dOff sOff : Nat}
    (h : ∀ o, (copyBytes s dst src bytes dOff sOff).2 ≠ .ok o) : (copyBytes s dst src bytes dOff sOff).1 = s := by
  unfold copyBytes at h ⊢
  split
  · rename_i h1 h2; simp only [h1, h2] at h; exact absurd rfl (h none)
  · rfl

theorem step_frame {s : State} {op : Op} (h : ∀ o, (step s op).2 ≠ .ok o) : (step s op).1 = s := by
  cases op with
  | malloc v n e data => exact assignTo_frame h
  | mallocFrom v n e src => exact assignTo_frame h
  | wrap v hb n e => exact assignTo_frame h
  | slice d src off cnt => exact assignTo_frame h
  | cast d src e => exact assignTo_frame h
  | clone d src => exact assignTo_frame h
  | setDtype v e =>
    simp only [step, doSetDtype] at h ⊢
    cases hm : s.vars v with
    | none => rfl
    | some m =>
      simp only [hm] at h ⊢
      cases hp : s.mems[m]? with
      | none => rfl
      | some p => simp only [hp] at h; exact absurd rfl (h none)
  | copyFromHost v data cnt off =>
    simp only [step, doCopyFromHost] at h ⊢
    split
    · rfl
    · rename_i p hp
      simp only [hp] at h
      split
      · rfl
      split
      · rfl
      split
      · rfl
      split
      · rfl
      rename_i h1 h2 h3 h4
      simp only [h1, h2, h3, h4, if_false] at h
      split
      · rfl
      · rename_i b hb; simp only [hb] at h; exact absurd rfl (h none)
  | copyToHost v cap cnt off =>
    simp only [step, doCopyToHost] at h ⊢
    split
    · rfl
    · split
      · rfl
      split
      · rfl
      split
      · rfl
      split
      · rfl
      split <;> rfl
  | copyFromMem d src cnt doff soff =>
    simp only [step, doCopyFromMem] at h ⊢
    split
    · rfl
    · rfl
    · rfl
    · rename_i dv sv hd hs
      simp only [hd, hs] at h
      split
      · rfl
      · rename_i bytes dOff sOff hcg
        simp only [hcg] at h
        exact copyBytes_frame h
  | copyToMem src d cnt doff soff =>
    simp only [step, doCopyToMem] at h ⊢
    split
    · rfl
    · rfl
    · rfl
    · rename_i sv dv hs hd
      simp only [hd, hs] at h
      split
      · rfl
      · rename_i bytes dOff sOff hcg
        simp only [hcg] at h
        exact copyBytes_frame h
  | assign d src => exact absurd rfl (h none)
  | free v =>
    simp only [step, doFree] at h ⊢
    split
    · rfl
    · rename_i m hm; simp only [hm] at h; exact absurd rfl (h none)
  | hostWrite hb off data =>
    simp only [step, doHostWrite] at h ⊢
    split
    · rename_i b hb1
      simp only [hb1] at h
      split
      · rename_i hc; simp only [hc] at h; exact absurd rfl (h none)
      · rfl
    · rfl
  | hostRead hb off n =>
    simp only [step, doHostRead]
    split
    · split <;> rfl
    · rfl

/-! ### no operation traps, as long as the caller keeps its side of the contract -/

/-- what the C++ API silently assumes about raw host pointers: the array behind a pointer is at
    least as long as the (in-range) request; `wrap` is given one of the caller's two arrays -/
def Contract (s : State) : Op → Prop
  | .malloc _ n e (some dt) => (n * (e : Int)).toNat ≤ dt.length
  | .wrap _ hb n e => hb < nHostBufs ∧ (n * (e : Int)).toNat ≤ hostBufSize
  | .copyFromHost v data cnt off =>
      ∀ p, view? s v = some p → udimLe (countBytes p cnt + (p.esz : Int) * off) p.size = true →
        (countBytes p cnt).toNat ≤ data.length
  | .copyToHost v cap cnt off =>
      ∀ p, view? s v = some p → udimLe (countBytes p cnt + (p.esz : Int) * off) p.size = true →
        (countBytes p cnt).toNat ≤ cap
  | .hostWrite hb off data => hb < nHostBufs ∧ off + data.length ≤ hostBufSize
  | .hostRead hb off n => hb < nHostBufs ∧ off + n ≤ hostBufSize
  | _ => True

theorem assignTo_noTrap {s0 : State} {d : Nat} {r : MRes} (h : r ≠ .trap) : (assignTo s0 d r).2 ≠ .trap := by
  cases r with
  | val s m => intro hc; cases hc
  | err e => intro hc; cases hc
  | trap => exact absurd rfl h

theorem mallocExpr_noTrap {s : State} {n : Int} {e : Nat} {data : Option (List UInt8)}
    (hc : ∀ dt, data = some dt → (n * (e : Int)).toNat ≤ dt.length) : mallocExpr s n e data ≠ .trap := by
  unfold mallocExpr
  split
  · intro h; cases h
  · simp only []
    split
    · intro h; cases h
    · split
      · intro h; cases h
      · rename_i dt
        have := hc dt rfl
        rw [if_neg (by omega)]
        intro h; cases h

theorem mallocFromExpr_noTrap {s : State} (h : Inv s) (n : Int) (e src : Nat) : mallocFromExpr s n e src ≠ .trap := by
  unfold mallocFromExpr
  have hg := mallocExpr_good h n e none
  have hnt := mallocExpr_noTrap (s := s) (n := n) (e := e) (data := none) (fun _ hd => by cases hd)
  cases hme : mallocExpr s n e none with
  | err er => intro hc; cases hc
  | trap => exact absurd hme hnt
  | val s1 om =>
    rw [hme] at hg
    cases om with
    | none => intro hc; cases hc
    | some m =>
      simp only []
      obtain ⟨_, _, hm, nb, hnb, _, hs1⟩ := mallocExpr_val hme
      have hle : BufLe s s1 := by rw [hs1]; exact bufLe_pushBuf s nb
      cases hsv : view? s src with
      | none => intro hc; cases hc
      | some sv =>
        cases hdv : s1.mems[m]? with
        | none => intro hc; cases hc
        | some dv =>
          simp only []
          split
          · intro hc; cases hc
          · cases hcg : copyGuards dv dv sv (-1) 0 0 with
            | error er => intro hc; cases hc
            | ok t =>
              obtain ⟨bytes, dOff, sOff⟩ := t
              simp only []
              obtain ⟨_, _, _, g1, g2⟩ := copyGuards_ok hcg
              have hc := copyBytes_inv hg.1 (hg.1.views _ _ hdv) ((h.viewOk hsv).mono hle) g1 g2
              cases hcb : copyBytes s1 dv sv bytes dOff sOff with
              | mk s2 r =>
                rw [hcb] at hc
                have : r = .ok none := hc.2.1
                subst this
                intro hc'; cases hc'

theorem cloneExpr_noTrap {s : State} (h : Inv s) (src : Nat) : cloneExpr s src ≠ .trap := by
  unfold cloneExpr
  split
  · intro hc; cases hc
  · rename_i p hp
    split
    · intro hc; cases hc
    · have hg := mallocFromExpr_good h (p.size : Int) 1 src
      have hnt := mallocFromExpr_noTrap h (p.size : Int) 1 src
      cases hmf : mallocFromExpr s (p.size : Int) 1 src with
      | err er => intro hc; cases hc
      | trap => exact absurd hmf hnt
      | val s1 om =>
        rw [hmf] at hg
        cases om with
        | none => intro hc; cases hc
        | some m =>
          simp only []
          have hlt := hg.2 m rfl
          have : s1.mems[m]? = some s1.mems[m] := List.getElem?_eq_getElem hlt
          rw [this]
          intro hc; cases hc

theorem step_noTrap {s : State} (h : Inv s) {op : Op} (hc : Contract s op) : (step s op).2 ≠ .trap := by
  cases op with
  | malloc v n e data =>
    refine assignTo_noTrap (mallocExpr_noTrap ?_)
    intro dt hd; subst hd; exact hc
  | mallocFrom v n e src => exact assignTo_noTrap (mallocFromExpr_noTrap h n e src)
  | wrap v hb n e =>
    refine assignTo_noTrap ?_
    unfold wrapExpr
    simp only []
    split
    · intro h'; cases h'
    · have hc' : hb < nHostBufs ∧ (n * (e : Int)).toNat ≤ hostBufSize := hc
      rw [if_neg (not_not_intro hc')]
      intro h'; cases h'
  | slice d src off cnt =>
    refine assignTo_noTrap ?_
    unfold sliceExpr
    split
    · intro h'; cases h'
    · split <;> (intro h'; cases h')
  | cast d src e =>
    refine assignTo_noTrap ?_
    unfold castExpr
    split
    · intro h'; cases h'
    · split <;> (intro h'; cases h')
  | clone d src => exact assignTo_noTrap (cloneExpr_noTrap h src)
  | setDtype v e =>
    simp only [step, doSetDtype]
    split
    · intro h'; cases h'
    · split <;> (intro h'; cases h')
  | copyFromHost v data cnt off =>
    simp only [step, doCopyFromHost]
    split
    · intro h'; cases h'
    · rename_i p hp
      split
      · intro h'; cases h'
      split
      · intro h'; cases h'
      split
      · intro h'; cases h'
      rename_i h1 h2 h3
      have := hc p hp (by simpa using h3)
      rw [if_neg (by omega)]
      obtain ⟨b, hb1, _⟩ := h.viewOk hp
      rw [hb1]
      intro h'; cases h'
  | copyToHost v cap cnt off =>
    simp only [step, doCopyToHost]
    split
    · intro h'; cases h'
    · rename_i p hp
      split
      · intro h'; cases h'
      split
      · intro h'; cases h'
      split
      · intro h'; cases h'
      rename_i h1 h2 h3
      have := hc p hp (by simpa using h3)
      rw [if_neg (by omega)]
      obtain ⟨b, hb1, _⟩ := h.viewOk hp
      rw [hb1]
      intro h'; cases h'
  | copyFromMem d src cnt doff soff =>
    simp only [step, doCopyFromMem]
    split
    · intro h'; cases h'
    · intro h'; cases h'
    · intro h'; cases h'
    · rename_i dv sv hd hs
      split
      · intro h'; cases h'
      · rename_i bytes dOff sOff hcg
        obtain ⟨_, _, _, g1, g2⟩ := copyGuards_ok hcg
        rw [(copyBytes_inv h (h.viewOk hd) (h.viewOk hs) g1 g2).2.1]
        intro h'; cases h'
  | copyToMem src d cnt doff soff =>
    simp only [step, doCopyToMem]
    split
    · intro h'; cases h'
    · intro h'; cases h'
    · intro h'; cases h'
    · rename_i sv dv hs hd
      split
      · intro h'; cases h'
      · rename_i bytes dOff sOff hcg
        obtain ⟨_, _, _, g1, g2⟩ := copyGuards_ok hcg
        rw [(copyBytes_inv h (h.viewOk hd) (h.viewOk hs) g1 g2).2.1]
        intro h'; cases h'
  | assign d src => intro h'; cases h'
  | free v =>
    simp only [step, doFree]
    split <;> (intro h'; cases h')
  | hostWrite hb off data =>
    simp only [step, doHostWrite]
    obtain ⟨b, hb1, hb2⟩ := h.host hb hc.1
    rw [hb1]
    simp only []
    rw [if_pos ⟨hc.1, by have := hc.2; omega⟩]
    intro h'; cases h'
  | hostRead hb off n =>
    simp only [step, doHostRead]
    obtain ⟨b, hb1, hb2⟩ := h.host hb hc.1
    rw [hb1]
    simp only []
    rw [if_pos ⟨hc.1, by have := hc.2; omega⟩]
    intro h'; cases h'

/-! ### what reads observe: byte `j` of a view -/

/-- byte `j` of view `p` in state `s` (`none`: outside the buffer) -/
def byteAt (s : State) (p : View) (j : Nat) : Option Byte := (s.bufs[p.buf]?).bind (·[p.off + j]?)

/-- the bytes a view stands for -/
def bytesOf (s : State) (p : View) : List Byte :=
  match s.bufs[p.buf]? with
  | some b => readAt b p.off p.size
  | none => []

theorem getElem?_bytesOf {s : State} {p : View} {j : Nat} (hj : j < p.size) : (bytesOf s p)[j]? = byteAt s p j := by
  unfold bytesOf byteAt
  cases s.bufs[p.buf]? with
  | none => simp
  | some b => simp [getElem?_readAt hj]

/-- bytes after overwriting `[pos, pos + data.length)` of buffer `i` -/
theorem byteAt_setBuf_writeAt {s : State} {i pos : Nat} {b : Buffer} {data : List Byte}
    (hb : s.bufs[i]? = some b) (hin : pos + data.length ≤ b.length) (q : View) (j : Nat) :
    byteAt (setBuf s i (writeAt b pos data)) q j =
      if q.buf = i ∧ pos ≤ q.off + j ∧ q.off + j < pos + data.length then data[q.off + j - pos]?
      else byteAt s q j := by
  have hlt : i < s.bufs.length := (List.getElem?_eq_some_iff.mp hb).1
  unfold byteAt setBuf
  by_cases hqi : q.buf = i
  · subst hqi
    simp only [List.getElem?_set_self hlt, hb, Option.bind_some, true_and]
    rw [getElem?_writeAt hin]
  · have hne : i ≠ q.buf := fun h => hqi h.symm
    simp only [List.getElem?_set_ne hne, hqi, false_and, if_false]

/-- `copyFromHost` that succeeded on an initialised handle: exactly the requested byte range of the
    handle's buffer is overwritten with the host data; nothing else changes -/
theorem copyFromHost_spec {s s' : State} (h : Inv s) {v : Nat} {p : View} {data : List UInt8} {cnt off : Int}
    {o : Option (List Byte)} (hp : view? s v = some p)
    (hs : step s (.copyFromHost v data cnt off) = (s', .ok o)) :
    0 ≤ countBytes p cnt ∧ 0 ≤ (p.esz : Int) * off ∧
    ((p.esz : Int) * off).toNat + (countBytes p cnt).toNat ≤ p.size ∧
    (countBytes p cnt).toNat ≤ data.length ∧
    s'.mems = s.mems ∧ s'.vars = s.vars ∧
    ∀ (q : View) (j : Nat), byteAt s' q j =
      if q.buf = p.buf ∧ p.off + ((p.esz : Int) * off).toNat ≤ q.off + j ∧
          q.off + j < p.off + ((p.esz : Int) * off).toNat + (countBytes p cnt).toNat
      then (data[q.off + j - (p.off + ((p.esz : Int) * off).toNat)]?).map some else byteAt s q j := by
  simp only [step, doCopyFromHost, hp] at hs
  by_cases h1 : countBytes p cnt ≥ -1
  case neg => rw [if_pos h1] at hs; cases hs
  rw [if_neg (not_not_intro h1)] at hs
  by_cases h2 : (p.esz : Int) * off ≥ 0
  case neg => rw [if_pos h2] at hs; cases hs
  rw [if_neg (not_not_intro h2)] at hs
  by_cases h3 : udimLe (countBytes p cnt + (p.esz : Int) * off) p.size = true
  case neg => rw [if_pos h3] at hs; cases hs
  rw [if_neg (not_not_intro h3)] at hs
  by_cases h4 : data.length < (countBytes p cnt).toNat
  · rw [if_pos h4] at hs; cases hs
  rw [if_neg h4] at hs
  obtain ⟨b, hb1, hb2⟩ := h.viewOk hp
  rw [hb1] at hs
  simp only [Prod.mk.injEq] at hs
  have hb := countBytes_nonneg h1
  simp only [udimLe, Bool.and_eq_true, decide_eq_true_eq] at h3
  have hlen : ((data.take (countBytes p cnt).toNat).map some).length = (countBytes p cnt).toNat := by
    simp only [List.length_map, List.length_take]; omega
  refine ⟨hb, h2, by omega, by omega, ?_, ?_, ?_⟩
  · rw [← hs.1]; rfl
  · rw [← hs.1]; rfl
  · intro q j
    rw [← hs.1, byteAt_setBuf_writeAt hb1 (by rw [hlen]; omega), hlen]
    split
    · rename_i hr
      have : q.off + j - (p.off + ((p.esz : Int) * off).toNat) < (countBytes p cnt).toNat := by omega
      simp only [List.getElem?_map, List.getElem?_take, this, if_true]
    · rfl

/-- `copyToHost` that succeeded on an initialised handle returns exactly the requested bytes of the
    view and changes nothing -/
theorem copyToHost_spec {s s' : State} (h : Inv s) {v cap : Nat} {p : View} {cnt off : Int}
    {o : Option (List Byte)} (hp : view? s v = some p)
    (hs : step s (.copyToHost v cap cnt off) = (s', .ok o)) :
    s' = s ∧ 0 ≤ countBytes p cnt ∧ 0 ≤ (p.esz : Int) * off ∧
    ((p.esz : Int) * off).toNat + (countBytes p cnt).toNat ≤ p.size ∧
    ∃ out, o = some out ∧ out.length = (countBytes p cnt).toNat ∧
      ∀ k, k < (countBytes p cnt).toNat → out[k]? = byteAt s p (((p.esz : Int) * off).toNat + k) := by
  simp only [step, doCopyToHost, hp] at hs
  by_cases h1 : countBytes p cnt ≥ -1
  case neg => rw [if_pos h1] at hs; cases hs
  rw [if_neg (not_not_intro h1)] at hs
  by_cases h2 : (p.esz : Int) * off ≥ 0
  case neg => rw [if_pos h2] at hs; cases hs
  rw [if_neg (not_not_intro h2)] at hs
  by_cases h3 : udimLe (countBytes p cnt + (p.esz : Int) * off) p.size = true
  case neg => rw [if_pos h3] at hs; cases hs
  rw [if_neg (not_not_intro h3)] at hs
  by_cases h4 : cap < (countBytes p cnt).toNat
  · rw [if_pos h4] at hs; cases hs
  rw [if_neg h4] at hs
  obtain ⟨b, hb1, hb2⟩ := h.viewOk hp
  rw [hb1] at hs
  simp only [Prod.mk.injEq, Res.ok.injEq] at hs
  have hb := countBytes_nonneg h1
  simp only [udimLe, Bool.and_eq_true, decide_eq_true_eq] at h3
  refine ⟨hs.1.symm, hb, h2, by omega, _, hs.2.symm, readAt_length (by omega), ?_⟩
  intro k hk
  rw [getElem?_readAt hk]
  unfold byteAt
  rw [hb1]
  simp only [Option.bind_some]
  congr 1; omega

/-- a device-to-device copy that passed its guards: the destination range receives the bytes the
    source range held *before* the copy (overlapping ranges included); nothing else changes -/
theorem copyBytes_spec {s : State} {dst src : View} (hd : ViewOk s dst) (hsv : ViewOk s src)
    {bytes dOff sOff : Nat} (h1 : sOff + bytes ≤ src.size) (h2 : dOff + bytes ≤ dst.size) (q : View) (j : Nat) :
    byteAt (copyBytes s dst src bytes dOff sOff).1 q j =
      if q.buf = dst.buf ∧ dst.off + dOff ≤ q.off + j ∧ q.off + j < dst.off + dOff + bytes
      then byteAt s src (sOff + (q.off + j - (dst.off + dOff))) else byteAt s q j := by
  obtain ⟨db, hd1, hd2⟩ := hd
  obtain ⟨sb, hs1, hs2⟩ := hsv
  rw [copyBytes_eq hd1 hs1]
  have hr : (readAt sb (src.off + sOff) bytes).length = bytes := readAt_length (by omega)
  simp only []
  rw [byteAt_setBuf_writeAt hd1 (by rw [hr]; omega), hr]
  split
  · rename_i hc
    have : q.off + j - (dst.off + dOff) < bytes := by omega
    rw [getElem?_readAt this]
    unfold byteAt
    rw [hs1]
    simp only [Option.bind_some]
    have hlt : src.off + sOff + (q.off + j - (dst.off + dOff)) < sb.length := by omega
    congr 1; omega
  · rfl

/-! ### histories -/

/-- the caller's contract along a history -/
def ContractAll : State → List Op → Prop
  | _, [] => True
  | s, op :: rest => Contract s op ∧ ContractAll (step s op).1 rest

theorem results_noTrap {s : State} (h : Inv s) {ops : List Op} (hc : ContractAll s ops) :
    Res.trap ∉ results s ops := by
  induction ops generalizing s with
  | nil => simp [results]
  | cons op rest ih =>
    simp only [results, List.mem_cons, not_or]
    exact ⟨fun he => step_noTrap h hc.1 he.symm, ih (step_inv h op) hc.2⟩

theorem view?_assign {s : State} {d : Nat} {m : Option Nat} (x : Nat) :
    view? (setVar s d m) x = if x = d then m.bind (fun k => s.mems[k]?) else view? s x := by
  unfold view? setVar
  simp only []
  split <;> rfl

theorem view?_pushMem_new {s : State} {d : Nat} {v : View} :
    view? (setVar (pushMem s v) d (some s.mems.length)) d = some v := by
  rw [view?_assign]
  simp [pushMem]

theorem view?_pushMem_old {s : State} (h : Inv s) {d x : Nat} {v : View} (hx : x ≠ d) :
    view? (setVar (pushMem s v) d (some s.mems.length)) x = view? s x := by
  rw [view?_assign, if_neg hx]
  unfold view?
  cases hv : s.vars x with
  | none => simp [pushMem, hv]
  | some m =>
    have := h.vars _ _ hv
    simp [pushMem, hv, List.getElem?_append_left this]

theorem view_of_same {s s' : State} (hm : s'.mems = s.mems) (hv : s'.vars = s.vars) (x : Nat) :
    view? s' x = view? s x := by
  unfold view?; rw [hm, hv]

end Occa.Mem
