/-
`step_inv`: every operation of the model preserves `SInv`; hence every reachable state satisfies it.
-/
import OccaProofs.Lemmas.PoolStep

namespace Occa.Pool

theorem slotLive_false_of_not {s : State} {k : Nat} (h : ¬ (k ≥ NSLOT ∨ s.slotLive k = true)) :
    k < NSLOT ∧ s.slotLive k = false := by
  constructor
  · omega
  · cases hl : s.slotLive k with
    | false => rfl
    | true => exact absurd (Or.inr hl) h

theorem step_newBuf_ops {c : Cfg} (hc : c.Fixed) {s : State} (h : SInv s) :
    (∀ k n, SInv (step c s (.malloc k n)).1) ∧ (∀ k n sd, SInv (step c s (.mallocsrc k n sd)).1) ∧
    (∀ k n o sd, SInv (step c s (.mallochost k n o sd)).1) ∧ (∀ k n sd, SInv (step c s (.wrap k n sd)).1) ∧
    (∀ k j, SInv (step c s (.clone k j)).1) := by
  refine ⟨?_, ?_, ?_, ?_, ?_⟩
  · intro k n
    by_cases hbad : k ≥ NSLOT ∨ s.slotLive k = true
    · simp only [step, if_pos hbad]; exact h
    · have hk := slotLive_false_of_not hbad
      by_cases hn : n = 0
      · simp only [step, if_neg hbad, if_pos hn]; exact h
      · simp only [step, if_neg hbad, if_neg hn]
        exact newBuf_inv h hk.1 hk.2 _ _ _
  · intro k n sd
    by_cases hbad : k ≥ NSLOT ∨ s.slotLive k = true
    · simp only [step, if_pos hbad]; exact h
    · have hk := slotLive_false_of_not hbad
      by_cases hn : n = 0
      · simp only [step, if_neg hbad, if_pos hn]; exact h
      · simp only [step, if_neg hbad, if_neg hn]
        exact newBuf_inv h hk.1 hk.2 _ _ _
  · intro k n o sd
    by_cases hbad : k ≥ NSLOT ∨ s.slotLive k = true
    · simp only [step, if_pos hbad]; exact h
    · have hk := slotLive_false_of_not hbad
      by_cases hn : n = 0
      · simp only [step, if_neg hbad, if_pos hn]; exact h
      · simp only [step, if_neg hbad, if_neg hn, hc.2.2.2.2.1, if_true]
        exact newBuf_inv h hk.1 hk.2 _ _ _
  · intro k n sd
    by_cases hbad : k ≥ NSLOT ∨ s.slotLive k = true
    · simp only [step, if_pos hbad]; exact h
    · have hk := slotLive_false_of_not hbad
      simp only [step, if_neg hbad]
      exact newBuf_inv h hk.1 hk.2 _ _ _
  · intro k j
    by_cases hbad : k ≥ NSLOT ∨ s.slotLive k = true
    · simp only [step, if_pos hbad]; exact h
    · have hk := slotLive_false_of_not hbad
      cases hr : s.readSlot j with
      | none => simp only [step, if_neg hbad, hr]; exact h
      | some b =>
        by_cases hb : b.length = 0
        · simp only [step, if_neg hbad, hr, if_pos hb]; exact h
        · simp only [step, if_neg hbad, hr, if_neg hb]
          exact newBuf_inv h hk.1 hk.2 _ _ _

theorem step_slice {c : Cfg} (hc : c.Fixed) {s : State} (h : SInv s) (k j off : Nat) (cnt : Int) :
    SInv (step c s (.slice k j off cnt)).1 ∧ Preserves s (step c s (.slice k j off cnt)).1 := by
  by_cases hbad : k ≥ NSLOT ∨ s.slotLive k = true ∨ cnt < -1
  · simp only [step, if_pos hbad]; exact ⟨h, Preserves.refl s⟩
  have hk : k < NSLOT ∧ s.slotLive k = false :=
    slotLive_false_of_not (fun hh => hbad (hh.elim Or.inl (fun x => Or.inr (Or.inl x))))
  rcases locate_cases s j with ⟨i, p, r, hloc, hp, hf⟩ | ⟨m, hloc, hm⟩ | hloc
  · cases hsb : sliceBytes r.size off cnt with
    | error e => simp only [step, if_neg hbad, hloc, hsb]; exact ⟨h, Preserves.refl s⟩
    | ok bytes =>
      have hfit := sliceBytes_ok hsb
      have hr := (findSlot_some hf).1
      obtain ⟨hsl, hinv, hpres⟩ := pool_slice_step hc h hp hr hk.1 hk.2 hfit
      simp only [step, if_neg hbad, hloc, hsb, hsl]
      exact ⟨hinv, hpres⟩
  · cases hsb : sliceBytes m.size off cnt with
    | error e => simp only [step, if_neg hbad, hloc, hsb]; exact ⟨h, Preserves.refl s⟩
    | ok bytes =>
      simp only [step, if_neg hbad, hloc, hsb]
      exact ⟨dev_slice_inv h hk.1 hk.2 (findMem_some hm).1 _ _,
        preserves_of_pools_eq (fun j => by rcases j with _ | _ | j <;> rfl)⟩
  · simp only [step, if_neg hbad, hloc.1]; exact ⟨h, Preserves.refl s⟩

theorem step_write {c : Cfg} {s : State} (h : SInv s) (k off len seed : Nat) :
    SInv (step c s (.write k off len seed)).1 := by
  have hplen : (pattern seed len).length = len := by simp [pattern]
  rcases locate_cases s k with ⟨i, p, r, hloc, hp, hf⟩ | ⟨m, hloc, hm⟩ | hloc
  · by_cases hfit : off + len > r.size
    · simp only [step, hloc, if_pos hfit]; exact h
    · simp only [step, hloc, if_neg hfit]
      exact pool_write_step h hp (findSlot_some hf).1 (by rw [hplen]; omega)
  · by_cases hfit : off + len > m.size
    · simp only [step, hloc, if_pos hfit]; exact h
    · simp only [step, hloc, if_neg hfit]
      exact dev_write_inv h _ _
  · simp only [step, hloc.1]; exact h

theorem step_misc {c : Cfg} (hc : c.Fixed) {s : State} (h : SInv s) :
    (∀ b, SInv (step c s (.dev b)).1) ∧ (∀ i, SInv (step c s (.pool i)).1) ∧ (∀ i, SInv (step c s (.pfree i)).1) ∧
    (∀ k, SInv (step c s (.read k)).1) ∧ SInv (step c s .freeall).1 := by
  refine ⟨?_, ?_, ?_, ?_, ?_⟩
  · intro b
    by_cases hcond : s.pool0.isNone = true ∧ s.pool1.isNone = true ∧ s.mems.isEmpty = true ∧ s.dev.alloc = 0 ∧ s.dev.maxAlloc = 0
    · simp only [step, if_pos hcond]
      have h0 : s.pool 0 = none := Option.isNone_iff_eq_none.1 hcond.1
      have h1 : s.pool 1 = none := Option.isNone_iff_eq_none.1 hcond.2.1
      have hacc := h.account
      rw [h0, h1, hcond.2.2.2.1] at hacc
      simp only [poolSize] at hacc
      refine sinv_update_dev h (Nat.le_refl _) (fun j => by rcases j with _ | _ | j <;> rfl) devOK_init ?_
        h.bufIds h.bufBelow h.bufLive h.memSlots h.memBelow h.cross
      show (0 : Nat) + countedBytes s.bufs = s.dev.alloc + countedBytes s.bufs
      omega
    · simp only [step, if_neg hcond]; exact h
  · intro i
    by_cases hcond : i < 2 ∧ (s.pool i).isNone = true
    · simp only [step, if_pos hcond]
      exact add_pool_inv hc h hcond.1 (Option.isNone_iff_eq_none.1 hcond.2)
    · simp only [step, if_neg hcond]; exact h
  · intro i
    by_cases hcond : (s.pool i).isSome = true
    · simp only [step, if_pos hcond]; exact freePool_inv h i
    · simp only [step, if_neg hcond]; exact h
  · intro k
    cases hr : s.readSlot k with
    | none => simp only [step, hr]; exact h
    | some b => simp only [step, hr]; exact h
  · simp only [step]
    exact freePool_inv (freePool_inv (releaseAllFrom_inv hc _ _ h) 0) 1

/-- every operation preserves the state invariant -/
theorem step_inv {c : Cfg} (hc : c.Fixed) {s : State} (h : SInv s) (op : Op) : SInv (step c s op).1 := by
  cases op with
  | dev b => exact (step_misc hc h).1 b
  | pool i => exact (step_misc hc h).2.1 i
  | pfree i => exact (step_misc hc h).2.2.1 i
  | reserve i k n => exact (step_reserve hc h i k n).1
  | release k => exact (step_release hc h k).1
  | slice k j off cnt => exact (step_slice hc h k j off cnt).1
  | resize i n => exact (step_resize hc h i n).1
  | shrink i => exact (step_shrink hc h i).1
  | align i a => exact (step_align h i a).1
  | write k off len seed => exact step_write h k off len seed
  | read k => exact (step_misc hc h).2.2.2.1 k
  | malloc k n => exact (step_newBuf_ops hc h).1 k n
  | mallocsrc k n sd => exact (step_newBuf_ops hc h).2.1 k n sd
  | mallochost k n o sd => exact (step_newBuf_ops hc h).2.2.1 k n o sd
  | wrap k n sd => exact (step_newBuf_ops hc h).2.2.2.1 k n sd
  | clone k j => exact (step_newBuf_ops hc h).2.2.2.2 k j
  | freeall => exact (step_misc hc h).2.2.2.2

theorem run_inv_from {c : Cfg} (hc : c.Fixed) : ∀ (ops : List Op) (s : State), SInv s →
    SInv (ops.foldl (fun s o => (step c s o).1) s) := by
  intro ops
  induction ops with
  | nil => intro s h; exact h
  | cons o os ih => intro s h; exact ih _ (step_inv hc h o)

/-- every state reached from the initial state satisfies the invariant -/
theorem run_inv {c : Cfg} (hc : c.Fixed) (ops : List Op) : SInv (run c ops) :=
  run_inv_from hc ops {} sinv_init

end Occa.Pool
