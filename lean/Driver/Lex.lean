import OccaModel.Lex
import OccaModel.Proto
open Occa Occa.Lex Occa.Proto

/-! Line protocol of the C12 model (same operations as harness/h_lex.cpp):
      T <hex>        tokenize the byte string              -> e=<errors> <tok> …
      R <item> …     build tokens, print them, re-tokenize -> t=<hex text> e=<errors> <tok> …
      E <q> <hex>    escape    U <q> <hex>   unescape      G <hex>  string / char encoding
      H <hex>        getHeader() at the start of the source -> h=<hex> p=<offset> e=<errors>
    token:  I:<hex> | P:<hex> | O:<id> | N | S:<enc>:<hex>:<hex> | C:<enc>:<hex>:<hex> | M:<hex> | U:<hex> -/

def chars (bs : List Nat) : Str := bs.map Char.ofNat
def hexS (s : Str) : String := hex (s.map Char.toNat)

def showTok : Tok → String
  | .ident v => "I:" ++ hexS v
  | .prim v => "P:" ++ hexS v
  | .op id => "O:" ++ toString id
  | .newline => "N"
  | .str e v u => "S:" ++ toString e ++ ":" ++ hexS v ++ ":" ++ hexS u
  | .chr e v u => "C:" ++ toString e ++ ":" ++ hexS v ++ ":" ++ hexS u
  | .comment v => "M:" ++ hexS v
  | .unknown c => "U:" ++ hexS [c]

def showRun : M Result → String
  | .error .oob => "TRAP-OOB"
  | .error .fuel => "TRAP-FUEL"
  | .ok r => " ".intercalate (("e=" ++ toString r.errors) :: r.toks.map showTok)

/-- one item of an R line: a token or a raw separator -/
def parseItem (s : String) : Option (Sum Tok Str) :=
  match s.splitOn ":" with
  | ["W", h] => (unhex h).map fun b => .inr (chars b)
  | ["I", h] => (unhex h).map fun b => .inl (.ident (chars b))
  | ["P", h] => (unhex h).map fun b => .inl (.prim (chars b))
  | ["O", n] => n.toNat?.bind fun id => if id < Gen.registered.length then some (.inl (.op id)) else none
  | ["S", e, v, u] => do
      let e ← e.toNat?
      let v ← unhex v
      let u ← unhex u
      pure (.inl (.str e (chars v) (chars u)))
  | ["C", e, v, u] => do
      let e ← e.toNat?
      let v ← unhex v
      let u ← unhex u
      pure (.inl (.chr e (chars v) (chars u)))
  | ["M", h] => (unhex h).map fun b => .inl (.comment (chars b))
  | _ => none

def step (_ : Unit) (toks : List String) : Unit × String :=
  match toks with
  | ["T", h] => match unhex h with
      | some b => ((), showRun (tokenizeBytes (chars b)))
      | none => ((), "bad-op")
  | "R" :: items => match items.mapM parseItem with
      | some its =>
        let text := its.flatMap fun | .inl t => printTok t | .inr w => w
        ((), "t=" ++ hexS text ++ " " ++ showRun (tokenizeBytes text))
      | none => ((), "bad-op")
  | ["H", h] => match unhex h with
      | some b =>
        let s := cstr (chars b)
        ((), match getHeader s with
          | .error .oob => "TRAP-OOB"
          | .error .fuel => "TRAP-FUEL"
          | .ok (v, e, r') => "h=" ++ hexS v ++ " p=" ++ toString (s.length - r'.length) ++ " e=" ++ toString e)
      | none => ((), "bad-op")
  | ["E", q, h] => match unhex q, unhex h with
      | some [q], some b => ((), hexS (escape (Char.ofNat q) (chars b)))
      | _, _ => ((), "bad-op")
  | ["U", q, h] => match unhex q, unhex h with
      | some [q], some b => ((), hexS (unescape (Char.ofNat q) (chars b)))
      | _, _ => ((), "bad-op")
  | ["G", h] => match unhex h with
      | some b => ((), toString (getStringEncoding (cstr (chars b))) ++ " " ++ toString (getCharacterEncoding (cstr (chars b))))
      | none => ((), "bad-op")
  | _ => ((), "bad-op")

def main : IO Unit := Proto.run () step
