import OccaModel.Dtype
import OccaModel.Proto
open Occa Occa.Dtype Occa.Proto

/-! Line-protocol driver of the dtype / kernel-metadata / argument-validation model.
    Same operations and canonical observations as harness/h_dtype.cpp (and, for `SIG`, as the
    model side of tools/checks/C10.py).  Strings travel hex-encoded (`-` = empty). -/

def hexS (s : String) : String := hex (s.toUTF8.toList.map (·.toNat))

def unhexS (h : String) : Option String := do
  let bs ← unhex h
  String.fromUTF8? (ByteArray.mk (bs.map UInt8.ofNat).toArray)

/-! ### canonical text of a dtype -/

mutual
  partial def desc : Dtype → String
    | .prim n => s!"B({hexS n},{primBytes n})"
    | .custom n b => s!"C({hexS n},{b})"
    | .enum_ n b es => s!"E({hexS n},{b};{",".intercalate (es.map hexS)})"
    | .tuple n e k => s!"T({hexS n},{(Dtype.tuple n e k).bytes},{k},{desc e})"
    | .struct n fs => s!"S({hexS n},{fs.bytes};{",".intercalate (descFields fs)})"
    | .union_ n fs => s!"U({hexS n},{fs.bytes};{",".intercalate (descFields fs)})"
  partial def descFields : Fields → List String
    | .nil => []
    | .cons n d r => s!"{hexS n}={desc d}" :: descFields r
end

/-! ### canonical text of a JSON value; objects sorted by key -/

def insertKV (kv : String × String) : List (String × String) → List (String × String)
  | [] => [kv]
  | x :: r => if kv.1 < x.1 then kv :: x :: r else x :: insertKV kv r

partial def jtext : Json → String
  | .null => "n"
  | .bool b => if b then "b1" else "b0"
  | .num n => s!"i{n}"
  | .str s => s!"s{hexS s}"
  | .arr xs => "[" ++ ",".intercalate (xs.map jtext) ++ "]"
  | .obj kvs =>
      let es := kvs.foldl (fun acc kv => insertKV (kv.1, jtext kv.2) acc) []
      "{" ++ ",".intercalate (es.map fun e => s!"{hexS e.1}:{e.2}") ++ "}"

/-- parser for the same syntax (object keys hex) -/
partial def jparse (cs : List Char) : Option (Json × List Char) :=
  let tok (cs : List Char) : String × List Char :=
    let t := cs.takeWhile (fun c => c != ',' && c != ']' && c != '}' && c != ':')
    (String.ofList t, cs.drop t.length)
  match cs with
  | 'n' :: r => some (.null, r)
  | 'b' :: '0' :: r => some (.bool false, r)
  | 'b' :: '1' :: r => some (.bool true, r)
  | 'i' :: r =>
      let (t, r') := tok r
      t.toInt?.map fun n => (.num n, r')
  | 's' :: r =>
      let (t, r') := tok r
      (unhexS t).map fun s => (.str s, r')
  | '[' :: ']' :: r => some (.arr [], r)
  | '[' :: r =>
      let rec items (cs : List Char) (acc : List Json) : Option (Json × List Char) :=
        match jparse cs with
        | some (v, ',' :: r) => items r (acc ++ [v])
        | some (v, ']' :: r) => some (.arr (acc ++ [v]), r)
        | _ => none
      items r []
  | '{' :: '}' :: r => some (.obj [], r)
  | '{' :: r =>
      let rec members (cs : List Char) (acc : List (String × Json)) : Option (Json × List Char) :=
        let (k, r1) := tok cs
        match unhexS k, r1 with
        | some key, ':' :: r2 =>
            -- std::map semantics: a later duplicate key replaces the earlier value
            let put (acc : List (String × Json)) (v : Json) :=
              if acc.any (·.1 == key) then acc.map (fun kv => if kv.1 == key then (key, v) else kv) else acc ++ [(key, v)]
            match jparse r2 with
            | some (v, ',' :: r3) => members r3 (put acc v)
            | some (v, '}' :: r3) => some (.obj (put acc v), r3)
            | _ => none
        | _, _ => none
      members r []
  | _ => none

partial def jdepth : Json → Nat
  | .arr xs => 1 + xs.foldl (fun n x => max n (jdepth x)) 0
  | .obj kvs => 1 + kvs.foldl (fun n kv => max n (jdepth kv.2)) 0
  | _ => 1

/-! ### state -/

structure St where
  slots : Array Dtype := #[]
  km : KernelMeta := { initialized := false, name := "", arguments := [] }
  kmRT : Option KernelMeta := none

def descMeta (m : KernelMeta) : String :=
  let args := m.arguments.map fun a =>
    s!"{if a.isConst then 1 else 0},{if a.isPtr then 1 else 0},{hexS a.name},{desc a.dtype}"
  s!"{if m.initialized then 1 else 0}|{hexS m.name}|{";".intercalate args}"

def showCast : Except Trap Bool → String
  | .ok true => "1"
  | .ok false => "0"
  | .error _ => "trap"

def showV : Except VErr Unit → String
  | .ok _ => "ok"
  | .error .count => "count"
  | .error (.expectsMemory i) => s!"mem{i}"
  | .error (.expectsNonMemory i) => s!"nonmem{i}"
  | .error (.wrongType i) => s!"type{i}"
  | .error (.trap _) => "trap"

/-- `k` groups `hexfield slot tsize` -/
def parseFields (st : St) : List String → Option (List (String × Dtype × Int))
  | [] => some []
  | f :: s :: t :: r => do
      let fname ← unhexS f
      let i ← s.toNat?
      let d ← st.slots[i]?
      let k ← t.toInt?
      let rest ← parseFields st r
      pure ((fname, d, k) :: rest)
  | _ => none

/-- dtype_t::addField applied in sequence; none = occa::exception -/
def addFields (fs : List (String × Dtype × Int)) : Option Fields :=
  fs.foldlM (fun (acc : Fields) (f : String × Dtype × Int) =>
    if f.2.2 ≤ 0 then none
    else if acc.names.contains f.1 then none
    else some (acc.snoc f.1 (if f.2.2 == 1 then f.2.1 else .tuple "" f.2.1 f.2.2))) .nil

/-- `<longQ> <ptrs> <narr> <arr>* (P <pname> | D <vtype>)` -/
partial def parseVType : List String → Option (VType × List String)
  | lq :: ps :: na :: r => do
      let longQ ← lq.toNat?
      let ptrs ← ps.toNat?
      let n ← na.toNat?
      let arrs ← (r.take n).mapM fun t => if t == "?" then some none else t.toInt?.map some
      match r.drop n with
      | "P" :: p :: r' => pure (.mk (.prim p) longQ ptrs arrs, r')
      | "D" :: r' => do
          let (b, r'') ← parseVType r'
          pure (.mk (.tdef b) longQ ptrs arrs, r'')
      | _ => none
  | _ => none

partial def parseParams : List String → Option (List Param)
  | [] => some []
  | c :: hn :: r => do
      let name ← unhexS hn
      let (vt, r') ← parseVType r
      let rest ← parseParams r'
      pure ({ isConst := c == "1", vtype := vt, name := name } :: rest)
  | _ => none

def parseArg (st : St) (t : String) : Option Arg :=
  if t == "z" || t == "u" then some .null
  else if t == "s" || t == "d" then some .scalar
  else if t == "h" then some .hostPtr
  else if t.startsWith "m" then do
    let i ← (t.drop 1).toString.toNat?
    let d ← st.slots[i]?
    pure (.mem d)
  else none

def step (st : St) (toks : List String) : St × String :=
  let push (d : Dtype) : St × String := ({ st with slots := st.slots.push d }, desc d)
  let bad : St × String := (st, "bad-op")
  match toks with
  | ["B", key] => push (getBuiltin key)
  | ["C", hn, b, _reg] =>
      match unhexS hn, b.toInt? with
      | some n, some bytes => push (.custom n bytes)
      | _, _ => bad
  | "E" :: hn :: b :: _k :: es =>
      match unhexS hn, b.toInt?, es.mapM unhexS with
      | some n, some bytes, some names =>
          if names.isEmpty then push (.custom n bytes)
          else if names.eraseDups.length != names.length then (st, "err")
          else push (.enum_ n bytes names)
      | _, _, _ => bad
  | ["T", s, k] =>
      match s.toNat? >>= (st.slots[·]?), k.toInt? with
      | some d, some size => push (.tuple "" d size)
      | _, _ => bad
  | "S" :: hn :: _k :: fs =>
      match unhexS hn, parseFields st fs with
      | some n, some l =>
          if l.isEmpty then push (.custom n 0)
          else match addFields l with
            | some f => push (.struct n f)
            | none => (st, "err")
      | _, _ => bad
  | "U" :: hn :: _k :: fs =>
      match unhexS hn, parseFields st fs with
      | some n, some l =>
          match addFields l with
          | some f => push (.union_ n f)
          | none => (st, "err")
      | _, _ => bad
  | ["Y", s] =>
      match s.toNat? >>= (st.slots[·]?) with
      | some d => push d
      | none => bad
  | ["J", s, hn] =>
      match s.toNat? >>= (st.slots[·]?), unhexS hn with
      | some d, some n => (st, jtext (d.toJson n))
      | _, _ => bad
  | ["R", s, hn] =>
      match s.toNat? >>= (st.slots[·]?), unhexS hn with
      | some d, some n =>
          match Dtype.fromJson (d.depth + 1) (d.toJson n) with
          | .ok d' => ({ st with slots := st.slots.push d' }, desc d')
          | .error _ => (st, "err")
      | _, _ => bad
  | ["F", txt] =>
      match jparse txt.toList with
      | some (j, []) =>
          match Dtype.fromJson (jdepth j + 1) j with
          | .ok d => push d
          | .error _ => (st, "err")
      | _ => bad
  | ["X", a, b] =>
      match a.toNat? >>= (st.slots[·]?), b.toNat? >>= (st.slots[·]?) with
      | some x, some y => (st, showCast (canCast x y))
      | _, _ => bad
  | ["M"] =>
      let l := st.slots.toList
      (st, "M " ++ "/".intercalate (l.map fun a => String.join (l.map fun b => showCast (canCast a b))))
  | ["KN", hn] =>
      match unhexS hn with
      | some n => ({ st with km := { st.km with name := n } }, "ok")
      | none => bad
  | ["KI", b] => ({ st with km := { st.km with initialized := b == "1" } }, "ok")
  | ["KA", c, p, s, hn] =>
      match s.toNat? >>= (st.slots[·]?), unhexS hn with
      | some d, some n =>
          ({ st with km := st.km.push { isConst := c == "1", isPtr := p == "1", dtype := d, name := n } }, "ok")
      | _, _ => bad
  | ["KJ"] => (st, jtext st.km.toJson)
  | ["KR"] =>
      match KernelMeta.fromJson (st.km.depth + 1) st.km.toJson with
      | .ok m => ({ st with kmRT := some m }, descMeta m)
      | .error _ => (st, "err")
  | ["KD"] => (st, descMeta st.km)
  | "V" :: tv :: args =>
      match args.mapM (parseArg st) with
      | some as =>
          let r1 := showV (validate st.km (tv == "1") as)
          let r2 := match st.kmRT with
            | some m => showV (validate m (tv == "1") as)
            | none => "-"
          (st, s!"{r1} {r2}")
      | none => bad
  | "SIG" :: hk :: ps =>
      match unhexS hk, parseParams ps with
      | some kname, some params =>
          let m := metaOfSignature kname params
          ({ st with km := m, kmRT := none }, jtext m.toJson)
      | _, _ => bad
  | _ => bad

def main : IO Unit := Proto.run ({} : St) step
