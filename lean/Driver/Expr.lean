import OccaModel.Expr
import OccaModel.ExprShape
import OccaModel.Proto
open Occa Occa.Gen Occa.Expr Occa.Proto

/-- percent coding shared with harness/h_expr.cpp: bytes <= 32, '%' and >= 127 become %xx -/
def pct (cs : List Char) : String :=
  if cs.isEmpty then "%" else
  String.ofList (cs.flatMap fun c =>
    let n := c.toNat
    if n ≤ 32 || c == '%' || n ≥ 127 then ['%', hexNib (n / 16 % 16), hexNib (n % 16)] else [c])

def unpct : List Char → Option (List Char)
  | [] => some []
  | '%' :: a :: b :: rest => do
      let x ← hexDigit a
      let y ← hexDigit b
      let r ← unpct rest
      pure (Char.ofNat (16 * x + y) :: r)
  | '%' :: _ => none
  | c :: rest => do let r ← unpct rest; pure (c :: r)

def unpctArg (s : String) : Option (List Char) := if s == "%" then some [] else unpct s.toList

structure DSem where
  one : String
  args : List String

/-- the s-expression dump of harness/h_expr.cpp (observation form: literals by spelling) -/
def dsem : Expr → DSem
  | .empty => let one := "(empty)"; { one, args := [one] }
  | .ident s => let one := "(id " ++ pct s.toList ++ ")"; { one, args := [one] }
  | .prim s => let one := "(prim " ++ pct s.toList ++ ")"; { one, args := [one] }
  | .str e v u => let one := "(str " ++ e ++ " " ++ pct v.toList ++ " " ++ pct u.toList ++ ")"; { one, args := [one] }
  | .chr e v u => let one := "(chr " ++ e ++ " " ++ pct v.toList ++ " " ++ pct u.toList ++ ")"; { one, args := [one] }
  | .vtype n k => let one := "(vartype " ++ n ++ String.ofList (List.replicate k '*') ++ ")"; { one, args := [one] }
  | .lu o e => let one := "(lu " ++ pct o.str.toList ++ " " ++ (dsem e).one ++ ")"; { one, args := [one] }
  | .ru o e => let one := "(ru " ++ pct o.str.toList ++ " " ++ (dsem e).one ++ ")"; { one, args := [one] }
  | .bin o l r =>
    let dl := dsem l
    let dr := dsem r
    let one := "(bin " ++ pct o.str.toList ++ " " ++ dl.one ++ " " ++ dr.one ++ ")"
    { one, args := if has o.ty T.comma then dl.args ++ [dr.one] else [one] }
  | .tern c t f => let one := "(tern " ++ (dsem c).one ++ " " ++ (dsem t).one ++ " " ++ (dsem f).one ++ ")"; { one, args := [one] }
  | .paren e => let one := "(par " ++ (dsem e).one ++ ")"; { one, args := [one] }
  | .call f a => let one := "(call " ++ (dsem f).one ++ String.join ((dsem a).args.map (" " ++ ·)) ++ ")"; { one, args := [one] }
  | .sub v i => let one := "(sub " ++ (dsem v).one ++ " " ++ (dsem i).one ++ ")"; { one, args := [one] }
  | .cast n k e => let one := "(cast " ++ n ++ String.ofList (List.replicate k '*') ++ " " ++ (dsem e).one ++ ")"; { one, args := [one] }
  | .sizeof e => let one := "(sizeof " ++ (dsem e).one ++ ")"; { one, args := [one] }
  | .throw_ e => let one := "(throw " ++ (dsem e).one ++ ")"; { one, args := [one] }
  | .tuple a => let one := "(tuple" ++ String.join ((dsem a).args.map (" " ++ ·)) ++ ")"; { one, args := [one] }
  | .pair o e => let one := "(pair " ++ pct o.str.toList ++ " " ++ (dsem e).one ++ ")"; { one, args := [one] }

def dump (e : Expr) : String := (dsem e).one

def parseText (cs : List Char) : Except Err Expr :=
  match lex cs with
  | .error x => .error x
  | .ok ts => parse (typeTokens ts)

def roundTrip (cs : List Char) : String :=
  match parseText cs with
  | .error .trap => "CRASH"
  | .error _ => "err"
  | .ok e =>
    let t1 := dump e
    let text := toStr e
    let r := match parseText text with
      | .error _ => "err"
      | .ok e2 => if dump e2 == t1 then "same" else dump e2
    "ok T=" ++ t1 ++ " P=" ++ pct text ++ " R=" ++ r

/-- model-only probe: does the input have the C shape, does it parse, are the printed tokens the input -/
def shapeProbe (cs : List Char) : String :=
  match lex cs with
  | .error _ => "lexerr"
  | .ok ts0 =>
    let ts := typeTokens ts0
    let sh := if CShape ts then "shape=1" else "shape=0"
    match parse ts with
    | .error _ => sh ++ " parse=err"
    | .ok e => sh ++ " parse=ok printeq=" ++ (if printToks e == ts then "1" else "0") ++
                 " canon=" ++ (if canonB e then "1" else "0")

def step (_ : Unit) (toks : List String) : Unit × String :=
  match toks with
  | "K" :: ts => ((), shapeProbe (" ".intercalate ts).toList)
  | "E" :: ts => ((), roundTrip (" ".intercalate ts).toList)
  | "G" :: ts => ((), roundTrip (" ".intercalate ts).toList)
  | ["X", a] => match unpctArg a with
      | some cs => ((), roundTrip cs)
      | none => ((), "bad-op")
  | ["Q", a] => match unpctArg a with
      | some cs => ((), "ok " ++ pct (['"'] ++ escape '"' cs ++ ['"']) ++ " " ++ pct (['\''] ++ escape '\'' cs ++ ['\'']))
      | none => ((), "bad-op")
  | _ => ((), "bad-op")

def main : IO Unit := Proto.run () step
