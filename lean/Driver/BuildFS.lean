import OccaModel.BuildFS
import OccaModel.Proto
open Occa Occa.BuildFS Occa.Proto

/-!
Driver for the C08/C09 model.  A history describes one scenario:

  cfg <key> <value>         openmp|fromString|silent|parseOk 0|1 ; kdir|vdir|odir|rawBase|cppBase <name>
  content <key> <hex>       str raw cpp json vsrc vout osrc oout ooutna : what the producers write
  spec <final path> <hex>   a correct complete content of a written artefact (several lines per path allowed)
  recipe <final path> <src base>   a compiled artefact and the base name of its source (same directory)
  dir <d>                   initial file system: directory exists
  file <path> <hex>|ok|bad  initial file system: a closed file (`ok` = a correct compiled artefact)
  ev <pid> <step>           one observed step (see tools/checks/_buildfs.py)
  check accepts|good|consistent|norecompile
  model <pid>               the model's own step list (buildSteps) from the initial file system

Paths are `<dir>/<base>` (final) or `<dir>/<tok>:<base>` (temp).
-/

structure St where
  cfg : Config
  table : List (Path × Bytes)
  recipes : List (Path × String)
  fs0 : FS
  paths : List Path
  rtrace : Trace        -- reversed

def compileSym (b : String) (s : Bytes) : Bytes := 0xC0 :: (b.toUTF8.toList.map (·.toNat)) ++ 0 :: s

def specOf (st : St) : Spec where
  compile := compileSym
  recipe := fun p => (st.recipes.find? (fun x => x.1 == p)).map (·.2)
  valid := fun p bs =>
    if st.table.any (fun x => x.1 == p) then st.table.any (fun x => x.1 == p && x.2 == bs)
    else match (st.recipes.find? (fun x => x.1 == p)).map (·.2) with
      | some sb => st.table.any (fun x => x.1 == (⟨p.dir, none, sb⟩ : Path) && compileSym p.base x.2 == bs)
      | none => false

def cfg0 : Config :=
  { openmp := false, fromString := true, silent := false, parseOk := true,
    kdir := "K0", vdir := "V", odir := "O", rawBase := "string_source.raw_source.cpp",
    cppBase := "string_source.source.cpp", str := [], raw := [], cpp := [], json := [], vsrc := [],
    vout := [], osrc := [], oout := [], ooutNA := [], toks := fun n => "s" ++ toString n }

def st0 : St := { cfg := cfg0, table := [], recipes := [], fs0 := FS.empty, paths := [], rtrace := [] }

def parsePath (s : String) : Option Path :=
  match s.splitOn "/" with
  | [d, r] =>
      match r.splitOn ":" with
      | [b] => some ⟨d, none, b⟩
      | [t, b] => some ⟨d, some t, b⟩
      | _ => none
  | _ => none

def showPath (p : Path) : String :=
  match p.tmp with
  | none => p.dir ++ "/" ++ p.base
  | some t => p.dir ++ "/" ++ t ++ ":" ++ p.base

def b01 (b : Bool) : String := if b then "1" else "0"

def showEv (e : Ev) : String :=
  let body := match e.op with
    | .statDir d => "statdir " ++ d ++ " " ++ b01 e.res
    | .mkdir d => "mkdir " ++ d
    | .creat p => "creat " ++ showPath p
    | .append p bs => "append " ++ showPath p ++ " " ++ hex bs
    | .close p => "close " ++ showPath p
    | .fsync p => "fsync " ++ showPath p
    | .fsyncDir d => "fsyncdir " ++ d
    | .rename a b => "rename " ++ showPath a ++ " " ++ showPath b ++ " " ++ b01 e.res
    | .stat p => "stat " ++ showPath p ++ " " ++ b01 e.res
    | .openRead p => if e.res then "open " ++ showPath p else "stat " ++ showPath p ++ " 0"
    | .exec s outs => "exec " ++ showPath s ++ " " ++ (if outs.isEmpty then "-" else ",".intercalate (outs.map showPath))
    | .run p => "run " ++ showPath p
    | .rmrf d => "rmrf " ++ d
  "ev " ++ toString e.pid ++ " " ++ body

def parseEv (ts : List String) : Option Ev :=
  match ts with
  | pid :: rest => do
      let pid ← pid.toNat?
      match rest with
      | ["statdir", d, r] => some ⟨pid, .statDir d, r == "1"⟩
      | ["mkdir", d] => some ⟨pid, .mkdir d, true⟩
      | ["creat", p] => do let p ← parsePath p; some ⟨pid, .creat p, true⟩
      | ["append", p, h] => do let p ← parsePath p; let bs ← unhex h; some ⟨pid, .append p bs, true⟩
      | ["close", p] => do let p ← parsePath p; some ⟨pid, .close p, true⟩
      | ["fsync", p] => do let p ← parsePath p; some ⟨pid, .fsync p, true⟩
      | ["fsyncdir", d] => some ⟨pid, .fsyncDir d, true⟩
      | ["rename", a, b, r] => do let a ← parsePath a; let b ← parsePath b; some ⟨pid, .rename a b, r == "1"⟩
      | ["stat", p, r] => do let p ← parsePath p; some ⟨pid, .stat p, r == "1"⟩
      | ["open", p] => do let p ← parsePath p; some ⟨pid, .openRead p, true⟩
      | ["exec", s, outs] => do
          let s ← parsePath s
          let os ← if outs == "-" then some [] else (outs.splitOn ",").mapM parsePath
          some ⟨pid, .exec s os, true⟩
      | ["run", p] => do let p ← parsePath p; some ⟨pid, .run p, true⟩
      | ["rmrf", d] => some ⟨pid, .rmrf d, true⟩
      | _ => none
  | _ => none

def opPaths : Op → List Path
  | .creat p | .append p _ | .close p | .fsync p | .stat p | .openRead p | .run p => [p, p.final]
  | .rename a b => [a, b]
  | .exec s outs => s :: outs ++ outs.map Path.final
  | _ => []

/-- index and state of the first rejected step -/
def firstReject (S : Spec) : AS → Nat → Trace → Option (Nat × Ev)
  | _, _, [] => none
  | st, i, e :: t => match acceptStep S st e with
      | some st' => firstReject S st' (i+1) t
      | none => some (i, e)

/-- first prefix after which some final-named file is not complete and correct -/
def firstBad (S : Spec) (ps : List Path) : FS → Nat → Trace → Option (Nat × Path)
  | fs, i, [] => (ps.find? fun p => !goodOn S [p] fs).map fun p => (i, p)
  | fs, i, e :: t =>
      match ps.find? fun p => !goodOn S [p] fs with
      | some p => some (i, p)
      | none => firstBad S ps (applyOp S fs e.op) (i+1) t

def observable : Op → Bool
  | .statDir _ | .stat _ | .openRead _ | .rename _ _ => true
  | _ => false

def firstInconsistent (S : Spec) : FS → Nat → Trace → Option (Nat × Ev)
  | _, _, [] => none
  | fs, i, e :: t =>
      if observable e.op && result fs e.op != e.res then some (i, e)
      else firstInconsistent S (applyOp S fs e.op) (i+1) t

def setCfg (c : Config) (k v : String) : Option Config :=
  match k with
  | "openmp" => some { c with openmp := v == "1" }
  | "fromString" => some { c with fromString := v == "1" }
  | "silent" => some { c with silent := v == "1" }
  | "parseOk" => some { c with parseOk := v == "1" }
  | "kdir" => some { c with kdir := v }
  | "vdir" => some { c with vdir := v }
  | "odir" => some { c with odir := v }
  | "rawBase" => some { c with rawBase := v }
  | "cppBase" => some { c with cppBase := v }
  | _ => none

def setContent (c : Config) (k : String) (bs : Bytes) : Option Config :=
  match k with
  | "str" => some { c with str := bs }
  | "raw" => some { c with raw := bs }
  | "cpp" => some { c with cpp := bs }
  | "json" => some { c with json := bs }
  | "vsrc" => some { c with vsrc := bs }
  | "vout" => some { c with vout := bs }
  | "osrc" => some { c with osrc := bs }
  | "oout" => some { c with oout := bs }
  | "ooutna" => some { c with ooutNA := bs }
  | _ => none

def validContentFor (st : St) (p : Path) : Bytes :=
  let S := specOf st
  match S.recipe p with
  | some sb => match st.table.find? (fun x => x.1 == (⟨p.dir, none, sb⟩ : Path)) with
      | some x => compileSym p.base x.2
      | none => [0xBAD]
  | none => match st.table.find? (fun x => x.1 == p) with
      | some x => x.2
      | none => [0xBAD]

def step (st : St) (toks : List String) : St × String :=
  match toks with
  | ["cfg", k, v] => match setCfg st.cfg k v with
      | some c => ({ st with cfg := c }, "ok")
      | none => (st, "bad-op")
  | ["content", k, h] => match unhex h >>= setContent st.cfg k with
      | some c => ({ st with cfg := c }, "ok")
      | none => (st, "bad-op")
  | ["spec", p, h] => match parsePath p, unhex h with
      | some p, some bs => ({ st with table := st.table ++ [(p, bs)], paths := p :: st.paths }, "ok")
      | _, _ => (st, "bad-op")
  | ["recipe", p, sb] => match parsePath p with
      | some p => ({ st with recipes := st.recipes ++ [(p, sb)], paths := p :: st.paths }, "ok")
      | none => (st, "bad-op")
  | ["dir", d] => ({ st with fs0 := st.fs0.setDir d true }, "ok")
  | ["file", p, h] => match parsePath p with
      | some p =>
          let bs? : Option Bytes := if h == "ok" then some (validContentFor st p.final)
                                    else if h == "bad" then some [0xBAD] else unhex h
          match bs? with
          | some bs => ({ st with fs0 := st.fs0.setFile p (some ⟨bs, true⟩), paths := p :: st.paths }, "ok")
          | none => (st, "bad-op")
      | none => (st, "bad-op")
  | "ev" :: rest => match parseEv rest with
      | some e => ({ st with rtrace := e :: st.rtrace, paths := opPaths e.op ++ st.paths }, "ok")
      | none => (st, "bad-op")
  | ["check", "accepts"] =>
      match firstReject (specOf st) AS.empty 0 st.rtrace.reverse with
      | none => (st, "accepts 1")
      | some (i, e) => (st, "accepts 0 step " ++ toString i ++ ": " ++ showEv e)
  | ["check", "good"] =>
      match firstBad (specOf st) st.paths.eraseDups st.fs0 0 st.rtrace.reverse with
      | none => (st, "good 1")
      | some (i, p) => (st, "good 0 after " ++ toString i ++ " steps: " ++ showPath p)
  | ["check", "consistent"] =>
      match firstInconsistent (specOf st) st.fs0 0 st.rtrace.reverse with
      | none => (st, "consistent 1")
      | some (i, e) => (st, "consistent 0 step " ++ toString i ++ ": " ++ showEv e)
  | ["check", "norecompile"] =>
      -- a follow-up build from the state the observed trace leaves
      let S := specOf st
      let fs := apply S st.rtrace.reverse st.fs0
      let t := buildSteps S 0 st.cfg fs
      (st, "norecompile " ++ b01 (noExec t))
  | ["model", pid] =>
      let S := specOf st
      let (r, _, t) := run S (pid.toNat?.getD 0) (buildProg st.cfg) st.fs0
      let rs := match r with | some true => "built" | some false => "null" | none => "raised"
      (st, "model " ++ rs ++ " accepts=" ++ b01 (accepts S t) ++ " | " ++ " | ".intercalate (t.map showEv))
  | _ => (st, "bad-op")

def main : IO Unit := Proto.run st0 step
