import OccaModel.Hash
import OccaModel.Proto
open Occa Occa.Hash Occa.Proto

/-- chars (as `char` values) -> hex of their byte values, so arbitrary bytes survive the pipe -/
def charsHex (cs : List Int) : String := hex (cs.map fun c => (wrapU 8 c).toNat)

def step (o : Obj) (toks : List String) : Obj × String :=
  match toks with
  | ["H", hx] => match unhex hx with
      | some bs => (o, joinInts (hashBytes bs))
      | none => (o, "bad-op")
  | "F" :: ls => match ints ls with
      | some h => (o, charsHex (fullString h))
      | none => (o, "bad-op")
  | ["P", hx] => match unhex hx with
      | some bs => (o, joinInts (fromString (bs.map fun b => wrapS 8 (Int.ofNat b))))
      | none => (o, "bad-op")
  | "X" :: ls => match ints ls with
      | some l => (o, joinInts (xor (l.take 8) (l.drop 8)))
      | none => (o, "bad-op")
  | "MT" :: _ => (o, "ok")
  | "new" :: ls => match ints ls with
      | some h => (Obj.ofLanes h, "ok")
      | none => (o, "bad-op")
  | ["get"] => let (s, o') := o.getString; (o', charsHex s)
  | "asg" :: ls => match ints ls with
      | some h => (Hash.step o (.assign h), "ok")
      | none => (o, "bad-op")
  | "set" :: ls => match ints ls with
      | some h => (Hash.step o (.setLanes h), "ok")
      | none => (o, "bad-op")
  | "xor" :: ls => match ints ls with
      | some h => (Hash.step o (.xorWith h), "ok")
      | none => (o, "bad-op")
  | _ => (o, "bad-op")

def main : IO Unit := Proto.run (Obj.ofLanes Gen.hashInit) step
