import OccaModel.Hash
import OccaModel.CacheKey
import OccaModel.CacheKeyExact
import OccaModel.DepHash
import OccaModel.DepHashExact
import OccaModel.Proto
/-
drv_cache: line-protocol driver of the kernel-cache models (C06 key construction, C07 dependency
chain), with the parameters instantiated by the exact hash_t model (OccaModel/Hash.lean) and the
json dump model (OccaModel/CacheKey.lean).

  env <serial|openmp> l0 … l7            device mode and device::hash() lanes           -> ok
  key <srchex> <prop>…                   keys of a configuration on an empty cache      -> <kernel key> <mode key> <header key>
  cfg <srchex> <prop>…                   configuration of the following builds          -> ok
  write <pathhex> <texthex> | rm <pathhex>                                             -> ok
  build                                  one device::buildKernel                        -> hit|miss key=<64 hex> x=<path hex>:<text hash 16>,…
                                                                                           | parse-error key=… | chain-error
  <prop>  ::= <name> <value>
  <value> ::= N | L:<hex> | S:<hex> | A <n> <value>*n | O <n> (<keyhex> <value>)*n
-/
open Occa Occa.Hash Occa.Proto Occa.CacheKey Occa.DepHash

def strOfBytes (bs : List Nat) : String := String.ofList (bs.map Char.ofNat)
def unhexStr (s : String) : Option String := (unhex s).map strOfBytes
def hexStr (s : String) : String := hex (bytesOf s)

partial def parseVal : List String → Option (J × List String)
  | "N" :: r => some (.null, r)
  | "A" :: n :: r => do
      let n ← n.toNat?
      let rec items : Nat → List String → Option (List J × List String)
        | 0, r => some ([], r)
        | k + 1, r => do
            let (v, r) ← parseVal r
            let (vs, r) ← items k r
            pure (v :: vs, r)
      let (vs, r) ← items n r
      pure (.arr vs, r)
  | "O" :: n :: r => do
      let n ← n.toNat?
      let rec members : Nat → List String → Option (List (String × J) × List String)
        | 0, r => some ([], r)
        | _ + 1, [] => none
        | k + 1, key :: r => do
            let key ← unhexStr key
            let (v, r) ← parseVal r
            let (vs, r) ← members k r
            pure ((key, v) :: vs, r)
      let (vs, r) ← members n r
      -- a jsonObject is a std::map: sorted, later assignments overwrite earlier ones
      pure (.obj (mkMap vs.reverse), r)
  | t :: r =>
      if t.startsWith "L:" then (unhexStr (String.ofList (t.toList.drop 2))).map fun s => (.lit s, r)
      else if t.startsWith "S:" then (unhexStr (String.ofList (t.toList.drop 2))).map fun s => (.str s, r)
      else none
  | [] => none

partial def parseProps : List String → Option (List (String × J))
  | [] => some []
  | name :: r => do
      let (v, r) ← parseVal r
      let rest ← parseProps r
      pure ((name, v) :: rest)

def parseCfg : List String → Option Config
  | src :: r => do
      let s ← unhexStr src
      let ps ← parseProps r
      pure { props := ps, src := s }
  | [] => none

abbrev Bin := List (String × String)

structure DS where
  haveEnv : Bool := false
  mode : String := "serial"
  dev : Lanes := Gen.hashInit
  cfg : Config := { props := [], src := "" }
  files : List (String × String) := []
  cache : Cache Lanes String Bin := []

def DS.env (s : DS) : DEnv Lanes String String := exactDEnv (s.mode == "openmp") s.dev 100000
def DS.fs (s : DS) : FS := fun p => s.files.lookup p

def showBin (e : DEnv Lanes String String) (x : Bin) : String :=
  if x.isEmpty then "-" else
  ",".intercalate (x.map fun pt => hexStr pt.1 ++ ":" ++ shortStr (e.H pt.2))

def step (s : DS) (toks : List String) : DS × String :=
  match toks with
  | "env" :: mode :: ls => match ints ls with
      | some l => if l.length = 8 then ({ s with haveEnv := true, mode := mode, dev := l }, "ok") else (s, "bad-op")
      | none => (s, "bad-op")
  | "key" :: r => if !s.haveEnv then (s, "bad-op") else match parseCfg r with
      | some c =>
        let e := s.env
        ({ s with cfg := c },
         fullStr (baseKey e.toEnv c) ++ " " ++ fullStr (modeKey e.toEnv c) ++ " " ++ fullStr (headerKey e.toEnv c))
      | none => (s, "bad-op")
  | "cfg" :: r => match parseCfg r with
      | some c => ({ s with cfg := c }, "ok")
      | none => (s, "bad-op")
  | ["write", p, t] => match unhexStr p, unhexStr t with
      | some p, some t => ({ s with files := (p, t) :: s.files.filter (·.1 ≠ p) }, "ok")
      | _, _ => (s, "bad-op")
  | ["hashfile", p] => match unhexStr p with
      | some p => match s.files.find? (·.1 = p) with
          | some (_, t) => (s, fullStr (hashStr t))
          | none => (s, "missing")
      | none => (s, "bad-op")
  | ["rm", p] => match unhexStr p with
      | some p => ({ s with files := s.files.filter (·.1 ≠ p) }, "ok")
      | none => (s, "bad-op")
  | ["build"] =>
      if !s.haveEnv then (s, "bad-op") else
      let e := s.env
      let r := build e (fun _ x => x) s.fs s.cache s.cfg
      let key := match r.2.2 with | some K => fullStr K | none => "-"
      let o := match r.2.1 with
        | .hit b => "hit key=" ++ key ++ " x=" ++ showBin e b
        | .miss b => "miss key=" ++ key ++ " x=" ++ showBin e b
        | .parseError => "parse-error key=" ++ key
        | .chainError => "chain-error"
      ({ s with cache := r.1 }, o)
  | _ => (s, "bad-op")

def main : IO Unit := Proto.run ({} : DS) step
