import OccaModel.Prim
import OccaModel.Proto
open Occa Occa.CExpr Occa.CxxSem Occa.Prim Occa.Proto

/-! Driver for C14.  Op lines (see harness/h_prim.cpp):
      E <expected> <prefix form ...> ; <text ...>     -> the model's outcome for the expression
      S <prefix form ...>                              -> `<spec result> | <model outcome> | <flags>`
      P <literal text>                                 -> primitive::load(text, includeSign = true)
    prefix form: `L:<literal spelling>`, `u:<op> e`, `b:<op> l r`, `t c a b`, `p e`.
    The literal parser below is NOT part of the model or of any theorem: its result is accepted only
    if rendering it gives back exactly the token (`Lit.text l = token`). -/

def unOfSym : String → Option UnOp
  | "!" => some .lnot | "+" => some .plus | "-" => some .neg | "~" => some .bnot | _ => none

def binOfSym : String → Option BinOp
  | "*" => some .mul | "/" => some .div | "%" => some .mod | "+" => some .add | "-" => some .sub
  | "<<" => some .shl | ">>" => some .shr | "<" => some .lt | "<=" => some .le | ">" => some .gt | ">=" => some .ge
  | "==" => some .eq | "!=" => some .ne | "&" => some .band | "^" => some .bxor | "|" => some .bor
  | "&&" => some .land | "||" => some .lor | _ => none

def spanP (p : Char → Bool) : List Char → List Char × List Char
  | [] => ([], [])
  | c :: r => if p c then let (a, b) := spanP p r; (c :: a, b) else ([], c :: r)

def parseLit (tok : List Char) : Option Lit :=
  let cand : Option Lit :=
    if tok = "true".toList then some (.bool true)
    else if tok = "false".toList then some (.bool false)
    else
      let isHexPre := tok.take 2 = ['0', 'x'] ∨ tok.take 2 = ['0', 'X']
      let isBinPre := tok.take 2 = ['0', 'b'] ∨ tok.take 2 = ['0', 'B']
      if isHexPre then
        let (d, s) := spanP (isDigitOf 16) (tok.drop 2)
        some (.int ⟨tok.take 2, d, s⟩)
      else if isBinPre then
        let (d, s) := spanP (isDigitOf 2) (tok.drop 2)
        some (.int ⟨tok.take 2, d, s⟩)
      else if tok.any (fun c => c = '.' ∨ c = 'e' ∨ c = 'E') then
        let (ip, r) := spanP (isDigitOf 10) tok
        let (dot, r) := if r.head? = some '.' then (true, r.drop 1) else (false, r)
        let (fr, r) := if dot then spanP (isDigitOf 10) r else ([], r)
        let (ex, r) : Option (Char × List Char × List Char) × List Char :=
          match r with
          | e :: r' =>
            if e = 'e' ∨ e = 'E' then
              let (sg, r'') := match r' with
                | '+' :: x => (['+'], x)
                | '-' :: x => (['-'], x)
                | x => ([], x)
              let (d, r3) := spanP (isDigitOf 10) r''
              (some (e, sg, d), r3)
            else (none, r)
          | [] => (none, r)
        some (.float ⟨ip, dot, fr, ex, r⟩)
      else if tok.head? = some '0' then
        let (d, s) := spanP (isDigitOf 8) (tok.drop 1)
        some (.int ⟨['0'], d, s⟩)
      else
        let (d, s) := spanP (isDigitOf 10) tok
        some (.int ⟨[], d, s⟩)
  match cand with
  | some l => if l.text = tok then some l else none
  | none => none

/-- parse one expression in prefix form; returns the expression and the remaining tokens -/
def parsePrefix : Nat → List String → Option (Expr × List String)
  | 0, _ => none
  | fuel + 1, tok :: rest =>
    if tok.startsWith "L:" then
      (parseLit (tok.drop 2).toString.toList).map fun l => (.lit l, rest)
    else if tok = "p" then
      (parsePrefix fuel rest).map fun (e, r) => (.paren e, r)
    else if tok.startsWith "u:" then
      (unOfSym (tok.drop 2).toString).bind fun op => (parsePrefix fuel rest).map fun (e, r) => (.un op e, r)
    else if tok.startsWith "b:" then
      (binOfSym (tok.drop 2).toString).bind fun op =>
        (parsePrefix fuel rest).bind fun (l, r1) => (parsePrefix fuel r1).map fun (r, r2) => (.bin op l r, r2)
    else if tok = "t" then
      (parsePrefix fuel rest).bind fun (c, r1) => (parsePrefix fuel r1).bind fun (a, r2) =>
        (parsePrefix fuel r2).map fun (b, r3) => (.tern c a b, r3)
    else none
  | _, [] => none

def parseExprToks (toks : List String) : Option Expr :=
  let pre := toks.takeWhile (· ≠ ";")
  match parsePrefix (pre.length + 1) pre with
  | some (e, []) => some e
  | _ => none

def showUB : UB → String
  | .divZero => "divZero" | .divOverflow => "divOverflow" | .overflow => "overflow"
  | .shiftCount => "shiftCount" | .shiftNeg => "shiftNeg" | .shiftOverflow => "shiftOverflow"
  | .floatRange _ => "floatRange"

def showRes : Res → String
  | .val x => "val " ++ showVal x.ty x.v
  | .undef u => "undef " ++ showUB u
  | .illformed => "illformed"
  | .unsupported => "unsupported"

def step (_ : Unit) (toks : List String) : Unit × String :=
  match toks with
  | "E" :: _ :: rest =>
    match parseExprToks rest with
    | some e => ((), showOutcome (Prim.eval e))
    | none => ((), "bad-op")
  | "S" :: rest =>
    match parseExprToks rest with
    | some e =>
      let flags := (if clean e then [] else ["unclean"]) ++ (if integral e then ["integral"] else [])
      ((), showRes (evalTop e) ++ " | " ++ showOutcome (Prim.eval e) ++ " | " ++ ",".intercalate flags)
    | none => ((), "bad-op")
  | ["P", text] =>
    let cs := text.toList.map fun c => if c = '_' then ' ' else c
    let (p, rest) := load (cs.length + 1) cs true
    ((), p.show ++ " +" ++ toString (cs.length - rest.length))
  | _ => ((), "bad-op")

def main : IO Unit := Proto.run () step
