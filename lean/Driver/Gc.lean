import OccaModel.Gc
import OccaModel.Proto
open Occa Occa.Gc Occa.Proto

/-! Line-protocol driver of the C01 model; prints exactly what harness/h_gc.cpp prints. -/

structure DState where
  s : St
  canon : List ((Nat × Nat) × Nat)   -- (view, object) -> canonical id, by first sight
  nextCanon : Nat
  pinned : List (HKind × Nat)        -- objects on which dontUseRefs() was called

def DState.init : DState := ⟨St.init, [], 0, []⟩

def K : Nat := 5

def hkinds : List HKind := [.dev, .mem, .pool, .ker, .str]

def letter : HKind → String
  | .dev => "d" | .mem => "m" | .pool => "p" | .ker => "k" | .str => "s"

def parseVar (t : String) : Option (HKind × Nat) :=
  match t.toList with
  | [c, d] =>
    let k? : Option HKind := match c with
      | 'd' => some .dev | 'm' => some .mem | 'p' => some .pool | 'k' => some .ker | 's' => some .str
      | _ => none
    match k? with
    | none => none
    | some k => if '0' ≤ d ∧ d.toNat < '0'.toNat + K then some (k, d.toNat - '0'.toNat) else none
  | _ => none

/-- registry view of an object as seen through a handle of class `k` -/
def viewOf : HKind → Nat
  | .dev => 0 | .mem => 2 | .pool => 3 | .ker => 4 | .str => 5
def bufView : Nat := 1

def cid (st : DState) (view o : Nat) : DState × Nat :=
  match st.canon.lookup (view, o) with
  | some c => (st, c)
  | none => ({ st with canon := ((view, o), st.nextCanon) :: st.canon, nextCanon := st.nextCanon + 1 }, st.nextCanon)

def cidDev (st : DState) (d? : Option Nat) : DState × String :=
  match d? with
  | none => (st, "-")
  | some d => let (st, c) := cid st 0 d; (st, toString c)

def countKind (s : St) (p : Kind → Bool) : Nat :=
  ((List.range s.next).filter fun o => s.alive o && p (s.kind o)).length

def observeVar (st : DState) (k : HKind) (i : Nat) : DState × String :=
  let s := st.s
  let v := Var.user k i
  let name := " " ++ letter k ++ toString i ++ "="
  if !s.vlive v then (st, name ++ "x") else
  match s.ptr v with
  | none => (st, name ++ "-")
  | some o =>
    if !s.alive o then (st, name ++ "DANGLING") else
    let (st, c) := cid st (viewOf k) o
    match k with
    | .dev =>
      let cs? := match s.ptr (.cur o) with
        | some so => if s.alive so then some so else none
        | none => none
      let (st, cs) := match cs? with
        | some so => let (st, c) := cid st 5 so; (st, toString c)
        | none => (st, "-")
      (st, name ++ toString c ++ ":" ++ toString (s.devBytes o) ++ ":" ++ cs)
    | .mem =>
      let (st, tail) := match s.par o with
        | some b =>
          if s.alive b then
            let (st, cb) := cid st bufView b
            let (st, cd) := cidDev st (s.par b)
            (st, "/" ++ toString cb ++ "^" ++ cd)
          else (st, "/?")
        | none => (st, "/?")
      (st, name ++ toString c ++ tail ++ ":" ++ toString (s.size o))
    | _ =>
      let (st, cd) := cidDev st (deviceOf s o)
      (st, name ++ toString c ++ "^" ++ cd)

def observe (st : DState) : DState × String := Id.run do
  let mut st := st
  let mut out := ""
  for k in hkinds do
    for i in List.range K do
      let (st', t) := observeVar st k i
      st := st'
      out := out ++ t
  let s := st.s
  let cnt := [countKind s (· == .dev), countKind s (fun k => k == .buf || k == .pool), countKind s (· == .mem),
              countKind s (· == .pool), countKind s (· == .ker), countKind s (· == .str), 0]
  out := out ++ " live=" ++ ",".intercalate (cnt.map toString)
  return (st, out)

def resStr : Res → String
  | .ok => "ok" | .err => "err" | .bad => "bad-op"

def apply (st : DState) (op : Op) : DState × String :=
  let (s', r) := Gc.step st.s op
  match r with
  | .bad => (st, "bad-op")
  | _ =>
    let (st, o) := observe { st with s := s' }
    (st, resStr r ++ o)

/-- `end`: drop every live variable (s, k, p, m, d; index ascending), then free what was pinned by
    dontUseRefs and is still alive (devices last) -/
def endAll (st : DState) : DState := Id.run do
  let mut s := st.s
  for k in hkinds.reverse do
    for i in List.range K do
      if s.vlive (.user k i) then s := (Gc.step s (.drop k i)).1
  for pass in [false, true] do
    for (k, o) in st.pinned do
      if s.alive o && ((k == .dev) == pass) then
        -- a temporary handle constructed from the raw pointer, free(), destroyed
        let t := Var.tmp k
        s := setMode (construct s t) t (some o)
        s := freeHandle s t
        s := destruct s t
  return { st with s := s, pinned := [] }

def step (st : DState) (toks : List String) : DState × String :=
  let v (t : String) := parseVar t
  match toks with
  | ["end"] => let st := endAll st; let (st, o) := observe st; (st, "ok" ++ o)
  | ["ctor", a] => match v a with
      | some (k, i) => apply st (.ctor k i)
      | none => (st, "bad-op")
  | ["copy", a, b] => match v a, v b with
      | some (k, i), some (k2, j) => if k = k2 then apply st (.copy k i j) else (st, "bad-op")
      | _, _ => (st, "bad-op")
  | ["asg", a, b] => match v a, v b with
      | some (k, i), some (k2, j) => if k = k2 then apply st (.asg k i j) else (st, "bad-op")
      | _, _ => (st, "bad-op")
  | ["swap", a, b] => match v a, v b with
      | some (k, i), some (k2, j) => if k = k2 then apply st (.swap k i j) else (st, "bad-op")
      | _, _ => (st, "bad-op")
  | ["free", a] => match v a with
      | some (k, i) => apply st (.free k i)
      | none => (st, "bad-op")
  | ["drop", a] => match v a with
      | some (k, i) => apply st (.drop k i)
      | none => (st, "bad-op")
  | ["norefs", a] => match v a with
      | some (k, i) =>
        let st := match st.s.vlive (.user k i), st.s.ptr (.user k i) with
          | true, some o => { st with pinned := st.pinned ++ [(k, o)] }
          | _, _ => st
        apply st (.norefs k i)
      | none => (st, "bad-op")
  | ["mkdev", a] => match v a with
      | some (.dev, i) => apply st (.mkdev i)
      | _ => (st, "bad-op")
  | ["malloc", a, b, n] => match v a, v b, n.toNat? with
      | some (.mem, i), some (.dev, j), some n => apply st (.malloc i j n)
      | _, _, _ => (st, "bad-op")
  | ["slice", a, b, off, n] => match v a, v b, off.toNat?, n.toNat? with
      | some (.mem, i), some (.mem, j), some off, some n => apply st (.slice i j off n)
      | _, _, _, _ => (st, "bad-op")
  | ["mkpool", a, b] => match v a, v b with
      | some (.pool, i), some (.dev, j) => apply st (.mkpool i j)
      | _, _ => (st, "bad-op")
  | ["reserve", a, b, n] => match v a, v b, n.toNat? with
      | some (.mem, i), some (.pool, j), some n => apply st (.reserve i j n)
      | _, _, _ => (st, "bad-op")
  | ["mkker", a, b] => match v a, v b with
      | some (.ker, i), some (.dev, j) => apply st (.mkker i j)
      | _, _ => (st, "bad-op")
  | ["mkstr", a, b] => match v a, v b with
      | some (.str, i), some (.dev, j) => apply st (.mkstr i j)
      | _, _ => (st, "bad-op")
  | ["getstr", a, b] => match v a, v b with
      | some (.str, i), some (.dev, j) => apply st (.getstr i j)
      | _, _ => (st, "bad-op")
  | ["setstr", a, b] => match v a, v b with
      | some (.dev, i), some (.str, j) => apply st (.setstr i j)
      | _, _ => (st, "bad-op")
  | ["getdev", a, b] => match v a, v b with
      | some (.dev, i), some (k, j) => apply st (.getdev i k j)
      | _, _ => (st, "bad-op")
  | _ => (st, "bad-op")

def main : IO Unit := Proto.run DState.init step
