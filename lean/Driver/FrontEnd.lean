/-
Line-protocol driver of the tokenContext_t model (C16).  No `lean_exe` name is registered for it: the
plugin runs it interpreted, `lake env lean --run Driver/FrontEnd.lean` (see tools/checks/C16.py).
Ops and observations: harness/h_tokctx.cpp.
-/
import OccaModel.FrontEnd
import OccaModel.Proto
open Occa Occa.FrontEnd Occa.Proto

def opNamed (name : String) : Option Tok :=
  match Gen.PairOps.ops.find? (fun e => e.1 == name) with
  | some (_, _, b1, b2, p) => some (.op ⟨⟨b1, b2⟩, p⟩)
  | none => none

def tokOfKind (k : String) : Option Tok :=
  match k with
  | "o" => some (.other false)
  | "c" => some (.other true)
  | "(" => opNamed "parenthesesStart"
  | ")" => opNamed "parenthesesEnd"
  | "{" => opNamed "braceStart"
  | "}" => opNamed "braceEnd"
  | "[" => opNamed "bracketStart"
  | "]" => opNamed "bracketEnd"
  | "<" => opNamed "cudaCallStart"
  | ">" => opNamed "cudaCallEnd"
  | ";" => opNamed "semicolon"
  | "," => opNamed "comma"
  | "+" => opNamed "add"
  | _ => none

def maskOf (s : String) : Bitfield :=
  if s = ";" then semicolonM
  else if s = "," then .ofPair Gen.PairOps.commaMask
  else if s = "(" then .ofPair Gen.PairOps.parenthesesStartMask
  else .ofPair Gen.PairOps.parenthesesEndMask

def tpStr (c : Ctx) : String := s!"tp={c.tp.start},{c.tp.stop}"

/-- std::map iterates in key order -/
def sortedPairs (m : List (Int × Int)) : List (Int × Int) :=
  (m.toArray.qsort (fun a b => a.1 < b.1)).toList

def showRes (r : Res (Ctx × String)) (old : Option Ctx) : Option Ctx × String :=
  match r with
  | .ok (c, s) => (some c, s)
  | .err => (old, "exc")
  | .trap => (old, "TRAP")
  | .hang => (old, "HANG")

def step (st : Option Ctx) (toks : List String) : Option Ctx × String :=
  match toks with
  | "T" :: ks =>
    match ks.mapM tokOfKind with
    | none => (st, "bad-op")
    | some ts =>
      showRes (do
        let c ← setup ts.toArray
        let ps := ",".intercalate ((sortedPairs c.pairs).map fun (a, b) => s!"{a}:{b}")
        let ss := ",".intercalate (c.semicolons.map toString)
        pure (c, s!"ok n={c.tokenIndices.size} err={if c.hasError then 1 else 0} pairs={ps} semis={ss}")) none
  | _ =>
    match st with
    | none => (st, "bad-op")
    | some c =>
      let nav (o : NavOp) (f : Ctx → Int → String) : Option Ctx × String :=
        showRes (do let (c', r) ← c.step o; pure (c', f c' r)) st
      let tokOrNull (_ : Ctx) (r : Int) : String := if r = 1 then "tok" else "null"
      match toks with
      | ["state"] => (st, s!"{tpStr c} stack={c.stack.length} err={if c.hasError then 1 else 0}")
      | ["set", a] => match a.toInt? with
          | some a => nav (.set1 a) (fun c' _ => tpStr c') | none => (st, "bad-op")
      | ["set2", a, b] => match a.toInt?, b.toInt? with
          | some a, some b => nav (.set2 a b) (fun c' _ => tpStr c') | _, _ => (st, "bad-op")
      | ["push"] => nav .push0 (fun c' _ => tpStr c')
      | ["push1", a] => match a.toInt? with
          | some a => nav (.push1 a) (fun c' _ => tpStr c') | none => (st, "bad-op")
      | ["push2", a, b] => match a.toInt?, b.toInt? with
          | some a, some b => nav (.push2 a b) (fun c' _ => tpStr c') | _, _ => (st, "bad-op")
      | ["pop"] => showRes (do let (c', r) ← c.pop; pure (c', s!"pop={r.start},{r.stop} {tpStr c'}")) st
      | ["popskip"] => nav .popAndSkip (fun c' _ => tpStr c')
      | ["pushpair"] => nav .pushPairRange (fun c' _ => tpStr c')
      | ["at", i] => match i.toInt? with
          | some i => nav (.at i) tokOrNull | none => (st, "bad-op")
      | ["end"] => nav .endTok tokOrNull
      | ["closing"] => nav .closing (fun _ r => toString r)
      | ["closingtok"] => nav .closingTok tokOrNull
      | ["printtok", e] => nav (.printTok (e != "0")) tokOrNull
      | ["next", m] => if c.hasError then (st, "skip") else nav (.next (maskOf m)) (fun _ r => toString r)
      | _ => (st, "bad-op")

def main : IO Unit := Proto.run (none : Option Ctx) step
