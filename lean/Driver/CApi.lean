import OccaModel.CApiStep
import OccaModel.Proto
open Occa Occa.CApi Occa.Proto

/-!
Line protocol of `drv_capi` / `harness/h_capi.cpp` (one operation per line; `VAL` is
`<ctor>:<hex bits>` | `str:<hex bytes>` | `null` | `undef` | `default` | `true` | `false` |
`nullptr` | `ptr` | `struct` | `h:<slot>`; keys and strings travel as hex):

  mk VAL                         construct, describe
  rt VAL tag                     scalar → occaJsonObjectSet → occaJsonObjectGet → occaJsonGetNumber(tag)
  krun|krunb style 10×bits xy str nullkind     launch the argument-copying kernels
  jnew s | parse s text | cp s' s | free s
  set s key VAL | get s' s key VAL | has s key
  push s VAL | aget s' s i | asize s | pop s | ins s i VAL | clr s
  kind s | gb s | gn s tag | gs s | cast s b|n|s|a|o | show s
  dtnew s name bytes | dtq s | mnew s bytes seed | mq s
-/
def main : IO Unit := Proto.run St.init step
