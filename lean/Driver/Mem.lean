import OccaModel.Mem
import OccaModel.Proto
open Occa Occa.Mem Occa.Proto

/-- indeterminate bytes print as `??` -/
def hexBytes (bs : List Byte) : String :=
  if bs.isEmpty then "-" else
  String.join (bs.map fun b => match b with
    | some x => String.ofList [hexNib (x.toNat / 16 % 16), hexNib (x.toNat % 16)]
    | none => "??")

def errName : Err → String
  | .uninit => "uninit" | .negSize => "negsize" | .negOff => "negoff"
  | .range => "range" | .srcRange => "srcrange" | .dstRange => "dstrange"

def info (s : State) (v : Nat) : String :=
  match view? s v with
  | none => "u"
  | some p => s!"i {p.size} {p.esz}"

/-- `made`: append the description of handle `d` to a successful result -/
def show' (r : State × Res) (made : Option Nat := none) : State × String :=
  match r.2 with
  | .ok none => (r.1, match made with | some d => "ok " ++ info r.1 d | none => "ok")
  | .ok (some bs) => (r.1, "ok " ++ hexBytes bs)
  | .err e => (r.1, "err:" ++ errName e)
  | .trap => (r.1, "trap")

def bytesOf (hx : String) : Option (List UInt8) := (unhex hx).map fun l => l.map UInt8.ofNat

def step' (s : State) (toks : List String) : State × String :=
  match toks with
  | ["dev", _] => (Mem.init, "ok")
  | ["info", v] => match nats [v] with
      | some [v] => (s, info s v) | _ => (s, "bad-op")
  | ["malloc", v, n, e] => match nats [v, e], ints [n] with
      | some [v, e], some [n] => show' (step s (.malloc v n e none)) (some v) | _, _ => (s, "bad-op")
  | ["mallocd", v, n, e, hx] => match nats [v, e], ints [n], bytesOf hx with
      | some [v, e], some [n], some dt => show' (step s (.malloc v n e (some dt))) (some v) | _, _, _ => (s, "bad-op")
  | ["mallocm", v, n, e, src] => match nats [v, e, src], ints [n] with
      | some [v, e, src], some [n] => show' (step s (.mallocFrom v n e src)) (some v) | _, _ => (s, "bad-op")
  | ["wrap", v, hb, n, e] => match nats [v, hb, e], ints [n] with
      | some [v, hb, e], some [n] => show' (step s (.wrap v hb n e)) (some v) | _, _ => (s, "bad-op")
  | ["slice", d, src, off, cnt] => match nats [d, src], ints [off, cnt] with
      | some [d, src], some [off, cnt] => show' (step s (.slice d src off cnt)) (some d) | _, _ => (s, "bad-op")
  | ["plus", d, src, off] => match nats [d, src], ints [off] with
      | some [d, src], some [off] => show' (step s (.slice d src off (-1))) (some d) | _, _ => (s, "bad-op")
  | ["cast", d, src, e] => match nats [d, src, e] with
      | some [d, src, e] => show' (step s (.cast d src e)) (some d) | _ => (s, "bad-op")
  | ["setdt", v, e] => match nats [v, e] with
      | some [v, e] => show' (step s (.setDtype v e)) (some v) | _ => (s, "bad-op")
  | ["clone", d, src] => match nats [d, src] with
      | some [d, src] => show' (step s (.clone d src)) (some d) | _ => (s, "bad-op")
  | ["cfh", v, cnt, off, hx] => match nats [v], ints [cnt, off], bytesOf hx with
      | some [v], some [cnt, off], some dt => show' (step s (.copyFromHost v dt cnt off)) | _, _, _ => (s, "bad-op")
  | ["cth", v, cap, cnt, off] => match nats [v, cap], ints [cnt, off] with
      | some [v, cap], some [cnt, off] => show' (step s (.copyToHost v cap cnt off)) | _, _ => (s, "bad-op")
  | ["cmm", d, src, cnt, doff, soff] => match nats [d, src], ints [cnt, doff, soff] with
      | some [d, src], some [cnt, doff, soff] => show' (step s (.copyFromMem d src cnt doff soff)) | _, _ => (s, "bad-op")
  | ["ctm", src, d, cnt, doff, soff] => match nats [src, d], ints [cnt, doff, soff] with
      | some [src, d], some [cnt, doff, soff] => show' (step s (.copyToMem src d cnt doff soff)) | _, _ => (s, "bad-op")
  | ["asg", d, src] => match nats [d, src] with
      | some [d, src] => show' (step s (.assign d src)) (some d) | _ => (s, "bad-op")
  | ["free", v] => match nats [v] with
      | some [v] => show' (step s (.free v)) | _ => (s, "bad-op")
  | ["hw", hb, off, hx] => match nats [hb, off], bytesOf hx with
      | some [hb, off], some dt => show' (step s (.hostWrite hb off dt)) | _, _ => (s, "bad-op")
  | ["hr", hb, off, n] => match nats [hb, off, n] with
      | some [hb, off, n] => show' (step s (.hostRead hb off n)) | _ => (s, "bad-op")
  | _ => (s, "bad-op")

def main : IO Unit := Proto.run Mem.init step'
