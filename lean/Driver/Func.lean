import OccaModel.Functional
import OccaModel.Proto
/-!
Line-protocol driver for the C23 model (see harness/h_functional.cpp for the protocol).
The driver only parses operations, applies the model (OccaModel/Functional.lean over the generated
OccaGen/RangeFns.lean) and prints the observation the harness prints for the real library.
-/
open Occa Occa.Functional Occa.Gen Occa.Proto

def okSlot (k : Int) : Bool := decide (0 ≤ k) && decide (k < 8)
def okFSlot (k : Int) : Bool := decide (0 ≤ k) && decide (k < 4)

/-- outcome of an operation on the state -/
def fin (s : St) (r : Res (St × String)) : St × String :=
  match r with
  | .ok (s', o) => (s', o)
  | .err => (s, "err")
  | .trap => (s, "trap")

def withSlot (s : St) (k : Int) (f : Arr → St × String) : St × String :=
  if !okSlot k then (s, "bad-op") else
  match s.slot k.toNat with
  | none => (s, "none")
  | some a => f a

def storeOut (s : St) (j : Int) (out : Arr) : St × String :=
  let s' := s.setSlot j.toNat (some out)
  (s', showInts (s'.read out))

/-- `map`-like array methods: fresh output in slot `j` -/
def mapOp (s : St) (a : Arr) (j : Int) (fn : List Int → Nat → Int) : St × String :=
  match mapArr s a fn with
  | .ok (s', out) => storeOut s' j out
  | .err => (s, "err")
  | .trap => (s, "trap")

def cloneArr (s : St) (a : Arr) : St × Arr := s.alloc (s.read a)

/-- int-array reduce op -/
def reduceOp (s : St) (a : Arr) (R G p : Int) (useInit : Bool) (init : Int) : String :=
  let xs := s.read a
  let okRG := if G == 0 then decide (0 ≤ R) && decide (R ≤ 8)
              else if G == 1 || G == 2 || G == 3 then R == 0
              else if G == 4 then R == 8 else false
  if !okRG then "bad-op" else
  let needsFirst := !(R == 0 || R == 1 || R == 2 || R == 4 || R == 5)
  if !useInit && needsFirst && xs.isEmpty then "empty" else
  let init' := if R == 5 || R == 6 then b2i (init != 0) else init
  match reduceGen xs.length R useInit init' (xs.getD 0 0) (redFn R G p xs) (hostComb R) with
  | .ok v => toString v
  | .err => "err"
  | .trap => "trap"

/-- predicates of the range ops -/
def rangePred (P p : Int) (x : Int) : Bool := if P == 0 then decide (x > p) else x == p

def rangeArr (r : Range) (ts ti : Int) : Arr :=
  let a : Arr := { buf := 0, off := 0, len := r.length.toNat }
  if ts > 0 || ti > 0 then setTile a ts ti else a

def findObs (omp : Bool) (vis : List Nat) (f : Nat → Bool) : String :=
  if omp && countMatches vis f > 1 then "race" else toString (findLast vis f)

def rangeOp (s : St) (op : String) (args : List Int) : St × String :=
  match args with
  | sA :: eA :: stA :: ts :: ti :: rest =>
    let r := Range.mk3 sA eA stA
    let a := rangeArr r ts ti
    let seq := r.seq
    let n := seq.length
    let val := fun (i : Nat) => r.value (i : Int)
    match visit emptyGuard a with
    | .err => (s, "err")
    | .trap => (s, "trap")
    | .ok vis =>
      match op, rest with
      | "every", [P, p] => (s, showBool (everyOf vis fun i => rangePred P p (val i)))
      | "some", [P, p] => (s, showBool (decide (findLast vis (fun i => rangePred P p (val i)) ≥ 0)))
      | "find", [P, p] => (s, findObs s.omp vis fun i => rangePred P p (val i))
      | "map", [j, p, q] =>
        if !okSlot j then (s, "bad-op") else
        let (s1, out) := s.alloc (List.replicate a.len poison)
        let s2 := mapInto s1 out out vis fun _ i => val i * p + q
        storeOut s2 j out
      | "mapto", [j, p, q] =>
        withSlot s j fun o =>
          let (s1, o') := resizeArr s o a.len
          let s2 := mapInto s1 o' o' vis fun _ i => val i * p + q
          storeOut s2 j o'
      | "toarr", [j] =>
        if !okSlot j then (s, "bad-op") else
        let (s1, out) := s.alloc (List.replicate a.len poison)
        let s2 := mapInto s1 out out vis fun _ i => val i
        storeOut s2 j out
      | "foreach", [j] =>
        if !okSlot j then (s, "bad-op") else
        let lo : Int := if n == 0 then 0 else minI (seq.headD 0) (seq.getLastD 0)
        let hi : Int := if n == 0 then 0 else maxI (seq.headD 0) (seq.getLastD 0)
        let m := (hi - lo + 1).toNat
        let counts := vis.foldl (fun (c : List Int) i =>
          let x := val i - lo
          let cell := if decide (0 ≤ x) && decide (x < (m : Int)) then x.toNat else m
          c.set cell (c.getD cell 0 + 1)) (List.replicate (m + 1) 0)
        let (s1, out) := s.alloc counts
        storeOut s1 j out
      | "reduce", R :: more =>
        if !(R == 0 || R == 1 || R == 7 || R == 8) || more.length > 1 then (s, "bad-op") else
        let useInit := more.length == 1
        let init := more.headD 0
        if !useInit && (R == 7 || R == 8) && n == 0 then (s, "empty") else
        let f := fun (acc i : Int) =>
          let x := r.value i
          if R == 0 then acc + x else if R == 1 then acc * (Int.tmod x 3 + 1)
          else if R == 7 then minI acc x else maxI acc x
        match reduceGen a.len R useInit init r.start f (hostComb R) with
        | .ok v => (s, toString v)
        | .err => (s, "err")
        | .trap => (s, "trap")
      | _, _ => (s, "bad-op")
  | _ => (s, "bad-op")

/-! ### forLoop -/

structure Spec where
  kind : Char
  s : Int
  e : Int
  st : Int
  slot : Nat
  tile : Int

def parseSpec (w : String) : Option Spec :=
  let f := w.splitOn ":"
  let (f, tile) : List String × Option Int :=
    match f.getLast? with
    | some l =>
      if f.length ≥ 2 && l.length > 1 && l.startsWith "t" then
        match (l.drop 1).toInt? with
        | some t => (f.dropLast, some t)
        | none => (f, some 0)         -- malformed tile suffix
      else (f, none)
    | none => (f, none)
  match tile with
  | some t => if t ≤ 0 then none else parseRest f t
  | none => parseRest f 0
where
  parseRest (f : List String) (tile : Int) : Option Spec :=
    match f with
    | k :: rest =>
      match rest.mapM String.toInt? with
      | none => none
      | some nums =>
        if k == "n" then
          match nums with
          | [e] => some ⟨'n', 0, e, if e ≥ 0 then 1 else -1, 0, tile⟩
          | _ => none
        else if k == "r" then
          match nums with
          | [a, b, c] => if c == 0 then none else some ⟨'r', a, b, c, 0, tile⟩
          | _ => none
        else if k == "a" then
          match nums with
          | [j] => if okSlot j then some ⟨'a', 0, 0, 1, j.toNat, tile⟩ else none
          | _ => none
        else none
    | [] => none

/-- values one dimension of the generated kernel visits -/
def specVals (s : St) (sp : Spec) : Res (List Int) :=
  if sp.kind == 'a' then
    match s.slot sp.slot with
    | some a => .ok (s.read a)          -- the index loop has step 1: tiling it is not affected by F25
    | none => .err
  else
    let r : Range := ⟨sp.s, sp.e, sp.st⟩
    if sp.tile > 0 then
      match Iter.vals forLoopStepIsAbs (.range r) with
      | .ok _ => .ok (tiledVals tileInnerScaled sp.s sp.e sp.st sp.tile)
      | .err => .err
      | .trap => .trap
    else Iter.vals forLoopStepIsAbs (.range r)

/-- the sequential values (the oracle's window computation in the harness uses these) -/
def specSeq (s : St) (sp : Spec) : List Int :=
  if sp.kind == 'a' then (match s.slot sp.slot with | some a => s.read a | none => [])
  else forVals sp.s sp.e sp.st

def listMin (xs : List Int) (d : Int) : Int := xs.foldl minI (xs.headD d)
def listMax (xs : List Int) (d : Int) : Int := xs.foldl maxI (xs.headD d)

def loopOp (s : St) (toks : List String) : St × String :=
  -- the harness parses left to right and reports the first problem it meets
  let rec scan (ts : List String) (inner : Bool) (acc : List (Spec × Bool)) : Except String (List (Spec × Bool)) :=
    match ts with
    | [] => .ok acc.reverse
    | "|" :: rest => if inner then .error "bad-op" else scan rest true acc
    | w :: rest =>
      match parseSpec w with
      | none => .error "bad-op"
      | some sp =>
        if sp.kind == 'a' && (s.slot sp.slot).isNone then .error "none"
        else if sp.tile > 0 && inner then .error "bad-op"
        else scan rest inner ((sp, inner) :: acc)
  match scan toks false [] with
  | .error e => (s, e)
  | .ok all =>
    let outer := (all.filter fun x => !x.2).map (·.1)
    let inner := (all.filter fun x => x.2).map (·.1)
    let tiled := outer.any fun sp => sp.tile > 0
    if outer.isEmpty || outer.length > 3 || inner.length > 3 then (s, "bad-op")
    else if tiled && (!inner.isEmpty || outer.any fun sp => sp.tile ≤ 0) then (s, "bad-op")
    else
      let dims := outer ++ inner
      -- window of the counter array (protocol artefact of the harness)
      let cells := dims.foldl (fun (acc : Option Nat) sp =>
        match acc with
        | none => none
        | some c =>
          let vals := specSeq s sp
          let mn := if vals.isEmpty then (if sp.kind == 'a' then 0 else sp.s) else listMin vals 0
          let mx := if vals.isEmpty then (if sp.kind == 'a' then 0 else sp.s) else listMax vals 0
          let margin : Int := if sp.kind == 'a' then 1 else 2 * sp.st.natAbs
          let w := (mx + margin - (mn - margin) + 1).toNat
          if c * w > 2097152 then none else some (c * w)) (some 1)
      match cells with
      | none => (s, "bad-op")
      | some _ =>
        let rec collect (ds : List Spec) (acc : List (List Int)) : Res (List (List Int)) :=
          match ds with
          | [] => .ok acc.reverse
          | sp :: rest =>
            match specVals s sp with
            | .ok v => collect rest (v :: acc)
            | .err => .err
            | .trap => .trap
        match collect dims [] with
        | .ok vs => (s, showTuples (tuples vs))
        | .err => (s, "err")
        | .trap => (s, "trap")

/-! ### float slots: only the lengths are modelled (values are checked by the harness oracle) -/

def floatOp (s : St) (dbl : Bool) (op : String) (t : List String) : St × String :=
  let lens := if dbl then s.dlen else s.flen
  let put (s : St) (k : Nat) (n : Nat) : St :=
    if dbl then { s with dlen := s.dlen.set k (some n) } else { s with flen := s.flen.set k (some n) }
  let num (x : String) : Option Int := x.toInt?
  let fslot (x : String) : Option Nat :=
    match x.toInt? with
    | some k => if okFSlot k then some k.toNat else none
    | none => none
  let allNum := t.all fun x => (num x).isSome
  match op, t with
  | "new", [k, n, _seed] =>
    if !allNum then (s, "bad-op") else
    match fslot k, num n with
    | some k, some n => if n < 0 || n > 4096 then (s, "bad-op") else (put s k n.toNat, s!"len {n}")
    | _, _ => (s, "bad-op")
  | "fromint", [k, j] =>
    if !allNum then (s, "bad-op") else
    match num k, fslot j with
    | some k, some j =>
      if !okSlot k then (s, "bad-op") else
      match s.slot k.toNat with
      | none => (s, "none")
      | some a => (put s j a.len, s!"len {a.len}")
    | _, _ => (s, "bad-op")
  | _, k :: rest =>
    match fslot k with
    | none => (s, "bad-op")
    | some k =>
      match lens.getD k none with
      | none => (s, "none")
      | some n =>
        let restNum := rest.all fun x => (num x).isSome
        match op, rest with
        | "tile", [_, _] => if restNum then (s, "ok") else (s, "bad-op")
        | "map", [j] => (match fslot j with | some j => (put s j n, s!"len {n}") | none => (s, "bad-op"))
        | "sum", [] => (s, "ok")
        | "prod", [] => (s, "ok")
        | "min", [] => (s, if n == 0 then "empty" else "ok")
        | "max", [] => (s, if n == 0 then "empty" else "ok")
        | "dot", [l] =>
          (match fslot l with
           | none => (s, "bad-op")
           | some l => match lens.getD l none with
             | none => (s, "none")
             | some m => (s, if m < n then "short" else "ok"))
        | "clamp", [j, _, _] =>
          if !restNum then (s, "bad-op") else
          (match fslot j with | some j => (put s j n, s!"len {n}") | none => (s, "bad-op"))
        | "fill", [_] => if restNum then (s, s!"len {n}") else (s, "bad-op")
        | "toint", [] => (s, s!"len {n}")
        | "slice", [j, off, cnt] =>
          if !restNum then (s, "bad-op") else
          (match fslot j, num off, num cnt with
           | some j, some off, some cnt =>
             if off < 0 || off > n || cnt < -1 || (cnt ≥ 0 && off + cnt > n) then (s, "bad-op")
             else
               let m := if cnt < 0 then n - off.toNat else cnt.toNat
               (put s j m, s!"len {m}")
           | _, _, _ => (s, "bad-op"))
        | "concat", [l, j] =>
          (match fslot l, fslot j with
           | some l, some j => (match lens.getD l none with
             | none => (s, "none")
             | some m => (put s j (n + m), s!"len {n + m}"))
           | _, _ => (s, "bad-op"))
        | _, _ => (s, "bad-op")
  | _, _ => (s, "bad-op")

/-! ### int-array operations -/

def arrayOp (s : St) (op : String) (a : Arr) (k : Int) (args : List Int) : St × String :=
  let xs := s.read a
  let n := xs.length
  match op, args with
  | "get", [] => (s, showInts xs)
  | "tile", [ts, ti] => (s.setSlot k.toNat (some (setTile a ts ti)), "ok")
  | "tile1", [ts] => (s.setSlot k.toNat (some (setTile a ts 1)), "ok")
  | "map", [j, F, p, q] =>
    if !okSlot j || F < 0 || F > 2 then (s, "bad-op") else mapOp s a j (mapFn F p q)
  | "mapto", [j, F, p, q] =>
    if !okSlot j || F < 0 || F > 2 then (s, "bad-op") else
    withSlot s j fun o =>
      -- `output.resize(length())`; `mapTo(a, a)` keeps the very same memory
      let (s1, o') := resizeArr s o a.len
      match mapToArr s1 a o' (mapFn F p q) with
      | .ok s2 => storeOut s2 j o'
      | .err => (s, "err")
      | .trap => (s, "trap")
  | "every", [P, p] =>
    if P < 0 || P > 4 then (s, "bad-op") else
    (match visit emptyGuard a with
     | .ok vis => (s, showBool (everyOf vis (predFn P p xs)))
     | .err => (s, "err") | .trap => (s, "trap"))
  | "some", [P, p] =>
    if P < 0 || P > 4 then (s, "bad-op") else
    (match visit emptyGuard a with
     | .ok vis => (s, showBool (decide (findLast vis (predFn P p xs) ≥ 0)))
     | .err => (s, "err") | .trap => (s, "trap"))
  | "find", [P, p] =>
    if P < 0 || P > 4 then (s, "bad-op") else
    (match visit emptyGuard a with
     | .ok vis => (s, findObs s.omp vis (predFn P p xs))
     | .err => (s, "err") | .trap => (s, "trap"))
  | "foreach", [j, E, p] =>
    if !okSlot j || E < 0 || E > 2 then (s, "bad-op") else
    withSlot s j fun o =>
      if j == k then (s, "bad-op") else
      let m := o.len
      if (E != 0 && m < n) || m == 0 then (s, "short") else
      match visit emptyGuard a with
      | .err => (s, "err") | .trap => (s, "trap")
      | .ok vis =>
        let s' := vis.foldl (fun s i =>
          let cur := s.read a
          let out := s.read o
          let v : Int := cur.getD i 0
          if E == 0 then (if decide (0 ≤ v) && decide (v < (m : Int)) then s.write o (out.set v.toNat p) else s)
          else if E == 1 then s.write o (out.set i (v + p))
          else s.write o (out.set i (v - cur.getD 0 0 + (i : Int) + p))) s
        (s', showInts (s'.read o))
  | "reduce", [R, G, p] => (s, reduceOp s a R G p false 0)
  | "reduce", [R, G, p, init] => (s, reduceOp s a R G p true init)
  | "min", [] => (s, if n == 0 then "empty" else reduceOp s a 7 0 0 false 0)
  | "max", [] => (s, if n == 0 then "empty" else reduceOp s a 8 0 0 false 0)
  | "incl", [v] =>
    (match visit emptyGuard a with
     | .ok vis => (s, showBool (decide (findLast vis (fun i => xs.getD i 0 == v) ≥ 0)))
     | .err => (s, "err") | .trap => (s, "trap"))
  | "idx", [v] => (s, match indexOfArr xs v with | .ok r => toString r | .err => "err" | .trap => "trap")
  | "lidx", [v] => (s, match lastIndexOfArr xs v with | .ok r => toString r | .err => "err" | .trap => "trap")
  | "fill", [v] =>
    (match mapToArr s a a (fun _ _ => v) with
     | .ok s' => (s', showInts (s'.read a))
     | .err => (s, "err") | .trap => (s, "trap"))
  | "rev", [j] =>
    if !okSlot j then (s, "bad-op") else mapOp s a j fun ys i => ys.getD (n - i - 1) 0
  | "shl", [j, off, ev] =>
    if !okSlot j || off < 0 then (s, "bad-op")
    else if off == 0 then (let (s', c) := cloneArr s a; storeOut s' j c)
    else mapOp s a j fun ys i => if (i : Int) < (n : Int) - off then ys.getD (i + off.toNat) 0 else ev
  | "shr", [j, off, ev] =>
    if !okSlot j || off < 0 then (s, "bad-op")
    else if off == 0 then (let (s', c) := cloneArr s a; storeOut s' j c)
    else mapOp s a j fun ys i => if (i : Int) ≥ off then ys.getD (i - off.toNat) 0 else ev
  | "dot", [l] =>
    if !okSlot l then (s, "bad-op") else
    withSlot s l fun o =>
      let other := s.read o
      if other.length < n then (s, "short") else
      match reduceGen n 0 false 0 (xs.getD 0 0) (fun acc i => acc + xs.getD i.toNat 0 * other.getD i.toNat 0) (hostComb 0) with
      | .ok v => (s, toString v)
      | .err => (s, "err") | .trap => (s, "trap")
  | "clamp", [j, lo, hi] =>
    if !okSlot j then (s, "bad-op") else
    mapOp s a j fun ys i => let v := ys.getD i 0; let w := if v > hi then hi else v; if w < lo then lo else w
  | "cmin", [j, v] =>
    if !okSlot j then (s, "bad-op") else mapOp s a j fun ys i => let x := ys.getD i 0; if x < v then v else x
  | "cmax", [j, v] =>
    if !okSlot j then (s, "bad-op") else mapOp s a j fun ys i => let x := ys.getD i 0; if x > v then v else x
  | "cast", [j, T] =>
    if !okSlot j || T < 0 || T > 3 then (s, "bad-op") else
    -- a.cast<T>().cast<int>(): two map kernels; only `char` changes values in the exercised range
    let conv := fun (v : Int) => if T == 0 then wrapS 8 v else v
    (match mapArr s a (fun ys i => conv (ys.getD i 0)) with
     | .ok (s1, mid) =>
       (match mapArr s1 mid (fun ys i => ys.getD i 0) with
        | .ok (s2, out) => storeOut s2 j out
        | .err => (s, "err") | .trap => (s, "trap"))
     | .err => (s, "err") | .trap => (s, "trap"))
  | "slice", [j, off, cnt] =>
    if !okSlot j || off < 0 || off > n || cnt < -1 || (cnt ≥ 0 && off + cnt > n) then (s, "bad-op") else
    let m := if cnt < 0 then n - off.toNat else cnt.toNat
    storeOut s j { buf := a.buf, off := a.off + off.toNat, len := m }
  | "concat", [l, j] =>
    if !okSlot l || !okSlot j then (s, "bad-op") else
    withSlot s l fun o =>
      let (s', c) := s.alloc (xs ++ s.read o)
      storeOut s' j c
  | "clone", [j] =>
    if !okSlot j then (s, "bad-op") else
    let (s', c) := cloneArr s a
    storeOut s' j c
  | "asg", [j] =>
    if !okSlot j then (s, "bad-op") else (s.setSlot j.toNat (some a), s!"len {a.len}")
  | "resize", [m] =>
    if m < 0 || m > 4096 then (s, "bad-op") else
    let (s', a') := resizeArr s a m.toNat
    (s'.setSlot k.toNat (some a'), s!"len {a'.len}")
  | "at", [i] => if i < 0 || i ≥ n then (s, "bad-op") else (s, toString (xs.getD i.toNat 0))
  | "cpf", m :: vs =>
    if vs.length != m.toNat || m < 1 || m > n then (s, "bad-op") else
    let s' := s.write a (vs ++ xs.drop vs.length)
    (s', showInts (s'.read a))
  | _, _ => (s, "bad-op")

def step (s : St) (toks : List String) : St × String :=
  match toks with
  | [] => (s, "bad-op")
  | ["dev", "S"] => ({}, "ok")
  | ["dev", "O"] => ({ omp := true }, "ok")
  | ["swapdev"] => ({ omp := !s.omp }, "ok")
  | op :: rest =>
    if op.startsWith "f." then floatOp s false (op.drop 2).toString rest
    else if op.startsWith "d." then floatOp s true (op.drop 2).toString rest
    else if op == "loop" then loopOp s rest
    else match ints rest with
      | none => (s, "bad-op")
      | some args =>
        if op == "rlen" then
          match args with
          | [1, e] => let r := Range.mk1 e; (s, s!"{r.start} {r.stop} {r.step} {r.length}")
          | [2, a, b] => let r := Range.mk2 a b; (s, s!"{r.start} {r.stop} {r.step} {r.length}")
          | [3, a, b, c] => let r := Range.mk3 a b c; (s, s!"{r.start} {r.stop} {r.step} {r.length}")
          | _ => (s, "bad-op")
        else if op.startsWith "r." then rangeOp s (op.drop 2).toString args
        else match args with
          | [] => (s, "bad-op")
          | k :: more =>
            if !okSlot k then (s, "bad-op")
            else if op == "new" then
              match more with
              | n :: vs =>
                if vs.length != n.toNat || n < 0 then (s, "bad-op") else
                let (s', a) := s.alloc vs
                (s'.setSlot k.toNat (some a), s!"len {vs.length}")
              | [] => (s, "bad-op")
            else match s.slot k.toNat with
              | none => (s, "none")
              | some a => arrayOp s op a k more

def main : IO Unit := Proto.run ({} : St) step
