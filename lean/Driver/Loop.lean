import OccaModel.LoopExpr
import OccaModel.Proto
open Occa Occa.Proto Occa.Loop Occa.LoopExpr

/-! Line protocol of harness/h_loops.cpp and harness/h_dim.cpp (see those files for the grammar).
    K  : the lines of every translation that decide which iterations run (text level)
    R  : the iterator tuples visited for given operand values (numeric level; the implementation side
         is the execution oracle of tools/checks/loops_common.py)
    D  : the `@dim` rewrite of one access (text level)      DR : its value for given operand values
    DO : does `dimOrder::isValid` accept this argument list -/

def binOps : List String :=
  ["+", "-", "*", "/", "%", "<<", ">>", "<", "<=", ">", ">=", "==", "!=", "&", "^", "|", "&&", "||"]

def parseE : Nat → List String → Option (Expr × List String)
  | 0, _ => none
  | _, [] => none
  | f + 1, tok :: rest =>
    if tok == "P" then do
      let (e, r) ← parseE f rest
      pure (.paren e, r)
    else if tok == "cast" then do
      let (e, r) ← parseE f rest
      pure (.cast e, r)
    else if tok == "neg" || tok == "pos" || tok == "not" || tok == "bnot" then do
      let (e, r) ← parseE f rest
      let op := if tok == "neg" then "-" else if tok == "pos" then "+" else if tok == "not" then "!" else "~"
      pure (.un op e, r)
    else if tok == "?" then do
      let (c, r1) ← parseE f rest
      let (t, r2) ← parseE f r1
      let (e, r3) ← parseE f r2
      pure (.tern c t e, r3)
    else if binOps.contains tok then do
      let (l, r1) ← parseE f rest
      let (r, r2) ← parseE f r1
      pure (.bin tok l r, r2)
    else if tok.startsWith "v" && tok.length ≥ 2 then some (.var (tok.drop 1).toString, rest)
    else if tok.startsWith "c" then
      match (tok.drop 1).toString.toInt? with
      | some v => some (.lit v, rest)
      | none => none
    else none

def parsePolish (s : String) : Option Expr :=
  let toks := s.splitOn ","
  match parseE (toks.length + 1) toks with
  | some (e, []) => some e
  | _ => none

def parseAttr (s : String) : Option (Attr × Option Nat) :=
  match s.splitOn "@" with
  | ["outer"] => some (.outer, none)
  | ["inner"] => some (.inner, none)
  | ["none"] => some (.none, none)
  | ["outer", k] => k.toNat?.map fun n => (.outer, some n)
  | ["inner", k] => k.toNat?.map fun n => (.inner, some n)
  | _ => none

def parseCmp : String → Option Cmp
  | "lt" => some .lt | "le" => some .le | "gt" => some .gt | "ge" => some .ge | _ => none

def parseTile (s : String) : Option (Option TileSpec) :=
  if s == "-" then some none else
  match s.splitOn ":" with
  | [t, b, i, c] => do
    let T ← parsePolish t
    let (ba, _) ← parseAttr b
    let (ia, _) ← parseAttr i
    let chk ← if c == "0" then some false else if c == "1" || c == "d" then some true else none
    pure (some { T := T, battr := ba, iattr := ia, check := chk })
  | _ => none

def parseLoop (s : String) : Option (LoopSpec × Option TileSpec) :=
  match s.splitOn ";" with
  | [var, attr, ityp, init, cmp, side, bound, upd, step, tile] => do
    let (a, idx) ← parseAttr attr
    let i ← parsePolish init
    let c ← parseCmp cmp
    let b ← parsePolish bound
    let right ← if side == "R" then some true else if side == "L" then some false else none
    let (pos, post, hasStep) ← match upd with
      | "preinc" => some (true, false, false)
      | "postinc" => some (true, true, false)
      | "predec" => some (false, false, false)
      | "postdec" => some (false, true, false)
      | "addeq" => some (true, false, true)
      | "subeq" => some (false, false, true)
      | _ => none
    let st ← if hasStep then (parsePolish step).map some else some none
    let t ← parseTile tile
    pure ({ var := var, attr := a, index := idx, ityp := ityp, init := i, cmp := c, boundOnRight := right,
            bound := b, positive := pos, post := post, step := st }, t)
  | _ => none

def mkEnv (vals : List Int) : String → Int := fun n =>
  match n with
  | "N" => vals.getD 0 0 | "M" => vals.getD 1 0 | "a" => vals.getD 2 0 | "b" => vals.getD 3 0
  | "c" => vals.getD 4 0 | "s" => vals.getD 5 0 | "t" => vals.getD 6 0 | _ => 0

/-! numeric level -/

def tupleLe : List Int → List Int → Bool
  | [], _ => true
  | _ :: _, [] => false
  | a :: r, b :: s => if a < b then true else if b < a then false else tupleLe r s

def product : List (List Int) → List (List Int)
  | [] => [[]]
  | l :: r => l.flatMap fun i => (product r).map fun t => i :: t

def showTuples (tag : String) (id : Int) (ts : List (List Int)) : String :=
  tag ++ String.join (ts.map fun t => " " ++ ",".intercalate ((id :: t).map toString))

/-- iterator values one loop of the nest contributes: sequentially, in the Serial translation, and on a
    launcher backend (`u32`: thread indices are 32-bit unsigned) -/
def loopLists (env : String → Int) (u32 : Bool) (l : LoopSpec) (t : Option TileSpec) :
    List Int × List Int × List Int :=
  let h := l.header env
  let seq := seqIters h
  match t with
  | none =>
    let launch := match l.attr with
      | .none => seq
      | _ => if u32 && l.ityp == "long" then launchItersU32 h else launchIters h
    (seq, seq, launch)
  | some ts =>
    let T := eval env ts.T
    let ser := tiled h T ts.check
    let launch :=
      match ts.battr, ts.iattr with
      | .none, _ => ser
      | _, .none =>
        (launchIters (blockHeader h T)).flatMap fun xT =>
          (seqIters (innerHeader h T xT)).filter fun x => !ts.check || h.test x
      | _, _ => tiledLaunch h T ts.check
    (seq, ser, launch)

def runNest (id : Int) (specs : List (LoopSpec × Option TileSpec)) (vals : List Int) : String :=
  let env := mkEnv vals
  let l32 := specs.map fun (l, t) => loopLists env true l t
  let l64 := specs.map fun (l, t) => loopLists env false l t
  let seq := product (l64.map fun x => x.1)
  let ser := (product (l64.map fun x => x.2.1)).mergeSort tupleLe
  let a32 := (product (l32.map fun x => x.2.2)).mergeSort tupleLe
  let a64 := (product (l64.map fun x => x.2.2)).mergeSort tupleLe
  showTuples "seq" id seq ++ " | " ++ showTuples "serial" id ser ++ " | " ++ showTuples "l32" id a32
    ++ " | " ++ showTuples "l64" id a64

/-! @dim -/

structure DimOp where
  dims : List Expr
  order : Option (List Nat)
  args : List Expr

def parseDim (toks : List String) : Option DimOp := do
  let k ← (toks.getD 0 "").toNat?
  let rest := toks.drop 1
  let dims ← (rest.take k).mapM parsePolish
  let rest := rest.drop k
  let (order, rest) ←
    if rest.head? == some "none" then some (none, rest.drop 1)
    else do
      let o ← (rest.take k).mapM String.toNat?
      pure (some o, rest.drop k)
  let args ← (rest.take k).mapM parsePolish
  if dims.length == k && args.length == k && (rest.drop k).isEmpty then
    pure { dims := dims, order := order, args := args }
  else none

def dimText (d : DimOp) : String :=
  let order := d.order.getD (List.range d.args.length)
  "const long int idx = &" ++ print (.sub (.var "x") (dimIndexExpr d.dims d.args order)) ++ " - x;"

def step (_ : Unit) (toks : List String) : Unit × String :=
  match toks with
  | "K" :: _ :: loops =>
    match loops.mapM parseLoop with
    | some specs => ((), if nestRejected specs then rejectedLine else kernelLine (expandNest specs []))
    | none => ((), "bad-op")
  | "R" :: id :: rest =>
    let loops := rest.takeWhile (· ≠ "|")
    let vals := (rest.dropWhile (· ≠ "|")).drop 1
    match loops.mapM parseLoop, ints vals, id.toInt? with
    | some specs, some vs, some i => ((), runNest i specs vs)
    | _, _, _ => ((), "bad-op")
  | "D" :: _ :: rest =>
    match parseDim rest with
    | some d =>
      let line := dimText d
      ((), "ok" ++ String.join (["serial", "openmp", "cuda", "hip", "opencl", "metal", "dpcpp"].map
        fun m => " @@ " ++ m ++ " " ++ line))
    | none => ((), "bad-op")
  | "DR" :: _ :: rest =>
    let ds := rest.takeWhile (· ≠ "|")
    let vals := (rest.dropWhile (· ≠ "|")).drop 1
    match parseDim ds, ints vals with
    | some d, some vs =>
      let env := mkEnv vs
      let order := d.order.getD (List.range d.args.length)
      let tree := eval env (dimIndexExpr d.dims d.args order)
      let D := d.dims.map fun e => eval env e
      let ix := d.args.map fun e => eval env e
      ((), "idx " ++ toString tree ++ " linear " ++ toString (Occa.Dim.linear D ix order)
            ++ " code " ++ toString (Occa.Dim.codeIndex D ix order))
    | _, _ => ((), "bad-op")
  | "DO" :: args =>
    match ints args with
    | some a => ((), if Occa.Dim.orderValid a then "accept" else "reject")
    | none => ((), "bad-op")
  | _ => ((), "bad-op")

def main : IO Unit := Proto.run () step
