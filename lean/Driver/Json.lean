/-
Line-protocol driver for the JSON models (C24 dump/parse, C25 path access and merging, C26 property
layering).  The same op lines are executed by harness/h_json.cpp, h_jsonpath.cpp and h_props.cpp on
the real occa::json / occa::device.

Tree scripts (Polish notation, space separated):
  N none   Z null   T / F booleans   i8:<int> u8: i16: u16: i32: u32: i64: u64:   f32:<hex bits> f64:<hex bits>
  P:<hex text> (primitive::load of the text)   S:<hex bytes> string   A<n> v1 … vn   O<n> k1 v1 … kn vn (keys hex)
Canonical rendering `show`: N Z #<type>:<value>:<source hex> S<hex> [v,…] {<key hex>=v,…}.
-/
import OccaModel.Props
import OccaModel.Hash
import OccaModel.Proto
open Occa Occa.Json Occa.Proto

def toBytes (ns : List Nat) : Bytes := ns.map fun n => n.toUInt8
def hexB (b : Bytes) : String := hex (b.map fun c => c.toNat)
def unhexB (s : String) : Option Bytes := (unhex s).map toBytes

def tyName : PType → String
  | .none => "none" | .bool => "bool" | .i8 => "i8" | .u8 => "u8" | .i16 => "i16" | .u16 => "u16"
  | .i32 => "i32" | .u32 => "u32" | .i64 => "i64" | .u64 => "u64" | .f32 => "f32" | .f64 => "f64"

def tyOfName : String → Option PType
  | "i8" => some .i8 | "u8" => some .u8 | "i16" => some .i16 | "u16" => some .u16
  | "i32" => some .i32 | "u32" => some .u32 | "i64" => some .i64 | "u64" => some .u64
  | _ => none

mutual
partial def showJ : Json → String
  | .none => "N"
  | .null => "Z"
  | .num p => "#" ++ tyName p.ty ++ ":" ++ toString p.val ++ ":" ++ hexB p.src
  | .str s => "S" ++ hexB s
  | .arr xs => "[" ++ ",".intercalate (xs.map showJ) ++ "]"
  | .obj kvs => "{" ++ ",".intercalate (kvs.map fun (k, v) => hexB k ++ "=" ++ showJ v) ++ "}"
end

def hexVal (s : String) : Option Nat :=
  s.toList.foldlM (fun acc c => (hexDigit c).map fun d => acc * 16 + d) 0

/-- one tree from the token stream -/
partial def readTree : List String → Option (Json × List String)
  | [] => none
  | t :: rest =>
    if t = "N" then some (.none, rest)
    else if t = "Z" then some (.null, rest)
    else if t = "T" then some (.num ⟨.bool, 1, []⟩, rest)
    else if t = "F" then some (.num ⟨.bool, 0, []⟩, rest)
    else if t.startsWith "S:" then (unhexB (t.drop 2).toString).map fun b => (.str b, rest)
    else if t.startsWith "P:" then
      (unhexB (t.drop 2).toString).map fun b =>
        let b := cstr b
        (.num (loadPrim (b.length + 1) b).1, rest)
    else if t.startsWith "f32:" then (hexVal (t.drop 4).toString).map fun n => (.num ⟨.f32, n % 2 ^ 32, []⟩, rest)
    else if t.startsWith "f64:" then (hexVal (t.drop 4).toString).map fun n => (.num ⟨.f64, n % 2 ^ 64, []⟩, rest)
    else if t.startsWith "A" then do
      let n ← (t.drop 1).toString.toNat?
      let rec items : Nat → List String → List Json → Option (List Json × List String)
        | 0, ts, acc => some (acc, ts)
        | k+1, ts, acc => do
          let (v, ts) ← readTree ts
          items k ts (acc ++ [v])
      let (xs, ts) ← items n rest []
      pure (.arr xs, ts)
    else if t.startsWith "O" then do
      let n ← (t.drop 1).toString.toNat?
      let rec members : Nat → List String → Obj → Option (Obj × List String)
        | 0, ts, acc => some (acc, ts)
        | k+1, ts, acc =>
          match ts with
          | kh :: ts => do
            let key ← unhexB kh
            let (v, ts) ← readTree ts
            members k ts (insert (cstr key) v acc)   -- set(key.c_str(), v)
          | [] => none
      let (kvs, ts) ← members n rest []
      pure (.obj kvs, ts)
    else
      match t.splitOn ":" with
      | [ty, v] => do
        let pt ← tyOfName ty
        let x ← v.toInt?
        pure (.num (Prim.mk' pt x), rest)
      | _ => none

def readTree1 (ts : List String) : Option Json :=
  match readTree ts with
  | some (v, []) => some v
  | _ => none

def errS (e : Err) : String := "err:" ++ e.name

def resS : Except Err Json → String
  | .ok v => showJ v
  | .error e => errS e

def hashS (v : Json) : String :=
  ",".intercalate ((Hash.hashBytes ((hashText v).map fun c => c.toNat)).map toString)

structure St where
  J : Json := .none
  base : Json := .none
  settings : Json := .none
  dev : Option Json := none

/-- the C++ conversions used by get<T> -/
def convInt (v : Json) : String :=
  match v with
  | .num p =>
    match p.ty with
    | .none => errS .typeNotSet
    | .f32 | .f64 =>
      let t := if p.ty = .f32 then JsonFloat.truncToInt JsonFloat.f32 p.val.toNat else JsonFloat.truncToInt JsonFloat.f64 p.val.toNat
      (match t with
       | some x => if -2147483648 ≤ x ∧ x ≤ 2147483647 then toString x else "ub"
       | none => "ub")
    | _ => toString (wrapS 32 p.val)
  | _ => "0"

def convBool (v : Json) : String :=
  match v with
  | .num p =>
    match p.ty with
    | .none => errS .typeNotSet
    | .f32 => if JsonFloat.isZero JsonFloat.f32 p.val.toNat then "0" else "1"
    | .f64 => if JsonFloat.isZero JsonFloat.f64 p.val.toNat then "0" else "1"
    | _ => if p.val = 0 then "0" else "1"
  | .str s => if s.isEmpty then "0" else "1"
  | .obj _ => "1"
  | .arr _ => "1"
  | _ => "0"

def mutate (st : St) (r : Except Err Json) : St × String :=
  match r with
  | .ok j => ({ st with J := j }, "ok")
  | .error e => (st, errS e)

def step (st : St) (toks : List String) : St × String :=
  match toks with
  -- ---------------------------------------------------------------- C24
  | "rt" :: ind :: tree =>
    (match ind.toInt?, readTree1 tree with
     | some i, some v =>
       let text := dumpI i v
       let (status, eq) :=
         match parse text with
         | .ok w => ("ok " ++ showJ w, if jsonEq v w then "1" else "0")
         | .error e => (errS e ++ " -", "0")
       (st, hexB text ++ " " ++ status ++ " eq=" ++ eq ++ " h=" ++ hashS v)
     | _, _ => (st, "bad-op"))
  | ["parse", hx] =>
    (match unhexB hx with
     | some b =>
       let t := cstr b
       (match load (parseFuel t.length) t with
        | .ok (v, rest) => (st, "ok " ++ showJ v ++ " used=" ++ toString (t.length - rest.length))
        | .error e => (st, errS e))
     | none => (st, "bad-op"))
  | "eq" :: trees =>
    (match readTree trees with
     | some (a, rest) =>
       (match readTree1 rest with
        | some b =>
          (st, "eq=" ++ (if jsonEq a b then "1" else "0") ++ " same=" ++ (if hashText a = hashText b then "1" else "0"))
        | none => (st, "bad-op"))
     | none => (st, "bad-op"))
  | "show" :: tree =>
    (match tree with
     | [] => (st, showJ st.J)
     | _ => match readTree1 tree with
       | some v => (st, showJ v)
       | none => (st, "bad-op"))
  | "dumpt" :: ind :: tree =>
    (match ind.toInt?, readTree1 tree with
     | some i, some v => (st, hexB (dumpI i v))
     | _, _ => (st, "bad-op"))
  -- ---------------------------------------------------------------- C25
  | "new" :: tree =>
    (match readTree1 tree with
     | some v => ({ st with J := v }, "ok")
     | none => (st, "bad-op"))
  | ["touch", p] =>
    (match unhexB p with
     | some p => mutate st (touch (splitPath p) st.J)
     | none => (st, "bad-op"))
  | "w" :: p :: tree =>
    (match unhexB p, readTree1 tree with
     | some p, some v => mutate st (write (splitPath p) v st.J)
     | _, _ => (st, "bad-op"))
  | "wt" :: p :: tree =>
    (match unhexB p, readTree1 tree with
     | some p, some v => mutate st (write (splitPath p) v st.J)
     | _, _ => (st, "bad-op"))
  | ["rc", p] =>
    (match unhexB p with
     | some p => (st, showJ (readK (splitPath p) st.J))
     | none => (st, "bad-op"))
  | "get" :: p :: kind :: dflt =>
    (match unhexB p, readTree1 dflt with
     | some p, some d =>
       let cur := readK (splitPath p) st.J
       let conv := fun (x : Json) =>
         if kind = "int" then convInt x
         else if kind = "bool" then convBool x
         else if kind = "str" then hexB (toStringJ x)
         else showJ x
       -- the default is converted to T before the call: `get<T>(key, (T) default)`
       let dc := conv d
       if (kind = "int" || kind = "bool") && (dc = "ub" || dc.startsWith "err") then (st, dc)
       else if cur.isNone then (st, dc) else (st, conv cur)
     | _, _ => (st, "bad-op"))
  | ["has", p] =>
    (match unhexB p with
     | some p => (st, if hasK (splitPath p) st.J then "1" else "0")
     | none => (st, "bad-op"))
  | ["size"] => (st, toString (size st.J))
  | ["sizeat", p] =>
    (match unhexB p with
     | some p => (st, toString (size (readK (splitPath p) st.J)))
     | none => (st, "bad-op"))
  | ["rm", p] =>
    (match unhexB p with
     | some p => ({ st with J := removeK (splitPath p) st.J }, "ok")
     | none => (st, "bad-op"))
  | "set" :: k :: tree =>
    (match unhexB k, readTree1 tree with
     | some k, some v => ({ st with J := setLit (cstr k) v st.J }, "ok")
     | _, _ => (st, "bad-op"))
  | "setat" :: p :: k :: tree =>
    (match unhexB p, unhexB k, readTree1 tree with
     | some p, some k, some v => mutate st (touchWith (setLit (cstr k) v) (splitPath p) st.J)
     | _, _, _ => (st, "bad-op"))
  | "merge" :: tree =>
    (match readTree1 tree with
     | some v => mutate st (add st.J v)
     | none => (st, "bad-op"))
  | "mergeat" :: p :: tree =>
    (match unhexB p, readTree1 tree with
     | some p, some v =>
       -- J[path] += v : the touch happens first, then the sum may fail (the touch persists)
       (match touch (splitPath p) st.J with
        | .error e => (st, errS e)
        | .ok j1 =>
          (match add (readK (splitPath p) j1) v with
           | .error e => ({ st with J := j1 }, errS e)
           | .ok s => mutate st (write (splitPath p) s j1)))
     | _, _ => (st, "bad-op"))
  | "plus" :: tree =>
    (match readTree1 tree with
     | some v => (st, resS (add st.J v))
     | none => (st, "bad-op"))
  | ["dump", ind] =>
    (match ind.toInt? with
     | some i => (st, hexB (dumpI i st.J))
     | none => (st, "bad-op"))
  | ["keys"] =>
    (match st.J with
     | .obj kvs => (st, "[" ++ ",".intercalate (kvs.map fun (k, _) => hexB k) ++ "]")
     | _ => (st, "[]"))
  -- ---------------------------------------------------------------- C26
  | "base" :: tree =>
    (match readTree1 tree with
     | some v => ({ st with base := v }, "ok")
     | none => (st, "bad-op"))
  | "settings" :: tree =>
    (match readTree1 tree with
     | some v => ({ st with settings := v }, "ok")
     | none => (st, "bad-op"))
  | "dev" :: tree =>
    (match readTree1 tree with
     | some v =>
       (match deviceProps (effSettings st.base st.settings) v with
        | .ok dp => ({ st with dev := some dp }, showJ dp)
        | .error e => ({ st with dev := none }, errS e))
     | none => (st, "bad-op"))
  | kind :: tree =>
    if kind = "kp" || kind = "mp" || kind = "sp" then
      (match st.dev, readTree1 tree with
       | some dp, some extra =>
         let obj := if kind = "kp" then sKernel else if kind = "mp" then sMemory else sStream
         (st, resS (perCall dp obj extra))
       | none, some _ => (st, "nodev")
       | _, none => (st, "bad-op"))
    else if kind = "msp" then
      (match tree with
       | m :: tree =>
         (match unhexB m, readTree1 tree with
          | some m, some v => (st, resS (modeSpecific m v))
          | _, _ => (st, "bad-op"))
       | _ => (st, "bad-op"))
    else if kind = "osp" || kind = "iop" then
      (match tree with
       | m :: o :: tree =>
         (match unhexB m, unhexB o, readTree1 tree with
          | some m, some o, some v =>
            if kind = "osp" then (st, resS (objectSpecific m o v))
            else (st, resS (initialObject (effSettings st.base st.settings) m o v))
          | _, _, _ => (st, "bad-op"))
       | _ => (st, "bad-op"))
    else (st, "bad-op")
  | _ => (st, "bad-op")

def main : IO Unit := Proto.run ({} : St) step
