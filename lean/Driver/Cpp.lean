import OccaModel.Cpp
import OccaModel.Proto
open Occa Occa.Cpp Occa.Proto

/-- ops are token lists separated by blanks; the kind of a token follows from its first character -/
def mkTok (s : String) : Tok :=
  match s.toList.head? with
  | some c =>
    if c.isAlpha || c = '_' then ⟨.ident, s⟩
    else if c.isDigit then ⟨.num, s⟩
    else ⟨.op, s⟩
  | none => ⟨.op, s⟩

def mkMacro (name : String) (isFn : Bool) (params : List String) (body : List String) : Macro :=
  let variadic := params.contains "..."
  let named := params.filter (· != "...")
  -- argNames is a map: a later parameter of the same name replaces the index
  let idx (n : String) : Option Nat :=
    (named.zipIdx.filter (fun p => p.1 == n)).getLast?.map (·.2)
  { name := name, isFn := isFn, nparams := named.length, variadic := variadic,
    body := body.map fun b =>
      let t := mkTok b
      if t.isIdent then
        if variadic && b == "__VA_ARGS__" then .va
        else match idx b with
          | some i => .arg i
          | none => .raw t
      else .raw t }

def parseLine (toks : List String) : Option SrcLine :=
  match toks with
  | "D" :: n :: ":" :: body => some (.define (mkMacro n false [] body))
  | "F" :: n :: rest =>
      let ps := rest.takeWhile (· != ":")
      let body := (rest.dropWhile (· != ":")).drop 1
      if rest.contains ":" then some (.define (mkMacro n true ps body)) else none
  | ["U", n] => some (.undef n)
  | "IF" :: t :: ts => some (.if_ ((t :: ts).map mkTok))
  | "ELIF" :: t :: ts => some (.elif ((t :: ts).map mkTok))
  | ["IFDEF", n] => some (.ifdef n)
  | ["IFNDEF", n] => some (.ifndef n)
  | ["ELSE"] => some .else_
  | ["ENDIF"] => some .endif
  | "T" :: ts => some (.text (ts.map mkTok))
  | _ => none

def showLines (ls : List (List Tok)) : String :=
  if ls.isEmpty then "<EMPTY>" else " <NL> ".intercalate (ls.map fun l => " ".intercalate (l.map (·.text)))

def fuel : Nat := 30000

structure DS where
  lines : List SrcLine := []      -- newest first

def step (s : DS) (toks : List String) : DS × String :=
  match toks with
  | ["end"] =>
      let u := s.lines.reverse.foldl (processLine Cfg.current fuel) ({} : US)
      (s, match u.dead with
          | some why => why
          | none => s!"out={showLines u.out.reverse} err={u.pp.errors + u.cm.errors} st={u.cm.stack.length - 1}")
  | ["endref"] =>
      let r := s.lines.reverse.foldl (refLine fuel) ({} : RS)
      (s, match r.bad with
          | some why => "ref=" ++ why
          | none =>
            if !r.frames.isEmpty then "ref=ERROR"
            else if !r.consistent then "ref=INCONSISTENT-WITH-keepRef"
            else "ref=" ++ showLines r.out.reverse)
  | "expect" :: _ => (s, "ok")
  | _ =>
    match parseLine toks with
    | some l => ({ s with lines := l :: s.lines }, "ok")
    | none => (s, "bad-op")

def main : IO Unit := Proto.run ({} : DS) step
