import OccaModel.Okl
import OccaModel.OklT
import OccaModel.Proto
open Occa Occa.Okl Occa.Proto

/-! Line protocol of the OKL model (see harness/h_okl.cpp).
    `T <expect> <hex source> <ir>`  →  `v=<7 flags> ir=<echo of the IR>`
    `S <hex source> <ir>`           →  structure summaries of the translations -/

namespace OklIO

def cvalOf (s : String) : Option CVal :=
  if s = "-" then some .none else if s = "?" then some .unknown else (s.toInt?).map .const

def cvalStr : CVal → String
  | .none => "-" | .unknown => "?" | .const v => toString v

def hdrOf (s : String) : Option Hdr :=
  match s.splitOn "," with
  | [i, iv, c, op, cv, u, uk, uv, sd] => do
    let init ← match i with
      | "e" => some InitForm.empty | "n" => some .notDecl | "m" => some .multi | "v" => some .noValue
      | "t" => some .badType | "k" => some .ok | _ => none
    let check ← match c with
      | "x" => some CheckForm.notExpr | "b" => some .notBinary | "o" => some .badOp | "i" => some .noIter
      | "k" => some .ok | _ => none
    let op' ← match op with
      | "lt" => some (some CmpOp.lt) | "le" => some (some .le) | "gt" => some (some .gt)
      | "ge" => some (some .ge) | "-" => some none | _ => none
    let upd ← match u with
      | "x" => some UpdForm.notExpr | "t" => some .badNode | "o" => some .badOp | "w" => some .wrongVar
      | "k" => some .ok | _ => none
    let uk' ← match uk with
      | "inc" => some (some UpdKind.inc) | "dec" => some (some .dec) | "add" => some (some .add)
      | "sub" => some (some .sub) | "-" => some none | _ => none
    let iv' ← cvalOf iv
    let cv' ← cvalOf cv
    let uv' ← cvalOf uv
    let side ← match sd with
      | "r" => some true | "l" => some false | "-" => some false | _ => none
    pure ⟨init, iv', check, op', cv', upd, uk', uv', side⟩
  | _ => none

def hdrStr (h : Hdr) : String :=
  let i := match h.init with
    | .empty => "e" | .notDecl => "n" | .multi => "m" | .noValue => "v" | .badType => "t" | .ok => "k"
  let c := match h.check with
    | .notExpr => "x" | .notBinary => "b" | .badOp => "o" | .noIter => "i" | .ok => "k"
  let op := match h.op with
    | some .lt => "lt" | some .le => "le" | some .gt => "gt" | some .ge => "ge" | none => "-"
  let u := match h.upd with
    | .notExpr => "x" | .badNode => "t" | .badOp => "o" | .wrongVar => "w" | .ok => "k"
  let uk := match h.uk with
    | some .inc => "inc" | some .dec => "dec" | some .add => "add" | some .sub => "sub" | none => "-"
  let sd := if h.check != .ok then "-" else if h.iterRight then "r" else "l"
  ",".intercalate [i, cvalStr h.initv, c, op, cvalStr h.checkv, u, uk, cvalStr h.updv, sd]

def usesOf (s : String) : Option (List Bool) :=
  s.toList.mapM fun c => if c = 's' then some true else if c = 'x' then some false else none

def usesStr (u : List Bool) : String := String.ofList (u.map fun b => if b then 's' else 'x')

def dimsOf (s : String) : Option (List (Option Nat)) :=
  if s = "-" then some [] else
  (s.splitOn ",").mapM fun d => if d = "?" then some none else d.toNat?.map some

def dimsStr (d : List (Option Nat)) : String :=
  if d.isEmpty then "-" else ",".intercalate (d.map fun | none => "?" | some n => toString n)

/-- a leaf / opening token → node kind and uses; `none` for anything else -/
def nodeOf (t : String) : Option Node :=
  match t.splitOn ":" with
  | ["F", u] => (usesOf u).map (⟨.for_, ·⟩)
  | ["W", u] => (usesOf u).map (⟨.while_, ·⟩)
  | ["S", u] => (usesOf u).map (⟨.switch_, ·⟩)
  | ["C", u] => (usesOf u).map (⟨.if_, ·⟩)
  | ["E", u] => (usesOf u).map (⟨.elif_, ·⟩)
  | ["L"] => some ⟨.else_, []⟩
  | ["B"] => some ⟨.block false, []⟩
  | ["Bg"] => some ⟨.block true, []⟩
  | ["Dp", u] => (usesOf u).map (⟨.decl .plain, ·⟩)
  | ["Dx", u] => (usesOf u).map (⟨.decl .exclusive, ·⟩)
  | ["Ds", d, u] => do pure ⟨.decl (.shared (← dimsOf d)), ← usesOf u⟩
  | ["X", u] => (usesOf u).map (⟨.expr false false, ·⟩)
  | ["Xb", u] => (usesOf u).map (⟨.expr false true, ·⟩)
  | ["Xa", u] => (usesOf u).map (⟨.expr true true, ·⟩)
  | ["Xg", u] => (usesOf u).map (⟨.expr true false, ·⟩)
  | ["R"] => some ⟨.barrier, []⟩
  | ["b"] => some ⟨.brk, []⟩
  | ["c"] => some ⟨.cont, []⟩
  | ["r"] => some ⟨.ret, []⟩
  | [a, h, u] =>
    if a = "O" ∨ a = "I" ∨ a = "OI" then do
      pure ⟨.okl (a ≠ "I") (a ≠ "O") (← hdrOf h) false, ← usesOf u⟩ else none
  | [a, h, u, "nb"] =>
    if a = "O" ∨ a = "I" ∨ a = "OI" then do
      pure ⟨.okl (a ≠ "I") (a ≠ "O") (← hdrOf h) true, ← usesOf u⟩ else none
  | _ => none

def Kind.compound : Kind → Bool
  | .okl .. | .for_ | .while_ | .switch_ | .if_ | .elif_ | .else_ | .block _ => true
  | _ => false

/-- parse a statement sequence up to the closing `)`; returns the tree and the rest after `)`.
    For `C ( then ) E ( … ) L ( … )` the `if` node's children are elifs, else, then. -/
def parseSeq : Nat → List String → Option (Tree × List String)
  | 0, _ => none
  | _ + 1, [] => some (.nil, [])
  | _ + 1, ")" :: r => some (.nil, r)
  | f + 1, t :: r => do
    let n ← nodeOf t
    if Kind.compound n.kind then
      match r with
      | "(" :: r1 =>
        let (kids, r2) ← parseSeq f r1
        if n.kind = .if_ then
          -- collect the E/L groups that follow
          let (tail, r3) ← parseTail f r2
          let (next, r4) ← parseSeq f r3
          pure (.node n (tail.append kids) next, r4)
        else
          let (next, r3) ← parseSeq f r2
          pure (.node n kids next, r3)
      | _ => none
    else
      let (next, r1) ← parseSeq f r
      pure (.node n .nil next, r1)
where
  parseTail : Nat → List String → Option (Tree × List String)
    | 0, _ => none
    | f + 1, t :: "(" :: r =>
      match nodeOf t with
      | some n =>
        if n.kind = .elif_ ∨ n.kind = .else_ then do
          let (kids, r2) ← parseSeq f r
          let (more, r3) ← parseTail f r2
          pure (.node n kids more, r3)
        else some (.nil, t :: "(" :: r)
      | none => some (.nil, t :: "(" :: r)
    | _ + 1, r => some (.nil, r)

def parseKernel (ir : String) : Option Kernel :=
  match ir.splitOn "_" with
  | k :: "(" :: r =>
    let rv := if k = "K:v" then some true else if k = "K:n" then some false else none
    match rv, parseSeq (r.length + 2) r with
    | some v, some (t, []) => some ⟨v, t⟩
    | _, _ => none
  | _ => none

def tokOf (n : Node) : String :=
  match n.kind with
  | .okl o i h nb =>
    (if o ∧ i then "OI" else if o then "O" else "I") ++ ":" ++ hdrStr h ++ ":" ++ usesStr n.uses ++ (if nb then ":nb" else "")
  | .for_ => "F:" ++ usesStr n.uses
  | .while_ => "W:" ++ usesStr n.uses
  | .switch_ => "S:" ++ usesStr n.uses
  | .if_ => "C:" ++ usesStr n.uses
  | .elif_ => "E:" ++ usesStr n.uses
  | .else_ => "L"
  | .block a => if a then "Bg" else "B"
  | .decl .plain => "Dp:" ++ usesStr n.uses
  | .decl .exclusive => "Dx:" ++ usesStr n.uses
  | .decl (.shared d) => "Ds:" ++ dimsStr d ++ ":" ++ usesStr n.uses
  | .expr false false => "X:" ++ usesStr n.uses
  | .expr false true => "Xb:" ++ usesStr n.uses
  | .expr true true => "Xa:" ++ usesStr n.uses
  | .expr true false => "Xg:" ++ usesStr n.uses
  | .barrier => "R" | .brk => "b" | .cont => "c" | .ret => "r"

/-- split an `if` node's children into (elif/else nodes, then-statements) -/
def splitIf : Tree → Tree × Tree
  | .node n k nx =>
    if n.kind = .elif_ ∨ n.kind = .else_ then
      let (a, b) := splitIf nx
      (.node n k a, b)
    else (.nil, .node n k nx)
  | .nil => (.nil, .nil)

def showTree : Nat → Tree → List String
  | 0, _ => ["…"]
  | _ + 1, .nil => []
  | f + 1, .node n kids next =>
    if n.kind = .if_ then
      let (tail, thn) := splitIf kids
      [tokOf n, "("] ++ showTree f thn ++ [")"] ++ showTree f tail ++ showTree f next
    else if Kind.compound n.kind then
      [tokOf n, "("] ++ showTree f kids ++ [")"] ++ showTree f next
    else tokOf n :: showTree f next

def size : Tree → Nat
  | .nil => 1
  | .node _ k n => size k + size n + 1

def showKernel (k : Kernel) : String :=
  "_".intercalate ([(if k.retVoid then "K:v" else "K:n"), "("] ++ showTree (size k.body + 1) k.body ++ [")"])

def bits (l : List Bool) : String := String.ofList (l.map fun b => if b then '1' else '0')

end OklIO

open OklIO

def step (_ : Unit) (toks : List String) : Unit × String :=
  match toks with
  | ["T", _, _, ir] =>
    -- kernelsAreValid: every @kernel function of the source has to be valid (all are checked)
    match (ir.splitOn "+").mapM parseKernel with
    | some ks =>
      let rs := ks.map accepts
      let v :=
        if rs.any (fun r => r.1 == .trap) then "trap"
        else bits ((List.range 7).map fun i => rs.all (fun r => r.2.getD i false))
      ((), "v=" ++ v ++ " ir=" ++ "+".intercalate (ks.map showKernel))
    | none => ((), "bad-ir")
  | ["S", _, ir] =>
    match parseKernel ir with
    | some k => ((), OklT.summaryLine k)
    | none => ((), "bad-ir")
  | _ => ((), "bad-op")

def main : IO Unit := Proto.run () step
