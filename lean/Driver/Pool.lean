import OccaModel.Pool
import OccaModel.Proto
import OccaGen.PoolConsts
open Occa Occa.Pool Occa.Proto

/-- `hashBytes` of the harness -/
def hashBytes (b : List Byte) : Nat := b.foldl (fun h c => (h * 31 + c.toNat + 1) % 4294967296) 0

def showPool (i : Nat) : Option Pool → String
  | none => ""
  | some p => s!" P{i} a={p.align} s={p.size} r={p.reserved} n={p.resv.length}"

def showSlot (s : State) (k : Nat) : String :=
  match s.locate k with
  | some (.inPool i p r) => s!" {k}:{i}:{r.off}:{r.size}:{hashBytes (readAt p.buf r.off r.size)}"
  | some (.inDev m) =>
    match findBuf m.buf s.bufs with
    | some b => s!" {k}:d:{m.off}:{m.size}:{hashBytes (readAt b.data m.off m.size)}"
    | none => s!" {k}:d:?"
  | none => ""

def dump (s : State) : String :=
  showPool 0 s.pool0 ++ showPool 1 s.pool1 ++ " | M" ++
  String.join ((List.range NSLOT).map (showSlot s)) ++ s!" | D {s.dev.alloc} {s.dev.maxAlloc}"

def showRes : Res → String
  | .ok => "ok" | .err => "err" | .empty => "empty" | .badOp => "bad-op" | .trap => "trap"
  | .bytes b => hex (b.map (·.toNat))

def parseOp (toks : List String) : Option Op :=
  match toks with
  | ["dev", "S"] => some (.dev false)
  | ["dev", "O"] => some (.dev true)
  | ["freeall"] => some .freeall
  | ["slice", a, b, c, d] => do
      let a ← a.toNat?; let b ← b.toNat?; let c ← c.toNat?; let d ← d.toInt?
      pure (.slice a b c d)
  | name :: args => do
      let xs ← nats args
      match name, xs with
      | "pool", [p] => some (.pool p)
      | "pfree", [p] => some (.pfree p)
      | "reserve", [p, k, n] => some (.reserve p k n)
      | "release", [k] => some (.release k)
      | "drop", [k] => some (.release k)
      | "resize", [p, n] => some (.resize p n)
      | "shrink", [p] => some (.shrink p)
      | "align", [p, a] => some (.align p a)
      | "write", [k, o, l, sd] => some (.write k o l sd)
      | "read", [k] => some (.read k)
      | "malloc", [k, n] => some (.malloc k n)
      | "mallocsrc", [k, n, sd] => some (.mallocsrc k n sd)
      | "mallochost", [k, n, o, sd] => if o ≤ 1 then some (.mallochost k n (o == 1) sd) else none
      | "wrap", [k, n, sd] => some (.wrap k n sd)
      | "clone", [k, j] => some (.clone k j)
      | _, _ => none
  | _ => none

def stepLine (s : State) (toks : List String) : State × String :=
  match parseOp toks with
  | none => (s, "bad-op")
  | some op =>
    let (s', r) := step Gen.poolCfg s op
    match r with
    | .badOp => (s, "bad-op")
    | _ => (s', showRes r ++ " |" ++ dump s')

def main : IO Unit := Proto.run ({} : State) stepLine
