import OccaModel.Trie
import OccaModel.Proto
open Occa Occa.Trie Occa.Proto

/-! Line-protocol driver of the trie model (same ops / observations as harness/h_trie.cpp).
Characters are `Int`s holding the value of a (signed) `char`; values are `Int`s. -/

abbrev T := Trie Int Int

/-- hex byte string -> signed char values -/
def key? (s : String) : Option (List Int) :=
  (unhex s).map fun bs => bs.map fun (b : Nat) => if b ≥ 128 then Int.ofNat b - 256 else Int.ofNat b

def keyHex (k : List Int) : String := hex (k.map fun c => (c % 256).toNat)

def b01 (b : Bool) : String := if b then "1" else "0"

def summary (t : T) : String :=
  let hc := [97, 98, 99, 100].map fun (c : Int) =>
    match t.hasChar c with
    | some b => b01 b
    | none => "T"
  s!"fz={b01 t.frozen.isSome} n={t.size} e={b01 t.isEmpty} hc={String.join hc}"

/-- what one query shows: getLongest, get, has(const char*), has(std::string) -/
structure Rec where
  longest : Option (Option (Nat × Int))
  got : Option (Option Int)
  h1 : Option Bool
  h2 : Option (Option Bool)
  deriving DecidableEq

def observe (t : T) (q : List Int) : Rec :=
  ⟨t.longest q, t.getValue q, t.has q, t.hasSized q⟩

def inherit (p : Rec) : Rec := ⟨p.longest, some none, some false, some (some false)⟩

def showRec (q : List Int) (r : Rec) : String :=
  let a := match r.longest with
    | none => "TRAP"
    | some none => "x"
    | some (some (l, v)) => s!"{l}:{v}"
  let g := match r.got with
    | none => "TRAP"
    | some none => ""
    | some (some v) => s!"{v}"
  let h1 := match r.h1 with
    | none => "T"
    | some b => b01 b
  let h2 := match r.h2 with
    | none => "T"
    | some none => "E"
    | some (some b) => b01 b
  s!"{keyHex q}={a}/{g}/{h1}{h2}"

/-- all queries over `alpha` up to length `maxLen`, parents first; only the records that differ
    from what the parent implies are printed (the root always) -/
partial def walk (t : T) (alpha : List Int) (maxLen : Nat) (q : List Int) (parent : Option Rec)
    (acc : Array String) : Array String :=
  let r := observe t q
  let acc := match parent with
    | none => acc.push (showRec q r)
    | some p => if r = inherit p then acc else acc.push (showRec q r)
  if q.length ≥ maxLen then acc
  else alpha.foldl (fun acc c => walk t alpha maxLen (q ++ [c]) (some r) acc) acc

def step (s : Option T) (toks : List String) : Option T × String :=
  match s with
  | none => (none, "TRAP")
  | some t =>
    let upd (r : Option T) : Option T × String :=
      match r with
      | none => (none, "TRAP")
      | some t' => (some t', summary t')
    match toks with
    | ["auto", b] => upd (t.step (.setAuto (b == "1")))
    | ["add", k, v] =>
      match key? k, v.toInt? with
      | some k, some v => if k.contains 0 then (s, "bad-op") else upd (t.step (.add k v))
      | _, _ => (s, "bad-op")
    | ["rm", k] | ["rmc", k] =>
      match key? k with
      | some k => if k.contains 0 then (s, "bad-op") else upd (t.step (.remove k))
      | none => (s, "bad-op")
    | ["freeze"] => upd (t.step .freeze)
    | ["defrost"] => upd (t.step .defrost)
    | ["clear"] => upd (t.step .clear)
    | ["copy"] => upd (t.step .freeze)     -- operator= freezes the source and copies the arrays
    | ["chk", a, n] =>
      match key? a, n.toNat? with
      | some alpha, some maxLen =>
        if maxLen > 8 || alpha.length > 6 then (s, "bad-op")
        else (s, " ".intercalate (walk t alpha maxLen [] none #[]).toList)
      | _, _ => (s, "bad-op")
    | _ => (s, "bad-op")

def main : IO Unit := Proto.run (some ({} : T)) step
