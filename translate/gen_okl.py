#!/usr/bin/env python3
"""Regenerate lean/OccaGen/OklFacts.lean from the OKL translator sources.

Code-structure facts that the C20/C21/C22 theorems rest on, re-extracted on every run:

  * for each of the seven translators: how its `afterParsing` reaches `okl::kernelsAreValid(root)`
    under the `okl/validate` setting (directly, by calling the base class's afterParsing first, or
    by not overriding afterParsing of its base class) -- "the same validation function in all
    translators";
  * the rule functions `kernelIsValid` conjoins, in order;
  * the iterator types `oklForStatement::hasValidInit` accepts;
  * whether the sources contain the repairs the model follows (F60 constant zero step, F61 continue
    in switch, F62 at most three nested loops, F63 @outer+@inner on one loop, F64 barrier after an
    @inner loop nested in a block);
  * which translators call attributes::atomic::applyCodeTransformation (setupAtomics) and where the
    OpenMP pragmas are placed.

Regex extraction; every pattern that stops matching raises TranslateError.
"""
import os, re, sys
sys.path.insert(0, os.path.dirname(os.path.abspath(__file__)))
from cxx2lean import REPO, VERIF, TranslateError, write_if_changed

MODES = os.path.join(REPO, "src/occa/internal/lang/modes")


def read(name):
    p = os.path.join(MODES, name)
    if not os.path.exists(p):
        raise TranslateError("missing source file " + p)
    return open(p).read()


def body_of(src, signature_re, what):
    """text of the function body that follows the first match of signature_re (brace matching)"""
    m = re.search(signature_re, src)
    if not m:
        raise TranslateError(what + " not found")
    i = src.index("{", m.end() - 1)
    depth, j = 0, i
    while j < len(src):
        if src[j] == "{":
            depth += 1
        elif src[j] == "}":
            depth -= 1
            if depth == 0:
                return src[i + 1:j]
        j += 1
    raise TranslateError("unbalanced braces in " + what)


def validates_directly(body, what):
    """`if (settings.get("okl/validate", true)) { success = kernelsAreValid(root); }` before any other step"""
    m = re.search(r'if\s*\(\s*settings\.get\(\s*"okl/validate"\s*,\s*true\s*\)\s*\)\s*\{\s*success\s*=\s*kernelsAreValid\(root\);\s*\}', body)
    if not m:
        raise TranslateError(what + " does not call kernelsAreValid(root) under okl/validate")
    before = body[:m.start()]
    # nothing but the `if (!success) return;` guard may precede it
    rest = re.sub(r"if\s*\(\s*!success\s*\)\s*return;", "", before).strip()
    if rest:
        raise TranslateError(what + ": statements before the validation: " + rest[:60])
    after = body[m.end():]
    if not re.match(r"\s*if\s*\(\s*!success\s*\)\s*return;", after):
        raise TranslateError(what + ": the result of the validation is not checked before the next step")
    return True


def gen():
    serial, openmp, launcher = read("serial.cpp"), read("openmp.cpp"), read("withLauncher.cpp")
    okl, oklfor = read("okl.cpp"), read("oklForStatement.cpp")
    via = []   # (translator, kind, target)
    validates_directly(body_of(serial, r"void\s+serialParser::afterParsing\(\)\s*\{", "serialParser::afterParsing"), "serialParser::afterParsing")
    via.append(("serial", "direct", ""))
    validates_directly(body_of(launcher, r"void\s+withLauncher::afterParsing\(\)\s*\{", "withLauncher::afterParsing"), "withLauncher::afterParsing")
    via.append(("withLauncher", "direct", ""))
    ob = body_of(openmp, r"void\s+openmpParser::afterParsing\(\)\s*\{", "openmpParser::afterParsing")
    if not re.match(r"\s*serialParser::afterParsing\(\);\s*if\s*\(\s*!success\s*\)\s*return;", ob):
        raise TranslateError("openmpParser::afterParsing does not start with serialParser::afterParsing(); if (!success) return;")
    if re.search(r"okl/validate", openmp) or re.search(r"okl/validate", read("openmp.hpp")):
        raise TranslateError("openmp.cpp/.hpp touch the okl/validate setting")
    via.append(("openmp", "delegates", "serial"))
    for mode, cls, base in [("cuda", "cudaParser", "withLauncher"), ("hip", "hipParser", "cudaParser"),
                            ("opencl", "openclParser", "withLauncher"), ("metal", "metalParser", "withLauncher"),
                            ("dpcpp", "dpcppParser", "withLauncher")]:
        hpp, cpp = read(mode + ".hpp"), read(mode + ".cpp")
        if not re.search(r"class\s+%s\s*:\s*public\s+%s\b" % (cls, base), hpp):
            raise TranslateError("%s does not derive from %s" % (cls, base))
        if re.search(r"\bafterParsing\b", hpp) or re.search(r"%s::afterParsing" % cls, cpp):
            raise TranslateError("%s overrides afterParsing" % cls)
        if re.search(r'okl/validate', cpp):
            raise TranslateError("%s.cpp touches the okl/validate setting" % mode)
        via.append((mode, "inherits", {"withLauncher": "withLauncher", "cudaParser": "cuda"}[base]))
    # openmp must derive from serialParser
    if not re.search(r"class\s+openmpParser\s*:\s*public\s+serialParser\b", read("openmp.hpp")):
        raise TranslateError("openmpParser does not derive from serialParser")

    # kernelsAreValid -> kernelIsValid on every kernel; kernelIsValid's conjunction
    kav = body_of(okl, r"bool\s+kernelsAreValid\(blockStatement\s*&root\)\s*\{", "okl::kernelsAreValid")
    if "kernelIsValid(" not in kav:
        raise TranslateError("kernelsAreValid does not call kernelIsValid")
    kiv = body_of(okl, r"bool\s+kernelIsValid\(functionDeclStatement\s*&kernelSmnt\)\s*\{", "okl::kernelIsValid")
    m = re.search(r"return\s*\((.*?)\);", kiv, re.S)
    if not m:
        raise TranslateError("kernelIsValid: return (...) not found")
    rules = re.findall(r"(\w+)\(kernelSmnt\)", m.group(1))
    if re.sub(r"\w+\(kernelSmnt\)|&&|\s", "", m.group(1)):
        raise TranslateError("kernelIsValid is no longer a plain conjunction: " + m.group(1)[:80])

    hvi = body_of(oklfor, r"bool\s+oklForStatement::hasValidInit\(\)\s*\{", "oklForStatement::hasValidInit")
    types = re.findall(r"\(\*type\s*!=\s*(\w+)_\)", hvi)
    if not types:
        raise TranslateError("iterator type list not found in hasValidInit")

    ctor = body_of(oklfor, r"oklForStatement::oklForStatement\(forStatement\s*&forSmnt_,[^{]*\{", "oklForStatement ctor")
    zero_step = bool(re.search(r"updateValue\s*&&\s*updateValue->canEvaluate\(\)\s*&&\s*!\(\(bool\)\s*updateValue->evaluate\(\)\)", ctor))
    direction = bool(re.search(r"iteratorOnSmallerSide\s*!=\s*positiveUpdate", ctor))
    both_attrs = bool(re.search(r"valid\s*=\s*\(\s*!\(hasInner\s*&&\s*hasOuter\)\s*&&\s*hasValidInit\(\)", ctor))
    brk = body_of(okl, r"bool\s+kernelHasValidLoopBreakAndContinue\(functionDeclStatement\s*&kernelSmnt\)\s*\{", "kernelHasValidLoopBreakAndContinue")
    cont_skips = bool(re.search(r"\(sType\s*&\s*statementType::switch_\)\s*&&\s*\(smnt->type\(\)\s*&\s*statementType::break_\)", brk))
    old_switch = bool(re.search(r"statementType::while_\s*\|\s*statementType::switch_", brk))
    if cont_skips == old_switch:
        raise TranslateError("kernelHasValidLoopBreakAndContinue: cannot classify the while/switch test")
    order = body_of(okl, r"bool\s+pathHasValidOklLoopOrdering\(", "pathHasValidOklLoopOrdering")
    max_nest = bool(re.search(r"outerLoopCount\s*>\s*3", order)) and bool(re.search(r"innerLoopCount\s*>\s*3", order))
    last = body_of(launcher, r"bool\s+withLauncher::isLastInnerLoop\(forStatement\s*&forSmnt\)\s*\{", "withLauncher::isLastInnerLoop")
    looks_up = bool(re.search(r"while\s*\(\s*smnt->up\b", last)) and "statementType::functionDecl" in last

    # who rewrites @atomic
    atomics = []
    for mode in ["serial", "openmp", "cuda", "hip", "opencl", "metal", "dpcpp"]:
        if "atomic::applyCodeTransformation" in read(mode + ".cpp"):
            atomics.append(mode)
    pragma = body_of(openmp, r"void\s+openmpParser::setupOmpPragmas\(\)\s*\{", "openmpParser::setupOmpPragmas")
    m = re.search(r'pragmaToken\([^,]+,\s*"([^"]+)"\)', pragma)
    if not m or "isOuterForLoop(pathSmnt)" not in pragma:
        raise TranslateError("setupOmpPragmas: pragma text / outer-most filter not found")
    omp_pragma = m.group(1)

    def b(x):
        return "true" if x else "false"

    def s(x):
        return '"%s"' % x
    out = ["-- GENERATED by translate/gen_okl.py from src/occa/internal/lang/modes/*.cpp; do not edit.",
           "namespace Occa.Gen.Okl", "",
           "/-- translator, how afterParsing reaches okl::kernelsAreValid (direct | delegates | inherits), whom it goes through -/",
           "def validation : List (String × String × String) := [%s]" % ", ".join("(%s, %s, %s)" % (s(a), s(k), s(t)) for a, k, t in via),
           "/-- the conjuncts of okl::kernelIsValid in order -/",
           "def ruleFunctions : List String := [%s]" % ", ".join(s(x) for x in rules),
           "/-- iterator types accepted by oklForStatement::hasValidInit -/",
           "def iteratorTypes : List String := [%s]" % ", ".join(s(x) for x in types),
           "/-- repairs present in the sources -/",
           "def zeroStepGuard : Bool := " + b(zero_step),
           "def continueSkipsSwitch : Bool := " + b(cont_skips),
           "def maxNestChecked : Bool := " + b(max_nest),
           "def bothAttrsInvalid : Bool := " + b(both_attrs),
           "def barrierLooksUp : Bool := " + b(looks_up),
           "def directionChecked : Bool := " + b(direction),
           "/-- translators whose source calls attributes::atomic::applyCodeTransformation -/",
           "def atomicRewriters : List String := [%s]" % ", ".join(s(x) for x in atomics),
           "def ompPragma : String := " + s(omp_pragma),
           "", "end Occa.Gen.Okl", ""]
    h = write_if_changed(os.path.join(VERIF, "lean/OccaGen/OklFacts.lean"), "\n".join(out))
    return {"OklFacts": h}


if __name__ == "__main__":
    try:
        print(gen())
    except TranslateError as e:
        print("TRANSLATE-ERROR:", e)
        sys.exit(3)
