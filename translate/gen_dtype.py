#!/usr/bin/env python3
"""Regenerate lean/OccaGen/Builtins.lean from the C++ sources of the dtype subsystem.

   src/dtype/builtins.cpp        registered scalar dtypes (name_, bytes_), registered tuple dtypes
                                 (name_, element, size), the dtype::get<T>() specialisations
   src/dtype/dtype.cpp           the table of dtype_t::getBuiltin (key -> registered dtype), the JSON keys
                                 and "type" tags written by the toJson methods
   src/occa/internal/lang/builtins/types.cpp    the OKL primitive type names (primitive_t)
   src/occa/internal/lang/kernelMetadata.cpp    the JSON keys of argMetadata_t / kernelMetadata_t

   sizeof(T) is evaluated for the LP64 g++ target of this sandbox and cross-checked with a
   static_assert compile (TranslateError when it does not hold).
"""
import os, re, subprocess, sys
sys.path.insert(0, os.path.dirname(os.path.abspath(__file__)))
from cxx2lean import *

SIZEOF = {"bool": 1, "char": 1, "short": 2, "int": 4, "long": 8, "float": 4, "double": 8}
# <cstdint>/<cstddef> typedefs on LP64 glibc (checked by the static_assert compile below)
CTYPEDEF = {"int8_t": "signed char", "uint8_t": "unsigned char", "int16_t": "short", "uint16_t": "unsigned short",
            "int32_t": "int", "uint32_t": "unsigned int", "int64_t": "long", "uint64_t": "unsigned long",
            "size_t": "unsigned long", "ptrdiff_t": "long"}


def check_platform():
    stamp = os.path.join(BUILD, "tmp", "gen_dtype.platform.ok")
    if os.path.exists(stamp):
        return
    prog = ["#include <cstdint>", "#include <cstddef>", "#include <type_traits>"]
    for t, n in SIZEOF.items():
        prog.append("static_assert(sizeof(%s) == %d, \"sizeof %s\");" % (t, n, t))
    for t, u in CTYPEDEF.items():
        prog.append("static_assert(std::is_same<%s, %s>::value, \"%s\");" % (t, u, t))
    p = subprocess.run(["g++", "-std=c++17", "-fsyntax-only", "-x", "c++", "-"], input="\n".join(prog) + "\n",
                       capture_output=True, text=True)
    if p.returncode != 0:
        raise TranslateError("platform is not the LP64 layout the dtype translator assumes: " + p.stderr[:300])
    os.makedirs(os.path.dirname(stamp), exist_ok=True)
    open(stamp, "w").write("ok\n")


def lstr(s):
    return '"' + s.replace("\\", "\\\\").replace('"', '\\"') + '"'


def gen():
    check_platform()
    b = open(os.path.join(REPO, "src/dtype/builtins.cpp")).read()
    d = open(os.path.join(REPO, "src/dtype/dtype.cpp")).read()
    t = open(os.path.join(REPO, "src/occa/internal/lang/builtins/types.cpp")).read()
    k = open(os.path.join(REPO, "src/occa/internal/lang/kernelMetadata.cpp")).read()

    # ---- registered scalars:  const dtype_t NAME("str", sizeof(T) | N, true);
    scalars = {}     # global identifier -> (name_, bytes_)
    order = []
    for m in re.finditer(r"const\s+dtype_t\s+(\w+)\s*\(\s*\"([^\"]*)\"\s*,\s*(sizeof\(\s*([\w ]+?)\s*\)|\d+)\s*,\s*true\s*\)\s*;", b):
        ident, name, sz, ty = m.group(1), m.group(2), m.group(3), m.group(4)
        if ty is not None:
            if ty not in SIZEOF:
                raise TranslateError("sizeof(%s) not known to the translator" % ty)
            n = SIZEOF[ty]
        else:
            n = int(sz)
        scalars[ident] = (name, n)
        order.append(ident)
    for need in ("none", "void_", "byte", "bool_", "char_", "short_", "int_", "long_", "float_", "double_"):
        if need not in scalars:
            raise TranslateError("registered scalar dtype %s not found in builtins.cpp" % need)
    # ---- registered tuples:  const dtype_t NAME("str", dtype_t::tuple(elem_, n), true);
    tuples = {}
    torder = []
    for m in re.finditer(r"const\s+dtype_t\s+(\w+)\s*\(\s*\"([^\"]*)\"\s*,\s*dtype_t::tuple\(\s*(\w+)\s*,\s*(\d+)\s*\)\s*,\s*true\s*\)\s*;", b):
        ident, name, elem, n = m.group(1), m.group(2), m.group(3), int(m.group(4))
        if elem not in scalars:
            raise TranslateError("tuple %s: element %s is not a registered scalar" % (ident, elem))
        tuples[ident] = (name, scalars[elem][0], n)
        torder.append(ident)
    if len(tuples) < 30:
        raise TranslateError("expected the 30 OKL vector dtypes, found %d" % len(tuples))
    # every `const dtype_t X(` definition must have been understood
    defs = re.findall(r"const\s+dtype_t\s+(\w+)\s*[(=]", b)
    # ---- dtype::get<T>() specialisations: C++ type -> global
    gets = {}
    for m in re.finditer(r"template\s*<>\s*dtype_t\s+get<\s*([^>]+?)\s*>\s*\(\s*\)\s*\{\s*return\s+(\w+)\s*;", b):
        gets[re.sub(r"\s+", " ", m.group(1))] = m.group(2)
    # references  const dtype_t int8 = get<int8_t>();
    refs = {}
    for m in re.finditer(r"const\s+dtype_t\s+(\w+)\s*=\s*get<\s*(\w+)\s*>\s*\(\s*\)\s*;", b):
        cty = m.group(2)
        base = CTYPEDEF.get(cty, cty)
        if base not in gets:
            raise TranslateError("dtype::%s = get<%s>(): no specialisation for %s" % (m.group(1), cty, base))
        refs[m.group(1)] = gets[base]
    for x in defs:
        if x not in scalars and x not in tuples and x not in refs:
            raise TranslateError("definition of dtype::%s in builtins.cpp not understood" % x)

    def target_name(ident):
        if ident in scalars:
            return scalars[ident][0]
        if ident in tuples:
            return tuples[ident][0]
        raise TranslateError("getBuiltin points to unknown dtype::%s" % ident)

    # ---- getBuiltin table
    m = re.search(r"dtype_t::getBuiltin\(const std::string &name\)\s*\{(.*?)\n  \}", d, re.S)
    if not m:
        raise TranslateError("dtype_t::getBuiltin not found")
    body = m.group(1)
    bmap = []
    for mm in re.finditer(r"dtypeMap\[\"([^\"]+)\"\]\s*=\s*(?:&dtype::(\w+)|dtype::get<\s*(\w+)\s*>\(\)\.ref)\s*;", body):
        key, ident, cty = mm.group(1), mm.group(2), mm.group(3)
        if ident is None:
            base = CTYPEDEF.get(cty, cty)
            if base not in gets:
                raise TranslateError("getBuiltin[%s]: no get<> specialisation for %s" % (key, base))
            ident = gets[base]
        bmap.append((key, target_name(ident)))
    if body.count("dtypeMap[\"") != len(bmap):
        raise TranslateError("getBuiltin: %d map assignments, %d understood" % (body.count("dtypeMap[\""), len(bmap)))
    if not re.search(r"return\s+dtype::none\s*;", body):
        raise TranslateError("getBuiltin: default is no longer dtype::none")
    if len(set(kk for kk, _ in bmap)) != len(bmap):
        raise TranslateError("getBuiltin: duplicate key")

    # ---- JSON type tags and keys written by dtype.cpp
    tags = sorted(set(re.findall(r"j\[\"type\"\]\s*=\s*\"(\w+)\"", d)))
    if tags != ["builtin", "custom", "enum", "struct", "tuple", "union"]:
        raise TranslateError("dtype JSON type tags changed: %s" % tags)
    read_tags = re.findall(r"type == \"(\w+)\"", d)
    if sorted(read_tags) != tags:
        raise TranslateError("dtype_t::fromJson reads tags %s" % read_tags)
    dkeys = sorted(set(re.findall(r"[jJ]son\w*\[\"(\w+)\"\]", d)) | set(re.findall(r"\bj\[\"(\w+)\"\]", d)))
    want = ["bytes", "dtype", "enumerators", "fields", "name", "size", "type"]
    if dkeys != want:
        raise TranslateError("dtype JSON keys changed: %s (expected %s)" % (dkeys, want))
    # the enum size is stored under "bytes" (fix F14); older trees do not write it
    m = re.search(r"void dtype_t::toJson\(json &j, const std::string &name\) const \{(.*?)\n  \}", d, re.S)
    if not m:
        raise TranslateError("dtype_t::toJson(json&, name) not found")
    enum_writes_bytes = bool(re.search(r"if \(enum_\) \{[^}]*j\[\"bytes\"\]\s*=\s*bytes_", m.group(1), re.S))
    builtin_by_identity = bool(re.search(r"&dtype == this", m.group(1)))

    # ---- shape of the cast code (fixes F13, F15) and of the byte-size bookkeeping (F14, F14b)
    m = re.search(r"bool dtype_t::isCyclic\(.*?\n  \}", d, re.S)
    if not m:
        raise TranslateError("dtype_t::isCyclic not found")
    cyc = m.group(0)
    g = re.search(r"if \(cycleLength <= 0\) \{\s*return false;", cyc)
    cyclic_guard = bool(g) and g.start() < cyc.index("% cycleLength")
    m = re.search(r"bool dtype_t::canBeCastedTo\(.*?\n  \}", d, re.S)
    if not m:
        raise TranslateError("dtype_t::canBeCastedTo not found")
    leaf_structural = ("isSameLeafDtype(" in m.group(0)) and ("isSameLeafDtype(" in cyc) and \
        ("fromVec[i] != toVec[i]" not in m.group(0)) and ("dtype != dtype2" not in cyc)
    m = re.search(r"dtype_t dtype_t::fromJson\(const json &j\) \{(.*?)\n  \}", d, re.S)
    if not m:
        raise TranslateError("dtype_t::fromJson(const json&) not found")
    fj = m.group(1)
    fromjson_recomputes = all(re.search(pat, fj, re.S) for pat in (
        r"type == \"enum\".*?dtype\.bytes_ = \(int\) j\[\"bytes\"\]",
        r"type == \"struct\".*?dtype\.bytes_ \+= \(\*dtype\.struct_\)\[i\]\.bytes\(\)",
        r"type == \"tuple\".*?dtype\.bytes_ = dtype\.tuple_->dtype\.bytes\(\) \* dtype\.tuple_->size",
        r"type == \"union\".*?dtype\.bytes_ \+= \(\*dtype\.union_\)\[i\]\.bytes\(\)"))
    bytes_via_accessor = ("dtype.bytes_ * tupleSize_" not in d) and ("dtype.bytes_ * size" not in d) and \
        d.count("dtype.bytes() * tupleSize_") == 2 and ("dtype.bytes() * size" in d)

    m = re.search(r"void dtypeTuple_t::addFlatDtypes\(.*?\n  \}", d, re.S)
    if not m:
        raise TranslateError("dtypeTuple_t::addFlatDtypes not found")
    unknown_extent_one = bool(re.search(r"\(size < 0\) \? 1 : size", m.group(0)))

    # ---- kernel metadata keys
    akeys = re.findall(r"j\[\"(\w+)\"\]\s*=", k)
    if akeys != ["const", "ptr", "dtype", "name", "name"] or "j[\"arguments\"]" not in k:
        raise TranslateError("argMetadata_t/kernelMetadata_t JSON keys changed: %s" % akeys)
    meta_init_fromjson = bool(re.search(r"kernelMetadata_t::fromJson.*?meta\.initialized = true", k, re.S))
    p = open(os.path.join(REPO, "src/occa/internal/lang/parser.cpp")).read()
    m = re.search(r"void parser_t::setSourceMetadata\(.*?\n    \}", p, re.S)
    if not m:
        raise TranslateError("parser_t::setSourceMetadata not found")
    parser_marks_init = bool(re.search(r"metadata\.initialized\s*=\s*true", m.group(0)))

    # ---- OKL primitive names
    prims = re.findall(r"const\s+primitive_t\s+\w+\s*\(\s*\"([^\"]+)\"\s*\)\s*;", t)
    if "float4" not in prims or "size_t" not in prims or len(prims) < 40:
        raise TranslateError("OKL primitive list not understood (%d names)" % len(prims))

    out = ["-- GENERATED by translate/gen_dtype.py from src/dtype/builtins.cpp, src/dtype/dtype.cpp,",
           "-- src/occa/internal/lang/builtins/types.cpp, kernelMetadata.cpp, parser.cpp; do not edit.",
           "namespace Occa.Gen", "",
           "/-- registered scalar dtypes of dtype/builtins.cpp: (name_, bytes_) -/",
           "def dtypeScalars : List (String × Int) := [" +
           ", ".join("(%s, %d)" % (lstr(scalars[i][0]), scalars[i][1]) for i in order) + "]", "",
           "/-- registered tuple dtypes: (name_, name_ of the element scalar, size) -/",
           "def dtypeTuples : List (String × String × Int) := [" +
           ", ".join("(%s, %s, %d)" % (lstr(tuples[i][0]), lstr(tuples[i][1]), tuples[i][2]) for i in torder) + "]", "",
           "/-- dtype_t::getBuiltin: key ↦ name_ of the registered dtype the entry points to -/",
           "def builtinMap : List (String × String) := [" +
           ", ".join("(%s, %s)" % (lstr(a), lstr(c)) for a, c in bmap) + "]", "",
           "/-- OKL primitive type names (primitive_t objects of lang/builtins/types.cpp) -/",
           "def oklPrimitives : List String := [" + ", ".join(lstr(x) for x in prims) + "]", "",
           "/-- dtype_t::toJson writes the size of an enum under \"bytes\" -/",
           "def enumWritesBytes : Bool := %s" % ("true" if enum_writes_bytes else "false"),
           "/-- dtype_t::toJson writes \"builtin\" only for the builtin object itself (not by name) -/",
           "def builtinByIdentity : Bool := %s" % ("true" if builtin_by_identity else "false"),
           "/-- dtype_t::isCyclic returns false for cycleLength <= 0 before computing size % cycleLength -/",
           "def cyclicGuard : Bool := %s" % ("true" if cyclic_guard else "false"),
           "/-- canBeCastedTo / isCyclic compare leaves with isSameLeafDtype (not by address) -/",
           "def leafStructural : Bool := %s" % ("true" if leaf_structural else "false"),
           "/-- dtype_t::fromJson restores bytes_ of enum (stored), struct, tuple, union (recomputed) -/",
           "def fromJsonRestoresBytes : Bool := %s" % ("true" if fromjson_recomputes else "false"),
           "/-- addField() and tuple() use dtype.bytes() (not the bytes_ member of a reference) -/",
           "def bytesViaAccessor : Bool := %s" % ("true" if bytes_via_accessor else "false"),
           "/-- dtypeTuple_t::addFlatDtypes flattens one element for a tuple of unknown size (size < 0) -/",
           "def unknownExtentFlattensOne : Bool := %s" % ("true" if unknown_extent_one else "false"),
           "/-- parser_t::setSourceMetadata marks every @kernel's metadata initialized -/",
           "def parserMarksInitialized : Bool := %s" % ("true" if parser_marks_init else "false"),
           "/-- kernelMetadata_t::fromJson marks the metadata initialized -/",
           "def fromJsonMarksInitialized : Bool := %s" % ("true" if meta_init_fromjson else "false"),
           "", "end Occa.Gen", ""]
    h = write_if_changed(os.path.join(VERIF, "lean/OccaGen/Builtins.lean"), "\n".join(out))
    return {"Builtins": h}


if __name__ == "__main__":
    try:
        print(gen())
    except TranslateError as e:
        print("TRANSLATE-ERROR:", e)
        sys.exit(3)
