#!/usr/bin/env python3
"""Regenerate lean/OccaGen/PairOps.lean from /repo/src/occa/internal/lang/operator.cpp and
   /repo/include/occa/types/bits.hpp.

   Content: the two 64-bit words of every `operatorType::X` constant used by
   tokenContext_t (pair, pairStart, pairEnd, semicolon, ...), and for every `op::` object its
   spelling, its opType words and whether its C++ class is `pairOperator_t` (tokenContext_t::findPairs
   down-casts with a C cast, so the theorem needs "pair bit set -> object really is a pairOperator_t").
   The body of bitfield::operator>> is compared with the text the model was written after; a change
   there is reported as a broken tie (the model must be re-read), never skipped.
"""
import os, re, sys
sys.path.insert(0, os.path.dirname(os.path.abspath(__file__)))
from cxx2lean import *

EXPECTED_SHR = ("inline bitfield operator >> (const int shift) const { if (shift <= 0) { return *this; } "
                "const int bSize = 8 * sizeof(udim_t); if (shift > (2 * bSize)) { return 0; } "
                "if (shift >= bSize) { return bitfield(0, b1 >> (shift - bSize)); } "
                "const udim_t carryOver = (b1 << (bSize - shift)); "
                "return bitfield(b1 >> shift, (b2 >> shift) | carryOver); };")

MASKS = ["none", "pair", "pairStart", "pairEnd", "semicolon", "comma", "braceStart", "braceEnd", "bracketStart",
         "bracketEnd", "parenthesesStart", "parenthesesEnd", "cudaCallStart", "cudaCallEnd"]


def gen():
    src = open(os.path.join(REPO, "src/occa/internal/lang/operator.cpp")).read()
    raw = {}
    m = re.search(r"namespace rawOperatorType\s*\{(.*?)\n    \}", src, re.S)
    if not m:
        raise TranslateError("namespace rawOperatorType not found")
    for mm in re.finditer(r"const\s+rawOpType_t\s+(\w+)\s*\(\(\(uint64_t\)\s*1\)\s*<<\s*(\d+)\)\s*;", m.group(1)):
        raw[mm.group(1)] = 1 << int(mm.group(2))
    if len(raw) < 60:
        raise TranslateError("rawOperatorType: only %d constants recognised" % len(raw))
    m = re.search(r"namespace operatorType\s*\{(.*?)\n    \}", src, re.S)
    if not m:
        raise TranslateError("namespace operatorType not found")
    body = m.group(1)
    ot = {}

    def word(s):
        s = s.strip()
        if re.fullmatch(r"\d+", s):
            return int(s)
        mm = re.fullmatch(r"rawOperatorType::(\w+)", s)
        if not mm or mm.group(1) not in raw:
            raise TranslateError("operatorType word not understood: %r" % s)
        return raw[mm.group(1)]

    for mm in re.finditer(r"const\s+opType_t\s+(\w+)\s*(?:\(([^;]*?)\)|=\s*\(([^;]*?)\))\s*;", body, re.S):
        name, pairargs, orlist = mm.group(1), mm.group(2), mm.group(3)
        if pairargs is not None:
            parts = pairargs.split(",")
            if len(parts) != 2:
                raise TranslateError("operatorType::%s: expected (b1, b2)" % name)
            ot[name] = (word(parts[0]), word(parts[1]))
        else:
            b1 = b2 = 0
            for t in orlist.split("|"):
                t = t.strip()
                if t not in ot:
                    raise TranslateError("operatorType::%s uses unknown %r" % (name, t))
                b1 |= ot[t][0]
                b2 |= ot[t][1]
            ot[name] = (b1, b2)
    for k in MASKS:
        if k not in ot:
            raise TranslateError("operatorType::%s not found" % k)
    m = re.search(r"namespace op\s*\{(.*?)//---\[ Associativity \]", src, re.S)
    if not m:
        raise TranslateError("namespace op not found")
    ops = []
    for mm in re.finditer(r"const\s+(\w+)_t\s+(\w+)\s*\(\s*\"((?:[^\"\\]|\\.)*)\"\s*,(.*?)\)\s*;", m.group(1), re.S):
        cls, name, spell, rest = mm.groups()
        t = re.search(r"operatorType::(\w+)", rest)
        if not t or t.group(1) not in ot:
            raise TranslateError("op::%s: opType not understood" % name)
        ops.append((name, spell, ot[t.group(1)], cls == "pairOperator"))
    if len(ops) < 70 or sum(1 for o in ops if o[3]) < 8:
        raise TranslateError("op:: table: %d operators, %d pair operators recognised" % (len(ops), sum(1 for o in ops if o[3])))
    # bitfield::operator>>
    bits = open(os.path.join(REPO, "include/occa/types/bits.hpp")).read()
    m = re.search(r"inline bitfield operator >> \(const int shift\) const \{.*?\n    \};", bits, re.S)
    if not m:
        raise TranslateError("bitfield::operator>> not found")
    got = " ".join(m.group(0).split())
    if got != EXPECTED_SHR:
        raise TranslateError("bitfield::operator>> changed; re-read Bitfield.shr in OccaModel/FrontEnd.lean: " + got)
    if not re.search(r"udim_t\s+b1\s*,\s*b2\s*;", bits):
        raise TranslateError("bitfield words b1, b2 not found")
    # the cast pattern of findPairs the model's `asPairOp` follows
    tc = open(os.path.join(REPO, "src/occa/internal/lang/tokenContext.cpp")).read()
    casts = len(re.findall(r"\(\(pairOperator_t\*\)\s*(?:token|getToken\(pairIndex\))->to<operatorToken>\(\)\.op\)", tc))
    if casts != 3:
        raise TranslateError("tokenContext.cpp: expected 3 C-style casts to pairOperator_t*, found %d" % casts)
    guard = "pairStartOp.opType != (pairEndOp.opType >> 1)" in tc
    if not guard:
        raise TranslateError("tokenContext.cpp: the pair comparison `start.opType != (end.opType >> 1)` changed")

    def lstr(s):
        return '"' + s.replace("\\", "\\\\").replace('"', '\\"') + '"'

    out = ["-- GENERATED by translate/gen_pairops.py from src/occa/internal/lang/operator.cpp; do not edit.",
           "namespace Occa.Gen.PairOps", "",
           "/-- the (b1, b2) words of `operatorType::X` -/"]
    for k in MASKS:
        out.append("def %sMask : Nat × Nat := (%d, %d)" % (k, ot[k][0], ot[k][1]))
    out += ["", "/-- every `op::` object: name, spelling, opType words, C++ class is `pairOperator_t` -/",
            "def ops : List (String × String × Nat × Nat × Bool) := ["]
    out += ["  (%s, %s, %d, %d, %s)%s" % (lstr(n), lstr(s), w[0], w[1], "true" if p else "false", "," if i + 1 < len(ops) else "")
            for i, (n, s, w, p) in enumerate(ops)]
    out += ["]", "", "end Occa.Gen.PairOps", ""]
    h = write_if_changed(os.path.join(VERIF, "lean/OccaGen/PairOps.lean"), "\n".join(out))
    return {"PairOps.lean": h}


if __name__ == "__main__":
    print(gen())
