#!/usr/bin/env python3
"""Regenerate lean/OccaGen/CTypes.lean from the C API sources of /repo:

   src/occa/internal/c/types.hpp   the `typeType` tag constants
   include/occa/c/types.h          the members of the `occaType.value` union
   src/occa/internal/c/types.cpp   every `newOccaType<T>` specialisation (tag, bytes, union member, needsFree),
                                   the two `newOccaType(const primitive&[, type])` switches, the switches of
                                   `occa::c::primitive`, `occa::c::kernelArg`, `occa::c::inferJson`, `occaFree`,
                                   which handle accessors test `occaIsUndefined`, the public constructors
                                   (`occaInt8` ... `occaULong`) and `newOccaIntType`, the OCCA_* constants
   src/c/*.cpp                     number of call sites of the *untyped* `newOccaType(const primitive&)`
   src/c/json.cpp                  which entry points return owning / borrowed handles; the statements of
                                   occaJsonObjectGet/Set, occaJsonArrayPush/Insert the model is written after (shape checks)

   Everything is extracted with anchored regular expressions from very regular code; whenever a
   piece no longer has the expected shape a TranslateError is raised (reported as a broken tie).
   `sizeof` is evaluated for LP64 (recorded as an assumption of C29).
"""
import glob, os, re, sys
sys.path.insert(0, os.path.dirname(os.path.abspath(__file__)))
from cxx2lean import REPO, VERIF, TranslateError, write_if_changed

SIZEOF = {"int8_t": 1, "uint8_t": 1, "int16_t": 2, "uint16_t": 2, "int32_t": 4, "uint32_t": 4,
          "int64_t": 8, "uint64_t": 8, "float": 4, "double": 8, "bool": 1, "void*": 8,
          "char": 1, "short": 2, "int": 4, "long": 8}
CTY = {"bool": ".bool", "int8_t": ".i8", "uint8_t": ".u8", "int16_t": ".i16", "uint16_t": ".u16",
       "int32_t": ".i32", "uint32_t": ".u32", "int64_t": ".i64", "uint64_t": ".u64", "float": ".f32", "double": ".f64"}
FIELD = {"int8_": "int8_t", "uint8_": "uint8_t", "int16_": "int16_t", "uint16_": "uint16_t",
         "int32_": "int32_t", "uint32_": "uint32_t", "int64_": "int64_t", "uint64_": "uint64_t",
         "float_": "float", "double_": "double"}
PRIMTYPE = dict(FIELD, bool_="bool")
CTOR = {"Bool": "bool", "Int8": "int8", "UInt8": "uint8", "Int16": "int16", "UInt16": "uint16", "Int32": "int32",
        "UInt32": "uint32", "Int64": "int64", "UInt64": "uint64", "Char": "char", "UChar": "uchar", "Short": "short",
        "UShort": "ushort", "Int": "int", "UInt": "uint", "Long": "long", "ULong": "ulong", "Float": "float",
        "Double": "double"}


def need(m, what):
    if not m:
        raise TranslateError(what + " not found / changed shape")
    return m


def body_of(src, header_re, what):
    """text between the `{` that ends the header and its matching `}`"""
    m = need(re.search(header_re, src, re.S), what)
    i = m.end()
    depth, j = 1, i
    while j < len(src) and depth:
        if src[j] == "{":
            depth += 1
        elif src[j] == "}":
            depth -= 1
        j += 1
    if depth:
        raise TranslateError(what + ": unbalanced braces")
    return src[i:j - 1]


def switch_cases(body, what):
    """[(labels, statements-text)] of the (single) switch in `body`; `default` is a label; fallthrough
    labels are grouped with the next non-empty statement block"""
    m = need(re.search(r"switch\s*\((?:[^()]|\([^()]*\))*\)\s*\{", body), what + ": switch")
    i = m.end()
    depth, j = 1, i
    while j < len(body) and depth:
        depth += {"{": 1, "}": -1}.get(body[j], 0)
        j += 1
    sw = body[i:j - 1]
    parts = re.split(r"(case\s+[\w:]+\s*:|default\s*:)", sw)
    if parts[0].strip():
        raise TranslateError(what + ": text before the first case")
    out, labels = [], []
    for k in range(1, len(parts), 2):
        lab = parts[k].strip().rstrip(":").strip()
        lab = "default" if lab == "default" else lab.split()[-1].split("::")[-1]
        labels.append(lab)
        text = re.sub(r"/\*.*?\*/", "", parts[k + 1], flags=re.S).strip()
        if text:
            out.append((labels, text))
            labels = []
    if labels:
        raise TranslateError(what + ": trailing labels without statements")
    return out


def gen():
    hpp = open(os.path.join(REPO, "src/occa/internal/c/types.hpp")).read()
    cpp = open(os.path.join(REPO, "src/occa/internal/c/types.cpp")).read()
    hdr = open(os.path.join(REPO, "include/occa/c/types.h")).read()

    # ---- tag constants
    ns = body_of(hpp, r"namespace\s+typeType\s*\{", "namespace typeType")
    tags = [(a, int(b)) for a, b in re.findall(r"static\s+const\s+int\s+(\w+)\s*=\s*(\d+)\s*;", ns)]
    if len(tags) < 20 or len(set(v for _, v in tags)) != len(tags):
        raise TranslateError("typeType constants: expected >= 20 distinct values, got %s" % tags)
    T = dict(tags)
    for n in ["undefined", "default_", "null_", "ptr", "bool_", "struct_", "string", "json", "dtype", "scope",
              "memory", "kernel", "device"] + list(FIELD):
        if n not in T:
            raise TranslateError("typeType::%s missing" % n)

    # ---- union members
    un = body_of(hdr, r"union\s*\{", "occaType value union")
    members = dict((b, a.replace(" ", "")) for a, b in re.findall(r"([\w]+\s*\*?)\s+(\w+)\s*;", un))
    for f, t in FIELD.items():
        if members.get(f) != t:
            raise TranslateError("union member %s: expected type %s, found %s" % (f, t, members.get(f)))
    if members.get("ptr") != "char*":
        raise TranslateError("union member ptr: expected char*")

    # ---- newOccaType<T> specialisations
    spec = {}
    for m in re.finditer(r"template\s*<>\s*occaType\s+newOccaType\(const\s+([\w:]+)\s*&value\)\s*\{", cpp):
        ty = m.group(1)
        if ty == "occa::primitive":
            continue
        b = body_of(cpp[m.start():], r"\{", "newOccaType<%s>" % ty)
        t = need(re.search(r"oType\.type\s*=\s*typeType::(\w+)\s*;", b), "newOccaType<%s>: type" % ty).group(1)
        s = need(re.search(r"oType\.bytes\s*=\s*sizeof\(([\w* ]+)\)\s*;", b), "newOccaType<%s>: bytes" % ty).group(1).replace(" ", "")
        f = need(re.search(r"oType\.value\.(\w+)\s*=\s*value\s*;", b), "newOccaType<%s>: value" % ty).group(1)
        nf = need(re.search(r"oType\.needsFree\s*=\s*(true|false)\s*;", b), "newOccaType<%s>: needsFree" % ty).group(1)
        need(re.search(r"oType\.magicHeader\s*=\s*OCCA_C_TYPE_MAGIC_HEADER\s*;", b), "newOccaType<%s>: magicHeader" % ty)
        if len(re.findall(r"oType\.\w+(\.\w+)?\s*=", b)) != 5:
            raise TranslateError("newOccaType<%s>: expected exactly 5 assignments" % ty)
        if ty not in CTY or f not in FIELD or s not in SIZEOF or t not in T:
            raise TranslateError("newOccaType<%s>: unexpected type/field/sizeof %s %s %s" % (ty, t, f, s))
        spec[ty] = (T[t], SIZEOF[s], FIELD[f], nf)
    if sorted(spec) != sorted(CTY):
        raise TranslateError("newOccaType specialisations: expected %s, found %s" % (sorted(CTY), sorted(spec)))

    # ---- newOccaType(const primitive&) and (const primitive&, int)
    ub = body_of(cpp, r"template\s*<>\s*occaType\s+newOccaType\(const\s+occa::primitive\s*&value\)\s*\{", "untyped newOccaType(primitive)")
    untyped = {}
    for labels, text in switch_cases(ub, "untyped newOccaType(primitive)"):
        m = need(re.fullmatch(r"return\s+newOccaType<(\w+)>\(value\)\s*;", text), "untyped newOccaType case %s" % labels)
        for l in labels:
            if l not in PRIMTYPE or m.group(1) not in CTY:
                raise TranslateError("untyped newOccaType: unexpected case %s -> %s" % (l, m.group(1)))
            untyped[PRIMTYPE[l]] = m.group(1)
    need(re.search(r"\}\s*return\s+occaUndefined\s*;\s*$", ub.strip()), "untyped newOccaType: final return occaUndefined")
    tb = body_of(cpp, r"occaType\s+newOccaType\(const\s+occa::primitive\s*&value,\s*const\s+int\s+type\)\s*\{", "typed newOccaType(primitive, type)")
    typed = {}
    for labels, text in switch_cases(tb, "typed newOccaType(primitive,type)"):
        m = need(re.fullmatch(r"return\s+newOccaType<(\w+)>\(value\)\s*;", text), "typed newOccaType case %s" % labels)
        for l in labels:
            if l not in T or m.group(1) not in CTY:
                raise TranslateError("typed newOccaType: unexpected case %s" % l)
            typed[T[l]] = m.group(1)
    need(re.search(r"\}\s*return\s+occaUndefined\s*;\s*$", tb.strip()), "typed newOccaType: final return occaUndefined")

    # ---- occa::c::primitive(occaType)
    pb = body_of(cpp, r"occa::primitive\s+primitive\(occaType\s+value\)\s*\{", "occa::c::primitive")
    primf = {}
    for labels, text in switch_cases(pb, "occa::c::primitive"):
        if labels == ["default"]:
            need(re.match(r"OCCA_FORCE_ERROR", text), "occa::c::primitive default")
            continue
        m = need(re.fullmatch(r"p\s*=\s*value\.value\.(\w+)\s*;\s*break\s*;", text), "occa::c::primitive case %s" % labels)
        for l in labels:
            if m.group(1) not in FIELD:
                raise TranslateError("occa::c::primitive: unexpected member %s" % m.group(1))
            primf[T[l]] = FIELD[m.group(1)]

    # ---- occa::c::kernelArg
    kb = body_of(cpp, r"occa::kernelArg\s+kernelArg\(occaType\s+value\)\s*\{", "occa::c::kernelArg")
    need(re.search(r"OCCA_ERROR\([^;]*!occaIsUndefined\(value\)\)\s*;", kb, re.S), "kernelArg: undefined check")
    karg = {}
    for labels, text in switch_cases(kb, "occa::c::kernelArg"):
        text = text.strip("{} \n")
        if labels == ["default"]:
            need(re.match(r"OCCA_FORCE_ERROR", text), "kernelArg default")
            continue
        m = re.fullmatch(r"return\s+occa::kernelArg\(value\.value\.(\w+)\)\s*;", text)
        if m and m.group(1) in FIELD:
            c = "KArgCase.field " + CTY[FIELD[m.group(1)]]
        elif re.fullmatch(r"arg\.addPointer\(value\.value\.ptr,\s*value\.bytes\)\s*;\s*break\s*;", text):
            c = "KArgCase.pointer"
        elif re.fullmatch(r"return\s+occa::kernelArg\(occa::c::memory\(value\)\)\s*;", text):
            c = "KArgCase.memory"
        elif re.fullmatch(r"return\s+occa::kernelArg\(occa::null\)\s*;", text):
            c = "KArgCase.null"
        else:
            raise TranslateError("kernelArg: unrecognised case %s: %s" % (labels, text[:80]))
        for l in labels:
            karg[T[l]] = c

    # ---- occa::c::inferJson
    ib = body_of(cpp, r"occa::json\s+inferJson\(occaType\s+value\)\s*\{", "occa::c::inferJson")
    infer = {}
    for labels, text in switch_cases(ib, "occa::c::inferJson"):
        if re.fullmatch(r"return\s+occa::json\(\(bool\)\s*value\.value\.int8_\)\s*;", text):
            c = ".bool"
        elif re.fullmatch(r"return\s+occa::json\(occa::c::primitive\(value\)\)\s*;", text):
            c = ".prim"
        elif re.fullmatch(r"return\s+occa::json\(\(char\*\)\s*value\.value\.ptr\)\s*;", text):
            c = ".string"
        elif re.fullmatch(r"return\s+occa::c::json\(value\)\s*;", text):
            c = ".json"
        elif re.fullmatch(r"return\s+occa::json\(occa::json::null_\)\s*;", text):
            c = ".null"
        elif re.fullmatch(r"if\s*\(value\.value\.ptr\s*==\s*NULL\)\s*\{\s*return\s+occa::json\(occa::json::null_\)\s*;\s*\}", text):
            c = ".nullIfNullPtr"       # then falls through to default
        elif labels[-1] == "default" and re.match(r"OCCA_FORCE_ERROR", text):
            c = ".error"
            labels = [l for l in labels if l != "default"]
        else:
            raise TranslateError("inferJson: unrecognised case %s: %s" % (labels, text[:80]))
        for l in labels:
            if T[l] in infer:
                continue                 # a fall-through label already classified (ptr)
            infer[T[l]] = c

    # ---- occaFree
    fb = body_of(cpp, r"void\s+occaFree\(occaType\s*\*value\)\s*\{", "occaFree")
    need(re.search(r"if\s*\(occaIsUndefined\(valueRef\)\)\s*\{\s*return\s*;", fb), "occaFree: undefined check")
    need(re.search(r"valueRef\.magicHeader\s*=\s*occaUndefined\.magicHeader\s*;\s*$", fb.strip()), "occaFree: final header write")
    free = {}
    for labels, text in switch_cases(fb, "occaFree"):
        text = text.strip("{} \n")
        if re.fullmatch(r"occa::c::(\w+)\(valueRef\)\.free\(\)\s*;\s*break\s*;", text):
            c = ".modeFree"
        elif re.fullmatch(r"delete\s+&occa::c::(\w+)\(valueRef\)\s*;\s*break\s*;", text):
            c = ".delete"
        elif re.fullmatch(r"if\s*\(valueRef\.needsFree\)\s*\{\s*delete\s+&occa::c::(\w+)\(valueRef\)\s*;\s*\}\s*break\s*;", text):
            c = ".deleteIfNeedsFree"
        else:
            raise TranslateError("occaFree: unrecognised case %s: %s" % (labels, text[:80]))
        for l in labels:
            free[T[l]] = c

    # ---- which accessors return an empty object for an undefined handle instead of dereferencing it
    checks = {}
    for m in re.finditer(r"\n    occa::(\w+)&?\s+(\w+)\(occaType\s+value\)\s*\{", cpp):
        name = m.group(2)
        if name in ("kernelArg", "primitive", "inferJson", "getDtype"):
            continue
        b = body_of(cpp[m.start():], r"\{", "accessor " + name)
        tm = need(re.search(r"value\.type\s*==\s*typeType::(\w+)", b), "accessor %s: tag test" % name)
        checks[T[tm.group(1)]] = bool(re.search(r"if\s*\(occaIsUndefined\(value\)\)\s*\{\s*return", b))
    if T["json"] not in checks or T["memory"] not in checks or T["dtype"] not in checks:
        raise TranslateError("accessor functions json/memory/dtype not found")
    need(re.search(r"bool\s+occaIsUndefined\(occaType\s+value\)\s*\{\s*return\s*\(\(value\.magicHeader\s*==\s*OCCA_C_TYPE_UNDEFINED_HEADER\)\s*\|\|\s*"
                   r"\(value\.magicHeader\s*!=\s*OCCA_C_TYPE_MAGIC_HEADER\)\)\s*;", cpp), "occaIsUndefined body")

    # ---- json handles: newOccaType(const json&, needsFree) returns occaNull for a null json
    jb = body_of(cpp, r"occaType\s+newOccaType\(const\s+occa::json\s*&json,\s*const\s+bool\s+needsFree\)\s*\{", "newOccaType(json)")
    nm = need(re.search(r"if\s*\(json\.isNull\(\)\)\s*\{(.*?)return\s+occaNull\s*;", jb, re.S), "newOccaType(json): null test")
    inner = re.sub(r"//[^\n]*", "", nm.group(1)).strip()
    if inner == "":
        null_frees = False          # an owned (heap) json that is null is dropped without being freed: leak
    elif re.fullmatch(r"if\s*\(needsFree\)\s*\{\s*delete\s+&json\s*;\s*\}", inner):
        null_frees = True
    else:
        raise TranslateError("newOccaType(json): unrecognised statements before `return occaNull`: %s" % inner[:80])
    need(re.search(r"oType\.needsFree\s*=\s*needsFree\s*;", jb), "newOccaType(json): needsFree")

    # ---- OCCA_* constants and globals
    consts = dict(re.findall(r"const\s+int\s+OCCA_(\w+)\s*=\s*occa::c::typeType::(\w+)\s*;", cpp))
    if len(consts) != len(tags):
        raise TranslateError("OCCA_* constants: %d for %d tags" % (len(consts), len(tags)))
    for k, v in consts.items():
        if k.lower() != v.rstrip("_").lower():
            raise TranslateError("OCCA_%s is bound to typeType::%s" % (k, v))
    need(re.search(r"const\s+occaType\s+occaTrue\s*=\s*occa::c::newOccaType\(true\)\s*;", cpp), "occaTrue")
    need(re.search(r"const\s+occaType\s+occaFalse\s*=\s*occa::c::newOccaType\(false\)\s*;", cpp), "occaFalse")
    need(re.search(r"const\s+occaType\s+occaNull\s*=\s*occa::c::nullOccaType\(\)\s*;", cpp), "occaNull")

    # ---- public constructors
    known, ambig = {}, {}
    for m in re.finditer(r"occaType\s+occa(\w+)\(([\w ]+?)\s+value\)\s*\{\s*return\s+occa::c::(newOccaType|newOccaIntType<(\w+)>)\(((true|false),\s*)?value\)\s*;\s*\}", cpp):
        nm, pty = m.group(1), m.group(2).strip()
        if nm not in CTOR:
            raise TranslateError("unknown public constructor occa%s" % nm)
        if m.group(3) == "newOccaType":
            if pty not in CTY:
                raise TranslateError("occa%s: parameter type %s" % (nm, pty))
            known[CTOR[nm]] = pty
        else:
            if m.group(4) not in SIZEOF:
                raise TranslateError("occa%s: newOccaIntType<%s>" % (nm, m.group(4)))
            ambig[CTOR[nm]] = (SIZEOF[m.group(4)], m.group(6))
    if sorted(list(known) + list(ambig)) != sorted(CTOR.values()):
        raise TranslateError("public constructors found: %s" % sorted(list(known) + list(ambig)))
    nb = body_of(cpp, r"inline\s+occaType\s+newOccaIntType\(bool\s+isUnsigned,\s*TM\s+value\)\s*\{", "newOccaIntType")
    need(re.search(r"switch\s*\(sizeof\(value\)\)", nb), "newOccaIntType: switch (sizeof(value))")
    bysize = {}
    for labels, text in switch_cases(nb, "newOccaIntType"):
        m = need(re.fullmatch(r"return\s+isUnsigned\s*\?\s*occa(\w+)\(value\)\s*:\s*occa(\w+)\(value\)\s*;", text), "newOccaIntType case")
        for l in labels:
            bysize[int(l)] = (CTOR[m.group(1)], CTOR[m.group(2)])

    # ---- call sites of the untyped newOccaType(const primitive&) in the C API implementation
    sites = 0
    cfiles = sorted(glob.glob(os.path.join(REPO, "src/c/*.cpp")) + glob.glob(os.path.join(REPO, "src/c/experimental/*.cpp")))
    if len(cfiles) < 8:
        raise TranslateError("src/c/*.cpp: only %d files" % len(cfiles))
    for f in cfiles:
        s = re.sub(r"//[^\n]*", "", open(f).read())
        for m in re.finditer(r"newOccaType\s*(<[^>]*>)?\s*\(", s):
            i = m.end()
            depth, j, args, cur = 1, i, [], ""
            while j < len(s) and depth:
                ch = s[j]
                if ch in "([{":
                    depth += 1
                elif ch in ")]}":
                    depth -= 1
                    if depth == 0:
                        break
                if ch == "," and depth == 1:
                    args.append(cur)
                    cur = ""
                else:
                    cur += ch
                j += 1
            args.append(cur)
            a0 = args[0].strip()
            explicit = m.group(1) and "primitive" in m.group(1)
            if explicit or (len(args) == 1 and re.search(r"(\.number\(\)|primitive\s*\([^()]*\))$", a0)):
                sites += 1

    # ---- which json entry points hand out owning handles (needsFree) and which hand out borrowed ones
    jsrc = re.sub(r"//[^\n]*", "", open(os.path.join(REPO, "src/c/json.cpp")).read())
    def fn_body(name):
        return body_of(jsrc, r"\b%s\s*\([^)]*\)\s*\{" % name, "src/c/json.cpp: " + name)
    def owning_flag(name, arg_re):
        m = need(re.search(r"return\s+occa::c::newOccaType\(\s*" + arg_re + r"\s*,\s*(true|false)\s*\)\s*;", fn_body(name), re.S),
                 "%s: return newOccaType(..., needsFree)" % name)
        return m.group(1) == "true"
    own = {
        "createOwning": owning_flag("occaCreateJson", r"\*\(new\s+occa::json\(\)\)"),
        "parseOwning": owning_flag("occaJsonParse", r"\*\(new\s+occa::json\(occa::json::parse\(c\)\)\)"),
        "objectGetOwning": owning_flag("occaJsonObjectGet", r"j_\[key\]"),
        "arrayGetOwning": owning_flag("occaJsonArrayGet", r"j_\[index\]"),
    }
    need(re.search(r"if\s*\(j_\.has\(key\)\)\s*\{\s*return\s+occa::c::newOccaType\(j_\[key\],\s*false\);\s*\}\s*return\s+defaultValue\s*;",
                   fn_body("occaJsonObjectGet")), "occaJsonObjectGet: has(key) ? handle : defaultValue")
    need(re.search(r"\(index\s*>=\s*0\)\s*&&\s*\(index\s*<\s*\(int\)\s*array\.size\(\)\)", fn_body("occaJsonArrayInsert")),
         "occaJsonArrayInsert: bounds check 0 <= index < size")
    need(re.search(r"array\.insert\(array\.begin\(\)\s*\+\s*index,\s*occa::c::inferJson\(value\)\)", fn_body("occaJsonArrayInsert")),
         "occaJsonArrayInsert: insert at begin() + index")
    need(re.search(r"j_\[key\]\s*=\s*occa::c::inferJson\(value\)\s*;", fn_body("occaJsonObjectSet")), "occaJsonObjectSet: j_[key] = inferJson(value)")
    need(re.search(r"j_\s*\+=\s*occa::c::inferJson\(value\)\s*;", fn_body("occaJsonArrayPush")), "occaJsonArrayPush: j_ += inferJson(value)")

    tag_by_val = sorted((v, k) for k, v in T.items())
    lean_tag = lambda k: "tag" + k.rstrip("_")[0].upper() + k.rstrip("_")[1:]
    L = ["-- GENERATED by translate/gen_capi.py from include/occa/c/types.h, src/occa/internal/c/types.{hpp,cpp}, src/c/*.cpp; do not edit.",
         "import OccaModel.CApiTypes", "namespace Occa.Gen.CTypes", "open Occa.CApi", ""]
    for v, k in tag_by_val:
        L.append("def %s : Nat := %d" % (lean_tag(k), v))
    L.append("def tagCount : Nat := %d" % len(tags))
    L.append("def tagNames : List (Nat × String) := [%s]" % ", ".join('(%d, "%s")' % (v, k.rstrip("_")) for v, k in tag_by_val))
    L.append("")
    L.append("/-- `newOccaType<T>`: (tag, bytes, C type of the union member written, needsFree) -/")
    L.append("def ctorSpec : CTy → Nat × Nat × CTy × Bool")
    for ty in CTY:
        t, s, f, nf = spec[ty]
        L.append("  | %s => (%d, %d, %s, %s)" % (CTY[ty], t, s, CTY[f], nf))
    L.append("")
    L.append("/-- `newOccaType(const primitive&)`: primitive type → template argument; `none` = `return occaUndefined` -/")
    L.append("def untypedPrim : CTy → Option CTy")
    for ty in CTY:
        L.append("  | %s => %s" % (CTY[ty], "some " + CTY[untyped[ty]] if ty in untyped else "none"))
    L.append("")

    def nat_table(name, doc, d, ty, default, fmt):
        L.append("/-- %s -/" % doc)
        L.append("def %s (tag : Nat) : %s :=" % (name, ty))
        L.append("  match tag with")
        for k in sorted(d):
            L.append("  | %d => %s" % (k, fmt(d[k])))
        L.append("  | _ => %s" % default)
        L.append("")

    nat_table("typedPrim", "`newOccaType(const primitive&, type)`: tag → template argument; `none` = `return occaUndefined`",
              typed, "Option CTy", "none", lambda x: "some " + CTY[x])
    nat_table("primField", "`occa::c::primitive(occaType)`: tag → union member read; `none` = error",
              primf, "Option CTy", "none", lambda x: "some " + CTY[x])
    nat_table("kernelArgCase", "`occa::c::kernelArg(occaType)`", karg, "KArgCase", "KArgCase.error", lambda x: x)
    nat_table("inferJsonCase", "`occa::c::inferJson(occaType)`", infer, "JInferCase", ".error", lambda x: x)
    nat_table("freeCase", "`occaFree`: what happens before the magic header is overwritten", free, "FreeCase", ".nothing", lambda x: x)
    nat_table("accessorChecksHeader", "handle accessor `occa::c::<kind>(occaType)` returns an empty object when `occaIsUndefined`",
              checks, "Bool", "false", lambda x: "true" if x else "false")
    L.append("/-- `occaX(T value) { return newOccaType(value); }`: the parameter type -/")
    L.append("def knownCtor : Ctor → Option CTy")
    for c in CTOR.values():
        L.append("  | .%s => %s" % (c, "some " + CTY[known[c]] if c in known else "none"))
    L.append("")
    L.append("/-- `occaX(T value) { return newOccaIntType<U>(isUnsigned, value); }`: (sizeof(U), isUnsigned) -/")
    L.append("def ambiguousCtor : Ctor → Option (Nat × Bool)")
    for c in CTOR.values():
        L.append("  | .%s => %s" % (c, "some (%d, %s)" % ambig[c] if c in ambig else "none"))
    L.append("")
    L.append("/-- `newOccaIntType`: `case n: return isUnsigned ? occaA(value) : occaB(value)` -/")
    L.append("def intBySize (size : Nat) (isUnsigned : Bool) : Option Ctor :=")
    L.append("  match size with")
    for n in sorted(bysize):
        L.append("  | %d => some (if isUnsigned then .%s else .%s)" % (n, bysize[n][0], bysize[n][1]))
    L.append("  | _ => none")
    L.append("")
    L.append("/-- `newOccaType(const json&, needsFree)` for a null json: the owned heap object is deleted before occaNull is returned -/")
    L.append("def nullJsonFreesOwned : Bool := %s" % ("true" if null_frees else "false"))
    L.append("")
    L.append("/-- src/c/json.cpp: needsFree of the handle returned by the entry point (true = the caller owns the json) -/")
    for k in ("createOwning", "parseOwning", "objectGetOwning", "arrayGetOwning"):
        L.append("def %s : Bool := %s" % (k, "true" if own[k] else "false"))
    L.append("")
    L.append("/-- call sites in src/c/*.cpp of the untyped `newOccaType(const primitive&)` (it has no bool case) -/")
    L.append("def untypedPrimCallSites : Nat := %d" % sites)
    L += ["", "end Occa.Gen.CTypes", ""]
    h = write_if_changed(os.path.join(VERIF, "lean/OccaGen/CTypes.lean"), "\n".join(L))
    return {"CTypes": h}


if __name__ == "__main__":
    try:
        print(gen())
    except TranslateError as e:
        print("TRANSLATE-ERROR:", e)
        sys.exit(3)
