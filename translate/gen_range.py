#!/usr/bin/env python3
"""Regenerate lean/OccaGen/RangeFns.lean from /repo's *current* sources (property C23).

 1. `rangeLength`           occa::range::length() (src/functional/range.cpp), clang AST -> Lean via cxx2lean
                            (member accesses through `this` become parameters start/end/step).
 2. `mapSafeTileSize`, `mapSafeTileIterations`, `mapTileDivisor`
                            the three `const int` declarations at the top of typelessArray::getMapArrayScope
                            (include/occa/functional/typelessArray.hpp), clang AST -> Lean; std::min/std::max
                            calls are rewritten to the conditional expression of their definition.
 3. `cpuReduceBlocks` and the block arithmetic `cpuBlockSize/cpuStartIndex/cpuEndIndex`
                            OCCA_ARRAY_OMP_LOOP_SIZE and the expressions of the typelessCpuReduce kernel text.
 4. the tiled map loop nest: the loop strings of buildCpuMapTiledForLoops are put around a symbolic body and
                            given to the REAL OKL translator (`occa translate -m serial`, the binary built from the
                            tree under test); the three resulting `for` headers and the `if` guard are parsed into
                            Lean functions (`mapBlockStep`, `mapTileBound`, ...).  `tileInnerScaled` says whether
                            the bound of the in-tile loop spans the whole block step (true: @tile multiplies the
                            tile size by the loop increment; false: defect F25, the increment is ignored).
 5. `forLoopStepIsAbs`      iteration::buildRangeForLoop: whether the magnitude of the step is what follows the
                            `-=` of a descending range loop (false: defect F61, `i -= <negative step>`).
Every pattern that stops matching raises TranslateError (reported as a broken tie).
"""
import hashlib, os, re, subprocess, sys, tempfile
sys.path.insert(0, os.path.dirname(os.path.abspath(__file__)))
from cxx2lean import *


# ----------------------------------------------------------------------------- AST rewriting
def rewrite(n):
    """MemberExpr on `this` -> DeclRefExpr; std::min/std::max calls -> ConditionalOperator."""
    if not isinstance(n, dict):
        return n
    inner = [rewrite(c) for c in (n.get("inner", []) or [])]
    n = dict(n)
    n["inner"] = inner
    k = n.get("kind")
    if k == "MemberExpr" and inner and inner[0].get("kind") == "CXXThisExpr":
        return {"kind": "DeclRefExpr", "type": n.get("type"), "referencedDecl": {"name": n["name"]}}
    if k == "CallExpr" and inner:
        callee = find_all(inner[0], lambda x: x.get("kind") == "DeclRefExpr")
        name = callee[0]["referencedDecl"]["name"] if callee else None
        if name in ("min", "max") and len(inner) == 3:
            a, b = inner[1], inner[2]
            bty = {"qualType": "bool"}
            if name == "min":      # std::min(a, b) = (b < a) ? b : a
                cond = {"kind": "BinaryOperator", "opcode": "<", "type": bty, "inner": [b, a]}
            else:                  # std::max(a, b) = (a < b) ? b : a
                cond = {"kind": "BinaryOperator", "opcode": "<", "type": bty, "inner": [a, b]}
            return {"kind": "ConditionalOperator", "type": n.get("type"), "inner": [cond, b, a]}
    return n


def method_with_body(docs, name):
    fs = [d for d in docs if d.get("kind") in ("CXXMethodDecl", "FunctionDecl") and d.get("name") == name and
          any(c.get("kind") == "CompoundStmt" for c in d.get("inner", []) or [])]
    if len(fs) != 1:
        raise TranslateError("expected one definition of %s, found %d" % (name, len(fs)))
    return fs[0]


def gen_range_length():
    fn = rewrite(method_with_body(clang_ast("src/functional/range.cpp", "occa::range::length"), "length"))
    body = [c for c in fn["inner"] if c.get("kind") == "CompoundStmt"][0]
    cx = Ctx()
    term = stmts(body.get("inner", []) or [], cx)
    if sorted(cx.free) != ["end", "start", "step"]:
        raise TranslateError("range::length uses %s, expected start, end, step" % cx.free)
    term = re.sub(r"\bend\b", "end_", term)     # `end` is a Lean keyword
    return ("/-- occa::range::length(), translated from the clang AST -/\n"
            "def rangeLength (start end_ step : Int) : Int :=\n  %s\n" % term)


def gen_safe_tile():
    fn = rewrite(method_with_body(clang_ast("src/functional/range.cpp", "occa::typelessArray::getMapArrayScope"),
                                  "getMapArrayScope"))
    decls = {}
    for v in find_all(fn, lambda x: x.get("kind") == "VarDecl" and x.get("name") in
                      ("arrayLength", "safeTileSize", "safeTileIterations")):
        decls[v["name"]] = v
    if sorted(decls) != ["arrayLength", "safeTileIterations", "safeTileSize"]:
        raise TranslateError("getMapArrayScope: declarations found: %s" % sorted(decls))
    if not find_all(decls["arrayLength"], lambda x: x.get("kind") == "CXXMemberCallExpr"):
        raise TranslateError("getMapArrayScope: arrayLength is no longer (int) length()")
    cx1 = Ctx()
    e1 = expr(decls["safeTileSize"]["inner"][0], cx1)
    if not set(cx1.free) <= {"arrayLength", "tileSize"}:
        raise TranslateError("safeTileSize uses %s" % cx1.free)
    cx2 = Ctx()
    e2 = expr(decls["safeTileIterations"]["inner"][0], cx2)
    if not set(cx2.free) <= {"arrayLength", "tileIterations", "safeTileSize"}:
        raise TranslateError("safeTileIterations uses %s" % cx2.free)
    divs = find_all(decls["safeTileIterations"], lambda x: x.get("kind") == "BinaryOperator" and x.get("opcode") in ("/", "%")) + \
        find_all(decls["safeTileSize"], lambda x: x.get("kind") == "BinaryOperator" and x.get("opcode") in ("/", "%"))
    divs = list({d.get("id"): d for d in divs}.values())     # std::min/max rewriting duplicates operands
    if len(divs) > 1:
        raise TranslateError("getMapArrayScope: %d divisions, expected at most one" % len(divs))
    if divs:
        cx3 = Ctx()
        e3 = expr(divs[0]["inner"][1], cx3)
        if not set(cx3.free) <= {"arrayLength", "safeTileSize"}:
            raise TranslateError("divisor uses %s" % cx3.free)
    else:
        e3 = "(1 : Int)"
    return ("/-- `safeTileSize` of typelessArray::getMapArrayScope -/\n"
            "def mapSafeTileSize (arrayLength tileSize : Int) : Int :=\n  %s\n\n"
            "/-- the divisor of the only division in getMapArrayScope (C++ traps when it is 0) -/\n"
            "def mapTileDivisor (arrayLength tileSize : Int) : Int :=\n"
            "  let safeTileSize : Int := mapSafeTileSize arrayLength tileSize\n  %s\n\n"
            "/-- `safeTileIterations` of typelessArray::getMapArrayScope -/\n"
            "def mapSafeTileIterations (arrayLength tileSize tileIterations : Int) : Int :=\n"
            "  let safeTileSize : Int := mapSafeTileSize arrayLength tileSize\n  %s\n" % (e1, e3, e2))


# ----------------------------------------------------------------------------- tiny C expression parser
TOK = re.compile(r"\s*(?:(\d+)[lLuU]*|([A-Za-z_]\w*)|(<=|>=|==|!=|\+=|-=|\+\+|--|&&|\|\||[-+*/%<>()?:=]))")


def tokenize(s):
    out, i = [], 0
    s = s.strip()
    while i < len(s):
        m = TOK.match(s, i)
        if not m:
            raise TranslateError("cannot tokenize %r at %r" % (s, s[i:i + 10]))
        out.append(("num", m.group(1)) if m.group(1) is not None else
                   ("id", m.group(2)) if m.group(2) is not None else ("op", m.group(3)))
        i = m.end()
    return out


class P:
    """precedence climbing over + - * / < > <= >= ?: with integer literals and identifiers"""
    PREC = {"*": 6, "/": 6, "+": 5, "-": 5, "<": 4, ">": 4, "<=": 4, ">=": 4}

    def __init__(self, toks):
        self.t, self.i = toks, 0

    def peek(self):
        return self.t[self.i] if self.i < len(self.t) else (None, None)

    def eat(self, v=None):
        k = self.peek()
        if v is not None and k[1] != v:
            raise TranslateError("expected %r, got %r" % (v, k))
        self.i += 1
        return k

    def primary(self):
        k, v = self.peek()
        if k == "num":
            self.eat()
            return ("num", int(v))
        if k == "id":
            self.eat()
            return ("id", v)
        if v == "(":
            self.eat()
            e = self.ternary()
            self.eat(")")
            return e
        if v == "-":
            self.eat()
            return ("-", ("num", 0), self.primary())
        raise TranslateError("unexpected token %r" % (self.peek(),))

    def binary(self, minp):
        lhs = self.primary()
        while True:
            k, v = self.peek()
            if k != "op" or v not in self.PREC or self.PREC[v] < minp:
                return lhs
            self.eat()
            rhs = self.binary(self.PREC[v] + 1)
            lhs = (v, lhs, rhs)

    def ternary(self):
        c = self.binary(1)
        if self.peek()[1] == "?":
            self.eat()
            a = self.ternary()
            self.eat(":")
            b = self.ternary()
            return ("?", c, a, b)
        return c


def parse_expr(s):
    p = P(tokenize(s))
    e = p.ternary()
    if p.i != len(p.t):
        raise TranslateError("trailing tokens in %r" % s)
    return e


def to_lean(e, ren):
    k = e[0]
    if k == "num":
        return "(%d : Int)" % e[1]
    if k == "id":
        if e[1] not in ren:
            raise TranslateError("unexpected identifier %s" % e[1])
        return ren[e[1]]
    if k in ("+", "-", "*"):
        return "(%s %s %s)" % (to_lean(e[1], ren), k, to_lean(e[2], ren))
    if k == "/":
        return "(Int.tdiv %s %s)" % (to_lean(e[1], ren), to_lean(e[2], ren))
    if k in ("<", ">", "<=", ">="):
        return "(decide (%s %s %s))" % (to_lean(e[1], ren), {"<": "<", ">": ">", "<=": "≤", ">=": "≥"}[k], to_lean(e[2], ren))
    if k == "?":
        return "(if %s then %s else %s)" % (to_lean(e[1], ren), to_lean(e[2], ren), to_lean(e[3], ren))
    raise TranslateError("unsupported node %r" % (k,))


def evaluate(e, env):
    k = e[0]
    if k == "num":
        return e[1]
    if k == "id":
        return env[e[1]]
    a = evaluate(e[1], env)
    if k == "?":
        return evaluate(e[2], env) if a else evaluate(e[3], env)
    b = evaluate(e[2], env)
    return {"+": a + b, "-": a - b, "*": a * b, "<": a < b, ">": a > b, "<=": a <= b, ">=": a >= b}[k] \
        if k != "/" else int(a / b)


# ----------------------------------------------------------------------------- CPU reduce kernel text
def gen_cpu_reduce(src):
    m = re.search(r"T2 typelessCpuReduce\(.*?OCCA_JIT\(scope, \((.*?)\)\);\s*return finishReturnMemoryReduction", src, re.S)
    if not m:
        raise TranslateError("typelessCpuReduce kernel text not found")
    ktxt = m.group(1)
    m2 = re.search(r'"defines/OCCA_ARRAY_OMP_LOOP_SIZE",\s*(\d+)', src)
    m3 = re.search(r"const int ompLoopSize = (\d+);\s*setupReturnMemoryArray<T2>\(ompLoopSize\)", src)
    if not m2 or not m3:
        raise TranslateError("OCCA_ARRAY_OMP_LOOP_SIZE / ompLoopSize not found")
    if m2.group(1) != m3.group(1):
        raise TranslateError("kernel uses %s blocks but the return buffer holds %s partial results" % (m2.group(1), m3.group(1)))
    if not re.search(r"for \(int ompIndex = 0; ompIndex < OCCA_ARRAY_OMP_LOOP_SIZE; \+\+ompIndex; @outer\)", ktxt):
        raise TranslateError("cpu reduce: outer loop changed")
    if not re.search(r"T2 localAcc = OCCA_ARRAY_REDUCTION_INIT_VALUE;\s*for \(int i = startIndex; i < endIndex; \+\+i\) \{\s*"
                     r"localAcc = OCCA_ARRAY_FUNCTION_CALL\(localAcc, i\);\s*\}\s*occa_array_return\[ompIndex\] = localAcc;", ktxt):
        raise TranslateError("cpu reduce: per-block fold changed")
    ex = {}
    for name in ("blockSize", "startIndex", "unsafeEndIndex", "endIndex"):
        mm = re.search(r"const int %s = (.*?);" % name, ktxt, re.S)
        if not mm:
            raise TranslateError("cpu reduce: %s not found" % name)
        ex[name] = parse_expr(mm.group(1))
    ren = {"occa_array_length": "len", "OCCA_ARRAY_OMP_LOOP_SIZE": "cpuReduceBlocks", "ompIndex": "ompIndex",
           "blockSize": "(cpuBlockSize len)", "startIndex": "(cpuStartIndex len ompIndex)",
           "unsafeEndIndex": "(cpuUnsafeEndIndex len ompIndex)"}
    return ("/-- OCCA_ARRAY_OMP_LOOP_SIZE: number of partial results of the Serial/OpenMP reduction -/\n"
            "def cpuReduceBlocks : Int := %s\n\n"
            "/-- block arithmetic of the typelessCpuReduce kernel text -/\n"
            "def cpuBlockSize (len : Int) : Int := %s\n"
            "def cpuStartIndex (len ompIndex : Int) : Int := %s\n"
            "def cpuUnsafeEndIndex (len ompIndex : Int) : Int := %s\n"
            "def cpuEndIndex (len ompIndex : Int) : Int := %s\n" % (
                m2.group(1), to_lean(ex["blockSize"], ren), to_lean(ex["startIndex"], ren),
                to_lean(ex["unsafeEndIndex"], ren), to_lean(ex["endIndex"], ren)))


# ----------------------------------------------------------------------------- tiled map loop nest via `occa translate`
def occa_translate(okl, mode="serial"):
    exe = None
    for cand in (os.path.join(BUILD, "asan", "bin", "occa"), os.path.join(REPO, "_build", "bin", "occa")):
        if os.path.exists(cand):
            exe = cand
            break
    if exe is None:
        raise TranslateError("no occa binary (looked in %s/asan/bin)" % BUILD)
    os.makedirs(os.path.join(BUILD, "tmp"), exist_ok=True)
    with tempfile.NamedTemporaryFile("w", suffix=".okl", dir=os.path.join(BUILD, "tmp"), delete=False) as f:
        f.write(okl)
        path = f.name
    try:
        env = dict(os.environ)
        env.update({"OCCA_DIR": REPO, "ASAN_OPTIONS": "detect_leaks=0", "OCCA_CACHE_DIR": os.path.join(BUILD, "occa_cache_func")})
        p = subprocess.run([exe, "translate", "-m", mode, path], capture_output=True, text=True, env=env, timeout=300)
    finally:
        os.unlink(path)
    if "extern \"C\"" not in p.stdout:
        raise TranslateError("occa translate failed on the map-loop probe: %s" % (p.stdout + p.stderr)[-400:])
    return p.stdout


def c_string(src, var, fn_body):
    """concatenate the adjacent string literals assigned to `var = ( "..." "..." );` inside fn_body"""
    m = re.search(r"%s = \((.*?)\);" % var, fn_body, re.S)
    if not m:
        raise TranslateError("%s assignment not found" % var)
    parts = re.findall(r'"((?:[^"\\]|\\.)*)"', m.group(1))
    if not parts:
        raise TranslateError("%s has no string literals" % var)
    return "".join(parts)


FOR_RE = re.compile(r"for \(int (\w+) = (.*?); (\w+) < (.*?); (.*?)\) \{")


def gen_map_loops(src):
    m = re.search(r"void buildCpuMapTiledForLoops\(.*?\) const \{(.*?)\n    \}", src, re.S)
    if not m:
        raise TranslateError("buildCpuMapTiledForLoops not found")
    tile_loop = c_string(src, "tileForLoop", m.group(1))
    par_loop = c_string(src, "parallelForLoop", m.group(1))
    okl = ("@kernel void k(const int occa_array_length, const int OCCA_ARRAY_TILE_SIZE,\n"
           "               const int OCCA_ARRAY_TILE_ITERATIONS, int *occa_array_output) {\n"
           "  %s {\n    %s {\n      occa_array_output[i] = i;\n    }\n  }\n}\n" % (tile_loop, par_loop))
    out = occa_translate(okl)
    gen_map_loops.probe = out
    heads = FOR_RE.findall(out)
    if len(heads) != 3:
        raise TranslateError("translated map kernel has %d for-loops, expected 3:\n%s" % (len(heads), out))
    g = re.search(r"if \((\w+) < (\w+)\) \{\s*occa_array_output\[i\] = i;", out)
    if not g or g.group(1) != heads[2][0] or g.group(2) != "occa_array_length":
        raise TranslateError("guard of the translated map kernel changed:\n" + out)
    names = [h[0] for h in heads]
    ren = {"occa_array_length": "len", "OCCA_ARRAY_TILE_SIZE": "ts", "OCCA_ARRAY_TILE_ITERATIONS": "ti",
           names[0]: "blk", names[1]: "tile", names[2]: "i"}
    parsed = []
    for (v, init, v2, bound, upd) in heads:
        if v != v2:
            raise TranslateError("loop tests %s but declares %s" % (v2, v))
        um = re.match(r"^(\w+) \+= (.*)$", upd) or re.match(r"^\+\+(\w+)()$", upd) or re.match(r"^(\w+)\+\+()$", upd)
        if not um or um.group(1) != v:
            raise TranslateError("unsupported loop update %r" % upd)
        step = parse_expr(um.group(2)) if um.group(2) else ("num", 1)
        parsed.append((parse_expr(init), parse_expr(bound), step))
    # classify the in-tile bound:  blk + ts*ti  (F25)  or  blk + ts*ti*ti  (repaired)
    pts = [dict(zip(("occa_array_length", "OCCA_ARRAY_TILE_SIZE", "OCCA_ARRAY_TILE_ITERATIONS", names[0], names[1], names[2]), p))
           for p in ((50, 2, 3, 36, 40, 41), (7, 5, 2, 20, 22, 23), (100, 3, 4, 48, 52, 53), (9, 1, 1, 4, 4, 4))]
    def same(e, f):
        return all(evaluate(e, p) == f(p["occa_array_length"], p["OCCA_ARRAY_TILE_SIZE"], p["OCCA_ARRAY_TILE_ITERATIONS"],
                                        p[names[0]], p[names[1]]) for p in pts)
    (i0, b0, s0), (i1, b1, s1), (i2, b2, s2) = parsed
    if not (same(i0, lambda n, ts, ti, blk, tile: 0) and same(b0, lambda n, ts, ti, blk, tile: n) and
            same(s0, lambda n, ts, ti, blk, tile: ts * ti * ti) and same(i1, lambda n, ts, ti, blk, tile: blk) and
            same(s1, lambda n, ts, ti, blk, tile: ti) and same(i2, lambda n, ts, ti, blk, tile: tile) and
            same(b2, lambda n, ts, ti, blk, tile: tile + ti) and same(s2, lambda n, ts, ti, blk, tile: 1)):
        raise TranslateError("tiled map loop nest has an unexpected shape:\n" + out)
    if same(b1, lambda n, ts, ti, blk, tile: blk + ts * ti * ti):
        scaled = True
    elif same(b1, lambda n, ts, ti, blk, tile: blk + ts * ti):
        scaled = False
    else:
        raise TranslateError("in-tile loop bound is neither blk+T nor blk+T*step:\n" + out)
    L = lambda e: to_lean(e, ren)
    txt = ("/-- the Serial translation of the array map kernel (typelessArray::buildCpuMapTiledForLoops through the\n"
           "    real OKL translator), loop by loop: `for (v = init; v < bound; v += step)` -/\n"
           "def mapBlockInit (len ts ti : Int) : Int := %s\n"
           "def mapBlockBound (len ts ti : Int) : Int := %s\n"
           "def mapBlockStep (len ts ti : Int) : Int := %s\n"
           "def mapTileInit (len ts ti blk : Int) : Int := %s\n"
           "def mapTileBound (len ts ti blk : Int) : Int := %s\n"
           "def mapTileStep (len ts ti blk : Int) : Int := %s\n"
           "def mapInnerInit (len ts ti blk tile : Int) : Int := %s\n"
           "def mapInnerBound (len ts ti blk tile : Int) : Int := %s\n"
           "def mapInnerStep (len ts ti blk tile : Int) : Int := %s\n"
           "/-- true: the in-tile loop spans the whole block step (`blk + T*step`); false: defect F25 (`blk + T`) -/\n"
           "def tileInnerScaled : Bool := %s\n" % (L(i0), L(b0), L(s0), L(i1), L(b1), L(s1), L(i2), L(b2), L(s2),
                                                  "true" if scaled else "false"))
    return txt, scaled


# ----------------------------------------------------------------------------- forLoop range header
def gen_forloop():
    src = open(os.path.join(REPO, "src/loops/iteration.cpp")).read()
    m = re.search(r"std::string iteration::buildRangeForLoop\(.*?\n  \}", src, re.S)
    if not m:
        raise TranslateError("iteration::buildRangeForLoop not found")
    body = m.group(0)
    if not re.search(r"compOperator = \(\s*range\.step > 0\s*\?\s*'<'\s*:\s*'>'\s*\)", body) or \
       not re.search(r"stepOperator = \(\s*range\.step > 0\s*\?\s*'\+'\s*:\s*'-'\s*\)", body):
        raise TranslateError("buildRangeForLoop: comparison / step operator selection changed")
    adds = re.findall(r"scope\.add\(stepName,\s*(.*?)\);", body)
    defs = re.findall(r'scope\.props\["defines"\]\[stepName\]\s*=\s*(.*?);', body)
    if len(adds) != 1 or len(defs) != 1:
        raise TranslateError("buildRangeForLoop: step value is passed in %d+%d places" % (len(adds), len(defs)))
    if adds[0].strip() == "range.step" and defs[0].strip() == "range.step":
        is_abs = False
    elif adds[0].strip() == defs[0].strip() and adds[0].strip() != "range.step":
        # the repaired code passes a magnitude computed from range.step; require that it is declared as one
        v = re.escape(adds[0].strip())
        if not re.search(r"%s\s*=\s*\(?\s*range\.step\s*(>|>=)\s*0\s*\?\s*range\.step\s*:\s*-\s*range\.step" % v, body) and \
           not re.search(r"%s\s*=\s*std::abs\(range\.step\)" % v, body):
            raise TranslateError("buildRangeForLoop: step value %s is not |range.step|" % adds[0])
        is_abs = True
    else:
        raise TranslateError("buildRangeForLoop: step value expressions %r / %r" % (adds[0], defs[0]))
    return ("/-- iteration::buildRangeForLoop emits `i < end; i += s` for step > 0 and `i > end; i -= s` otherwise;\n"
            "    true: `s` is |step|; false: `s` is the (negative) step itself (defect F61: the loop runs away) -/\n"
            "def forLoopStepIsAbs : Bool := %s\n" % ("true" if is_abs else "false")), is_abs


def gen_empty_guard(src):
    """do the five kernel-launching entry points return before getMapArrayScope / the reduce kernels for length 0?"""
    heads = {"typelessEvery": r"bool typelessEvery\(const baseFunction &fn\) const \{",
             "typelessFindIndex": r"int typelessFindIndex\(const baseFunction &fn\) const \{",
             "typelessForEach": r"void typelessForEach\(const baseFunction &fn\) const \{",
             "typelessMapTo": r"void typelessMapTo\(occa::memory output,\s*const baseFunction &fn\) const \{",
             "typelessReduce": r"T2 typelessReduce\(reductionType type,\s*const T2 &localInit,\s*const bool useLocalInit,\s*const baseFunction &fn\) const \{"}
    guarded = []
    for name, h in heads.items():
        m = re.search(h + r"\s*(if \((?:!length\(\)|length\(\) == 0)\) \{)?", src)
        if not m:
            raise TranslateError("%s not found in typelessArray.hpp" % name)
        guarded.append(bool(m.group(1)))
    if all(guarded):
        g = True
    elif not any(guarded):
        g = False
    else:
        raise TranslateError("only some typeless entry points guard against empty arrays: %s" % dict(zip(heads, guarded)))
    return ("/-- true: every/findIndex/forEach/mapTo/reduce return before any tile arithmetic when the length is 0\n"
            "    (repair of F27); false: they reach `(length + safeTileSize - 1) / safeTileSize` with safeTileSize = 0 -/\n"
            "def emptyGuard : Bool := %s\n" % ("true" if g else "false")), g


PROBE2 = """@kernel void k(const int N, const int M, int *a) {
  for (int o = 0; o < N; o += 2; @tile(4, @outer, @inner)) {
    a[o] = o;
  }
  for (int p = N; p > 0; p -= 3; @tile(2, @outer, @inner, check=false)) {
    a[p] = p;
  }
  for (int o2 = N; o2 > 0; o2 -= 1; @outer) {
    for (int o3 = 0; o3 < 2; ++o3; @outer) {
      for (int i = 0; i < M; ++i; @inner) {
        a[(o2 * 2 + o3) * M + i] += 1;
      }
    }
  }
}
"""


def gen():
    src = open(os.path.join(REPO, "include/occa/functional/typelessArray.hpp")).read()
    loops, scaled = gen_map_loops(src)
    # what the OKL front end makes of tiled / outer / inner loops decides what a cached kernel binary contains:
    # the plugin keys its kernel cache directory by these translations
    gen.probe_key = hashlib.sha1((gen_map_loops.probe + occa_translate(PROBE2, "openmp")).encode()).hexdigest()[:12]
    fl, is_abs = gen_forloop()
    eg, guard = gen_empty_guard(src)
    out = ["-- GENERATED by translate/gen_range.py from src/functional/range.cpp, include/occa/functional/typelessArray.hpp,",
           "-- src/loops/iteration.cpp and the OKL translation of the array map loops; do not edit.",
           "import OccaModel.CInt", "namespace Occa.Gen", "open Occa", "",
           gen_range_length(), gen_safe_tile(), gen_cpu_reduce(src), loops, fl, eg, "end Occa.Gen", ""]
    h = write_if_changed(os.path.join(VERIF, "lean/OccaGen/RangeFns.lean"), "\n".join(out))
    gen.flags = {"tileInnerScaled": scaled, "forLoopStepIsAbs": is_abs, "emptyGuard": guard}
    return {"RangeFns": h}


if __name__ == "__main__":
    try:
        print(gen(), gen.flags)
    except TranslateError as e:
        print("TRANSLATE-ERROR:", e)
        sys.exit(3)
