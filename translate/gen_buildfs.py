#!/usr/bin/env python3
"""Regenerate lean/OccaGen/BuildFSSites.lean from /repo's current sources (C08/C09, tie T).

   writeSites : every call in the library that creates or overwrites a file through
       io::write / json::write / parser_t::writeToFile / fopen("w") / std::ofstream,
       with the expression naming the file.  A site is *staged* when that expression is the temp
       name handed to a stageFile(s) producer.  The definitions of the primitives themselves
       (io::write, json::write, parser_t::writeToFile), the user-facing C/C++ API entry points and the
       backends that are not built here (OpenCL binary dump) are listed separately, not as sites.
   stageShape : facts about io::stageFiles / getStagedTempFilename / moveStagedTempFile that the model
       (lean/OccaModel/BuildFS.lean) relies on; the extractor raises TranslateError when the code no
       longer has the shape it was written against.
"""
import os, re, sys
sys.path.insert(0, os.path.dirname(os.path.abspath(__file__)))
from cxx2lean import REPO, VERIF, TranslateError, write_if_changed

PRIMITIVE_DEFS = {  # file -> enclosing definitions whose body is the primitive itself
    "src/occa/internal/io/utils.cpp": ["void write("],
    "src/types/json.cpp": ["void json::write("],
    "src/occa/internal/lang/parser.cpp": ["void parser_t::writeToFile("],
}
API_FILES = {"src/c/json.cpp"}                       # occaJsonWrite: the user names the file
OUT_OF_SCOPE = ("src/occa/internal/modes/opencl/", "src/occa/internal/modes/cuda/", "src/occa/internal/modes/hip/",
                "src/occa/internal/modes/metal/", "src/occa/internal/modes/dpcpp/", "src/occa/internal/bin/")

CALL_RE = re.compile(r'(?<![\w:])(io::write|writeToFile|[A-Za-z_][\w\.\[\]"/>-]*\.write|fopen|std::ofstream\s+\w+|ofstream\s+\w+)\s*\(')


def balanced_args(text, i):
    """text[i] == '(' -> (list of top-level argument strings, index after ')')"""
    depth, j, cur, args, inq = 0, i, "", [], None
    while j < len(text):
        ch = text[j]
        if inq:
            cur += ch
            if ch == "\\":
                cur += text[j + 1]
                j += 1
            elif ch == inq:
                inq = None
        elif ch in "\"'":
            inq = ch
            cur += ch
        elif ch in "([{":
            depth += 1
            if depth > 1:
                cur += ch
        elif ch in ")]}":
            depth -= 1
            if depth == 0:
                args.append(cur.strip())
                return args, j + 1
            cur += ch
        elif ch == "," and depth == 1:
            args.append(cur.strip())
            cur = ""
        else:
            cur += ch
        j += 1
    raise TranslateError("unbalanced call")


def strip_comments(src):
    src = re.sub(r"/\*.*?\*/", lambda m: re.sub(r"[^\n]", " ", m.group(0)), src, flags=re.S)
    return re.sub(r"//[^\n]*", "", src)


def scan():
    sites, prims = [], []
    for root, _, files in os.walk(os.path.join(REPO, "src")):
        for f in sorted(files):
            if not f.endswith((".cpp", ".hpp", ".tpp")):
                continue
            rel = os.path.relpath(os.path.join(root, f), REPO)
            if rel.startswith(OUT_OF_SCOPE):
                continue
            src = strip_comments(open(os.path.join(root, f), errors="replace").read())
            for m in CALL_RE.finditer(src):
                callee = m.group(1)
                args, _ = balanced_args(src, m.end() - 1)
                line = src.count("\n", 0, m.start()) + 1
                if callee == "fopen":
                    if len(args) < 2 or not re.search(r'"[wa]', args[1]):
                        continue            # read-only open
                elif "ofstream" in callee:
                    pass
                elif callee.endswith(".write") and callee not in ("io::write",):
                    # only json objects have a one-argument write(filename); stream.write(buf, n) is not a file creation
                    if len(args) != 1:
                        continue
                # the definition lines themselves ("void write(const std::string &filename, ...")
                before = src[max(0, m.start() - 40):m.start()]
                if re.search(r"\b(void|bool|int)\s+(\w+::)*$", before):
                    continue
                # inside a primitive's definition?
                head = src[:m.start()]
                inprim = False
                for d in PRIMITIVE_DEFS.get(rel, []):
                    k = head.rfind(d)
                    if k >= 0 and head.count("{", k) > head.count("}", k):
                        inprim = True
                target = args[0] if args else ""
                if inprim:
                    prims.append((rel, line, callee, target))
                elif rel in API_FILES:
                    prims.append((rel, line, callee, target))
                else:
                    sites.append((rel, line, callee, target))
            # output files named on a compiler / shell command line
            for m in re.finditer(r'"\s(-o|>)\s"\s*<<\s*([\w\.\[\]]+)', src):
                line = src.count("\n", 0, m.start()) + 1
                if m.group(2) == "/dev/null":
                    continue
                sites.append((rel, line, "command " + m.group(1), m.group(2)))
    return sites, prims


def shape():
    u = strip_comments(open(os.path.join(REPO, "src/occa/internal/io/utils.cpp")).read())
    facts = {}
    m = re.search(r"std::string getStagedTempFilename\(const std::string &expFilename\)\s*\{(.*?)\n    \}", u, re.S)
    if not m:
        raise TranslateError("getStagedTempFilename not found")
    body = re.sub(r"\s+", "", m.group(1))
    facts["tempNameIsDirRandomDotBase"] = body == 'return(dirname(expFilename)+hash_t::random().getString()+"."+basename(expFilename));'
    m = re.search(r"void moveStagedTempFile\(.*?\)\s*\{(.*?)\n    \}", u, re.S)
    if not m:
        raise TranslateError("moveStagedTempFile not found")
    b = m.group(1)
    facts["publishIsRename"] = bool(re.search(r"std::rename\(\s*tempFilename\.c_str\(\),\s*expFilename\.c_str\(\)\s*\)", b))
    facts["renameFailureToleratedIfFinalExists"] = bool(re.search(r"status == 0 \|\| isFile\(expFilename\)", b))
    facts["missingTempIsSkipped"] = bool(re.search(r"if \(!isFile\(tempFilename\)\)\s*\{\s*return;", b))
    m = re.search(r"void stageFiles\(.*?\)\s*\{(.*?)\n    \}", u, re.S)
    if not m:
        raise TranslateError("stageFiles not found")
    b = m.group(1)
    facts["skipTestsFinalName"] = bool(re.search(r"doNothing &= isFile\(expFilename\);", b))
    i1, i2, i3 = b.find("if (doNothing)"), b.find("func(tempFilenames)"), b.find("moveStagedTempFile(")
    facts["producerBeforePublish"] = 0 <= i1 < i2 < i3
    m = re.search(r"void write\(const std::string &filename,\s*const std::string &content\)\s*\{(.*?)\n    \}", u, re.S)
    if not m:
        raise TranslateError("io::write not found")
    b = m.group(1)
    j = [b.find(x) for x in ("sys::mkpath(", 'fopen(expFilename.c_str(), "w")', "fputs(", "fclose(fp)", "io::sync(expFilename)")]
    facts["writeIsMkpathOpenPutsCloseSync"] = all(x >= 0 for x in j) and j == sorted(j)
    s = strip_comments(open(os.path.join(REPO, "src/occa/internal/modes/serial/device.cpp")).read())
    facts["binaryCompletionTestIsFinalName"] = bool(re.search(
        r"std::string binaryFilename = hashDir \+ kcBinaryFile;.*?const bool foundBinary = io::isFile\(binaryFilename\);", s, re.S))
    c = strip_comments(open(os.path.join(REPO, "src/core/device.cpp")).read())
    facts["rmrfOnlyWhenBuildReturnsNull"] = len(re.findall(r"sys::rmrf\(", c)) == 1 and bool(re.search(
        r"if \(cachedKernel\.isInitialized\(\)\) \{[^}]*\} else \{\s*sys::rmrf\(hashDir\);", c))
    return facts


def names():
    """the file names the cache uses (the model spells them as literals; C08_cache_names compares)"""
    u = strip_comments(open(os.path.join(REPO, "src/occa/internal/io/utils.cpp")).read())
    out = []
    for key in ("buildFile", "binaryFile"):
        m = re.search(r'const std::string %s\s*=\s*"([^"]*)";' % key, u)
        if not m:
            raise TranslateError("kc::%s not found" % key)
        out.append(("kc::" + key, m.group(1)))
    m = re.search(r'return basename \+ std::string\("([^"]*)"\) \+ extension;', u)
    m2 = re.search(r'return basename \+ std::string\("([^"]*)"\);', u)
    if not m or not m2:
        raise TranslateError("kc::cachedRawSourceFilename / cachedSourceFilename not found")
    out += [("raw source suffix", m.group(1)), ("source suffix", m2.group(1))]
    c = strip_comments(open(os.path.join(REPO, "src/core/device.cpp")).read())
    m = re.search(r'io::hashDir\(kernelHash\)\s*\+\s*"([^"]*)"', c)
    if not m:
        raise TranslateError("string source file name not found in buildKernelFromString")
    out.append(("string source", m.group(1)))
    y = strip_comments(open(os.path.join(REPO, "src/occa/internal/utils/sys.cpp")).read())
    m = re.search(r'io::cacheFile\(compilerVendorTest,\s*"([^"]*)"', y)
    b = re.search(r'const std::string binaryFilename\s*=\s*hashDir \+ "([^"]*)";', y)
    o = re.search(r'const std::string outFilename\s*=\s*hashDir \+ "([^"]*)";', y)
    l = re.search(r'const std::string buildLogFilename\s*=\s*hashDir \+ "([^"]*)";', y)
    if not (m and b and o and l):
        raise TranslateError("compilerVendor file names not found")
    out += [("vendor source", m.group(1)), ("vendor binary", b.group(1)), ("vendor output", o.group(1)), ("vendor log", l.group(1))]
    z = strip_comments(open(os.path.join(REPO, "src/occa/internal/modes/openmp/utils.cpp")).read())
    m = re.search(r'io::cacheFile\(openmpTest,\s*"([^"]*)"', z)
    b = re.search(r'const std::string binaryFilename = io::dirname\(srcFilename\) \+ "([^"]*)";', z)
    o = re.search(r'const std::string outFilename = io::dirname\(srcFilename\) \+ "([^"]*)";', z)
    if not (m and b and o):
        raise TranslateError("openmp::compilerFlag file names not found")
    out += [("openmp source", m.group(1)), ("openmp binary", b.group(1)), ("openmp output", o.group(1))]
    return out


def lean_str(s):
    return '"' + s.replace("\\", "\\\\").replace('"', '\\"') + '"'


def gen():
    sites, prims = scan()
    if not sites:
        raise TranslateError("no file-writing call sites found: the extractor no longer matches the source")
    facts = shape()
    out = ["-- GENERATED by translate/gen_buildfs.py from /repo/src; do not edit.", "namespace Occa.Gen.BuildFS", "",
           "structure WriteSite where", "  file : String", "  line : Nat", "  callee : String", "  target : String",
           "  staged : Bool", "deriving Repr, DecidableEq", "",
           "/-- calls that create or overwrite a file; `staged` = the file named is a stageFile(s) temp name -/",
           "def writeSites : List WriteSite := ["]
    rows = []
    for (rel, line, callee, target) in sites:
        staged = bool(re.match(r"^temp\w*$", target))
        rows.append("  ⟨%s, %d, %s, %s, %s⟩" % (lean_str(rel), line, lean_str(re.sub(r"\s+", " ", callee)),
                                                lean_str(re.sub(r"\s+", " ", target))[:200], "true" if staged else "false"))
    out.append(",\n".join(rows) + "]")
    out += ["", "/-- the primitives themselves and the user-facing entry points (the caller names the file) -/",
            "def writePrimitives : List (String × Nat × String) := ["]
    out.append(",\n".join("  (%s, %d, %s)" % (lean_str(r), l, lean_str(re.sub(r"\s+", " ", c))) for (r, l, c, _) in prims) + "]")
    out += ["", "/-- shape facts of io::stageFiles, getStagedTempFilename, moveStagedTempFile, io::write, the completion test -/"]
    for k in sorted(facts):
        out.append("def %s : Bool := %s" % (k, "true" if facts[k] else "false"))
    out.append("def stageShape : List (String × Bool) := [" + ", ".join('("%s", %s)' % (k, k) for k in sorted(facts)) + "]")
    out += ["", "/-- file names of the cache entries, as the source spells them -/",
            "def cacheNames : List (String × String) := [" + ", ".join("(%s, %s)" % (lean_str(a), lean_str(b)) for a, b in names()) + "]"]
    out += ["", "end Occa.Gen.BuildFS", ""]
    h = write_if_changed(os.path.join(VERIF, "lean/OccaGen/BuildFSSites.lean"), "\n".join(out))
    return {"BuildFSSites": h}


if __name__ == "__main__":
    print(gen())
    s, p = scan()
    for x in s:
        print("site", x)
    for x in p:
        print("prim", x)
    print(shape())
