#!/usr/bin/env python3
"""Regenerate lean/OccaGen/TrieShape.lean from src/occa/internal/utils/trie.cpp and trie.tpp.

   The loops and the pointer structure of the trie are modelled by hand (OccaModel/Trie.lean); what
   is extracted here are the straight-line integer expressions and conditions on which the
   property hinges, so that the theorems of C28 are re-checked against what the code says NOW:

     getFallbackLength   length reported by trieNode::get when the deeper lookup fails below a value node
     getMissLength       length reported when the next character has no child
     getNextIndex        cIndex passed to the recursive call
     eraseEmptiedChild   condition under which nestedRemove erases a child that became an empty tree
     eraseLeafChild      condition under which nestedRemove erases the node of the removed key itself
     decrementCond       condition under which decrementIndex decrements an index
     bsMid, bsLeftEnd, bsRightStart, bsInitStart, bsInitEnd    the binary search of the frozen getLongest
     frozenHasValue      condition under which the frozen lookup records a match
     frozenSuccess       condition under which the frozen lookup reports success
     freezeLeafOffset    first row used for the grandchildren in trie::freeze(node, offset)

   C `int` expressions become Lean `Int` expressions (`/` is C's truncating division `Int.tdiv`),
   conditions become `Bool`.  Anything that no longer matches raises TranslateError.
"""
import os, re, sys
sys.path.insert(0, os.path.dirname(os.path.abspath(__file__)))
from cxx2lean import REPO, VERIF, TranslateError, write_if_changed

TOK = re.compile(r"\s*(?:(\d+)|([A-Za-z_]\w*)|(<=|>=|==|!=|&&|\|\||[-+*/()<>!]))")


class P:
    """tiny recursive-descent translator for C integer / boolean expressions over named variables"""

    def __init__(self, text, vars_):
        self.toks = []
        pos = 0
        text = text.strip()
        while pos < len(text):
            m = TOK.match(text, pos)
            if not m:
                raise TranslateError("cannot tokenise %r at %r" % (text, text[pos:pos + 10]))
            self.toks.append(m.group(1) or m.group(2) or m.group(3))
            pos = m.end()
        self.i = 0
        self.vars = vars_
        self.used = set()

    def peek(self):
        return self.toks[self.i] if self.i < len(self.toks) else None

    def eat(self, t=None):
        x = self.peek()
        if x is None or (t is not None and x != t):
            raise TranslateError("expected %r, found %r in %r" % (t, x, self.toks))
        self.i += 1
        return x

    # each level returns (lean_text, kind) with kind in {"int", "bool"}
    def top(self):
        r = self.lor()
        if self.peek() is not None:
            raise TranslateError("trailing tokens %r" % self.toks[self.i:])
        return r

    def as_bool(self, r):
        return r[0] if r[1] == "bool" else "(decide (%s ≠ 0))" % r[0]

    def lor(self):
        l = self.land()
        while self.peek() == "||":
            self.eat()
            r = self.land()
            l = ("(%s || %s)" % (self.as_bool(l), self.as_bool(r)), "bool")
        return l

    def land(self):
        l = self.cmp()
        while self.peek() == "&&":
            self.eat()
            r = self.cmp()
            l = ("(%s && %s)" % (self.as_bool(l), self.as_bool(r)), "bool")
        return l

    def cmp(self):
        l = self.add()
        if self.peek() in ("<", ">", "<=", ">=", "==", "!="):
            op = self.eat()
            r = self.add()
            if l[1] != "int" or r[1] != "int":
                raise TranslateError("comparison of non-integers")
            lean = {"<": "<", ">": ">", "<=": "≤", ">=": "≥", "==": "=", "!=": "≠"}[op]
            return ("(decide (%s %s %s))" % (l[0], lean, r[0]), "bool")
        return l

    def add(self):
        l = self.mul()
        while self.peek() in ("+", "-"):
            op = self.eat()
            r = self.mul()
            if l[1] != "int" or r[1] != "int":
                raise TranslateError("arithmetic on a condition")
            l = ("(%s %s %s)" % (l[0], op, r[0]), "int")
        return l

    def mul(self):
        l = self.unary()
        while self.peek() in ("*", "/"):
            op = self.eat()
            r = self.unary()
            if l[1] != "int" or r[1] != "int":
                raise TranslateError("arithmetic on a condition")
            l = ("(%s * %s)" % (l[0], r[0]), "int") if op == "*" else ("(Int.tdiv %s %s)" % (l[0], r[0]), "int")
        return l

    def unary(self):
        t = self.peek()
        if t == "!":
            self.eat()
            r = self.unary()
            return ("(!%s)" % self.as_bool(r), "bool")
        if t == "-":
            self.eat()
            r = self.unary()
            return ("(-%s)" % r[0], "int")
        if t == "(":
            self.eat()
            r = self.lor()
            self.eat(")")
            return r
        if t is not None and t.isdigit():
            self.eat()
            return ("(%s : Int)" % t, "int")
        if t is not None and re.match(r"[A-Za-z_]\w*$", t):
            self.eat()
            if t not in self.vars:
                raise TranslateError("unexpected identifier %r (allowed: %s)" % (t, sorted(self.vars)))
            self.used.add(t)
            return (self.vars[t][0], self.vars[t][1])
        raise TranslateError("unexpected token %r" % t)


def prep(e, macros):
    e = re.sub(r"/\*.*?\*/", " ", e, flags=re.S)
    e = re.sub(r"//[^\n]*", " ", e)
    for k, v in macros.items():
        e = re.sub(r"\b%s\b" % k, "(" + v + ")", e)
    e = re.sub(r"\(\s*(?:int|size_t|unsigned)\s*\)", " ", e)          # value-preserving casts
    e = re.sub(r"\bleaf\.leaves\.size\(\)", "leafLeavesSize", e)
    e = re.sub(r"\bleaves\.size\(\)", "leavesSize", e)
    e = re.sub(r"\bvalueIndices\s*\[[^\]]*\]", "vi", e)
    return e


def tr(e, params, want, macros=None):
    """params: list of (c_name, lean_name, kind)"""
    vars_ = {c: (l, k) for c, l, k in params}
    p = P(prep(e, macros or {}), vars_)
    text, kind = p.top()
    if want == "bool":
        text = p.as_bool((text, kind))
    elif kind != "int":
        raise TranslateError("expected an integer expression: %r" % e)
    return text


def one(pattern, src, what, flags=re.S):
    ms = list(re.finditer(pattern, src, flags))
    if len(ms) != 1:
        raise TranslateError("%s: expected exactly one match, found %d" % (what, len(ms)))
    return ms[0]


def body(src, header_regex, what):
    """text of the function whose header matches, up to the closing brace at 2-space indentation"""
    m = one(header_regex + r"[^{;]*\{(.*?)\n  \}", src, what)
    return m.group(1)


def defn(name, params, kind, text, doc):
    sig = " ".join("(%s : %s)" % (l, "Int" if k == "int" else "Bool") for _, l, k in params)
    return "/-- %s -/\ndef %s %s : %s := %s\n" % (doc, name, sig, "Int" if kind == "int" else "Bool", text)


def gen():
    cpp = open(os.path.join(REPO, "src/occa/internal/utils/trie.cpp")).read()
    tpp = open(os.path.join(REPO, "src/occa/internal/utils/trie.tpp")).read()
    out = ["-- GENERATED by translate/gen_trie.py from src/occa/internal/utils/trie.cpp / trie.tpp; do not edit.",
           "namespace Occa.Gen.Trie", ""]

    # ---- trieNode::get(c, cIndex, length)
    g = body(cpp, r"trieNode::result_t trieNode::get\(const char \*c, const int cIndex, const int length\) const", "trieNode::get")
    m = one(r"it->second\.get\(c,\s*(.*?),\s*length\)", g, "recursive call of trieNode::get")
    ci = [("cIndex", "cIndex", "int")]
    out.append(defn("getNextIndex", ci, "int", tr(m.group(1), ci, "int"), "`it->second.get(c, <this>, length)`"))
    rets = list(re.finditer(r"return result_t\(const_cast<trieNode\*>\(this\),\s*(.*?),\s*valueIndex\);", g, re.S))
    if len(rets) != 2:
        raise TranslateError("trieNode::get: expected two `return result_t(this, …, valueIndex)`, found %d" % len(rets))
    if not re.search(r"if \(!result\.success\(\) && \(0 <= valueIndex\)\)\s*\{[^}]*" + re.escape(rets[0].group(0)), g, re.S):
        raise TranslateError("trieNode::get: the fallback return is no longer guarded by `!result.success() && 0 <= valueIndex`")
    out.append(defn("getFallbackLength", ci, "int", tr(rets[0].group(1), ci, "int"),
                    "length reported when the deeper lookup fails below a node that holds a value"))
    out.append(defn("getMissLength", ci, "int", tr(rets[1].group(1), ci, "int"),
                    "length reported when the query ends here or the next character has no child"))

    # ---- trieNode::nestedRemove
    n = body(cpp, r"bool trieNode::nestedRemove\(", "trieNode::nestedRemove")
    m = one(r"bool emptyTree = leaf\.nestedRemove\([^;]*;\s*if \((.*?)\)\s*\{\s*leaves\.erase\(it\);", n, "nestedRemove: erase of an emptied child")
    ps = [("emptyTree", "emptyTree", "bool"), ("leavesSize", "leavesSize", "int")]
    out.append(defn("eraseEmptiedChild", ps, "bool", tr(m.group(1), ps, "bool"),
                    "`if (<this>) leaves.erase(it)` after the recursive call (`leavesSize` = `leaves.size()` of the parent)"))
    m = one(r"leaf\.valueIndex = -1;\s*if \((.*?)\)\s*\{\s*leaves\.erase\(it\);", n, "nestedRemove: erase of the key's own node")
    ps = [("leafLeavesSize", "leafLeavesSize", "int")]
    out.append(defn("eraseLeafChild", ps, "bool", tr(m.group(1), ps, "bool"),
                    "`if (<this>) leaves.erase(it)` for the node of the removed key (`leafLeavesSize` = its `leaves.size()`)"))

    # ---- trieNode::decrementIndex
    d = body(cpp, r"void trieNode::decrementIndex\(", "trieNode::decrementIndex")
    m = one(r"if \(((?:leaf\.)?valueIndex\s*[<>=!]+\s*valueIndex_)\)\s*\{\s*--(?:leaf\.)?valueIndex;", d, "decrementIndex condition")
    ps = [("valueIndex", "valueIndex", "int"), ("valueIndex_", "removed", "int")]
    out.append(defn("decrementCond", ps, "bool", tr(m.group(1).replace("leaf.", ""), ps, "bool"),
                    "`if (<this>) --valueIndex`"))

    # ---- frozen getLongest
    f = body(tpp, r"typename trie<TM>::result_t trie<TM>::getLongest\(const char \*c,\s*const int length\) const", "trie::getLongest")
    mid = one(r"#define OCCA_TRIE_MID (.*)", f, "OCCA_TRIE_MID", 0).group(1).strip()
    macros = {"OCCA_TRIE_MID": mid}
    se = [("start", "start", "int"), ("end", "end_", "int")]
    out.append(defn("bsMid", se, "int", tr(mid, se, "int"), "`OCCA_TRIE_MID`"))
    m = one(r"int start = (.*?), end = (.*?);", f, "binary search initial bounds")
    cnt = [("count", "count", "int")]
    out.append(defn("bsInitStart", cnt, "int", tr(m.group(1), cnt, "int"), "initial `start`"))
    out.append(defn("bsInitEnd", cnt, "int", tr(m.group(2), cnt, "int"), "initial `end`"))
    m = one(r"if \(ci < cmid\)\s*\{\s*end = (.*?);\s*\}\s*else if \(ci > cmid\)\s*\{\s*start = (.*?);\s*\}", f, "binary search steps")
    out.append(defn("bsLeftEnd", se, "int", tr(m.group(1), se, "int", macros), "`end = <this>` when `ci < chars[offset + MID]`"))
    out.append(defn("bsRightStart", se, "int", tr(m.group(2), se, "int", macros), "`start = <this>` when `ci > chars[offset + MID]`"))
    if not re.search(r"while \(start <= end\)", f):
        raise TranslateError("binary search loop condition is no longer `start <= end`")
    m = one(r"\+\+c;\s*if \((.*?)\)\s*\{\s*retLength", f, "frozen match condition")
    vi = [("vi", "vi", "int")]
    out.append(defn("frozenHasValue", vi, "bool", tr(m.group(1), vi, "bool", macros),
                    "`if (<this>) { retLength = …; retValueIndex = … }` with `vi = valueIndices[offset + MID]`"))
    m = one(r"if \(([^()]*|[^{}]*?)\)\s*\{\s*return result_t\(this, retLength, retValueIndex\);", f, "frozen success condition")
    rr = [("retLength", "retLength", "int"), ("retValueIndex", "retValueIndex", "int")]
    out.append(defn("frozenSuccess", rr, "bool", tr(m.group(1), rr, "bool"), "`if (<this>) return result_t(this, retLength, retValueIndex)`"))
    m = one(r"int retValueIndex = (.*?);", f, "frozen initial retValueIndex")
    rv = [("root.valueIndex", "rootValueIndex", "int")]
    init = m.group(1).strip()
    init = re.sub(r"\broot\.valueIndex\b", "rootValueIndex", init)
    out.append(defn("frozenInitIndex", [("rootValueIndex", "rootValueIndex", "int")], "int",
                    tr(init, [("rootValueIndex", "rootValueIndex", "int")], "int"), "initial `retValueIndex`"))

    # ---- trie::freeze(node, offset)
    z = body(tpp, r"int trie<TM>::freeze\(const trieNode &node, int offset\)", "trie::freeze(node, offset)")
    m = one(r"int leafOffset = (.*?);", z, "freeze leafOffset")
    ps = [("offset", "offset", "int"), ("leavesSize", "leavesSize", "int")]
    out.append(defn("freezeLeafOffset", ps, "int", tr(m.group(1), ps, "int"), "initial `leafOffset` (`leavesSize` = `node.leaves.size()`)"))

    out += ["end Occa.Gen.Trie", ""]
    h = write_if_changed(os.path.join(VERIF, "lean/OccaGen/TrieShape.lean"), "\n".join(out))
    return {"TrieShape": h}


if __name__ == "__main__":
    try:
        print(gen())
    except TranslateError as e:
        print("TRANSLATE-ERROR:", e)
        sys.exit(3)
