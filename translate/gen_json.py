#!/usr/bin/env python3
"""Regenerate lean/OccaGen/JsonConsts.lean from the CURRENT sources of
   src/types/json.cpp, include/occa/types/json.tpp, include/occa/types/primitive.hpp,
   src/types/primitive.cpp, src/occa/internal/utils/lex.cpp, src/occa/internal/utils/string.cpp and
   src/core/device.cpp.

   Tables: whitespace and key-end character sets, the escape switch of the dumper, the unescape switch
   of the loader, the bit position (= rank) of every primitive type, float/double print precision,
   the types printed with an `L` suffix.
   Shapes (booleans; the model of OccaModel/Json*.lean assumes all of them true): object keys go
   through the string escaper; typed primitive assignment clears `source`; json::set converts through
   asObject(); mergeWithObject tests the literal key; loadObject requires the closing brace;
   getPathValue honours the escape character.
   Layering: the path templates getModeSpecificProps / getObjectSpecificProps read and remove, in the
   order of the `+` chain.
   lean/OccaProofs/Lemmas/JsonGenTie.lean proves that the hand-written model agrees with every item."""
import os, re, sys
sys.path.insert(0, os.path.dirname(os.path.abspath(__file__)))
from cxx2lean import *

ESC = {"n": 10, "t": 9, "r": 13, "b": 8, "f": 12, "v": 11, "0": 0, "\\": 92, '"': 34, "'": 39}


def cchar(lit):
    """value of a C character/string-literal element such as  a  \\n  \\\\  \\" """
    if len(lit) == 1:
        return ord(lit)
    if lit[0] == "\\" and lit[1] in ESC and len(lit) == 2:
        return ESC[lit[1]]
    raise TranslateError("cannot read character literal %r" % lit)


def cstring(body):
    out, i = [], 0
    while i < len(body):
        if body[i] == "\\":
            out.append(cchar(body[i:i + 2])); i += 2
        else:
            out.append(ord(body[i])); i += 1
    return out


def rd(rel):
    p = os.path.join(REPO, rel)
    if not os.path.exists(p):
        raise TranslateError("%s not found" % rel)
    return open(p).read()


def fn_body(src, header_re, what):
    """text of the function body whose header matches; braces inside comments, string and character
    literals are not counted"""
    m = re.search(header_re, src)
    if not m:
        raise TranslateError("%s not found" % what)
    i = src.index("{", m.end() - 1)
    depth, j, n = 0, i, len(src)
    while j < n:
        c = src[j]
        if src.startswith("//", j):
            j = src.index("\n", j)
            continue
        if src.startswith("/*", j):
            j = src.index("*/", j) + 2
            continue
        if c == '"' or c == "'":
            k = j + 1
            while src[k] != c:
                k += 2 if src[k] == "\\" else 1
            j = k + 1
            continue
        if c == "{":
            depth += 1
        elif c == "}":
            depth -= 1
            if depth == 0:
                return src[i:j + 1]
        j += 1
    raise TranslateError("unbalanced braces in %s" % what)


def blist(xs):
    return "[" + ", ".join(str(x) for x in xs) + "]"


def gen():
    lex = rd("src/occa/internal/utils/lex.cpp")
    js = rd("src/types/json.cpp")
    tpp = rd("include/occa/types/json.tpp")
    php = rd("include/occa/types/primitive.hpp")
    pcp = rd("src/types/primitive.cpp")
    scp = rd("src/occa/internal/utils/string.cpp")
    dev = rd("src/core/device.cpp")

    m = re.search(r'whitespaceCharset\[\]\s*=\s*"((?:[^"\\]|\\.)*)"', lex)
    if not m:
        raise TranslateError("lex::whitespaceCharset not found")
    ws = cstring(m.group(1))
    m = re.search(r'objectKeyEndChars\[\]\s*=\s*"((?:[^"\\]|\\.)*)"', js)
    if not m:
        raise TranslateError("json::objectKeyEndChars not found")
    keyend = cstring(m.group(1))

    # dumper: case 'X': out += "\\Y";
    esc = []
    for mm in re.finditer(r"case\s+'((?:[^'\\]|\\.))'\s*:\s*out\s*\+=\s*\"\\\\((?:[^\"\\]|\\.))\"\s*;", js):
        esc.append((cchar(mm.group(1)), cchar(mm.group(2))))
    if len(esc) < 2 or len(set(c for c, _ in esc)) != len(esc):
        raise TranslateError("escape switch of json::dumpToString not recognised (%d cases)" % len(esc))
    # loader: case 'X': value_.string += 'Y';
    ls = fn_body(js, r"void\s+json::loadString\s*\(", "json::loadString")
    unesc = []
    for mm in re.finditer(r"case\s+'((?:[^'\\]|\\.))'\s*:\s*value_\.string\s*\+=\s*'((?:[^'\\]|\\.))'\s*;", ls):
        unesc.append((cchar(mm.group(1)), cchar(mm.group(2))))
    if not unesc:
        raise TranslateError("unescape switch of json::loadString not recognised")
    skips_nl = bool(re.search(r"case\s+'\\n'\s*:\s*\+\+c;\s*continue;", ls))
    keeps_u = bool(re.search(r"case\s+'u'\s*:", ls)) and 'value_.string += "\\\\u"' in ls

    dt = fn_body(js, r"void\s+json::dumpToString\s*\(", "json::dumpToString")
    ob = dt[dt.index("case object_"):]
    if re.search(r"dumpQuotedString\s*\(\s*out\s*,\s*key\s*\)", ob):
        keys_escaped = True
    elif re.search(r"out\s*\+=\s*key\s*;", ob):
        keys_escaped = False
    else:
        raise TranslateError("how json::dumpToString writes object keys is not recognised")
    none_member_braces = bool(re.search(r'value\.type\s*!=\s*none_.*?else\s*\{[^}]*out\s*\+=\s*"\{\}"', ob, re.S))

    lo = fn_body(js, r"void\s+json::loadObject\s*\(", "json::loadObject")
    tail = lo[lo.rindex("// Skip }"):] if "// Skip }" in lo else lo[-200:]
    closing_required = bool(re.search(r"OCCA_ERROR\([^;]*\*c\s*==\s*'\}'\s*\)", tail))

    mw = fn_body(js, r"void\s+json::mergeWithObject\s*\(", "json::mergeWithObject")
    if re.search(r"val\.isObject\(\)\s*&&\s*\(?\s*value_\.object\.find\(key\)\s*!=\s*value_\.object\.end\(\)", mw):
        merge_literal = True
    elif re.search(r"val\.isObject\(\)\s*&&\s*has\(key\)", mw):
        merge_literal = False
    else:
        raise TranslateError("presence test of json::mergeWithObject not recognised")

    gp = fn_body(js, r"json\s+json::getPathValue\s*\(", "json::getPathValue")
    if re.search(r"lex::skipTo\(c,\s*'/',\s*'\\\\'\)", gp):
        get_escape = True
    elif re.search(r"lex::skipTo\(c,\s*'/'\)", gp):
        get_escape = False
    else:
        raise TranslateError("path splitting of json::getPathValue not recognised")
    others_escape = all(re.search(r"lex::skipTo\(c,\s*'/',\s*'\\\\'\)", fn_body(js, h, h)) for h in
                        (r"bool\s+json::has\s*\(", r"json&\s+json::remove\s*\(", r"json&\s+json::operator\s*\[\]\s*\(const char \*c\)\s*\{"))

    st = fn_body(tpp, r"json&\s+json::set\s*\(const char \*key", "json::set")
    if re.search(r"asObject\(\)\s*;", st):
        set_clears = True
    elif re.search(r"type\s*=\s*object_\s*;", st):
        set_clears = False
    else:
        raise TranslateError("json::set not recognised")

    # typed assignment operators of primitive
    ops = re.findall(r"inline primitive& operator = \((?:const )?(?:bool|u?int\d+_t|float|double)\s+value_\)\s*\{(.*?)\}", php, re.S)
    if len(ops) != 11:
        raise TranslateError("expected 11 typed primitive::operator=, found %d" % len(ops))
    assign_clears = all("source.clear()" in b or 'source = ""' in b for b in ops)

    ranks = {}
    for mm in re.finditer(r"static const int (\w+)\s*=\s*\(1 << (\d+)\);", php):
        ranks[mm.group(1)] = int(mm.group(2))
    names = ["none", "bool_", "int8_", "uint8_", "int16_", "uint16_", "int32_", "uint32_", "int64_", "uint64_", "float_", "double_"]
    if any(n not in ranks for n in names):
        raise TranslateError("primitiveType bits not found: %s" % [n for n in names if n not in ranks])

    ts = fn_body(pcp, r"std::string\s+primitive::toString\s*\(", "primitive::toString")
    m = re.search(r"if\s*\(type\s*&\s*\(([^)]*)\)\)\s*\{\s*str\s*\+=\s*'L';", ts)
    if not m:
        raise TranslateError("L suffix of primitive::toString not recognised")
    ltypes = sorted(re.findall(r"primitiveType::(\w+)", m.group(1)))
    source_first = bool(re.search(r"if\s*\(source\.size\(\)\)\s*\{\s*return source;", ts))
    m1 = re.search(r"toString<float>\(const float &t\)\s*\{.*?setprecision\((\d+)\)\s*<<\s*t\s*<<\s*'f'", scp, re.S)
    m2 = re.search(r"toString<double>\(const double &t\)\s*\{.*?setprecision\((\d+)\)\s*<<\s*t\s*;", scp, re.S)
    if not m1 or not m2:
        raise TranslateError("toString<float>/<double> not recognised")

    # device.cpp: the `+` chains
    def chain(fn, what):
        b = fn_body(dev, fn, what)
        m = re.search(r"allProps\s*=\s*\((.*?)\)\s*;", b, re.S)
        if not m:
            raise TranslateError("%s: allProps = ( … ) not found" % what)
        terms = [t.strip() for t in m.group(1).split("\n") if t.strip()]
        terms = [re.sub(r"^\+\s*", "", t) for t in terms]
        rem = re.findall(r"allProps\.remove\((.*?)\)\s*;", b)
        return terms, rem

    def template(t):
        if t == "props":
            return []
        m = re.fullmatch(r"props\[(.*)\]", t)
        if not m:
            raise TranslateError("unrecognised term %r" % t)
        return template_path(m.group(1))

    def template_path(e):
        parts = [p.strip() for p in e.split("+")]
        s = ""
        for p in parts:
            if p == "object":
                s += "$O"
            elif p == "mode":
                s += "$M"
            elif re.fullmatch(r'"[^"]*"', p):
                s += p[1:-1]
            else:
                raise TranslateError("unrecognised path element %r" % p)
        return [x for x in s.split("/")]

    mterms, mrem = chain(r"occa::json\s+getModeSpecificProps\s*\(", "getModeSpecificProps")
    oterms, orem = chain(r"occa::json\s+getObjectSpecificProps\s*\(", "getObjectSpecificProps")
    mode_layers = [template(t) for t in mterms]
    obj_layers = [template(t) for t in oterms]
    mode_removes = [template_path(r) for r in mrem]
    obj_removes = [template_path(r) for r in orem]
    io = fn_body(dev, r"occa::json\s+initialObjectProps\s*\(", "initialObjectProps")
    settings_first = bool(re.search(r"getObjectSpecificProps\(mode, object, settings\(\)\)\s*\+\s*getObjectSpecificProps\(mode, object, props\)", io))
    sets_mode = bool(re.search(r'objectProps\["mode"\]\s*=\s*mode\s*;', io))

    def lpath(p):
        return "[" + ", ".join('"%s"' % x for x in p) + "]"

    out = ["-- GENERATED by translate/gen_json.py from the json / primitive / lex / device sources; do not edit.",
           "namespace Occa.Gen.Json", "",
           "def wsChars : List UInt8 := %s" % blist(ws),
           "def keyEndChars : List UInt8 := %s" % blist(keyend),
           "/-- (character, letter after the backslash) of the dumper's escape switch -/",
           "def escapes : List (UInt8 × UInt8) := [%s]" % ", ".join("(%d, %d)" % p for p in esc),
           "/-- (letter after the backslash, character) of the loader's switch -/",
           "def unescapes : List (UInt8 × UInt8) := [%s]" % ", ".join("(%d, %d)" % p for p in unesc),
           "def loaderSkipsEscapedNewline : Bool := %s" % str(skips_nl).lower(),
           "def loaderKeepsUnicodeEscapes : Bool := %s" % str(keeps_u).lower(),
           "def keysEscaped : Bool := %s" % str(keys_escaped).lower(),
           "def noneMemberDumpedAsBraces : Bool := %s" % str(none_member_braces).lower(),
           "def closingBraceRequired : Bool := %s" % str(closing_required).lower(),
           "def mergeTestsLiteralKey : Bool := %s" % str(merge_literal).lower(),
           "def getPathValueEscapes : Bool := %s" % str(get_escape).lower(),
           "def pathAccessorsEscape : Bool := %s" % str(others_escape).lower(),
           "def setConvertsThroughAsObject : Bool := %s" % str(set_clears).lower(),
           "def typedAssignClearsSource : Bool := %s" % str(assign_clears).lower(),
           "def toStringPrefersSource : Bool := %s" % str(source_first).lower(),
           "/-- bit positions of primitiveType: none bool int8 uint8 int16 uint16 int32 uint32 int64 uint64 float double -/",
           "def typeRanks : List Nat := %s" % blist([ranks[n] for n in names]),
           'def longSuffixTypes : List String := [%s]' % ", ".join('"%s"' % t for t in ltypes),
           "def floatPrecision : Nat := %s" % m1.group(1),
           "def doublePrecision : Nat := %s" % m2.group(1),
           "/-- paths ($O = object, $M = mode) summed by getModeSpecificProps / getObjectSpecificProps, in order; [] = props itself -/",
           "def modeLayers : List (List String) := [%s]" % ", ".join(lpath(p) for p in mode_layers),
           "def modeRemoves : List (List String) := [%s]" % ", ".join(lpath(p) for p in mode_removes),
           "def objectLayers : List (List String) := [%s]" % ", ".join(lpath(p) for p in obj_layers),
           "def objectRemoves : List (List String) := [%s]" % ", ".join(lpath(p) for p in obj_removes),
           "def initialSettingsBelowUser : Bool := %s" % str(settings_first).lower(),
           "def initialSetsMode : Bool := %s" % str(sets_mode).lower(),
           "", "end Occa.Gen.Json", ""]
    h = write_if_changed(os.path.join(VERIF, "lean/OccaGen/JsonConsts.lean"), "\n".join(out))
    return {"JsonConsts": h}


if __name__ == "__main__":
    try:
        print(gen())
    except TranslateError as e:
        print("TRANSLATE-ERROR:", e)
        sys.exit(3)
