"""clang-14 JSON AST  ->  Lean 4 definitions, for straight-line integer code.

Only the constructs listed in `expr`/`stmts` are accepted; anything else raises
TranslateError, which the caller reports as a *broken tie* (never silently skipped).

Integer model: every C++ integer value is a Lean `Int` holding the mathematical value
of the two's-complement object.  Every arithmetic node is wrapped to its C++ result
type (`wrapS n` / `wrapU n`, defined in OccaModel/CInt.lean), so the Lean value is the
value the LP64 machine computes (signed overflow wraps, which is what g++ emits; that
signed overflow is *undefined* in C++ is tracked separately where a property is about it).
`bool`-typed nodes become Lean `Bool`.
"""
import json, os, subprocess, hashlib, re

REPO = os.environ.get("VERIF_REPO", "/repo")
HERE = os.path.dirname(os.path.abspath(__file__))
VERIF = os.path.dirname(HERE)
BUILD = os.environ.get("VERIF_BUILD", os.path.join(VERIF, ".build"))


class TranslateError(Exception):
    pass


INT_TYPES = {
    # qualType (after stripping const/volatile) -> (signed, bits)
    "char": (True, 8), "signed char": (True, 8), "unsigned char": (False, 8),
    "short": (True, 16), "unsigned short": (False, 16),
    "int": (True, 32), "unsigned int": (False, 32), "unsigned": (False, 32),
    "long": (True, 64), "unsigned long": (False, 64),
    "long long": (True, 64), "unsigned long long": (False, 64),
    "int8_t": (True, 8), "uint8_t": (False, 8), "int16_t": (True, 16), "uint16_t": (False, 16),
    "int32_t": (True, 32), "uint32_t": (False, 32), "int64_t": (True, 64), "uint64_t": (False, 64),
    "occa::dim_t": (True, 64), "occa::udim_t": (False, 64), "dim_t": (True, 64), "udim_t": (False, 64),
    "size_t": (False, 64), "std::size_t": (False, 64), "intmax_t": (True, 64), "uintmax_t": (False, 64),
}


def strip_q(t):
    t = re.sub(r"\b(const|volatile)\b", "", t).strip()
    return re.sub(r"\s+", " ", t)


def ity(node):
    t = node.get("type", {})
    q = strip_q(t.get("desugaredQualType", t.get("qualType", "")))
    if q == "bool":
        return "bool"
    if q in INT_TYPES:
        return INT_TYPES[q]
    q2 = strip_q(t.get("qualType", ""))
    if q2 in INT_TYPES:
        return INT_TYPES[q2]
    raise TranslateError("unsupported type %r" % t)


def wrap(tyinfo, s):
    if tyinfo == "bool":
        return s
    signed, bits = tyinfo
    return "(%s %d %s)" % ("wrapS" if signed else "wrapU", bits, s)


def clang_ast(source_rel_or_abs, filt, extra_args=()):
    """Return the list of top-level AST nodes matching -ast-dump-filter=filt."""
    src = source_rel_or_abs if os.path.isabs(source_rel_or_abs) else os.path.join(REPO, source_rel_or_abs)
    inc = ["-I%s/include" % REPO, "-I%s/src" % REPO]
    for cand in (os.path.join(BUILD, "asan", "include"), os.path.join(REPO, "_build", "include")):
        if os.path.isdir(cand):
            inc.append("-I" + cand)
            break
    cmd = ["clang++-14", "-std=gnu++17", "-fsyntax-only", "-w", "-Xclang", "-ast-dump=json",
           "-Xclang", "-ast-dump-filter=" + filt] + inc + list(extra_args) + [src]
    p = subprocess.run(cmd, capture_output=True, text=True)
    txt = p.stdout
    if not txt.strip():
        raise TranslateError("clang produced no AST for filter %s on %s: %s" % (filt, src, p.stderr[-400:]))
    dec = json.JSONDecoder()
    i, docs = 0, []
    while i < len(txt):
        while i < len(txt) and txt[i].isspace():
            i += 1
        if i >= len(txt):
            break
        o, j = dec.raw_decode(txt, i)
        docs.append(o)
        i = j
    return docs


def find_all(node, pred, out=None):
    if out is None:
        out = []
    if isinstance(node, dict):
        if pred(node):
            out.append(node)
        for c in node.get("inner", []) or []:
            find_all(c, pred, out)
    return out


ARITH = {"+": "+", "-": "-", "*": "*"}
BITOP = {"&": "cand", "|": "cor", "^": "cxor"}
CMP = {"<": "<", "<=": "≤", ">": ">", ">=": "≥", "==": "==", "!=": "!="}


class Ctx:
    def __init__(self, subscripts_as_vars=False):
        self.subs = subscripts_as_vars
        self.free = []      # free variables met (order of first use)

    def var(self, name):
        if name not in self.free:
            self.free.append(name)
        return name


def expr(n, cx):
    k = n.get("kind")
    inner = [c for c in n.get("inner", []) or [] if c]
    if k in ("ParenExpr", "ConstantExpr", "ExprWithCleanups", "MaterializeTemporaryExpr"):
        return expr(inner[0], cx)
    if k == "IntegerLiteral":
        return "(%s : Int)" % n["value"]
    if k == "CharacterLiteral":
        return "(%d : Int)" % int(n["value"])
    if k == "CXXBoolLiteralExpr":
        return "true" if n["value"] else "false"
    if k == "DeclRefExpr":
        return cx.var(n["referencedDecl"]["name"])
    if k == "ArraySubscriptExpr" and cx.subs:
        base = find_all(inner[0], lambda x: x.get("kind") == "DeclRefExpr")
        if not base:
            raise TranslateError("subscript without named base")
        return cx.var(base[0]["referencedDecl"]["name"])
    if k in ("ImplicitCastExpr", "CStyleCastExpr", "CXXStaticCastExpr", "CXXFunctionalCastExpr"):
        ck = n.get("castKind")
        sub = expr(inner[0], cx)
        if ck in ("LValueToRValue", "NoOp"):
            return sub
        if ck == "IntegralCast":
            src = ity(inner[0])
            if src == "bool":
                sub = "(if %s then (1:Int) else 0)" % sub
            return wrap(ity(n), sub)
        if ck == "IntegralToBoolean":
            return "(%s != 0)" % sub
        raise TranslateError("unsupported cast %s" % ck)
    if k == "UnaryOperator":
        op = n["opcode"]
        sub = expr(inner[0], cx)
        if op == "-":
            return wrap(ity(n), "(- %s)" % sub)
        if op == "+":
            return sub
        if op == "!":
            return "(!%s)" % sub
        if op == "~":
            return wrap(ity(n), "(- %s - 1)" % sub)
        raise TranslateError("unsupported unary %s" % op)
    if k == "BinaryOperator":
        op = n["opcode"]
        a, b = expr(inner[0], cx), expr(inner[1], cx)
        if op in ARITH:
            return wrap(ity(n), "(%s %s %s)" % (a, ARITH[op], b))
        if op in BITOP:
            return wrap(ity(n), "(%s %s %s)" % (BITOP[op], a, b))
        if op == "/":
            return wrap(ity(n), "(Int.tdiv %s %s)" % (a, b))
        if op == "%":
            return wrap(ity(n), "(Int.tmod %s %s)" % (a, b))
        if op == "<<":
            return wrap(ity(n), "(%s * 2 ^ (Int.toNat %s))" % (a, b))
        if op == ">>":
            return wrap(ity(n), "(%s / 2 ^ (Int.toNat %s))" % (a, b))   # Int./ floors = arithmetic shift
        if op in CMP:
            if op in ("==", "!="):
                return "(%s %s %s)" % (a, CMP[op], b)
            return "(decide (%s %s %s))" % (a, CMP[op], b)
        if op == "&&":
            return "(%s && %s)" % (a, b)
        if op == "||":
            return "(%s || %s)" % (a, b)
        raise TranslateError("unsupported binary %s" % op)
    if k == "ConditionalOperator":
        c, a, b = (expr(x, cx) for x in inner)
        return "(if %s then %s else %s)" % (c, a, b)
    raise TranslateError("unsupported expression kind %s" % k)


def stmts(lst, cx):
    """Translate a statement list that returns on every path into one Lean term."""
    if not lst:
        raise TranslateError("control reaches end without return")
    s, rest = lst[0], lst[1:]
    k = s.get("kind")
    inner = [c for c in s.get("inner", []) or [] if c]
    if k == "CompoundStmt":
        return stmts(inner + rest, cx)
    if k == "ReturnStmt":
        return expr(inner[0], cx)
    if k == "NullStmt":
        return stmts(rest, cx)
    if k == "DeclStmt":
        out = ""
        for d in inner:
            if d.get("kind") != "VarDecl" or not d.get("inner"):
                raise TranslateError("unsupported declaration")
            out += "let %s : Int := %s\n  " % (d["name"], expr(d["inner"][0], cx))
        return out + stmts(rest, cx)
    if k == "IfStmt":
        if s.get("hasInit") or s.get("hasVar"):
            raise TranslateError("if with init")
        cond = expr(inner[0], cx)
        then_ = inner[1]
        else_ = inner[2] if len(inner) > 2 else None
        # each branch continues with `rest` unless it returns; duplicating `rest` keeps this simple
        t = stmts([then_] + rest, cx)
        e = stmts(([else_] if else_ else []) + rest, cx)
        return "(if %s then\n  %s\n else\n  %s)" % (cond, t, e)
    raise TranslateError("unsupported statement kind %s" % k)


def function_to_lean(fn, lean_name):
    """fn: a FunctionDecl node with integer parameters and an integer/bool result."""
    params = [c for c in fn.get("inner", []) if c.get("kind") == "ParmVarDecl"]
    body = [c for c in fn.get("inner", []) if c.get("kind") == "CompoundStmt"]
    if not body:
        raise TranslateError("function %s has no body" % lean_name)
    for p in params:
        ity(p)
    cx = Ctx()
    term = stmts(body[0].get("inner", []) or [], cx)
    rq = strip_q(fn["type"]["qualType"].split("(")[0])
    rty = "Bool" if rq == "bool" else "Int"
    if rq != "bool" and rq not in INT_TYPES:
        raise TranslateError("unsupported return type %s" % rq)
    sig = " ".join("(%s : Int)" % p["name"] for p in params)
    return "def %s %s : %s :=\n  %s\n" % (lean_name, sig, rty, term)


def write_if_changed(path, text):
    old = None
    if os.path.exists(path):
        old = open(path).read()
    if old != text:
        os.makedirs(os.path.dirname(path), exist_ok=True)
        with open(path, "w") as f:
            f.write(text)
    return hashlib.sha256(text.encode()).hexdigest()[:16]
