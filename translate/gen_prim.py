#!/usr/bin/env python3
"""Regenerate lean/OccaGen/PrimTypes.lean from
     include/occa/types/primitive.hpp      bit position (= rank) of every primitiveType
     src/types/primitive.cpp               per-operator dispatch rows (`case T: a.to<T>() OP b.to<T>()`,
                                           raise, raw-union compare), the retType rule of every binary
                                           operator, the integer-literal typing branches of primitive::load
     src/occa/internal/lang/operator.cpp   operator spelling -> operator object -> primitive:: function
     src/occa/internal/lang/expr/binaryOpNode.cpp   whether evaluate() short-circuits && and ||

   Everything is extracted with regular expressions over a fixed source shape; any row that does
   not match one of the known shapes raises TranslateError (a broken tie, never skipped).
"""
import os, re, sys
sys.path.insert(0, os.path.dirname(os.path.abspath(__file__)))
from cxx2lean import REPO, VERIF, TranslateError, write_if_changed

CTY = {"bool": "bool", "int8_t": "schar", "uint8_t": "uchar", "int16_t": "short", "uint16_t": "ushort",
       "int32_t": "int", "uint32_t": "uint", "int64_t": "long", "uint64_t": "ulong", "float": "float", "double": "double"}
PTY = {"bool_": "bool", "int8_": "schar", "uint8_": "uchar", "int16_": "short", "uint16_": "ushort",
       "int32_": "int", "uint32_": "uint", "int64_": "long", "uint64_": "ulong", "float_": "float", "double_": "double"}
TYS = ["bool", "schar", "uchar", "short", "ushort", "int", "uint", "long", "ulong", "float", "double"]

UN = {"!": "lnot", "+": "plus", "-": "neg", "~": "bnot"}
BIN = {"*": "mul", "/": "div", "%": "mod", "+": "add", "-": "sub", "<<": "shl", ">>": "shr",
       "<": "lt", "<=": "le", ">": "gt", ">=": "ge", "==": "eq", "!=": "ne",
       "&": "band", "^": "bxor", "|": "bor", "&&": "land", "||": "lor"}


def read(rel):
    p = os.path.join(REPO, rel)
    if not os.path.exists(p):
        raise TranslateError("missing source file " + rel)
    return open(p).read()


def fn_body(src, name, nargs):
    args = r"const primitive &p" if nargs == 1 else r"const primitive &a,\s*const primitive &b"
    m = re.search(r"\n  primitive primitive::%s\(%s\) \{\n(.*?)\n  \}\n" % (re.escape(name), args), src, re.S)
    if not m:
        raise TranslateError("primitive::%s not found in primitive.cpp" % name)
    return m.group(1)


def case_rows(body, fname):
    rows = {}
    for m in re.finditer(r"^\s*case primitiveType::(\w+)\s*:\s*(.*?)\s*$", body, re.M):
        lab, stmt = m.group(1), m.group(2)
        if lab not in PTY:
            if lab == "none":
                continue
            raise TranslateError("%s: unknown case label %s" % (fname, lab))
        if PTY[lab] in rows:
            raise TranslateError("%s: duplicate case %s" % (fname, lab))
        rows[PTY[lab]] = (lab, stmt)
    return rows


def gen_rank(hdr):
    ranks = {}
    for m in re.finditer(r"static const int (\w+)\s*=\s*\(1 << (\d+)\);", hdr):
        ranks[m.group(1)] = int(m.group(2))
    for k in list(PTY) + ["none", "ptr"]:
        if k not in ranks:
            raise TranslateError("primitiveType::%s not found in primitive.hpp" % k)
    if len(set(ranks.values())) != len(ranks):
        raise TranslateError("primitiveType bit positions are not distinct")
    return ranks


def gen_unary(src, ops_src):
    out = {}
    for sym, lean in UN.items():
        fname = un_fn(ops_src, sym)
        rows = case_rows(fn_body(src, fname, 1), fname)
        res = {}
        for t in TYS:
            if t not in rows:
                res[t] = ".missing"
                continue
            lab, stmt = rows[t]
            m = re.fullmatch(r"return primitive\(([!+\-~])p\.value\.(\w+)\);", stmt)
            if m:
                if m.group(2) != lab:
                    raise TranslateError("%s: case %s reads value.%s" % (fname, lab, m.group(2)))
                res[t] = "(.native .%s)" % UN[m.group(1)]
            elif re.fullmatch(r"OCCA_FORCE_ERROR\(.*\);\s*break;", stmt):
                res[t] = ".error"
            else:
                raise TranslateError("%s: unrecognised row for %s: %s" % (fname, lab, stmt))
        out[lean] = res
    return out


def un_fn(ops_src, sym):
    m = re.search(r"const unaryOperator_t (\w+)\s*\(\"%s\"\s*,\s*operatorType::(\w+)\s*,\s*3\);" % re.escape(sym), ops_src)
    if not m or m.group(1) != m.group(2):
        raise TranslateError("left unary operator %s not found in operator.cpp" % sym)
    name = m.group(1)
    d = re.search(r"case rawOperatorType::%s\s*:\s*return primitive::(\w+)\(value\);" % re.escape(name), ops_src)
    if not d:
        raise TranslateError("unaryOperator_t::operator() has no case for %s" % name)
    return d.group(1)


def bin_fn(ops_src, sym):
    m = re.search(r"const binaryOperator_t (\w+)\s*\(\"%s\"\s*,\s*operatorType::(\w+)\s*,\s*\d+\);" % re.escape(sym), ops_src)
    if not m or m.group(1) != m.group(2):
        raise TranslateError("binary operator %s not found in operator.cpp" % sym)
    name = m.group(1)
    d = re.search(r"case rawOperatorType::%s\s*:\s*return primitive::(\w+)\(leftValue, rightValue\);" % re.escape(name), ops_src)
    if not d:
        raise TranslateError("binaryOperator_t::operator() has no case for %s" % name)
    return d.group(1)


def gen_binary(src, ops_src):
    rows_out, ret_out, guard_out = {}, {}, {}
    for sym, lean in BIN.items():
        fname = bin_fn(ops_src, sym)
        body = fn_body(src, fname, 2)
        if re.search(r"const int retType = \(a\.type > b\.type\) \? a\.type : b\.type;", body):
            ret_out[lean] = ".maxType"
        elif re.search(r"const int retType = b\.isFloat\(\) \? b\.type : a\.type;", body):
            ret_out[lean] = ".leftUnlessRightFloat"
        else:
            raise TranslateError("%s: unrecognised retType rule" % fname)
        if not re.search(r"switch\s*\(retType\)", body):
            raise TranslateError("%s: does not switch on retType" % fname)
        pre = re.sub(r"//[^\n]*", "", body.split("switch")[0])
        pre = re.sub(r"const int retType = [^;]*;", "", pre).strip()
        if pre == "":
            guard_out[lean] = False
        elif re.fullmatch(r'checkIntegerDivision\(a, b, retType, "%s"\);' % re.escape(sym), pre) and lean in ("div", "mod"):
            guard_out[lean] = True
        else:
            raise TranslateError("%s: unrecognised statements before the switch: %s" % (fname, pre[:120]))
        rows = case_rows(body, fname)
        res = {}
        for t in TYS:
            if t not in rows:
                res[t] = ".missing"
                continue
            lab, stmt = rows[t]
            m = re.fullmatch(r"return primitive\(a\.to<(\w+)>\(\)\s*(\S+)\s*b\.to<(\w+)>\(\)\);", stmt)
            m2 = re.fullmatch(r"return primitive\((!?)areBitwiseEqual\(a\.value\.(\w+), b\.value\.(\w+)\)\);", stmt)
            if m:
                if m.group(1) not in CTY or m.group(3) not in CTY or m.group(2) not in BIN:
                    raise TranslateError("%s: unrecognised row for %s: %s" % (fname, lab, stmt))
                res[t] = "(.compute .%s .%s .%s)" % (BIN[m.group(2)], CTY[m.group(1)], CTY[m.group(3)])
            elif m2:
                res[t] = "(.rawBits %s)" % ("true" if m2.group(1) else "false")
            elif re.fullmatch(r"OCCA_FORCE_ERROR\(.*\);\s*break;", stmt):
                res[t] = ".error"
            else:
                raise TranslateError("%s: unrecognised row for %s: %s" % (fname, lab, stmt))
        rows_out[lean] = res
    return rows_out, ret_out, guard_out


# ---------------------------------------------------------------- integerLiteral (literal typing)

class P:
    """tiny recursive-descent translator for the body of `static primitive integerLiteral(...)`"""
    CONST = {"INT32_MAX": 2**31 - 1, "UINT32_MAX": 2**32 - 1, "INT64_MAX": 2**63 - 1, "UINT64_MAX": 2**64 - 1}
    BOOLS = ("isDecimal", "unsigned_")
    NATS = ("value", "longs")

    def __init__(self, text):
        self.t = re.findall(r"[A-Za-z_]\w*|\d+|<=|>=|==|!=|&&|\|\||[(){};!<>]", text)
        junk = re.sub(r"[A-Za-z_]\w*|\d+|<=|>=|==|!=|&&|\|\||[(){};!<>]|\s+", "", text)
        if junk:
            raise TranslateError("integerLiteral: unexpected characters %r" % junk)
        self.i = 0

    def peek(self):
        return self.t[self.i] if self.i < len(self.t) else None

    def eat(self, x=None):
        tok = self.peek()
        if tok is None or (x is not None and tok != x):
            raise TranslateError("integerLiteral: expected %s, found %s" % (x, tok))
        self.i += 1
        return tok

    def block(self):
        """statement list up to '}' or end -> list of ('ret', ty) | ('if', cond, block)"""
        out = []
        while self.peek() not in (None, "}"):
            if self.peek() == "return":
                self.eat("return"); self.eat("primitive"); self.eat("("); self.eat("(")
                ty = self.eat()
                if ty not in CTY:
                    raise TranslateError("integerLiteral: unknown cast type " + ty)
                self.eat(")"); self.eat("value"); self.eat(")"); self.eat(";")
                out.append(("ret", CTY[ty]))
                if self.peek() not in (None, "}"):
                    raise TranslateError("integerLiteral: statements after return")
            elif self.peek() == "if":
                self.eat("if"); self.eat("(")
                c = self.orx()
                self.eat(")"); self.eat("{")
                th = self.block()
                self.eat("}")
                if self.peek() == "else":
                    raise TranslateError("integerLiteral: else branch not supported")
                out.append(("if", c, th))
            else:
                raise TranslateError("integerLiteral: unsupported statement at %s" % self.peek())
        return out

    def lean(self, blk, k):
        """Lean term for a statement list followed by continuation term k (None: falls off the end)"""
        if not blk:
            return k
        s, rest = blk[0], blk[1:]
        if s[0] == "ret":
            return "(.%s, wrapTo .%s (Int.ofNat value))" % (s[1], s[1])
        after = self.lean(rest, k)
        th = self.lean(s[2], after)
        if th is None or after is None:
            raise TranslateError("integerLiteral: control reaches the end without return")
        return "(if %s then %s else %s)" % (s[1], th, after)

    def stmts(self):
        return self.lean(self.block(), None)

    def orx(self):
        a = self.andx()
        while self.peek() == "||":
            self.eat()
            a = "(%s || %s)" % (a, self.andx())
        return a

    def andx(self):
        a = self.cmp()
        while self.peek() == "&&":
            self.eat()
            a = "(%s && %s)" % (a, self.cmp())
        return a

    def cmp(self):
        if self.peek() == "!":
            self.eat()
            return "(!%s)" % self.cmp()
        if self.peek() == "(":
            # parenthesised condition or a cast in front of an atom
            save = self.i
            self.eat("(")
            if self.peek() in CTY and self.t[self.i + 1] == ")":
                self.i = save
            else:
                c = self.orx()
                self.eat(")")
                return c
        a = self.atom()
        if self.peek() in ("<=", "==", "<", ">=", ">", "!="):
            op = self.eat()
            b = self.atom()
            if a[1] != "nat" or b[1] != "nat":
                raise TranslateError("integerLiteral: comparison of non-integers")
            leanop = {"<=": "≤", "==": "=", "<": "<", ">=": "≥", ">": ">", "!=": "≠"}[op]
            return "decide (%s %s %s)" % (a[0], leanop, b[0])
        if a[1] != "bool":
            raise TranslateError("integerLiteral: integer used as a condition")
        return a[0]

    def atom(self):
        if self.peek() == "(":
            self.eat("(")
            ty = self.eat()
            if ty != "uint64_t":
                raise TranslateError("integerLiteral: only (uint64_t) casts of constants are supported, found " + ty)
            self.eat(")")
            return self.atom()
        tok = self.eat()
        if tok in self.CONST:
            return (str(self.CONST[tok]), "nat")
        if tok.isdigit():
            return (tok, "nat")
        if tok in self.NATS:
            return (tok, "nat")
        if tok in self.BOOLS:
            return (tok, "bool")
        raise TranslateError("integerLiteral: unknown identifier " + tok)


def gen_literal(src):
    m = re.search(r"static primitive integerLiteral\(const uint64_t value,\s*const bool isDecimal,\s*"
                  r"const bool unsigned_,\s*const int longs\) \{\n(.*?)\n  \}\n", src, re.S)
    if m:
        body = re.sub(r"//[^\n]*", "", m.group(1))
        p = P(body)
        term = p.stmts()
        if term is None or p.peek() is not None:
            raise TranslateError("integerLiteral: could not translate the whole body")
        # the callers in primitive::load
        load = re.search(r"primitive primitive::load\(const char \*&c,.*?\n  \}\n", src, re.S).group(0)
        if len(re.findall(r"p = integerLiteral\(", load)) != 2:
            raise TranslateError("primitive::load does not call integerLiteral for both literal paths")
        if not re.search(r"p = integerLiteral\(p\.to<uint64_t>\(\), false, unsigned_, longs\);", load) or \
           not re.search(r"p = integerLiteral\(value_, isDecimal, unsigned_, longs\);", load):
            raise TranslateError("primitive::load calls integerLiteral with unexpected arguments")
        return term, "true"
    # the shape before the literal-typing repair: type from the suffix only, value truncated
    load = re.search(r"primitive primitive::load\(const char \*&c,.*?\n  \}\n", src, re.S)
    if not load:
        raise TranslateError("primitive::load not found")
    l = load.group(0)
    legacy = [r"if \(longs == 0\) \{\s*if \(unsigned_\) \{\s*p = p\.to<uint32_t>\(\);\s*\} else \{\s*p = p\.to<int32_t>\(\);",
              r"else if \(longs >= 1\) \{\s*if \(unsigned_\) \{\s*p = p\.to<uint64_t>\(\);\s*\} else \{\s*p = p\.to<int64_t>\(\);",
              r"p = \(uint32_t\) value_;", r"p = \(int32_t\) value_;", r"p = \(uint64_t\) value_;", r"p = \(int64_t\) value_;"]
    for pat in legacy:
        if not re.search(pat, l):
            raise TranslateError("primitive::load: neither integerLiteral() nor the suffix-only typing code found")
    term = ("(if longs == 0 then (if unsigned_ then (.uint, wrapTo .uint (Int.ofNat value)) else (.int, wrapTo .int (Int.ofNat value)))\n"
            "   else (if unsigned_ then (.ulong, wrapTo .ulong (Int.ofNat value)) else (.long, wrapTo .long (Int.ofNat value))))")
    return term, "false"


DIV_GUARD = ("static void checkIntegerDivision(const primitive &a, const primitive &b, const int retType, const char *opName) { "
             "if ((retType == primitiveType::float_) || (retType == primitiveType::double_)) { return; } "
             "if (b.to<uint64_t>() == 0) { OCCA_FORCE_ERROR(\"Division by zero in operator \" << opName); } "
             "const bool overflows = ( ((retType == primitiveType::int32_) && (a.to<int32_t>() == std::numeric_limits<int32_t>::min()) "
             "&& (b.to<int32_t>() == -1)) || ((retType == primitiveType::int64_) && (a.to<int64_t>() == std::numeric_limits<int64_t>::min()) "
             "&& (b.to<int64_t>() == -1)) ); if (overflows) { OCCA_FORCE_ERROR(\"Integer overflow in operator \" << opName); } }")


def gen_divguard(src, guards):
    """primitive::div / mod may call checkIntegerDivision(a, b, retType, op) before the switch: zero divisors and
    INT_MIN / -1 raise instead of trapping.  Both or neither; the helper must have exactly the known body."""
    if guards["div"] != guards["mod"]:
        raise TranslateError("primitive::div and primitive::mod disagree on checkIntegerDivision")
    if any(v for k, v in guards.items() if k not in ("div", "mod")):
        raise TranslateError("checkIntegerDivision called outside div/mod")
    if not guards["div"]:
        return "false"
    m = re.search(r"\n  static void checkIntegerDivision\(.*?\n  \}\n", src, re.S)
    if not m:
        raise TranslateError("checkIntegerDivision is called but not defined")
    norm = re.sub(r"\s+", " ", re.sub(r"//[^\n]*", "", m.group(0))).strip()
    if norm != DIV_GUARD:
        raise TranslateError("checkIntegerDivision has an unrecognised body: " + norm[:300])
    return "true"


def gen_shortcircuit(src):
    m = re.search(r"primitive binaryOpNode::evaluate\(\) const \{\n(.*?)\n    \}\n", src, re.S)
    if not m:
        raise TranslateError("binaryOpNode::evaluate not found")
    body = re.sub(r"//[^\n]*", "", m.group(1))
    norm = re.sub(r"\s+", " ", body).strip()
    eager = ("primitive pLeft = leftValue->evaluate(); primitive pRight = rightValue->evaluate(); "
             "return ((binaryOperator_t&) op)(pLeft, pRight);")
    lazy = ("primitive pLeft = leftValue->evaluate(); "
            "if (op.opType & (operatorType::and_ | operatorType::or_)) { "
            "const bool leftHasValue = !(pLeft.isNaN() || pLeft.isPointer()); "
            "if (leftHasValue) { const bool leftIsTrue = pLeft.to<bool>(); "
            "if ((op.opType & operatorType::and_) && !leftIsTrue) { return primitive(false); } "
            "if ((op.opType & operatorType::or_) && leftIsTrue) { return primitive(true); } } } "
            "primitive pRight = rightValue->evaluate(); return ((binaryOperator_t&) op)(pLeft, pRight);")
    if norm == eager:
        return "false"
    if norm == lazy:
        return "true"
    raise TranslateError("binaryOpNode::evaluate has an unrecognised body: " + norm[:200])


def gen_ternary(src):
    m = re.search(r"primitive ternaryOpNode::evaluate\(\) const \{\n(.*?)\n    \}\n", src, re.S)
    if not m:
        raise TranslateError("ternaryOpNode::evaluate not found")
    norm = re.sub(r"\s+", " ", m.group(1)).strip()
    want = "if ((bool) checkValue->evaluate()) { return trueValue->evaluate(); } return falseValue->evaluate();"
    if norm != want:
        raise TranslateError("ternaryOpNode::evaluate has an unrecognised body: " + norm[:200])


# ---------------------------------------------------------------- hand-modelled functions: shape checks and pins

def norm_src(t):
    t = re.sub(r"//[^\n]*", "", t)
    t = re.sub(r"/\*.*?\*/", "", t, flags=re.S)
    return re.sub(r"\s+", " ", t).strip()


# sha256[:16] of the comment- and whitespace-normalised text of the functions that OccaModel/Prim.lean
# transcribes BY HAND (scanning loops of primitive::load etc.).  A behavioural edit of one of them must be
# followed by a re-inspection of the model; until the pin is updated the tie is reported broken.
PINS = {
    "primitive::load": ("src/types/primitive.cpp",
                        r"\n  primitive primitive::load\(const char \*&c,\s*const bool includeSign\) \{\n.*?\n  \}\n",
                        ("f6dde81d051e8f7a", "6f887dfde2411322")),   # 2nd: after 106f420 (float branch converts digits, then applies the sign)
    "primitive::loadBinary": ("src/types/primitive.cpp",
                              r"\n  primitive primitive::loadBinary\(const char \*&c, const bool isNegative\) \{\n.*?\n  \}\n",
                              ("d9b30e9a24da89a7",)),
    "primitive::loadHex": ("src/types/primitive.cpp",
                           r"\n  primitive primitive::loadHex\(const char \*&c, const bool isNegative\) \{\n.*?\n  \}\n",
                           ("eadca0b80af7da6f",)),
    "occa::parseBinary": ("src/occa/internal/utils/string.cpp",
                          r"\n  udim_t parseBinary\(const char\*c\) \{\n.*?\n  \}\n", ("779e4bce898384ed",)),
}
BODIES = {
    ("src/occa/internal/lang/expr/leftUnaryOpNode.cpp", "leftUnaryOpNode"):
        "primitive pValue = value->evaluate(); return ((unaryOperator_t&) op)(pValue);",
    ("src/occa/internal/lang/expr/parenthesesNode.cpp", "parenthesesNode"): "return value->evaluate();",
    ("src/occa/internal/lang/expr/primitiveNode.cpp", "primitiveNode"): "return value;",
}


def check_pins(literal_by_value):
    import hashlib
    out = {}
    for name, (rel, pat, pins) in PINS.items():
        m = re.search(pat, read(rel), re.S)
        if not m:
            raise TranslateError("%s not found in %s" % (name, rel))
        h = hashlib.sha256(norm_src(m.group(0)).encode()).hexdigest()[:16]
        out[name] = h
        if name == "primitive::load" and literal_by_value == "false":
            continue          # the tree before the literal-typing repair: the generated flag already says so
        if h not in pins:
            raise TranslateError("%s changed (normalised text hash %s, expected one of %s): OccaModel/Prim.lean transcribes "
                                 "it by hand and must be re-validated, then the pin in translate/gen_prim.py updated"
                                 % (name, h, ", ".join(pins)))
    for (rel, cls), want in BODIES.items():
        m = re.search(r"primitive %s::evaluate\(\) const \{\n(.*?)\n    \}\n" % cls, read(rel), re.S)
        if not m or norm_src(m.group(1)) != want:
            raise TranslateError("%s::evaluate has an unrecognised body" % cls)
    # primitive::to<T>(): every row converts the union member named like its case label
    hdr = read("include/occa/types/primitive.hpp")
    m = re.search(r"template <class T>\s*inline T to\(\) const \{\n(.*?)\n    \}\n", hdr, re.S)
    if not m:
        raise TranslateError("primitive::to<T>() not found")
    body = re.sub(r"#pragma[^\n]*", "", m.group(1))
    rows = re.findall(r"case primitiveType::(\w+)\s*:\s*return \(T\) value\.(\w+);", body)
    if sorted(a for a, _ in rows) != sorted(PTY) or any(a != b for a, b in rows):
        raise TranslateError("primitive::to<T>(): rows are not `case X: return (T) value.X` for the eleven arithmetic types")
    if not re.search(r'default: OCCA_FORCE_ERROR\("Type not set"\);', body):
        raise TranslateError("primitive::to<T>(): default case does not raise")
    return out


def table(name, keyty, keys, valty, rows, default):
    out = ["def %s : %s → Ty → %s" % (name, keyty, valty)]
    for k in keys:
        for t in TYS:
            out.append("  | .%s, .%s => %s" % (k, t, rows[k][t]))
    return "\n".join(out)


def gen():
    hdr = read("include/occa/types/primitive.hpp")
    src = read("src/types/primitive.cpp")
    ops = read("src/occa/internal/lang/operator.cpp")
    ranks = gen_rank(hdr)
    un = gen_unary(src, ops)
    rows, ret, guards = gen_binary(src, ops)
    div_guard = gen_divguard(src, guards)
    lit, byvalue = gen_literal(src)
    sc = gen_shortcircuit(read("src/occa/internal/lang/expr/binaryOpNode.cpp"))
    gen_ternary(read("src/occa/internal/lang/expr/ternaryOpNode.cpp"))
    pins = check_pins(byvalue)
    inv = {v: k for k, v in PTY.items()}
    out = ["-- GENERATED by translate/gen_prim.py from include/occa/types/primitive.hpp, src/types/primitive.cpp,",
           "-- src/occa/internal/lang/operator.cpp, src/occa/internal/lang/expr/binaryOpNode.cpp; do not edit.",
           "import OccaModel.CxxSem", "namespace Occa.Gen", "open Occa Occa.CExpr Occa.CxxSem", "",
           "/-- how a row of a `switch(p.type)` in a unary primitive:: function computes its result -/",
           "inductive URow",
           "  | native (sym : UnOp)     -- `return primitive(<sym> p.value.<field of the case label>)`",
           "  | error                   -- OCCA_FORCE_ERROR",
           "  | missing                 -- no case: falls to `return primitive()`",
           "  deriving DecidableEq, Repr", "",
           "/-- how a row of a `switch(retType)` in a binary primitive:: function computes its result -/",
           "inductive BRow",
           "  | compute (sym : BinOp) (lt rt : Ty)   -- `return primitive(a.to<lt>() <sym> b.to<rt>())`",
           "  | rawBits (negated : Bool)             -- areBitwiseEqual(a.value.X, b.value.X): raw union bytes",
           "  | error | missing",
           "  deriving DecidableEq, Repr", "",
           "/-- how a binary primitive:: function picks the case label -/",
           "inductive RetRule",
           "  | maxType                -- (a.type > b.type) ? a.type : b.type",
           "  | leftUnlessRightFloat   -- b.isFloat() ? b.type : a.type",
           "  deriving DecidableEq, Repr", "",
           "/-- bit position of primitiveType::X: the order used by `(a.type > b.type)` -/",
           "def primRank : Ty → Nat"]
    for t in TYS:
        out.append("  | .%s => %d" % (t, ranks[inv[t]]))
    out += ["def primRankNone : Nat := %d" % ranks["none"], "def primRankPtr : Nat := %d" % ranks["ptr"], "",
            table("unRow", "UnOp", list(UN.values()), "URow", un, ".missing"), "",
            table("binRow", "BinOp", list(BIN.values()), "BRow", rows, ".missing"), "",
            "def binRet : BinOp → RetRule"]
    for k in BIN.values():
        out.append("  | .%s => %s" % (k, ret[k]))
    out += ["", "/-- binaryOpNode::evaluate returns before evaluating the right operand of && / || when the left decides -/",
            "def shortCircuit : Bool := %s" % sc, "",
            "/-- primitive::div / mod raise (checkIntegerDivision) for a zero divisor and for INT_MIN / -1 at int32_/int64_ -/",
            "def divGuard : Bool := %s" % div_guard, "",
            "/-- primitive::load types an integer literal from its value (integerLiteral) and not from the suffix alone -/",
            "def literalTypedByValue : Bool := %s" % byvalue, "",
            "/-- type and stored value of an integer literal with magnitude `value` (translated from primitive.cpp) -/",
            "def integerLiteral (value : Nat) (isDecimal unsigned_ : Bool) (longs : Nat) : Ty × Int :=",
            "  " + lit, "", "end Occa.Gen", ""]
    h = write_if_changed(os.path.join(VERIF, "lean/OccaGen/PrimTypes.lean"), "\n".join(out))
    out = {"PrimTypes": h}
    out.update({"pin " + k: v for k, v in pins.items()})
    return out


if __name__ == "__main__":
    try:
        print(gen())
    except TranslateError as e:
        print("TRANSLATE-ERROR:", e)
        sys.exit(3)
