#!/usr/bin/env python3
"""Regenerate lean/OccaGen/PoolConsts.lean from the memory-pool sources of /repo.

Extracted (regex over the function bodies; every shape that is not recognised raises
TranslateError, i.e. a broken tie, never a silent default):
  * the default alignment of modeMemoryPool_t's constructor,
  * the two rounding expressions used for aligned spans (`alignUp`, `alignDown`), and the fact
    that every division in memoryPool.cpp is one of them,
  * which variant of the statements repaired by the pool `fix:` commits the source has now
    (the flags of OccaModel.Pool.Cfg):  reserve() forcing a pack, resize() forming blocks on
    aligned spans, the gap-accumulating sweep of add/removeModeMemoryRef, reserve() comparing the
    aligned size, malloc(use_host_pointer) not marking the buffer wrapped.
The model (OccaModel/Pool.lean) is parametrised by these flags, so it follows the current tree;
the theorems of C03/C04/C05 are proved for `Gen.poolCfg` and need `Gen.poolCfg.Fixed`.
"""
import os, re, sys
sys.path.insert(0, os.path.dirname(os.path.abspath(__file__)))
from cxx2lean import *


def body(src, head):
    """text of the function whose definition starts with `head` (brace matching)"""
    i = src.find(head)
    if i < 0:
        raise TranslateError("function %r not found" % head)
    j = src.index("{", i)
    depth, k = 0, j
    while True:
        if src[k] == "{":
            depth += 1
        elif src[k] == "}":
            depth -= 1
            if depth == 0:
                return src[j:k + 1]
        k += 1


def strip_comments(s):
    s = re.sub(r"/\*.*?\*/", "", s, flags=re.S)
    # add-only verification hooks (`hook:` patches) are not part of the modelled behaviour
    s = re.sub(r"^\s*#\s*ifdef\s+LIBOCCA_OCCA_VERIF\b.*?^\s*#\s*endif[^\n]*", "", s, flags=re.S | re.M)
    s = re.sub(r"^\s*#\s*include[^\n]*", "", s, flags=re.M)
    s = re.sub(r"//[^\n]*", "", s)
    # the pool's backing buffers are made by makeBuffer(), or by makeOwnedBuffer() = makeBuffer() taken out
    # of the device's ring of buffers (C01 repair); the byte counters are not affected
    return s.replace("makeOwnedBuffer()", "makeBuffer()")


def squeeze(s):
    return re.sub(r"\s+", "", s)


def which(text, variants, what):
    """exactly one of the variants (dict name -> list of squeezed snippets that must all occur)"""
    hits = [k for k, snips in variants.items() if all(sn in text for sn in snips)]
    if len(hits) != 1:
        raise TranslateError("%s: expected exactly one known shape, matched %s" % (what, hits))
    return hits[0]


def gen():
    pool = strip_comments(open(os.path.join(REPO, "src/occa/internal/core/memoryPool.cpp")).read())
    sdev = strip_comments(open(os.path.join(REPO, "src/occa/internal/modes/serial/device.cpp")).read())

    m = re.search(r"modeMemoryPool_t::modeMemoryPool_t\([^{]*?\balignment\((\d+)\)", pool, re.S)
    if not m:
        raise TranslateError("default alignment not found in the constructor")
    default_align = int(m.group(1))

    # rounding expressions: every '/' of the file must be inside one of the two shapes
    up = re.findall(r"\(\(([\w>\-\s\+]+?)\+\s*(\w+)\s*-\s*1\)\s*/\s*(\w+)\)\s*\*\s*(\w+)", pool)
    down = re.findall(r"\(([\w>\-]+)\s*/\s*(\w+)\)\s*\*\s*(\w+)", pool)
    for x, a1, a2, a3 in up:
        if not (a1 == a2 == a3 and a1 in ("alignment", "newAlignment")):
            raise TranslateError("round-up expression with mixed alignment names: %r" % ((x, a1, a2, a3),))
    for x, a1, a2 in down:
        if not (a1 == a2 and a1 in ("alignment", "newAlignment")):
            raise TranslateError("round-down expression with mixed alignment names: %r" % ((x, a1, a2),))
    ndiv = len(re.findall(r"(?<![/*])/(?![/*])", pool))
    if ndiv != len(up) + len(down) or not up or not down:
        raise TranslateError("memoryPool.cpp has %d divisions, %d round-up and %d round-down expressions"
                             % (ndiv, len(up), len(down)))

    add = squeeze(body(pool, "void modeMemoryPool_t::addModeMemoryRef"))
    rem = squeeze(body(pool, "void modeMemoryPool_t::removeModeMemoryRef"))
    sweep_variants = {
        "gaps": ["if(mlo>=hi)break;", "if(mhi<=lo)continue;", "if(mlo>lo)uncovered+=mlo-lo;", "lo=std::min(hi,mhi);",
                 "if(lo==hi)break;", "uncovered+=hi-lo;"],
        "intersection": ["if(mlo>=hi)break;", "if(mhi<=lo)continue;", "if(mlo<=lo&&mhi>=hi){hi=lo;}else{hi=std::min(hi,mhi);lo=std::max(lo,mlo);}",
                         "if(lo==hi)break;"],
    }
    sa = which(add, sweep_variants, "addModeMemoryRef sweep")
    sr = which(rem, sweep_variants, "removeModeMemoryRef sweep")
    if sa != sr:
        raise TranslateError("add/removeModeMemoryRef use different sweeps (%s, %s)" % (sa, sr))
    if sa == "gaps":
        if "reserved+=uncovered;" not in add or "reserved-=uncovered;" not in rem:
            raise TranslateError("gap sweep does not feed `reserved`")
    else:
        if "reserved+=hi-lo;" not in add or "reserved-=hi-lo;" not in rem:
            raise TranslateError("intersection sweep does not feed `reserved`")
    for b in (add, rem):
        if "dim_tlo=(mem->offset/alignment)*alignment;" not in b or \
           "dim_thi=((mem->offset+mem->size+alignment-1)/alignment)*alignment;" not in b:
            raise TranslateError("aligned span of `mem` not computed as expected")

    res = squeeze(body(pool, "modeMemory_t* modeMemoryPool_t::reserve"))
    cmp_v = which(res, {
        "aligned": ["if(reserved+alignedBytes>size){", "if(offset+alignedBytes<=size){"],
        "raw": ["if(reserved+bytes>size){", "if(offset+bytes<=size){"],
    }, "size comparisons of reserve()")
    pack_v = which(res, {
        "packs": ["resize(reserved+alignedBytes);returnslice(reserved,bytes);}if(reservations.size()==0)",
                  "}else{resize(reserved+alignedBytes,true);returnslice(reserved,bytes);}"],
        "plain": ["resize(reserved+alignedBytes);returnslice(reserved,bytes);}if(reservations.size()==0)",
                  "}else{resize(reserved+alignedBytes);returnslice(reserved,bytes);}"],
    }, "growth path of reserve()")
    for sn in ["constudim_talignedBytes=((bytes+alignment-1)/alignment)*alignment;",
               "if(reservations.size()==0){returnslice(0,bytes);}",
               "dim_toffset=0;", "constdim_tmlo=m->offset;",
               "constdim_tmhi=((m->offset+m->size+alignment-1)/alignment)*alignment;",
               "if(mlo>=static_cast<dim_t>(offset+bytes))break;", "offset=std::max(offset,mhi);"]:
        if sn not in res:
            raise TranslateError("reserve(): statement %r not found" % sn)

    rz = squeeze(body(pool, "void modeMemoryPool_t::resize"))
    early = which(rz, {"flag": ["if(size==bytes&&!pack)return;"], "noflag": ["if(size==bytes)return;"]},
                  "early return of resize()")
    if (early == "flag") != (pack_v == "packs"):
        raise TranslateError("resize() pack flag and reserve() call do not match")
    blk = which(rz, {
        "aligned": ["dim_tlo=(m->offset/alignment)*alignment;", "dim_thi=m->offset+m->size;",
                    "setPtr(m,newBuffer,m->offset-(lo-offset));do{", "constdim_tmlo=(m->offset/alignment)*alignment;"],
        "bytes": ["dim_tlo=m->offset;", "dim_thi=lo+m->size;", "setPtr(m,newBuffer,offset);do{", "constdim_tmlo=m->offset;"],
    }, "block sweep of resize()")
    for sn in ["reserved<=bytes);", "constudim_talignedBytes=((bytes+alignment-1)/alignment)*alignment;",
               "if(reservations.size()==0){if(buffer)deletebuffer;buffer=makeBuffer();buffer->malloc(alignedBytes);size=alignedBytes;modeDevice->bytesAllocated+=alignedBytes;",
               "newBuffer->malloc(alignedBytes);modeDevice->bytesAllocated+=alignedBytes;",
               "if(mlo>hi){memcpy(newBuffer,offset,buffer,lo,hi-lo);constudim_treservationSize=((hi-lo+alignment-1)/alignment)*alignment;newReserved+=reservationSize;offset+=reservationSize;lo=mlo;hi=mhi;}else{hi=std::max(hi,mhi);}setPtr(m,newBuffer,m->offset-(lo-offset));",
               "memcpy(newBuffer,offset,buffer,lo,hi-lo);newReserved+=((hi-lo+alignment-1)/alignment)*alignment;",
               "deletebuffer;buffer=newBuffer;size=alignedBytes;reserved=newReserved;"]:
        if sn not in rz:
            raise TranslateError("resize(): statement %r not found" % sn)

    al = squeeze(body(pool, "void modeMemoryPool_t::setAlignment"))
    for sn in ["newAlignment!=0);", "if(alignment==newAlignment)return;", "if(reservations.size()!=0){",
               "dim_tlo=m->offset;", "dim_thi=lo+m->size;", "constdim_tmlo=m->offset;",
               "newBuffer->malloc(newReserved);modeDevice->bytesAllocated+=newReserved;",
               "setPtr(m,newBuffer,offset);do{",
               "if(mlo>hi){memcpy(newBuffer,offset,buffer,lo,hi-lo);constudim_treservationSize=((hi-lo+newAlignment-1)/newAlignment)*newAlignment;offset+=reservationSize;lo=mlo;hi=mhi;}else{hi=std::max(hi,mhi);}setPtr(m,newBuffer,m->offset-(lo-offset));",
               "deletebuffer;buffer=newBuffer;size=newReserved;reserved=newReserved;}alignment=newAlignment;"]:
        if sn not in al:
            raise TranslateError("setAlignment(): statement %r not found" % sn)
    if al.count("dim_tlo=m->offset;") + al.count("lo=m->offset;") < 2 or "(m->offset/" in al:
        raise TranslateError("setAlignment(): block start is no longer the byte offset")

    swap_stmt = "reservationSet(reservations.begin(),reservations.end()).swap(reservations);"
    nswap = (swap_stmt + "deletebuffer;buffer=newBuffer;" in rz) + (swap_stmt + "deletebuffer;buffer=newBuffer;" in al)
    if nswap not in (0, 2) or rz.count(swap_stmt) + al.count(swap_stmt) != nswap:
        raise TranslateError("resize()/setAlignment() rebuild the reservation set inconsistently")

    mem_api = squeeze(body(strip_comments(open(os.path.join(REPO, "src/core/memory.cpp")).read()), "occa::memory memory::clone"))
    clone_empty = which(mem_api, {"empty": ["if(!modeMemory||!byte_size()){returnocca::memory();}"],
                                  "throws": ["if(!modeMemory){returnocca::memory();}"]}, "memory::clone() of zero bytes")
    if ".malloc(byte_size(),*this,properties())" not in mem_api:
        raise TranslateError("memory::clone(): allocation statement not found")

    mal = squeeze(body(sdev, "modeMemory_t* device::malloc"))
    host = which(mal, {
        "counted": ['if(src&&props.get("use_host_pointer",false)){buf->ptr=(char*)const_cast<void*>(src);}else{buf->malloc(bytes);}'],
        "wrapped": ['if(src&&props.get("use_host_pointer",false)){buf->wrapMemory(src,bytes);}else{buf->malloc(bytes);}'],
    }, "use_host_pointer branch of serial::device::malloc")

    def b(x):
        return "true" if x else "false"

    out = ["-- GENERATED by translate/gen_pool.py from src/occa/internal/core/memoryPool.cpp and",
           "-- src/occa/internal/modes/serial/device.cpp; do not edit.",
           "import OccaModel.Pool", "namespace Occa.Gen", "open Occa", "",
           "/-- `%s` -/" % "((x + alignment - 1) / alignment) * alignment",
           "def alignUp (alignment x : Nat) : Nat := ((x + alignment - 1) / alignment) * alignment",
           "/-- `(x / alignment) * alignment` -/",
           "def alignDown (alignment x : Nat) : Nat := (x / alignment) * alignment",
           "/-- number of round-up / round-down expressions found (all divisions of the file) -/",
           "def roundUpSites : Nat := %d" % len(up),
           "def roundDownSites : Nat := %d" % len(down),
           "",
           "def poolCfg : Pool.Cfg :=",
           "  { defaultAlign := %d," % default_align,
           "    reservePacks := %s," % b(pack_v == "packs"),
           "    resizeBlocksAligned := %s," % b(blk == "aligned"),
           "    sweepAccumulatesGaps := %s," % b(sa == "gaps"),
           "    reserveComparesAligned := %s," % b(cmp_v == "aligned"),
           "    hostPtrCounted := %s," % b(host == "counted"),
           "    setRebuiltAfterPacking := %s," % b(nswap == 2),
           "    cloneEmptyReturnsEmpty := %s }" % b(clone_empty == "empty"),
           "", "end Occa.Gen", ""]
    h = write_if_changed(os.path.join(VERIF, "lean/OccaGen/PoolConsts.lean"), "\n".join(out))
    return {"PoolConsts": h}


if __name__ == "__main__":
    try:
        print(gen())
    except TranslateError as e:
        print("TRANSLATE-ERROR:", e)
        sys.exit(3)
