#!/usr/bin/env python3
"""Regenerate lean/OccaGen/MemGuards.lean from the memory sources of /repo:

   for each function the C02 model (lean/OccaModel/Mem.lean) was written after, the ordered list of
   its guard events as they stand in the source NOW:
     return:<cond>   an `if (<cond>) return …;` / `if (<cond>) { return …; }` early return
     assert:<obj>    `assertInitialized()` on this / on another operand
     error:<cond>    `OCCA_ERROR(<message>, <cond>)` — raises unless <cond>
     if:<cond>       a conditional that guards the copy of the initial data
     call:<fn>       which libc routine moves the bytes
     let:<x> = <e>   a `const int|dim_t|udim_t x = e;` byte/offset computation
     ret:<e>         the quotient returned by memory::length()
   The theorem C02_guards_as_modelled compares the list with the one the model transcribes, so a
   dropped, added, reordered or edited guard breaks the proof build until the model is revisited.
"""
import os, re, sys
sys.path.insert(0, os.path.dirname(os.path.abspath(__file__)))
from cxx2lean import REPO, VERIF, TranslateError, write_if_changed


def body_after(src, header_re, what):
    m = re.search(header_re, src, re.S)
    if not m:
        raise TranslateError("%s: header not found" % what)
    i = src.index("{", m.end() - 1)
    depth, j = 0, i
    while j < len(src):
        if src[j] == "{":
            depth += 1
        elif src[j] == "}":
            depth -= 1
            if depth == 0:
                return src[i + 1:j]
        j += 1
    raise TranslateError("%s: unbalanced braces" % what)


def norm(s):
    return re.sub(r"\s+", " ", s).strip()


def split_top(args):
    """split a macro argument list at top-level commas"""
    out, depth, cur, instr = [], 0, "", False
    k = 0
    while k < len(args):
        c = args[k]
        if instr:
            cur += c
            if c == "\\":
                cur += args[k + 1]
                k += 1
            elif c == '"':
                instr = False
        elif c == '"':
            instr = True
            cur += c
        elif c in "([{":
            depth += 1
            cur += c
        elif c in ")]}":
            depth -= 1
            cur += c
        elif c == "," and depth == 0:
            out.append(cur)
            cur = ""
        else:
            cur += c
        k += 1
    out.append(cur)
    return out


def paren_group(body, start):
    """text inside the parentheses opening at body[start] == '('"""
    depth, j, instr = 0, start, False
    while j < len(body):
        c = body[j]
        if instr:
            if c == "\\":
                j += 1
            elif c == '"':
                instr = False
        elif c == '"':
            instr = True
        elif c == "(":
            depth += 1
        elif c == ")":
            depth -= 1
            if depth == 0:
                return body[start + 1:j], j
        j += 1
    raise TranslateError("unbalanced parentheses")


def events(body):
    body = re.sub(r"//[^\n]*", "", body)
    ev = []
    pos = 0
    pat = re.compile(r"\breturn\s+\(?\s*\w+\s*\?[^;]*;|\breturn\s+modeMemory->size\s*/[^;]*;|\bOCCA_ERROR\s*\(|\bif\s*\(|(\b\w+\s*\.\s*)?\bassertInitialized\s*\(\s*\)|::(memcpy|memmove)\s*\("
                     r"|\bconst\s+(?:int|dim_t|udim_t)\s+(\w+)\s*=\s*([^;]+);")
    while True:
        m = pat.search(body, pos)
        if not m:
            break
        tok = m.group(0)
        if tok.startswith("return"):
            ev.append("ret:" + norm(tok[6:].rstrip(";")))
            pos = m.end()
        elif tok.startswith("OCCA_ERROR"):
            inner, end = paren_group(body, m.end() - 1)
            parts = split_top(inner)
            if len(parts) != 2:
                raise TranslateError("OCCA_ERROR with %d arguments" % len(parts))
            ev.append("error:" + norm(parts[1]))
            pos = end
        elif tok.startswith("if"):
            cond, end = paren_group(body, m.end() - 1)
            rest = body[end + 1:end + 40].lstrip()
            if rest.startswith("{"):
                rest = rest[1:].lstrip()
            ev.append(("return:" if rest.startswith("return") else "if:") + norm(cond))
            pos = end
        elif tok.startswith("const"):
            ev.append("let:%s = %s" % (m.group(3), norm(m.group(4))))
            pos = m.end()
        elif "assertInitialized" in tok:
            obj = m.group(1)
            ev.append("assert:" + (norm(obj).rstrip(". ") if obj else "this"))
            pos = m.end()
        else:
            ev.append("call:" + m.group(2))
            pos = m.end()
    return ev


FUNCS = [
    # (name in the generated table, file, header regex)
    ("memory::length", "src/core/memory.cpp", r"udim_t\s+memory::length\s*\(\s*\)\s*const\s*\{"),
    ("memory::slice", "src/core/memory.cpp", r"occa::memory\s+memory::slice\s*\([^)]*\)\s*const\s*\{"),
    ("memory::copyFrom(ptr)", "src/core/memory.cpp", r"void\s+memory::copyFrom\s*\(\s*const\s+void\s*\*\s*src\s*,\s*const\s+dim_t\s+count[^)]*\)\s*\{"),
    ("memory::copyFrom(memory)", "src/core/memory.cpp", r"void\s+memory::copyFrom\s*\(\s*const\s+memory\s+src\s*,\s*const\s+dim_t\s+count[^)]*\)\s*\{"),
    ("memory::copyTo(ptr)", "src/core/memory.cpp", r"void\s+memory::copyTo\s*\(\s*void\s*\*\s*dest\s*,\s*const\s+dim_t\s+count[^)]*\)\s*const\s*\{"),
    ("memory::copyTo(memory)", "src/core/memory.cpp", r"void\s+memory::copyTo\s*\(\s*memory\s+dest\s*,\s*const\s+dim_t\s+count[^)]*\)\s*const\s*\{"),
    ("memory::cast", "src/core/memory.cpp", r"occa::memory\s+memory::cast\s*\([^)]*\)\s*const\s*\{"),
    ("memory::clone", "src/core/memory.cpp", r"occa::memory\s+memory::clone\s*\(\s*\)\s*const\s*\{"),
    ("memory::setDtype", "src/core/memory.cpp", r"void\s+memory::setDtype\s*\([^)]*\)\s*\{"),
    ("modeMemory_t::slice", "src/occa/internal/core/memory.cpp", r"modeMemory_t\s*\*\s*modeMemory_t::slice\s*\([^)]*\)\s*\{"),
    ("device::malloc(ptr)", "src/core/device.cpp", r"occa::memory\s+device::malloc\s*\(\s*const\s+dim_t\s+entries\s*,\s*const\s+dtype_t\s*&\s*dtype\s*,\s*const\s+void\s*\*\s*src[^)]*\)\s*\{"),
    ("device::malloc(memory)", "src/core/device.cpp", r"occa::memory\s+device::malloc\s*\(\s*const\s+dim_t\s+entries\s*,\s*const\s+dtype_t\s*&\s*dtype\s*,\s*const\s+occa::memory\s+src[^)]*\)\s*\{"),
    ("device::wrapMemory", "src/core/device.cpp", r"occa::memory\s+device::wrapMemory\s*\(\s*const\s+void\s*\*\s*ptr\s*,\s*const\s+dim_t\s+entries\s*,\s*const\s+dtype_t[^)]*\)\s*\{"),
    ("serial::memory::copyTo", "src/occa/internal/modes/serial/memory.cpp", r"void\s+memory::copyTo\s*\(\s*void\s*\*\s*dest[^)]*\)\s*const\s*\{"),
    ("serial::memory::copyFrom(ptr)", "src/occa/internal/modes/serial/memory.cpp", r"void\s+memory::copyFrom\s*\(\s*const\s+void\s*\*\s*src[^)]*\)\s*\{"),
    ("serial::memory::copyFrom(memory)", "src/occa/internal/modes/serial/memory.cpp", r"void\s+memory::copyFrom\s*\(\s*const\s+modeMemory_t\s*\*\s*src[^)]*\)\s*\{"),
]


def lean_str(s):
    return '"' + s.replace("\\", "\\\\").replace('"', '\\"') + '"'


def gen():
    cache = {}
    rows = []
    for name, rel, hdr in FUNCS:
        if rel not in cache:
            p = os.path.join(REPO, rel)
            if not os.path.exists(p):
                raise TranslateError("%s does not exist" % rel)
            cache[rel] = open(p).read()
        ev = events(body_after(cache[rel], hdr, name))
        rows.append((name, ev))
    # the OpenMP device must still inherit the serial memory code
    omp = open(os.path.join(REPO, "src/occa/internal/modes/openmp/device.hpp")).read()
    inherits = bool(re.search(r"class\s+device\s*:\s*public\s+serial::device", omp))
    omp_cpp = open(os.path.join(REPO, "src/occa/internal/modes/openmp/device.cpp")).read()
    overrides = bool(re.search(r"device::(malloc|wrapMemory)\s*\(", omp_cpp))
    out = ["-- GENERATED by translate/gen_mem.py from src/core/memory.cpp, src/core/device.cpp,",
           "-- src/occa/internal/core/memory.cpp, src/occa/internal/modes/serial/memory.cpp; do not edit.",
           "namespace Occa.Gen", "",
           "/-- guard events of each memory function, in source order -/",
           "def memGuards : List (String × List String) := ["]
    for k, (name, ev) in enumerate(rows):
        out.append("  (%s, [%s])%s" % (lean_str(name), ", ".join(lean_str(e) for e in ev), "," if k + 1 < len(rows) else ""))
    out += ["]", "",
            "/-- openmp::device derives from serial::device and does not override malloc / wrapMemory -/",
            "def ompUsesSerialMemory : Bool := %s" % ("true" if inherits and not overrides else "false"),
            "", "end Occa.Gen", ""]
    h = write_if_changed(os.path.join(VERIF, "lean/OccaGen/MemGuards.lean"), "\n".join(out))
    return {"MemGuards": h}


if __name__ == "__main__":
    try:
        print(gen())
    except TranslateError as e:
        print("TRANSLATE-ERROR:", e)
        sys.exit(3)
